import Rare.Model.C12Rx
import Rare.Proofs.C02Rx
import Rare.Proofs.C12Lazy
import Rare.Proofs.C12Ext
/-!
Seam C12 / C02: C02's model of Go's regexp engine, run on the expression a dissect pattern stands
for (`Model/C12Rx.lean`), returns the dissect specification's answer.  The proof unfolds the
priority-ordered match list `den` of the expression into the backtracking matcher `lazyDissect`
(they are the same search, written twice) and then uses `lazyDissect_eq_spec`.
-/
namespace Rare.C12
open Rare.C02.Rx

/-! ### `firstFrom` algebra -/

theorem firstFrom_congr {α : Type} (f g : Nat → Option α) (fuel start : Nat)
    (h : ∀ i, start ≤ i → i < start + fuel → f i = g i) : firstFrom f fuel start = firstFrom g fuel start := by
  induction fuel generalizing start with
  | zero => rfl
  | succ k ih =>
    simp only [firstFrom]
    rw [h start (Nat.le_refl _) (by omega), ih (start + 1) (fun i a b => h i (by omega) (by omega))]

theorem firstFrom_map {α β : Type} (f : Nat → Option α) (g : α → β) (fuel start : Nat) :
    (firstFrom f fuel start).map g = firstFrom (fun j => (f j).map g) fuel start := by
  induction fuel generalizing start with
  | zero => rfl
  | succ k ih =>
    simp only [firstFrom]
    cases f start with
    | none => exact ih _
    | some x => rfl

theorem firstFrom_shift {α : Type} (f : Nat → Option α) (fuel start : Nat) :
    firstFrom f fuel start = firstFrom (fun m => f (start + m)) fuel 0 := by
  induction fuel generalizing start f with
  | zero => rfl
  | succ k ih =>
    simp only [firstFrom, Nat.add_zero]
    cases f start with
    | some x => rfl
    | none =>
      rw [ih f (start + 1), ih (fun m => f (start + m)) 1]
      apply firstFrom_congr
      intro i _ _
      show f (start + 1 + i) = f (start + (1 + i))
      congr 1; omega

theorem head?_flatMap_range' {α : Type} (F : Nat → List α) (k i : Nat) :
    ((List.range' i k).flatMap F).head? = firstFrom (fun j => (F j).head?) k i := by
  induction k generalizing i with
  | zero => rfl
  | succ k ih =>
    simp only [List.range'_succ, List.flatMap_cons, List.head?_append, firstFrom, ih]
    cases (F i).head? <;> rfl

theorem option_map_congr {α β : Type} (o : Option α) (f g : α → β) (h : ∀ x, o = some x → f x = g x) :
    o.map f = o.map g := by
  cases o with
  | none => rfl
  | some x => simp [h x rfl]

/-! ### `den` of the building blocks -/

theorem den_anyByte (s : Bytes) (i : Nat) (c : Caps) :
    den s anyByte i c = if i < s.length then [(i + 1, c)] else [] := by
  simp only [anyByte, den]
  by_cases h : i < s.length
  · simp [h, inCls]
  · simp [h]

theorem den_litRe (s u : Bytes) (k : Re) (i : Nat) (c : Caps) :
    den s (litRe u k) i c = if u <+: s.drop i then den s k (i + u.length) c else [] := by
  induction u generalizing i with
  | nil => simp [litRe]
  | cons b bs ih =>
    simp only [litRe, den]
    by_cases h : i < s.length
    · have hd : s.drop i = s[i] :: s.drop (i + 1) := List.drop_eq_getElem_cons h
      simp only [List.getElem?_eq_getElem h, hd, List.cons_prefix_cons]
      by_cases hb : s[i] = b
      · subst hb
        have hin : inCls false [(s[i], s[i])] s[i] = true := by simp [inCls]
        simp only [hin, if_true, List.flatMap_cons, List.flatMap_nil, List.append_nil, ih, true_and,
          List.length_cons]
        rw [show i + 1 + bs.length = i + (bs.length + 1) by omega]
      · have hin : inCls false [(b, b)] s[i] = false := by
          simp only [inCls, List.any_cons, List.any_nil, Bool.or_false, Bool.false_bne]
          rw [Bool.and_eq_false_iff]
          by_cases h1 : b ≤ s[i]
          · right
            simp only [decide_eq_false_iff_not]
            intro h2
            exact hb (UInt8.le_antisymm h2 h1)
          · left; simp [h1]
        have hb' : ¬ (b = s[i]) := fun e => hb e.symm
        simp [hin, hb']
    · have hn : s.drop i = [] := List.drop_eq_nil_of_le (Nat.le_of_not_lt h)
      simp [List.getElem?_eq_none (Nat.le_of_not_lt h), hn]

theorem iter_lazy_any (s : Bytes) (c : Caps) : ∀ f i, i ≤ s.length → s.length - i ≤ f →
    iter (den s anyByte) false f i c = (List.range' i (s.length - i + 1)).map (·, c) := by
  intro f
  induction f with
  | zero =>
    intro i hi hf
    have : s.length - i = 0 := by omega
    simp [iter, this]
  | succ f ih =>
    intro i hi hf
    simp only [iter, Bool.false_eq_true, if_false, den_anyByte]
    by_cases h : i < s.length
    · simp only [h, if_true, List.filter_cons, Nat.lt_succ_self, decide_true, List.filter_nil,
        List.flatMap_cons, List.flatMap_nil, List.append_nil]
      rw [ih (i + 1) (by omega) (by omega)]
      rw [show s.length - i + 1 = (s.length - (i + 1) + 1) + 1 by omega, List.range'_succ]
      rfl
    · have : s.length - i = 0 := by omega
      simp [h, this]

theorem iter_greedy_any_head (s : Bytes) (c : Caps) : ∀ f i, i ≤ s.length → s.length - i ≤ f →
    (iter (den s anyByte) true f i c).head? = some (s.length, c) := by
  intro f
  induction f with
  | zero =>
    intro i hi hf
    have : i = s.length := by omega
    simp [iter, this]
  | succ f ih =>
    intro i hi hf
    simp only [iter, if_true, den_anyByte]
    by_cases h : i < s.length
    · simp only [h, if_true, List.filter_cons, Nat.lt_succ_self, decide_true, List.filter_nil,
        List.flatMap_cons, List.flatMap_nil, List.append_nil, List.head?_append]
      rw [ih (i + 1) (by omega) (by omega)]
      rfl
    · have : i = s.length := by omega
      simp [this]

/-! ### the capture log of the expression vs. the capture list of the specification -/

/-- the log after closing groups `n, n+1, …` with the spans `caps = [a₁, b₁, a₂, b₂, …]` -/
def logOf : List Nat → Nat → Caps → Caps
  | a :: b :: rest, n, c => logOf rest (n + 1) ((n, a, b) :: c)
  | _, _, c => c

theorem flatMap_pair_id (l : List Res) : (l.flatMap fun r => [(r.1, r.2)]) = l := by
  induction l with
  | nil => rfl
  | cons x xs ih => simp [List.flatMap_cons, ih]

/-- **The priority list of the expression starts with the backtracking matcher's answer.** -/
theorem den_toksRe_head (s : Bytes) : ∀ (ts : List Tok) (n pos : Nat) (c : Caps),
    midLits ts = true → pos ≤ s.length →
    (den s (toksRe ts n) pos c).head? = (lazyToks s ts pos).map fun ce => (ce.2, logOf ce.1 n c) := by
  intro ts
  induction ts with
  | nil => intro n pos c _ _; simp [toksRe, den, lazyToks, logOf]
  | cons t ts ih =>
    intro n pos c hm hp
    by_cases hl : t.lit = []
    · -- the last token: greedy loop to the end of the line
      have hts : ts = [] := by
        cases ts with
        | nil => rfl
        | cons t' ts' => simp [midLits, hl] at hm
      subst hts
      have hlen : pos + (s.length - pos) = s.length := by omega
      simp only [toksRe, hl, beq_self_eq_true, litRe, den, lazyToks, if_true, List.length_nil, Nat.add_zero,
        Option.map_some, hlen, List.append_nil]
      by_cases hs : t.skip = true
      · simp only [hs, if_true, den, flatMap_pair_id]
        rw [iter_greedy_any_head s c _ pos hp (by omega)]
        simp [logOf]
      · simp only [hs, Bool.false_eq_true, if_false, den, flatMap_pair_id, List.head?_map]
        rw [iter_greedy_any_head s c _ pos hp (by omega)]
        simp [logOf]
    · have hmts : midLits ts = true := by
        cases ts with
        | nil => rfl
        | cons t' ts' => simp [midLits] at hm; exact hm.2
      have hbeq : (t.lit == []) = false := by simpa using hl
      -- the list of the token's loop: positions pos, pos+1, …, len, each with its log
      have hloop : den s (if t.skip then Re.star (t.lit == []) anyByte else Re.grp n (Re.star (t.lit == []) anyByte)) pos c =
          (List.range' pos (s.length - pos + 1)).map fun j => (j, if t.skip then c else (n, pos, j) :: c) := by
        by_cases hs : t.skip = true
        · simp only [hs, if_true, den, hbeq]
          exact iter_lazy_any s c _ pos hp (by omega)
        · simp only [hs, Bool.false_eq_true, if_false, den, hbeq]
          rw [iter_lazy_any s c _ pos hp (by omega), List.map_map]
          rfl
      simp only [toksRe, den]
      rw [hloop, List.flatMap_map, head?_flatMap_range']
      simp only [lazyToks, hl, if_false]
      rw [firstFrom_map, firstFrom_shift (fuel := s.length - pos + 1) (start := pos)]
      apply firstFrom_congr
      intro m _ hm2
      simp only [den_litRe, List.isPrefixOf_iff_prefix]
      by_cases hpre : t.lit <+: s.drop (pos + m)
      · have hin := prefix_in_line hl hpre
        simp only [hpre, if_true]
        rw [ih _ _ _ hmts hin, Option.map_map]
        apply option_map_congr
        intro ce _
        by_cases hs : t.skip = true
        · simp [hs]
        · simp [hs, logOf]
      · simp [hpre]

/-! ### `search` as `firstFrom`, the top level -/

theorem searchFrom_eq_firstFrom (s : Bytes) (r : Re) (fuel start : Nat) :
    searchFrom s r fuel start = firstFrom (fun p => (matchAt s r p).map fun res => (p, res)) fuel start := by
  induction fuel generalizing start with
  | zero => rfl
  | succ k ih =>
    simp only [searchFrom, firstFrom]
    cases matchAt s r start with
    | none => exact ih _
    | some x => rfl

theorem lookup_logOf : ∀ (m : Nat) (caps : List Nat) (k : Nat) (c : Caps) (n : Nat),
    caps.length = 2 * m → n < k → lookup (logOf caps k c) n = lookup c n := by
  intro m
  induction m with
  | zero =>
    intro caps k c n hl _
    have : caps = [] := List.length_eq_zero_iff.mp (by omega)
    subst this; rfl
  | succ m ih =>
    intro caps k c n hl hn
    match caps, hl with
    | a :: b :: rest, hl =>
      simp only [logOf]
      rw [ih rest (k + 1) _ n (by simp at hl; omega) (by omega)]
      have : (k == n) = false := by simp; omega
      simp [lookup, this]

theorem groupPairs_logOf : ∀ (m : Nat) (caps : List Nat) (k : Nat) (c : Caps),
    caps.length = 2 * m → groupPairs (logOf caps k c) m k = caps.map Int.ofNat := by
  intro m
  induction m with
  | zero =>
    intro caps k c hl
    have : caps = [] := List.length_eq_zero_iff.mp (by omega)
    subst this; rfl
  | succ m ih =>
    intro caps k c hl
    match caps, hl with
    | a :: b :: rest, hl =>
      have hr : rest.length = 2 * m := by simp at hl; omega
      simp only [logOf, groupPairs, List.map_cons]
      rw [ih rest (k + 1) _ hr]
      have : lookup (logOf rest (k + 1) ((k, a, b) :: c)) k = some (a, b) := by
        rw [lookup_logOf m rest (k + 1) _ k hr (by omega)]
        simp [lookup]
      simp [spanOf, this]


theorem matchAt_patRe (p : Pat) (line : Bytes) (hm : midLits p.toks = true) (i : Nat) (hi : i ≤ line.length) :
    matchAt line (patRe p) i =
      if p.pre <+: line.drop i then
        (lazyToks line p.toks (i + p.pre.length)).map fun ce => (ce.2, logOf ce.1 1 [])
      else none := by
  rw [matchAt_eq, patRe, den_litRe]
  by_cases hp : p.pre <+: line.drop i
  · have hlen : i + p.pre.length ≤ line.length := by
      have := hp.length_le
      simp only [List.length_drop] at this
      omega
    simp only [hp, if_true]
    exact den_toksRe_head line p.toks 1 _ [] hm hlen
  · simp [hp]

theorem search_patRe (p : Pat) (line : Bytes) (hm : midLits p.toks = true) :
    (search line (patRe p)).map (indicesOf (groupsOf p.toks)) = (lazyDissect p line).map (·.map Int.ofNat) := by
  simp only [search, searchFrom_eq_firstFrom, lazyDissect, firstFrom_map]
  apply firstFrom_congr
  intro i _ hi
  rw [matchAt_patRe p line hm i (by omega)]
  simp only [List.isPrefixOf_iff_prefix]
  by_cases hp : p.pre <+: line.drop i
  · simp only [hp, if_true, Option.map_map]
    apply option_map_congr
    intro ce hce
    rw [lazyToks_eq_spec] at hce
    obtain ⟨caps, e⟩ := ce
    have hl : caps.length = 2 * groupsOf p.toks := specToks_caps_length hce
    simp only [Function.comp, indicesOf, groupPairs_logOf _ caps 1 [] hl]
    rfl
  · simp [hp]

/-- C02's regexp model on the pattern's expression = the backtracking matcher = the specification -/
theorem rxDissect_eq_spec (p : Pat) (line : Bytes) (hm : midLits p.toks = true) :
    rxDissect p line = (specDissect p line).map (·.map Int.ofNat) := by
  have h := search_patRe p line hm
  rw [lazyDissect_eq_spec] at h
  simp only [rxDissect, Rare.C02.Rx.findSubmatchIndex]
  cases hs : search line (patRe p) with
  | none =>
    rw [hs] at h
    cases hd : specDissect p line with
    | none => rfl
    | some r => rw [hd] at h; cases h
  | some m =>
    rw [hs] at h
    simp only [Option.map_some] at h
    rw [← h]
    simp [indicesOf]


/-- what `CompileEx` accepts has a trailing literal on every token but the last -/
theorem midLits_of_specErrors : ∀ (ts : List Tok) (seen : List Bytes), specErrors false ts seen = none → midLits ts = true := by
  intro ts
  induction ts with
  | nil => intro _ _; rfl
  | cons t ts ih =>
    intro seen h
    simp only [specErrors] at h
    split at h
    · cases h
    · rename_i h1
      split at h
      · cases h
      · cases ts with
        | nil => rfl
        | cons t' ts' =>
          have hl : t.lit ≠ [] := by
            intro hl
            exact h1 ⟨hl, Or.inl (by simp)⟩
          have := ih _ h
          simp [midLits, hl, this]

theorem midLits_lowerLit (ts : List Tok) : midLits (ts.map Tok.lowerLit) = midLits ts := by
  induction ts with
  | nil => rfl
  | cons t ts ih =>
    cases ts with
    | nil => rfl
    | cons t' ts' =>
      simp only [List.map_cons, midLits] at ih ⊢
      rw [ih]
      congr 1
      simp only [Tok.lowerLit, lower]
      cases hl : t.lit with
      | nil => rfl
      | cons a as => rfl


/-! ### the specification without positions: the line is an instance of the pattern -/

/-- `v₁ lit₁ v₂ lit₂ …` -/
def bodyOf (ts : List Tok) (vs : List Bytes) : Bytes := ((vs.zip ts).map fun vt => vt.1 ++ vt.2.lit).flatten

theorem endsOpen_cons_cons (t t' : Tok) (ts : List Tok) : endsOpen (t :: t' :: ts) = endsOpen (t' :: ts) := by
  simp [endsOpen, List.getLast?_cons_cons]

theorem isSplit_of_text {line : Bytes} : ∀ (ts : List Tok) (vs : List Bytes) (pos : Nat) (rest : Bytes),
    midLits ts = true → vs.length = ts.length → line.drop pos = bodyOf ts vs ++ rest → pos ≤ line.length →
    (endsOpen ts = true → rest = []) → IsSplit line ts pos (vs.map List.length) := by
  intro ts
  induction ts with
  | nil =>
    intro vs pos rest _ hl _ _ _
    have : vs = [] := List.length_eq_zero_iff.mp (by simpa using hl)
    subst this; simp [IsSplit]
  | cons t ts ih =>
    intro vs pos rest hm hl htext hp hopen
    match vs, hl with
    | v :: vs, hl =>
      have hl' : vs.length = ts.length := by simpa using hl
      simp only [bodyOf, List.zip_cons_cons, List.map_cons, List.flatten_cons] at htext
      have hlen := congrArg List.length htext
      simp only [List.length_drop, List.length_append] at hlen
      have hdrop : line.drop (pos + v.length) = t.lit ++ (bodyOf ts vs ++ rest) := by
        rw [← List.drop_drop, htext]
        simp [bodyOf, List.append_assoc]
      have hdrop2 : line.drop (pos + v.length + t.lit.length) = bodyOf ts vs ++ rest := by
        rw [← List.drop_drop, hdrop]; simp
      simp only [List.map_cons, IsSplit]
      refine ⟨by omega, ?_, ?_⟩
      · by_cases hlit : t.lit = []
        · simp only [hlit, if_true]
          have hts : ts = [] := by
            cases ts with
            | nil => rfl
            | cons t' ts' => simp [midLits, hlit] at hm
          subst hts
          have hvs : vs = [] := List.length_eq_zero_iff.mp (by simpa using hl')
          subst hvs
          have hr : rest = [] := hopen (by simp [endsOpen, hlit])
          subst hr
          simp [hlit] at hlen
          omega
        · simp only [hlit, if_false]
          rw [hdrop]; exact List.prefix_append _ _
      · have hmts : midLits ts = true := by
          cases ts with
          | nil => rfl
          | cons t' ts' => simp [midLits] at hm; exact hm.2
        apply ih vs _ rest hmts hl' hdrop2 (by omega)
        intro ho
        cases ts with
        | nil => simp [endsOpen] at ho
        | cons t' ts' => exact hopen (by rw [endsOpen_cons_cons]; exact ho)

theorem isSplit_end_of_open {line : Bytes} : ∀ (ts : List Tok) (pos : Nat) (ns : List Nat),
    IsSplit line ts pos ns → endsOpen ts = true → (capsOf ts pos ns).2 = line.length := by
  intro ts
  induction ts with
  | nil => intro pos ns _ ho; simp [endsOpen] at ho
  | cons t ts ih =>
    intro pos ns h ho
    match ns, h with
    | n :: ns, h =>
      simp only [IsSplit] at h
      simp only [capsOf]
      cases ts with
      | nil =>
        have hlit : t.lit = [] := by simpa [endsOpen] using ho
        have h2 := h.2.1
        simp only [hlit, if_true] at h2
        have hns : ns = [] := by simpa [IsSplit] using h.2.2
        subst hns
        simp [capsOf, hlit, h2]
      | cons t' ts' =>
        exact ih _ _ h.2.2 (by rw [endsOpen_cons_cons] at ho; exact ho)

/-- **Readings and instances are the same thing**: the line has a reading (`IsMatch`) iff it is an
instance of the pattern (`IsInstance`: `before ++ lit₀ v₁ lit₁ … ++ after`). -/
theorem isInstance_iff_isMatch (p : Pat) (hm : midLits p.toks = true) (line : Bytes) :
    IsInstance p line ↔ ∃ s ns, IsMatch p line s ns := by
  constructor
  · rintro ⟨a, vs, rest, hl, htext, hopen⟩
    have hlen := congrArg List.length htext
    simp only [instantiate, List.length_append] at hlen
    have hd : line.drop a.length = p.pre ++ (bodyOf p.toks vs ++ rest) := by
      rw [htext]; simp [instantiate, bodyOf, List.append_assoc]
    have hd2 : line.drop (a.length + p.pre.length) = bodyOf p.toks vs ++ rest := by
      rw [← List.drop_drop, hd]; simp
    exact ⟨a.length, vs.map List.length, by omega, by rw [hd]; exact List.prefix_append _ _,
      isSplit_of_text p.toks vs _ rest hm hl hd2 (by omega) hopen⟩
  · rintro ⟨s, ns, hb, hpre, hsplit⟩
    obtain ⟨h1, h2, h3⟩ := split_span hsplit hb
    refine ⟨line.take s, valuesOf line p.toks (s + p.pre.length) ns,
      line.drop (capsOf p.toks (s + p.pre.length) ns).2, valuesOf_length (IsSplit_length hsplit), ?_, ?_⟩
    · generalize hE : (capsOf p.toks (s + p.pre.length) ns).2 = E at h1 h2 h3
      simp only [instantiate, ← h1]
      have e1 : line.drop s = p.pre ++ line.drop (s + p.pre.length) := by
        rw [← List.drop_drop]
        conv => lhs; rw [← List.take_append_drop p.pre.length (line.drop s)]
        rw [take_of_prefix hpre]
      have e2 : line.drop (s + p.pre.length) =
          (line.drop (s + p.pre.length)).take (E - (s + p.pre.length)) ++ line.drop E := by
        conv => lhs; rw [← List.take_append_drop (E - (s + p.pre.length)) (line.drop (s + p.pre.length))]
        rw [List.drop_drop]
        congr 2; omega
      conv => lhs; rw [← List.take_append_drop s line, e1, e2]
      simp [List.append_assoc]
    · intro ho
      rw [isSplit_end_of_open _ _ _ hsplit ho]
      simp

end Rare.C12
