import Rare.Proofs.C10State
/-!
A `cache` date stage reached through a binder / a funcs-file function (C10, round 4b + the repair of `fold-lenient`).

The stage answers from its memory (the layout the first detected date left behind), so what it answers for a value
the caller holds constant is NOT a constant: the real library parses, by a remembered layout, values whose layout it
cannot detect (Go's `time.Parse` skips extra spaces that `dateparse.ParseFormat` rejects).  Up to /repo 6998c9c
(`TimeRev.v3`) the optimiser folded such a stage (`lenientLib` is the kernel-checked witness, the finding
`fold-lenient`); since 1dba502 (`TimeRev.cur`) a static analysis touches the context whenever the stage would consult
its memory, so the stage is folded only when EVERY value is the empty literal – and then it answers
`<PARSE-ERROR>` per value whatever the history: `timeMap_optimize`, for every library and all element stages.
-/
namespace Rare.C10
open Rare.Expr

/-- A static analysis of `{time {0}}` over `elems` that makes no look-up at all saw only empty literals: it leaves
    the cells alone, and every evaluation – static or on input, from any cells – answers the same and leaves the cells
    alone. -/
theorem timeOnElems_static_ret {L : Type} (lib : TimeLib L) :
    ∀ (elems : List Stage) (st : TimeSt L) (p : List Bytes × TimeSt L),
      timeOnElems .cur lib elems true st = .ret p →
      p.2 = st ∧ ∀ (static : Bool) (st' : TimeSt L), timeOnElems .cur lib elems static st' = .ret (p.1, st') := by
  intro elems
  induction elems with
  | nil =>
    intro st p h
    simp only [timeOnElems, Comp.ret.injEq] at h
    subst h
    exact ⟨rfl, fun _ _ => rfl⟩
  | cons e rest ih =>
    intro st p h
    simp only [timeOnElems] at h
    obtain ⟨v, he, hf⟩ := bind_eq_ret h
    subst he
    by_cases hv : v = []
    · subst hv
      have hstep : ∀ (static : Bool) (s : TimeSt L), timeStep .cur lib [] static [] s = (ErrorParsing, s) := by
        intro static s; simp [timeStep]
      simp only [timeTouches_empty, touchIf_false, hstep] at hf
      obtain ⟨q, hq, hp⟩ := bind_eq_ret hf
      simp only [Comp.ret.injEq] at hp
      subst hp
      obtain ⟨h2, hall⟩ := ih st q hq
      refine ⟨h2, fun static st' => ?_⟩
      simp only [timeOnElems, Comp.bind, timeTouches_empty, touchIf_false, hstep, hall static st']
    · rw [timeTouches_cur_static hv, touchIf_true] at hf
      cases hf

/-- …so the enclosing stage is a literal without memory. -/
theorem timeMap_static_ret {L : Type} (lib : TimeLib L) (elems : List Stage) (st : TimeSt L) (v : Bytes)
    (st1 : TimeSt L) (h : timeMapStage .cur lib elems true st = .ret (v, st1)) :
    timeMapStage .cur lib elems = fun _ st' => .ret (v, st') := by
  unfold timeMapStage at h
  obtain ⟨p, hp, hf⟩ := bind_eq_ret h
  simp only [Comp.ret.injEq, Prod.mk.injEq] at hf
  obtain ⟨_, hall⟩ := timeOnElems_static_ret lib elems st p hp
  funext static st'
  simp only [timeMapStage, hall static st', Comp.bind, hf.1]

/-- Histories from cells that agree on `atomicFormat` answer the same. -/
theorem timeMap_events_real {L : Type} (lib : TimeLib L) (elems : List Stage) (evs : List Ev) (st st' : TimeSt L)
    (h : st.real = st'.real) :
    runEvents (timeMapStage .cur lib elems) st evs = runEvents (timeMapStage .cur lib elems) st' evs := by
  rw [timeMap_probe_invisible lib elems evs st']
  exact probe_invisible_of _ TimeSt.real (fun a b c h => timeMap_hreal lib elems a b c h)
    (timeMap_probeStep lib elems) evs st st' h

/-- **`optimize_sound` for a `cache` stage behind a binder or a funcs-file function** – every library, ANY element
    stages (constant, dynamic, mixed, panicking), any cells the static analysis starts from, every history. -/
theorem timeMap_optimize {L : Type} (lib : TimeLib L) (elems : List Stage) (st : TimeSt L) (evs : List Ev) :
    runEvents (optimizeS (timeMapStage .cur lib elems) st) ((timeMapStage .cur lib elems).probeStep st).2 evs
      = runEvents (timeMapStage .cur lib elems) st evs := by
  unfold optimizeS
  cases hp : ((timeMapStage .cur lib elems).probeStep st).1 with
  | error m => exact timeMap_events_real lib elems evs _ _ (timeMap_probeStep lib elems st)
  | ok p =>
    obtain ⟨v, c⟩ := p
    cases c with
    | false => exact timeMap_events_real lib elems evs _ _ (timeMap_probeStep lib elems st)
    | true =>
      simp only
      have hprobe : (timeMapStage .cur lib elems true st).probe
          = .ok ((v, ((timeMapStage .cur lib elems).probeStep st).2), true) := by
        unfold SComp.probeStep at hp ⊢
        cases hq : (timeMapStage .cur lib elems true st).probe with
        | error m => rw [hq] at hp; cases hp
        | ok q =>
          obtain ⟨⟨v', s'⟩, c'⟩ := q
          rw [hq] at hp
          simp only [Except.ok.injEq, Prod.mk.injEq] at hp
          simp [hp.1, hp.2]
      have hlit := timeMap_static_ret lib elems st v _ (Comp.probe_constant _ _ hprobe)
      rw [hlit, runEvents_lit, runEvents_lit]

/-- Over constant values one of which is not empty, the static analysis makes a look-up. -/
theorem timeOnElems_lits_not_ret {L : Type} (lib : TimeLib L) (v : Bytes) (hne : v ≠ []) :
    ∀ (vals : List Bytes) (st : TimeSt L) (p : List Bytes × TimeSt L), v ∈ vals →
      timeOnElems .cur lib (vals.map Stage.lit) true st ≠ .ret p := by
  intro vals
  induction vals with
  | nil => intro st p hmem; cases hmem
  | cons w rest ih =>
    intro st p hmem hp
    simp only [List.map_cons, timeOnElems, Stage.lit, Comp.bind] at hp
    by_cases hw : w = []
    · subst hw
      have hv : v ∈ rest := by
        rcases List.mem_cons.mp hmem with h1 | h1
        · exact absurd h1 hne
        · exact h1
      simp only [timeTouches_empty, touchIf_false] at hp
      obtain ⟨q, hq, _⟩ := bind_eq_ret hp
      exact ih _ q hv hq
    · rw [timeTouches_cur_static hw, touchIf_true] at hp
      cases hp

/-- **What `optimize` makes of the stage IS the stage** (as a state-passing function): it is either left alone or
    replaced by a literal it was equal to.  So whatever shares the hidden state with it – other call sites of the
    same funcs-file function, other elements – sees the same with and without optimisation. -/
theorem timeMap_optimizeS_eq {L : Type} (lib : TimeLib L) (elems : List Stage) (st : TimeSt L) :
    optimizeS (timeMapStage .cur lib elems) st = timeMapStage .cur lib elems := by
  unfold optimizeS
  cases hp : ((timeMapStage .cur lib elems).probeStep st).1 with
  | error m => rfl
  | ok p =>
    obtain ⟨v, c⟩ := p
    cases c with
    | false => rfl
    | true =>
      simp only
      have hprobe : (timeMapStage .cur lib elems true st).probe
          = .ok ((v, ((timeMapStage .cur lib elems).probeStep st).2), true) := by
        unfold SComp.probeStep at hp ⊢
        cases hq : (timeMapStage .cur lib elems true st).probe with
        | error m => rw [hq] at hp; cases hp
        | ok q =>
          obtain ⟨⟨v', s'⟩, c'⟩ := q
          rw [hq] at hp
          simp only [Except.ok.injEq, Prod.mk.injEq] at hp
          simp [hp.1, hp.2]
      exact (timeMap_static_ret lib elems st v _ (Comp.probe_constant _ _ hprobe)).symm

/-- A value that is not empty is never folded: the static analysis of the stage over constant values reports
    "not constant" as soon as one of them is non-empty. -/
theorem timeMap_nonempty_not_constant {L : Type} (lib : TimeLib L) (vals : List Bytes) (st : TimeSt L)
    (h : ∃ v ∈ vals, v ≠ []) :
    ∀ r, ((timeMapStage .cur lib (vals.map Stage.lit)).probeStep st).1 ≠ .ok (r, true) := by
  intro r hr
  have hprobe : (timeMapStage .cur lib (vals.map Stage.lit) true st).probe
      = .ok ((r, ((timeMapStage .cur lib (vals.map Stage.lit)).probeStep st).2), true) := by
    unfold SComp.probeStep at hr ⊢
    cases hq : (timeMapStage .cur lib (vals.map Stage.lit) true st).probe with
    | error m => rw [hq] at hr; cases hr
    | ok q =>
      obtain ⟨⟨v', s'⟩, c'⟩ := q
      rw [hq] at hr
      simp only [Except.ok.injEq, Prod.mk.injEq] at hr
      simp [hr.1, hr.2]
  have hret := Comp.probe_constant _ _ hprobe
  unfold timeMapStage at hret
  obtain ⟨p, hp, _⟩ := bind_eq_ret hret
  obtain ⟨v, hmem, hne⟩ := h
  exact timeOnElems_lits_not_ret lib v hne vals st p hmem hp

/-! ### the witness: a library whose parser is more lenient than its detector -/

/-- Detects only values without a space (layout 1); parses by skipping spaces – as `time.Parse` does with the extra
    space of `"oct 7,  1970"`, which `dateparse.ParseFormat` rejects. -/
def lenientLib : TimeLib Nat := ⟨fun s => if 32 ∈ s then none else some 1, fun _ s => some (s.filter (· ≠ 32))⟩

end Rare.C10
