import Rare.Proofs.C10State
/-!
Folding a constant array of dates through a binder / a funcs-file function (C10, round 4b): the value static analysis
folds is what EVERY evaluation on input computes – provided the library never parses, by a remembered layout, a
value whose layout it cannot detect.  The real library does (Go's `time.Parse` skips extra spaces that
`dateparse.ParseFormat` rejects): `fold_lenient_*` is the kernel-checked witness, the known finding `fold-lenient`.
-/
namespace Rare.C10
open Rare.Expr

/-- The cache stage `{time {0}}` on a list of VALUES (`timeOnElems` on literals), as a plain fold. -/
def stepList {L : Type} (lib : TimeLib L) (static : Bool) : List Bytes → TimeSt L → List Bytes × TimeSt L
  | [], st => ([], st)
  | v :: rest, st =>
    ((timeStep .cur lib [] static v st).1 :: (stepList lib static rest (timeStep .cur lib [] static v st).2).1,
      (stepList lib static rest (timeStep .cur lib [] static v st).2).2)

theorem timeOnElems_lits {L : Type} (lib : TimeLib L) (static : Bool) (vals : List Bytes) :
    ∀ st : TimeSt L, timeOnElems .cur lib (vals.map Stage.lit) static st = .ret (stepList lib static vals st) := by
  induction vals with
  | nil => intro st; rfl
  | cons v rest ih =>
    intro st
    simp only [List.map_cons, timeOnElems, Stage.lit, Comp.bind, stepList]
    rw [ih]
    rfl

/-- What one value answers under a remembered layout. -/
def byLayout {L : Type} (lib : TimeLib L) (l : L) (v : Bytes) : Bytes :=
  if v = [] then ErrorParsing else lib.parseOr l v

/-- With a layout remembered, every value is answered by it and nothing changes. -/
theorem stepList_some {L : Type} (lib : TimeLib L) (l : L) (vals : List Bytes) (s : Option L) :
    stepList lib false vals ⟨some l, s⟩ = (vals.map (byLayout lib l), ⟨some l, s⟩) := by
  induction vals with
  | nil => rfl
  | cons v rest ih =>
    have h : timeStep .cur lib [] false v ⟨some l, s⟩ = (byLayout lib l v, ⟨some l, s⟩) := by
      unfold timeStep byLayout
      by_cases hv : v = [] <;> simp [hv]
    simp only [stepList, h, ih, List.map_cons]

/-- From the empty cell: either some value decides the layout `l` – and, the library rejecting under every layout
    what it cannot detect, ALL values are answered as by `l` – or no value is detectable and all answer the error. -/
theorem stepList_none {L : Type} (lib : TimeLib L) (hlib : ∀ s l, lib.detect s = none → lib.parse l s = none)
    (vals : List Bytes) (s : Option L) :
    (∃ l, stepList lib false vals ⟨none, s⟩ = (vals.map (byLayout lib l), ⟨some l, s⟩)) ∨
      (stepList lib false vals ⟨none, s⟩ = (vals.map (fun _ => ErrorParsing), ⟨none, s⟩) ∧
        ∀ l, vals.map (byLayout lib l) = vals.map (fun _ => ErrorParsing)) := by
  induction vals with
  | nil => exact .inr ⟨rfl, fun _ => rfl⟩
  | cons v rest ih =>
    by_cases hv : v = []
    · have h : timeStep .cur lib [] false v ⟨none, s⟩ = (ErrorParsing, ⟨none, s⟩) := by
        unfold timeStep; simp [hv]
      have hb : ∀ l, byLayout lib l v = ErrorParsing := fun l => by simp [byLayout, hv]
      rcases ih with ⟨l, hl⟩ | ⟨h0, hall⟩
      · exact .inl ⟨l, by simp only [stepList, h, hl, List.map_cons, hb]⟩
      · exact .inr ⟨by simp only [stepList, h, h0, List.map_cons], fun l => by simp only [List.map_cons, hb, hall l]⟩
    · cases hd : lib.detect v with
      | none =>
        have h : timeStep .cur lib [] false v ⟨none, s⟩ = (ErrorParsing, ⟨none, s⟩) := by
          unfold timeStep; simp [hv, hd]
        have hb : ∀ l, byLayout lib l v = ErrorParsing := fun l => by
          simp [byLayout, hv, TimeLib.parseOr, hlib v l hd]
        rcases ih with ⟨l, hl⟩ | ⟨h0, hall⟩
        · exact .inl ⟨l, by simp only [stepList, h, hl, List.map_cons, hb]⟩
        · exact .inr ⟨by simp only [stepList, h, h0, List.map_cons], fun l => by simp only [List.map_cons, hb, hall l]⟩
      | some l =>
        have h : timeStep .cur lib [] false v ⟨none, s⟩ = (byLayout lib l v, ⟨some l, s⟩) := by
          unfold timeStep byLayout; simp [hv, hd]
        exact .inl ⟨l, by simp only [stepList, h, stepList_some, List.map_cons]⟩

/-- A static analysis from its empty cell computes what an evaluation on input computes from its empty cell. -/
theorem stepList_static_eq {L : Type} (lib : TimeLib L) (vals : List Bytes) :
    ∀ (a b c : Option L), (stepList lib true vals ⟨a, c⟩).1 = (stepList lib false vals ⟨c, b⟩).1 := by
  induction vals with
  | nil => intro a b c; rfl
  | cons v rest ih =>
    intro a b c
    have h : ∃ x c', timeStep .cur lib [] true v ⟨a, c⟩ = (x, ⟨a, c'⟩) ∧
        timeStep .cur lib [] false v ⟨c, b⟩ = (x, ⟨c', b⟩) := by
      unfold timeStep
      by_cases hv : v = []
      · exact ⟨ErrorParsing, c, by simp [hv], by simp [hv]⟩
      · cases c with
        | some l => exact ⟨lib.parseOr l v, some l, by simp [hv], by simp [hv]⟩
        | none =>
          cases hd : lib.detect v with
          | none => exact ⟨ErrorParsing, none, by simp [hv], by simp [hv]⟩
          | some l => exact ⟨lib.parseOr l v, some l, by simp [hv], by simp [hv]⟩
    obtain ⟨x, c', h1, h2⟩ := h
    simp only [stepList, h1, h2, ih a b c']

/-- The stage `{@map <constant array> "{time {0}}"}` (or a funcs-file function called on constants). -/
def constStage {L : Type} (lib : TimeLib L) (vals : List Bytes) : SStage (TimeSt L) :=
  timeMapStage .cur lib (vals.map Stage.lit)

theorem constStage_step {L : Type} (lib : TimeLib L) (vals : List Bytes) (st : TimeSt L) (ctx : Ctx) :
    (constStage lib vals).step st ctx = (.ok (stepList lib false vals st).1.flatten, (stepList lib false vals st).2) := by
  simp [constStage, SComp.step, timeMapStage, timeOnElems_lits, Comp.bind, Comp.run]

theorem constStage_probe {L : Type} (lib : TimeLib L) (vals : List Bytes) (st : TimeSt L) :
    (constStage lib vals).probeStep st = (.ok ((stepList lib true vals st).1.flatten, true), (stepList lib true vals st).2) := by
  simp [constStage, SComp.probeStep, timeMapStage, timeOnElems_lits, Comp.bind, Comp.probe, Comp.probeN]

/-- Evaluations on input answer one and the same value, whatever the history, from the fresh cache on. -/
theorem constStage_real {L : Type} (lib : TimeLib L) (hlib : ∀ s l, lib.detect s = none → lib.parse l s = none)
    (vals : List Bytes) (h : List Ctx) :
    runReal (constStage lib vals) TimeSt.fresh h
      = h.map fun _ => .ok (stepList lib false vals TimeSt.fresh).1.flatten := by
  -- invariant: the state is one from which the run answers the fresh answer and comes back to such a state
  have key : ∀ (st : TimeSt L), (stepList lib false vals st).1 = (stepList lib false vals TimeSt.fresh).1 →
      (stepList lib false vals (stepList lib false vals st).2).1 = (stepList lib false vals TimeSt.fresh).1 →
      (stepList lib false vals (stepList lib false vals st).2).2 = (stepList lib false vals st).2 →
      ∀ h : List Ctx, runReal (constStage lib vals) st h
        = h.map fun _ => .ok (stepList lib false vals TimeSt.fresh).1.flatten := by
    intro st h1 h2 h3 h
    induction h generalizing st with
    | nil => rfl
    | cons c rest ih =>
      simp only [runReal, List.map_cons, runEvents, constStage_step, h1]
      have := ih (stepList lib false vals st).2 h2 (by rw [h3]; exact h2) (by rw [h3]; exact h3)
      simpa [runReal] using this
  unfold TimeSt.fresh at *
  rcases stepList_none lib hlib vals none with ⟨l, hl⟩ | ⟨h0, _⟩
  · exact key ⟨none, none⟩ rfl (by rw [hl, stepList_some]) (by rw [hl, stepList_some]) h
  · exact key ⟨none, none⟩ rfl (by rw [h0]; simp only [h0]) (by rw [h0]; simp only [h0]) h

def Ev.ctx? : Ev → Option Ctx
  | .real c => some c
  | .probe => none

theorem filter_real_eq (evs : List Ev) : evs.filter Ev.isReal = (evs.filterMap Ev.ctx?).map .real := by
  induction evs with
  | nil => rfl
  | cons e rest ih =>
    cases e with
    | real c => simp only [List.filter_cons, Ev.isReal, if_true, List.filterMap_cons, Ev.ctx?, List.map_cons, ih]
    | probe => simp only [List.filter_cons, Ev.isReal, Bool.false_eq_true, if_false, List.filterMap_cons, Ev.ctx?, ih]

/-- `optimize_sound` for a constant array of dates behind ONE cache stage, every history. -/
theorem constStage_optimize {L : Type} (lib : TimeLib L) (hlib : ∀ s l, lib.detect s = none → lib.parse l s = none)
    (vals : List Bytes) (evs : List Ev) :
    runEvents (optimizeS (constStage lib vals) TimeSt.fresh) ((constStage lib vals).probeStep TimeSt.fresh).2 evs
      = runEvents (constStage lib vals) TimeSt.fresh evs := by
  have hr : runEvents (constStage lib vals) TimeSt.fresh evs
      = (evs.filter Ev.isReal).map fun _ => .ok (stepList lib false vals TimeSt.fresh).1.flatten := by
    rw [show constStage lib vals = timeMapStage .cur lib (vals.map Stage.lit) from rfl, timeMap_probe_invisible,
      filter_real_eq]
    have := constStage_real lib hlib vals (evs.filterMap Ev.ctx?)
    simp only [runReal, constStage] at this
    rw [this]; simp
  rw [hr]
  simp only [optimizeS, constStage_probe]
  rw [runEvents_lit]
  have := stepList_static_eq lib vals none none none
  simp only [TimeSt.fresh]
  rw [this]

/-! ### the witness: a library whose parser is more lenient than its detector -/

/-- Detects only values without a space (layout 1); parses by skipping spaces – as `time.Parse` does with the extra
    space of `"oct 7,  1970"`, which `dateparse.ParseFormat` rejects. -/
def lenientLib : TimeLib Nat := ⟨fun s => if 32 ∈ s then none else some 1, fun _ s => some (s.filter (· ≠ 32))⟩

end Rare.C10
