import Rare.Proofs.C07Num
/-! `Mode()`: the run-length scan over the ordered samples returns a value of maximal multiplicity,
and among several such values the one that comes first in the sort order. -/
namespace Rare.C07

/-- Invariant of the scan after the non-empty prefix `p` of a list sorted by `le`. -/
structure ModeInv (le : Rat → Rat → Prop) (p : List Rat) (st : ModeState Rat) : Prop where
  last : ∃ p', p = p' ++ [st.currValue]
  curr : st.currObserved = p.count st.currValue
  maxc : st.maxObserved = p.count st.maxValue
  maxm : st.maxValue ∈ p
  bound : ∀ y, p.count y ≤ st.maxObserved
  tie : ∀ y, p.count y = st.maxObserved → y ≠ st.maxValue → le st.maxValue y

theorem count_snoc (p : List Rat) (v y : Rat) : (p ++ [v]).count y = p.count y + if v = y then 1 else 0 := by
  rw [List.count_append, List.count_singleton]
  by_cases h : v = y <;> simp [h]

theorem modeStep_first (st : ModeState Rat) (val : Rat) (h1 : st.currObserved = 0) (h2 : st.maxObserved = 0) :
    modeStep st val = ⟨1, val, 1, val⟩ := by
  unfold modeStep
  by_cases hv : val = st.currValue
  · simp [hv, h1, h2]
  · simp [hv, h2]

theorem modeStep_same (st : ModeState Rat) (val : Rat) (hv : val = st.currValue) :
    modeStep st val =
      if st.currObserved + 1 > st.maxObserved
      then ⟨st.currObserved + 1, val, st.currObserved + 1, val⟩
      else { st with currObserved := st.currObserved + 1 } := by
  unfold modeStep
  subst hv
  simp

theorem modeStep_new (st : ModeState Rat) (val : Rat) (hv : val ≠ st.currValue) (hm : st.maxObserved ≥ 1) :
    modeStep st val = { st with currValue := val, currObserved := 1 } := by
  unfold modeStep
  simp [hv]
  omega

theorem modeInv_first (le : Rat → Rat → Prop) (val : Rat) : ModeInv le [val] ⟨1, val, 1, val⟩ := by
  refine ⟨⟨[], rfl⟩, by simp, by simp, by simp, ?_, ?_⟩
  · intro y; rw [List.count_singleton]; split <;> simp
  · intro y hy hne
    rw [List.count_singleton] at hy
    split at hy
    · rename_i h; simp at h; exact absurd h.symm hne
    · simp at hy

theorem modeInv_step (le : Rat → Rat → Prop) (hanti : ∀ a b, le a b → le b a → a = b)
    (p : List Rat) (st : ModeState Rat) (val : Rat) (inv : ModeInv le p st)
    (hs : (p ++ [val]).Pairwise le) : ModeInv le (p ++ [val]) (modeStep st val) := by
  obtain ⟨p', hp'⟩ := inv.last
  have hle : ∀ x ∈ p, le x val := by
    intro x hx
    exact (List.pairwise_append.mp hs).2.2 x hx val (by simp)
  have hmax1 : st.maxObserved ≥ 1 := by
    rw [inv.maxc]; exact List.count_pos_iff.mpr inv.maxm
  by_cases hv : val = st.currValue
  · -- the current run continues
    rw [modeStep_same st val hv]
    have hcnt : (p ++ [val]).count val = st.currObserved + 1 := by
      rw [count_snoc, inv.curr, hv]; simp
    split
    · rename_i hgt
      refine ⟨⟨p, rfl⟩, hcnt.symm, hcnt.symm, by simp, ?_, ?_⟩
      · intro y
        rw [count_snoc]
        by_cases hy : val = y
        · subst hy; simp [inv.curr, hv]
        · have := inv.bound y; simp [hy]; omega
      · intro y hy hne
        exfalso
        rw [count_snoc] at hy
        have hy' : ¬ val = y := fun e => hne e.symm
        simp only [hy', if_false, Nat.add_zero] at hy
        have := inv.bound y
        change List.count y p = st.currObserved + 1 at hy
        omega
    · rename_i hle'
      have hmv : st.maxValue ≠ val := by
        intro e
        have : st.maxObserved = st.currObserved := by rw [inv.maxc, inv.curr, e, hv]
        omega
      refine ⟨⟨p, by rw [hv]⟩, ?_, ?_, by simp [inv.maxm], ?_, ?_⟩
      · show st.currObserved + 1 = _
        rw [← hv]; exact hcnt.symm
      · show st.maxObserved = _
        rw [count_snoc, inv.maxc, if_neg (fun e : val = st.maxValue => hmv e.symm)]; rfl
      · intro y
        show _ ≤ st.maxObserved
        rw [count_snoc]
        by_cases hy : val = y
        · subst hy; simp only [if_true]; have := inv.curr; rw [← hv] at this; omega
        · simp only [hy, if_false]; exact inv.bound y
      · intro y hy hne
        change (p ++ [val]).count y = st.maxObserved at hy
        change y ≠ st.maxValue at hne
        show le st.maxValue y
        rw [count_snoc] at hy
        by_cases hyv : val = y
        · subst hyv; exact hle _ inv.maxm
        · simp only [hyv, if_false, Nat.add_zero] at hy
          exact inv.tie y hy hne
  · -- a new run starts; `val` has not been seen before
    rw [modeStep_new st val hv hmax1]
    have hnot : val ∉ p := by
      intro hm
      rw [hp'] at hm
      rcases List.mem_append.mp hm with h | h
      · -- val ∈ p' so val ≤ currValue ≤ val
        have h1 : le val st.currValue := by
          have hsp : (p' ++ [st.currValue]).Pairwise le := by
            rw [← hp']; exact (List.pairwise_append.mp hs).1
          exact (List.pairwise_append.mp hsp).2.2 val h st.currValue (by simp)
        have h2 : le st.currValue val := hle _ (by rw [hp']; simp)
        exact hv (hanti _ _ h1 h2)
      · simp at h; exact hv h
    have hc0 : p.count val = 0 := List.count_eq_zero.mpr hnot
    have hmv : st.maxValue ≠ val := fun e => hnot (e ▸ inv.maxm)
    refine ⟨⟨p, rfl⟩, ?_, ?_, by simp [inv.maxm], ?_, ?_⟩
    · show 1 = _; rw [count_snoc, hc0]; simp
    · show st.maxObserved = _
      rw [count_snoc, inv.maxc, if_neg (fun e : val = st.maxValue => hmv e.symm)]; rfl
    · intro y
      show _ ≤ st.maxObserved
      rw [count_snoc]
      by_cases hy : val = y
      · subst hy; simp only [if_true, hc0]; omega
      · simp only [hy, if_false]; exact inv.bound y
    · intro y hy hne
      change (p ++ [val]).count y = st.maxObserved at hy
      change y ≠ st.maxValue at hne
      show le st.maxValue y
      rw [count_snoc] at hy
      by_cases hyv : val = y
      · subst hyv; exact hle _ inv.maxm
      · simp only [hyv, if_false, Nat.add_zero] at hy
        exact inv.tie y hy hne

theorem modeInv_foldl (le : Rat → Rat → Prop) (hanti : ∀ a b, le a b → le b a → a = b)
    (q p : List Rat) (st : ModeState Rat) (inv : ModeInv le p st) (hs : (p ++ q).Pairwise le) :
    ModeInv le (p ++ q) (q.foldl modeStep st) := by
  induction q generalizing p st with
  | nil => simpa using inv
  | cons v q ih =>
    rw [List.foldl_cons]
    have e : p ++ v :: q = (p ++ [v]) ++ q := by simp
    rw [e] at hs ⊢
    exact ih (p ++ [v]) _ (modeInv_step le hanti p st v inv (List.pairwise_append.mp hs).1) hs

/-- The scan over a non-empty list sorted by an antisymmetric `le`. -/
theorem mode_scan (le : Rat → Rat → Prop) (hanti : ∀ a b, le a b → le b a → a = b)
    (s : List Rat) (hne : s ≠ []) (hs : s.Pairwise le) :
    let m := mode 0 (fun a b => decide (a = b)) s
    m ∈ s ∧ (∀ y, s.count y ≤ s.count m) ∧ (∀ y, s.count y = s.count m → y ≠ m → le m y) := by
  obtain ⟨x, q, rfl⟩ := List.exists_cons_of_ne_nil hne
  intro m
  have hm : m = (q.foldl modeStep (modeStep ⟨0, 0, 0, 0⟩ x)).maxValue := by
    show mode 0 (fun a b => decide (a = b)) (x :: q) = _
    rw [mode_eq, List.foldl_cons]
  rw [modeStep_first _ x rfl rfl] at hm
  have inv := modeInv_foldl le hanti q [x] _ (modeInv_first le x) (by simpa using hs)
  simp only [List.singleton_append] at inv
  generalize q.foldl modeStep ⟨1, x, 1, x⟩ = fin at hm inv
  rw [hm]
  exact ⟨inv.maxm, fun y => by rw [← inv.maxc]; exact inv.bound y,
    fun y hy hne => inv.tie y (by rw [inv.maxc]; exact hy) hne⟩

end Rare.C07
