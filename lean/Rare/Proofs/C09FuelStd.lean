import Rare.Proofs.C09FuelOpt
import Rare.Model.Expr.Std
import Rare.Proofs.C19
/-!
C09: the hypothesis of `compile_never_out_of_fuel` (`NoMsgReg`: no builder, and no stage a builder
returns, fails with the model's out-of-fuel message when its argument stages cannot) holds for the
standard registry – every builder of `stdTable`, family by family, and `unmodelledBuilder`.
-/
namespace Rare.C09
open Rare Rare.Expr

/-- A builder result: not the error `m`, and the returned stage (if any) cannot panic with `m`. -/
def GoodB (m : String) (r : Except String Built) : Prop :=
  r ≠ .error m ∧ ∀ bt s, r = .ok bt → bt.stage = some s → NoMsg m s

def NoMsgBuilder (m : String) (b : Builder) : Prop := ∀ args, AllNoMsg m args → GoodB m (b args)

namespace GoodB
variable {m : String}

theorem ok {s : Stage} (h : NoMsg m s) : GoodB m (Rare.Expr.ok s) := by
  refine ⟨by simp [Rare.Expr.ok], fun bt s' h1 h2 => ?_⟩
  simp only [Rare.Expr.ok, Except.ok.injEq] at h1
  subst h1; simp only [Option.some.injEq] at h2; subst h2; exact h

theorem built {s : Stage} {e : Option String} (h : NoMsg m s) : GoodB m (.ok ⟨some s, e⟩) := by
  refine ⟨by simp, fun bt s' h1 h2 => ?_⟩
  simp only [Except.ok.injEq] at h1
  subst h1; simp only [Option.some.injEq] at h2; subst h2; exact h

theorem stageErr (marker : Bytes) (tag : String) : GoodB m (Rare.Expr.stageErr marker tag) := built (.ret _)
theorem errArgCount : GoodB m Rare.Expr.errArgCount := stageErr _ _
theorem errNum : GoodB m Rare.Expr.errNum := stageErr _ _
theorem errConst : GoodB m Rare.Expr.errConst := stageErr _ _
theorem errEmpty : GoodB m Rare.Expr.errEmpty := stageErr _ _
theorem errEnum : GoodB m Rare.Expr.errEnum := stageErr _ _
theorem errValue : GoodB m Rare.Expr.errValue := stageErr _ _
theorem errFile : GoodB m Rare.Expr.errFile := stageErr _ _
theorem errParsing : GoodB m Rare.Expr.errParsing := stageErr _ _

theorem error {e : String} (h : e ≠ m) : GoodB m (.error e) :=
  ⟨by simpa using h, fun bt s h1 _ => by cases h1⟩

end GoodB

/-! ### the probing helpers of `Build.lean` -/

section
variable {m : String}

theorem probe_ne {α : Type} {c : Comp α} (h : NoMsg m c) {e : String} (he : c.probe = .error e) : e ≠ m := by
  intro h'; subst h'; exact h.probe he

theorem evalStageIndexOrDefault_ne {args : List Stage} (h : AllNoMsg m args) (idx : Nat) (d : Bytes) {e : String}
    (he : evalStageIndexOrDefault args idx d = .error e) : e ≠ m := by
  unfold evalStageIndexOrDefault at he
  split at he
  · cases he
  · rename_i st hst
    have hs : NoMsg m st := h st (List.mem_of_getElem? hst)
    cases hp : st.probe with
    | error x => rw [hp] at he; simp only [Except.error.injEq] at he; subst he; exact probe_ne hs hp
    | ok p => obtain ⟨v, b⟩ := p; rw [hp] at he; cases b <;> cases he

theorem evalStageInt_ne {st : Stage} (h : NoMsg m st) {e : String} (he : evalStageInt st = .error e) : e ≠ m := by
  unfold evalStageInt at he
  cases hp : st.probe with
  | error x => rw [hp] at he; simp only [Except.error.injEq] at he; subst he; exact probe_ne h hp
  | ok p => obtain ⟨v, b⟩ := p; rw [hp] at he; cases b <;> cases he

theorem evalArgInt_ne {args : List Stage} (h : AllNoMsg m args) (idx : Nat) (d : Int) {e : String}
    (he : evalArgInt args idx d = .error e) : e ≠ m := by
  unfold evalArgInt at he
  split at he
  · cases he
  · rename_i st hst
    exact evalStageInt_ne (h st (List.mem_of_getElem? hst)) he

theorem evalTypedStage_good {α : Type} {st : Stage} (h : NoMsg m st) (parser : Bytes → Option α) :
    (∀ e, evalTypedStage st parser = .error e → e ≠ m) ∧
    (∀ t, evalTypedStage st parser = .ok (some t) → NoMsg m t) := by
  unfold evalTypedStage
  cases hp : st.probe with
  | error x => exact ⟨fun e he => (by simp only [Except.error.injEq] at he; subst he; exact probe_ne h hp),
      fun t ht => (by cases ht)⟩
  | ok p =>
    obtain ⟨v, b⟩ := p
    cases b with
    | true =>
      simp only []
      cases hpv : parser v with
      | none => exact ⟨fun e he => (by cases he), fun t ht => (by cases ht)⟩
      | some p =>
        refine ⟨fun e he => (by cases he), fun t ht => ?_⟩
        simp only [Except.ok.injEq, Option.some.injEq] at ht; subst ht; exact .ret _
    | false =>
      refine ⟨fun e he => (by cases he), fun t ht => ?_⟩
      simp only [Except.ok.injEq, Option.some.injEq] at ht; subst ht
      exact NoMsg.bind' h fun v => NoMsg.pure _

theorem mapTypedArgs_good {α : Type} (parser : Bytes → Option α) : ∀ {args : List Stage}, AllNoMsg m args →
    (∀ e, mapTypedArgs parser args = .error e → e ≠ m) ∧
    (∀ ts, mapTypedArgs parser args = .ok (some ts) → ∀ t ∈ ts, NoMsg m t)
  | [], _ => ⟨fun e he => (by cases he), fun ts h t ht => (by
      simp only [mapTypedArgs, Except.ok.injEq, Option.some.injEq] at h; subst h; cases ht)⟩
  | a :: rest, h => by
    have ha := evalTypedStage_good (h a (by simp)) parser
    have hr := mapTypedArgs_good parser (args := rest) (fun x hx => h x (by simp [hx]))
    unfold mapTypedArgs
    cases h1 : evalTypedStage a parser with
    | error x => exact ⟨fun e he => (by simp only [Except.error.injEq] at he; subst he; exact ha.1 _ h1),
        fun ts h => (by cases h)⟩
    | ok o =>
      cases o with
      | none => exact ⟨fun e he => (by cases he), fun ts h => (by cases h)⟩
      | some t =>
        simp only []
        cases h2 : mapTypedArgs parser rest with
        | error x => exact ⟨fun e he => (by simp only [Except.error.injEq] at he; subst he; exact hr.1 _ h2),
            fun ts h => (by cases h)⟩
        | ok o2 =>
          cases o2 with
          | none => exact ⟨fun e he => (by cases he), fun ts h => (by cases h)⟩
          | some ts =>
            refine ⟨fun e he => (by cases he), fun ts' h x hx => ?_⟩
            simp only [Except.ok.injEq, Option.some.injEq] at h; subst h
            rcases List.mem_cons.mp hx with rfl | hx
            · exact ha.2 _ h1
            · exact hr.2 ts h2 x hx

end

theorem unmodelled_ne (w : String) : ("unmodelled:" ++ w) ≠ fuelMsg := by
  intro h
  have := congrArg (fun s => s.toList.head?) h
  simp [String.toList_append, fuelMsg] at this

theorem unmodelled_ne' (p w : String) (hp : p.toList.head? = some 'u') : (p ++ w) ≠ fuelMsg := by
  intro h
  have := congrArg (fun s => s.toList.head?) h
  simp only [String.toList_append] at this
  cases hl : p.toList with
  | nil => rw [hl] at hp; cases hp
  | cons c r =>
    rw [hl] at hp this
    simp only [List.head?_cons, Option.some.injEq] at hp
    subst hp
    simp [fuelMsg] at this

theorem unmodelledBuilder_ok (n : String) : NoMsgBuilder fuelMsg (unmodelledBuilder n) := by
  intro args _
  exact GoodB.built (.panic _ (unmodelled_ne n))

/-- Closes `NoMsg fuelMsg <stage>` goals for stages built from `bind`/`pure`/`if`/`match` over argument
    stages known from an `AllNoMsg` hypothesis `h`. -/
syntax "nomsg " ident : tactic
macro_rules
  | `(tactic| nomsg $h) => `(tactic|
    repeat' (first
      | exact NoMsg.ret _
      | exact NoMsg.pure _
      | exact NoMsg.lit _
      | exact NoMsg.panic _ (by decide)
      | exact NoMsg.panic _ (unmodelled_ne _)
      | refine NoMsg.bind' ?_ ?_
      | refine NoMsg.bind ?_ ?_
      | intro _
      | (apply $h; simp; done)
      | assumption
      | split))

/-- The same with an induction hypothesis `ih` for the recursive call. -/
syntax "nomsg " ident " using " ident : tactic
macro_rules
  | `(tactic| nomsg $h using $ih) => `(tactic|
    repeat' (first
      | exact NoMsg.ret _
      | exact NoMsg.pure _
      | exact NoMsg.lit _
      | exact NoMsg.panic _ (by decide)
      | exact NoMsg.panic _ (unmodelled_ne _)
      | exact $ih
      | exact $ih _
      | exact $ih _ _
      | exact $ih _ _ _
      | exact $ih _ _ _ _
      | refine NoMsg.bind' ?_ ?_
      | refine NoMsg.bind ?_ ?_
      | intro _
      | (apply $h; simp; done)
      | assumption
      | split))

/-! ### Logic -/
namespace L
open Funcs.Logic

theorem coalesce_go {m : String} : ∀ l : List Stage, AllNoMsg m l → NoMsg m (kfCoalesce.go l)
  | [], _ => .ret _
  | a :: rest, h => by
    unfold kfCoalesce.go
    refine NoMsg.bind' (h a (by simp)) fun v => ?_
    split
    · exact NoMsg.pure _
    · exact coalesce_go rest fun x hx => h x (by simp [hx])

theorem cmp_go {m : String} (eq : Bytes → Bytes → Bytes) : ∀ (l : List Stage) (v : Bytes), AllNoMsg m l →
    NoMsg m (stringComparator.go eq v l)
  | [], _, _ => .ret _
  | a :: rest, v, h => by
    unfold stringComparator.go
    exact NoMsg.bind' (h a (by simp)) fun w => cmp_go eq rest _ fun x hx => h x (by simp [hx])

theorem and_go {m : String} : ∀ l : List Stage, AllNoMsg m l → NoMsg m (kfAnd.go l)
  | [], _ => .ret _
  | a :: rest, h => by
    unfold kfAnd.go
    refine NoMsg.bind' (h a (by simp)) fun v => ?_
    split
    · exact NoMsg.pure _
    · exact and_go rest fun x hx => h x (by simp [hx])

theorem or_go {m : String} : ∀ l : List Stage, AllNoMsg m l → NoMsg m (kfOr.go l)
  | [], _ => .ret _
  | a :: rest, h => by
    unfold kfOr.go
    refine NoMsg.bind' (h a (by simp)) fun v => ?_
    split
    · exact NoMsg.pure _
    · exact or_go rest fun x hx => h x (by simp [hx])

theorem switch_go {m : String} : ∀ l : List Stage, AllNoMsg m l → NoMsg m (kfSwitch.go l)
  | [], _ => .ret _
  | [d], h => by unfold kfSwitch.go; exact h d (by simp)
  | c :: v :: rest, h => by
    unfold kfSwitch.go
    refine NoMsg.bind' (h c (by simp)) fun x => ?_
    split
    · exact h v (by simp)
    · exact switch_go rest fun y hy => h y (by simp [hy])

theorem table_ok : ∀ p ∈ table, NoMsgBuilder fuelMsg p.2 := by
  intro p hp
  simp only [table, List.mem_cons, List.not_mem_nil, or_false] at hp
  rcases hp with e | e | e | e | e | e | e | e | e <;> subst e <;> intro args h
  · exact GoodB.ok (coalesce_go args h)
  · show GoodB _ (stringComparator _ args)
    unfold stringComparator; split
    · exact GoodB.ok (NoMsg.bind' (h _ (by simp)) fun v => cmp_go _ _ _ fun x hx => h x (by simp [hx]))
    · exact GoodB.errArgCount
  · show GoodB _ (stringComparator _ args)
    unfold stringComparator; split
    · exact GoodB.ok (NoMsg.bind' (h _ (by simp)) fun v => cmp_go _ _ _ fun x hx => h x (by simp [hx]))
    · exact GoodB.errArgCount
  · show GoodB _ (kfNot args)
    unfold kfNot; split
    · apply GoodB.ok; nomsg h
    · exact GoodB.errArgCount
  · exact GoodB.ok (and_go args h)
  · exact GoodB.ok (or_go args h)
  · show GoodB _ (kfIf args)
    unfold kfIf; split
    · apply GoodB.ok; nomsg h
    · apply GoodB.ok; nomsg h
    · exact GoodB.errArgCount
  · show GoodB _ (kfUnless args)
    unfold kfUnless; split
    · apply GoodB.ok; nomsg h
    · exact GoodB.errArgCount
  · show GoodB _ (kfSwitch args)
    unfold kfSwitch; split
    · exact GoodB.errArgCount
    · exact GoodB.ok (switch_go args h)

end L

/-! ### Arith (integer helpers, bucketing) and Float -/
namespace A
open Funcs.Arith Funcs.Float

theorem foldRun_ok {m : String} (eq : IntOp) : ∀ (l : List (Comp (Option Int))) (acc : Int),
    (∀ t ∈ l, NoMsg m t) → NoMsg m (foldRun eq acc l)
  | [], _, _ => .ret _
  | t :: rest, acc, h => by
    have ih := fun acc => foldRun_ok eq rest acc fun x hx => h x (by simp [hx])
    unfold foldRun
    nomsg h using ih

theorem intRun_ok {m : String} (eq : IntOp) (l : List (Comp (Option Int))) (h : ∀ t ∈ l, NoMsg m t) :
    NoMsg m (intRun eq l) := by
  cases l with
  | nil => exact .ret _
  | cons t rest =>
    have ih := fun acc => foldRun_ok eq rest acc fun x hx => h x (by simp [hx])
    unfold intRun
    nomsg h using ih

theorem intHelper_ok (eq : IntOp) : NoMsgBuilder fuelMsg (intHelper eq) := by
  intro args h
  unfold intHelper
  split
  · exact GoodB.errArgCount
  · have hm := mapTypedArgs_good atoi h
    cases hc : mapTypedArgs atoi args with
    | error e => exact GoodB.error (hm.1 e hc)
    | ok o =>
      cases o with
      | none => exact GoodB.errNum
      | some typed => exact GoodB.ok (intRun_ok eq typed (hm.2 typed hc))

theorem bucketBuilder_ok (render : Int → Int → Bytes) : NoMsgBuilder fuelMsg (bucketBuilder render) := by
  intro args h
  unfold bucketBuilder
  split
  · rename_i a0 a1
    cases hc : evalStageInt a1 with
    | error e => exact GoodB.error (evalStageInt_ne (h a1 (by simp)) hc)
    | ok o =>
      cases o with
      | none => exact GoodB.errNum
      | some size =>
        simp only []
        split
        · exact GoodB.errValue
        · apply GoodB.ok; nomsg h
  · exact GoodB.errArgCount

theorem kfClamp_ok : NoMsgBuilder fuelMsg kfClamp := by
  intro args h
  unfold kfClamp
  split
  · rename_i a0 a1 a2
    cases hc : evalStageInt a1 with
    | error e => exact GoodB.error (evalStageInt_ne (h a1 (by simp)) hc)
    | ok mn =>
      simp only []
      cases hc2 : evalStageInt a2 with
      | error e => exact GoodB.error (evalStageInt_ne (h a2 (by simp)) hc2)
      | ok mx =>
        simp only []
        split
        · exact GoodB.errNum
        · exact GoodB.errNum
        · apply GoodB.ok; nomsg h
  · exact GoodB.errArgCount

theorem intTable_ok : ∀ p ∈ intTable, NoMsgBuilder fuelMsg p.2 := by
  intro p hp
  simp only [intTable, List.mem_cons, List.not_mem_nil, or_false] at hp
  rcases hp with e | e | e | e | e | e | e | e | e | e | e | e <;> subst e
  iterate 7 exact intHelper_ok _
  · intro args h
    show GoodB _ (kfIsInt args)
    unfold kfIsInt; split
    · apply GoodB.ok; nomsg h
    · exact GoodB.errArgCount
  · exact bucketBuilder_ok _
  · exact bucketBuilder_ok _
  · exact kfClamp_ok
  · intro args h
    show GoodB _ (kfExpBucket args)
    unfold kfExpBucket; split
    · apply GoodB.ok; nomsg h
    · exact GoodB.errArgCount

theorem foldRunF_ok {m : String} (op : F64 → F64 → F64) : ∀ (l : List (Comp (Option F64))) (acc : F64),
    (∀ t ∈ l, NoMsg m t) → NoMsg m (foldRunF op acc l)
  | [], _, _ => .ret _
  | t :: rest, acc, h => by
    have ih := fun acc => foldRunF_ok op rest acc fun x hx => h x (by simp [hx])
    unfold foldRunF
    nomsg h using ih

theorem floatHelper_ok (op : F64 → F64 → F64) : NoMsgBuilder fuelMsg (floatHelper op) := by
  intro args h
  unfold floatHelper
  split
  · exact GoodB.errArgCount
  · have hm := mapTypedArgs_good parseF h
    cases hc : mapTypedArgs parseF args with
    | error e => exact GoodB.error (hm.1 e hc)
    | ok o =>
      cases o with
      | none => exact GoodB.errNum
      | some typed =>
        apply GoodB.ok
        have ht := hm.2 typed hc
        cases typed with
        | nil => exact .ret _
        | cons t rest =>
          have ih := fun acc => foldRunF_ok (m := fuelMsg) op rest acc fun x hx => ht x (by simp [hx])
          unfold floatRun
          nomsg ht using ih

theorem floatHelperU_ok (why : String) : NoMsgBuilder fuelMsg (floatHelperU why) := by
  intro args h
  unfold floatHelperU
  split
  · exact GoodB.errArgCount
  · have hm := mapTypedArgs_good parseF h
    cases hc : mapTypedArgs parseF args with
    | error e => exact GoodB.error (hm.1 e hc)
    | ok o =>
      cases o with
      | none => exact GoodB.errNum
      | some typed =>
        apply GoodB.ok
        have ht := hm.2 typed hc
        unfold floatRunU unmodelledStage
        nomsg ht

theorem unaryF_ok (f : F64 → Bytes) : NoMsgBuilder fuelMsg (unaryF f) := by
  intro args h
  unfold unaryF; split
  · apply GoodB.ok; nomsg h
  · exact GoodB.errArgCount

theorem unaryU_ok (why : String) : NoMsgBuilder fuelMsg (unaryU why) := by
  intro args h
  unfold unaryU unmodelledStage; split
  · apply GoodB.ok; nomsg h
  · exact GoodB.errArgCount

theorem cmpHelper_ok (test : F64 → F64 → Bool) : NoMsgBuilder fuelMsg (cmpHelper test) := by
  intro args h
  unfold cmpHelper; split
  · rename_i a0 a1
    have h0 := evalTypedStage_good (h a0 (by simp)) parseF
    have h1 := evalTypedStage_good (h a1 (by simp)) parseF
    cases hc0 : evalTypedStage a0 parseF with
    | error e => exact GoodB.error (h0.1 e hc0)
    | ok o0 =>
      cases o0 with
      | none => exact GoodB.errNum
      | some l =>
        simp only []
        cases hc1 : evalTypedStage a1 parseF with
        | error e => exact GoodB.error (h1.1 e hc1)
        | ok o1 =>
          cases o1 with
          | none => exact GoodB.errNum
          | some r =>
            have hl := h0.2 l hc0
            have hr := h1.2 r hc1
            apply GoodB.ok; nomsg h
  · exact GoodB.errArgCount

theorem kfRound_ok : NoMsgBuilder fuelMsg kfRound := by
  intro args h
  unfold kfRound; split
  · exact GoodB.errArgCount
  · cases hc : evalArgInt args 1 0 with
    | error e => exact GoodB.error (evalArgInt_ne h 1 0 hc)
    | ok o =>
      cases o with
      | none => exact GoodB.errConst
      | some precision =>
        simp only []
        split
        · exact GoodB.errValue
        · split
          · apply GoodB.ok; nomsg h
          · exact GoodB.errArgCount

theorem unitHelperF_ok (u : Bool) (step : Int) (d : Bytes) (units : List String) :
    NoMsgBuilder fuelMsg (Funcs.Float.unitHelper u step d units) := by
  intro args h
  unfold Funcs.Float.unitHelper; split
  · exact GoodB.errArgCount
  · cases hc : evalArgInt args 1 0 with
    | error e => exact GoodB.error (evalArgInt_ne h 1 0 hc)
    | ok o =>
      cases o with
      | none => exact GoodB.errNum
      | some precision =>
        simp only []
        split
        · exact GoodB.errValue
        · split
          · apply GoodB.ok; nomsg h
          · exact GoodB.errArgCount

theorem kfIsNum_ok : NoMsgBuilder fuelMsg kfIsNum := by
  intro args h
  unfold kfIsNum; split
  · apply GoodB.ok; nomsg h
  · exact GoodB.errArgCount

theorem typed_ne {m : String} {args : List Stage} (h : AllNoMsg m args) {st : Stage} {α : Type}
    {p : Bytes → Option α} {e : String} (he : evalTypedStage st p = .error e) (hs : st ∈ args) : e ≠ m :=
  (evalTypedStage_good (h st hs) p).1 _ he

theorem typed_ok {m : String} {args : List Stage} (h : AllNoMsg m args) {st : Stage} {α : Type}
    {p : Bytes → Option α} {t : Comp (Option α)} (he : evalTypedStage st p = .ok (some t)) (hs : st ∈ args) :
    NoMsg m t :=
  (evalTypedStage_good (h st hs) p).2 _ he

theorem kfPercent_ok : NoMsgBuilder fuelMsg kfPercent := by
  intro args h
  unfold kfPercent
  split
  · exact GoodB.errArgCount
  · cases hc : evalArgInt args 1 1 with
    | error e => exact GoodB.error (evalArgInt_ne h 1 1 hc)
    | ok o =>
      cases o with
      | none => exact GoodB.errConst
      | some decimals =>
        simp only []
        split
        · exact GoodB.errValue
        · split
          · rename_i m hm
            apply GoodB.error
            split at hm
            · split at hm
              · rename_i ht
                simp only [Except.error.injEq] at hm; subst hm
                exact typed_ne h ht (by simp)
              · cases hm
            · split at hm
              · rename_i ht
                simp only [Except.error.injEq] at hm; subst hm
                exact typed_ne h ht (by simp)
              · split at hm
                · rename_i ht
                  simp only [Except.error.injEq] at hm; subst hm
                  exact typed_ne h ht (by simp)
                · cases hm
            · cases hm
          · rename_i hm
            split at hm
            · rename_i hl
              simp only [List.cons.injEq] at hl
              obtain ⟨rfl, rfl⟩ := hl
              split at hm
              · cases hm
              · rename_i ht
                simp only [Except.ok.injEq, Prod.mk.injEq, Option.some.injEq] at hm
                obtain ⟨h1, h2⟩ := hm
                subst h1; subst h2
                have := typed_ok h ht (by simp)
                apply GoodB.ok; nomsg h
            · rename_i hl
              simp only [List.cons.injEq] at hl
              obtain ⟨rfl, rfl⟩ := hl
              split at hm
              · cases hm
              · rename_i ht1
                split at hm
                · cases hm
                · rename_i ht2
                  simp only [Except.ok.injEq, Prod.mk.injEq] at hm
                  obtain ⟨h1, h2⟩ := hm
                  subst h1; subst h2
                  have h1 := typed_ok h ht1 (by simp)
                  have h2 := typed_ok h ht2 (by simp)
                  apply GoodB.ok; nomsg h
            · simp only [Except.ok.injEq, Prod.mk.injEq, Option.some.injEq] at hm
              obtain ⟨h1, h2⟩ := hm
              subst h1; subst h2
              apply GoodB.ok; nomsg h
          · exact GoodB.errNum

theorem floatTable_ok : ∀ p ∈ Funcs.Float.table, NoMsgBuilder fuelMsg p.2 := by
  intro p hp
  simp only [Funcs.Float.table, List.mem_cons, List.not_mem_nil, or_false] at hp
  rcases hp with e | e | e | e | e | e | e | e | e | e | e | e | e | e | e | e | e | e | e | e | e | e <;> subst e <;>
    first
      | exact kfIsNum_ok
      | exact cmpHelper_ok _
      | exact floatHelper_ok _
      | exact floatHelperU_ok _
      | exact unaryF_ok _
      | exact unaryU_ok _
      | exact kfRound_ok
      | exact kfPercent_ok
      | exact unitHelperF_ok _ _ _ _

theorem table_ok : ∀ p ∈ Funcs.Arith.table, NoMsgBuilder fuelMsg p.2 := by
  intro p hp
  rcases List.mem_append.mp hp with h | h
  · exact intTable_ok p h
  · exact floatTable_ok p h

end A

/-! ### Strings -/
namespace S
open Funcs.Strings

theorem joinRun_ok {m : String} (delim : Bytes) : ∀ l : List Stage, AllNoMsg m l → NoMsg m (joinRun delim l)
  | [], _ => .ret _
  | a :: rest, h => by
    have ih := joinRun_ok delim rest fun x hx => h x (by simp [hx])
    unfold joinRun
    nomsg h using ih

theorem csvRun_ok {m : String} : ∀ (l : List Stage) (acc : List Bytes), AllNoMsg m l → NoMsg m (csvRun l acc)
  | [], _, _ => .ret _
  | a :: rest, acc, h => by
    have ih := fun acc => csvRun_ok rest acc fun x hx => h x (by simp [hx])
    unfold csvRun
    nomsg h using ih

theorem liftExcept_ok (r : Except String Bytes) (h : r ≠ .error fuelMsg) : NoMsg fuelMsg (liftExcept r) := by
  cases r with
  | ok v => exact .ret _
  | error e => exact .panic _ (by simpa using h)

theorem substrVal_ne (s : Bytes) (l n : Int) : substrVal s l n ≠ .error fuelMsg := by
  unfold substrVal goSlice
  simp only []
  split
  · simp
  · simp [fuelMsg]

theorem kfSubstr_ok : NoMsgBuilder fuelMsg kfSubstr := by
  intro args h
  unfold kfSubstr; split
  · apply GoodB.ok
    have := fun s l n => liftExcept_ok _ (substrVal_ne s l n)
    nomsg h using this
  · exact GoodB.errArgCount

theorem kfJoin_ok (d : Bytes) : NoMsgBuilder fuelMsg (kfJoin d) := by
  intro args h
  unfold kfJoin; split
  · exact GoodB.ok (.ret _)
  · exact GoodB.ok (h _ (by simp))
  · rename_i a rest _
    have ih := joinRun_ok d rest fun x hx => h x (by simp [hx])
    apply GoodB.ok; nomsg h using ih

theorem unitHelperS_ok (u : Bool) (step : Int) (d : Bytes) (units : List String) :
    NoMsgBuilder fuelMsg (Funcs.Strings.unitHelper u step d units) := by
  intro args h
  unfold Funcs.Strings.unitHelper; split
  · exact GoodB.errArgCount
  · cases hc : evalArgInt args 1 0 with
    | error e => exact GoodB.error (evalArgInt_ne h 1 0 hc)
    | ok o =>
      cases o with
      | none => exact GoodB.errNum
      | some precision =>
        simp only []
        split
        · exact GoodB.errValue
        · split
          · apply GoodB.ok; nomsg h
          · exact GoodB.errArgCount

theorem table_ok : ∀ p ∈ table, NoMsgBuilder fuelMsg p.2 := by
  intro p hp
  simp only [table, List.mem_cons, List.not_mem_nil, or_false] at hp
  rcases hp with e | e | e | e | e | e | e | e | e | e | e | e | e | e | e | e <;> subst e
  · intro args h
    show GoodB _ (kfLen args)
    unfold kfLen; split
    · apply GoodB.ok; nomsg h
    · exact GoodB.errArgCount
  iterate 3
    · intro args h
      show GoodB _ (testHelper _ args)
      unfold testHelper; split
      · apply GoodB.ok; nomsg h
      · exact GoodB.errArgCount
  iterate 2
    · intro args h
      show GoodB _ (caseHelper _ args)
      unfold caseHelper; split
      · apply GoodB.ok; nomsg h
      · exact GoodB.errArgCount
  · exact kfSubstr_ok
  · intro args h
    show GoodB _ (kfSelect args)
    unfold kfSelect; split
    · apply GoodB.ok; nomsg h
    · exact GoodB.errArgCount
  iterate 3 exact kfJoin_ok _
  · intro args h
    show GoodB _ (kfCsv args)
    unfold kfCsv; split
    · exact GoodB.ok (.ret _)
    · exact GoodB.ok (csvRun_ok _ _ h)
  · intro args h
    show GoodB _ (kfHumanizeInt args)
    unfold kfHumanizeInt; split
    · apply GoodB.ok; nomsg h
    · exact GoodB.errArgCount
  iterate 3 exact unitHelperS_ok _ _ _ _

end S

/-! ### Misc -/
namespace M
open Funcs.Misc

theorem lookupBuilder_ok (render : Option Bytes → Bytes) : NoMsgBuilder fuelMsg (lookupBuilder render) := by
  intro args h
  unfold lookupBuilder; split
  · exact GoodB.errArgCount
  · split
    · rename_i a0 a1 rest hlen
      cases hp : a1.probe with
      | error e => exact GoodB.error (probe_ne (h a1 (by simp)) hp)
      | ok pr =>
        obtain ⟨v, b⟩ := pr
        cases b with
        | false => exact GoodB.errConst
        | true =>
          simp only []
          cases hc : evalStageIndexOrDefault (a0 :: a1 :: rest) 2 [] with
          | error e => exact GoodB.error (evalStageIndexOrDefault_ne h 2 [] hc)
          | ok cp => apply GoodB.ok; nomsg h
    · exact GoodB.errArgCount

theorem kfRepeat_ok : NoMsgBuilder fuelMsg kfRepeat := by
  intro args h
  unfold kfRepeat; split
  · rename_i a0 a1
    cases hp : a0.probe with
    | error e => exact GoodB.error (probe_ne (h a0 (by simp)) hp)
    | ok pr =>
      obtain ⟨v, b⟩ := pr
      cases b with
      | false => exact GoodB.errConst
      | true => apply GoodB.ok; nomsg h
  · exact GoodB.errArgCount

theorem table_ok : ∀ p ∈ table, NoMsgBuilder fuelMsg p.2 := by
  intro p hp
  simp only [table, List.mem_cons, List.not_mem_nil, or_false] at hp
  rcases hp with e | e | e | e | e | e <;> subst e
  · exact lookupBuilder_ok (fun r => r.getD [])
  · exact lookupBuilder_ok (fun r => truthyStr r.isSome)
  · exact kfRepeat_ok
  iterate 3
    · intro args h
      show GoodB _ (pathHelper _ args)
      unfold pathHelper; split
      · apply GoodB.ok; nomsg h
      · exact GoodB.errArgCount

end M

/-! ### Range -/
namespace R
open Funcs.Range

theorem splitLoop_ok {σ : Type} : ∀ (fuel : Nat) (sp : Splitter) (st : σ) (guard : σ → Bool)
    (body : σ → Bytes → Comp σ), (∀ s x, NoMsg fuelMsg (body s x)) → NoMsg fuelMsg (splitLoop fuel sp st guard body)
  | 0, _, _, _, _, _ => .panic _ (by decide)
  | fuel + 1, sp, st, guard, body, h => by
    unfold splitLoop
    split
    · exact NoMsg.bind (h _ _) fun st' => splitLoop_ok fuel _ st' guard body h
    · exact .ret _

theorem arrayOperator_ok (arr delim joiner : Bytes) (mapper : Bytes → Stage) (h : ∀ x, NoMsg fuelMsg (mapper x)) :
    NoMsg fuelMsg (arrayOperator arr delim joiner mapper) := by
  unfold arrayOperator
  split
  · exact h _
  · refine NoMsg.bind (h _) fun mm => NoMsg.bind (splitLoop_ok _ _ _ _ _ fun s x => ?_) fun r => .ret _
    exact NoMsg.bind (h _) fun m' => .ret _

theorem joinArgsLoop_ok (d : UInt8) : ∀ (l : List Stage) (sb : Sb), AllNoMsg fuelMsg l → NoMsg fuelMsg (joinArgsLoop d l sb)
  | [], _, _ => .ret _
  | a :: rest, sb, h => by
    unfold joinArgsLoop
    exact NoMsg.bind (h a (by simp)) fun v => joinArgsLoop_ok d rest _ fun x hx => h x (by simp [hx])

theorem rangeLoop_ne : ∀ (fuel : Nat) (i stop incr : Int) (count : Nat) (sb : Sb),
    rangeLoop fuel i stop incr count sb ≠ .error fuelMsg
  | 0, _, _, _, _, _ => by simp [rangeLoop, fuelMsg]
  | fuel + 1, i, stop, incr, count, sb => by
    unfold rangeLoop
    split
    · simp only []
      split
      · simp
      · split
        · simp
        · exact rangeLoop_ne fuel _ _ _ _ _
    · simp

theorem rangeBody_ok (a b c : Int) : NoMsg fuelMsg (rangeBody a b c) := by
  unfold rangeBody
  split
  · exact .ret _
  · split
    · exact .ret _
    · split
      · exact .ret _
      · have := rangeLoop_ne (Gen.maxIterations + 2) a b c 0 {}
        split
        · exact .ret _
        · exact .ret _
        · rename_i m hm
          exact .panic _ (fun e => this (by rw [hm, e]))

theorem rangeStage_ok (s1 s2 s3 : Stage) (h1 : NoMsg fuelMsg s1) (h2 : NoMsg fuelMsg s2) (h3 : NoMsg fuelMsg s3) :
    NoMsg fuelMsg (rangeStage s1 s2 s3) := by
  unfold rangeStage
  have := rangeBody_ok
  nomsg h1 using this

theorem forLoop_ok (cond incr : Stage) (hc : NoMsg fuelMsg cond) (hi : NoMsg fuelMsg incr) :
    ∀ (fuel : Nat) (val : Bytes) (idx : Nat) (sb : Sb), NoMsg fuelMsg (forLoop cond incr fuel val idx sb)
  | 0, _, _, _ => .panic _ (by decide)
  | fuel + 1, val, idx, sb => by
    unfold forLoop
    refine NoMsg.bind (hc.withSub _ _) fun c => ?_
    split
    · exact .ret _
    · refine NoMsg.bind (hi.withSub _ _) fun v' => ?_
      simp only []
      split
      · exact .ret _
      · exact forLoop_ok cond incr hc hi fuel _ _ _

theorem table_ok : ∀ p ∈ table, NoMsgBuilder fuelMsg p.2 := by
  intro p hp
  simp only [table, List.mem_cons, List.not_mem_nil, or_false] at hp
  rcases hp with e | e | e | e | e | e | e | e | e | e | e | e | e <;> subst e
  iterate 2
    · intro args h
      show GoodB _ (joinArgs _ args)
      unfold joinArgs; split
      · exact GoodB.ok (.ret _)
      · exact GoodB.ok (h _ (by simp))
      · rename_i a0 rest _
        apply GoodB.ok
        unfold joinArgsStage
        exact NoMsg.bind (h _ (by simp)) fun v0 =>
          NoMsg.bind (joinArgsLoop_ok _ rest _ fun x hx => h x (by simp [hx])) fun sb => .ret _
  · intro args h
    show GoodB _ (kfArrayLen args)
    unfold kfArrayLen; split
    · apply GoodB.ok; unfold lenStage; nomsg h
    · exact GoodB.errArgCount
  · intro args h
    show GoodB _ (kfArrayMap args)
    unfold kfArrayMap; split
    · rename_i a0 a1
      apply GoodB.ok; unfold mapStage
      exact NoMsg.bind (h _ (by simp)) fun arr => arrayOperator_ok _ _ _ _ fun s => (h _ (by simp)).withSub _ _
    · exact GoodB.errArgCount
  · intro args h
    show GoodB _ (kfArraySplit args)
    unfold kfArraySplit; split
    · exact GoodB.errArgCount
    · cases hc : evalStageIndexOrDefault args 1 (ascii " ") with
      | error e => exact GoodB.error (evalStageIndexOrDefault_ne h 1 _ hc)
      | ok byVal =>
        simp only []
        split
        · exact GoodB.errEmpty
        · split
          · apply GoodB.ok; unfold splitStage
            exact NoMsg.bind (h _ (by simp)) fun v => arrayOperator_ok _ _ _ _ fun s => .ret _
          · exact GoodB.errArgCount
  · intro args h
    show GoodB _ (kfArraySelect args)
    unfold kfArraySelect; split
    · rename_i a0 a1
      cases hc : evalStageInt a1 with
      | error e => exact GoodB.error (evalStageInt_ne (h _ (by simp)) hc)
      | ok o =>
        cases o with
        | none => exact GoodB.errNum
        | some index =>
          apply GoodB.ok; unfold selectStage
          exact NoMsg.bind (h _ (by simp)) fun s =>
            NoMsg.bind (splitLoop_ok _ _ _ _ _ fun st x => .ret _) fun st => .ret _
    · exact GoodB.errArgCount
  · intro args h
    show GoodB _ (kfArrayJoin args)
    unfold kfArrayJoin; split
    · exact GoodB.errArgCount
    · cases hc : evalStageIndexOrDefault args 1 (ascii " ") with
      | error e => exact GoodB.error (evalStageIndexOrDefault_ne h 1 _ hc)
      | ok delim =>
        simp only []
        split
        · apply GoodB.ok; unfold joinStage
          exact NoMsg.bind (h _ (by simp)) fun v => arrayOperator_ok _ _ _ _ fun s => .ret _
        · exact GoodB.errArgCount
  · intro args h
    show GoodB _ (kfArrayReduce args)
    unfold kfArrayReduce; split
    · exact GoodB.errArgCount
    · cases hc : evalStageIndexOrDefault args 2 [] with
      | error e => exact GoodB.error (evalStageIndexOrDefault_ne h 2 _ hc)
      | ok initial =>
        simp only []
        split
        · apply GoodB.ok; unfold reduceStage
          exact NoMsg.bind (h _ (by simp)) fun s => splitLoop_ok _ _ _ _ _ fun memo x => (h _ (by simp)).withSub _ _
        · exact GoodB.errArgCount
  · intro args h
    show GoodB _ (kfArrayFilter args)
    unfold kfArrayFilter; split
    · rename_i a0 a1
      apply GoodB.ok; unfold filterStage
      refine NoMsg.bind (h _ (by simp)) fun s => NoMsg.bind (splitLoop_ok _ _ _ _ _ fun st item => ?_) fun st => .ret _
      refine NoMsg.bind ((h _ (by simp)).withSub _ _) fun c => ?_
      split <;> exact .ret _
    · exact GoodB.errArgCount
  · intro args h
    show GoodB _ (kfArraySlice args)
    unfold kfArraySlice; split
    · exact GoodB.errArgCount
    · split
      · rename_i a0 a1 rest _
        cases hc : evalStageInt a1 with
        | error e => exact GoodB.error (evalStageInt_ne (h _ (by simp)) hc)
        | ok o =>
          cases o with
          | none => exact GoodB.errConst
          | some start =>
            simp only []
            cases hc2 : evalArgInt (a0 :: a1 :: rest) 2 (-1) with
            | error e => exact GoodB.error (evalArgInt_ne h 2 _ hc2)
            | ok o2 =>
              cases o2 with
              | none => exact GoodB.errConst
              | some len =>
                apply GoodB.ok; unfold sliceStage
                exact NoMsg.bind (h _ (by simp)) fun s =>
                  NoMsg.bind (splitLoop_ok _ _ _ _ _ fun st x => .ret _) fun st => .ret _
      · exact GoodB.errArgCount
  · intro args h
    show GoodB _ (kfArrayIn args)
    unfold kfArrayIn; split
    · rename_i a0 a1
      cases hp : a1.probe with
      | error e => exact GoodB.error (probe_ne (h _ (by simp)) hp)
      | ok pr =>
        obtain ⟨v, b⟩ := pr
        cases b with
        | false => exact GoodB.errConst
        | true => apply GoodB.ok; unfold inStage; nomsg h
    · exact GoodB.errArgCount
  · intro args h
    show GoodB _ (kfArrayRange args)
    unfold kfArrayRange; split
    · exact GoodB.ok (rangeStage_ok _ _ _ (.ret _) (h _ (by simp)) (.ret _))
    · exact GoodB.ok (rangeStage_ok _ _ _ (h _ (by simp)) (h _ (by simp)) (.ret _))
    · exact GoodB.ok (rangeStage_ok _ _ _ (h _ (by simp)) (h _ (by simp)) (h _ (by simp)))
    · exact GoodB.errArgCount
  · intro args h
    show GoodB _ (kfArrayFor args)
    unfold kfArrayFor; split
    · rename_i a0 a1 a2
      apply GoodB.ok; unfold forStage
      exact NoMsg.bind (h _ (by simp)) fun val => forLoop_ok a1 a2 (h _ (by simp)) (h _ (by simp)) _ _ _ _
    · exact GoodB.errArgCount

end R

/-! ### Math (`{! formula}`) -/
namespace Mth
open Funcs.Math

theorem collapse_ne : ∀ (l : List Stage) (acc : Bytes), AllNoMsg fuelMsg l → collapse l acc ≠ .error fuelMsg
  | [], _, _ => by simp [collapse]
  | a :: rest, acc, h => by
    unfold collapse
    cases hp : a.probe with
    | error e => simpa using probe_ne (h a (by simp)) hp
    | ok pr =>
      obtain ⟨v, b⟩ := pr
      cases b with
      | true => exact collapse_ne rest _ fun x hx => h x (by simp [hx])
      | false => simp

theorem evalC_ok {V : Type} (I : MathInst V) : ∀ e : C19.Expr V, NoMsg fuelMsg (evalC I e)
  | .val v => .ret _
  | .named n => by unfold evalC; exact NoMsg.bind' (NoMsg.key _) fun s => NoMsg.pure _
  | .idx i => by unfold evalC; exact NoMsg.bind' (NoMsg.match_ _) fun s => NoMsg.pure _
  | .un mm e => by
    unfold evalC
    exact NoMsg.bind' (evalC_ok I e) fun p => NoMsg.pure _
  | .bin op l r => by
    unfold evalC
    exact NoMsg.bind' (evalC_ok I l) fun p => NoMsg.bind' (evalC_ok I r) fun q => NoMsg.pure _

theorem kfMath_ok : NoMsgBuilder fuelMsg kfMath := by
  intro args h
  unfold kfMath kfMathWith
  have hcol := collapse_ne args [] h
  cases hc : collapse args [] with
  | error e => rw [hc] at hcol; exact GoodB.error (by simpa using hcol)
  | ok o =>
    cases o with
    | none => exact GoodB.errConst
    | some src =>
      simp only []
      cases hcomp : C19.compile floatInst.arith src with
      | error err =>
        have hnp := Rare.C19.compileF_noPanic floatInst.arith _ src err hcomp
        cases err with
        | panic mm => exact absurd rfl (hnp mm)
        | fuel => exact GoodB.error (by decide)
        | unmodelled w => exact GoodB.built (.panic _ (unmodelled_ne' _ _ (by decide)))
        | overclosed => exact GoodB.errParsing
        | unclosed => exact GoodB.errParsing
        | numeric => exact GoodB.errParsing
        | unexpectedEnd => exact GoodB.errParsing
        | expectedExpr => exact GoodB.errParsing
        | unknownOp => exact GoodB.errParsing
        | expectedOp => exact GoodB.errParsing
      | ok pe =>
        obtain ⟨t, e⟩ := pe
        apply GoodB.ok
        refine NoMsg.bind' (evalC_ok floatInst e) fun p => ?_
        obtain ⟨v, errs⟩ := p
        simp only []
        split
        · exact NoMsg.pure _
        · show NoMsg fuelMsg (floatInst.render v)
          simp only [floatInst]
          split
          · exact .panic _ (by decide)
          · exact NoMsg.pure _

end Mth

/-! ### the standard registry -/

theorem stdTable_ok : ∀ p ∈ stdTable, NoMsgBuilder fuelMsg p.2 := by
  intro p hp
  simp only [stdTable, List.mem_append] at hp
  rcases hp with (((((hp | hp) | hp) | hp) | hp) | hp) | hp
  · exact L.table_ok p hp
  · exact A.table_ok p hp
  · exact S.table_ok p hp
  · exact R.table_ok p hp
  · simp only [Funcs.Math.table, List.mem_cons, List.not_mem_nil, or_false] at hp
    subst hp; exact Mth.kfMath_ok
  · simp [Funcs.Time.table] at hp
  · exact M.table_ok p hp

theorem lookupTable_mem (t : Table) (n : String) (b : Builder) (h : lookupTable t n = some b) :
    ∃ p ∈ t, p.2 = b := by
  unfold lookupTable at h
  cases hf : t.find? (·.1 == n) with
  | none => rw [hf] at h; cases h
  | some p =>
    rw [hf] at h
    simp only [Option.map_some, Option.some.injEq] at h
    exact ⟨p, List.mem_of_find?_eq_some hf, h⟩

/-- **The standard registry satisfies the hypothesis of `compile_never_out_of_fuel`**, whatever names the
    Go side knows beyond the model (`known`: they get `unmodelledBuilder`). -/
theorem std_noMsgReg (known : List String) : NoMsgReg fuelMsg (mkRegistry stdTable known) := by
  intro name f args hreg hargs
  unfold mkRegistry at hreg
  simp only [] at hreg
  cases hl : lookupTable stdTable (String.ofList name) with
  | some b =>
    rw [hl] at hreg
    simp only [Option.some.injEq] at hreg; subst hreg
    obtain ⟨p, hp, rfl⟩ := lookupTable_mem _ _ _ hl
    exact stdTable_ok p hp args hargs
  | none =>
    rw [hl] at hreg
    simp only [] at hreg
    split at hreg
    · simp only [Option.some.injEq] at hreg; subst hreg
      exact unmodelledBuilder_ok _ args hargs
    · cases hreg

end Rare.C09
