import Rare.Spec.C17
import Rare.Model.Expr.Funcs.Range
/-!
Helper lemmas for C17, part 1: the list-level facts about splitting and joining
(`splitOn`/`join` of the specification, `indexOf` of the model).
-/
namespace Rare.C17
open Rare Rare.Expr Rare.Expr.Funcs.Range

/-! ## `join` -/

theorem join_cons_ne (d x : Bytes) (ys : List Bytes) (h : ys ≠ []) :
    join d (x :: ys) = x ++ d ++ join d ys := by
  cases ys with
  | nil => exact absurd rfl h
  | cons y r => rfl

/-! ## `splitGo` / `splitOn` -/

theorem splitGo_ne_nil (d s : Bytes) (k : Nat) (cur : Bytes) : splitGo d s k cur ≠ [] := by
  induction s generalizing k cur with
  | nil => simp [splitGo]
  | cons c r ih =>
    cases k with
    | zero =>
      simp only [splitGo]
      split
      · simp
      · exact ih _ _
    | succ k => simp only [splitGo]; exact ih _ _

theorem splitGo_skip (d s : Bytes) (k : Nat) (cur : Bytes) :
    splitGo d s k cur = splitGo d (s.drop k) 0 cur := by
  induction s generalizing k with
  | nil => simp [splitGo]
  | cons c r ih =>
    cases k with
    | zero => simp
    | succ k => simp [splitGo, ih k]

theorem isPrefixOf_nil_false (d : Bytes) (hd : d ≠ []) : d.isPrefixOf ([] : Bytes) = false := by
  cases d with
  | nil => exact absurd rfl hd
  | cons a r => rfl

theorem indexOf_nil (d : Bytes) (hd : d ≠ []) : indexOf d [] = none := by
  unfold indexOf
  simp [isPrefixOf_nil_false d hd]

theorem indexOf_cons (d : Bytes) (c : UInt8) (r : Bytes) :
    indexOf d (c :: r) = if d.isPrefixOf (c :: r) then some 0 else (indexOf d r).map (· + 1) := by
  rw [indexOf]

/-- The byte-by-byte reading of the specification and the `strings.Index` based reading of the
    splitter describe the same split. -/
theorem splitGo_index (d : Bytes) (hd : d ≠ []) (s cur : Bytes) :
    splitGo d s 0 cur =
      match indexOf d s with
      | none => [cur ++ s]
      | some i => (cur ++ s.take i) :: splitGo d (s.drop (i + d.length)) 0 [] := by
  induction s generalizing cur with
  | nil => simp [indexOf_nil d hd, splitGo]
  | cons c r ih =>
    rw [indexOf_cons]
    by_cases hp : d.isPrefixOf (c :: r) = true
    · simp only [splitGo, hp, if_true]
      rw [splitGo_skip]
      have : 0 + d.length = (d.length - 1) + 1 := by
        have : d.length ≠ 0 := by simpa using hd
        omega
      simp [this]
    · simp only [splitGo, hp]
      rw [ih]
      cases hi : indexOf d r with
      | none => simp
      | some i =>
        simp only [Option.map_some, List.append_assoc, List.cons_append, List.nil_append]
        have : i + 1 + d.length = (i + d.length) + 1 := by omega
        simp [this]

theorem splitOn_index (d : Bytes) (hd : d ≠ []) (s : Bytes) :
    splitOn d s =
      match indexOf d s with
      | none => [s]
      | some i => s.take i :: splitOn d (s.drop (i + d.length)) := by
  unfold splitOn
  rw [splitGo_index d hd]
  cases indexOf d s <;> simp

/-- `indexOf` points at an occurrence. -/
theorem indexOf_some (d s : Bytes) (i : Nat) (h : indexOf d s = some i) :
    s = s.take i ++ d ++ s.drop (i + d.length) := by
  induction s generalizing i with
  | nil =>
    unfold indexOf at h
    by_cases hp : d.isPrefixOf ([] : Bytes) = true
    · have : d = [] := by
        have := List.isPrefixOf_iff_prefix.mp hp
        simpa using this
      simp [hp] at h
      subst h; simp [this]
    · simp [hp] at h
  | cons c r ih =>
    rw [indexOf_cons] at h
    by_cases hp : d.isPrefixOf (c :: r) = true
    · simp [hp] at h
      subst h
      obtain ⟨t, ht⟩ := List.isPrefixOf_iff_prefix.mp hp
      simp only [List.take_zero, List.nil_append, Nat.zero_add]
      rw [← ht]; simp
    · simp only [hp] at h
      cases hi : indexOf d r with
      | none => simp [hi] at h
      | some j =>
        simp [hi] at h
        subst h
        have := ih j hi
        have e : j + 1 + d.length = (j + d.length) + 1 := by omega
        simp only [List.take_succ_cons, List.cons_append, e, List.drop_succ_cons]
        exact congrArg (c :: ·) this

theorem indexOf_some_lt (d s : Bytes) (i : Nat) (hd : d ≠ []) (h : indexOf d s = some i) :
    (s.drop (i + d.length)).length < s.length := by
  have h1 := indexOf_some d s i h
  have h2 : s.length = (s.take i ++ d ++ s.drop (i + d.length)).length := by rw [← h1]
  simp only [List.length_append] at h2
  have : d.length ≠ 0 := by simpa using hd
  omega

/-- First inverse law: joining the pieces with the delimiter gives the string back. -/
theorem join_splitOn (d : Bytes) (hd : d ≠ []) (s : Bytes) : join d (splitOn d s) = s := by
  generalize hn : s.length = n
  induction n using Nat.strongRecOn generalizing s with
  | _ n ih =>
    rw [splitOn_index d hd]
    cases hi : indexOf d s with
    | none => simp [join]
    | some i =>
      simp only
      rw [join_cons_ne _ _ _ (by unfold splitOn; exact splitGo_ne_nil _ _ _ _)]
      have hlt := indexOf_some_lt d s i hd hi
      rw [ih _ (by omega) _ rfl]
      exact (indexOf_some d s i hi).symm

theorem indexOf_none_of_not_infix (d s : Bytes) (h : ¬ d <:+: s) : indexOf d s = none := by
  induction s with
  | nil =>
    unfold indexOf
    have : ¬ d.isPrefixOf ([] : Bytes) = true := fun hp =>
      h (List.isPrefixOf_iff_prefix.mp hp).isInfix
    simp [this]
  | cons c r ih =>
    rw [indexOf_cons]
    have hp : ¬ d.isPrefixOf (c :: r) = true := fun hp =>
      h (List.isPrefixOf_iff_prefix.mp hp).isInfix
    have hr : ¬ d <:+: r := fun hr => h (List.infix_cons hr)
    simp [hp, ih hr]

theorem dropLast_append_getLast_prefix (d : Bytes) (hd : d ≠ []) (x t : Bytes) :
    x ++ d.dropLast <+: x ++ d ++ t := by
  refine ⟨[d.getLast hd] ++ t, ?_⟩
  have := List.dropLast_concat_getLast hd
  calc x ++ d.dropLast ++ ([d.getLast hd] ++ t) = x ++ (d.dropLast ++ [d.getLast hd]) ++ t := by simp
    _ = x ++ d ++ t := by rw [this]

/-- If the delimiter does not occur in `x` followed by all but the last byte of the delimiter, the
    first occurrence in `x ++ d ++ t` is the one right after `x`. -/
theorem indexOf_append (d : Bytes) (hd : d ≠ []) (x t : Bytes) (h : ¬ d <:+: x ++ d.dropLast) :
    indexOf d (x ++ d ++ t) = some x.length := by
  induction x with
  | nil =>
    unfold indexOf
    have : d.isPrefixOf ([] ++ d ++ t) = true :=
      List.isPrefixOf_iff_prefix.mpr ⟨t, by simp⟩
    rw [if_pos this]; simp
  | cons c x ih =>
    have hr : ¬ d <:+: x ++ d.dropLast := fun hr => h (by simpa using List.infix_cons hr)
    have hp : ¬ d.isPrefixOf (c :: x ++ d ++ t) = true := by
      intro hp
      have h1 : d <+: c :: x ++ d ++ t := List.isPrefixOf_iff_prefix.mp hp
      have h2 : (c :: x) ++ d.dropLast <+: c :: x ++ d ++ t := dropLast_append_getLast_prefix d hd (c :: x) t
      have hl : d.length ≤ ((c :: x) ++ d.dropLast).length := by
        simp only [List.length_append, List.length_cons, List.length_dropLast]
        omega
      exact h (List.prefix_of_prefix_length_le h1 h2 hl).isInfix
    have e : c :: x ++ d ++ t = c :: (x ++ d ++ t) := by simp
    rw [e, indexOf_cons]
    rw [e] at hp
    rw [if_neg hp, ih hr]
    simp

/-- Second inverse law: splitting a joined list gives the list back, provided the delimiter cannot
    be found anywhere but at the joints. -/
theorem splitOn_join (d : Bytes) (hd : d ≠ []) (xs : List Bytes) (hx : xs ≠ [])
    (h : ∀ x ∈ xs, ¬ d <:+: x ++ d.dropLast) : splitOn d (join d xs) = xs := by
  induction xs with
  | nil => exact absurd rfl hx
  | cons x r ih =>
    cases r with
    | nil =>
      have hn : ¬ d <:+: x := fun hi =>
        h x (by simp) (List.IsInfix.trans hi (List.prefix_append x d.dropLast).isInfix)
      rw [splitOn_index d hd]
      simp [join, indexOf_none_of_not_infix d x hn]
    | cons y r =>
      rw [splitOn_index d hd]
      have e : join d (x :: y :: r) = x ++ d ++ join d (y :: r) := rfl
      rw [e, indexOf_append d hd x _ (h x (by simp))]
      simp only
      have h1 : (x ++ d ++ join d (y :: r)).take x.length = x := by simp
      have h2 : (x ++ d ++ join d (y :: r)).drop (x.length + d.length) = join d (y :: r) := by
        have : x.length + d.length = (x ++ d).length := by simp
        rw [this, List.drop_left]
      rw [h1, h2, ih (by simp) (fun z hz => h z (by simp [hz]))]

end Rare.C17
