import Rare.Proofs.C02
import Rare.Model.C02Filter
import Rare.Spec.C02
/-! C02: `{@}` (array), default `filter` output, what "colour codes removed" means. -/
namespace Rare.C02

/-! ### `array()` -/

theorem joinSep_cons (sep x : Bytes) (r : List Bytes) :
    joinSep sep (x :: r) = x ++ (r.map (sep ++ ·)).flatten := by
  induction r generalizing x with
  | nil => simp [joinSep]
  | cons y r ih => simp [joinSep, ih y]

theorem arrayGo_eq (get : Nat → Except String Bytes) (half : Nat) (f : Nat → Bytes)
    (hget : ∀ i, i < half → get i = .ok (f i)) :
    ∀ (n i : Nat), arrayGo get half n i =
      .ok (((List.range' i (min n (half - i))).map fun k => (if k > 1 then [0] else []) ++ f k).flatten) := by
  intro n
  induction n with
  | zero => intro i; simp [arrayGo]
  | succ n ih =>
    intro i
    unfold arrayGo
    by_cases hi : i < half
    · rw [if_pos hi, hget i hi, ih (i + 1)]
      have e : min (n + 1) (half - i) = min n (half - (i + 1)) + 1 := by omega
      rw [e, List.range'_succ]
      simp
    · rw [if_neg hi]
      have e : min (n + 1) (half - i) = 0 := by omega
      rw [e]; simp

theorem array_eq (line : Bytes) (indices : List Int) (hwf : WF line indices)
    (hlen : (indices.length : Int) < 4611686018427387904) :
    array line indices =
      .ok (joinSep [0] ((List.range' 1 (indices.length / 2 - 1)).map fun (k : Nat) => specGroup line indices (k : Int))) := by
  unfold array
  rw [arrayGo_eq _ (indices.length / 2) (fun k => specGroup line indices (k : Nat)) (by
    intro i hi
    exact getMatch_eq_spec line indices i hwf hlen (by unfold minInt64 maxInt64; omega))]
  have e : min (indices.length / 2) (indices.length / 2 - 1) = indices.length / 2 - 1 := by omega
  rw [e]
  congr 1
  cases hm : indices.length / 2 - 1 with
  | zero => simp [joinSep]
  | succ m =>
    rw [List.range'_succ, List.map_cons, List.map_cons, joinSep_cons]
    simp only [List.flatten_cons]
    have hm2 : ∀ l : List Nat, (∀ k ∈ l, 1 < k) →
        l.map (fun k => (if k > 1 then [0] else []) ++ specGroup line indices (k : Nat)) =
        (l.map fun (k : Nat) => specGroup line indices (k : Int)).map ([0] ++ ·) := by
      intro l hl
      rw [List.map_map]
      apply List.map_congr_left
      intro k hk
      simp [hl k hk]
    rw [hm2 _ (fun k hk => by have := (List.mem_range'_1.mp hk).1; omega)]
    simp

/-! ### index lists a regex engine can return -/

/-- What `FindSubmatchIndex` of Go's `regexp` (and of dissect, and of `AlwaysMatch`) returns for a
matching line: an even number of offsets, at least the pair of the whole match, every pair either
`(-1, -1)` (group did not participate) or a range inside the line.  Nothing is assumed about the order
or nesting of the groups (a later group may lie before an earlier one, groups may overlap, coincide
or be empty). -/
structure EngineWF (line : Bytes) (indices : List Int) : Prop where
  two : 2 ≤ indices.length
  even : indices.length % 2 = 0
  wf : WF line indices

theorem WF.le_length {line : Bytes} {indices : List Int} (h : WF line indices) (he : indices.length % 2 = 0) :
    ∀ g ∈ indices, g ≤ line.length := by
  intro g hg
  obtain ⟨j, hj, e⟩ := List.getElem_of_mem hg
  have hk := h (j / 2) (by omega)
  have hgd : indices.getD j 0 = g := by simp [List.getD, hj, e]
  rcases Nat.mod_two_eq_zero_or_one j with hm | hm
  · have e2 : 2 * (j / 2) = j := by omega
    rw [e2] at hk
    rcases hk with ⟨h1, _⟩ | ⟨_, h2, h3⟩ <;> omega
  · have e2 : 2 * (j / 2) + 1 = j := by omega
    rw [e2] at hk
    rcases hk with ⟨_, h1⟩ | ⟨_, _, h3⟩ <;> omega

/-! ### segments -/

theorem strip_append (a b : List Seg) : strip (a ++ b) = strip a ++ strip b := by
  induction a with
  | nil => rfl
  | cons x xs ih => cases x <;> simp [strip, ih]

theorem render_append (a b : List Seg) : render (a ++ b) = render a ++ render b := by
  induction a with
  | nil => rfl
  | cons x xs ih => cases x <;> simp [render, ih]

theorem strip_eq_texts (segs : List Seg) : strip segs = (texts segs).flatten := by
  induction segs with
  | nil => rfl
  | cons x xs ih => cases x <;> simp [strip, texts, ih]

theorem texts_append (a b : List Seg) : texts (a ++ b) = texts a ++ texts b := by
  induction a with
  | nil => rfl
  | cons x xs ih => cases x <;> simp [texts, ih]

theorem codes_append (a b : List Seg) : codes (a ++ b) = codes a ++ codes b := by
  induction a with
  | nil => rfl
  | cons x xs ih => cases x <;> simp [codes, ih]

/-- every line piece of an output stands in it contiguously -/
theorem text_infix_render : ∀ (segs : List Seg) (t : Bytes), t ∈ texts segs → t <:+: render segs := by
  intro segs
  induction segs with
  | nil => intro t h; simp [texts] at h
  | cons x xs ih =>
    intro t h
    cases x with
    | text b =>
      simp only [texts, List.mem_cons] at h
      rcases h with e | h
      · subst e; exact ⟨[], render xs, by simp [render]⟩
      · obtain ⟨p, q, e⟩ := ih t h
        exact ⟨b ++ p, q, by simp [render, ← e]⟩
    | code b =>
      simp only [texts] at h
      obtain ⟨p, q, e⟩ := ih t h
      exact ⟨b ++ p, q, by simp [render, ← e]⟩

/-! ### the inserted codes come from the table -/

theorem wrapLoop_codes (s : Bytes) (colors : List Bytes) (reset : Bytes) (hc : colors ≠ []) :
    ∀ (groups : List Int) (i : Nat) (last : Int) (segs : List Seg) (l : Int),
      wrapLoop s colors reset groups i last = .ok (segs, l) → ∀ c ∈ codes segs, c = reset ∨ c ∈ colors := by
  intro groups i last
  fun_induction wrapLoop s colors reset groups i last with
  | case1 start stop rest i last hcnd a b hb ha segs' l' hrec ih =>
    intro segs l h c hcm
    simp only [Except.ok.injEq, Prod.mk.injEq] at h
    obtain ⟨rfl, rfl⟩ := h
    simp only [codes, List.mem_cons] at hcm
    rcases hcm with e | e | hcm
    · right; subst e
      have hlen : 0 < colors.length := List.length_pos_iff.mpr hc
      have hlt : i % colors.length < colors.length := Nat.mod_lt _ hlen
      simp [List.getD, hlt]
    · left; exact e
    · exact ih segs' l' hrec c hcm
  | case2 start stop rest i last hcnd a b hb ha m hrec ih => intro segs l h; cases h
  | case3 start stop rest i last hcnd m herr => intro segs l h; cases h
  | case4 start stop rest i last hcnd m herr => intro segs l h; cases h
  | case5 start stop rest i last hcnd ih => intro segs l h; exact ih segs l h
  | case6 t i last hne => intro segs l h c hcm; simp at h; obtain ⟨rfl, _⟩ := h; simp [codes] at hcm

theorem wrapIndices_codes (s : Bytes) (colors : List Bytes) (reset : Bytes) (hc : colors ≠ []) (groups : List Int)
    (segs : List Seg) (h : wrapIndices s colors reset groups = .ok segs) :
    ∀ c ∈ codes segs, c = reset ∨ c ∈ colors := by
  unfold wrapIndices at h
  split at h
  · simp at h; subst h; simp [codes]
  · split at h
    · cases h
    · rename_i segs' last heq
      have hw := wrapLoop_codes s colors reset hc groups 0 0 segs' last heq
      split at h
      · split at h
        · simp at h; subst h
          intro c hcm; rw [codes_append] at hcm; simp [codes] at hcm; exact hw c hcm
        · cases h
      · simp at h; subst h; exact hw

/-! ### default `filter` output -/

theorem filterLine_on (colors : List Bytes) (reset : Bytes) (line : Bytes) (indices : List Int)
    (h2 : 2 ≤ indices.length) (hr : ∀ g ∈ indices, g ≤ line.length) :
    ∃ segs, filterLine true colors reset line indices = .ok (segs ++ [.text [0x0a]]) ∧ strip segs = line ∧
      (colors ≠ [] → ∀ c ∈ codes segs, c = reset ∨ c ∈ colors) := by
  unfold filterLine filterLineK
  simp only []
  by_cases hl : indices.length = 2
  · obtain ⟨segs, hs, hst⟩ := wrapIndices_strip_eq line colors reset indices hr
    refine ⟨segs, by simp [hl, wrapIndicesE, hs], hst, fun hc => wrapIndices_codes line colors reset hc indices segs hs⟩
  · have hr' : ∀ g ∈ indices.drop 2, g ≤ line.length := fun g hg => hr g (List.mem_of_mem_drop hg)
    obtain ⟨segs, hs, hst⟩ := wrapIndices_strip_eq line colors reset (indices.drop 2) hr'
    refine ⟨segs, ?_, hst, fun hc => wrapIndices_codes line colors reset hc _ segs hs⟩
    rw [if_neg hl, if_neg (by omega)]
    simp [wrapIndicesE, hs]

theorem filterLine_off (colors : List Bytes) (reset : Bytes) (line : Bytes) (indices : List Int)
    (h2 : 2 ≤ indices.length) :
    filterLine false colors reset line indices = .ok [.text line, .text [0x0a]] := by
  unfold filterLine filterLineK
  by_cases hl : indices.length = 2
  · simp [hl, wrapIndicesE]
  · simp only []
    rw [if_neg hl, if_neg (by omega)]
    simp [wrapIndicesE]

/-! ### "colour codes removed", byte level -/

theorem visibleRun_append (esc : UInt8) : ∀ (a b : Bytes) (st : Bool),
    visibleRun esc st (a ++ b) =
      ((visibleRun esc st a).1 ++ (visibleRun esc (visibleRun esc st a).2 b).1,
       (visibleRun esc (visibleRun esc st a).2 b).2) := by
  intro a
  induction a with
  | nil => intro b st; simp [visibleRun]
  | cons c a ih =>
    intro b st
    simp only [List.cons_append, visibleRun]
    split
    · exact ih b true
    · split
      · exact ih b false
      · split
        · simp [ih b false]
        · exact ih b true

theorem visibleRun_plain (esc : UInt8) : ∀ (t : Bytes), esc ∉ t → visibleRun esc false t = (t, false) := by
  intro t
  induction t with
  | nil => intro _; rfl
  | cons c t ih =>
    intro h
    have hc : c ≠ esc := fun e => h (by simp [e])
    have ht : esc ∉ t := fun e => h (by simp [e])
    simp [visibleRun, hc, ih ht]

/-- a code the state machine recognises as one complete code when met outside a code -/
def ClosedCode (esc : UInt8) (c : Bytes) : Prop := visibleRun esc false c = ([], false)

instance (esc : UInt8) (c : Bytes) : Decidable (ClosedCode esc c) := by unfold ClosedCode; infer_instance

theorem visible_render (esc : UInt8) : ∀ (segs : List Seg),
    (∀ t ∈ texts segs, esc ∉ t) → (∀ c ∈ codes segs, ClosedCode esc c) →
    visibleRun esc false (render segs) = (strip segs, false) := by
  intro segs
  induction segs with
  | nil => intro _ _; rfl
  | cons x xs ih =>
    intro ht hc
    cases x with
    | text b =>
      have h1 := visibleRun_plain esc b (ht b (by simp [texts]))
      have h2 := ih (fun t h => ht t (by simp [texts, h])) (fun c h => hc c (by simpa [codes] using h))
      simp [render, strip, visibleRun_append, h1, h2]
    | code b =>
      have h1 : visibleRun esc false b = ([], false) := hc b (by simp [codes])
      have h2 := ih (fun t h => ht t (by simpa [texts] using h)) (fun c h => hc c (by simp [codes, h]))
      simp [render, strip, visibleRun_append, h1, h2]

/-! ### a stretch of the line that no group boundary cuts stands in the output unchanged -/

theorem slice_infix (s : Bytes) (a1 a b b1 : Nat) (h1 : a1 ≤ a) (h2 : a ≤ b) (h3 : b ≤ b1) :
    (s.drop a).take (b - a) <:+: (s.drop a1).take (b1 - a1) := by
  have e1 := slice_concat s a1 a b h1 h2
  have e2 := slice_concat s a1 b b1 (by omega) h3
  exact ⟨(s.drop a1).take (a - a1), (s.drop b).take (b1 - b), by rw [e1, e2]⟩

theorem infix_of_empty (a : Nat) (s t : Bytes) : (s.drop a).take (a - a) <:+: t := by
  simp

theorem wrapLoop_keeps (s : Bytes) (colors : List Bytes) (reset : Bytes) :
    ∀ (groups : List Int) (i : Nat) (last : Int) (segs : List Seg) (l : Int),
      wrapLoop s colors reset groups i last = .ok (segs, l) → 0 ≤ last →
      (l = last ∨ l ∈ groups) ∧
      ∀ (a b : Nat), last ≤ (a : Int) → a ≤ b → (b : Int) ≤ l →
        (∀ g ∈ groups, ¬ ((a : Int) < g ∧ g < (b : Int))) →
        (s.drop a).take (b - a) <:+: render segs := by
  intro groups i last
  fun_induction wrapLoop s colors reset groups i last with
  | case1 start stop rest i last hcnd A B hb ha segs' l' hrec ih =>
    intro segs l h h0
    simp only [Except.ok.injEq, Prod.mk.injEq] at h
    obtain ⟨rfl, rfl⟩ := h
    obtain ⟨hl, hk⟩ := ih segs' l' hrec (by omega)
    obtain ⟨_, _, _, rfl⟩ := goSlice_inv ha
    obtain ⟨_, _, _, rfl⟩ := goSlice_inv hb
    refine ⟨?_, ?_⟩
    · right
      rcases hl with e | e
      · rw [e]; simp
      · simp [e]
    · intro a b hla hab hbl hno
      have hs1 := hno start (by simp)
      have hs2 := hno stop (by simp)
      by_cases c1 : (b : Int) ≤ start
      · have hi := slice_infix s last.toNat a b start.toNat (by omega) hab (by omega)
        obtain ⟨p, q, e⟩ := hi
        exact ⟨p, q ++ render (Seg.code (colors.getD (i % colors.length) []) :: Seg.text ((s.drop start.toNat).take (stop.toNat - start.toNat)) :: Seg.code reset :: segs'),
          by simp only [render]; rw [← e]; simp⟩
      · by_cases c2 : start ≤ (a : Int) ∧ (b : Int) ≤ stop
        · have hi := slice_infix s start.toNat a b stop.toNat (by omega) hab (by omega)
          obtain ⟨p, q, e⟩ := hi
          exact ⟨(s.drop last.toNat).take (start.toNat - last.toNat) ++ colors.getD (i % colors.length) [] ++ p,
            q ++ reset ++ render segs', by simp only [render]; rw [← e]; simp⟩
        · have c3 : stop ≤ (a : Int) := by omega
          obtain ⟨p, q, e⟩ := hk a b c3 hab hbl (fun g hg => hno g (by simp [hg]))
          exact ⟨(s.drop last.toNat).take (start.toNat - last.toNat) ++ colors.getD (i % colors.length) [] ++
            (s.drop start.toNat).take (stop.toNat - start.toNat) ++ reset ++ p, q,
            by simp only [render]; rw [← e]; simp⟩
  | case2 start stop rest i last hcnd a b hb ha m hrec ih => intro segs l h; cases h
  | case3 start stop rest i last hcnd m herr => intro segs l h; cases h
  | case4 start stop rest i last hcnd m herr => intro segs l h; cases h
  | case5 start stop rest i last hcnd ih =>
    intro segs l h h0
    obtain ⟨hl, hk⟩ := ih segs l h h0
    refine ⟨?_, fun a b hla hab hbl hno => hk a b hla hab hbl (fun g hg => hno g (by simp [hg]))⟩
    rcases hl with e | e
    · left; exact e
    · right; simp [e]
  | case6 t i last hne =>
    intro segs l h h0
    simp only [Except.ok.injEq, Prod.mk.injEq] at h
    obtain ⟨rfl, rfl⟩ := h
    refine ⟨Or.inl rfl, ?_⟩
    intro a b hla hab hbl _
    have : a = b := by omega
    subst this
    exact infix_of_empty a s _

theorem wrapIndices_keeps (s : Bytes) (colors : List Bytes) (reset : Bytes) (groups : List Int) (segs : List Seg)
    (h : wrapIndices s colors reset groups = .ok segs) (a b : Nat) (hab : a ≤ b) (hb : b ≤ s.length)
    (hno : ∀ g ∈ groups, ¬ ((a : Int) < g ∧ g < (b : Int))) :
    (s.drop a).take (b - a) <:+: render segs := by
  unfold wrapIndices at h
  split at h
  · simp at h; subst h
    have := slice_infix s 0 a b s.length (by omega) hab hb
    simpa [render] using this
  · split at h
    · cases h
    · rename_i segs' last heq
      obtain ⟨hl, hk⟩ := wrapLoop_keeps s colors reset groups 0 0 segs' last heq (by omega)
      have hlast : (a : Int) < last → last < (b : Int) → False := by
        intro h1 h2
        rcases hl with e | e
        · omega
        · exact hno last e ⟨h1, h2⟩
      split at h
      · rename_i hlt
        split at h
        · rename_i t ht
          simp at h; subst h
          obtain ⟨hl0, _, _, rfl⟩ := goSlice_inv ht
          rw [render_append]
          by_cases c1 : (b : Int) ≤ last
          · obtain ⟨p, q, e⟩ := hk a b (by omega) hab c1 hno
            exact ⟨p, q ++ render [Seg.text ((s.drop last.toNat).take ((s.length : Int).toNat - last.toNat))],
              by rw [← e]; simp⟩
          · have c2 : last ≤ (a : Int) := by
              by_cases hh : last ≤ (a : Int)
              · exact hh
              · exact absurd (hlast (by omega) (by omega)) id
            obtain ⟨p, q, e⟩ := slice_infix s last.toNat a b s.length (by omega) hab hb
            refine ⟨render segs' ++ p, q, ?_⟩
            simp only [render, List.append_nil]
            have : (s.length : Int).toNat = s.length := by simp
            rw [this, ← e]; simp
        · cases h
      · rename_i hge
        simp at h; subst h
        exact hk a b (by omega) hab (by omega) hno

theorem texts_bytes_of_strip (segs : List Seg) (t : Bytes) (ht : t ∈ texts segs) : ∀ x ∈ t, x ∈ strip segs := by
  intro x hx
  rw [strip_eq_texts]
  exact List.mem_flatten.mpr ⟨t, ht, hx⟩

/-! ### the whole output loop of `filter` -/

theorem strip_wrapE (en : Bool) (c r s : Bytes) : strip (wrapE en c r s) = s := by
  unfold wrapE
  cases en
  · simp [strip]
  · by_cases h : s.length < r.length ∨ s.drop (s.length - r.length) ≠ r <;> simp [h, strip]

theorem strip_filterPrefix (en : Bool) (p : Palette) (m : FMatch) :
    strip (filterPrefix en p m) = m.source ++ [0x20] ++ itoa m.lineNum ++ [0x3a, 0x20] := by
  unfold filterPrefix
  simp [strip_append, strip_wrapE, strip]

/-- the index list of a match is one a matcher can hand out -/
def FMatch.OK (m : FMatch) : Prop := 2 ≤ m.indices.length ∧ ∀ g ∈ m.indices, g ≤ m.line.length

/-- what `filter` should print for one match, colours aside -/
def plainLine (writeLines custom : Bool) (m : FMatch) : Bytes :=
  (if writeLines then m.source ++ [0x20] ++ itoa m.lineNum ++ [0x3a, 0x20] else []) ++
    (if custom then m.extracted else m.line) ++ [0x0a]

theorem filterOne_strip (en wl cu : Bool) (p : Palette) (m : FMatch) (h : cu = false → m.OK) :
    ∃ segs, filterOne en wl cu p m = .ok segs ∧ strip segs = plainLine wl cu m := by
  unfold filterOne plainLine
  have hpre : strip (if wl = true then filterPrefix en p m else []) =
      (if wl = true then m.source ++ [0x20] ++ itoa m.lineNum ++ [0x3a, 0x20] else []) := by
    cases wl <;> simp [strip_filterPrefix, strip]
  cases cu with
  | true => exact ⟨_, rfl, by simp only [strip_append, hpre]; simp [strip]⟩
  | false =>
    obtain ⟨h2, hr⟩ := h rfl
    cases en with
    | true =>
      obtain ⟨segs, hs, hst, _⟩ := filterLine_on p.groups p.reset m.line m.indices h2 hr
      refine ⟨_, by simp only [Bool.not_false, if_true, hs]; rfl, ?_⟩
      simp only [strip_append, hpre, hst]
      simp [strip]
    | false =>
      refine ⟨_, by simp only [Bool.not_false, if_true, filterLine_off p.groups p.reset m.line m.indices h2]; rfl, ?_⟩
      simp only [strip_append, hpre]
      simp [strip]

theorem filterAll_strip (en wl cu : Bool) (p : Palette) (num : Nat) :
    ∀ (ms : List FMatch) (rl : Nat), (∀ m ∈ ms, cu = false → m.OK) → (num = 0 ∨ rl < num) →
      ∃ segs, filterAll en wl cu p num ms rl = .ok segs ∧
        strip segs = ((if num = 0 then ms else ms.take (num - rl)).flatMap (plainLine wl cu)) := by
  intro ms
  induction ms with
  | nil => intro rl _ _; exact ⟨[], rfl, by simp [strip]⟩
  | cons m ms ih =>
    intro rl hok hrl
    obtain ⟨segs, hs, hst⟩ := filterOne_strip en wl cu p m (hok m List.mem_cons_self)
    simp only [filterAll, hs]
    by_cases hlim : num > 0 ∧ rl + 1 ≥ num
    · rw [if_pos hlim]
      have h0 : num ≠ 0 := by omega
      have h1 : num - rl = 1 := by omega
      refine ⟨segs, rfl, ?_⟩
      rw [if_neg h0, h1]
      simp [hst]
    · rw [if_neg hlim]
      obtain ⟨rest, hr, hrst⟩ := ih (rl + 1) (fun x hx => hok x (List.mem_cons_of_mem _ hx)) (by omega)
      rw [hr]
      refine ⟨segs ++ rest, rfl, ?_⟩
      rw [strip_append, hst, hrst]
      by_cases h0 : num = 0
      · simp [h0]
      · have e : num - rl = (num - (rl + 1)) + 1 := by omega
        simp only [if_neg h0]
        rw [e, List.take_succ_cons]
        simp

end Rare.C02
