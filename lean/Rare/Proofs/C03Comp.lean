import Rare.Props.C01
import Rare.Props.C05
import Rare.Proofs.C02
import Rare.Model.C03
/-! Helper lemmas for the composition theorems of C03: pipeline ∘ aggregation loop, file splits. -/
namespace Rare.C03
open Rare.Pipeline Rare.C01

/-- Tuning that must not matter: reader concurrency, channel capacities, workers, batch size, flush timer. -/
structure Config where
  R : Nat
  B : Nat
  K : Nat
  W : Nat
  batchSize : Nat
  timer : Nat → Nat → Bool

/-- The batches source `i` with content `data` will send (C01's batching loop on C04's lines). -/
def batchesOf (cfg : Config) (i : Nat) (data : Bytes) : List (List Line) :=
  (Batcher.run cfg.batchSize ((linesOf i data).map fun l => (l, cfg.timer i l.num))).map (·.lines)

def pipelineInit (cfg : Config) (datas : List Bytes) : St Line :=
  init ((datas.zipIdx 0).map fun p => batchesOf cfg p.2 p.1) cfg.W

/-- `sampled` is the aggregator's complete sample history in SOME terminal state of the whole program:
the extraction pipeline ran to its end under some schedule, handing the consumer `s.consumed`; the
match batches arrived at `RunAggregationLoop` as `stream`; the loop ran to its end under some schedule
of main goroutine / ticker / arrivals. -/
def Terminal (cls : Line → Cls) (key : Line → Bytes) (cfg : Config) (datas : List Bytes) (sampled : List Bytes) : Prop :=
  ∃ (s : St Line) (stream : List (List Bytes)) (a : AggLoop.St Bytes),
    Reach cls cfg.R cfg.B cfg.K (pipelineInit cfg datas) s ∧ s.consDone = true ∧
    stream.flatten = s.consumed.map key ∧
    AggLoop.Reach (AggLoop.init stream) a ∧ a.main = .finished ∧ sampled = a.sampled

/-- the sequential reference: keys of the matching lines, source after source, line after line -/
def refSamples (cls : Line → Cls) (key : Line → Bytes) (datas : List Bytes) : List Bytes :=
  (seqMatches cls (allLines datas)).map key

theorem terminal_perm (cls : Line → Cls) (key : Line → Bytes) (cfg : Config) (hW : 1 ≤ cfg.W) (datas : List Bytes)
    (sampled : List Bytes) (h : Terminal cls key cfg datas sampled) :
    sampled.Perm (refSamples cls key datas) := by
  obtain ⟨s, stream, a, hr, hd, hst, ha, hf, rfl⟩ := h
  have hs := (C05.final_render_after_last_sample stream ha (Or.inr hf)).1
  rw [hs, hst]
  exact (C01.pipeline_final_bytes cls cfg.R cfg.B cfg.K cfg.W cfg.batchSize hW datas cfg.timer hr hd).1.map key

/-- In a terminal state of the pipeline nothing is left anywhere upstream of the consumer. -/
theorem terminal_empty {α : Type} [DecidableEq α] {cls : α → Cls} {B K : Nat} {all : List α} {s : St α}
    (hinv : Inv cls B K all s) (hW : s.workers ≠ []) (hd : s.consDone = true) :
    s.rc = [] ∧ wAcc s = [] ∧ wTodo s = [] ∧ s.c = [] ∧ srcLines s = [] := by
  obtain ⟨hrcl, hrc⟩ := hinv.consdone hd
  have hwall := hinv.rcclosed hrcl
  rw [List.all_eq_true] at hwall
  have hwT : wTodo s = [] := by
    simp only [wTodo, List.flatMap_eq_nil_iff]
    intro w hw
    have := hwall w hw
    cases w <;> simp_all [WSt.isExited, WSt.todo]
  have hwA : wAcc s = [] := by
    simp only [wAcc, List.flatMap_eq_nil_iff]
    intro w hw
    have := hwall w hw
    cases w <;> simp_all [WSt.isExited, WSt.acc]
  cases hws : s.workers with
  | nil => exact absurd hws hW
  | cons w ws =>
    have hany : s.workers.any WSt.isExited = true := by
      rw [hws, List.any_cons, hwall w (by rw [hws]; simp)]; rfl
    obtain ⟨hcl, hc⟩ := hinv.exited hany
    have hsall := hinv.cclosed hcl
    rw [List.all_eq_true] at hsall
    have hsl : srcLines s = [] := by
      simp only [srcLines, List.flatMap_eq_nil_iff]
      intro x hx
      have := hsall x hx
      cases x <;> simp_all [SrcSt.isDone, SrcSt.lines]
    exact ⟨hrc, hwA, hwT, hc, hsl⟩

/-- One source, one worker: the consumer receives the matches in input order (FIFO), for every
schedule, batch size, timer behaviour and channel capacity. -/
theorem terminal_fifo (cls : Line → Cls) (key : Line → Bytes) (cfg : Config) (hW : cfg.W = 1) (data : Bytes)
    (sampled : List Bytes) (h : Terminal cls key cfg [data] sampled) :
    sampled = refSamples cls key [data] := by
  obtain ⟨s, stream, a, hr, hd, hst, ha, hf, rfl⟩ := h
  have hs := (C05.final_render_after_last_sample stream ha (Or.inr hf)).1
  rw [hs, hst]
  have hinv := C01.pipeline_invariant cls cfg.R cfg.B cfg.K cfg.W _ hr
  have h1 : (pipelineInit cfg [data]).srcs.length = 1 := by simp [pipelineInit, init]
  have h2 : (pipelineInit cfg [data]).workers.length = 1 := by simp [pipelineInit, init, hW]
  obtain ⟨ho, _, hw1⟩ := fifo_reach cls h1 h2 hr
  have hne : s.workers ≠ [] := by intro h0; rw [h0] at hw1; simp at hw1
  obtain ⟨e1, e2, e3, e4, e5⟩ := terminal_empty hinv hne hd
  have hseq : s.consumed = (batchesOf cfg 0 data).flatten.filter (isMatched cls) := by
    have := ho
    simp only [orderSeq, e1, e2, e3, e4, e5, List.flatten_nil, List.append_nil, List.filter_nil] at this
    rw [this]
    simp [pipelineInit, init, wAcc, wTodo, srcLines, SrcSt.lines, WSt.acc, WSt.todo, hW]
  have hb : (batchesOf cfg 0 data).flatten = linesOf 0 data := by
    have := (C01.batches_concat cfg.batchSize ((linesOf 0 data).map fun l => (l, cfg.timer 0 l.num))).1
    rw [List.flatMap_def] at this
    simp only [List.map_map] at this
    unfold batchesOf
    rw [this]; simp [Function.comp_def]
  rw [hseq, hb]
  simp [refSamples, seqMatches, allLines]

/-! ### dividing lines among files -/

/-- a file holding the lines `ls`, each terminated by LF -/
def unlines (ls : List Bytes) : Bytes := ls.flatMap fun l => l ++ [nl]

/-- a line as a log file can hold it: no LF inside, and not ending in CR (the scanner drops that CR) -/
def CleanLine (l : Bytes) : Prop := nl ∉ l ∧ l.getLast? ≠ some cr

theorem splitGo_line (l : Bytes) : ∀ (cur rest : Bytes), nl ∉ l →
    C04.splitGo cur (l ++ nl :: rest) = C04.dropCR (cur ++ l) :: C04.splitGo [] rest := by
  induction l with
  | nil => intro cur rest _; simp [C04.splitGo]
  | cons b r ih =>
    intro cur rest h
    have hb : b ≠ nl := fun e => h (by simp [e])
    have hr : nl ∉ r := fun e => h (by simp [e])
    simp only [List.cons_append, C04.splitGo, if_neg hb]
    rw [ih _ _ hr]
    simp

theorem splitLines_unlines (ls : List Bytes) (h : ∀ l ∈ ls, CleanLine l) : C04.splitLines (unlines ls) = ls := by
  unfold C04.splitLines
  induction ls with
  | nil => simp [unlines, C04.splitGo]
  | cons l rest ih =>
    have hl := h l (by simp)
    simp only [unlines, List.flatMap_cons, List.append_assoc, List.singleton_append]
    rw [splitGo_line l [] _ hl.1]
    have : C04.dropCR ([] ++ l) = l := by
      simp only [List.nil_append, C04.dropCR]
      rw [if_neg hl.2]
    rw [this]
    congr 1
    exact ih (fun x hx => h x (by simp [hx]))

theorem allLines_text (datas : List Bytes) : (allLines datas).map (·.text) = datas.flatMap C04.splitLines := by
  unfold allLines
  rw [List.map_flatMap]
  have e : ∀ p : Bytes × Nat, (linesOf p.2 p.1).map (·.text) = C04.splitLines p.1 := by
    intro p
    simp only [linesOf, List.map_map]
    have : ((fun (l : Line) => l.text) ∘ fun (q : Bytes × Nat) => (⟨p.2, q.2, q.1⟩ : Line)) = Prod.fst := by
      funext q; rfl
    rw [this, List.zipIdx_map_fst]
  simp only [e]
  have : datas.flatMap C04.splitLines = ((datas.zipIdx 0).map Prod.fst).flatMap C04.splitLines := by
    rw [List.zipIdx_map_fst]
  rw [this, List.flatMap_map]

/-- When classification and key depend on the text of the line only (no `{src}`, no `{line}`), the
reference samples are a function of the sequence of line texts. -/
theorem refSamples_of_texts (clsT : Bytes → Cls) (keyT : Bytes → Bytes) (datas : List Bytes) :
    refSamples (fun l => clsT l.text) (fun l => keyT l.text) datas =
      ((datas.flatMap C04.splitLines).filter fun t => clsT t = .matched).map keyT := by
  rw [← allLines_text]
  unfold refSamples seqMatches
  generalize allLines datas = ls
  induction ls with
  | nil => rfl
  | cons x xs ih =>
    simp only [List.filter_cons, List.map_cons, isMatched]
    by_cases hx : clsT x.text = .matched
    · simp [hx]; simpa [isMatched] using ih
    · simp [hx]; simpa [isMatched] using ih

end Rare.C03
