import Rare.Proofs.C14KeyCol
/-!
# C14 – the legend line of the heatmap (`Heatmap.UpdateMinMax`, `Scaler.ScaleKeys`)

Line 0 of a heatmap is the key for reading it: up to six `cell number` pairs, the numbers being `ScaleKeys(6, min, max)` –
six equidistant points of the MAPPED range mapped back (`unmapVal`) and truncated to int64, consecutive duplicates dropped.

* `scaleKeys` as a structural recursion (`dedupFrom`), its length, "no two neighbours equal", what the first and last key are;
* the legend line for every float instance satisfying `UnitLaws` (`heat_legend_line`);
* over exact rationals, linear scale (the default): the keys are strictly increasing from `min` to `max`.
-/
namespace Rare.C14
open Rare Rare.C20

/-- the loop of `ScaleKeys` seen from the last kept value: `if i == 0 || ret[len(ret)-1] != val { ret = append(ret, val) }` -/
def dedupFrom : Option Int → List Int → List Int
  | _, [] => []
  | last, v :: l => if last = some v then dedupFrom last l else v :: dedupFrom (some v) l

/-- the six raw values of the legend before duplicates are dropped -/
def rawKeys {α : Type} (A : Arith α) (k : Scaler) (buckets min max : Int) : List Int :=
  (List.range buckets.toNat).map fun (i : Nat) =>
    A.trunc (unmapVal A k (A.add (A.div (A.mul (A.sub (remapMinMax A k min max).2 (remapMinMax A k min max).1) (A.ofInt i)) (A.ofInt (buckets - 1)))
      (remapMinMax A k min max).1))

theorem getLast?_append_one (acc : List Int) (v : Int) : (acc ++ [v]).getLast? = some v := by simp

theorem dedup_fold (l : List Int) : ∀ (acc : List Int),
    l.foldl (fun acc v => if acc.isEmpty || acc.getLast? != some v then acc ++ [v] else acc) acc = acc ++ dedupFrom acc.getLast? l := by
  induction l with
  | nil => intro acc; simp [dedupFrom]
  | cons v l ih =>
    intro acc
    simp only [List.foldl_cons]
    by_cases hl : acc.getLast? = some v
    · have hne : acc.isEmpty = false := by
        cases acc with
        | nil => simp at hl
        | cons a t => rfl
      rw [show (if (acc.isEmpty || acc.getLast? != some v) = true then acc ++ [v] else acc) = acc by simp [hne, hl]]
      rw [ih acc]
      simp [dedupFrom, hl]
    · rw [show (if (acc.isEmpty || acc.getLast? != some v) = true then acc ++ [v] else acc) = acc ++ [v] by simp [hl]]
      rw [ih (acc ++ [v]), getLast?_append_one]
      simp [dedupFrom, hl]

/-- `ScaleKeys` is the raw values with consecutive duplicates dropped -/
theorem scaleKeys_eq {α : Type} (A : Arith α) (k : Scaler) (buckets min max : Int) :
    scaleKeys A k buckets min max = dedupFrom none (rawKeys A k buckets min max) := by
  have := dedup_fold (rawKeys A k buckets min max) []
  simp only [List.getLast?_nil, List.nil_append] at this
  rw [← this]
  rfl

theorem dedupFrom_length (l : List Int) : ∀ last, (dedupFrom last l).length ≤ l.length := by
  induction l with
  | nil => intro _; simp [dedupFrom]
  | cons v l ih =>
    intro last
    unfold dedupFrom
    split
    · have := ih last; simp; omega
    · have := ih (some v); simp; omega

theorem dedupFrom_head (l : List Int) : ∀ last x, (dedupFrom last l).head? = some x → last ≠ some x := by
  induction l with
  | nil => intro _ _ h; simp [dedupFrom] at h
  | cons v l ih =>
    intro last x h
    unfold dedupFrom at h
    split at h
    · exact ih last x h
    · rename_i hne
      simp at h; subst h; exact hne

/-- no two neighbours of the result are equal -/
theorem dedupFrom_adjacent (l : List Int) : ∀ last (i : Nat) (a b : Int),
    (dedupFrom last l)[i]? = some a → (dedupFrom last l)[i + 1]? = some b → a ≠ b := by
  induction l with
  | nil => intro _ _ _ _ h; simp [dedupFrom] at h
  | cons v l ih =>
    intro last i a b ha hb
    unfold dedupFrom at ha hb
    split at ha
    · rename_i he
      rw [if_pos he] at hb
      exact ih last i a b ha hb
    · rename_i hne
      rw [if_neg hne] at hb
      cases i with
      | zero =>
        simp at ha hb
        intro e
        have hb' : (dedupFrom (some v) l).head? = some b := by rw [List.head?_eq_getElem?]; exact hb
        exact dedupFrom_head l (some v) b hb' (by rw [ha, e])
      | succ i =>
        simp only [List.getElem?_cons_succ] at ha hb
        exact ih (some v) i a b ha hb

/-- every kept value is one of the raw values -/
theorem dedupFrom_mem (l : List Int) : ∀ last x, x ∈ dedupFrom last l → x ∈ l := by
  induction l with
  | nil => intro _ _ h; simp [dedupFrom] at h
  | cons v l ih =>
    intro last x h
    unfold dedupFrom at h
    split at h
    · exact List.mem_cons_of_mem _ (ih last x h)
    · rcases List.mem_cons.mp h with rfl | h
      · simp
      · exact List.mem_cons_of_mem _ (ih _ x h)

/-- from nothing, the first raw value is kept -/
theorem dedupFrom_none_head (v : Int) (l : List Int) : (dedupFrom none (v :: l)).head? = some v := by
  simp [dedupFrom]

/-- the last raw value is always the last key (it is either appended or equal to the key before it) -/
theorem dedupFrom_getLast (l : List Int) : ∀ last, l ≠ [] → (last.toList ++ dedupFrom last l).getLast? = l.getLast? := by
  induction l with
  | nil => intro _ h; exact absurd rfl h
  | cons v l ih =>
    intro last _
    unfold dedupFrom
    by_cases he : last = some v
    · rw [if_pos he]
      cases l with
      | nil => subst he; simp [dedupFrom]
      | cons w t => rw [ih last (by simp)]; simp
    · rw [if_neg he]
      cases l with
      | nil => simp [dedupFrom]
      | cons w t =>
        have := ih (some v) (by simp)
        simp only [Option.toList_some, List.singleton_append] at this
        have e : (last.toList ++ v :: dedupFrom (some v) (w :: t)).getLast? = (v :: dedupFrom (some v) (w :: t)).getLast? := by
          rw [List.getLast?_append, List.getLast?_cons]
          rfl
        rw [e, this]
        simp

/-- a non-decreasing list comes out strictly increasing, above the last kept value -/
theorem dedupFrom_sorted (l : List Int) : ∀ (last : Option Int), l.Pairwise (· ≤ ·) → (∀ a, last = some a → ∀ x ∈ l, a ≤ x) →
    (dedupFrom last l).Pairwise (· < ·) ∧ (∀ a, last = some a → ∀ x ∈ dedupFrom last l, a < x) := by
  induction l with
  | nil => intro _ _ _; simp [dedupFrom]
  | cons v l ih =>
    intro last hs hl
    have hs' := List.pairwise_cons.mp hs
    unfold dedupFrom
    by_cases he : last = some v
    · rw [if_pos he]
      exact ih last hs'.2 (fun a ha x hx => hl a ha x (List.mem_cons_of_mem _ hx))
    · rw [if_neg he]
      obtain ⟨p1, p2⟩ := ih (some v) hs'.2 (fun a ha x hx => by cases ha; exact hs'.1 x hx)
      refine ⟨List.pairwise_cons.mpr ⟨fun x hx => p2 v rfl x hx, p1⟩, ?_⟩
      intro a ha x hx
      have hav : a < v := by
        have := hl a ha v (by simp)
        have hne : a ≠ v := fun e => he (by rw [ha, e])
        omega
      rcases List.mem_cons.mp hx with rfl | hx
      · exact hav
      · have := p2 v rfl x hx; omega

/-! ### `ScaleKeys` for any instance -/

theorem rawKeys_length {α : Type} (A : Arith α) (k : Scaler) (buckets min max : Int) : (rawKeys A k buckets min max).length = buckets.toNat := by
  simp [rawKeys]

/-- `ScaleKeys(buckets ≥ 1, …)`: at least one key, at most `buckets`, no two neighbours equal -/
theorem scaleKeys_shape {α : Type} (A : Arith α) (k : Scaler) (buckets min max : Int) (hb : 1 ≤ buckets) :
    1 ≤ (scaleKeys A k buckets min max).length ∧ ((scaleKeys A k buckets min max).length : Int) ≤ buckets ∧
    (∀ (i : Nat) (a b : Int), (scaleKeys A k buckets min max)[i]? = some a → (scaleKeys A k buckets min max)[i + 1]? = some b → a ≠ b) ∧
    (scaleKeys A k buckets min max).head? = (rawKeys A k buckets min max).head? ∧
    (scaleKeys A k buckets min max).getLast? = (rawKeys A k buckets min max).getLast? := by
  rw [scaleKeys_eq]
  have hlen := rawKeys_length A k buckets min max
  have hne : rawKeys A k buckets min max ≠ [] := by
    intro e; rw [e] at hlen; simp at hlen; omega
  have hlast := dedupFrom_getLast (rawKeys A k buckets min max) none hne
  simp only [Option.toList_none, List.nil_append] at hlast
  refine ⟨?_, ?_, dedupFrom_adjacent _ none, ?_, hlast⟩
  · cases hr : rawKeys A k buckets min max with
    | nil => exact absurd hr hne
    | cons v l => simp [dedupFrom]
  · have := dedupFrom_length (rawKeys A k buckets min max) none
    omega
  · cases hr : rawKeys A k buckets min max with
    | nil => exact absurd hr hne
    | cons v l => simp [dedupFrom]

/-! ### the legend line -/

theorem mapM_ok_get {α β : Type} (f : α → Res β) (l : List α) (h : ∀ x ∈ l, ∃ y, f x = .ok y) :
    ∃ ys, l.mapM f = .ok ys ∧ ys.length = l.length ∧ ∀ (i : Nat) (x : α), l[i]? = some x → ∃ y, ys[i]? = some y ∧ f x = .ok y := by
  induction l with
  | nil => exact ⟨[], rfl, rfl, by intro i x h; simp at h⟩
  | cons x r ih =>
    obtain ⟨y, hy⟩ := h x (by simp)
    obtain ⟨ys, hys, hl, hget⟩ := ih (fun z hz => h z (by simp [hz]))
    refine ⟨y :: ys, by simp [List.mapM_cons, hy, hys, bind, Except.bind, pure, Except.pure], by simp [hl], ?_⟩
    intro i z hz
    cases i with
    | zero => simp at hz; subst hz; exact ⟨y, by simp, hy⟩
    | succ i => simpa using hget i z (by simpa using hz)

variable {α : Type} {A : Arith α} {Dom : Int → Prop} {Unit : α → Prop} {le : α → α → Prop}

/-- THE LEGEND LINE.  `Heatmap.UpdateMinMax(min, max)` (the first step of every `WriteTable`) returns and writes line 0:
the indentation of the row-key column, then for the `i`-th key `k` of `ScaleKeys(6, min, max)` – four blanks between
entries – ONE heat cell, the one `HeatWrite(Scale(k, min, max))` draws for a data cell of value `k`, a blank and
`Formatter(k, min, max)`.  Every key is a value of the domain (an `int64(…)` result). -/
theorem heat_legend_line_u (U : UnitLaws A Dom Unit le) (env : Env) (h : Heatmap) (vt : VirtualTerm) (ho : vt.closed = false)
    (mn mx : Int) (hmn : Dom mn) (hmx : Dom mx) :
    ∃ (vt' : VirtualTerm) (parts : List Bytes), h.updateMinMax A env vt mn mx = .ok ({ h with minVal := mn, maxVal := mx }, vt') ∧ vt'.closed = false ∧
      vt'.lines[0]? = some (writeRepeat 32 (h.maxRowKeyWidth + 1) ++ parts.flatten) ∧
      parts.length = (scaleKeys A h.scaler 6 mn mx).length ∧
      (∀ (i : Nat) (k : Int), (scaleKeys A h.scaler 6 mn mx)[i]? = some k →
        Dom k ∧ ∃ cell, heatWrite A env (scale A h.scaler k mn mx) = .ok cell ∧ IsHeatCell env cell ∧
          parts[i]? = some ((if i > 0 then ascii "    " else []) ++ cell ++ [32] ++ h.fmt.apply k mn mx)) ∧
      (∀ j x, j ≠ 0 → vt.lines[j]? = some x → vt'.lines[j]? = some x) := by
  unfold Heatmap.updateMinMax
  have hdomk : ∀ item ∈ scaleKeys A h.scaler 6 mn mx, Dom item := fun item hm => dom_scaleKeys U h.scaler 6 mn mx item hm
  obtain ⟨parts, hparts, hlen, hget⟩ := mapM_ok_get
    (fun (x : Int × Nat) =>
      match x with
      | (item, idx) => do
        let cell ← heatWrite A env (scale A h.scaler item mn mx)
        (pure ((if idx > 0 then ascii "    " else []) ++ cell ++ [32] ++ h.fmt.apply item mn mx) : Res Bytes))
    (scaleKeys A h.scaler 6 mn mx).zipIdx
    (by
      intro x hx
      obtain ⟨item, idx⟩ := x
      have hitem : Dom item := by
        have := List.mem_zipIdx hx
        obtain ⟨_, _, e⟩ := this
        exact hdomk item (by rw [e]; exact List.getElem_mem _)
      obtain ⟨cell, hcell, _⟩ := U.heatWrite_cell env (U.scale_unit h.scaler hitem hmn hmx)
      exact ⟨_, by simp only [hcell, bind, Except.bind]; rfl⟩)
  obtain ⟨vt', hw, ho', hline, hkeep⟩ := vt_write_ok vt ho 0 (writeRepeat 32 (h.maxRowKeyWidth + 1) ++ parts.flatten)
  refine ⟨vt', parts, ?_, ho', hline, by rw [hlen, List.length_zipIdx], ?_, hkeep⟩
  · simp only [bind, Except.bind] at hparts ⊢
    rw [hparts]
    simp only [Int.natCast_zero] at hw
    simp only [hw]
    rfl
  · intro i k hk
    have hz : (scaleKeys A h.scaler 6 mn mx).zipIdx[i]? = some (k, i) := by
      rw [List.getElem?_zipIdx, hk]; simp
    obtain ⟨y, hy, hf⟩ := hget i (k, i) hz
    have hdk := hdomk k (List.mem_of_getElem? hk)
    obtain ⟨cell, hcell, hic⟩ := U.heatWrite_cell env (U.scale_unit h.scaler hdk hmn hmx)
    refine ⟨hdk, cell, hcell, hic, ?_⟩
    simp only [hcell, bind, Except.bind, pure, Except.pure] at hf
    cases hf
    exact hy

/-! ### exact rationals, linear scale: the keys run from `min` to `max` -/

theorem ratTrunc_intCast (i : Int) : ratTrunc (i : Rat) = i := by
  unfold ratTrunc
  split
  · exact Rat.floor_intCast i
  · exact Rat.ceil_intCast i

theorem ratTrunc_mono {p q : Rat} (h : p ≤ q) : ratTrunc p ≤ ratTrunc q := by
  unfold ratTrunc
  by_cases hp : 0 ≤ p
  · have hq : 0 ≤ q := Rat.le_trans hp h
    rw [if_pos hp, if_pos hq]
    exact Rat.floor_monotone h
  · rw [if_neg hp]
    by_cases hq : 0 ≤ q
    · rw [if_pos hq]
      -- ceil p ≤ 0 ≤ floor q
      have h1 : p.ceil ≤ 0 := Rat.ceil_le_iff.mpr (by simpa using Rat.le_of_lt (Rat.not_le.mp hp))
      have h2 : 0 ≤ q.floor := Rat.le_floor_iff.mpr (by simpa using hq)
      omega
    · rw [if_neg hq]
      exact Rat.ceil_le_iff.mpr (Rat.le_trans h Rat.le_ceil)

/-- the `i`-th raw legend value over ℚ on the linear scale, `min < max` -/
theorem rawKeys_linear_rat (L2 L10 : Rat → Rat) (mn mx : Int) (hlt : mn < mx) :
    rawKeys (ratArith L2 L10) .linear 6 mn mx = (List.range 6).map fun (i : Nat) => ratTrunc ((((mx : Rat) - (mn : Rat)) * ((i : Int) : Rat)) / ((6 - 1 : Int) : Rat) + (mn : Rat)) := by
  have hr : remapMinMax (ratArith L2 L10) .linear mn mx = ((mn : Rat), (mx : Rat)) := by
    unfold remapMinMax
    have : ¬ mx ≤ mn := by omega
    simp only [this, if_false, mapVal, ratArith, Rat.floor_intCast, Rat.ceil_intCast]
  unfold rawKeys
  rw [hr]
  rfl

/-- the raw value number `i` of the linear legend over ℚ -/
def linKey (mn mx : Int) (i : Nat) : Int := ratTrunc ((((mx : Rat) - (mn : Rat)) * ((i : Int) : Rat)) / 5 + (mn : Rat))

theorem linKey_mono (mn mx : Int) (hlt : mn < mx) {i j : Nat} (h : i ≤ j) : linKey mn mx i ≤ linKey mn mx j := by
  unfold linKey
  apply ratTrunc_mono
  have hd : (0 : Rat) ≤ (mx : Rat) - (mn : Rat) := by
    have : (mn : Rat) ≤ (mx : Rat) := Rat.intCast_le_intCast.mpr (by omega)
    grind
  have hij : (((i : Int) : Rat)) ≤ (((j : Int) : Rat)) := Rat.intCast_le_intCast.mpr (by omega)
  have h1 := Rat.mul_le_mul_of_nonneg_left hij hd
  have h2 := div_le_div_right_pos h1 (c := 5) (by decide)
  grind

theorem linKey_zero (mn mx : Int) : linKey mn mx 0 = mn := by
  unfold linKey
  have : (((mx : Rat) - (mn : Rat)) * (((0 : Nat) : Int) : Rat)) / 5 + (mn : Rat) = (mn : Rat) := by
    simp [zero_div', Rat.zero_add]
  rw [this, ratTrunc_intCast]

theorem linKey_five (mn mx : Int) : linKey mn mx 5 = mx := by
  unfold linKey
  have : (((mx : Rat) - (mn : Rat)) * (((5 : Nat) : Int) : Rat)) / 5 + (mn : Rat) = (mx : Rat) := by
    have e : (((5 : Nat) : Int) : Rat) = 5 := by decide +kernel
    rw [e, Rat.div_def, Rat.mul_assoc, Rat.mul_inv_cancel 5 (by decide), Rat.mul_one]
    grind
  rw [this, ratTrunc_intCast]

/-- THE LINEAR LEGEND over exact rationals (`min < max`): the keys are STRICTLY INCREASING, the first is `min`, the last is
`max`, so every key lies in the range the heatmap is drawn with (its cell is a cell of the heatmap's own scale, coldest
first, hottest last) -/
theorem scaleKeys_linear_rat (L2 L10 : Rat → Rat) (mn mx : Int) (hlt : mn < mx) :
    (scaleKeys (ratArith L2 L10) .linear 6 mn mx).Pairwise (· < ·) ∧
    (scaleKeys (ratArith L2 L10) .linear 6 mn mx).head? = some mn ∧
    (scaleKeys (ratArith L2 L10) .linear 6 mn mx).getLast? = some mx ∧
    (∀ k ∈ scaleKeys (ratArith L2 L10) .linear 6 mn mx, mn ≤ k ∧ k ≤ mx) := by
  obtain ⟨_, _, _, hh, hl⟩ := scaleKeys_shape (ratArith L2 L10) .linear 6 mn mx (by decide)
  have hraw : rawKeys (ratArith L2 L10) .linear 6 mn mx = (List.range 6).map (linKey mn mx) := rawKeys_linear_rat L2 L10 mn mx hlt
  have hr6 : List.range 6 = [0, 1, 2, 3, 4, 5] := by decide
  have hsorted : (rawKeys (ratArith L2 L10) .linear 6 mn mx).Pairwise (· ≤ ·) := by
    rw [hraw, List.pairwise_map]
    exact List.Pairwise.imp (fun {a b} (hab : a < b) => linKey_mono mn mx hlt (Nat.le_of_lt hab)) List.pairwise_lt_range
  refine ⟨?_, ?_, ?_, ?_⟩
  · rw [scaleKeys_eq]
    exact (dedupFrom_sorted _ none hsorted (by intro a ha; cases ha)).1
  · rw [hh, hraw, hr6]; simp [linKey_zero]
  · rw [hl, hraw, hr6]; simp [linKey_five]
  · intro k hk
    rw [scaleKeys_eq] at hk
    have := dedupFrom_mem _ none k hk
    rw [hraw] at this
    obtain ⟨i, hi, rfl⟩ := List.mem_map.mp this
    have hi' : i < 6 := List.mem_range.mp hi
    have a := linKey_mono mn mx hlt (Nat.zero_le i)
    have b := linKey_mono mn mx hlt (show i ≤ 5 by omega)
    rw [linKey_zero] at a
    rw [linKey_five] at b
    exact ⟨a, b⟩

/-- the legend text for a range: what `heat_legend_line_u` says line 0 is -/
def IsLegendLine (A : Arith α) (env : Env) (h : Heatmap) (mn mx : Int) (line : Bytes) : Prop :=
  ∃ parts : List Bytes, line = writeRepeat 32 (h.maxRowKeyWidth + 1) ++ parts.flatten ∧
    parts.length = (scaleKeys A h.scaler 6 mn mx).length ∧
    ∀ (i : Nat) (k : Int), (scaleKeys A h.scaler 6 mn mx)[i]? = some k →
      ∃ cell, heatWrite A env (scale A h.scaler k mn mx) = .ok cell ∧ IsHeatCell env cell ∧
        parts[i]? = some ((if i > 0 then ascii "    " else []) ++ cell ++ [32] ++ h.fmt.apply k mn mx)

/-- after a WHOLE `Heatmap.WriteTable` line 0 is the legend of the range the table was drawn with (`UpdateMinMaxFromData`: the
data range, fixed ends kept) and of the key column width BEFORE this render (the rows may widen it afterwards) -/
theorem heat_writeTable_legend_u (U : UnitLaws A Dom Unit le) (env : Env) (h : Heatmap) (vt : VirtualTerm) (ho : vt.closed = false)
    (hrc : 0 ≤ h.rowCount) (hcc : 0 ≤ h.colCount) (rkeys ckeys : List Bytes) (c : Cells) (hc : DomCells Dom c) (hmn : Dom h.minVal) (hmx : Dom h.maxVal) :
    ∃ h' vt' line, h.writeTable A env vt rkeys ckeys c = .ok (h', vt') ∧ vt'.lines[0]? = some line ∧
      IsLegendLine A env h (h.range c).1 (h.range c).2 line := by
  have hr := dom_range U h c hc hmn hmx
  have hr1 := hr.1
  have hr2 := hr.2
  obtain ⟨vt1, parts, hu, ho1, hline0, hplen, hparts, _⟩ := heat_legend_line_u U env h vt ho (h.range c).1 (h.range c).2 hr1 hr2
  generalize hh1 : ({ h with minVal := (h.range c).1, maxVal := (h.range c).2 } : Heatmap) = h1 at hu
  have hrc1 : h1.rowCount = h.rowCount := by rw [← hh1]
  have hcc1 : h1.colCount = h.colCount := by rw [← hh1]
  obtain ⟨r, hr⟩ := headerText_ok env h1 (c.cols.map (keyAt ckeys))
  have hcount := headerText_count env h1 _ r hr
  simp only [List.length_map, hcc1] at hcount
  obtain ⟨vt2, hw2, ho2, _, hkeep2⟩ := vt_write_ok vt1 ho1 1 r.1
  have hc0 : 0 ≤ r.2 := by rw [hcount]; exact mini_nonneg (by omega) hcc
  have hc1 : r.2 ≤ c.cols.length := by rw [hcount]; exact mini_le_left _ _
  have hslice := sliceTo_ok c.cols r.2 hc0 hc1
  obtain ⟨st3, hf3, ho3, _, hkeep3⟩ := heat_rows_ok_u U env rkeys c hc (c.cols.take r.2.toNat)
    (c.rows.take (mini c.rows.length h.rowCount).toNat) 0 (h1, vt2) ho2 (by rw [← hh1]; exact hr1) (by rw [← hh1]; exact hr2)
  have hnr0 : 0 ≤ mini (c.rows.length : Int) h.rowCount := mini_nonneg (by omega) hrc
  have hmain : h.writeTable A env vt rkeys ckeys c =
      st3.1.writeRowsNote env st3.2 c.rows.length (mini c.rows.length h.rowCount) := by
    unfold Heatmap.writeTable
    simp only [hu, bind, Except.bind, hr]
    have : (1 : Int) = ((1 : Nat) : Int) := rfl
    rw [this, hw2]
    simp only [hslice, hrc1, heat_writeRows_eq_u, hf3]
  have hl2 : vt2.lines[0]? = some (writeRepeat 32 (h.maxRowKeyWidth + 1) ++ parts.flatten) := hkeep2 0 _ (by omega) hline0
  have hl3 : st3.2.lines[0]? = some (writeRepeat 32 (h.maxRowKeyWidth + 1) ++ parts.flatten) := hkeep3 0 _ (Or.inl (by omega)) hl2
  have hleg : IsLegendLine A env h (h.range c).1 (h.range c).2 (writeRepeat 32 (h.maxRowKeyWidth + 1) ++ parts.flatten) :=
    ⟨parts, rfl, hplen, fun i k hk => (hparts i k hk).2⟩
  rw [hmain]
  unfold Heatmap.writeRowsNote
  by_cases hmore : (c.rows.length : Int) > mini c.rows.length h.rowCount
  · rw [if_pos hmore]
    have hcast : (2 : Int) + mini (c.rows.length : Int) h.rowCount = ((2 + (mini (c.rows.length : Int) h.rowCount).toNat : Nat) : Int) := by omega
    obtain ⟨vt4, hw4, _, _, hkeep4⟩ := vt_write_ok st3.2 ho3 (2 + (mini (c.rows.length : Int) h.rowCount).toNat)
      (wrap env cBrightBlack (moreNote ((c.rows.length : Int) - mini c.rows.length h.rowCount)))
    exact ⟨_, vt4, _, by rw [hcast, hw4]; rfl, hkeep4 0 _ (by omega) hl3, hleg⟩
  · rw [if_neg hmore]
    exact ⟨_, st3.2, _, rfl, hl3, hleg⟩

end Rare.C14
