import Rare.Model.C06Glob
/-! Helper lemmas for C06: the byte-string order and the sort, `/`-separated paths, `Clean`/`Join` on simple paths. -/
namespace Rare.C06.Glob

/-! ### `lexLe` and `sortNames` -/

theorem lexLe_refl : ∀ a : Bytes, lexLe a a = true
  | [] => rfl
  | a :: as => by simp [lexLe, lexLe_refl as]

theorem lexLe_total : ∀ a b : Bytes, lexLe a b = true ∨ lexLe b a = true
  | [], _ => Or.inl rfl
  | _ :: _, [] => Or.inr rfl
  | a :: as, b :: bs => by
    simp only [lexLe, Bool.or_eq_true, decide_eq_true_eq, Bool.and_eq_true, beq_iff_eq]
    rcases Nat.lt_trichotomy a.toNat b.toNat with h | h | h
    · left; left; exact UInt8.lt_iff_toNat_lt.2 h
    · have e : a = b := UInt8.toNat_inj.1 h
      subst e
      rcases lexLe_total as bs with h | h
      · left; right; exact ⟨rfl, h⟩
      · right; right; exact ⟨rfl, h⟩
    · right; left; exact UInt8.lt_iff_toNat_lt.2 h

theorem lexLe_trans : ∀ a b c : Bytes, lexLe a b = true → lexLe b c = true → lexLe a c = true
  | [], _, _, _, _ => rfl
  | _ :: _, [], _, h, _ => by simp [lexLe] at h
  | _ :: _, _ :: _, [], _, h => by simp [lexLe] at h
  | a :: as, b :: bs, c :: cs, h1, h2 => by
    simp only [lexLe, Bool.or_eq_true, decide_eq_true_eq, Bool.and_eq_true, beq_iff_eq] at *
    rcases h1 with h1 | ⟨rfl, h1⟩
    · rcases h2 with h2 | ⟨rfl, h2⟩
      · left; exact UInt8.lt_trans h1 h2
      · left; exact h1
    · rcases h2 with h2 | ⟨rfl, h2⟩
      · left; exact h2
      · right; exact ⟨rfl, lexLe_trans as bs cs h1 h2⟩

theorem lexLe_antisymm : ∀ a b : Bytes, lexLe a b = true → lexLe b a = true → a = b
  | [], [], _, _ => rfl
  | [], _ :: _, _, h => by simp [lexLe] at h
  | _ :: _, [], h, _ => by simp [lexLe] at h
  | a :: as, b :: bs, h1, h2 => by
    simp only [lexLe, Bool.or_eq_true, decide_eq_true_eq, Bool.and_eq_true, beq_iff_eq] at *
    rcases h1 with h1 | ⟨rfl, h1⟩
    · rcases h2 with h2 | ⟨rfl, h2⟩
      · exact absurd (UInt8.lt_trans h1 h2) (UInt8.lt_irrefl _)
      · exact absurd h1 (UInt8.lt_irrefl _)
    · rcases h2 with h2 | ⟨_, h2⟩
      · exact absurd h2 (UInt8.lt_irrefl _)
      · rw [lexLe_antisymm as bs h1 h2]

theorem insertName_perm (n : Name) : ∀ l : List Name, (insertName n l).Perm (n :: l)
  | [] => List.Perm.refl _
  | m :: ms => by
    unfold insertName
    split
    · exact List.Perm.refl _
    · exact ((insertName_perm n ms).cons m).trans (List.Perm.swap n m ms)

theorem sortNames_perm : ∀ l : List Name, (sortNames l).Perm l
  | [] => List.Perm.refl _
  | n :: l => by
    show (insertName n (sortNames l)).Perm (n :: l)
    exact (insertName_perm n _).trans ((sortNames_perm l).cons n)

theorem insertName_sorted (n : Name) : ∀ l : List Name, l.Pairwise (fun a b => lexLe a b = true) →
    (insertName n l).Pairwise (fun a b => lexLe a b = true)
  | [], _ => by simp [insertName]
  | m :: ms, h => by
    unfold insertName
    have hm := List.pairwise_cons.1 h
    split
    · rename_i hle
      refine List.pairwise_cons.2 ⟨?_, h⟩
      intro x hx
      simp only [List.mem_cons] at hx
      rcases hx with rfl | hx
      · exact hle
      · exact lexLe_trans _ _ _ hle (hm.1 x hx)
    · rename_i hle
      have hmn : lexLe m n = true := by
        rcases lexLe_total n m with h | h
        · exact absurd h hle
        · exact h
      refine List.pairwise_cons.2 ⟨?_, insertName_sorted n ms hm.2⟩
      intro x hx
      have := (insertName_perm n ms).mem_iff.1 hx
      simp only [List.mem_cons] at this
      rcases this with rfl | hx
      · exact hmn
      · exact hm.1 x hx

theorem sortNames_sorted : ∀ l : List Name, (sortNames l).Pairwise (fun a b => lexLe a b = true)
  | [] => List.Pairwise.nil
  | n :: l => insertName_sorted n _ (sortNames_sorted l)

theorem mem_sortNames {l : List Name} {n : Name} : n ∈ sortNames l ↔ n ∈ l := (sortNames_perm l).mem_iff

theorem sortNames_nodup {l : List Name} (h : l.Nodup) : (sortNames l).Nodup := (sortNames_perm l).nodup_iff.2 h

/-- sorted and duplicate-free = strictly increasing -/
theorem sortNames_strict {l : List Name} (h : l.Nodup) :
    (sortNames l).Pairwise (fun a b => lexLe a b = true ∧ a ≠ b) := by
  have h1 := sortNames_sorted l
  have h2 := sortNames_nodup h
  rw [List.Nodup] at h2
  exact List.Pairwise.and h1 h2

theorem head?_append_ne' {α : Type} {l : List α} (h : l ≠ []) (l2 : List α) : (l ++ l2).head? = l.head? := by
  cases l with
  | nil => exact absurd rfl h
  | cons a l => rfl

/-! ### paths as lists of names -/

theorem splitSlash_ne_nil : ∀ s : Bytes, splitSlash s ≠ []
  | [] => by simp [splitSlash]
  | c :: cs => by
    unfold splitSlash
    split
    · simp
    · split <;> simp

theorem splitSlash_noslash : ∀ n : Bytes, (47 : UInt8) ∉ n → splitSlash n = [n]
  | [], _ => rfl
  | c :: cs, h => by
    have hc : c ≠ 47 := fun e => h (by simp [e])
    have hcs : (47 : UInt8) ∉ cs := fun e => h (by simp [e])
    simp [splitSlash, hc, splitSlash_noslash cs hcs]

theorem splitSlash_append : ∀ a b : Bytes, (47 : UInt8) ∉ a → splitSlash (a ++ 47 :: b) = a :: splitSlash b
  | [], b, _ => by simp [splitSlash]
  | c :: cs, b, h => by
    have hc : c ≠ 47 := fun e => h (by simp [e])
    have hcs : (47 : UInt8) ∉ cs := fun e => h (by simp [e])
    simp [splitSlash, hc, splitSlash_append cs b hcs]

theorem splitSlash_intercalate : ∀ names : List Name, names ≠ [] → (∀ n ∈ names, (47 : UInt8) ∉ n) →
    splitSlash (intercalateSlash names) = names
  | [], h, _ => absurd rfl h
  | [a], _, h => splitSlash_noslash a (h a (by simp))
  | a :: b :: rest, _, h => by
    simp only [intercalateSlash]
    rw [splitSlash_append a _ (h a (by simp)),
      splitSlash_intercalate (b :: rest) (by simp) (fun n hn => h n (by simp [hn]))]

theorem intercalateSlash_append_singleton : ∀ (names : List Name) (n : Name), names ≠ [] →
    intercalateSlash (names ++ [n]) = intercalateSlash names ++ 47 :: n
  | [], _, h => absurd rfl h
  | [a], n, _ => rfl
  | a :: b :: rest, n, _ => by
    simp only [List.cons_append, intercalateSlash]
    have := intercalateSlash_append_singleton (b :: rest) n (by simp)
    simp only [List.cons_append] at this
    rw [this]; simp

theorem intercalateSlash_ne_nil : ∀ names : List Name, names ≠ [] → (∀ n ∈ names, n ≠ []) → intercalateSlash names ≠ []
  | [], h, _ => absurd rfl h
  | [a], _, h => h a (by simp)
  | a :: b :: rest, _, h => by
    simp only [intercalateSlash]
    intro e
    have := congrArg List.length e
    simp at this

theorem intercalateSlash_head : ∀ names : List Name, names ≠ [] → (∀ n ∈ names, n ≠ []) →
    (intercalateSlash names).head? = (names.head?).bind List.head?
  | [], h, _ => absurd rfl h
  | [a], _, _ => by cases a <;> rfl
  | a :: b :: rest, _, h => by
    have ha : a ≠ [] := h a (by simp)
    simp only [intercalateSlash, List.head?_cons, Option.bind_some]
    cases a with
    | nil => exact absurd rfl ha
    | cons x xs => rfl

theorem getLast?_append_cons (a : Bytes) (c : UInt8) (b : Bytes) : (a ++ c :: b).getLast? = (c :: b).getLast? := by
  induction a with
  | nil => rfl
  | cons x xs ih =>
    cases h : xs ++ c :: b with
    | nil => simp at h
    | cons y ys =>
      rw [List.cons_append, h, List.getLast?_cons_cons, ← h, ih]

theorem getLast?_cons_ne {α : Type} (c : α) : ∀ x : List α, x ≠ [] → (c :: x).getLast? = x.getLast?
  | [], h => absurd rfl h
  | _ :: _, _ => List.getLast?_cons_cons

theorem intercalateSlash_last_ne_slash : ∀ names : List Name, names ≠ [] → (∀ n ∈ names, n ≠ [] ∧ (47 : UInt8) ∉ n) →
    (intercalateSlash names).getLast? ≠ some 47
  | [], h, _ => absurd rfl h
  | [a], _, h => by
    intro e
    exact (h a (by simp)).2 (List.mem_of_getLast? e)
  | a :: b :: rest, _, h => by
    have ih := intercalateSlash_last_ne_slash (b :: rest) (by simp) (fun n hn => h n (by simp [hn]))
    have hne := intercalateSlash_ne_nil (b :: rest) (by simp) (fun n hn => (h n (by simp [hn])).1)
    simp only [intercalateSlash]
    rw [getLast?_append_cons, getLast?_cons_ne _ _ hne]
    exact ih

/-! ### `Clean` and `Join` on paths without `..` -/

theorem splitSlash_append_gen : ∀ a b : Bytes, splitSlash (a ++ 47 :: b) = splitSlash a ++ splitSlash b
  | [], b => by simp [splitSlash]
  | c :: cs, b => by
    have ih := splitSlash_append_gen cs b
    by_cases hc : c = 47
    · simp [splitSlash, hc, ih]
    · simp only [List.cons_append, splitSlash, hc, if_false, ih]
      cases h : splitSlash cs with
      | nil => exact absurd h (splitSlash_ne_nil cs)
      | cons x xs => rfl

/-- components `Clean` keeps -/
def keepComp (c : Bytes) : Bool := c ≠ [] && c ≠ dot

theorem cleanFold (rooted : Bool) : ∀ (l acc : List Bytes), (∀ c ∈ l, c ≠ dotdot) →
    l.foldl (cleanStep rooted) acc = acc ++ l.filter keepComp
  | [], acc, _ => by simp
  | c :: l, acc, h => by
    have hc : c ≠ dotdot := h c (by simp)
    have ih := cleanFold rooted l
    simp only [List.foldl_cons, List.filter_cons]
    by_cases hk : c = [] ∨ c = dot
    · have : keepComp c = false := by
        rcases hk with rfl | rfl <;> simp [keepComp, dot]
      rw [this, ih _ (fun x hx => h x (by simp [hx]))]
      simp [cleanStep, hk]
    · have : keepComp c = true := by
        simp only [not_or] at hk
        simp [keepComp, hk.1, hk.2]
      rw [this, ih _ (fun x hx => h x (by simp [hx]))]
      simp [cleanStep, hk, hc]

theorem clean_noDotdot (p : Bytes) (hp : p ≠ []) (hh : p.head? ≠ some 47) (hd : ∀ c ∈ splitSlash p, c ≠ dotdot) :
    clean p = if intercalateSlash ((splitSlash p).filter keepComp) = [] then dot
      else intercalateSlash ((splitSlash p).filter keepComp) := by
  unfold clean
  simp only [hp, if_false, hh, decide_false, Bool.false_eq_true, cleanFold false _ [] hd, List.nil_append]

theorem keepComp_nil : keepComp [] = false := by simp [keepComp]
theorem keepComp_dot : keepComp dot = false := by simp [keepComp]

theorem normal_keep {n : Name} (h : NormalName n) : keepComp n = true := by
  simp [keepComp, h.1, h.2.2.2.1]

theorem filter_keep_normal : ∀ names : List Name, (∀ n ∈ names, NormalName n) → names.filter keepComp = names
  | [], _ => rfl
  | n :: ns, h => by
    simp only [List.filter_cons, normal_keep (h n (by simp)), if_true]
    rw [filter_keep_normal ns (fun x hx => h x (by simp [hx]))]

/-- A path made of proper names is clean. -/
theorem clean_simple (names : List Name) (hne : names ≠ []) (hn : ∀ n ∈ names, NormalName n) :
    clean (intercalateSlash names) = intercalateSlash names := by
  have hsl : ∀ n ∈ names, (47 : UInt8) ∉ n := fun n h => (hn n h).2.1
  have hnn : ∀ n ∈ names, n ≠ [] := fun n h => (hn n h).1
  have hsplit := splitSlash_intercalate names hne hsl
  have hp := intercalateSlash_ne_nil names hne hnn
  have hh : (intercalateSlash names).head? ≠ some 47 := by
    rw [intercalateSlash_head names hne hnn]
    cases names with
    | nil => exact absurd rfl hne
    | cons a rest =>
      simp only [List.head?_cons, Option.bind_some]
      intro e
      exact hsl a (by simp) (List.mem_of_mem_head? e)
  rw [clean_noDotdot _ hp hh (by rw [hsplit]; exact fun c hc => (hn c hc).2.2.2.2), hsplit,
    filter_keep_normal names hn]
  simp [hp]

theorem join_simple (names : List Name) (n : Name) (hne : names ≠ []) (hn : ∀ x ∈ names, NormalName x)
    (hnn : NormalName n) : join (intercalateSlash names) n = intercalateSlash (names ++ [n]) := by
  have hp := intercalateSlash_ne_nil names hne (fun x h => (hn x h).1)
  unfold join
  simp only [hp, false_and, if_false, hnn.1]
  rw [← intercalateSlash_append_singleton names n hne]
  exact clean_simple (names ++ [n]) (by simp) (by
    intro x hx
    rcases List.mem_append.1 hx with h | h
    · exact hn x h
    · simp only [List.mem_singleton] at h; subst h; exact hnn)

/-- … also when the directory is written with a trailing `/` (the root `filepath.Walk` gets from rare) -/
theorem join_simple_slash (names : List Name) (n : Name) (hne : names ≠ []) (hn : ∀ x ∈ names, NormalName x)
    (hnn : NormalName n) : join (intercalateSlash names ++ [47]) n = intercalateSlash (names ++ [n]) := by
  have hsl : ∀ x ∈ names, (47 : UInt8) ∉ x := fun x h => (hn x h).2.1
  have hp := intercalateSlash_ne_nil names hne (fun x h => (hn x h).1)
  have hsplit := splitSlash_intercalate names hne hsl
  unfold join
  have h1 : intercalateSlash names ++ [47] ≠ [] := by simp
  simp only [h1, false_and, if_false, hnn.1]
  have e : intercalateSlash names ++ [47] ++ 47 :: n = intercalateSlash names ++ 47 :: (47 :: n) := by simp
  rw [e]
  have hs : splitSlash (intercalateSlash names ++ 47 :: (47 :: n)) = names ++ [[], n] := by
    rw [splitSlash_append_gen, hsplit]
    simp [splitSlash, splitSlash_noslash n hnn.2.1]
  have hh : (intercalateSlash names ++ 47 :: (47 :: n)).head? ≠ some 47 := by
    rw [head?_append_ne' hp, intercalateSlash_head names hne (fun x h => (hn x h).1)]
    cases names with
    | nil => exact absurd rfl hne
    | cons a rest =>
      simp only [List.head?_cons, Option.bind_some]
      intro e
      exact hsl a (by simp) (List.mem_of_mem_head? e)
  rw [clean_noDotdot _ (by simp) hh (by
    rw [hs]; intro c hc
    rcases List.mem_append.1 hc with h | h
    · exact (hn c h).2.2.2.2
    · simp only [List.mem_cons, List.mem_nil_iff, or_false] at h
      rcases h with rfl | rfl
      · simp [dotdot]
      · exact hnn.2.2.2.2), hs]
  have hf : (names ++ [[], n]).filter keepComp = names ++ [n] := by
    rw [List.filter_append, filter_keep_normal names hn]
    simp only [List.filter_cons, keepComp_nil, normal_keep hnn, List.filter_nil, if_true, Bool.false_eq_true, if_false]
  rw [hf]
  have hne2 := intercalateSlash_ne_nil (names ++ [n]) (by simp) (by
    intro x hx
    rcases List.mem_append.1 hx with h | h
    · exact (hn x h).1
    · simp only [List.mem_singleton] at h; subst h; exact hnn.1)
  simp [hne2]

/-- `Join(".", n)` and `Join("./", n)` are `n` -/
theorem join_dot (n : Name) (hnn : NormalName n) : join dot n = n ∧ join (dot ++ [47]) n = n := by
  have hs := splitSlash_noslash n hnn.2.1
  constructor
  · unfold join
    simp only [show dot ≠ [] from by simp [dot], false_and, if_false, hnn.1]
    have hsp : splitSlash (dot ++ 47 :: n) = [dot, n] := by
      rw [splitSlash_append_gen, hs]; rfl
    rw [clean_noDotdot _ (by simp [dot]) (by simp [dot]) (by
      rw [hsp]; intro c hc
      simp only [List.mem_cons, List.mem_nil_iff, or_false] at hc
      rcases hc with rfl | rfl
      · simp [dot, dotdot]
      · exact hnn.2.2.2.2), hsp]
    have : [dot, n].filter keepComp = [n] := by
      simp only [List.filter_cons, keepComp_dot, normal_keep hnn, List.filter_nil, if_true, Bool.false_eq_true, if_false]
    rw [this]
    simp [intercalateSlash, hnn.1]
  · unfold join
    simp only [show dot ++ [47] ≠ [] from by simp, false_and, if_false, hnn.1]
    have hsp : splitSlash (dot ++ [47] ++ 47 :: n) = [dot, [], n] := by
      have e : dot ++ [47] ++ 47 :: n = dot ++ 47 :: (47 :: n) := by simp
      rw [e, splitSlash_append_gen]
      simp [splitSlash, hs, dot]
    rw [clean_noDotdot _ (by simp [dot]) (by simp [dot]) (by
      rw [hsp]; intro c hc
      simp only [List.mem_cons, List.mem_nil_iff, or_false] at hc
      rcases hc with rfl | rfl | rfl
      · simp [dot, dotdot]
      · simp [dotdot]
      · exact hnn.2.2.2.2), hsp]
    have : [dot, [], n].filter keepComp = [n] := by
      simp only [List.filter_cons, keepComp_dot, keepComp_nil, normal_keep hnn, List.filter_nil, if_true,
        Bool.false_eq_true, if_false]
    rw [this]
    simp [intercalateSlash, hnn.1]

end Rare.C06.Glob
