import Rare.Model.C15Multi
/-!
Invariant of the transition system of `TailFilesToChan` (`Rare.C15.Multi`): per follower, the batches
of that follower in the channel history are exactly the first `sent` batches of its own sequence; the
channel is closed only when every follower has ended; the consumer sees the end only after the close.
-/
namespace Rare.C15.Multi

theorem ofSource_append (a b : List Item) (i : Nat) : ofSource (a ++ b) i = ofSource a i ++ ofSource b i := by
  simp [ofSource]

theorem ofSource_single_self (i : Nat) (b : Batcher.Batch Bytes) : ofSource [(i, b)] i = [b] := by
  simp [ofSource]

theorem ofSource_single_ne {i j : Nat} (b : Batcher.Batch Bytes) (h : i ≠ j) : ofSource [(i, b)] j = [] := by
  simp [ofSource, h]

theorem take_succ_get {α : Type} (l : List α) (k : Nat) (b : α) (h : l[k]? = some b) :
    l.take (k + 1) = l.take k ++ [b] := by
  rw [List.take_add_one, h]; rfl

structure Inv (fs : List Follower) (s : MSt) : Prop where
  len : s.ph.length = fs.length
  part : ∀ i f p, fs[i]? = some f → s.ph[i]? = some p → ofSource s.hist i = f.batches.take (sentOf f p)
  closedDone : s.closed = true → s.ph.all Phase.isDone = true
  doneEnds : ∀ (i : Nat) (f : Follower), fs[i]? = some f → s.ph[i]? = some Phase.done → f.ends = true
  idx : ∀ x ∈ s.hist, x.1 < fs.length
  consClosed : s.consDone = true → s.closed = true ∧ s.q = []

theorem inv_init (fs : List Follower) : Inv fs (init fs) where
  len := by simp [init]
  part := by
    intro i f p _ hp
    simp only [init, List.getElem?_map] at hp
    cases hfi : fs[i]? with
    | none => rw [hfi] at hp; simp at hp
    | some g =>
      rw [hfi] at hp
      simp only [Option.map_some, Option.some.injEq] at hp
      subst hp
      simp [init, MSt.hist, ofSource, sentOf]
  closedDone := by simp [init]
  doneEnds := by
    intro i f _ hp
    simp only [init, List.getElem?_map] at hp
    cases hfi : fs[i]? with
    | none => rw [hfi] at hp; simp at hp
    | some g => rw [hfi] at hp; simp at hp
  idx := by simp [init, MSt.hist]
  consClosed := by simp [init]

theorem all_done_set_not {ph : List Phase} {i : Nat} {p : Phase} (hi : i < ph.length) (hp : p.isDone = false) :
    (ph.set i p).all Phase.isDone = false := by
  rw [Bool.eq_false_iff]
  intro h
  rw [List.all_eq_true] at h
  have := h p (List.mem_iff_getElem?.mpr ⟨i, by simp [List.getElem?_set, hi]⟩)
  rw [hp] at this; cases this

theorem all_done_get {ph : List Phase} (h : ph.all Phase.isDone = true) {i : Nat} {p : Phase} (hp : ph[i]? = some p) :
    p = .done := by
  rw [List.all_eq_true] at h
  have := h p (List.mem_iff_getElem?.mpr ⟨i, hp⟩)
  cases p <;> simp [Phase.isDone] at this ⊢

/-- a follower that is running keeps the channel open -/
theorem running_not_closed {fs : List Follower} {s : MSt} (h : Inv fs s) {i k : Nat}
    (hp : s.ph[i]? = some (.running k)) : s.closed = false := by
  cases hc : s.closed with
  | false => rfl
  | true => have := all_done_get (h.closedDone hc) hp; cases this

theorem lt_of_get {α : Type} {l : List α} {i : Nat} {a : α} (h : l[i]? = some a) : i < l.length := by
  rcases Nat.lt_or_ge i l.length with h1 | h1
  · exact h1
  · rw [List.getElem?_eq_none h1] at h; cases h

/-- advancing follower `i` by the batch `b = batches[k]` that enters the history at its end -/
theorem part_advance {fs : List Follower} {s : MSt} (h : Inv fs s) {i k : Nat} {f : Follower} {b : Batcher.Batch Bytes}
    (hp : s.ph[i]? = some (.running k)) (hf : fs[i]? = some f) (hb : f.batches[k]? = some b) (hist' : List Item)
    (hh : hist' = s.hist ++ [(i, b)]) :
    ∀ j g p, fs[j]? = some g → (s.ph.set i (.running (k + 1)))[j]? = some p →
      ofSource hist' j = g.batches.take (sentOf g p) := by
  intro j g p hg hpj
  rw [hh, ofSource_append]
  by_cases hij : i = j
  · subst hij
    rw [hf] at hg; cases hg
    simp only [List.getElem?_set, lt_of_get hp, if_true] at hpj
    cases hpj
    rw [h.part i f _ hf hp, ofSource_single_self]
    simp only [sentOf]
    exact (take_succ_get _ _ _ hb).symm
  · rw [List.getElem?_set_ne hij] at hpj
    rw [h.part j g p hg hpj, ofSource_single_ne b hij]; simp

theorem inv_step {fs : List Follower} {B : Nat} {s s' : MSt} (h : Inv fs s) (l : Label)
    (hs : apply fs B s l = some s') : Inv fs s' := by
  cases l with
  | spawn i =>
    simp only [apply] at hs
    split at hs
    · rename_i hp
      cases hs
      have hi := lt_of_get hp
      refine ⟨by simp [h.len], ?_, ?_, ?_, h.idx, h.consClosed⟩
      · intro j g p hg hpj
        by_cases hij : i = j
        · subst hij
          simp only [List.getElem?_set, hi, if_true] at hpj
          cases hpj
          have := h.part i g _ hg hp
          simpa [sentOf, MSt.hist] using this
        · rw [List.getElem?_set_ne hij] at hpj
          exact h.part j g p hg hpj
      · intro hc
        have := all_done_get (h.closedDone hc) hp
        cases this
      · intro j g hg hpj
        by_cases hij : i = j
        · subst hij
          simp only [List.getElem?_set, hi, if_true] at hpj
          cases hpj
        · rw [List.getElem?_set_ne hij] at hpj
          exact h.doneEnds j g hg hpj
    · cases hs
  | send i =>
    simp only [apply] at hs
    split at hs
    · rename_i k f hp hf
      split at hs
      · rename_i b hb
        split at hs
        · cases hs
          have hi := lt_of_get hp
          have hh : (s.recvd ++ (s.q ++ [(i, b)])) = s.hist ++ [(i, b)] := by simp [MSt.hist]
          refine ⟨by simp [h.len], ?_, ?_, ?_, ?_, ?_⟩
          · exact part_advance h hp hf hb _ hh
          · intro hc
            have := running_not_closed h hp
            simp only at hc
            rw [this] at hc; cases hc
          · intro j g hg hpj
            by_cases hij : i = j
            · subst hij
              simp only [List.getElem?_set, hi, if_true] at hpj
              cases hpj
            · rw [List.getElem?_set_ne hij] at hpj
              exact h.doneEnds j g hg hpj
          · intro x hx
            simp only [MSt.hist] at hx
            rw [hh, List.mem_append, List.mem_singleton] at hx
            rcases hx with hx | rfl
            · exact h.idx x hx
            · exact lt_of_get hf
          · intro hc
            have := h.consClosed hc
            have h2 := running_not_closed h hp
            rw [h2] at this; cases this.1
        · cases hs
      · cases hs
    · cases hs
  | handoff i =>
    simp only [apply] at hs
    split at hs
    · rename_i k f hp hf
      split at hs
      · rename_i b hb
        split at hs
        · rename_i hq
          cases hs
          have hi := lt_of_get hp
          have hh : ((s.recvd ++ [(i, b)]) ++ s.q) = s.hist ++ [(i, b)] := by simp [MSt.hist, hq.1]
          refine ⟨by simp [h.len], ?_, ?_, ?_, ?_, ?_⟩
          · exact part_advance h hp hf hb _ hh
          · intro hc
            have := running_not_closed h hp
            simp only at hc
            rw [this] at hc; cases hc
          · intro j g hg hpj
            by_cases hij : i = j
            · subst hij
              simp only [List.getElem?_set, hi, if_true] at hpj
              cases hpj
            · rw [List.getElem?_set_ne hij] at hpj
              exact h.doneEnds j g hg hpj
          · intro x hx
            simp only [MSt.hist] at hx
            rw [hh, List.mem_append, List.mem_singleton] at hx
            rcases hx with hx | rfl
            · exact h.idx x hx
            · exact lt_of_get hf
          · intro hc
            simp only at hc
            rw [hq.2] at hc; cases hc
        · cases hs
      · cases hs
    · cases hs
  | finish i =>
    simp only [apply] at hs
    split at hs
    · rename_i k f hp hf
      split at hs
      · rename_i hk
        cases hs
        have hi := lt_of_get hp
        refine ⟨by simp [h.len], ?_, ?_, ?_, h.idx, h.consClosed⟩
        · intro j g p hg hpj
          by_cases hij : i = j
          · subst hij
            rw [hf] at hg; cases hg
            simp only [List.getElem?_set, hi, if_true] at hpj
            cases hpj
            have := h.part i f _ hf hp
            simpa [sentOf, hk.1, MSt.hist] using this
          · rw [List.getElem?_set_ne hij] at hpj
            exact h.part j g p hg hpj
        · intro hc
          have := running_not_closed h hp
          simp only at hc
          rw [this] at hc; cases hc
        · intro j g hg hpj
          by_cases hij : i = j
          · subst hij
            rw [hf] at hg; cases hg
            exact hk.2
          · rw [List.getElem?_set_ne hij] at hpj
            exact h.doneEnds j g hg hpj
      · cases hs
    · cases hs
  | close =>
    simp only [apply] at hs
    split at hs
    · rename_i hc
      cases hs
      refine ⟨h.len, h.part, fun _ => hc.1, h.doneEnds, h.idx, ?_⟩
      intro hcd
      have := (h.consClosed hcd).1
      rw [hc.2] at this; cases this
    · cases hs
  | recv =>
    simp only [apply] at hs
    split at hs
    · rename_i x rest hq
      split at hs
      · rename_i hcd
        cases hs
        have hh : (s.recvd ++ [x]) ++ rest = s.hist := by simp [MSt.hist, hq]
        refine ⟨h.len, ?_, h.closedDone, h.doneEnds, ?_, ?_⟩
        · intro j g p hg hpj
          simp only [MSt.hist]
          rw [hh]; exact h.part j g p hg hpj
        · intro y hy
          simp only [MSt.hist] at hy
          rw [hh] at hy; exact h.idx y hy
        · intro hc
          simp only at hc
          rw [hcd] at hc; cases hc
      · cases hs
    · cases hs
  | cdone =>
    simp only [apply] at hs
    split at hs
    · rename_i hc
      cases hs
      exact ⟨h.len, h.part, h.closedDone, h.doneEnds, h.idx, fun _ => ⟨hc.2.1, hc.1⟩⟩
    · cases hs

theorem inv_reach {fs : List Follower} {B : Nat} {s : MSt} (hr : Reach fs B s) : Inv fs s := by
  induction hr with
  | init => exact inv_init fs
  | step l _ hs ih => exact inv_step ih l hs

theorem LPath.reach {fs : List Follower} {B : Nat} {s s' : MSt} {ls : List Label}
    (hp : LPath fs B s ls s') (hr : Reach fs B s) : Reach fs B s' := by
  induction hp with
  | nil _ => exact hr
  | cons h _ ih => exact ih (.step _ hr h)

theorem applyAll_lpath {fs : List Follower} {B : Nat} : ∀ (ls : List Label) (s s' : MSt),
    applyAll fs B s ls = some s' → LPath fs B s ls s'
  | [], s, s', h => by simp only [applyAll, Option.some.injEq] at h; subst h; exact .nil _
  | l :: ls, s, s', h => by
    simp only [applyAll] at h
    cases ha : apply fs B s l with
    | none => rw [ha] at h; simp at h
    | some s1 =>
      rw [ha] at h
      simp only [Option.bind_some] at h
      exact .cons ha (applyAll_lpath ls s1 s' h)

theorem LPath.append {fs : List Follower} {B : Nat} {s s' s'' : MSt} {l1 l2 : List Label}
    (h1 : LPath fs B s l1 s') (h2 : LPath fs B s' l2 s'') : LPath fs B s (l1 ++ l2) s'' := by
  induction h1 with
  | nil _ => exact h2
  | cons h _ ih => exact .cons h (ih h2)

/-! ### by source NAME (what the consumer can tell apart) -/

/-- With pairwise different file names, selecting by `InputBatch.Source` is selecting by follower. -/
theorem ofName_eq_ofSource {fs : List Follower} (hnd : (fs.map (·.src)).Nodup) {items : List Item}
    (hidx : ∀ x ∈ items, x.1 < fs.length) {i : Nat} {f : Follower} (hf : fs[i]? = some f) :
    ofName fs items f.src = ofSource items i := by
  unfold ofName ofSource
  congr 1
  apply List.filter_congr
  intro x hx
  have hx1 := hidx x hx
  have hi := lt_of_get hf
  have hfi : fs[i] = f := by
    have := List.getElem?_eq_getElem hi
    rw [this] at hf; exact Option.some.inj hf
  rw [List.getElem?_eq_getElem hx1]
  simp only [Option.map_some]
  rw [Bool.eq_iff_iff]
  simp only [beq_iff_eq, Option.some.injEq]
  constructor
  · intro he
    have h1 : (fs.map (·.src))[x.1]'(by simpa using hx1) = (fs.map (·.src))[i]'(by simpa using hi) := by
      simp [he, hfi]
    exact (List.getElem_inj hnd).mp h1
  · intro he
    subst he
    rw [hfi]

end Rare.C15.Multi
