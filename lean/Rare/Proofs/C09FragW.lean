import Rare.Proofs.C09Frag
import Rare.Spec.C09FragW
import Rare.Proofs.C08Format
/-!
C09: the world-relative fragment (`Spec/C09FragW.lean`) satisfies the registry hypothesis of the generalised
print/compile theorem for arbitrary tree denotations (`RegDenV`, `Proofs/C09DenV.lean`), under the tree
semantics with binders `evalW`.
-/
namespace Rare.C09
open Rare Rare.Expr

/-- The entry is correct (denotation level): for argument stages denoting the argument trees under ANY
    denotation `val`, the builder returns a stage whose value in every context is `semD` of the argument
    denotations. -/
def EntryOkD (e : EntryD) : Prop :=
  ∀ (val : Val) (D : C09.Expr → Bool) (args : List C09.Expr) (cargs : List Stage), DenArgsV val D cargs args →
    e.arity args.length = true → e.pre (fun a => val a emptyCtx) D args = true →
    ∃ stage, e.builder cargs = .ok ⟨some stage, none⟩ ∧
      (∀ ctx, stage.run ctx = .ok (e.semD (args.map val) ctx)) ∧ (e.first = true → DynFirst stage cargs)

theorem EntryOkV.toD {e : Entry} (h : EntryOkV e) : EntryOkD e.toD := by
  intro val D args cargs hden har hpre
  obtain ⟨stage, hi, hf⟩ := h val D args cargs hden har hpre
  refine ⟨stage, hi.built, fun ctx => ?_, hf⟩
  rw [hi.run ctx (valArgs val ctx args) (hden.runs ctx)]
  simp [Entry.toD, valArgs, List.map_map, Function.comp_def]

namespace FW
open Funcs.Format Funcs.Range

/-! ### `format` -/

theorem evalAll_run (ctx : Ctx) : ∀ (l : List Stage) (vals : List Bytes), l.map (·.run ctx) = vals.map .ok →
    (evalAll l).run ctx = .ok vals
  | [], vals, h => by cases vals <;> simp at h; rfl
  | a :: r, vals, h => by
    obtain ⟨v, vs, rfl, h0, hr⟩ := map_run_cons h
    unfold evalAll
    simp only [Comp.bind_eq, Comp.pure_eq]
    rw [run_bind_ok h0, run_bind_ok (evalAll_run ctx r vs hr)]
    rfl

theorem format_ok (isPrint : Nat → Bool) : EntryOkV (formatE isPrint) := EntryOkV.simple fun cargs har _ => by
  match cargs, har with
  | a0 :: rest, _ =>
    refine ⟨_, ⟨rfl, fun ctx vals h => ?_⟩, fun _ a r hc => ?_⟩
    · obtain ⟨v, vs, rfl, h0, hr⟩ := map_run_cons h
      simp only [Comp.bind_eq, Comp.pure_eq]
      rw [run_bind_ok h0, run_bind_ok (evalAll_run ctx rest vs hr)]
      simp only [formatE, formatSem]
      obtain ⟨out, ho⟩ := sprintf_total isPrint v vs
      rw [ho]; rfl
    · cases hc; exact ⟨_, rfl⟩

/-! ### binders -/

theorem bindCtx_eq : bindCtx = Rare.C17.subCtx := rfl

theorem den2 {val : Val} {D : C09.Expr → Bool} {args : List C09.Expr} {cargs : List Stage}
    (hden : DenArgsV val D cargs args) (har : args.length = 2) :
    ∃ e0 e1 c0 c1, args = [e0, e1] ∧ cargs = [c0, c1] ∧ DenV val D c0 e0 ∧ DenV val D c1 e1 := by
  match args, cargs, hden, har with
  | [e0, e1], [c0, c1], hden, _ => exact ⟨e0, e1, c0, c1, rfl, rfl, hden.1, hden.2.1⟩

theorem startsWith_dyn {stage : Stage} {cargs : List Stage} (hs : StartsWith stage cargs)
    (hrun : ∃ w, stage.run emptyCtx = .ok w) : DynFirst stage cargs :=
  dynFirst_of_startsWith hs hrun

theorem map_ok : EntryOkD mapE := by
  intro val D args cargs hden har _
  obtain ⟨e0, e1, c0, c1, rfl, rfl, h0, h1⟩ := den2 hden (by simpa [mapE] using har)
  have hrun : ∀ ctx, (mapStage c0 c1).run ctx = .ok (mapSemD ([e0, e1].map val) ctx) := fun ctx =>
    Rare.C17.map_spec ctx c0 c1 (val e0 ctx) (fun v0 v1 => val e1 (bindCtx ctx v0 v1)) (h0.run ctx)
      (fun v0 v1 => h1.run _)
  exact ⟨mapStage c0 c1, rfl, hrun, fun _ =>
    dynFirst_of_startsWith (fun a r hc => by cases hc; exact ⟨_, rfl⟩) ⟨_, hrun emptyCtx⟩⟩

theorem filter_ok : EntryOkD filterE := by
  intro val D args cargs hden har _
  obtain ⟨e0, e1, c0, c1, rfl, rfl, h0, h1⟩ := den2 hden (by simpa [filterE] using har)
  have hrun : ∀ ctx, (filterStage c0 c1).run ctx = .ok (filterSemD ([e0, e1].map val) ctx) := fun ctx =>
    Rare.C17.filter_spec ctx c0 c1 (val e0 ctx) (fun v0 v1 => val e1 (bindCtx ctx v0 v1)) (h0.run ctx)
      (fun v0 v1 => h1.run _)
  exact ⟨filterStage c0 c1, rfl, hrun, fun _ =>
    dynFirst_of_startsWith (fun a r hc => by cases hc; exact ⟨_, rfl⟩) ⟨_, hrun emptyCtx⟩⟩

theorem reduce_ok : EntryOkD reduceE := by
  intro val D args cargs hden har hpre
  match args, cargs, hden, hpre with
  | [e0, e1], [c0, c1], hden, _ =>
    have hrun : ∀ ctx, (reduceStage [] c0 c1).run ctx = .ok (reduceSemD ([e0, e1].map val) ctx) := fun ctx =>
      Rare.C17.reduce_spec ctx c0 c1 (val e0 ctx) [] (fun v0 v1 => val e1 (bindCtx ctx v0 v1)) (hden.1.run ctx)
        (fun v0 v1 => hden.2.1.run _)
    exact ⟨reduceStage [] c0 c1, rfl, hrun, fun _ =>
      dynFirst_of_startsWith (fun a r hc => by cases hc; exact ⟨_, rfl⟩) ⟨_, hrun emptyCtx⟩⟩
  | [e0, e1, .lit s], [c0, c1, c2], hden, _ =>
    have hc2 : c2 = .ret (utf8 s) := hden.2.2.1.lit s rfl
    subst hc2
    have hv : ∀ ctx, val (.lit s) ctx = utf8 s := fun ctx => by
      have := hden.2.2.1.run ctx
      simp only [Comp.run, Except.ok.injEq] at this
      exact this.symm
    have hrun : ∀ ctx, (reduceStage (utf8 s) c0 c1).run ctx = .ok (reduceSemD ([e0, e1, .lit s].map val) ctx) :=
      fun ctx => by
        simp only [List.map, reduceSemD, hv]
        exact Rare.C17.reduce_spec ctx c0 c1 (val e0 ctx) (utf8 s) (fun v0 v1 => val e1 (bindCtx ctx v0 v1))
          (hden.1.run ctx) (fun v0 v1 => hden.2.1.run _)
    exact ⟨reduceStage (utf8 s) c0 c1, rfl, hrun, fun _ =>
      dynFirst_of_startsWith (fun a r hc => by cases hc; exact ⟨_, rfl⟩) ⟨_, hrun emptyCtx⟩⟩

theorem for_ok : EntryOkD forE := by
  intro val D args cargs hden har _
  match args, cargs, hden, har with
  | [e0, e1, e2], [c0, c1, c2], hden, _ =>
    have hrun : ∀ ctx, (forStage c0 c1 c2).run ctx = .ok (forSemD ([e0, e1, e2].map val) ctx) := fun ctx =>
      Rare.C17.for_spec ctx c0 c1 c2 (val e0 ctx) (fun v0 v1 => val e1 (bindCtx ctx v0 v1))
        (fun v0 v1 => val e2 (bindCtx ctx v0 v1)) (hden.1.run ctx) (fun v0 v1 => hden.2.1.run _)
        (fun v0 v1 => hden.2.2.1.run _)
    exact ⟨forStage c0 c1 c2, rfl, hrun, fun _ =>
      dynFirst_of_startsWith (fun a r hc => by cases hc; exact ⟨_, rfl⟩) ⟨_, hrun emptyCtx⟩⟩

/-! ### time helpers (UTC) -/
section
open Funcs.TimeW

theorem duration_ok (w : FragWorld) (hw : w.Ok) : EntryOkV (durationE w) := EntryOkV.simple fun cargs har _ => by
  obtain ⟨a, rfl⟩ := len1 (l := cargs) (by simpa [durationE] using har)
  refine ⟨_, ⟨rfl, fun ctx vals h => ?_⟩, fun _ a r hc => ?_⟩
  · obtain ⟨v, rfl, h0⟩ := map_run_1 h
    simp only [Comp.bind_eq, Comp.pure_eq]
    rw [run_bind_ok h0]
    simp only [durationE, FS.mapSem]
    cases hd : C18.duration v with
    | val b => rfl
    | unmodelled why => simp only [outVal]; rw [hw why]; rfl
  · cases hc; exact ⟨_, rfl⟩

theorem durationFormat_ok (w : FragWorld) (hw : w.Ok) : EntryOkV (durationFormatE w) :=
  EntryOkV.simple fun cargs har _ => by
  obtain ⟨a, rfl⟩ := len1 (l := cargs) (by simpa [durationFormatE] using har)
  refine ⟨_, ⟨rfl, fun ctx vals h => ?_⟩, fun _ a r hc => ?_⟩
  · obtain ⟨v, rfl, h0⟩ := map_run_1 h
    simp only [Comp.bind_eq, Comp.pure_eq]
    rw [run_bind_ok h0]
    simp only [durationFormatE, FS.mapSem]
    cases hd : C18.durationFormat v with
    | val b => rfl
    | unmodelled why => simp only [outVal]; rw [hw why]; rfl
  · cases hc; exact ⟨_, rfl⟩

theorem parseTz_utc (tw : TimeWorld) (tz : Bytes) (h : utcName tz = true) : parseTz tw tz = some (.utc, true) := by
  simp only [utcName, Bool.and_eq_true, Bool.or_eq_true, decide_eq_true_eq] at h
  unfold parseTz
  simp only [h.2, if_true]

theorem isAscii_eq (b : Bytes) : Funcs.TimeW.isAscii b = FW.isAscii b := rfl

/-- the stage `kfTimeFormat` builds for UTC -/
def tfStage (tw : TimeWorld) (fmtArg : Bytes) (a0 : Stage) : Stage :=
  a0.bind fun s => match atoi s with
    | none => .ret ErrorNum
    | some u => (timeAt tw .utc u).bind fun t => formatR tw (C18.namedTimeFormatToFormat C18.timeFormats fmtArg) t

theorem kfTimeFormat_utc (tw : TimeWorld) (a0 : Stage) (rest : List Stage) (fmtArg tzf : Bytes)
    (hlen : rest.length ≤ 2)
    (hf : evalStageIndexOrDefault (a0 :: rest) 1 C18.rfc3339 = .ok fmtArg)
    (ht : evalStageIndexOrDefault (a0 :: rest) 2 [] = .ok tzf)
    (haf : FW.isAscii fmtArg = true) (hu : utcName tzf = true) :
    kfTimeFormat tw (a0 :: rest) = ok (tfStage tw fmtArg a0) := by
  have hat : FW.isAscii tzf = true := by
    simp only [utcName, Bool.and_eq_true] at hu; exact hu.1
  have hl : ¬ rest.length > 2 := by omega
  unfold kfTimeFormat
  simp only [hl, if_false, hf, ht, isAscii_eq, haf, hat, Bool.and_self, Bool.not_true, parseTz_utc tw tzf hu]
  rfl

theorem tfStage_run (w : FragWorld) (hw : w.Ok) (fmtArg : Bytes) (a0 : Stage) (ctx : Ctx) (v : Bytes)
    (h0 : a0.run ctx = .ok v) : (tfStage w.tw fmtArg a0).run ctx = .ok (timeformatVal w.lib fmtArg v) := by
  unfold tfStage timeformatVal
  rw [run_bind_ok h0]
  cases atoi v with
  | none => rfl
  | some u =>
    show (formatR w.tw _ (utcTime u)).run ctx = _
    unfold formatR
    simp only [utcTime]
    by_cases hr : inAbsRange u 0 = true
    · simp only [hr, if_true]; rfl
    · simp only [hr, if_false, Bool.false_eq_true]; rw [hw]; rfl

theorem lit_val {val : Val} {D : C09.Expr → Bool} {s : List Char} (h : DenV val D (.ret (utf8 s)) (.lit s)) (ctx : Ctx) :
    val (.lit s) ctx = utf8 s := by
  have := h.run ctx
  simp only [Comp.run, Except.ok.injEq] at this
  exact this.symm

theorem timeformat_ok (w : FragWorld) (hw : w.Ok) : EntryOkV (timeformatE w) := by
  intro val D args cargs hden har hpre
  have fin : ∀ (fmtArg : Bytes) (c0 : Stage) (rest : List Stage),
      (∀ (ctx : Ctx) (vals : List Bytes), (c0 :: rest).map (·.run ctx) = vals.map .ok →
        (tfStage w.tw fmtArg c0).run ctx = .ok (timeformatSem w.lib vals)) →
      (∀ a ∈ c0 :: rest, Total a) →
      kfTimeFormat w.tw (c0 :: rest) = ok (tfStage w.tw fmtArg c0) →
      ∃ stage, Inst (timeformatE w).builder (timeformatE w).sem (c0 :: rest) stage ∧
        ((timeformatE w).first = true → DynFirst stage (c0 :: rest)) := by
    intro fmtArg c0 rest hrun htot hb
    refine ⟨_, ⟨hb, hrun⟩, fun _ => dynFirst_of_startsWith (fun a r hc => by cases hc; exact ⟨_, rfl⟩) ?_⟩
    obtain ⟨vals, hv⟩ := total_vals emptyCtx _ htot
    exact ⟨_, hrun emptyCtx vals hv⟩
  match args, cargs, hden, hpre with
  | [e0], [c0], hden, _ =>
    refine fin C18.rfc3339 c0 [] (fun ctx vals h => ?_) hden.total
      (kfTimeFormat_utc w.tw c0 [] _ [] (by simp) rfl rfl (by decide +kernel) (by decide +kernel))
    obtain ⟨v, rfl, h0⟩ := map_run_1 h
    exact tfStage_run w hw _ c0 ctx v h0
  | [e0, .lit f], [c0, c1], hden, hpre =>
    have hc1 : c1 = .ret (utf8 f) := hden.2.1.lit f rfl
    subst hc1
    refine fin (utf8 f) c0 _ (fun ctx vals h => ?_) hden.total
      (kfTimeFormat_utc w.tw c0 _ _ [] (by simp) rfl rfl hpre (by decide +kernel))
    obtain ⟨v, x, rfl, h0, h1⟩ := map_run_2 h
    simp only [Comp.run, Except.ok.injEq] at h1
    subst h1
    exact tfStage_run w hw _ c0 ctx v h0
  | [e0, .lit f, .lit tz], [c0, c1, c2], hden, hpre =>
    have hc1 : c1 = .ret (utf8 f) := hden.2.1.lit f rfl
    have hc2 : c2 = .ret (utf8 tz) := hden.2.2.1.lit tz rfl
    subst hc1; subst hc2
    have hpre : (FW.isAscii (utf8 f) && utcName (utf8 tz)) = true := hpre
    simp only [Bool.and_eq_true] at hpre
    refine fin (utf8 f) c0 _ (fun ctx vals h => ?_) hden.total
      (kfTimeFormat_utc w.tw c0 _ _ (utf8 tz) (by simp) rfl rfl hpre.1 hpre.2)
    obtain ⟨v, x, y, rfl, h0, h1, h2⟩ := map_run_3 h
    simp only [Comp.run, Except.ok.injEq] at h1
    subst h1
    exact tfStage_run w hw _ c0 ctx v h0

theorem kfTimeAttr_utc (tw : TimeWorld) (a0 : Stage) (attr : Bytes) (rest : List Stage) (tzf : Bytes)
    (hlen : rest.length ≤ 1)
    (ht : evalStageIndexOrDefault (a0 :: .ret attr :: rest) 2 [] = .ok tzf)
    (ha : attrName attr = true) (hu : utcName tzf = true) :
    kfTimeAttr tw (a0 :: .ret attr :: rest) = ok (attrStage tw attr .utc a0) := by
  have hat : FW.isAscii tzf = true := by
    simp only [utcName, Bool.and_eq_true] at hu; exact hu.1
  simp only [attrName, Bool.and_eq_true] at ha
  have hl : ¬ rest.length > 1 := by omega
  unfold kfTimeAttr
  simp only [hl, if_false, FR.probe_ret, ht, isAscii_eq, ha.1, ha.2, hat, Bool.and_self, Bool.not_true,
    parseTz_utc tw tzf hu]
  rfl

theorem attrStage_run (w : FragWorld) (hw : w.Ok) (attr : Bytes) (a0 : Stage) (ctx : Ctx) (v : Bytes)
    (h0 : a0.run ctx = .ok v) : (attrStage w.tw attr .utc a0).run ctx = .ok (timeattrVal w.lib attr v) := by
  unfold attrStage timeattrVal
  simp only [Comp.bind_eq, Comp.pure_eq]
  rw [run_bind_ok h0]
  cases atoi v with
  | none => rfl
  | some u =>
    show (if (!inAbsRange u 0) = true then w.tw.lib "time-abs-range" else
      match C18.timeAttr attr u 0 with
      | some b => Comp.ret b
      | none => w.tw.lib "no-such-attr").run ctx = _
    by_cases hr : inAbsRange u 0 = true
    · simp only [hr, Bool.not_true, Bool.false_eq_true, if_false]
      cases C18.timeAttr attr u 0 with
      | some b => rfl
      | none => simp only []; rw [hw]; rfl
    · have hr' : inAbsRange u 0 = false := by simpa using hr
      simp only [hr', Bool.not_false, if_true]; rw [hw]; rfl

theorem timeattr_ok (w : FragWorld) (hw : w.Ok) : EntryOkV (timeattrE w) := by
  intro val D args cargs hden har hpre
  have fin : ∀ (attr : Bytes) (c0 : Stage) (rest : List Stage),
      (∀ (ctx : Ctx) (vals : List Bytes), (c0 :: rest).map (·.run ctx) = vals.map .ok →
        (attrStage w.tw attr .utc c0).run ctx = .ok (timeattrSem w.lib vals)) →
      (∀ a ∈ c0 :: rest, Total a) →
      kfTimeAttr w.tw (c0 :: rest) = ok (attrStage w.tw attr .utc c0) →
      ∃ stage, Inst (timeattrE w).builder (timeattrE w).sem (c0 :: rest) stage ∧
        ((timeattrE w).first = true → DynFirst stage (c0 :: rest)) := by
    intro attr c0 rest hrun htot hb
    refine ⟨_, ⟨hb, hrun⟩, fun _ => dynFirst_of_startsWith (fun a r hc => by cases hc; exact ⟨_, rfl⟩) ?_⟩
    obtain ⟨vals, hv⟩ := total_vals emptyCtx _ htot
    exact ⟨_, hrun emptyCtx vals hv⟩
  match args, cargs, hden, hpre with
  | [e0, .lit a], [c0, c1], hden, hpre =>
    have hc1 : c1 = .ret (utf8 a) := hden.2.1.lit a rfl
    subst hc1
    refine fin (utf8 a) c0 _ (fun ctx vals h => ?_) hden.total
      (kfTimeAttr_utc w.tw c0 _ [] [] (by simp) rfl hpre (by decide +kernel))
    obtain ⟨v, x, rfl, h0, h1⟩ := map_run_2 h
    simp only [Comp.run, Except.ok.injEq] at h1
    subst h1
    exact attrStage_run w hw _ c0 ctx v h0
  | [e0, .lit a, .lit tz], [c0, c1, c2], hden, hpre =>
    have hc1 : c1 = .ret (utf8 a) := hden.2.1.lit a rfl
    have hc2 : c2 = .ret (utf8 tz) := hden.2.2.1.lit tz rfl
    subst hc1; subst hc2
    have hpre : (attrName (utf8 a) && utcName (utf8 tz)) = true := hpre
    simp only [Bool.and_eq_true] at hpre
    refine fin (utf8 a) c0 _ (fun ctx vals h => ?_) hden.total
      (kfTimeAttr_utc w.tw c0 _ _ (utf8 tz) (by simp) rfl hpre.1 hpre.2)
    obtain ⟨v, x, y, rfl, h0, h1, h2⟩ := map_run_3 h
    simp only [Comp.run, Except.ok.injEq] at h1
    subst h1
    exact attrStage_run w hw _ c0 ctx v h0

end

end FW

/-! ### the widened fragment -/

/-- The standard registry of the world: `stdTable` + `format` + the time helpers. -/
def stdRegistryW (w : FragWorld) (known : List String) : Registry := mkRegistry (stdTableW w) known

theorem lookupTable_append_left {t u : Table} {n : String} {b : Builder} (h : lookupTable t n = some b) :
    lookupTable (t ++ u) n = some b := by
  unfold lookupTable at *
  rw [List.find?_append]
  cases hf : t.find? (·.1 == n) with
  | none => rw [hf] at h; cases h
  | some p => rw [hf] at h; simpa using h

theorem fragTableNew_ok (w : FragWorld) (hw : w.Ok) :
    ∀ p ∈ fragTableNew w, EntryOkD p.2 ∧ lookupTable (stdTableW w) p.1 = some p.2.builder := by
  intro p hp
  simp only [fragTableNew, List.mem_cons, List.not_mem_nil, or_false] at hp
  rcases hp with rfl | rfl | rfl | rfl | rfl | rfl | rfl | rfl | rfl
  · exact ⟨(FW.format_ok w.isPrint).toD, rfl⟩
  · exact ⟨FW.map_ok, rfl⟩
  · exact ⟨FW.filter_ok, rfl⟩
  · exact ⟨FW.reduce_ok, rfl⟩
  · exact ⟨FW.for_ok, rfl⟩
  · exact ⟨(FW.duration_ok w hw).toD, rfl⟩
  · exact ⟨(FW.durationFormat_ok w hw).toD, rfl⟩
  · exact ⟨(FW.timeformat_ok w hw).toD, rfl⟩
  · exact ⟨(FW.timeattr_ok w hw).toD, rfl⟩

theorem fragTableW_ok (w : FragWorld) (hw : w.Ok) :
    ∀ p ∈ fragTableW w, EntryOkD p.2 ∧ lookupTable (stdTableW w) p.1 = some p.2.builder := by
  intro p hp
  rcases List.mem_append.mp hp with hp | hp
  · obtain ⟨q, hq, rfl⟩ := List.mem_map.mp hp
    obtain ⟨h1, h2⟩ := fragTable_okV q hq
    refine ⟨h1.toD, ?_⟩
    show lookupTable (stdTable ++ Funcs.Format.table w.isPrint ++ Funcs.TimeW.table w.tw) q.1 = some q.2.builder
    rw [List.append_assoc]
    exact lookupTable_append_left h2
  · exact fragTableNew_ok w hw p hp

theorem fragLookupW_mem {w : FragWorld} {n : String} {e : EntryD} (h : fragLookupW w n = some e) :
    (n, e) ∈ fragTableW w := by
  unfold fragLookupW at h
  cases hf : (fragTableW w).find? (·.1 == n) with
  | none => rw [hf] at h; cases h
  | some p =>
    rw [hf] at h
    simp only [Option.map_some, Option.some.injEq] at h
    have hm := List.mem_of_find?_eq_some hf
    have hn := List.find?_some hf
    simp only [beq_iff_eq] at hn
    obtain ⟨a, b⟩ := p
    simp only at hn h
    subst hn; subst h; exact hm

theorem std_lookupW (w : FragWorld) (known : List String) (f : List Char) (b : Builder)
    (h : lookupTable (stdTableW w) (String.ofList f) = some b) : stdRegistryW w known f = some b := by
  simp only [stdRegistryW, mkRegistry, h]

theorem evalDs_map (look : String → Option EntryD) : ∀ args : List C09.Expr, evalDs look args = args.map (evalD look)
  | [] => by rw [evalDs]; rfl
  | a :: r => by rw [evalDs, evalDs_map look r]; rfl

theorem evalW_call (w : FragWorld) (f : List Char) (args : List C09.Expr) (e : EntryD)
    (hl : fragLookupW w (String.ofList f) = some e) (ctx : Ctx) :
    evalW w (.call f args) ctx = e.semD (args.map (evalW w)) ctx := by
  unfold evalW
  rw [evalD, hl, evalDs_map]

theorem valOkW (w : FragWorld) : ValOk (evalW w) :=
  ⟨fun s ctx => by unfold evalW; rw [evalD], fun n ctx => by unfold evalW; rw [evalD],
   fun k ctx => by unfold evalW; rw [evalD]⟩

theorem dynW_lit (w : FragWorld) (s : List Char) : dynW w (.lit s) = false := by rw [dynW]

theorem call_regDenW (w : FragWorld) (hw : w.Ok) (known : List String) (f : List Char) (args : List C09.Expr)
    (h : callOkW w f args = true) :
    ∃ b, stdRegistryW w known f = some b ∧ ∀ cargs, DenArgsV (evalW w) (dynW w) cargs args →
      ∃ stage, b cargs = .ok ⟨some stage, none⟩ ∧ DenV (evalW w) (dynW w) stage (.call f args) := by
  unfold callOkW at h
  cases hl : fragLookupW w (String.ofList f) with
  | none => rw [hl] at h; cases h
  | some e =>
    rw [hl] at h
    simp only [Bool.and_eq_true] at h
    obtain ⟨hok, hreg⟩ := fragTableW_ok w hw _ (fragLookupW_mem hl)
    refine ⟨e.builder, std_lookupW w known f _ hreg, fun cargs hden => ?_⟩
    obtain ⟨stage, hb, hrun, hfirst⟩ := hok (evalW w) (dynW w) args cargs hden h.1 h.2
    refine ⟨stage, hb, ⟨fun ctx => ?_, fun hd => ?_, fun s hs => by cases hs⟩⟩
    · rw [hrun ctx, evalW_call w f args e hl]
    · rw [dynW] at hd
      simp only [hl, Bool.and_eq_true] at hd
      match args, cargs, hden, hd with
      | a :: rest, c :: cs, hden, hd =>
        rw [dynHeadW] at hd
        exact hfirst hd.1 c cs rfl (hden.1.dyn hd.2)

mutual
theorem regDenW_of_fragOkW (w : FragWorld) (hw : w.Ok) (known : List String) : ∀ e : C09.Expr, fragOkW w e = true →
    RegDenV (stdRegistryW w known) (evalW w) (dynW w) e
  | .lit _, _ => trivial
  | .group _, _ => trivial
  | .key _, _ => trivial
  | .call f args, h => by
    simp only [fragOkW, Bool.and_eq_true] at h
    exact ⟨call_regDenW w hw known f args h.1, regDenArgsW_of_fragOkW w hw known args h.2⟩
theorem regDenArgsW_of_fragOkW (w : FragWorld) (hw : w.Ok) (known : List String) : ∀ l : List C09.Expr,
    fragOkArgsW w l = true → RegDenArgsV (stdRegistryW w known) (evalW w) (dynW w) l
  | [], _ => trivial
  | a :: rest, h => by
    simp only [fragOkArgsW, Bool.and_eq_true] at h
    exact ⟨regDenW_of_fragOkW w hw known a h.1, regDenArgsW_of_fragOkW w hw known rest h.2⟩
end

/-- **Print/compile over the world-relative fragment.** -/
theorem printTop_std_fragment_world (w : FragWorld) (hw : w.Ok) (known : List String) (opt : Bool) (σ : Style)
    (e : C09.Expr) (ha : AdmissibleTop e) (hf : fragOkW w e = true) :
    ∃ stages, compile (stdRegistryW w known) opt (printTop σ e) = .ok (stages, []) ∧
      ∀ ctx, (buildKey stages).run ctx = .ok (evalW w e ctx) :=
  printTop_denV (stdRegistryW w known) (evalW w) (dynW w) opt (dynW_lit w) (valOkW w) σ e ha
    (regDenW_of_fragOkW w hw known e hf)

/-! ### the binder-free special case: `evalW` is `evalTree` under `stdSem` -/

mutual
/-- Every function name in the tree is one of the 65 value-level names. -/
def valueLevel : C09.Expr → Bool
  | .call f args => fragNames.contains (String.ofList f) && valueLevelArgs args
  | _ => true
def valueLevelArgs : List C09.Expr → Bool
  | [] => true
  | a :: rest => valueLevel a && valueLevelArgs rest
end

theorem find_map_toD (n : String) : ∀ l : List (String × Entry),
    (l.map fun p => (p.1, p.2.toD)).find? (·.1 == n) = (l.find? (·.1 == n)).map fun p => (p.1, p.2.toD)
  | [] => rfl
  | p :: r => by
    simp only [List.map_cons, List.find?_cons]
    cases p.1 == n with
    | true => rfl
    | false => exact find_map_toD n r

theorem fragLookupW_old (w : FragWorld) (n : String) (e : Entry) (h : fragLookup n = some e) :
    fragLookupW w n = some e.toD := by
  unfold fragLookup at h
  unfold fragLookupW fragTableW
  rw [List.find?_append, find_map_toD]
  cases hf : fragTable.find? (·.1 == n) with
  | none => rw [hf] at h; cases h
  | some p =>
    rw [hf] at h
    simp only [Option.map_some, Option.some.injEq] at h
    subst h; rfl

theorem fragLookup_of_name (n : String) (h : fragNames.contains n = true) : ∃ e, fragLookup n = some e := by
  unfold fragLookup
  cases hf : fragTable.find? (·.1 == n) with
  | some p => exact ⟨p.2, rfl⟩
  | none =>
    exfalso
    have hmem : n ∈ fragNames := by simpa using h
    obtain ⟨q, hq, rfl⟩ := List.mem_map.mp hmem
    have := List.find?_eq_none.mp hf q hq
    simp at this

mutual
theorem evalW_value_level (w : FragWorld) (ctx : Ctx) : ∀ e : C09.Expr, valueLevel e = true →
    evalW w e ctx = evalTree (envOf ctx stdSem) e
  | .lit s, _ => by unfold evalW; rw [evalD, evalTree]
  | .group n, _ => by unfold evalW; rw [evalD, evalTree]; rfl
  | .key k, _ => by unfold evalW; rw [evalD, evalTree]; rfl
  | .call f args, h => by
    simp only [valueLevel, Bool.and_eq_true] at h
    obtain ⟨e, he⟩ := fragLookup_of_name _ h.1
    rw [evalW_call w f args e.toD (fragLookupW_old w _ e he) ctx, evalTree]
    simp only [Entry.toD, envOf, stdSem, he, List.map_map]
    congr 1
    exact evalW_value_level_args w ctx args h.2
theorem evalW_value_level_args (w : FragWorld) (ctx : Ctx) : ∀ l : List C09.Expr, valueLevelArgs l = true →
    l.map ((fun d => d ctx) ∘ evalW w) = evalArgs (envOf ctx stdSem) l
  | [], _ => by rw [evalArgs]; rfl
  | a :: rest, h => by
    simp only [valueLevelArgs, Bool.and_eq_true] at h
    rw [evalArgs, List.map_cons, evalW_value_level_args w ctx rest h.2]
    congr 1
    exact evalW_value_level w ctx a h.1
end

/-! ### the 65-name fragment lies inside the widened one -/

/-- A side condition looks at the evaluation / the certificate of ITS arguments only. -/
def PreLocal (pre : (C09.Expr → Bytes) → (C09.Expr → Bool) → List C09.Expr → Bool) : Prop :=
  ∀ ev ev' dyn dyn' args, (∀ a ∈ args, ev a = ev' a ∧ dyn a = dyn' a) → pre ev dyn args = pre ev' dyn' args

theorem noPre_local : PreLocal noPre := fun _ _ _ _ _ _ => rfl

theorem typedArg_congr {α : Type} (parser : Bytes → Option α) {ev ev' : C09.Expr → Bytes} {dyn dyn' : C09.Expr → Bool}
    {a : C09.Expr} (h : ev a = ev' a ∧ dyn a = dyn' a) : typedArg parser ev dyn a = typedArg parser ev' dyn' a := by
  unfold typedArg; rw [h.1, h.2]

theorem typedPre_local {α : Type} (parser : Bytes → Option α) : PreLocal (typedPre parser) := by
  intro ev ev' dyn dyn' args h
  unfold typedPre
  induction args with
  | nil => rfl
  | cons a r ih =>
    simp only [List.all_cons]
    rw [typedArg_congr parser (h a (by simp)), ih (fun b hb => h b (by simp [hb]))]

theorem percentPre_local : PreLocal FF.percentPre := by
  intro ev ev' dyn dyn' args h
  unfold FF.percentPre
  match args, h with
  | [], _ => rfl
  | [_], _ => rfl
  | [_, d], _ => rfl
  | [_, d, mx], h => simp only []; rw [typedArg_congr _ (h mx (by simp))]
  | [_, d, mn, mx], h => simp only []; rw [typedArg_congr _ (h mx (by simp)), typedArg_congr _ (h mn (by simp))]
  | _ :: _ :: _ :: _ :: _ :: _, _ => rfl

def AllLocal : List (String × Entry) → Prop
  | [] => True
  | p :: rest => PreLocal p.2.pre ∧ AllLocal rest

theorem allLocal_mem : ∀ {l : List (String × Entry)}, AllLocal l → ∀ p ∈ l, PreLocal p.2.pre
  | [], _, p, hp => by cases hp
  | q :: rest, h, p, hp => by
    rcases List.mem_cons.mp hp with rfl | hp
    · exact h.1
    · exact allLocal_mem h.2 p hp

theorem constPre_local (c : List C09.Expr → Bool) : PreLocal (fun _ _ args => c args) := fun _ _ _ _ _ _ => rfl

theorem fragTable_local : AllLocal fragTable := by
  unfold fragTable
  repeat' constructor
  all_goals first
    | exact noPre_local
    | exact typedPre_local _
    | exact percentPre_local
    | exact (fun _ _ _ _ _ _ => rfl)


theorem fragLookup_name {n : String} {e : Entry} (h : fragLookup n = some e) : fragNames.contains n = true := by
  have hm := fragLookup_mem h
  have : n ∈ fragNames := List.mem_map.mpr ⟨(n, e), hm, rfl⟩
  simpa using this

theorem emptyEval_eq (e : C09.Expr) : emptyEval e = evalTree (envOf emptyCtx stdSem) e := rfl

mutual
/-- On the old fragment: value-level, same certificate, and inside the widened fragment. -/
theorem old_in_world (w : FragWorld) : ∀ e : C09.Expr, fragOk e = true →
    valueLevel e = true ∧ dynW w e = dynE e ∧ fragOkW w e = true
  | .lit _, _ => ⟨by simp [valueLevel], by rw [dynW, dynE], by simp [fragOkW]⟩
  | .group _, _ => ⟨by simp [valueLevel], by rw [dynW, dynE], by simp [fragOkW]⟩
  | .key _, _ => ⟨by simp [valueLevel], by rw [dynW, dynE], by simp [fragOkW]⟩
  | .call f args, h => by
    simp only [fragOk, Bool.and_eq_true] at h
    obtain ⟨hc, ha⟩ := h
    obtain ⟨hv, hd, hf⟩ := old_in_world_args w args ha
    unfold callOk at hc
    cases hl : fragLookup (String.ofList f) with
    | none => rw [hl] at hc; cases hc
    | some e =>
      rw [hl] at hc
      simp only [Bool.and_eq_true] at hc
      have hlw := fragLookupW_old w _ e hl
      have hdyn : dynW w (.call f args) = dynE (.call f args) := by
        rw [dynW, dynE, hlw, hl]
        simp only [Entry.toD]
        cases args with
        | nil => rw [dynHeadW, dynHead]
        | cons a r => rw [dynHeadW, dynHead]; rw [(hd a (by simp)).2]
      refine ⟨by rw [valueLevel, fragLookup_name hl, hv]; rfl, hdyn, ?_⟩
      rw [fragOkW, hf, Bool.and_true]
      unfold callOkW
      rw [hlw]
      simp only [Entry.toD, hc.1, Bool.true_and]
      have hloc := allLocal_mem fragTable_local _ (fragLookup_mem hl)
      rw [hloc (fun a => evalW w a emptyCtx) emptyEval (dynW w) dynE args (fun a ha' => hd a ha')]
      exact hc.2
theorem old_in_world_args (w : FragWorld) : ∀ l : List C09.Expr, fragOkArgs l = true →
    valueLevelArgs l = true ∧ (∀ a ∈ l, evalW w a emptyCtx = emptyEval a ∧ dynW w a = dynE a) ∧ fragOkArgsW w l = true
  | [], _ => ⟨by simp [valueLevelArgs], fun a ha => (by cases ha), by simp [fragOkArgsW]⟩
  | a :: rest, h => by
    simp only [fragOkArgs, Bool.and_eq_true] at h
    obtain ⟨h1, h2, h3⟩ := old_in_world w a h.1
    obtain ⟨r1, r2, r3⟩ := old_in_world_args w rest h.2
    refine ⟨by rw [valueLevelArgs, h1, r1]; rfl, fun b hb => ?_, by rw [fragOkArgsW, h3, r3]; rfl⟩
    rcases List.mem_cons.mp hb with rfl | hb
    · exact ⟨by rw [emptyEval_eq]; exact evalW_value_level w emptyCtx _ h1, h2⟩
    · exact r2 b hb
end

end Rare.C09
