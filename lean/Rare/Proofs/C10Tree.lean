import Rare.Proofs.C10Nest
import Rare.Model.C10Tree
import Rare.Proofs.C09Frag
/-!
C10: funcs-file functions given as expression trees – a call equals its inlined body at every depth of
nesting, over the standard fragment of C09 (`Rare/Spec/C09Frag.lean`) extended by the functions defined
earlier in the file.

`semAdd sem (n, B)` is the specification: after the definition `n B`, a call `{n a₀ a₁ …}` means the body
tree `B` evaluated where `{i}` is the value of `aᵢ` (missing: empty), named keys and negative indices are
the caller's – and the calls inside `B` mean what they meant when `B` was defined (`sem`), so the unfolding
goes through every level of nesting.  `defs_loaded` shows by induction over the definition order (as the
loader builds the registry) that the real `LoadDefinitions` + `Compile` + `BuildKey` model computes exactly
that.
-/
namespace Rare.C10
open Rare Rare.Expr Rare.C09

/-- What is known about a registry and the meaning of its names while a definitions file is being loaded. -/
structure Inv (known : List String) (reg : Registry) (sem : Sem) (U : List (List Char)) : Prop where
  std : ∀ f, f ∉ U → reg f = stdRegistry known f ∧ ∀ ctx, sem ctx f = stdSem f
  usr : ∀ f ∈ U, ∃ (stages : List Stage) (bv : Ctx → Bytes), reg f = some (userFunction stages) ∧
    (∀ ctx, (buildKey stages).run ctx = .ok (bv ctx)) ∧
    (∀ ctx vals, sem ctx f vals = bv (argCtx ctx vals.length vals))
  fresh : ∀ f ∈ U, fragLookup (String.ofList f) = none

theorem inv_base (known : List String) : Inv known (stdRegistry known) (fun _ => stdSem) [] :=
  ⟨fun _ _ => ⟨rfl, fun _ => rfl⟩, fun _ h => (by cases h), fun _ h => (by cases h)⟩

section
variable {known : List String} {reg : Registry} {sem : Sem} {U : List (List Char)}

theorem call_regDen_inv (hinv : Inv known reg sem U) (f : List Char) (args : List C09.Expr)
    (h : (U.contains f || callOkS sem f args) = true) :
    ∃ b, reg f = some b ∧ ∀ cargs, DenArgs sem dynE cargs args →
      ∃ stage, b cargs = .ok ⟨some stage, none⟩ ∧ Den sem dynE stage (.call f args) := by
  by_cases hu : f ∈ U
  · obtain ⟨stages, bv, hreg, hbody, hsem⟩ := hinv.usr f hu
    refine ⟨_, hreg, fun cargs hden => ⟨_, rfl, ⟨fun ctx => ?_, fun hd => ?_, fun s hs => by cases hs⟩⟩⟩
    · rw [withArgs_run cargs ctx _ (hden.runs ctx), hbody]
      simp only [evalTree, envC, hsem]
      rw [evalArgs_length, hden.length]
    · simp [dynE, hinv.fresh f hu] at hd
  · have hc : callOkS sem f args = true := by
      simp only [Bool.or_eq_true, List.contains_iff_mem] at h
      rcases h with h | h
      · exact absurd h hu
      · exact h
    unfold callOkS at hc
    obtain ⟨hreg0, hsem0⟩ := hinv.std f hu
    cases hl : fragLookup (String.ofList f) with
    | none => rw [hl] at hc; cases hc
    | some e =>
      rw [hl] at hc
      simp only [Bool.and_eq_true] at hc
      obtain ⟨hok, hb⟩ := fragTable_ok _ (fragLookup_mem hl)
      refine ⟨e.builder, by rw [hreg0]; exact std_lookup known f _ hb, fun cargs hden => ?_⟩
      obtain ⟨stage, hi, hfirst⟩ := hok sem dynE args cargs hden hc.1 hc.2
      refine ⟨stage, hi.built, ⟨fun ctx => ?_, fun hd => ?_, fun s hs => by cases hs⟩⟩
      · rw [hi.run ctx _ (hden.runs ctx)]
        simp only [evalTree, envC, hsem0, stdSem, hl]
      · simp only [dynE, hl, Bool.and_eq_true] at hd
        match args, cargs, hden, hd with
        | a :: rest, c :: cs, hden, hd =>
          exact hfirst hd.1 c cs rfl (hden.1.dyn hd.2)

mutual
theorem regDen_inv (hinv : Inv known reg sem U) : ∀ e : C09.Expr, fragOkS sem U e = true → RegDen reg sem dynE e
  | .lit _, _ => trivial
  | .group _, _ => trivial
  | .key _, _ => trivial
  | .call f args, h => by
    simp only [fragOkS, Bool.and_eq_true] at h
    exact ⟨call_regDen_inv hinv f args h.1, regDenArgs_inv hinv args h.2⟩
theorem regDenArgs_inv (hinv : Inv known reg sem U) : ∀ l : List C09.Expr, fragOkSArgs sem U l = true →
    RegDenArgs reg sem dynE l
  | [], _ => trivial
  | a :: rest, h => by
    simp only [fragOkSArgs, Bool.and_eq_true] at h
    exact ⟨regDen_inv hinv a h.1, regDenArgs_inv hinv rest h.2⟩
end

/-- Under the invariant a tree over user functions and the standard fragment compiles – optimiser on or off –
    to what the tree means. -/
theorem compile_inv (hinv : Inv known reg sem U) (opt : Bool) (σ : Style) (e : C09.Expr) (ha : AdmissibleTop e)
    (hf : fragOkS sem U e = true) :
    ∃ stages, compile reg opt (printTop σ e) = .ok (stages, []) ∧
      ∀ ctx, (buildKey stages).run ctx = .ok (evalTree (envC sem ctx) e) :=
  printTop_den reg sem dynE opt (fun _ => rfl) σ e ha (regDen_inv hinv e hf)

/-- One more definition keeps the invariant. -/
theorem inv_extend (hinv : Inv known reg sem U) (n : List Char) (B : C09.Expr) (stages : List Stage)
    (hn : fragLookup (String.ofList n) = none)
    (hbody : ∀ ctx, (buildKey stages).run ctx = .ok (evalTree (envC sem ctx) B)) :
    Inv known (extend reg n (userFunction stages)) (semAdd sem (n, B)) (n :: U) := by
  refine ⟨fun f hf => ?_, fun f hf => ?_, fun f hf => ?_⟩
  · have hne : f ≠ n := fun e => hf (by simp [e])
    have hu : f ∉ U := fun e => hf (by simp [e])
    obtain ⟨h1, h2⟩ := hinv.std f hu
    exact ⟨by simp only [extend, hne, if_false]; exact h1, fun ctx => by funext vals; simp only [semAdd, hne, if_false, h2]⟩
  · by_cases hfn : f = n
    · subst hfn
      exact ⟨stages, fun ctx => evalTree (envC sem ctx) B, by simp [extend], hbody, fun ctx vals => by simp [semAdd]⟩
    · have hu : f ∈ U := by simpa [hfn] using hf
      obtain ⟨st, bv, h1, h2, h3⟩ := hinv.usr f hu
      exact ⟨st, bv, by simp only [extend, hfn, if_false]; exact h1, h2,
        fun ctx vals => by simp only [semAdd, hfn, if_false, h3]⟩
  · rcases List.mem_cons.mp hf with rfl | hu
    · exact hn
    · exact hinv.fresh f hu

end

/-- A definitions file given as trees: every name is new to the standard fragment, every body is an
    admissible tree over the fragment and the functions defined BEFORE it. -/
def DefsOk : Sem → List (List Char) → List (Def × Style) → Prop
  | _, _, [] => True
  | sem, U, ((n, B), _) :: rest =>
    fragLookup (String.ofList n) = none ∧ AdmissibleTop B ∧ fragOkS sem U B = true ∧
      DefsOk (semAdd sem (n, B)) (n :: U) rest

/-- The phrase of a definition as the loader sees it: name and the printed body. -/
def phrase (d : Def × Style) : Option (Bytes × Bytes) := some (encodeRunes d.1.1, encodeRunes (printTop d.2 d.1.2))

/-- **Loading a definitions file given as trees** (induction over the definition order, as the loader builds
    the registry): every definition is added, and afterwards the registry and the meaning of names are again
    related by the invariant – so every later tree (and every later definition) sees the earlier functions
    with the meaning `semDefs` gives them. -/
theorem defs_loaded (known : List String) : ∀ (defs : List (Def × Style)) (reg : Registry) (sem : Sem)
    (U : List (List Char)), Inv known reg sem U → DefsOk sem U defs →
    ∃ fs, loadDefs reg (defs.map phrase) = .ok (withFuncs reg fs, fs) ∧
      Inv known (withFuncs reg fs) (semDefs sem (defs.map (·.1))) ((defs.map (·.1.1)).reverse ++ U) := by
  intro defs
  induction defs with
  | nil => intro reg sem U hinv _; exact ⟨[], rfl, by simpa [semDefs, withFuncs] using hinv⟩
  | cons d rest ih =>
    intro reg sem U hinv hok
    obtain ⟨⟨n, B⟩, σ⟩ := d
    obtain ⟨hn, ha, hf, hrest⟩ := hok
    obtain ⟨stages, hc, hrun⟩ := compile_inv hinv true σ B ha hf
    have hinv' := inv_extend hinv n B stages hn hrun
    obtain ⟨fs, hl, hfin⟩ := ih _ _ _ hinv' hrest
    refine ⟨(n, userFunction stages) :: fs, ?_, ?_⟩
    · have hcb : C09.compileBytes reg true (encodeRunes (printTop σ B)) = .ok (stages, []) := by
        rw [C09.compileBytes, decodeRunes_encodeRunes]; exact hc
      simp only [List.map_cons, phrase, loadDefs, hcb, wellFormed_encodeRunes, List.isEmpty_nil, Bool.and_self, if_true,
        decodeRunes_encodeRunes, hl]
      rfl
    · simpa [semDefs, withFuncs_cons, List.append_assoc] using hfin

/-- **A call equals its inlined body, at every depth.**  For a definitions file given as trees (`DefsOk`),
    loaded into the standard registry, and every tree `e` over the fragment and the file's functions: the
    template compiles without errors – optimiser on or off – and evaluates to `evalTree` under `semDefs`, the
    semantics in which a call of a funcs-file function IS its body with `{i}` bound to the call's argument
    values (`semAdd_call`), the body's own calls unfolding the same way. -/
theorem call_nested_tree (known : List String) (defs : List (Def × Style)) (hok : DefsOk (fun _ => stdSem) [] defs)
    (opt : Bool) (σ : Style) (e : C09.Expr) (ha : AdmissibleTop e)
    (hf : fragOkS (semDefs (fun _ => stdSem) (defs.map (·.1))) ((defs.map (·.1.1)).reverse) e = true) :
    ∃ fs, loadDefs (stdRegistry known) (defs.map phrase) = .ok (withFuncs (stdRegistry known) fs, fs) ∧
      ∃ stages, compile (withFuncs (stdRegistry known) fs) opt (printTop σ e) = .ok (stages, []) ∧
        ∀ ctx, (buildKey stages).run ctx = .ok (evalTree (envC (semDefs (fun _ => stdSem) (defs.map (·.1))) ctx) e) := by
  obtain ⟨fs, hl, hinv⟩ := defs_loaded known defs _ _ [] (inv_base known) hok
  rw [List.append_nil] at hinv
  exact ⟨fs, hl, compile_inv hinv opt σ e ha hf⟩

/-- What a call of the function just defined means: the body tree, evaluated where `{i}` is the value of the
    call's `i`-th argument in the caller's match (an index beyond the arguments: empty), named keys and negative
    indices the caller's, and the names inside the body meaning what they meant BEFORE this definition. -/
theorem semAdd_call (sem : Sem) (n : List Char) (B : C09.Expr) (ctx : Ctx) (args : List C09.Expr) :
    evalTree (envC (semAdd sem (n, B)) ctx) (.call n args) =
      evalTree (envC sem (argCtx ctx args.length (evalArgs (envC (semAdd sem (n, B)) ctx) args))) B := by
  simp only [evalTree, envC, semAdd, if_true, evalArgs_length]

theorem argCtx_facts (ctx : Ctx) (k : Nat) (vals : List Bytes) :
    (argCtx ctx k vals).getKey = ctx.getKey ∧ (∀ i : Int, i < 0 → (argCtx ctx k vals).getMatch i = ctx.getMatch i) ∧
    (∀ i : Nat, k ≤ i → (argCtx ctx k vals).getMatch i = []) ∧
    (∀ i : Nat, i < k → (argCtx ctx k vals).getMatch i = vals.getD i []) := by
  refine ⟨rfl, fun i hi => by simp [argCtx, hi], fun i hi => ?_, fun i hi => ?_⟩
  · have h1 : ¬ ((i : Int) < 0) := by omega
    have h2 : (i : Int) ≥ k := by omega
    simp [argCtx, h1, h2]
  · have h1 : ¬ ((i : Int) < 0) := by omega
    have h2 : ¬ ((i : Int) ≥ k) := by omega
    simp [argCtx, h1, h2]

end Rare.C10
