import Rare.Proofs.C04
import Rare.Model.C06Read
/-!
Round 4c helper for the seam with C06 (file open / gzip): when the first `Read` that reports an error reports a failure,
the callback has fired exactly once by the end of the scan.  (C06 proves the same fact for its own theorems in
`Proofs/C06Read.lean`, which imports `Props/C04` - so it cannot be used from there; same proof, other name.)
-/
namespace Rare.C04

theorem closed_firstFailure_seen :
    Closed (fun s => (s.eof = false ∧ failsFirst s.rd.script = true ∧ s.errs = 0) ∨ (s.errs = 1 ∧ s.eof = true)) where
  emitAt := fun s k h => h
  emitTail := fun s h => h
  grown := fun s h => by unfold Imm.grown; split <;> exact h
  read := fun s h he _ => by
    dsimp only
    rcases h with ⟨_, hf, h0⟩ | ⟨_, h1⟩
    · cases hsc : s.rd.script with
      | nil => rw [hsc] at hf; simp [failsFirst] at hf
      | cons st ss =>
        rw [hsc] at hf
        simp only [failsFirst] at hf
        cases hst : st.err with
        | none =>
          rw [hst] at hf
          simp only [Reader.read, hsc, hst, Imm.recv]
          exact Or.inl ⟨he, hf, h0⟩
        | some e =>
          rw [hst] at hf
          simp only [Reader.read, hsc, hst, Imm.recv, Imm.fail]
          have : e = .fail := by simpa using hf
          exact Or.inr (by simp [this, h0])
    · rw [he] at h1; cases h1

end Rare.C04
