import Rare.Proofs.C04
import Rare.Model.C06Read
/-!
Round 4c helper for the seam with C06 (file open / gzip): when the first `Read` that reports an error reports a failure,
the callback has fired exactly once by the end of the scan.  (C06 proves the same fact for its own theorems in
`Proofs/C06Read.lean`, which imports `Props/C04` - so it cannot be used from there; same proof, other name.)
-/
namespace Rare.C04

theorem closed_firstFailure_seen :
    Closed (fun s => (s.eof = false ∧ failsFirst s.rd.script = true ∧ s.errs = 0) ∨ (s.errs = 1 ∧ s.eof = true)) where
  emitAt := fun s k h => h
  emitTail := fun s h => h
  grown := fun s h => by unfold Imm.grown; split <;> exact h
  read := fun s h he _ => by
    dsimp only
    rcases h with ⟨_, hf, h0⟩ | ⟨_, h1⟩
    · cases hsc : s.rd.script with
      | nil => rw [hsc] at hf; simp [failsFirst] at hf
      | cons st ss =>
        rw [hsc] at hf
        simp only [failsFirst] at hf
        cases hst : st.err with
        | none =>
          rw [hst] at hf
          simp only [Reader.read, hsc, hst, Imm.recv]
          exact Or.inl ⟨he, hf, h0⟩
        | some e =>
          rw [hst] at hf
          simp only [Reader.read, hsc, hst, Imm.recv, Imm.fail]
          have : e = .fail := by simpa using hf
          exact Or.inr (by simp [this, h0])
    · rw [he] at h1; cases h1

end Rare.C04

namespace Rare.C04

/-! ### a failing stream that is handed over completely: one byte per `Read`, then the failure -/

def byteScript (k w : Nat) : List Step := List.replicate k ⟨1, none⟩ ++ [⟨w, some .fail⟩]

theorem failsFirst_byteScript (k w : Nat) : failsFirst (byteScript k w) = true := by
  induction k with
  | zero => rfl
  | succ k ih => simpa [byteScript, List.replicate_succ, failsFirst] using ih

theorem closed_byteScript (w : Nat) :
    Closed (fun s => (s.eof = false ∧ ∃ k, s.rd.script = byteScript k w ∧ s.rd.rest.length ≤ k) ∨ s.rd.rest = []) where
  emitAt := fun s k h => h
  emitTail := fun s h => h
  grown := fun s h => by unfold Imm.grown; split <;> exact h
  read := fun s h he hroom => by
    dsimp only
    rcases h with ⟨_, k, hsc, hle⟩ | hr
    · cases k with
      | zero =>
        have hr : s.rd.rest = [] := List.eq_nil_of_length_eq_zero (by omega)
        simp only [Reader.read, hsc, byteScript, List.replicate_zero, List.nil_append, Imm.recv, Imm.fail, hr]
        exact Or.inr (by simp)
      | succ k =>
        have hsc' : s.rd.script = ⟨1, none⟩ :: byteScript k w := by
          rw [hsc]; simp [byteScript, List.replicate_succ]
        simp only [Reader.read, hsc', Imm.recv]
        refine Or.inl ⟨he, k, rfl, ?_⟩
        have : min 1 (s.cap - s.buf.length) = 1 := by omega
        simp only [this, List.length_drop]
        omega
    · have e1 : (s.rd.read (s.cap - s.buf.length)).2.2.rest = [] := by
        unfold Reader.read
        split
        · split
          · exact hr
          · simp [hr]
        · simp [hr]
      generalize s.rd.read (s.cap - s.buf.length) = r at e1
      split
      · exact Or.inr e1
      · exact Or.inr e1

end Rare.C04
