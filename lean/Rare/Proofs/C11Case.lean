import Rare.Model.C11Case
/-!
C11, `{upper}` / `{lower}`: lemmas about `unicode.ToUpper` / `ToLower` over the case-range table and about
`strings.ToUpper` / `ToLower` (`Rare/Model/C11Case.lean`).  Core Lean only.
-/
namespace Rare.C11.Case

/-- What `unicode.to` does with a range that holds the rune. -/
def applyRange (lower : Bool) (c : Nat × Nat × Int × Int) (r : Nat) : Nat :=
  let delta := if lower then c.2.2.2 else c.2.2.1
  if delta > (maxRune : Int) then c.1 + ((r - c.1) - (r - c.1) % 2) + (if lower then 1 else 0)
  else ((r : Int) + delta).toNat

/-- `unicode.to`: either no range holds the rune and it is returned unchanged, or some range of the table holds
    it and its delta is applied. -/
theorem toRune_cases (lower : Bool) (r : Nat) :
    toRune lower r = r ∨ ∃ c ∈ caseRanges, c.1 ≤ r ∧ r ≤ c.2.1 ∧ toRune lower r = applyRange lower c r := by
  unfold toRune
  cases h : caseRanges.find? (fun c => decide (c.1 ≤ r) && decide (r ≤ c.2.1)) with
  | none => left; rfl
  | some c =>
    right
    have hm := List.mem_of_find?_eq_some h
    have hp := List.find?_some h
    simp only [Bool.and_eq_true, decide_eq_true_eq] at hp
    exact ⟨c, hm, hp.1, hp.2, rfl⟩

/-- Range-level fact, checked entry by entry: a range reaching beyond ASCII starts beyond ASCII, and sends its
    runes beyond ASCII unless it is one of the four single-rune ranges U+0130, U+0131, U+017F, U+212A. -/
def rangeOk (lower : Bool) (c : Nat × Nat × Int × Int) : Bool :=
  let delta := if lower then c.2.2.2 else c.2.2.1
  decide (c.2.1 < 128) ||
  (decide (128 ≤ c.1) &&
    (decide (delta > (maxRune : Int)) || decide ((128 : Int) ≤ (c.1 : Int) + delta) ||
     (decide (c.1 = c.2.1) &&
      (if lower then decide (c.1 = 0x130) || decide (c.1 = 0x212A) else decide (c.1 = 0x131) || decide (c.1 = 0x17F)))))

theorem ranges_ok : ∀ lower : Bool, caseRanges.all (rangeOk lower) = true := by decide +kernel

/-- The exceptional runes of a case: the non-ASCII runes whose mapping is ASCII. -/
def intoAscii (lower : Bool) (r : Nat) : Prop :=
  if lower then r = 0x130 ∨ r = 0x212A else r = 0x131 ∨ r = 0x17F

/-- A non-ASCII rune that is not exceptional is mapped to a non-ASCII rune. -/
theorem toRune_nonascii (lower : Bool) (r : Nat) (hr : 128 ≤ r) (hx : ¬ intoAscii lower r) :
    128 ≤ toRune lower r := by
  rcases toRune_cases lower r with h | ⟨c, hm, h1, h2, h⟩
  · rw [h]; exact hr
  · rw [h]
    have hok := List.all_eq_true.mp (ranges_ok lower) c hm
    unfold rangeOk at hok
    simp only [Bool.or_eq_true, Bool.and_eq_true, decide_eq_true_eq] at hok
    unfold applyRange
    rcases hok with hlt | ⟨hlo, hrest⟩
    · omega
    · rcases hrest with (hul | hd) | ⟨heq, hex⟩
      · rw [if_pos hul]; omega
      · by_cases hul : (if lower then c.2.2.2 else c.2.2.1) > (maxRune : Int)
        · rw [if_pos hul]; omega
        · rw [if_neg hul]; omega
      · exfalso
        apply hx
        have : r = c.1 := by omega
        unfold intoAscii
        cases lower
        · simp only [Bool.false_eq_true, if_false, Bool.or_eq_true, decide_eq_true_eq] at hex ⊢
          omega
        · simp only [if_true, Bool.or_eq_true, decide_eq_true_eq] at hex ⊢
          omega

/-- On ASCII runes the table is the ASCII case shift. -/
theorem toRune_ascii : ∀ r, r < 128 →
    toUpperR r = (if 97 ≤ r ∧ r ≤ 122 then r - 32 else r) ∧
    toLowerR r = (if 65 ≤ r ∧ r ≤ 90 then r + 32 else r) := by decide +kernel

/-- The four exceptional runes. -/
theorem toRune_exceptions :
    toUpperR 0x131 = 0x49 ∧ toUpperR 0x17F = 0x53 ∧ toLowerR 0x130 = 0x69 ∧ toLowerR 0x212A = 0x6B := by
  decide +kernel

/-! ### `strings.ToUpper` / `ToLower` on ASCII text -/

theorem upperB_idem (b : UInt8) : upperB (upperB b) = upperB b := by
  unfold upperB
  by_cases h : (97 ≤ b && b ≤ 122) = true
  · have h' := h
    simp only [Bool.and_eq_true, decide_eq_true_eq] at h'
    have h1 : 97 ≤ b.toNat := UInt8.le_iff_toNat_le.mp h'.1
    have h2 : b.toNat ≤ 122 := UInt8.le_iff_toNat_le.mp h'.2
    rw [if_pos h]
    have : ¬ ((97 ≤ b - 32 && b - 32 ≤ 122) = true) := by
      simp only [Bool.and_eq_true, decide_eq_true_eq]
      intro ⟨a, _⟩
      have := UInt8.le_iff_toNat_le.mp a
      rw [UInt8.toNat_sub_of_le _ _ (UInt8.le_iff_toNat_le.mpr (by simp; omega))] at this
      simp at this; omega
    rw [if_neg this]
  · rw [if_neg h, if_neg h]

theorem lowerB_idem (b : UInt8) : lowerB (lowerB b) = lowerB b := by
  unfold lowerB
  by_cases h : (65 ≤ b && b ≤ 90) = true
  · have h' := h
    simp only [Bool.and_eq_true, decide_eq_true_eq] at h'
    have h1 : 65 ≤ b.toNat := UInt8.le_iff_toNat_le.mp h'.1
    have h2 : b.toNat ≤ 90 := UInt8.le_iff_toNat_le.mp h'.2
    rw [if_pos h]
    have : ¬ ((65 ≤ b + 32 && b + 32 ≤ 90) = true) := by
      simp only [Bool.and_eq_true, decide_eq_true_eq]
      intro ⟨_, a⟩
      have := UInt8.le_iff_toNat_le.mp a
      rw [UInt8.toNat_add] at this
      simp at this; omega
    rw [if_neg this]
  · rw [if_neg h, if_neg h]

theorem upperB_ascii (b : UInt8) (h : b < 128) : upperB b < 128 := by
  unfold upperB
  split
  · have hb : b.toNat < 128 := UInt8.lt_iff_toNat_lt.mp h
    apply UInt8.lt_iff_toNat_lt.mpr
    rename_i hc
    simp only [Bool.and_eq_true, decide_eq_true_eq] at hc
    have h1 : 97 ≤ b.toNat := UInt8.le_iff_toNat_le.mp hc.1
    have e : (b - 32).toNat = b.toNat - 32 :=
      UInt8.toNat_sub_of_le _ _ (UInt8.le_iff_toNat_le.mpr (by show 32 ≤ b.toNat; omega))
    rw [e]
    show b.toNat - 32 < 128
    omega
  · exact h

theorem lowerB_ascii (b : UInt8) (h : b < 128) : lowerB b < 128 := by
  unfold lowerB
  split
  · rename_i hc
    simp only [Bool.and_eq_true, decide_eq_true_eq] at hc
    have h2 := UInt8.le_iff_toNat_le.mp hc.2
    apply UInt8.lt_iff_toNat_lt.mpr
    rw [UInt8.toNat_add]
    simp at h2 ⊢; omega
  · exact h

/-- A byte without a lower-case letter is fixed by `upperB`. -/
theorem map_upperB_of_no_lower : ∀ s : Bytes, s.any (fun c => 97 ≤ c && c ≤ 122) = false → s.map upperB = s
  | [], _ => rfl
  | b :: r, h => by
    simp only [List.any_cons, Bool.or_eq_false_iff] at h
    simp only [List.map_cons, map_upperB_of_no_lower r h.2, upperB, h.1, Bool.false_eq_true, if_false]

theorem map_lowerB_of_no_upper : ∀ s : Bytes, s.any (fun c => 65 ≤ c && c ≤ 90) = false → s.map lowerB = s
  | [], _ => rfl
  | b :: r, h => by
    simp only [List.any_cons, Bool.or_eq_false_iff] at h
    simp only [List.map_cons, map_lowerB_of_no_upper r h.2, lowerB, h.1, Bool.false_eq_true, if_false]

/-- ASCII text: `strings.ToUpper` is the byte-wise shift (both fast paths). -/
theorem goToUpper_ascii (s : Bytes) (h : s.all (fun c => c < 128) = true) : goToUpper s = s.map upperB := by
  unfold goToUpper
  simp only [h, if_true]
  cases hl : s.any (fun c => 97 ≤ c && c ≤ 122) with
  | true => rfl
  | false => simp only [Bool.not_false, if_true]; exact (map_upperB_of_no_lower s hl).symm

theorem goToLower_ascii (s : Bytes) (h : s.all (fun c => c < 128) = true) : goToLower s = s.map lowerB := by
  unfold goToLower
  simp only [h, if_true]
  cases hl : s.any (fun c => 65 ≤ c && c ≤ 90) with
  | true => rfl
  | false => simp only [Bool.not_false, if_true]; exact (map_lowerB_of_no_upper s hl).symm

theorem all_ascii_map (f : UInt8 → UInt8) (hf : ∀ b, b < 128 → f b < 128) :
    ∀ s : Bytes, s.all (fun c => c < 128) = true → (s.map f).all (fun c => c < 128) = true
  | [], _ => rfl
  | b :: r, h => by
    simp only [List.all_cons, Bool.and_eq_true, decide_eq_true_eq] at h
    simp only [List.map_cons, List.all_cons, Bool.and_eq_true, decide_eq_true_eq]
    exact ⟨hf b h.1, all_ascii_map f hf r h.2⟩

end Rare.C11.Case
