import Rare.Model.C05Spawner
/-!
# `[read/total]` of the status line: bounded, monotone, complete (C05)
-/
namespace Rare.C05Spawner

structure Inv (n : Nat) (s : St) : Prop where
  tp : s.taken ≤ s.pushed
  pn : s.pushed ≤ n
  totp : s.total ≤ s.pushed
  rs : s.read ≤ s.stopped
  ss : s.stopped ≤ s.spawned
  top : s.pc = .top → s.spawned = s.taken ∧ s.taken ≤ s.total
  rcv : s.pc = .received → s.spawned + 1 = s.taken ∧ s.spawned ≤ s.total
  msd : s.pc = .measured → s.spawned + 1 = s.taken ∧ s.taken ≤ s.total

theorem inv_step {n : Nat} {s s' : St} (hi : Inv n s) (h : Step n s s') : Inv n s' := by
  obtain ⟨h1, h2, h3, h4, h5, h6, h7, h8⟩ := hi
  cases h with
  | push hp =>
    refine ⟨?_, ?_, ?_, h4, h5, h6, h7, h8⟩ <;> simp <;> omega
  | recv hpc hlt =>
    have := h6 hpc
    refine ⟨?_, h2, h3, h4, h5, ?_, ?_, ?_⟩ <;> simp <;> omega
  | measure hpc =>
    have := h7 hpc
    refine ⟨h1, h2, ?_, h4, h5, ?_, ?_, ?_⟩ <;> simp <;> omega
  | spawn hpc =>
    have := h8 hpc
    refine ⟨h1, h2, h3, h4, ?_, ?_, ?_, ?_⟩ <;> simp <;> omega
  | finish c hlt =>
    refine ⟨h1, h2, h3, ?_, ?_, h6, h7, h8⟩ <;> simp
    · cases c <;> simp <;> omega
    · omega
  | close hpc _ _ _ _ => exact ⟨h1, h2, h3, h4, h5, h6, h7, h8⟩

theorem inv_reach {n : Nat} {s : St} (h : Reach n s) : Inv n s := by
  induction h with
  | init => refine ⟨?_, ?_, ?_, ?_, ?_, ?_, ?_, ?_⟩ <;> simp
  | step _ hs ih => exact inv_step ih hs

/-- In every reachable state: started readers ≤ total, so `read ≤ stopped ≤ spawned ≤ total ≤ pushed ≤ n`. -/
theorem spawned_le_total {n : Nat} {s : St} (h : Reach n s) : s.spawned ≤ s.total := by
  have hi := inv_reach h
  cases hpc : s.pc with
  | top => have := hi.top hpc; omega
  | received => have := hi.rcv hpc; omega
  | measured => have := hi.msd hpc; omega

theorem total_mono {n : Nat} {s s' : St} (h : Reach n s) (hs : Step n s s') : s.total ≤ s'.total := by
  have hi := inv_reach h
  cases hs with
  | measure hpc => have := hi.totp; have := hi.tp; simp; omega
  | _ => simp

theorem closed_only_by_close {n : Nat} {s : St} (h : Reach n s) (hc : s.closed = true) :
    s.pc = .top ∧ s.taken = n ∧ s.pushed = n ∧ s.stopped = s.spawned := by
  induction h with
  | init => cases hc
  | step hr hs ih =>
    cases hs with
    | push hp =>
      have := ih hc
      have : _ := this.2.2.1
      omega
    | recv hpc hlt =>
      have := ih hc
      have h1 := this.2.1; have h2 := this.2.2.1
      omega
    | measure hpc => have := (ih hc).1; rw [this] at hpc; cases hpc
    | spawn hpc => have := (ih hc).1; rw [this] at hpc; cases hpc
    | finish c hlt => have := (ih hc).2.2.2; omega
    | close h1 h2 h3 h4 _ => exact ⟨h1, h2, h3, h4⟩

end Rare.C05Spawner
