import Rare.Model.C10Src
import Rare.Proofs.C10State
/-!
Lemmas about the meaning of the data the translator emits for C10 (no `Gen` import here: `Props/C10.lean`
instantiates them with the generated definitions).
-/
namespace Rare.C10
open Rare.Expr

/-- The touches of one evaluation, as a list of indices. -/
def timeTouchList (constTime static : Bool) (s : Bytes) : List Int :=
  if timeTouches .cur constTime static s then [-1] else []

/-- The program read from the source (1dba502) means `timeStep .cur` and `timeTouches .cur`. -/
theorem cacheStepOf_expected {L : Type} (lib : TimeLib L) (emptyTime : Bytes) (constTime static : Bool) (s : Bytes)
    (st : TimeSt L) :
    cacheStepOf cacheClosureExpected lib emptyTime constTime static s st
      = some ((timeStep .cur lib emptyTime static s st).1, (timeStep .cur lib emptyTime static s st).2,
          timeTouchList constTime static s) := by
  by_cases hs : s = []
  · subst hs
    simp [cacheStepOf, cacheClosureExpected, execProg, execOp, evalCond, timeStep, timeTouchList]
  · by_cases he : s = emptyTime
    · subst he
      cases static <;> cases constTime <;>
      · simp only [cacheStepOf, cacheClosureExpected, execProg, execOp, evalCond, timeStep, hs, CVars.cell,
          timeTouchList, timeTouches]
        cases hr : st.real <;> cases hst : st.static <;> cases hd : lib.detect s <;>
          simp [hr, hst, hd, hs, TimeLib.parseOr] <;>
          (generalize lib.parse _ _ = o; cases o <;> simp)
    · cases static <;> cases constTime <;>
      · simp only [cacheStepOf, cacheClosureExpected, execProg, execOp, evalCond, timeStep, hs, CVars.cell,
          timeTouchList, timeTouches]
        cases hr : st.real <;> cases hst : st.static <;> cases hd : lib.detect s <;>
          simp [hr, hst, hd, he, hs, TimeLib.parseOr] <;>
          (generalize lib.parse _ _ = o; cases o <;> simp)

/-- `Comp.probe` is `EvalStaticStage` with a monitor that counts every look-up and answers "". -/
theorem runMonitor_probeN {α : Type} (c : Comp α) (n : Nat) :
    runMonitor (fun k _ => (k + 1, [])) (fun k _ => (k + 1, [])) c n = c.probeN n := by
  induction c generalizing n with
  | ret a => rfl
  | getMatch i k ih => simp [runMonitor, Comp.probeN, ih]
  | getKey s k ih => simp [runMonitor, Comp.probeN, ih]
  | panic m => rfl

theorem evalStatic_probe {α : Type} (c : Comp α) :
    evalStatic (fun k _ => (k + 1, [])) (fun k _ => (k + 1, [])) 0 (fun n => n == 0) c = c.probe := by
  simp only [evalStatic, Comp.probe, runMonitor_probeN]
  cases c.probeN 0 with
  | error m => rfl
  | ok p => rfl

/-- `InStaticAnalysis` through any number of forwarding wrappers is the root's answer. -/
theorem inStaticChain_forward (dflt : Bool) (n : Nat) (root : StaticAnswer) :
    inStaticChain dflt (List.replicate n .forward ++ [root]) = inStaticChain dflt [root] := by
  induction n with
  | zero => rfl
  | succ n ih => simpa [List.replicate_succ, inStaticChain] using ih

theorem inStaticChain_forwards (dflt : Bool) (ws : List StaticAnswer) (root : StaticAnswer)
    (h : ∀ a ∈ ws, a = .forward) : inStaticChain dflt (ws ++ [root]) = inStaticChain dflt [root] := by
  induction ws with
  | nil => rfl
  | cons a r ih =>
    have ha : a = .forward := h a (by simp)
    subst ha
    simpa [inStaticChain] using ih (fun b hb => h b (by simp [hb]))

end Rare.C10
