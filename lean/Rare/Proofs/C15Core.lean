import Rare.Model.C15
/-!
C15 – lemmas shared by the notify and the polling transition systems: the *data invariant*
(delivered = concatenation of the segments of all handles, handle offsets within bounds) and its
preservation by the file operations, by a read, by closing and by opening a handle.
-/
namespace Rare.Follow
open Rare.C15.Spec

variable {β : Type}

theorem extract_append_stable (c bs : List β) (a b : Nat) (h : b ≤ c.length ∨ b = a) :
    extract (c ++ bs) a b = extract c a b := by
  unfold extract
  rcases h with h | h
  · by_cases ha : a ≤ c.length
    · rw [List.drop_append_of_le_length ha, List.take_append_of_le_length (by simp; omega)]
    · have : b - a = 0 := by omega
      simp [this]
  · subst h; simp

theorem extract_read (c : List β) (a p n : Nat) (h : a ≤ p) :
    extract c a (p + n) = extract c a p ++ (c.drop p).take n := by
  unfold extract
  have : p + n - a = (p - a) + n := by omega
  rw [this, List.take_add, List.drop_drop]
  have : a + (p - a) = p := by omega
  rw [this]

theorem extract_self (c : List β) (a : Nat) : extract c a a = [] := by simp [extract]

theorem segments_congr (c c' : Nat → List β) (hs : List Handle)
    (h : ∀ x ∈ hs, extract (c' x.ino) x.start x.pos = extract (c x.ino) x.start x.pos) :
    segments c' hs = segments c hs := by
  induction hs with
  | nil => rfl
  | cons x xs ih =>
    simp only [segments, List.flatMap_cons] at ih ⊢
    rw [h x (by simp), ih (fun y hy => h y (by simp [hy]))]

theorem segments_append (c : Nat → List β) (xs ys : List Handle) :
    segments c (xs ++ ys) = segments c xs ++ segments c ys := by
  simp [segments, List.flatMap_append]

theorem segments_single (c : Nat → List β) (h : Handle) :
    segments c [h] = extract (c h.ino) h.start h.pos := by
  simp [segments]

/-- Data invariant. -/
structure Core (fs : FS β) (f : Option Handle) (hist : List Handle) (d : List β) : Prop where
  deliv : d = segments fs.content (hist ++ f.toList)
  bounds : ∀ h ∈ hist ++ f.toList,
    h.start ≤ h.pos ∧ (h.pos ≤ (fs.content h.ino).length ∨ h.pos = h.start) ∧ h.ino < fs.next
  pathLt : ∀ i, fs.path = some i → i < fs.next

variable {fs : FS β} {f : Option Handle} {hist : List Handle} {d : List β}

theorem Core.append (h : Core fs f hist d) (i : Nat) (bs : List β) :
    Core (fs.append i bs) f hist d := by
  refine ⟨?_, ?_, h.pathLt⟩
  · rw [h.deliv]
    symm
    apply segments_congr
    intro x hx
    have hb := h.bounds x hx
    simp only [FS.append]
    by_cases hi : x.ino = i
    · simp only [hi, if_true]
      apply extract_append_stable
      rw [← hi]; exact hb.2.1
    · simp [hi]
  · intro x hx
    have hb := h.bounds x hx
    refine ⟨hb.1, ?_, hb.2.2⟩
    simp only [FS.append]
    by_cases hi : x.ino = i
    · simp only [hi, if_true, List.length_append]
      rcases hb.2.1 with h1 | h1
      · left; rw [← hi]; omega
      · right; exact h1
    · simp only [hi, if_false]; exact hb.2.1

theorem Core.remove (h : Core fs f hist d) : Core fs.remove f hist d :=
  ⟨h.deliv, h.bounds, by intro i hi; cases hi⟩

theorem Core.create (h : Core fs f hist d) : Core fs.create f hist d := by
  refine ⟨?_, ?_, ?_⟩
  · rw [h.deliv]
    symm
    apply segments_congr
    intro x hx
    have hb := h.bounds x hx
    have : x.ino ≠ fs.next := by omega
    simp [FS.create, this]
  · intro x hx
    have hb := h.bounds x hx
    have : x.ino ≠ fs.next := by omega
    simp only [FS.create, this, if_false]
    exact ⟨hb.1, hb.2.1, by omega⟩
  · intro i hi
    simp only [FS.create, Option.some.injEq] at hi
    simp only [FS.create]; omega

theorem Core.read (h : Core fs (some x) hist d) (n : Nat) (hn : n ≤ (unread fs x).length) (h1 : 1 ≤ n) :
    Core fs (some { x with pos := x.pos + n }) hist (d ++ (unread fs x).take n) := by
  have hb := h.bounds x (by simp)
  have hlen : x.pos + n ≤ (fs.content x.ino).length := by
    simp only [unread, List.length_drop] at hn; omega
  refine ⟨?_, ?_, h.pathLt⟩
  · rw [h.deliv]
    simp only [Option.toList_some, segments_append, segments_single, unread]
    rw [extract_read _ _ _ _ hb.1, List.append_assoc]
  · intro y hy
    simp only [Option.toList_some, List.mem_append, List.mem_singleton] at hy
    rcases hy with hy | rfl
    · exact h.bounds y (by simp [hy])
    · exact ⟨by simp; omega, Or.inl hlen, hb.2.2⟩

theorem Core.close (h : Core fs (some x) hist d) : Core fs none (hist ++ [x]) d := by
  refine ⟨?_, ?_, h.pathLt⟩
  · simpa using h.deliv
  · simpa using h.bounds

theorem Core.closeOpt (h : Core fs f hist d) : Core fs none (hist ++ f.toList) d := by
  refine ⟨?_, ?_, h.pathLt⟩
  · simpa using h.deliv
  · simpa using h.bounds

theorem Core.openAt (h : Core fs none hist d) (p : Nat) : Core fs (openAt fs p) hist d := by
  unfold Follow.openAt
  cases hp : fs.path with
  | none => exact h
  | some i =>
    refine ⟨?_, ?_, h.pathLt⟩
    · rw [h.deliv]
      simp [segments_append, segments_single, extract_self]
    · intro y hy
      simp only [Option.toList_some, List.mem_append, List.mem_singleton] at hy
      rcases hy with hy | rfl
      · exact h.bounds y (by simp [hy])
      · exact ⟨Nat.le_refl _, Or.inr rfl, h.pathLt i hp⟩

end Rare.Follow
