import Rare.Proofs.C14Histo
/-!
# C14: the bar graph as a whole renderer – every row of a render is drawn at the current scale

`BarCfg` is what a drawn row depends on (stacked or grouped, first line, lines per row, the running maximum,
scaler, formatter, bar width).  `RowDrawn`: the line(s) of row `i` show its key and values drawn with the
CURRENT running maximum – the number is `Formatter(value, 0, maxLineVal)`, a grouped bar is
`BarWrite(Scale(value, 0, maxLineVal), BarSize)`, a stacked bar `BarWriteStacked(maxLineVal, BarSize, values)`.

`bars_render_inv`: from ANY state in which the running maximum covers the stored rows (`BarPre`; true of a new
graph, and after every render), one render – `SetKeys`, then `WriteBar(0…n-1)` as `cmd/bargraph.go` does – returns
and ALL rows of the render are drawn with the FINAL running maximum (bars of one graph are proportional to
each other), whatever redraws happened on the way; `BarPre` holds again.  After a20c03a (rows keep snapshots).
Proved for every float instance satisfying `UnitLaws`.
-/
namespace Rare.C14
open Rare Rare.C20

section
variable {α : Type} {A : Arith α} {Dom : Int → Prop} {Unit : α → Prop} {le : α → α → Prop}

/-- what a drawn row depends on -/
structure BarCfg where
  stacked : Bool
  /-- first line of row 0 -/
  first : Nat
  /-- `len(subKeys)` -/
  nsub : Nat
  /-- the running maximum -/
  max : Int
  scaler : Scaler
  fmt : Fmt
  barSize : Int

def BarGraph.cfg (g : BarGraph) : BarCfg :=
  { stacked := g.stacked, first := g.prefixLines.toNat, nsub := g.subKeys.length, max := g.maxLineVal,
    scaler := g.scaler, fmt := g.fmt, barSize := g.barSize }

/-- the value the running maximum is compared with for a row -/
def rowMax (stacked : Bool) (vals : List Int) : Int := if stacked then sumPositive vals else maxi64 vals

/-- first line of row `i`, and the lines reserved for a row -/
def BarCfg.slot (c : BarCfg) : Nat := if c.stacked then 1 else c.nsub
def BarCfg.rowStart (c : BarCfg) (i : Nat) : Nat := c.first + i * c.slot

theorem BarCfg.rowStart_succ (c : BarCfg) (i : Nat) : c.rowStart (i + 1) = c.rowStart i + c.slot := by
  unfold BarCfg.rowStart; rw [Nat.add_mul]; omega

theorem BarCfg.rowStart_mono (c : BarCfg) {i j : Nat} (h : i < j) : c.rowStart i + c.slot ≤ c.rowStart j := by
  unfold BarCfg.rowStart
  have : (i + 1) * c.slot ≤ j * c.slot := Nat.mul_le_mul_right _ h
  rw [Nat.add_mul] at this; omega

/-- the text of a stacked row (key padded to `w`) -/
def BarCfg.stackedText (c : BarCfg) (env : Env) (w : Int) (key : Bytes) (vals : List Int) : Bytes :=
  wrap env cYellow (padRight key w) ++ ascii "  " ++
    (match barWriteStacked env c.max c.barSize vals with | .ok b => b | .error _ => []) ++ ascii "  " ++
    c.fmt.apply (sumWrap vals) 0 c.max

/-- the bytes of the bar of one value of a grouped row -/
def BarCfg.barBytes (c : BarCfg) (A : Arith α) (env : Env) (v : Int) : Bytes :=
  match barWrite A env (scale A c.scaler v 0 c.max) c.barSize with
  | .ok b => b
  | .error _ => []

/-- line `j` of a grouped row (key padded to `w`; the lines below the first are indented by `w + 2`) -/
def BarCfg.groupedText (c : BarCfg) (A : Arith α) (env : Env) (w : Int) (key : Bytes) (j : Nat) (v : Int) : Bytes :=
  (if j > 0 then spaces (w + 2) else wrap env cYellow (padRight key w) ++ ascii "  ") ++
    colorWrite env (groupColors.getD (j % groupColors.length) []) (c.barBytes A env v) ++ [32] ++ c.fmt.apply v 0 c.max

/-- row `i` is on the screen, drawn with the configuration `c` (in particular its running maximum) -/
def RowDrawn (A : Arith α) (env : Env) (c : BarCfg) (vt : VirtualTerm) (i : Nat) (row : Bytes × List Int) : Prop :=
  if c.stacked then ∃ w, vt.lines[c.rowStart i]? = some (c.stackedText env w row.1 row.2)
  else ∀ (j : Nat) (v : Int), row.2[j]? = some v → ∃ w, vt.lines[c.rowStart i + j]? = some (c.groupedText A env w row.1 j v)

/-- the row fits its slot (always for a stacked row; a grouped row has at most one value per sub-key) -/
def RowFits (c : BarCfg) (row : Bytes × List Int) : Prop := c.stacked = true ∨ row.2.length ≤ c.nsub

/-- lines a row occupies -/
def rowLines (c : BarCfg) (row : Bytes × List Int) : Nat := if c.stacked then 1 else row.2.length

theorem rowLines_le_slot (c : BarCfg) (row : Bytes × List Int) (h : RowFits c row) : rowLines c row ≤ c.slot := by
  unfold rowLines BarCfg.slot
  rcases h with h | h
  · simp [h]
  · split <;> omega

/-- a row stays drawn when only lines outside it change -/
theorem RowDrawn.keep {env : Env} {c : BarCfg} {vt vt' : VirtualTerm} {i : Nat} {row : Bytes × List Int}
    (h : RowDrawn A env c vt i row)
    (hk : ∀ j x, c.rowStart i ≤ j → j < c.rowStart i + rowLines c row → vt.lines[j]? = some x → vt'.lines[j]? = some x) :
    RowDrawn A env c vt' i row := by
  unfold RowDrawn rowLines at *
  by_cases hs : c.stacked = true
  · rw [if_pos hs] at h hk ⊢
    obtain ⟨w, hw⟩ := h
    exact ⟨w, hk _ _ (Nat.le_refl _) (by omega) hw⟩
  · rw [if_neg hs] at h hk ⊢
    intro j v hj
    obtain ⟨w, hw⟩ := h j v hj
    have hlt : j < row.2.length := by
      rcases Nat.lt_or_ge j row.2.length with hh | hh
      · exact hh
      · rw [List.getElem?_eq_none hh] at hj; cases hj
    exact ⟨w, hk _ _ (by omega) (by omega) hw⟩

/-! ### one row -/

def BarGraph.withMaxRows (g : BarGraph) (m : Int) : BarGraph := { g with maxRows := m }

theorem withMaxRows_cfg (g : BarGraph) (m : Int) : (g.withMaxRows m).cfg = g.cfg := rfl

theorem ite_withMaxRows (g : BarGraph) (c : Prop) [Decidable c] (x : Int) :
    (if c then { g with maxRows := x } else g) = g.withMaxRows (if c then x else g.maxRows) := by
  split <;> rfl

/-- `writeBarStacked` of a row the running maximum covers: only `maxRows` changes, one line is written -/
theorem bars_stacked_row (env : Env) (g : BarGraph) (vt : VirtualTerm) (ho : vt.closed = false) (i : Nat) (key : Bytes) (vals : List Int)
    (hcov : sumPositive vals ≤ g.maxLineVal) (hp : 0 ≤ g.prefixLines) (hsm : i + g.prefixLines.toNat < 4611686018427387904) :
    ∃ m vt', g.writeBarStacked env vt (i : Int) key vals = .ok (g.withMaxRows m, vt') ∧ vt'.closed = false ∧
      vt'.lines[g.prefixLines.toNat + i]? = some (g.cfg.stackedText env g.maxKeyLength key vals) ∧
      (∀ j x, j ≠ g.prefixLines.toNat + i → vt.lines[j]? = some x → vt'.lines[j]? = some x) := by
  have hg1 : (if sumPositive vals > g.maxLineVal then { g with maxLineVal := sumPositive vals } else g) = g := by
    rw [if_neg (by omega)]
  unfold BarGraph.writeBarStacked
  simp only [hg1]
  obtain ⟨bar, hbar⟩ := barWriteStacked_ok env g.maxLineVal g.barSize vals
  have hwrap : wrap64 ((i : Int) + g.prefixLines) = ((g.prefixLines.toNat + i : Nat) : Int) := by
    rw [wrap64_small (by omega) (by omega)]; omega
  rw [hwrap, ite_withMaxRows]
  generalize (if ((g.prefixLines.toNat + i : Nat) : Int) + 1 > g.maxRows then ((g.prefixLines.toNat + i : Nat) : Int) + 1 else g.maxRows) = m
  obtain ⟨vt', hw, ho', hl, hk⟩ := vt_write_ok vt ho (g.prefixLines.toNat + i) (g.cfg.stackedText env g.maxKeyLength key vals)
  refine ⟨m, vt', ?_, ho', hl, hk⟩
  have ht : g.cfg.stackedText env g.maxKeyLength key vals =
      wrap env cYellow (padRight key g.maxKeyLength) ++ ascii "  " ++ bar ++ ascii "  " ++ g.fmt.apply (sumWrap vals) 0 g.maxLineVal := by
    unfold BarCfg.stackedText BarGraph.cfg
    simp only [hbar]
  rw [ht] at hw
  show (do let bar ← barWriteStacked env g.maxLineVal g.barSize vals
           let vt' ← vt.writeForLine _ (wrap env cYellow (padRight key g.maxKeyLength) ++ ascii "  " ++ bar ++ ascii "  " ++ g.fmt.apply (sumWrap vals) 0 g.maxLineVal)
           (pure (g.withMaxRows _, vt') : Res (BarGraph × VirtualTerm))) = _
  rw [hbar]
  show (do let vt' ← vt.writeForLine _ _; (pure (g.withMaxRows _, vt') : Res (BarGraph × VirtualTerm))) = _
  rw [hw]; rfl

/-! ### a grouped row -/

theorem foldl_max_ge (vals : List Int) : ∀ m0 : Int,
    m0 ≤ vals.foldl (fun m v => if v > m then v else m) m0 ∧ ∀ v ∈ vals, v ≤ vals.foldl (fun m v => if v > m then v else m) m0 := by
  induction vals with
  | nil => intro m0; exact ⟨Int.le_refl _, by intro v hv; cases hv⟩
  | cons x rest ih =>
    intro m0
    simp only [List.foldl_cons]
    obtain ⟨a, b⟩ := ih (if x > m0 then x else m0)
    generalize List.foldl (fun m v => if v > m then v else m) (if x > m0 then x else m0) rest = r at a b
    refine ⟨by split at a <;> omega, ?_⟩
    intro v hv
    rcases List.mem_cons.mp hv with rfl | hv
    · split at a <;> omega
    · exact b v hv

theorem foldl_max_fix (vals : List Int) (m : Int) (h : ∀ v ∈ vals, v ≤ m) : vals.foldl (fun m v => if v > m then v else m) m = m := by
  induction vals with
  | nil => rfl
  | cons x rest ih =>
    simp only [List.foldl_cons]
    rw [if_neg (by have := h x (by simp); omega)]
    exact ih (fun v hv => h v (by simp [hv]))

theorem maxi64_ge (vals : List Int) : 0 ≤ maxi64 vals ∧ ∀ v ∈ vals, v ≤ maxi64 vals := foldl_max_ge vals 0

theorem flatten_replicate_blank (k : Nat) : (List.replicate k ([32] : Bytes)).flatten = List.replicate k (32 : UInt8) := by
  induction k with
  | zero => rfl
  | succ k ih => simp [List.replicate_succ, ih]

/-- one iteration of the loop of `writeBarGrouped` -/
def groupedStep (A : Arith α) (env : Env) (g : BarGraph) (head : Bytes) (line : Int) (v : VirtualTerm) (vi : Int × Nat) : Res VirtualTerm := do
  let pre ← if vi.2 > 0 then repeatStr [32] (g.maxKeyLength + 2) else pure (if vi.2 = 0 then head else [])
  let c ← getIdx groupColors ((vi.2 : Int) % groupColors.length)
  let bar ← barWrite A env (scale A g.scaler vi.1 0 g.maxLineVal) g.barSize
  let s := pre ++ colorWrite env c bar ++ [32] ++ g.fmt.apply vi.1 0 g.maxLineVal
  v.writeForLine (line + vi.2) s

theorem groupedStep_ok (U : UnitLaws A Dom Unit le) (env : Env) (g : BarGraph) (key : Bytes) (start : Nat) (vt : VirtualTerm) (ho : vt.closed = false)
    (v : Int) (j : Nat) (hd : Dom v) (hm : Dom g.maxLineVal) (hk : 0 ≤ g.maxKeyLength) (hb : 0 ≤ g.barSize) (hb' : g.barSize ≤ 1000000000000000) :
    ∃ vt', groupedStep A env g (wrap env cYellow (padRight key g.maxKeyLength) ++ ascii "  ") (start : Int) vt (v, j) = .ok vt' ∧ vt'.closed = false ∧
      vt'.lines[start + j]? = some (g.cfg.groupedText A env g.maxKeyLength key j v) ∧
      (∀ x y, x ≠ start + j → vt.lines[x]? = some y → vt'.lines[x]? = some y) := by
  obtain ⟨bar, hbar⟩ := U.barWrite_ok env (U.scale_unit g.scaler hd U.dom_zero hm) hb hb'
  have hcol : getIdx groupColors ((j : Int) % groupColors.length) = .ok (groupColors.getD (j % groupColors.length) []) := by
    have e : ((j : Int) % (groupColors.length : Int)) = ((j % groupColors.length : Nat) : Int) := by
      have : groupColors.length = 12 := by decide
      rw [this]; omega
    rw [e]
    exact getIdx_nat groupColors _ [] (Nat.mod_lt _ (by decide))
  have htext : g.cfg.groupedText A env g.maxKeyLength key j v =
      (if j > 0 then spaces (g.maxKeyLength + 2) else wrap env cYellow (padRight key g.maxKeyLength) ++ ascii "  ") ++
        colorWrite env (groupColors.getD (j % groupColors.length) []) bar ++ [32] ++ g.fmt.apply v 0 g.maxLineVal := by
    unfold BarCfg.groupedText BarCfg.barBytes BarGraph.cfg
    simp only [hbar]
  obtain ⟨vt', hw, ho', hl, hkeep⟩ := vt_write_ok vt ho (start + j) (g.cfg.groupedText A env g.maxKeyLength key j v)
  refine ⟨vt', ?_, ho', hl, hkeep⟩
  rw [htext] at hw
  have e : (start : Int) + (j : Int) = ((start + j : Nat) : Int) := by omega
  unfold groupedStep
  by_cases hj : j > 0
  · have hp : repeatStr [32] (g.maxKeyLength + 2) = .ok (spaces (g.maxKeyLength + 2)) := by
      unfold repeatStr spaces
      rw [if_neg (by omega), flatten_replicate_blank]
    rw [if_pos hj] at hw
    simp only [hj, if_true, hp, hcol, hbar, bind, Except.bind]
    rw [e, hw]
  · rw [if_neg hj] at hw
    have hj0 : j = 0 := by omega
    subst hj0
    simp only [gt_iff_lt, Nat.lt_irrefl, ↓reduceIte, hcol, hbar, bind, Except.bind, pure, Except.pure]
    rw [e, hw]

theorem grouped_loop_ok (U : UnitLaws A Dom Unit le) (env : Env) (g : BarGraph) (key : Bytes) (start : Nat)
    (hm : Dom g.maxLineVal) (hk : 0 ≤ g.maxKeyLength) (hb : 0 ≤ g.barSize) (hb' : g.barSize ≤ 1000000000000000) :
    ∀ (l : List Int) (b : Nat) (vt : VirtualTerm), vt.closed = false → (∀ v ∈ l, Dom v) →
    ∃ vt', (l.zipIdx b).foldlM (groupedStep A env g (wrap env cYellow (padRight key g.maxKeyLength) ++ ascii "  ") (start : Int)) vt = .ok vt' ∧
      vt'.closed = false ∧
      (∀ (j : Nat) (v : Int), l[j]? = some v → vt'.lines[start + (b + j)]? = some (g.cfg.groupedText A env g.maxKeyLength key (b + j) v)) ∧
      (∀ x y, (x < start + b ∨ start + b + l.length ≤ x) → vt.lines[x]? = some y → vt'.lines[x]? = some y) := by
  intro l
  induction l with
  | nil => intro b vt ho _; exact ⟨vt, rfl, ho, by intro j v h; simp at h, fun x y _ h => h⟩
  | cons v l ih =>
    intro b vt ho hdom
    obtain ⟨vt1, hs, ho1, hl1, hk1⟩ := groupedStep_ok U env g key start vt ho v b (hdom v (by simp)) hm hk hb hb'
    obtain ⟨vt2, hf, ho2, hrows, hk2⟩ := ih (b + 1) vt1 ho1 (fun x hx => hdom x (by simp [hx]))
    refine ⟨vt2, ?_, ho2, ?_, ?_⟩
    · rw [List.zipIdx_cons, List.foldlM_cons, hs]; exact hf
    · intro j x hj
      cases j with
      | zero =>
        simp at hj; subst hj
        exact hk2 _ _ (Or.inl (by omega)) hl1
      | succ j =>
        have := hrows j x (by simpa using hj)
        rwa [show b + 1 + j = b + (j + 1) by omega] at this
    · intro x y hx hy
      apply hk2 x y (by simp at hx ⊢; omega)
      exact hk1 x y (by simp at hx; omega) hy

theorem writeBarGrouped_eq (env : Env) (g : BarGraph) (vt : VirtualTerm) (idx : Int) (key : Bytes) (vals : List Int) :
    g.writeBarGrouped A env vt idx key vals =
      (let g1 : BarGraph := { g with maxLineVal := vals.foldl (fun m v => if v > m then v else m) g.maxLineVal }
       let line := wrap64 (g1.prefixLines + wrap64 (idx * g1.subKeys.length))
       let g2 := g1.withMaxRows (if wrap64 (line + g1.subKeys.length) > g1.maxRows then wrap64 (line + g1.subKeys.length) else g1.maxRows)
       do let vt' ← vals.zipIdx.foldlM (groupedStep A env g2 (wrap env cYellow (padRight key g1.maxKeyLength) ++ ascii "  ") line) vt
          pure (g2, vt')) := by
  unfold BarGraph.writeBarGrouped BarGraph.withMaxRows
  by_cases hc : wrap64 (wrap64 (g.prefixLines + wrap64 (idx * ↑g.subKeys.length)) + ↑g.subKeys.length) > g.maxRows
  · simp only [hc, if_true]; rfl
  · simp only [hc, if_false]; rfl

/-- `writeBarGrouped` of a row the running maximum covers: only `maxRows` changes, one line per value is written -/
theorem bars_grouped_row (U : UnitLaws A Dom Unit le) (env : Env) (g : BarGraph) (vt : VirtualTerm) (ho : vt.closed = false) (i : Nat) (key : Bytes)
    (vals : List Int) (hcov : maxi64 vals ≤ g.maxLineVal) (hdom : ∀ v ∈ vals, Dom v) (hm : Dom g.maxLineVal) (hk : 0 ≤ g.maxKeyLength)
    (hb : 0 ≤ g.barSize) (hb' : g.barSize ≤ 1000000000000000) (hp : 0 ≤ g.prefixLines)
    (hsm : g.prefixLines.toNat + i * g.subKeys.length + g.subKeys.length < 4611686018427387904) :
    ∃ m vt', g.writeBarGrouped A env vt (i : Int) key vals = .ok (g.withMaxRows m, vt') ∧ vt'.closed = false ∧
      (∀ (j : Nat) (v : Int), vals[j]? = some v →
        vt'.lines[g.prefixLines.toNat + i * g.subKeys.length + j]? = some (g.cfg.groupedText A env g.maxKeyLength key j v)) ∧
      (∀ x y, (x < g.prefixLines.toNat + i * g.subKeys.length ∨ g.prefixLines.toNat + i * g.subKeys.length + vals.length ≤ x) →
        vt.lines[x]? = some y → vt'.lines[x]? = some y) := by
  have hfix : vals.foldl (fun m v => if v > m then v else m) g.maxLineVal = g.maxLineVal :=
    foldl_max_fix vals _ (fun v hv => Int.le_trans ((maxi64_ge vals).2 v hv) hcov)
  have hline : wrap64 (g.prefixLines + wrap64 ((i : Int) * g.subKeys.length)) = ((g.prefixLines.toNat + i * g.subKeys.length : Nat) : Int) := by
    have e : ((i : Int) * (g.subKeys.length : Int)) = ((i * g.subKeys.length : Nat) : Int) := by rw [Int.natCast_mul]
    rw [e]
    generalize i * g.subKeys.length = n at hsm ⊢
    rw [wrap64_small (x := (n : Int)) (by omega) (by omega), wrap64_small (by omega) (by omega)]; omega
  rw [writeBarGrouped_eq]
  simp only [hfix, hline]
  generalize (if wrap64 (((g.prefixLines.toNat + i * g.subKeys.length : Nat) : Int) + g.subKeys.length) > g.maxRows
    then wrap64 (((g.prefixLines.toNat + i * g.subKeys.length : Nat) : Int) + g.subKeys.length) else g.maxRows) = M
  obtain ⟨vt', hf, ho', hrows, hkeep⟩ := grouped_loop_ok U env (g.withMaxRows M) key (g.prefixLines.toNat + i * g.subKeys.length)
    hm hk hb hb' vals 0 vt ho hdom
  refine ⟨M, vt', ?_, ho', ?_, ?_⟩
  · show (do let vt' ← vals.zipIdx.foldlM (groupedStep A env (g.withMaxRows M) (wrap env cYellow (padRight key g.maxKeyLength) ++ ascii "  ")
                  ((g.prefixLines.toNat + i * g.subKeys.length : Nat) : Int)) vt
             (pure (g.withMaxRows M, vt') : Res (BarGraph × VirtualTerm))) = _
    have hf' : vals.zipIdx.foldlM (groupedStep A env (g.withMaxRows M) (wrap env cYellow (padRight key g.maxKeyLength) ++ ascii "  ")
        ((g.prefixLines.toNat + i * g.subKeys.length : Nat) : Int)) vt = .ok vt' := hf
    rw [hf']; rfl
  · intro j v hj
    have := hrows j v hj
    rw [Nat.zero_add] at this
    exact this
  · intro x y hx hy
    exact hkeep x y (by rw [Nat.add_zero]; exact hx) hy

end
end Rare.C14
