import Rare.Proofs.C10Conc
import Rare.Model.C10ConcG
/-! The invariant of the generalised pool machine (`Model/C10ConcG.lean`); the proofs are those of `Proofs/C10Conc.lean`. -/
namespace Rare.C10.ConcG
open Rare.Expr Rare.C10
open Rare.C10.Conc (Pc resolve stepsLeft)

@[simp] theorem setPc_self (st : St) (w : Nat) (pc : Pc) : (st.setPc w pc).pcs w = pc := by simp [St.setPc]
theorem setPc_ne (st : St) {v w : Nat} (pc : Pc) (h : v ≠ w) : (st.setPc w pc).pcs v = st.pcs v := by simp [St.setPc, h]
@[simp] theorem setPc_free (st : St) (w : Nat) (pc : Pc) : (st.setPc w pc).free = st.free := rfl
@[simp] theorem setPc_next (st : St) (w : Nat) (pc : Pc) : (st.setPc w pc).next = st.next := rfl
@[simp] theorem setPc_obj (st : St) (w : Nat) (pc : Pc) : (st.setPc w pc).obj = st.obj := rfl

theorem resolve_holds (args : List Stage) (s : Ctx) (o : Nat) (c : Comp Bytes) : (resolve args s o c).holds = some o := by
  cases c with
  | ret v => rfl
  | panic m => rfl
  | getKey n k => rfl
  | getMatch i k =>
    simp only [resolve]
    split
    · rfl
    · split
      · rfl
      · split <;> rfl

/-- One resolved look-up keeps the answer of the stateless model. -/
theorem resolve_sound (args : List Stage) (s : Ctx) (o : Nat) (c : Comp Bytes) :
    (∀ o' c', resolve args s o c = .run o' c' → (withArgs args c').run s = (withArgs args c).run s) ∧
    (∀ o' r, resolve args s o c = .fin o' r → r = (withArgs args c).run s) := by
  cases c with
  | ret v =>
    refine ⟨fun o' c' h => by simp [resolve] at h, fun o' r h => ?_⟩
    simp only [resolve, Pc.fin.injEq] at h
    rw [← h.2]; rfl
  | panic m =>
    refine ⟨fun o' c' h => by simp [resolve] at h, fun o' r h => ?_⟩
    simp only [resolve, Pc.fin.injEq] at h
    rw [← h.2]; rfl
  | getKey n k =>
    refine ⟨fun o' c' h => ?_, fun o' r h => by simp [resolve] at h⟩
    simp only [resolve, Pc.run.injEq] at h
    rw [← h.2]; rfl
  | getMatch i k =>
    by_cases h0 : i < 0
    · refine ⟨fun o' c' h => ?_, fun o' r h => by simp [resolve, h0] at h⟩
      simp only [resolve, h0, if_true, Pc.run.injEq] at h
      rw [← h.2]; simp only [withArgs, h0, if_true, Comp.run]
    · by_cases h1 : i ≥ args.length
      · refine ⟨fun o' c' h => ?_, fun o' r h => by simp [resolve, h0, h1] at h⟩
        simp only [resolve, h0, h1, if_true, if_false, Pc.run.injEq] at h
        rw [← h.2]; simp only [withArgs, h0, h1, if_true, if_false]
      · simp only [withArgs, h0, h1, if_false, run_bind, resolve]
        cases (args.getD i.toNat (.ret [])).run s with
        | ok v =>
          refine ⟨fun o' c' h => ?_, fun o' r h => by simp at h⟩
          simp only [Pc.run.injEq] at h
          rw [← h.2]
        | error m =>
          refine ⟨fun o' c' h => by simp at h, fun o' r h => ?_⟩
          simp only [Pc.fin.injEq] at h
          rw [← h.2]

theorem start_inv {argsOf : Nat → List Stage} {bodyOf : Nat → Stage} {ctxs : Nat → Ctx} {st : St} (h : Start st) : Inv argsOf bodyOf ctxs st :=
  { nodup := h.nodup, lt := h.lt
    held := fun w o e => by rw [h.idle w] at e; simp [Pc.holds] at e
    excl := fun w w' o e => by rw [h.idle w] at e; simp [Pc.holds] at e
    run := fun w o c e => by rw [h.idle w] at e; cases e
    fin := fun w o r e => by rw [h.idle w] at e; cases e
    done := fun w r e => by rw [h.idle w] at e; cases e }

/-- `Get` when the pool is empty. -/
theorem step_get_new {argsOf : Nat → List Stage} {bodyOf : Nat → Stage} {ctxs : Nat → Ctx} {st : St} (h : Inv argsOf bodyOf ctxs st) (w : Nat)
    (hpc : st.pcs w = .idle) (hf : st.free = []) :
    Inv argsOf bodyOf ctxs ({ st with next := st.next + 1 }.setPc w (.got st.next)) := by
  refine ⟨by simpa using h.nodup, fun o ho => ?_, fun v o e => ?_, fun v v' o e e' => ?_, fun v o c e => ?_, fun v o r e => ?_,
    fun v r e => ?_⟩
  · simp [hf] at ho
  · by_cases hv : v = w
    · subst hv; simp [Pc.holds] at e; subst e; simp [hf]
    · rw [setPc_ne _ _ hv] at e
      have := h.held v o e
      exact ⟨by simp; omega, by simpa using this.2⟩
  · by_cases hv : v = w <;> by_cases hv' : v' = w
    · rw [hv, hv']
    · subst hv; rw [setPc_ne _ _ hv'] at e'; simp [Pc.holds] at e; subst e
      have := (h.held v' _ e').1; omega
    · subst hv'; rw [setPc_ne _ _ hv] at e; simp [Pc.holds] at e'; subst e'
      have := (h.held v _ e).1; omega
    · rw [setPc_ne _ _ hv] at e; rw [setPc_ne _ _ hv'] at e'; exact h.excl v v' o e e'
  · by_cases hv : v = w
    · subst hv; simp at e
    · rw [setPc_ne _ _ hv] at e; exact h.run v o c e
  · by_cases hv : v = w
    · subst hv; simp at e
    · rw [setPc_ne _ _ hv] at e; exact h.fin v o r e
  · by_cases hv : v = w
    · subst hv; simp at e
    · rw [setPc_ne _ _ hv] at e; exact h.done v r e

/-- `Get` taking the last free object. -/
theorem step_get_old {argsOf : Nat → List Stage} {bodyOf : Nat → Stage} {ctxs : Nat → Ctx} {st : St} (h : Inv argsOf bodyOf ctxs st) (w o : Nat)
    (hpc : st.pcs w = .idle) (hf : st.free.getLast? = some o) :
    Inv argsOf bodyOf ctxs ({ st with free := st.free.dropLast }.setPc w (.got o)) := by
  have hsplit : st.free.dropLast ++ [o] = st.free := by
    obtain ⟨ys, hys⟩ := List.getLast?_eq_some_iff.mp hf
    rw [hys]; simp
  have hnd : (st.free.dropLast ++ [o]).Nodup := by rw [hsplit]; exact h.nodup
  have hnd' := List.nodup_append.mp hnd
  have ho_notin : o ∉ st.free.dropLast := fun hm => hnd'.2.2 o hm o (by simp) rfl
  have ho_in : o ∈ st.free := by rw [← hsplit]; simp
  have hsub : ∀ x, x ∈ st.free.dropLast → x ∈ st.free := fun x hx => by rw [← hsplit]; simp [hx]
  refine ⟨hnd'.1, fun x hx => h.lt x (hsub x hx), fun v x e => ?_, fun v v' x e e' => ?_, fun v x c e => ?_, fun v x r e => ?_,
    fun v r e => ?_⟩
  · by_cases hv : v = w
    · subst hv; simp [Pc.holds] at e; subst e; exact ⟨h.lt _ ho_in, ho_notin⟩
    · rw [setPc_ne _ _ hv] at e
      have := h.held v x e
      exact ⟨this.1, fun hm => this.2 (hsub x hm)⟩
  · by_cases hv : v = w <;> by_cases hv' : v' = w
    · rw [hv, hv']
    · subst hv; rw [setPc_ne _ _ hv'] at e'; simp [Pc.holds] at e; subst e
      exact absurd ho_in (h.held v' _ e').2
    · subst hv'; rw [setPc_ne _ _ hv] at e; simp [Pc.holds] at e'; subst e'
      exact absurd ho_in (h.held v _ e).2
    · rw [setPc_ne _ _ hv] at e; rw [setPc_ne _ _ hv'] at e'; exact h.excl v v' x e e'
  · by_cases hv : v = w
    · subst hv; simp at e
    · rw [setPc_ne _ _ hv] at e; exact h.run v x c e
  · by_cases hv : v = w
    · subst hv; simp at e
    · rw [setPc_ne _ _ hv] at e; exact h.fin v x r e
  · by_cases hv : v = w
    · subst hv; simp at e
    · rw [setPc_ne _ _ hv] at e; exact h.done v r e

/-- `subCtx.sub = kbc` -/
theorem step_install {argsOf : Nat → List Stage} {bodyOf : Nat → Stage} {ctxs : Nat → Ctx} {st : St} (h : Inv argsOf bodyOf ctxs st) (w o : Nat)
    (hpc : st.pcs w = .got o) :
    Inv argsOf bodyOf ctxs ({ st with obj := fun p => if p = o then (ctxs w, argsOf w) else st.obj p }.setPc w (.run o (bodyOf w))) := by
  have hw : (st.pcs w).holds = some o := by rw [hpc]; rfl
  refine ⟨h.nodup, h.lt, fun v x e => ?_, fun v v' x e e' => ?_, fun v x c e => ?_, fun v x r e => ?_, fun v r e => ?_⟩
  · by_cases hv : v = w
    · subst hv; simp [Pc.holds] at e; subst e; exact h.held v _ hw
    · rw [setPc_ne _ _ hv] at e; exact h.held v x e
  · have e1 : (st.pcs v).holds = some x := by
      by_cases hv : v = w
      · subst hv; simp [Pc.holds] at e; subst e; exact hw
      · rw [setPc_ne _ _ hv] at e; exact e
    have e2 : (st.pcs v').holds = some x := by
      by_cases hv : v' = w
      · subst hv; simp [Pc.holds] at e'; subst e'; exact hw
      · rw [setPc_ne _ _ hv] at e'; exact e'
    exact h.excl v v' x e1 e2
  · by_cases hv : v = w
    · subst hv; simp at e; obtain ⟨rfl, rfl⟩ := e; simp
    · rw [setPc_ne _ _ hv] at e
      have hx : (st.pcs v).holds = some x := by rw [e]; rfl
      have hne : x ≠ o := fun hxo => hv (h.excl v w x hx (hxo ▸ hw))
      simpa [hne] using h.run v x c e
  · by_cases hv : v = w
    · subst hv; simp at e
    · rw [setPc_ne _ _ hv] at e; exact h.fin v x r e
  · by_cases hv : v = w
    · subst hv; simp at e
    · rw [setPc_ne _ _ hv] at e; exact h.done v r e

/-- one look-up of the body -/
theorem step_lookup {argsOf : Nat → List Stage} {bodyOf : Nat → Stage} {ctxs : Nat → Ctx} {st : St} (h : Inv argsOf bodyOf ctxs st) (w o : Nat)
    (c : Comp Bytes) (hpc : st.pcs w = .run o c) :
    Inv argsOf bodyOf ctxs (st.setPc w (resolve (st.obj o).2 (st.obj o).1 o c)) := by
  have hw : (st.pcs w).holds = some o := by rw [hpc]; rfl
  obtain ⟨hs, hr⟩ := h.run w o c hpc
  have snd := resolve_sound (st.obj o).2 (st.obj o).1 o c
  refine ⟨h.nodup, h.lt, fun v x e => ?_, fun v v' x e e' => ?_, fun v x c' e => ?_, fun v x r e => ?_, fun v r e => ?_⟩
  · by_cases hv : v = w
    · subst hv; simp [resolve_holds] at e; subst e; exact h.held v _ hw
    · rw [setPc_ne _ _ hv] at e; exact h.held v x e
  · have e1 : (st.pcs v).holds = some x := by
      by_cases hv : v = w
      · subst hv; simp [resolve_holds] at e; subst e; exact hw
      · rw [setPc_ne _ _ hv] at e; exact e
    have e2 : (st.pcs v').holds = some x := by
      by_cases hv : v' = w
      · subst hv; simp [resolve_holds] at e'; subst e'; exact hw
      · rw [setPc_ne _ _ hv] at e'; exact e'
    exact h.excl v v' x e1 e2
  · by_cases hv : v = w
    · subst hv
      simp only [setPc_self] at e
      have hx : x = o := by
        have := resolve_holds (st.obj o).2 (st.obj o).1 o c; rw [e] at this; simpa [Pc.holds] using this
      subst hx
      refine ⟨hs, ?_⟩
      have := snd.1 _ _ e; rw [hs] at this; rw [← hr]; exact this
    · rw [setPc_ne _ _ hv] at e; exact h.run v x c' e
  · by_cases hv : v = w
    · subst hv
      simp only [setPc_self] at e
      have := snd.2 _ _ e; rw [hs] at this; rw [← hr]; exact this
    · rw [setPc_ne _ _ hv] at e; exact h.fin v x r e
  · by_cases hv : v = w
    · subst hv
      simp only [setPc_self] at e
      have := resolve_holds (st.obj o).2 (st.obj o).1 o c; rw [e] at this; simp [Pc.holds] at this
    · rw [setPc_ne _ _ hv] at e; exact h.done v r e

/-- the deferred `Return` -/
theorem step_return {argsOf : Nat → List Stage} {bodyOf : Nat → Stage} {ctxs : Nat → Ctx} {st : St} (h : Inv argsOf bodyOf ctxs st) (w o : Nat)
    (r : Except String Bytes) (hpc : st.pcs w = .fin o r) :
    Inv argsOf bodyOf ctxs ({ st with free := st.free ++ [o] }.setPc w (.done r)) := by
  have hw : (st.pcs w).holds = some o := by rw [hpc]; rfl
  have ho := h.held w o hw
  refine ⟨?_, fun x hx => ?_, fun v x e => ?_, fun v v' x e e' => ?_, fun v x c e => ?_, fun v x r' e => ?_, fun v r' e => ?_⟩
  · simp only [setPc_free]
    exact List.nodup_append.mpr ⟨h.nodup, by simp, fun a ha b hb => by simp at hb; subst hb; exact fun hab => ho.2 (hab ▸ ha)⟩
  · simp only [setPc_free, List.mem_append, List.mem_singleton] at hx
    rcases hx with hx | hx
    · exact h.lt x hx
    · subst hx; exact ho.1
  · by_cases hv : v = w
    · subst hv; simp [Pc.holds] at e
    · rw [setPc_ne _ _ hv] at e
      have := h.held v x e
      refine ⟨this.1, ?_⟩
      simp only [setPc_free, List.mem_append, List.mem_singleton, not_or]
      exact ⟨this.2, fun hxo => hv (h.excl v w x e (hxo ▸ hw))⟩
  · by_cases hv : v = w
    · subst hv; simp [Pc.holds] at e
    · by_cases hv' : v' = w
      · subst hv'; simp [Pc.holds] at e'
      · rw [setPc_ne _ _ hv] at e; rw [setPc_ne _ _ hv'] at e'; exact h.excl v v' x e e'
  · by_cases hv : v = w
    · subst hv; simp at e
    · rw [setPc_ne _ _ hv] at e; exact h.run v x c e
  · by_cases hv : v = w
    · subst hv; simp at e
    · rw [setPc_ne _ _ hv] at e; exact h.fin v x r' e
  · by_cases hv : v = w
    · subst hv; simp at e; subst e; exact h.fin v o r hpc
    · rw [setPc_ne _ _ hv] at e; exact h.done v r' e

theorem step_inv {argsOf : Nat → List Stage} {bodyOf : Nat → Stage} {ctxs : Nat → Ctx} {st : St} (h : Inv argsOf bodyOf ctxs st) (w : Nat) :
    Inv argsOf bodyOf ctxs (step true argsOf bodyOf ctxs w st) := by
  unfold step
  split
  · next hpc =>
    split
    · next hf => exact step_get_new h w hpc (List.getLast?_eq_none_iff.mp hf)
    · next o hf => exact step_get_old h w o hpc hf
  · next o hpc => exact step_install h w o hpc
  · next o c hpc => exact step_lookup h w o c hpc
  · next o r hpc => exact step_return h w o r hpc
  · exact h

theorem exec_inv {argsOf : Nat → List Stage} {bodyOf : Nat → Stage} {ctxs : Nat → Ctx} (sched : List Nat) :
    ∀ {st : St}, Inv argsOf bodyOf ctxs st → Inv argsOf bodyOf ctxs (exec true argsOf bodyOf ctxs sched st) := by
  induction sched with
  | nil => exact fun h => h
  | cons w rest ih => exact fun h => ih (step_inv h w)

/-- No computation is its own continuation applied to a value (inductive types are well founded). -/
theorem comp_child_ne (c : Comp Bytes) :
    (∀ n k, c = .getKey n k → ∀ v, k v ≠ c) ∧ (∀ i k, c = .getMatch i k → ∀ v, k v ≠ c) := by
  induction c with
  | ret v => exact ⟨fun _ _ h => (by cases h), fun _ _ h => (by cases h)⟩
  | panic m => exact ⟨fun _ _ h => (by cases h), fun _ _ h => (by cases h)⟩
  | getKey n k ih =>
    refine ⟨fun n' k' h v he => ?_, fun _ _ h => (by cases h)⟩
    cases h
    exact (ih v).1 n k he v rfl
  | getMatch i k ih =>
    refine ⟨fun _ _ h => (by cases h), fun i' k' h v he => ?_⟩
    cases h
    exact (ih v).2 i k he v rfl

/-- The pool never blocks: a worker that has not returned can always act, and its action moves it on. -/
theorem step_progress (install : Bool) (argsOf : Nat → List Stage) (bodyOf : Nat → Stage) (ctxs : Nat → Ctx) (w : Nat) (st : St)
    (h : ∀ r, st.pcs w ≠ .done r) :
    (step install argsOf bodyOf ctxs w st).pcs w ≠ st.pcs w := by
  unfold step
  split
  · next hpc =>
    split <;> simp [hpc]
  · next o hpc => cases install <;> simp [hpc]
  · next o c hpc =>
    simp only [setPc_self, hpc]
    cases c with
    | ret v => simp [resolve]
    | panic m => simp [resolve]
    | getKey n k =>
      simp only [resolve, ne_eq, Pc.run.injEq, true_and]
      exact (comp_child_ne _).1 n k rfl _
    | getMatch i k =>
      simp only [resolve]
      split
      · simp only [ne_eq, Pc.run.injEq, true_and]; exact (comp_child_ne _).2 i k rfl _
      · split
        · simp only [ne_eq, Pc.run.injEq, true_and]; exact (comp_child_ne _).2 i k rfl _
        · split
          · simp only [ne_eq, Pc.run.injEq, true_and]; exact (comp_child_ne _).2 i k rfl _
          · simp
  · next o r hpc => simp [hpc]
  · next r hpc => exact absurd hpc (h r)

/-! ### every worker finishes after its own number of actions, whatever the others do -/

theorem resolve_left (args : List Stage) (body : Stage) (s : Ctx) (o : Nat) (c : Comp Bytes) :
    (resolve args s o c).left args body s = stepsLeft args s c := by
  cases c with
  | ret v => rfl
  | panic m => rfl
  | getKey n k => rfl
  | getMatch i k =>
    simp only [resolve, stepsLeft]
    split
    · rfl
    · split
      · rfl
      · split <;> rfl

theorem step_other (install : Bool) (argsOf : Nat → List Stage) (bodyOf : Nat → Stage) (ctxs : Nat → Ctx) {v w : Nat} (st : St) (h : v ≠ w) :
    (step install argsOf bodyOf ctxs w st).pcs v = st.pcs v := by
  unfold step
  split
  · split <;> exact setPc_ne _ _ h
  · rw [setPc_ne _ _ h]; cases install <;> rfl
  · exact setPc_ne _ _ h
  · exact setPc_ne _ _ h
  · rfl

theorem step_left {argsOf : Nat → List Stage} {bodyOf : Nat → Stage} {ctxs : Nat → Ctx} {st : St} (h : Inv argsOf bodyOf ctxs st) (w : Nat) :
    ((step true argsOf bodyOf ctxs w st).pcs w).left (argsOf w) (bodyOf w) (ctxs w) = (st.pcs w).left (argsOf w) (bodyOf w) (ctxs w) - 1 := by
  unfold step
  split
  · next hpc => split <;> simp [hpc, Pc.left]
  · next o hpc => simp [hpc, Pc.left]
  · next o c hpc =>
    rw [setPc_self, hpc, (h.run w o c hpc).1]; simp only [resolve_left]; simp [Pc.left]
  · next o r hpc => simp [hpc, Pc.left]
  · next r hpc => simp [hpc, Pc.left]

theorem exec_left {argsOf : Nat → List Stage} {bodyOf : Nat → Stage} {ctxs : Nat → Ctx} (w : Nat) (sched : List Nat) :
    ∀ {st : St}, Inv argsOf bodyOf ctxs st →
      ((exec true argsOf bodyOf ctxs sched st).pcs w).left (argsOf w) (bodyOf w) (ctxs w) = (st.pcs w).left (argsOf w) (bodyOf w) (ctxs w) - sched.count w := by
  induction sched with
  | nil => intro st _; simp [exec]
  | cons x rest ih =>
    intro st h
    have := ih (step_inv h x)
    simp only [exec, List.foldl_cons] at this ⊢
    rw [this]
    by_cases hx : x = w
    · subst hx; rw [step_left h x]; simp; omega
    · rw [step_other _ _ _ _ _ (Ne.symm hx)]
      have : (x == w) = false := by simpa using hx
      simp [List.count_cons, this]

theorem left_zero {args : List Stage} {body : Stage} {s : Ctx} {pc : Pc} (h : pc.left args body s = 0) : ∃ r, pc = .done r := by
  cases pc <;> simp [Pc.left] at h
  exact ⟨_, rfl⟩


/-- A binder's `subContext{parent, vals: [a, b]}` is the lazy object with two constant argument stages. -/
theorem withSub_eq_withArgs {α : Type} (a b : Bytes) (c : Comp α) : c.withSub a b = withArgs [.ret a, .ret b] c := by
  induction c with
  | ret v => rfl
  | panic m => rfl
  | getKey n k ih => simp only [Comp.withSub, withArgs]; congr; funext x; exact ih x
  | getMatch i k ih =>
    simp only [Comp.withSub, withArgs]
    by_cases h0 : i < 0
    · simp only [h0, if_true]; congr; funext x; exact ih x
    · simp only [h0, if_false]
      by_cases h1 : i = 0
      · subst h1; simp [ih]
      · by_cases h2 : i = 1
        · subst h2; simp [ih]
        · have : i ≥ ([Comp.ret a, Comp.ret b] : List Stage).length := by simp; omega
          simp only [h1, h2, if_false, this, if_true]; exact ih _

end Rare.C10.ConcG
