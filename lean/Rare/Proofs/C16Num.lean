import Rare.Proofs.C16
/-!
C16, numbers: the converse of `isNumeric_shape` and the exact relation between `isNumeric` and the
RFC 8259 number grammar (`parseNumber`): `isNumeric s` iff `s` is a complete JSON number written with
digits and the decimal point only (no sign, no exponent).
-/
namespace Rare.C16

theorem isDig_cmp (c : UInt8) (h : isDig c = true) : ¬ (c < 0x30 ∨ c > 0x39) := by
  intro hc
  have := isDig_false_of c hc
  simp [h] at this

theorem numLoop2_digits : ∀ (r : Bytes) (i : Nat), r.all isDig = true → numLoop2 i r = some (i + r.length) := by
  intro r
  induction r with
  | nil => intro i _; simp [numLoop2]
  | cons c r ih =>
    intro i h
    simp at h
    unfold numLoop2
    rw [if_neg (isDig_cmp c h.1), ih (i + 1) (by simpa using h.2)]
    simp; omega

theorem numLoop1_int : ∀ (ip : Bytes) (i : Nat), ip.all isDig = true →
    numLoop1 i ip = some (i + ip.length, []) := by
  intro ip
  induction ip with
  | nil => intro i _; simp [numLoop1]
  | cons c r ih =>
    intro i h
    simp at h
    unfold numLoop1
    have hd : c ≠ 0x2e := isDig_ne c 0x2e h.1 (by decide)
    rw [if_neg hd, if_neg (isDig_cmp c h.1), ih (i + 1) (by simpa using h.2)]
    simp; omega

theorem numLoop1_frac : ∀ (ip : Bytes) (i : Nat) (fp : Bytes), ip.all isDig = true → 0 < i + ip.length →
    fp ≠ [] → numLoop1 i (ip ++ 0x2e :: fp) = some (i + ip.length + 1, fp) := by
  intro ip
  induction ip with
  | nil =>
    intro i fp _ hi hf
    simp at hi
    simp only [List.nil_append]
    unfold numLoop1
    simp [hf]; omega
  | cons c r ih =>
    intro i fp h hi hf
    simp at h
    simp only [List.cons_append]
    unfold numLoop1
    have hd : c ≠ 0x2e := isDig_ne c 0x2e h.1 (by decide)
    rw [if_neg hd, if_neg (isDig_cmp c h.1), ih (i + 1) fp (by simpa using h.2) (by omega) hf]
    simp; omega

/-- the leading-zero guard of `isNumeric` does not fire on `int` / `int.frac` without a superfluous
leading zero -/
theorem guard_shape (ip t : Bytes) (hne : ip ≠ []) (hall : ip.all isDig = true)
    (hnz : ¬ (1 < ip.length ∧ ip.head? = some 0x30)) (ht : t = [] ∨ ∃ fp, t = 0x2e :: fp) :
    ¬ (1 < (ip ++ t).length ∧ (ip ++ t).head? = some 0x30 ∧ (ip ++ t).tail.head? ≠ some 0x2e) := by
  rintro ⟨h1, h2, h3⟩
  match ip, hne with
  | [a], _ =>
    rcases ht with e | ⟨fp, e⟩
    · subst e; simp at h1
    · subst e; simp at h3
  | a :: b :: r, _ =>
    apply hnz
    simp at h2
    exact ⟨by simp, by simp [h2]⟩

/-- converse of `isNumeric_shape` -/
theorem isNumeric_of_shape (ip fp : Bytes) (hne : ip ≠ []) (hall : ip.all isDig = true)
    (hfall : fp.all isDig = true) (hnz : ¬ (1 < ip.length ∧ ip.head? = some 0x30)) :
    isNumeric ip = true ∧ (fp ≠ [] → isNumeric (ip ++ 0x2e :: fp) = true) := by
  have hpos : 0 < ip.length := List.length_pos_iff.mpr hne
  constructor
  · have hg := guard_shape ip [] hne hall hnz (Or.inl rfl)
    simp only [List.append_nil] at hg
    unfold isNumeric
    rw [if_neg hg, numLoop1_int ip 0 hall]
    simp only [numLoop2]
    simp; omega
  · intro hf
    have hg := guard_shape ip (0x2e :: fp) hne hall hnz (Or.inr ⟨fp, rfl⟩)
    unfold isNumeric
    rw [if_neg hg, numLoop1_frac ip 0 fp hall (by omega) hf]
    simp only [numLoop2_digits fp _ hfall]
    simp; omega

/-- **The exact shapes.** -/
theorem isNumeric_iff_shape (s : Bytes) :
    isNumeric s = true ↔
      ∃ ip fp, ip ≠ [] ∧ ip.all isDig = true ∧ fp.all isDig = true ∧ ¬ (1 < ip.length ∧ ip.head? = some 0x30) ∧
        ((s = ip ∧ fp = []) ∨ (s = ip ++ 0x2e :: fp ∧ fp ≠ [])) := by
  constructor
  · exact isNumeric_shape s
  · rintro ⟨ip, fp, hne, hall, hfall, hnz, h⟩
    have := isNumeric_of_shape ip fp hne hall hfall hnz
    rcases h with ⟨e, _⟩ | ⟨e, hf⟩
    · rw [e]; exact this.1
    · rw [e]; exact this.2 hf

/-- written with digits and the decimal point only -/
def plainChars (s : Bytes) : Bool := s.all fun c => isDig c || c == 0x2e

theorem span_loop_eq (p : UInt8 → Bool) : ∀ (l acc : Bytes),
    List.span.loop p l acc = (acc.reverse ++ l.takeWhile p, l.dropWhile p) := by
  intro l
  induction l with
  | nil => intro acc; simp [List.span.loop]
  | cons a l ih =>
    intro acc
    by_cases h : p a = true
    · simp [List.span.loop, h, ih]
    · simp [List.span.loop, h]

theorem span_eq_tw (p : UInt8 → Bool) (l : Bytes) : l.span p = (l.takeWhile p, l.dropWhile p) := by
  simp [List.span, span_loop_eq]

theorem takeWhile_all (p : UInt8 → Bool) : ∀ l : Bytes, (l.takeWhile p).all p = true := by
  intro l
  induction l with
  | nil => simp
  | cons a l ih =>
    by_cases h : p a = true
    · simp only [List.takeWhile_cons, h, if_true, List.all_cons, ih]; rfl
    · simp [h]

theorem span_fst_all (p : UInt8 → Bool) (l : Bytes) : (l.span p).1.all p = true := by
  rw [span_eq_tw]; exact takeWhile_all p l

theorem span_append (p : UInt8 → Bool) (l : Bytes) : (l.span p).1 ++ (l.span p).2 = l := by
  rw [span_eq_tw]
  exact List.takeWhile_append_dropWhile

theorem span_snd_head (p : UInt8 → Bool) (l : Bytes) (c : UInt8) (r : Bytes) (h : (l.span p).2 = c :: r) :
    p c = false := by
  rw [span_eq_tw] at h
  simp only at h
  have := List.head_dropWhile_not p (l := l) (by rw [h]; simp)
  simpa [h] using this

/-- a complete parse of a text made of digits and points forces the `int[.frac]` shape -/
theorem shape_of_plain_number (s : Bytes) (v : JVal) (hp : plainChars s = true) (h : parseNumber s = some (v, [])) :
    ∃ ip fp, ip ≠ [] ∧ ip.all isDig = true ∧ fp.all isDig = true ∧ ¬ (1 < ip.length ∧ ip.head? = some 0x30) ∧
      ((s = ip ∧ fp = []) ∨ (s = ip ++ 0x2e :: fp ∧ fp ≠ [])) := by
  have hneg : ¬ (s.head? = some 0x2d) := by
    intro e
    cases s with
    | nil => simp at e
    | cons a r =>
      simp at e; subst e
      simp [plainChars, isDig] at hp
  unfold parseNumber at h
  simp only [hneg, if_false] at h
  by_cases hip : (s.span isDig).1 = []
  · simp [hip] at h
  · rw [if_neg hip] at h
    by_cases hnz : 1 < (s.span isDig).1.length ∧ (s.span isDig).1.head? = some 0x30
    · rw [if_pos hnz] at h; cases h
    · rw [if_neg hnz] at h
      have hs := span_append isDig s
      have hall := span_fst_all isDig s
      have hprest : plainChars (s.span isDig).2 = true := by
        have : plainChars ((s.span isDig).1 ++ (s.span isDig).2) = true := by rw [hs]; exact hp
        simp only [plainChars, List.all_append, Bool.and_eq_true] at this
        exact this.2
      -- a plain text cannot start an exponent, so `parseExp` returns its argument
      have hexp : ∀ b : Bytes, plainChars b = true → parseExp b = some (0, b) := by
        intro b hb
        cases b with
        | nil => simp [parseExp]
        | cons c r =>
          have hc : isDig c = true ∨ c = 0x2e := by
            simp only [plainChars, List.all_cons, Bool.and_eq_true, Bool.or_eq_true, beq_iff_eq] at hb
            exact hb.1
          have h1 : c ≠ 0x65 := by rcases hc with h | h; exact isDig_ne c _ h (by decide); subst h; decide
          have h2 : c ≠ 0x45 := by rcases hc with h | h; exact isDig_ne c _ h (by decide); subst h; decide
          simp [parseExp, h1, h2]
      cases hrest : (s.span isDig).2 with
      | nil =>
        rw [hrest] at h
        refine ⟨(s.span isDig).1, [], hip, hall, by simp, hnz, Or.inl ⟨?_, rfl⟩⟩
        have := hs; rw [hrest] at this; simpa using this.symm
      | cons c r =>
        rw [hrest] at h hprest
        have hcd : isDig c = false := span_snd_head isDig s c r hrest
        have hc : c = 0x2e := by
          simp only [plainChars, List.all_cons, Bool.and_eq_true, Bool.or_eq_true, beq_iff_eq] at hprest
          rcases hprest.1 with h' | h'
          · simp [hcd] at h'
          · exact h'
        subst hc
        simp only [parseFrac, if_true] at h
        by_cases hfp : (r.span isDig).1 = []
        · simp [hfp] at h
        · rw [if_neg hfp] at h
          have hpr2 : plainChars (r.span isDig).2 = true := by
            have hr := span_append isDig r
            have : plainChars ((r.span isDig).1 ++ (r.span isDig).2) = true := by
              rw [hr]
              simp only [plainChars, List.all_cons, Bool.and_eq_true] at hprest
              exact hprest.2
            simp only [plainChars, List.all_append, Bool.and_eq_true] at this
            exact this.2
          simp only [hexp _ hpr2] at h
          simp only [Option.some.injEq, Prod.mk.injEq] at h
          refine ⟨(s.span isDig).1, (r.span isDig).1, hip, hall, span_fst_all isDig r, hnz, Or.inr ⟨?_, hfp⟩⟩
          have hr := span_append isDig r
          rw [h.2] at hr
          simp only [List.append_nil] at hr
          rw [hr, ← hrest, hs]

/-- **`isNumeric` = the RFC 8259 number grammar without sign and exponent.**  A capture is written as a
bare number exactly when it is, as a whole, a JSON number (RFC 8259 §6) that is written with digits and
the decimal point only. -/
theorem isNumeric_iff_plain_number (s : Bytes) :
    isNumeric s = true ↔ (∃ v, parseNumber s = some (v, [])) ∧ plainChars s = true := by
  constructor
  · intro h
    obtain ⟨m, e, hp, _⟩ := isNumeric_parse s [] h endsNumber_nil
    refine ⟨⟨_, by simpa using hp⟩, ?_⟩
    obtain ⟨ip, fp, _, hall, hfall, _, hc⟩ := isNumeric_shape s h
    have hi : plainChars ip = true := by
      simp only [plainChars, List.all_eq_true, Bool.or_eq_true] at hall ⊢
      intro x hx; exact Or.inl (hall x hx)
    have hf : plainChars fp = true := by
      simp only [plainChars, List.all_eq_true, Bool.or_eq_true] at hfall ⊢
      intro x hx; exact Or.inl (hfall x hx)
    rcases hc with ⟨e1, _⟩ | ⟨e1, _⟩
    · rw [e1]; exact hi
    · rw [e1]
      simp only [plainChars, List.all_append, List.all_cons, Bool.and_eq_true] at hi hf ⊢
      exact ⟨hi, by decide, hf⟩
  · rintro ⟨⟨v, hv⟩, hp⟩
    exact (isNumeric_iff_shape s).mpr (shape_of_plain_number s v hp hv)

end Rare.C16
