import Rare.Proofs.C20Close2
import Rare.Proofs.C20TrimAll
import Rare.Proofs.C20Items
/-! C20 round 4: glue between the invariant `Inv2` and the property theorems of `Props/C20`
(the writer's `maxLine` / `cursor` as functions of the history, histories with one more update,
what happens to an update that goes to a line that has scrolled off). -/
namespace Rare.C20

theorem runHistory_maxLine (c : Cfg) : ∀ (h : List (Int × Bytes)) (w : TermWriter),
    (w.runHistory c h).1.maxLine = h.foldl (fun m u => if u.1 > m then u.1 else m) w.maxLine := by
  intro h
  induction h with
  | nil => intro w; rfl
  | cons u rest ih =>
    intro w
    obtain ⟨l, t⟩ := u
    simp only [TermWriter.runHistory, List.foldl_cons, ih, writeForLine_maxLine]

theorem runHistory_new_maxLine (c : Cfg) (h : List (Int × Bytes)) :
    (TermWriter.new.runHistory c h).1.maxLine = maxLineOf h := runHistory_maxLine c h TermWriter.new

theorem writeForLine_cursor (c : Cfg) (w : TermWriter) (l : Int) (txt : Bytes) :
    (w.writeForLine c l txt).1.cursor = l := by
  simp only [TermWriter.writeForLine, TermWriter.goTo]

theorem runHistory_append (c : Cfg) : ∀ (a b : List (Int × Bytes)) (w : TermWriter),
    w.runHistory c (a ++ b) =
      (((w.runHistory c a).1.runHistory c b).1, (w.runHistory c a).2 ++ ((w.runHistory c a).1.runHistory c b).2) := by
  intro a
  induction a with
  | nil => intro b w; simp [TermWriter.runHistory]
  | cons u rest ih =>
    intro b w
    obtain ⟨l, t⟩ := u
    simp only [List.cons_append, TermWriter.runHistory, ih, List.append_assoc]

theorem runHistory_one (c : Cfg) (w : TermWriter) (l : Int) (t : Bytes) :
    w.runHistory c [(l, t)] = ((w.writeForLine c l t).1, (w.writeForLine c l t).2) := by
  simp [TermWriter.runHistory]

/-- the writer's cursor after a non-empty history is the line written last -/
theorem runHistory_cursor (c : Cfg) (h : List (Int × Bytes)) (u : Int × Bytes) (w : TermWriter) :
    (w.runHistory c (h ++ [u])).1.cursor = u.1 := by
  rw [runHistory_append]
  obtain ⟨l, t⟩ := u
  simp only [runHistory_one, writeForLine_cursor]

theorem encodeUtf8_append (a b : List Rune) : encodeUtf8 (a ++ b) = encodeUtf8 a ++ encodeUtf8 b := by
  simp [encodeUtf8]

theorem castHist_append (a b : List (Nat × Bytes)) : castHist (a ++ b) = castHist a ++ castHist b := by
  simp [castHist]

/-- An update that goes to a line that has already scrolled off the top: cursor-up stops at the top
row, so the text lands on row 0 (which shows another line), and from then on the writer's belief
about the cursor row is wrong. -/
theorem write_scrolled_off {W H r0 : Nat} {trim : Bool} {t0 : Scr} {hist : List (Nat × Bytes)} {w : TermWriter} {t : Scr}
    (inv : Inv2 W H r0 trim t0 hist w t) (l : Nat) (txt : Bytes)
    (hoff : r0 + l < scrolled H r0 w.maxLine) (htxt : TextSafe t0.cw W trim txt) :
    Clean (w.writeForLine (cfg W trim) l txt).2 ∧
    (t.feedBytes (w.writeForLine (cfg W trim) l txt).2).row = 0 ∧
    (t.feedBytes (w.writeForLine (cfg W trim) l txt).2).rows 0 = shown W trim txt ∧
    (∀ j, j ≠ 0 → (t.feedBytes (w.writeForLine (cfg W trim) l txt).2).rows j = t.rows j) ∧
    (w.writeForLine (cfg W trim) l txt).1.cursor = l ∧
    (w.writeForLine (cfg W trim) l txt).1.maxLine = w.maxLine := by
  obtain ⟨hclean, hfeed, hw⟩ := write_feed_scr W trim w t l txt inv.ps inv.width inv.cur0
    (by rw [inv.height]; exact inv.rowlt) inv.clear inv.hideC inv.vis (by rw [inv.cw]; exact htxt)
  have hrow := inv.row
  have hrl := inv.rowlt
  have hc0 := inv.cur0
  have hcl := inv.curLe
  have hH := inv.height
  unfold scrolled at hoff hrow
  have hd : l - w.cursor.toNat = 0 := by omega
  have hk : t.row + (l - w.cursor.toNat) - (t.height - 1) = 0 := by rw [hH]; omega
  have hr' : t.row + (l - w.cursor.toNat) - (t.row + (l - w.cursor.toNat) - (t.height - 1)) - (w.cursor.toNat - l) = 0 := by
    rw [hH]; omega
  rw [hfeed, hw]
  simp only [hr']
  simp only [hk, shiftN_zero]
  refine ⟨hclean, trivial, by simp [setRow], ?_, trivial, ?_⟩
  · intro j hj; simp [setRow, hj]
  · have : ¬ (l : Int) > w.maxLine := by omega
    simp [this]

theorem foldl_max_mem (h : List (Nat × Bytes)) : ∀ m0 : Int,
    (castHist h).foldl (fun m u => if u.1 > m then u.1 else m) m0 = m0 ∨
      ∃ u ∈ h, (u.1 : Int) = (castHist h).foldl (fun m u => if u.1 > m then u.1 else m) m0 := by
  induction h with
  | nil => intro m0; exact Or.inl rfl
  | cons u rest ih =>
    intro m0
    simp only [castHist, List.map_cons, List.foldl_cons]
    rcases ih (if (u.1 : Int) > m0 then (u.1 : Int) else m0) with h1 | ⟨v, hv, hve⟩
    · simp only [castHist] at h1
      rw [h1]
      by_cases hgt : (u.1 : Int) > m0
      · right; exact ⟨u, by simp, by simp [hgt]⟩
      · left; simp [hgt]
    · right; exact ⟨v, by simp [hv], by simpa [castHist] using hve⟩

/-- the largest line of a history is 0 or one of its lines -/
theorem maxLineOf_mem (h : List (Nat × Bytes)) :
    maxLineOf (castHist h) = 0 ∨ ∃ u ∈ h, (u.1 : Int) = maxLineOf (castHist h) := foldl_max_mem h 0

theorem maxLineOf_le (h : List (Nat × Bytes)) (B : Nat) (hB : ∀ u ∈ h, u.1 ≤ B) : (maxLineOf (castHist h)).toNat ≤ B := by
  rcases maxLineOf_mem h with h0 | ⟨u, hu, hue⟩
  · rw [h0]; simp
  · have := hB u hu; omega

/-! ### concrete texts for the non-vacuity examples (cell-width table `eaWidth`) -/

/-- ESC[31m é z ESC[0m – colour codes and a multi-byte rune of width one -/
def exRed : Bytes := [0x1b, 0x5b, 0x33, 0x31, 0x6d, 0xc3, 0xa9, 0x7a, 0x1b, 0x5b, 0x30, 0x6d]
/-- "ab" followed by an unterminated colour sequence ESC[3 -/
def exTail : Bytes := [97, 98, 0x1b, 0x5b, 0x33]
/-- an invalid byte (decoded as U+FFFD) and "a" -/
def exBad : Bytes := [0xff, 97]

theorem exLong_safe (trim : Bool) (h : trim = true) : TextSafe eaWidth 4 trim exLong :=
  ⟨[.ch 97, .ch 98, .ch 99, .ch 100, .ch 101, .ch 102, .ch 103], [],
   by intro t ht; simp at ht; rcases ht with rfl | rfl | rfl | rfl | rfl | rfl | rfl <;> (show _ ∧ _ ∧ _; decide),
   Or.inl rfl, by decide, by intro h'; rw [h] at h'; cases h'⟩

theorem exShort_safe (trim : Bool) : TextSafe eaWidth 4 trim exShort :=
  ⟨[.ch 120, .ch 121], [], by intro t ht; simp at ht; rcases ht with rfl | rfl <;> (show _ ∧ _ ∧ _; decide),
   Or.inl rfl, by decide, by intro _; exact ⟨by decide, by unfold ValidUtf8; decide⟩⟩

theorem exRed_safe (trim : Bool) : TextSafe eaWidth 4 trim exRed :=
  ⟨[.sgr [91, 51, 49], .ch 233, .ch 122, .sgr [91, 48]], [],
   by
     intro t ht; simp at ht
     rcases ht with rfl | rfl | rfl | rfl
     · exact ⟨[51, 49], rfl, by decide⟩
     · show _ ∧ _ ∧ _; decide
     · show _ ∧ _ ∧ _; decide
     · exact ⟨[48], rfl, by decide⟩,
   Or.inl rfl, by decide, by intro _; exact ⟨by decide, by unfold ValidUtf8; decide⟩⟩

theorem exTail_safe (trim : Bool) : TextSafe eaWidth 4 trim exTail :=
  ⟨[.ch 97, .ch 98], [27, 91, 51], by intro t ht; simp at ht; rcases ht with rfl | rfl <;> (show _ ∧ _ ∧ _; decide),
   Or.inr (Or.inr ⟨[51], rfl, by decide⟩), by decide, by intro _; exact ⟨by decide, by unfold ValidUtf8; decide⟩⟩

/-- invalid UTF-8 is in the class when trimming is on (the writer re-encodes it as U+FFFD) -/
theorem exBad_safe : TextSafe eaWidth 4 true exBad :=
  ⟨[.ch 0xFFFD, .ch 97], [], by intro t ht; simp at ht; rcases ht with rfl | rfl <;> (show _ ∧ _ ∧ _; decide),
   Or.inl rfl, by decide, by intro h; cases h⟩

/-- a history that scrolls a 4-row screen (cursor on row 1): lines 0…4, line 2 rewritten after the scroll -/
def exScroll : List (Nat × Bytes) :=
  [(0, exLong), (1, exRed), (2, exLong), (4, exTail), (2, exShort), (3, exBad)]

/-! ### iteration (for the loops of the translated `goTo`) -/

/-- `f` applied `n` times, innermost first -/
def iter {α : Type} (f : α → α) : Nat → α → α
  | 0, a => a
  | n + 1, a => iter f n (f a)

theorem iter_add (d : Int) : ∀ (k : Nat) (i : Int), iter (fun i => i + d) k i = i + d * k := by
  intro k
  induction k with
  | zero => intro i; simp [iter]
  | succ k ih => intro i; simp only [iter, ih]; rw [Int.natCast_succ, Int.mul_add]; omega

end Rare.C20
