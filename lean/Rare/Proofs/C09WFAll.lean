import Rare.Proofs.C09WF
/-! C09: with builders that never report an error, every compile error is a syntax error – so `errs = []` iff well formed. -/
namespace Rare.C09
open Rare Rare.Expr

/-- no builder of the registry ever returns an error value (e.g. the probe registry of pure functions) -/
def NoBuilderErr (reg : Registry) : Prop := ∀ name f args b, reg name = some f → f args = .ok b → b.err = none

def AllSyn (errs : List CErr) : Prop := ∀ e ∈ errs, syntactic e.kind = true

theorem allSyn_append {a b : List CErr} : AllSyn (a ++ b) ↔ AllSyn a ∧ AllSyn b := by
  simp only [AllSyn, List.mem_append]
  exact ⟨fun h => ⟨fun e he => h e (Or.inl he), fun e he => h e (Or.inr he)⟩,
    fun h e he => he.elim (h.1 e) (h.2 e)⟩

theorem allSyn_shift (l : List CErr) (k : Nat) (h : AllSyn l) :
    AllSyn (l.map fun e => { e with index := e.index + k }) := by
  intro e he
  obtain ⟨e', he', rfl⟩ := List.mem_map.mp he
  exact h e' he'

theorem allSyn_single (e : CErr) (h : syntactic e.kind = true) : AllSyn [e] := by
  intro x hx; have : x = e := by simpa using hx
  subst this; exact h

section
variable (g : Nat) (reg : Registry) (opt : Bool) (hreg : NoBuilderErr reg)

omit hreg in
theorem args_allSyn (fargs : List (List Char))
    (hA : ∀ a ∈ fargs, ∀ s e, compileF g reg opt a = .ok (s, e) → AllSyn e) :
    ∀ cargs aerrs, compileArgs g reg opt fargs = .ok (cargs, aerrs) → AllSyn aerrs := by
  induction fargs with
  | nil => intro cargs aerrs h; rw [compileArgs] at h; cases h; intro e he; cases he
  | cons a r ih =>
    intro cargs aerrs h
    rw [compileArgs] at h
    cases h1 : compileF g reg opt a with
    | error m => rw [h1] at h; cases h
    | ok p =>
      obtain ⟨s, e⟩ := p
      rw [h1] at h
      cases h2 : compileArgs g reg opt r with
      | error m => rw [h2] at h; cases h
      | ok q =>
        obtain ⟨ss, es⟩ := q
        rw [h2] at h
        cases h
        exact allSyn_append.mpr ⟨hA a (by simp) s e h1, ih (fun b hb => hA b (by simp [hb])) ss es h2⟩

include hreg in
theorem close_allSyn (all : List Char) (i : Nat) (st st' : CompSt)
    (hA : ∀ a ∈ splitArgs st.sb, ∀ s e, compileF g reg opt a = .ok (s, e) → AllSyn e)
    (h : closeStatement g reg opt all i st = .ok st') (h0 : AllSyn st.errs) : AllSyn st'.errs := by
  rw [closeStatement] at h
  match hs : splitArgs st.sb with
  | [] => simp only [hs] at h; cases h; exact allSyn_append.mpr ⟨h0, allSyn_single _ rfl⟩
  | [a] => simp only [hs] at h; cases h; exact h0
  | name :: b :: r =>
    simp only [hs] at h
    cases hr : reg name with
    | none => simp only [hr] at h; cases h; exact allSyn_append.mpr ⟨h0, allSyn_single _ rfl⟩
    | some f =>
      simp only [hr] at h
      cases hc : compileArgs g reg opt (b :: r) with
      | error m => simp only [hc] at h; cases h
      | ok p =>
        obtain ⟨cargs, aerrs⟩ := p
        simp only [hc] at h
        cases hf : f cargs with
        | error m => simp only [hf] at h; cases h
        | ok bt =>
          simp only [hf] at h
          cases h
          have hargs := args_allSyn g reg opt (b :: r) (fun a ha => hA a (by rw [hs]; simp at ha ⊢; exact Or.inr ha)) cargs aerrs hc
          have hne := hreg name f cargs bt hr hf
          simp only [hne]
          exact allSyn_append.mpr ⟨h0, allSyn_shift _ _ hargs⟩

include hreg in
theorem loop_allSyn (N : Nat) (all : List Char)
    (hA : ∀ a : List Char, a.length < N → ∀ s e, compileF g reg opt a = .ok (s, e) → AllSyn e) :
    ∀ (m : Nat) (rest : List Char) (i : Nat) (st st' : CompSt), rest.length ≤ m →
      st.sb.length + rest.length ≤ N →
      compileLoop g reg opt all rest i st = .ok st' → AllSyn st.errs → AllSyn st'.errs := by
  intro m
  induction m with
  | zero =>
    intro rest i st st' hm _ h h0
    have : rest = [] := List.length_eq_zero_iff.mp (by omega)
    subst this; rw [loop_nil] at h; cases h; exact h0
  | succ m ih =>
    intro rest i st st' hm hN h h0
    cases rest with
    | nil => rw [loop_nil] at h; cases h; exact h0
    | cons r rest =>
      simp only [List.length_cons] at hm hN
      by_cases h1 : r = '\\'
      · subst h1
        cases rest with
        | nil => rw [loop_esc_last] at h; cases h; exact h0
        | cons e rest =>
          simp only [List.length_cons] at hm hN
          rw [loop_esc] at h
          exact ih _ _ _ _ (by omega) (by simp; omega) h h0
      · by_cases h2 : r = '{'
        · subst h2
          by_cases hz : st.inStatement = 0
          · rw [loop_open0 _ _ _ _ _ _ _ hz] at h
            exact ih _ _ _ _ (by omega) (by simp; omega) h h0
          · rw [loop_openN _ _ _ _ _ _ _ hz] at h
            exact ih _ _ _ _ (by omega) (by simp; omega) h h0
        · by_cases h3 : r = '}' ∧ st.inStatement ≠ 0
          · obtain ⟨h3, h4⟩ := h3
            subst h3
            by_cases h5 : st.inStatement = 1
            · rw [loop_close1 _ _ _ _ _ _ _ h5] at h
              cases hc : closeStatement g reg opt all i st with
              | error e => rw [hc] at h; cases h
              | ok st2 =>
                rw [hc] at h
                have hcl := close_allSyn g reg opt hreg all i st st2
                  (fun a ha => hA a (by have := splitArgs_length ha; omega)) hc h0
                exact ih _ _ _ _ (by omega) (by simp; omega) h hcl
            · rw [loop_closeN _ _ _ _ _ _ _ (by omega)] at h
              exact ih _ _ _ _ (by omega) (by simp; omega) h h0
          · have h3' : r ≠ '}' ∨ st.inStatement = 0 := by
              by_cases hr : r = '}'
              · right; exact Classical.byContradiction fun hc => h3 ⟨hr, hc⟩
              · left; exact hr
            rw [loop_plain _ _ _ _ _ _ _ _ h1 h2 h3'] at h
            exact ih _ _ _ _ (by omega) (by simp; omega) h h0

end

theorem compileF_allSyn (reg : Registry) (opt : Bool) (hreg : NoBuilderErr reg) :
    ∀ (L : Nat) (t : List Char), t.length < L → ∀ f, t.length < f → ∀ s e,
      compileF f reg opt t = .ok (s, e) → AllSyn e := by
  intro L
  induction L with
  | zero => intro t h; omega
  | succ L ih =>
    intro t hL f hf s e h
    obtain ⟨g, rfl⟩ : ∃ g, f = g + 1 := ⟨f - 1, by omega⟩
    rw [compileF_eq] at h
    cases hl : compileLoop g reg opt t t 0 ⟨[], [], [], 0, 0⟩ with
    | error m => rw [hl] at h; cases h
    | ok st =>
      rw [hl] at h
      have he := finishC_errs h
      have hw := loop_allSyn g reg opt hreg t.length t
        (fun a ha s' e' h' => ih a (by omega) g (by omega) s' e' h') t.length t 0 _ st (Nat.le_refl _) (by simp) hl
        (fun e he => by cases he)
      rw [he]
      split
      · exact allSyn_append.mpr ⟨hw, allSyn_single _ rfl⟩
      · exact hw

theorem errs_nil_iff (reg : Registry) (opt : Bool) (hreg : NoBuilderErr reg) (t : List Char) (s : List Stage) (e : List CErr)
    (h : compile reg opt t = .ok (s, e)) : e = [] ↔ WellFormed splitArgs (fun n => (reg n).isSome) t := by
  have h1 : SynFree e ↔ WellFormed splitArgs (fun n => (reg n).isSome) t :=
    compileF_wf reg opt (t.length + 1) t (by omega) _ (by omega) s e h
  have h2 := compileF_allSyn reg opt hreg (t.length + 1) t (by omega) _ (by omega) s e h
  rw [← h1]
  constructor
  · rintro rfl; exact synFree_nil
  · intro hs
    cases e with
    | nil => rfl
    | cons x r =>
      have a := hs x (by simp)
      have b := h2 x (by simp)
      rw [a] at b; cases b

end Rare.C09
