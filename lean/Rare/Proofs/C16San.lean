import Rare.Proofs.C16Utf8
import Rare.Proofs.C16Bool
/-! C16: U+FFFD substitution (`sanitize`) commutes with everything the JSON writer does, and gives
well-formed UTF-8. -/
namespace Rare.C16

/-- the machine's invariant: `pend` is what has been read of the current sequence, in state `st` -/
structure PendOk (st : U8) (pend : Bytes) : Prop where
  run : u8Run .s0 pend = some st
  s0 : st = .s0 → pend = []
  high : ∀ x ∈ pend, ¬ x < 0x80

theorem PendOk.init : PendOk .s0 [] := ⟨rfl, fun _ => rfl, by simp⟩

theorem PendOk.ne_nil {st : U8} {pend : Bytes} (h : PendOk st pend) (hs : st ≠ .s0) : pend ≠ [] := by
  intro e; subst e
  have := h.run; simp [u8Run] at this; exact hs this.symm

theorem u8Run_snoc (a : Bytes) (c : UInt8) (st : U8) (h : u8Run .s0 a = some st) :
    u8Run .s0 (a ++ [c]) = u8Step st c := by
  rw [u8Run_append, h]
  simp only [Option.bind, u8Run]
  cases u8Step st c <;> rfl

theorem PendOk.step {st st' : U8} {pend : Bytes} {c : UInt8} (h : PendOk st pend)
    (hs : u8Step st c = some st') (hn : st' ≠ .s0) : PendOk st' (pend ++ [c]) := by
  refine ⟨by rw [u8Run_snoc pend c st h.run, hs], fun e => absurd e hn, ?_⟩
  intro x hx
  rcases List.mem_append.mp hx with hx | hx
  · exact h.high x hx
  · simp at hx; subst hx
    intro hc
    exact hn (u8Step_ascii st st' x hc hs).2

theorem PendOk.fresh {st' : U8} {c : UInt8} (hs : u8Step .s0 c = some st') (hn : st' ≠ .s0) :
    PendOk st' [c] := by
  simpa using PendOk.init.step hs hn

theorem u8Step_ascii_none (st : U8) (c : UInt8) (hc : c < 0x80) (hs : st ≠ .s0) : u8Step st c = none := by
  cases h : u8Step st c with
  | none => rfl
  | some st' => exact absurd (u8Step_ascii st st' c hc h).1 hs

theorem u8Step_s0_ascii (c : UInt8) (hc : c < 0x80) : u8Step .s0 c = some .s0 := by
  simp [u8Step, hc]

/-! ### an ASCII byte ends whatever was pending -/

theorem san_ascii (st : U8) (pend : Bytes) (c : UInt8) (r : Bytes) (h : PendOk st pend) (hc : c < 0x80) :
    san st pend (c :: r) = fffds pend ++ c :: san .s0 [] r := by
  by_cases hs : st = .s0
  · subst hs
    have := h.s0 rfl; subst this
    simp [san, u8Step_s0_ascii c hc, fffds]
  · have hp := h.ne_nil hs
    simp [san, u8Step_ascii_none st c hc hs, hp, u8Step_s0_ascii c hc]

theorem san_nil (st : U8) (pend : Bytes) : san st pend [] = fffds pend := by simp [san]

/-- the machine over `a ++ c :: b` with `c` ASCII splits at `c` -/
theorem san_split : ∀ (a : Bytes) (st : U8) (pend : Bytes) (c : UInt8) (b : Bytes), PendOk st pend → c < 0x80 →
    san st pend (a ++ c :: b) = san st pend a ++ c :: san .s0 [] b := by
  intro a
  induction a with
  | nil => intro st pend c b h hc; simp [san_ascii st pend c b h hc, san_nil]
  | cons x a ih =>
    intro st pend c b h hc
    simp only [List.cons_append, san]
    cases hx : u8Step st x with
    | some st' =>
      simp only []
      by_cases hs : st' = .s0
      · simp only [hs, if_true]; rw [ih .s0 [] c b .init hc]; simp
      · simp only [hs, if_false]; exact ih st' _ c b (h.step hx hs) hc
    | none =>
      simp only []
      by_cases hp : pend = []
      · simp only [hp, if_true]; rw [ih .s0 [] c b .init hc]; simp
      · simp only [hp, if_false]
        cases hy : u8Step .s0 x with
        | some st' =>
          simp only []
          by_cases hs : st' = .s0
          · simp only [hs, if_true]; rw [ih .s0 [] c b .init hc]; simp
          · simp only [hs, if_false]; rw [ih st' _ c b (.fresh hy hs) hc]; simp
        | none => simp only []; rw [ih .s0 [] c b .init hc]; simp

theorem sanitize_split (a : Bytes) (c : UInt8) (b : Bytes) (hc : c < 0x80) :
    sanitize (a ++ c :: b) = sanitize a ++ c :: sanitize b := san_split a .s0 [] c b .init hc

theorem sanitize_cons_ascii (c : UInt8) (b : Bytes) (hc : c < 0x80) : sanitize (c :: b) = c :: sanitize b := by
  simpa [sanitize, san_nil, fffds] using sanitize_split [] c b hc

theorem sanitize_nil : sanitize [] = [] := by simp [sanitize, san, fffds]

theorem sanitize_ascii : ∀ (a : Bytes), IsAscii a → sanitize a = a := by
  intro a
  induction a with
  | nil => intro _; exact sanitize_nil
  | cons c a ih =>
    intro h
    rw [sanitize_cons_ascii c a (h c (by simp)), ih (fun d hd => h d (by simp [hd]))]

/-- an ASCII word `w` in front: `sanitize (w ++ b) = w ++ sanitize b` -/
theorem sanitize_ascii_append : ∀ (w b : Bytes), IsAscii w → sanitize (w ++ b) = w ++ sanitize b := by
  intro w
  induction w with
  | nil => intro b _; rfl
  | cons c w ih =>
    intro b h
    rw [List.cons_append, sanitize_cons_ascii c _ (h c (by simp)), ih b (fun d hd => h d (by simp [hd]))]
    rfl

/-! ### the result is well-formed -/

theorem valid_fffds (pend : Bytes) : validUtf8 (fffds pend) = true := by
  induction pend with
  | nil => decide
  | cons x r ih => simp only [fffds, List.flatMap_cons] at ih ⊢; exact valid_append _ _ (by decide) ih

theorem valid_san : ∀ (rest : Bytes) (st : U8) (pend : Bytes), PendOk st pend → validUtf8 (san st pend rest) = true := by
  intro rest
  induction rest with
  | nil => intro st pend _; rw [san_nil]; exact valid_fffds pend
  | cons x a ih =>
    intro st pend h
    simp only [san]
    cases hx : u8Step st x with
    | some st' =>
      simp only []
      by_cases hs : st' = .s0
      · simp only [hs, if_true]
        have : validUtf8 (pend ++ [x]) = true := by
          simp only [validUtf8, beq_iff_eq]; rw [u8Run_snoc pend x st h.run, hx, hs]
        have := valid_append _ _ this (ih .s0 [] .init)
        simpa using this
      · simp only [hs, if_false]; exact ih st' _ (h.step hx hs)
    | none =>
      simp only []
      apply valid_append _ _ (valid_fffds pend)
      by_cases hp : pend = []
      · simp only [hp, if_true]; exact valid_append _ _ (by decide) (ih .s0 [] .init)
      · simp only [hp, if_false]
        cases hy : u8Step .s0 x with
        | some st' =>
          simp only []
          by_cases hs : st' = .s0
          · simp only [hs, if_true]
            have : validUtf8 [x] = true := by simp [validUtf8, u8Run, hy, hs]
            exact valid_append [x] _ this (ih .s0 [] .init)
          · simp only [hs, if_false]; exact ih st' _ (.fresh hy hs)
        | none => simp only []; exact valid_append _ _ (by decide) (ih .s0 [] .init)

theorem valid_sanitize (b : Bytes) : validUtf8 (sanitize b) = true := valid_san b .s0 [] .init

/-- well-formed text is left alone -/
theorem san_valid_id : ∀ (rest : Bytes) (st : U8) (pend : Bytes), PendOk st pend → u8Run st rest = some .s0 →
    san st pend rest = pend ++ rest := by
  intro rest
  induction rest with
  | nil =>
    intro st pend hp h
    simp [u8Run] at h
    have := hp.s0 h; subst this
    simp [san, fffds]
  | cons x a ih =>
    intro st pend hp h
    simp only [u8Run] at h
    cases hx : u8Step st x with
    | none => simp [hx] at h
    | some st' =>
      simp only [hx] at h
      simp only [san, hx]
      by_cases hs : st' = .s0
      · simp only [hs, if_true]; rw [ih .s0 [] .init (hs ▸ h)]; simp
      · simp only [hs, if_false]; rw [ih st' _ (hp.step hx hs) h]; simp

/-! ### substitution commutes with `escape` -/

theorem esc1_high (x : UInt8) (h : ¬ x < 0x80) : esc1 x = [x] := by
  unfold esc1
  by_cases hl : lookup x ≠ []
  · exact absurd (lookup_ascii x hl).1 h
  · simp [hl]

theorem escape_high (l : Bytes) (h : ∀ x ∈ l, ¬ x < 0x80) : escape l = l := by
  induction l with
  | nil => exact escape_nil
  | cons x l ih =>
    rw [escape_cons, esc1_high x (h x (by simp)), ih (fun y hy => h y (by simp [hy]))]; rfl

theorem fffds_high (pend : Bytes) : ∀ x ∈ fffds pend, ¬ x < 0x80 := by
  intro x hx
  simp only [fffds, List.mem_flatMap] at hx
  obtain ⟨_, _, hx⟩ := hx
  simp [fffd] at hx
  rcases hx with h | h | h <;> subst h <;> decide

theorem escape_fffds (pend : Bytes) : escape (fffds pend) = fffds pend := escape_high _ (fffds_high pend)

theorem san_s0_ascii_word : ∀ (w b : Bytes), IsAscii w → san .s0 [] (w ++ b) = w ++ san .s0 [] b :=
  sanitize_ascii_append

theorem san_ascii_word (st : U8) (pend w b : Bytes) (h : PendOk st pend) (hw : IsAscii w) (hne : w ≠ []) :
    san st pend (w ++ b) = fffds pend ++ w ++ san .s0 [] b := by
  cases w with
  | nil => exact absurd rfl hne
  | cons c w =>
    rw [List.cons_append, san_ascii st pend c _ h (hw c (by simp)),
      san_s0_ascii_word w b (fun d hd => hw d (by simp [hd]))]
    simp

theorem san_escape : ∀ (s : Bytes) (st : U8) (pend : Bytes), PendOk st pend →
    san st pend (escape s) = escape (san st pend s) := by
  intro s
  induction s with
  | nil => intro st pend _; rw [escape_nil, san_nil, escape_fffds]
  | cons c s ih =>
    intro st pend h
    rw [escape_cons]
    by_cases hl : lookup c ≠ []
    · obtain ⟨hc, ha⟩ := lookup_ascii c hl
      have e1 : esc1 c = lookup c := by simp [esc1, hl]
      rw [e1, san_ascii_word st pend (lookup c) _ h ha hl, ih .s0 [] .init, san_ascii st pend c s h hc,
        escape_append, escape_fffds, escape_cons, e1]
      simp
    · have hl' : lookup c = [] := by simpa using hl
      have e1 : esc1 c = [c] := by simp [esc1, hl']
      have ec : ∀ t, escape (c :: t) = c :: escape t := by intro t; rw [escape_cons, e1]; rfl
      rw [e1]
      simp only [List.cons_append, List.nil_append, san]
      cases hx : u8Step st c with
      | some st' =>
        simp only []
        by_cases hs : st' = .s0
        · simp only [hs, if_true]
          rw [ih .s0 [] .init, escape_append, escape_high pend h.high, ec]
        · simp only [hs, if_false]; exact ih st' _ (h.step hx hs)
      | none =>
        simp only []
        rw [escape_append, escape_fffds]
        congr 1
        by_cases hp : pend = []
        · simp only [hp, if_true]
          rw [ih .s0 [] .init, escape_append]
          congr 1
        · simp only [hp, if_false]
          cases hy : u8Step .s0 c with
          | some st' =>
            simp only []
            by_cases hs : st' = .s0
            · simp only [hs, if_true]; rw [ih .s0 [] .init, ec]
            · simp only [hs, if_false]; exact ih st' _ (.fresh hy hs)
          | none =>
            simp only []
            rw [ih .s0 [] .init, escape_append]
            congr 1

theorem sanitize_escape (s : Bytes) : sanitize (escape s) = escape (sanitize s) := san_escape s .s0 [] .init

/-! ### substitution commutes with the object writer -/

theorem san_has_high : ∀ (rest : Bytes) (st : U8) (pend : Bytes), PendOk st pend → pend ≠ [] →
    ∃ y ∈ san st pend rest, ¬ y < 0x80 := by
  have hf : ∀ pend : Bytes, pend ≠ [] → ∀ t : Bytes, ∃ y ∈ fffds pend ++ t, ¬ y < 0x80 := by
    intro pend hp t
    cases pend with
    | nil => exact absurd rfl hp
    | cons x r => exact ⟨0xEF, by simp [fffds, fffd], by decide⟩
  intro rest
  induction rest with
  | nil => intro st pend _ hp; rw [san_nil]; simpa using hf pend hp []
  | cons x a ih =>
    intro st pend h hp
    simp only [san]
    cases hx : u8Step st x with
    | some st' =>
      simp only []
      by_cases hs : st' = .s0
      · simp only [hs, if_true]
        cases pend with
        | nil => exact absurd rfl hp
        | cons p r => exact ⟨p, by simp, h.high p (by simp)⟩
      · simp only [hs, if_false]; exact ih st' _ (h.step hx hs) (by simp)
    | none => simp only []; exact hf pend hp _

theorem sanitize_not_ascii (v : Bytes) (h : ¬ IsAscii v) : ¬ IsAscii (sanitize v) := by
  induction v with
  | nil => exact absurd (fun c hc => by simp at hc) h
  | cons x v ih =>
    by_cases hx : x < 0x80
    · rw [sanitize_cons_ascii x v hx]
      intro ha
      apply ih
      · intro hv; apply h; intro c hc
        rcases List.mem_cons.mp hc with e | hc
        · subst e; exact hx
        · exact hv c hc
      · intro c hc; exact ha c (by simp [hc])
    · intro ha
      have key : ∃ y ∈ sanitize (x :: v), ¬ y < 0x80 := by
        simp only [sanitize, san]
        cases hs : u8Step .s0 x with
        | some st' =>
          simp only []
          by_cases h0 : st' = .s0
          · simp only [h0, if_true]; exact ⟨x, by simp, hx⟩
          · simp only [h0, if_false]; exact san_has_high v st' [x] (.fresh hs h0) (by simp)
        | none => simp only [if_true]; exact ⟨0xEF, by simp [fffds, fffd], by decide⟩
      obtain ⟨y, hy, hn⟩ := key
      exact hn (ha y hy)

theorem isDig_ascii (c : UInt8) (h : isDig c = true) : c < 0x80 := by
  simp only [isDig, Bool.and_eq_true, decide_eq_true_eq] at h
  have := UInt8.le_iff_toNat_le.mp h.2
  apply UInt8.lt_iff_toNat_lt.mpr
  simp at this ⊢; omega

theorem isNumeric_ascii (v : Bytes) (h : isNumeric v = true) : IsAscii v := by
  obtain ⟨ip, fp, _, hall, hfall, _, hcase⟩ := isNumeric_shape v h
  have hi : IsAscii ip := fun c hc => isDig_ascii c (List.all_eq_true.mp hall c hc)
  have hf : IsAscii fp := fun c hc => isDig_ascii c (List.all_eq_true.mp hfall c hc)
  rcases hcase with ⟨e, _⟩ | ⟨e, _⟩
  · rw [e]; exact hi
  · rw [e]; intro c hc
    rcases List.mem_append.mp hc with hc | hc
    · exact hi c hc
    · rcases List.mem_cons.mp hc with e | hc
      · subst e; decide
      · exact hf c hc

theorem equalFoldLen_ascii (v lit : Bytes) (hl : IsLowerWord lit) (h : equalFoldLen v lit = true) : IsAscii v := by
  have hm := (mem_spellings lit hl v).mp ((equalFoldLen_iff v lit hl).mp h)
  intro c hc
  have : lower c ∈ lit := by rw [← hm]; exact List.mem_map_of_mem hc
  have hb := hl _ this
  have ht := lower_toNat c
  apply UInt8.lt_iff_toNat_lt.mpr
  simp
  split at ht <;> omega

theorem valueText_sanitize (v : Bytes) : sanitize (valueText v) = valueText (sanitize v) := by
  by_cases ha : IsAscii v
  · rw [sanitize_ascii v ha]
    unfold valueText
    split
    · exact sanitize_ascii v ha
    · split
      · exact sanitize_ascii _ (by intro c hc; simp [litTrue] at hc; rcases hc with h | h | h | h <;> subst h <;> decide)
      · split
        · exact sanitize_ascii _ (by intro c hc; simp [litFalse] at hc; rcases hc with h | h | h | h | h <;> subst h <;> decide)
        · rw [List.append_assoc, List.singleton_append, sanitize_cons_ascii _ _ (by decide),
            sanitize_split _ _ _ (by decide), sanitize_escape, sanitize_ascii v ha, sanitize_nil]
  · have hs := sanitize_not_ascii v ha
    have n1 : isNumeric v = false := by
      cases h : isNumeric v with
      | false => rfl
      | true => exact absurd (isNumeric_ascii v h) ha
    have n2 : isNumeric (sanitize v) = false := by
      cases h : isNumeric (sanitize v) with
      | false => rfl
      | true => exact absurd (isNumeric_ascii _ h) hs
    have f1 : ∀ lit, IsLowerWord lit → equalFoldLen v lit = false := by
      intro lit hl
      cases h : equalFoldLen v lit with
      | false => rfl
      | true => exact absurd (equalFoldLen_ascii v lit hl h) ha
    have f2 : ∀ lit, IsLowerWord lit → equalFoldLen (sanitize v) lit = false := by
      intro lit hl
      cases h : equalFoldLen (sanitize v) lit with
      | false => rfl
      | true => exact absurd (equalFoldLen_ascii _ lit hl h) hs
    simp only [valueText, n1, n2, f1 _ litTrue_lower, f1 _ litFalse_lower, f2 _ litTrue_lower, f2 _ litFalse_lower,
      Bool.false_eq_true, if_false]
    rw [List.append_assoc, List.singleton_append, sanitize_cons_ascii _ _ (by decide),
      sanitize_split _ _ _ (by decide), sanitize_escape, sanitize_nil]
    rfl

def san2 (m : Bytes × Bytes) : Bytes × Bytes := (sanitize m.1, sanitize m.2)

theorem renderMember_sanitize (m : Bytes × Bytes) :
    sanitize (renderMember inferredR m) = renderMember inferredR (san2 m) := by
  unfold renderMember san2
  show sanitize (0x22 :: (escape m.1 ++ 0x22 :: 0x3a :: 0x20 :: valueText m.2)) = _
  rw [sanitize_cons_ascii _ _ (by decide), sanitize_split _ _ _ (by decide), sanitize_escape,
    sanitize_cons_ascii _ _ (by decide), sanitize_cons_ascii _ _ (by decide), valueText_sanitize]
  rfl

theorem renderTail_head (ms : List (Bytes × Bytes)) :
    renderTail inferredR ms = [] ∨ ∃ t, renderTail inferredR ms = 0x2c :: t := by
  cases ms with
  | nil => left; rfl
  | cons m r => right; rw [renderTail_cons]; exact ⟨_, rfl⟩

theorem sanitize_append_tail (a : Bytes) (ms : List (Bytes × Bytes)) :
    sanitize (a ++ renderTail inferredR ms) = sanitize a ++ sanitize (renderTail inferredR ms) := by
  rcases renderTail_head ms with h | ⟨t, h⟩
  · rw [h, sanitize_nil]; simp
  · rw [h, sanitize_split _ _ _ (by decide), sanitize_cons_ascii _ _ (by decide)]

theorem renderTail_sanitize (ms : List (Bytes × Bytes)) :
    sanitize (renderTail inferredR ms) = renderTail inferredR (ms.map san2) := by
  induction ms with
  | nil => exact sanitize_nil
  | cons m r ih =>
    rw [List.map_cons, renderTail_cons, renderTail_cons, sanitize_cons_ascii _ _ (by decide),
      sanitize_cons_ascii _ _ (by decide), sanitize_append_tail, renderMember_sanitize, ih]

/-- Replacing every ill-formed byte of the text by U+FFFD gives exactly the text written for the
members with the same substitution applied to their names and captured texts. -/
theorem objText_sanitize (ms : List (Bytes × Bytes)) :
    sanitize (objText inferredR ms) = objText inferredR (ms.map san2) := by
  unfold objText
  rw [sanitize_cons_ascii _ _ (by decide), sanitize_split _ _ _ (by decide), sanitize_nil]
  congr 2
  cases ms with
  | nil => exact sanitize_nil
  | cons m r =>
    simp only [renderList, List.map_cons]
    rw [sanitize_append_tail, renderMember_sanitize, renderTail_sanitize]

/-! ### the text is well-formed UTF-8 exactly when every name and capture written is -/

theorem u8Run_ascii_head (st : U8) (c : UInt8) (b : Bytes) (hc : c < 0x80) :
    u8Run st (c :: b) = if st = .s0 then u8Run .s0 b else none := by
  by_cases hs : st = .s0
  · subst hs; simp [u8Run, u8Step_s0_ascii c hc]
  · simp [u8Run, u8Step_ascii_none st c hc hs, hs]

theorem valid_split (a : Bytes) (c : UInt8) (b : Bytes) (hc : c < 0x80) :
    validUtf8 (a ++ c :: b) = (validUtf8 a && validUtf8 b) := by
  simp only [validUtf8]
  rw [u8Run_append]
  cases h : u8Run .s0 a with
  | none => simp
  | some st =>
    simp only [Option.bind]
    rw [u8Run_ascii_head st c b hc]
    by_cases hs : st = .s0
    · subst hs; simp
    · simp [hs]

theorem valid_cons_ascii_eq (c : UInt8) (b : Bytes) (hc : c < 0x80) : validUtf8 (c :: b) = validUtf8 b := by
  have := valid_split [] c b hc
  simpa [show validUtf8 [] = true by decide] using this

theorem u8Run_escape_eq : ∀ (s : Bytes) (st : U8), u8Run st (escape s) = u8Run st s := by
  intro s
  induction s with
  | nil => intro st; rw [escape_nil]
  | cons c s ih =>
    intro st
    rw [escape_cons]
    by_cases hl : lookup c ≠ []
    · obtain ⟨hc, ha⟩ := lookup_ascii c hl
      have e1 : esc1 c = lookup c := by simp [esc1, hl]
      rw [e1, u8Run_ascii_head st c s hc]
      cases hw : lookup c with
      | nil => exact absurd hw hl
      | cons d w =>
        have hd : d < 0x80 := ha d (by simp [hw])
        rw [List.cons_append, u8Run_ascii_head st d _ hd]
        by_cases hs : st = .s0
        · simp only [hs, if_true]
          rw [u8Run_append, u8Run_ascii w (fun x hx => ha x (by simp [hw, hx]))]
          simp [ih]
        · simp [hs]
    · have hl' : lookup c = [] := by simpa using hl
      simp only [esc1, hl', ne_eq, not_true_eq_false, if_false, List.cons_append, List.nil_append, u8Run]
      cases u8Step st c with
      | none => rfl
      | some st' => exact ih st'

theorem valid_escape_eq (s : Bytes) : validUtf8 (escape s) = validUtf8 s := by
  simp only [validUtf8, u8Run_escape_eq]

theorem valid_valueText_eq (v : Bytes) : validUtf8 (valueText v) = validUtf8 v := by
  unfold valueText
  split
  · rfl
  · split
    · rename_i h
      rw [valid_ascii v (equalFoldLen_ascii v _ litTrue_lower h)]; decide
    · split
      · rename_i h
        rw [valid_ascii v (equalFoldLen_ascii v _ litFalse_lower h)]; decide
      · rw [List.append_assoc, List.singleton_append, valid_cons_ascii_eq _ _ (by decide),
          valid_split _ _ _ (by decide), valid_escape_eq]
        simp [show validUtf8 [] = true by decide]

def pairValid (m : Bytes × Bytes) : Bool := validUtf8 m.1 && validUtf8 m.2

theorem valid_renderMember_eq (m : Bytes × Bytes) : validUtf8 (renderMember inferredR m) = pairValid m := by
  unfold renderMember pairValid
  show validUtf8 (0x22 :: (escape m.1 ++ 0x22 :: 0x3a :: 0x20 :: valueText m.2)) = _
  rw [valid_cons_ascii_eq _ _ (by decide), valid_split _ _ _ (by decide), valid_escape_eq,
    valid_cons_ascii_eq _ _ (by decide), valid_cons_ascii_eq _ _ (by decide), valid_valueText_eq]

theorem valid_append_tail (a : Bytes) (ms : List (Bytes × Bytes)) :
    validUtf8 (a ++ renderTail inferredR ms) = (validUtf8 a && validUtf8 (renderTail inferredR ms)) := by
  rcases renderTail_head ms with h | ⟨t, h⟩
  · rw [h]; simp [show validUtf8 [] = true by decide]
  · rw [h, valid_split _ _ _ (by decide), valid_cons_ascii_eq _ _ (by decide)]

theorem valid_renderTail_eq (ms : List (Bytes × Bytes)) :
    validUtf8 (renderTail inferredR ms) = ms.all pairValid := by
  induction ms with
  | nil => decide
  | cons m r ih =>
    rw [renderTail_cons, valid_cons_ascii_eq _ _ (by decide), valid_cons_ascii_eq _ _ (by decide),
      valid_append_tail, valid_renderMember_eq, ih]
    simp

/-- The text is well-formed UTF-8 exactly when every member name and captured text written into it
is: ill-formedness never comes from the writer and is never repaired or hidden by it. -/
theorem valid_objText_eq (ms : List (Bytes × Bytes)) : validUtf8 (objText inferredR ms) = ms.all pairValid := by
  unfold objText
  rw [valid_cons_ascii_eq _ _ (by decide), valid_split _ _ _ (by decide)]
  simp only [show validUtf8 [] = true by decide, Bool.and_true]
  cases ms with
  | nil => decide
  | cons m r =>
    simp only [renderList]
    rw [valid_append_tail, valid_renderMember_eq, valid_renderTail_eq]
    simp

theorem sanitize_valid (b : Bytes) (h : validUtf8 b = true) : sanitize b = b := by
  have := san_valid_id b .s0 [] .init (by simpa [validUtf8] using h)
  simpa [sanitize] using this

end Rare.C16
