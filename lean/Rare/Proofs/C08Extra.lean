import Rare.Proofs.C08Arith
import Rare.Model.Expr.Funcs.Extra
/-!
C08 for the helpers that consult the world outside the template (`Funcs/Extra.lean`): `color`, `bar`,
`load`, `json` are panic-free on safe arguments for EVERY world – any float arithmetic, either value
of the colour / unicode switches, any file system – provided the gjson library call returns.
For `bar` this contains the statement that `barUnicode[remainingBlocks]` is always in range, whatever
the float computation produced (`barWrite_total`).
-/
namespace Rare.C14
open Rare

/-- The index into `barUnicode` is a remainder modulo its length: `BarWrite` cannot panic, whatever
    value the float arithmetic produced (NaN, ±Inf, negative, beyond 1). -/
theorem barWriteR_total {α : Type} (A : Arith α) (env : Env) (u : α) (maxLen : Int) :
    ∃ rs, barWriteR A env u maxLen = .ok rs := by
  unfold barWriteR
  split
  · simp only [bind, Except.bind, pure, Except.pure]
    generalize lengthVal A (wrap64 (maxLen * barUnicodePartCount)) u = rem
    unfold barParts
    split
    · -- rem < 0: part = rem ≤ 0, nothing indexed
      rename_i h
      simp only []
      rw [if_neg (by omega)]
      exact ⟨_, rfl⟩
    · rename_i h
      simp only []
      have hpc : barUnicodePartCount = 9 := rfl
      rw [hpc]
      split
      · rename_i hp
        have h9 : rem % 9 < 9 := Int.emod_lt_of_pos _ (by omega)
        have hidx : (rem % 9).toNat < barUnicode.length := by
          have : barUnicode.length = 9 := rfl
          omega
        unfold getIdx
        rw [if_neg (by omega), List.getElem?_eq_getElem hidx]
        exact ⟨_, rfl⟩
      · exact ⟨_, rfl⟩
  · exact ⟨_, rfl⟩

theorem barWrite_total {α : Type} (A : Arith α) (env : Env) (u : α) (maxLen : Int) :
    ∃ b, barWrite A env u maxLen = .ok b := by
  unfold barWrite
  obtain ⟨rs, h⟩ := barWriteR_total A env u maxLen
  simp only [bind, Except.bind, h, pure, Except.pure]
  exact ⟨_, rfl⟩

end Rare.C14

namespace Rare.Expr.Funcs
open Rare Rare.Expr

theorem Draw.kfColor_safe (env : C14.Env) : SafeBuilder (Draw.kfColor env) := by
  intro args h
  show SafeResult _
  unfold Draw.kfColor
  split
  · rename_i a0 a1
    obtain ⟨v, b, hp⟩ := (h a0 (by simp)).probe
    rw [hp]
    cases b with
    | false => exact SafeResult.errConst
    | true =>
      simp only []
      split
      · exact SafeResult.errEnum
      · exact SafeResult.ok (Safe.bind' (h a1 (by simp)) fun v => Safe.pure _)
  · exact SafeResult.errArgCount

theorem Draw.barStage_safe {α : Type} (A : C14.Arith α) (env : C14.Env) (k : C14.Scaler) (maxVal maxLen : Int)
    {a0 : Stage} (h : Safe a0) : Safe (Draw.barStage A env k maxVal maxLen a0) := by
  unfold Draw.barStage
  apply Safe.bind' h
  intro v
  cases atoi v with
  | none => exact Safe.pure _
  | some val =>
    simp only []
    obtain ⟨b, hb⟩ := C14.barWrite_total A env (C14.scale A k val 0 maxVal) maxLen
    rw [hb]
    exact .ret _

theorem Draw.kfBar_safe {α : Type} (A : C14.Arith α) (env : C14.Env) : SafeBuilder (Draw.kfBar A env) := by
  intro args h
  show SafeResult _
  unfold Draw.kfBar
  split
  · exact SafeResult.errArgCount
  · split
    · rename_i a0 a1 a2 rest _
      have h0 : Safe a0 := h a0 (by simp)
      obtain ⟨r1, e1⟩ := evalStageInt_safe (h a1 (by simp))
      rw [e1]
      cases r1 with
      | none => exact SafeResult.errNum
      | some maxVal =>
        simp only []
        obtain ⟨r2, e2⟩ := evalStageInt_safe (h a2 (by simp))
        rw [e2]
        cases r2 with
        | none => exact SafeResult.errNum
        | some maxLen =>
          simp only []
          split
          · exact SafeResult.errValue
          · split
            · exact SafeResult.ok (Draw.barStage_safe A env _ _ _ h0)
            · rename_i a3 _tl _hl
              obtain ⟨v, b, hp⟩ := (h a3 (by simp)).probe
              rw [hp]
              cases b with
              | false => exact SafeResult.errConst
              | true =>
                simp only []
                split
                · exact SafeResult.errEnum
                · exact SafeResult.ok (Draw.barStage_safe A env _ _ _ h0)
    · exact SafeResult.errArgCount

theorem SafeResult.errFile : SafeResult errFile := SafeResult.stageErr _ _

theorem Files.kfLoadFile_safe (disabled : Bool) (fs : Bytes → Option Bytes) :
    SafeBuilder (Files.kfLoadFile disabled fs) := by
  intro args h
  show SafeResult _
  unfold Files.kfLoadFile
  split
  · exact SafeResult.errFile
  · split
    · rename_i a0
      obtain ⟨v, b, hp⟩ := (h a0 (by simp)).probe
      rw [hp]
      cases b with
      | false => exact SafeResult.errConst
      | true =>
        simp only []
        split
        · exact SafeResult.errFile
        · exact SafeResult.ok (Safe.lit _)
    · exact SafeResult.errArgCount

theorem Json.kfJsonQuery_safe (gjson : Bytes → Bytes → Comp Bytes) (hg : ∀ j p, Safe (gjson j p)) :
    SafeBuilder (Json.kfJsonQuery gjson) := by
  intro args h
  show SafeResult _
  unfold Json.kfJsonQuery
  split
  · rename_i a0
    exact SafeResult.ok (Safe.bind' (Safe.match_ 0) fun j => Safe.bind' (h a0 (by simp)) fun e => hg j e)
  · rename_i a0 a1
    exact SafeResult.ok (Safe.bind' (h a0 (by simp)) fun j => Safe.bind' (h a1 (by simp)) fun e => hg j e)
  · exact SafeResult.errArgCount

/-- Every helper of `Extra.table` is a safe builder, in every world whose gjson call returns. -/
theorem Extra.extra_safe {α : Type} (w : Extra.World α) (hg : ∀ j p, Safe (w.gjson j p)) :
    ∀ p ∈ Extra.table w, SafeBuilder p.2 := by
  intro p hp
  simp only [Extra.table, Draw.table, Files.table, Json.table, List.cons_append, List.nil_append,
    List.mem_cons, List.not_mem_nil, or_false] at hp
  rcases hp with e | e | e | e <;> subst e
  · exact Draw.kfColor_safe _
  · exact Draw.kfBar_safe _ _
  · exact Files.kfLoadFile_safe _ _
  · exact Json.kfJsonQuery_safe _ hg

end Rare.Expr.Funcs
