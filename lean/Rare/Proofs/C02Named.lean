import Rare.Proofs.C02
import Rare.Proofs.C16Table
/-! C02: `{name}` through the name table the regex wrapper builds (`C16.regexNameTable`). -/
namespace Rare.C02

/-- keys `GetKey` answers itself before it consults the name table -/
def reservedKeys : List Bytes := [ascii "src", ascii "line", ascii ".", ascii "#", ascii ".#", ascii "#.", ascii "@"]

theorem getKey_named (c : MatchCtx) (key : Bytes) (hres : key ∉ reservedKeys) :
    getKey c key = match c.names.find? (·.1 == key) with
      | some p => (getMatch c.line c.indices p.2).map .val
      | none => .ok (.val Expr.ErrorArgName) := by
  simp only [reservedKeys, List.mem_cons, List.not_mem_nil, or_false, not_or] at hres
  obtain ⟨h1, h2, h3, h4, h5, h6, h7⟩ := hres
  unfold getKey
  rw [if_neg h1, if_neg h2, if_neg (by simp [h3, h4, h5, h6]), if_neg h7]
  rfl

/-- the table's entry for a name is the LAST group carrying it -/
theorem regexTable_entry_last (names : List Bytes) (key : Bytes) (k : Nat)
    (hk : names[k]? = some key) (hne : key ≠ []) (hlast : ∀ j, k < j → names[j]? ≠ some key) :
    (key, (k : Int)) ∈ C16.regexNameTable names := by
  have hmem : key ∈ names := List.mem_of_getElem? hk
  have hcov := C16.regexTableGo_covers names [] 0 key (Or.inr ⟨hmem, hne⟩)
  obtain ⟨p, hp, e⟩ := List.mem_map.mp hcov
  have hent := C16.regexNameTable_entry names p hp
  have hl := C16.regexNameTable_last names p hp
  have hklt : k < names.length := by
    by_cases h : k < names.length
    · exact h
    · rw [List.getElem?_eq_none (by omega)] at hk; cases hk
  have : p.2.toNat = k := by
    rcases Nat.lt_trichotomy p.2.toNat k with h | h | h
    · exact absurd (e ▸ hk) (hl k h hklt)
    · exact h
    · exact absurd (e ▸ hent.2.2.1) (hlast _ h)
  have e2 : p.2 = (k : Int) := by have := hent.1; omega
  have : p = (key, (k : Int)) := by rw [← e, ← e2]
  rw [← this]; exact hp

theorem getKey_regex_name (c : MatchCtx) (names : List Bytes) (key : Bytes) (k : Nat)
    (hσ : c.names.Perm (C16.regexNameTable names)) (hres : key ∉ reservedKeys)
    (hk : names[k]? = some key) (hne : key ≠ []) (hlast : ∀ j, k < j → names[j]? ≠ some key) :
    getKey c key = (getMatch c.line c.indices (k : Int)).map .val := by
  have hin : (key, (k : Int)) ∈ c.names := hσ.mem_iff.mpr (regexTable_entry_last names key k hk hne hlast)
  have hnd : (c.names.map (·.1)).Nodup := (hσ.map (·.1)).nodup_iff.mpr (C16.regexNameTable_nodup names)
  have hf := C16.find?_of_nodup c.names (key, (k : Int)) hnd hin
  rw [getKey_named c key hres]
  have : c.names.find? (fun x => x.1 == key) = some (key, (k : Int)) := hf
  rw [this]

theorem getKey_regex_missing (c : MatchCtx) (names : List Bytes) (key : Bytes)
    (hσ : c.names.Perm (C16.regexNameTable names)) (hres : key ∉ reservedKeys) (hno : key ∉ names) :
    getKey c key = .ok (.val Expr.ErrorArgName) := by
  rw [getKey_named c key hres]
  have : c.names.find? (fun x => x.1 == key) = none := by
    rw [List.find?_eq_none]
    intro p hp e
    have e' : p.1 = key := by simpa using e
    have hent := C16.regexNameTable_entry names p (hσ.mem_iff.mp hp)
    exact hno (e' ▸ List.mem_of_getElem? hent.2.2.1)
  rw [this]

end Rare.C02
