import Rare.Model.C15Trace
import Rare.Proofs.C15Multi
import Rare.Proofs.TraceOrder
/-!
Soundness of the C15 trace machine: every event of an accepted log performs transitions of
`Rare.C15.Multi` only (so every state the replay visits is reachable and satisfies the invariant), and
the flush log `flushLog` is the batching loop of `Rare.Batcher` with the lines forgotten.
-/
namespace Rare.C15.Trace
open Rare.TraceOrder Rare.C15.Multi

theorem pstep_sound {cfg : Cfg} {ps ps' : PSt} {e : Ev} (h : pstep cfg ps e = some ps') :
    ∃ ls, evLabels cfg ps e = some ls ∧ LPath cfg.fs cfg.B ps.lts ls ps'.lts := by
  unfold pstep at h
  split at h
  · simp at h
  · rename_i ls hl
    split at h
    · simp at h
    · rename_i s' ha
      simp only [Option.some.injEq] at h
      subst h
      exact ⟨ls, hl, applyAll_lpath ls _ _ ha⟩

theorem replay_reach {cfg : Cfg} : ∀ (evs : List Ev) (ps ps' : PSt),
    replay (machine cfg) ps evs = some ps' → Reach cfg.fs cfg.B ps.lts → Reach cfg.fs cfg.B ps'.lts
  | [], ps, ps', h, hr => by
    simp only [replay, Option.some.injEq] at h; subst h; exact hr
  | e :: es, ps, ps', h, hr => by
    simp only [replay] at h
    cases hs : (machine cfg).step ps e with
    | none => rw [hs] at h; simp at h
    | some ps1 =>
      rw [hs] at h
      simp only [Option.bind_some] at h
      obtain ⟨ls, _, hp⟩ := pstep_sound (cfg := cfg) hs
      exact replay_reach es ps1 ps' h (hp.reach hr)

/-- An accepted log is, up to an admissible reordering, a run of the transition system from `init` to a
    final state of the machine. -/
theorem accepts_reach {cfg : Cfg} {L : Lin PSt} {tr : Array Ev}
    (h : accepts (machine cfg) L (initSt cfg) tr = true) :
    ∃ sched ps, Admissible tr sched ∧ replay (machine cfg) (initSt cfg) (sched.map (evAt tr)) = some ps ∧
      Reach cfg.fs cfg.B ps.lts ∧ final cfg ps = true := by
  obtain ⟨sched, ps, hadm, hrep, hfin⟩ := accepts_sound h
  exact ⟨sched, ps, hadm, hrep, replay_reach _ _ _ hrep .init, hfin⟩

/-! ### `flushLog` is the batching loop with the lines forgotten -/

def shape {α : Type} (b : Batcher.Batch α) : Nat × Nat := (b.start, b.lines.length)
def fshape (e : FlushEv) : Nat × Nat := (e.start, e.n)

structure Rel {α : Type} (f : FSt) (l : Batcher.LoopSt α) : Prop where
  cur : f.cur = l.cur.length
  start : f.start = l.start
  log : f.log.map fshape = l.out.map shape

theorem fstep_rel {α : Type} (n : Nat) {f : FSt} {l : Batcher.LoopSt α} (h : Rel f l) (x : α × Bool) :
    Rel (fstep n f x.2) (Batcher.step n l x) := by
  obtain ⟨h1, h2, h3⟩ := h
  unfold fstep Batcher.step
  simp only [List.length_append, List.length_singleton, ← h1]
  by_cases hfull : f.cur + 1 ≥ n
  · simp only [hfull, decide_true, Bool.true_or, if_true]
    exact ⟨rfl, by simp [h2], by simp [h3, fshape, shape, h2, h1]⟩
  · simp only [hfull, decide_false, Bool.false_or, if_false]
    cases hx : x.2 with
    | true =>
      simp only [if_true]
      exact ⟨rfl, by simp [h2], by simp [h3, fshape, shape, h2, h1]⟩
    | false =>
      simp only [Bool.false_eq_true, if_false]
      exact ⟨by simp [h1], h2, h3⟩

theorem fold_rel {α : Type} (n : Nat) : ∀ (ls : List (α × Bool)) {f : FSt} {l : Batcher.LoopSt α}, Rel f l →
    Rel ((ls.map (·.2)).foldl (fstep n) f) (ls.foldl (Batcher.step n) l)
  | [], _, _, h => h
  | x :: ls, _, _, h => by
    simp only [List.map_cons, List.foldl_cons]
    exact fold_rel n ls (fstep_rel n h x)

theorem ffinish_rel {α : Type} {f : FSt} {l : Batcher.LoopSt α} (h : Rel f l) :
    (ffinish f).map fshape = (Batcher.finish l).map shape := by
  obtain ⟨h1, h2, h3⟩ := h
  unfold ffinish Batcher.finish
  by_cases hc : f.cur > 0
  · have hl : l.cur.length > 0 := by omega
    simp [hc, hl, h3, fshape, shape, h2, h1]
  · have hl : ¬ l.cur.length > 0 := by omega
    simp [hc, hl, h3]

/-- The flush log of a stream that ended has the starts and sizes of the batches of `Batcher.run`. -/
theorem flushLog_run {α : Type} (n : Nat) (ls : List (α × Bool)) :
    (flushLog n (ls.map (·.2)) true).map fshape = (Batcher.run n ls).map shape := by
  simp only [flushLog, if_true, frun, Batcher.run]
  exact ffinish_rel (fold_rel n ls (f := ⟨0, 1, []⟩) (l := (⟨[], [], 1⟩ : Batcher.LoopSt α)) ⟨rfl, rfl, rfl⟩)

/-! ### what the reasons mean -/

/-- Invariant of the flush loop: fewer than `batchSize` lines wait, and every logged flush has the size
    its reason says: `full` exactly when `len(batch) >= batchSize` held, `timer` only below. -/
structure FInv (n : Nat) (s : FSt) : Prop where
  cur : s.cur < max n 1
  sizes : ∀ e ∈ s.log, 1 ≤ e.n ∧ (e.reason = .full → n ≤ e.n) ∧ (e.reason = .timer → e.n < n) ∧ e.reason ≠ .eof

theorem finv_step (n : Nat) {s : FSt} (h : FInv n s) (t : Bool) : FInv n (fstep n s t) := by
  unfold fstep
  simp only
  split
  · rename_i hf
    refine ⟨by simp; omega, ?_⟩
    intro e he
    simp only [List.mem_append, List.mem_singleton] at he
    rcases he with he | rfl
    · exact h.sizes e he
    · exact ⟨by simp, fun _ => hf, (fun hr => by cases hr), by simp⟩
  · rename_i hf
    split
    · refine ⟨by simp; omega, ?_⟩
      intro e he
      simp only [List.mem_append, List.mem_singleton] at he
      rcases he with he | rfl
      · exact h.sizes e he
      · exact ⟨by simp, (fun hr => by cases hr), fun _ => by simp only; omega, by simp⟩
    · exact ⟨by simp only; omega, h.sizes⟩

theorem finv_run (n : Nat) (oracle : List Bool) : FInv n (frun n oracle) := by
  unfold frun
  have : ∀ (l : List Bool) (s : FSt), FInv n s → FInv n (l.foldl (fstep n) s) := by
    intro l
    induction l with
    | nil => intro s h; exact h
    | cons t l ih => intro s h; exact ih _ (finv_step n h t)
  exact this oracle _ ⟨by simp; omega, by simp⟩

/-- Every flush of the model has the size its reason says; `eof` is the remainder: only as the LAST
    flush of a stream that ended, with fewer than `batchSize` lines (for `batchSize ≥ 1`). -/
theorem flushLog_reasons (n : Nat) (oracle : List Bool) (ended : Bool) :
    ∀ e ∈ flushLog n oracle ended, 1 ≤ e.n ∧ (e.reason = .full → n ≤ e.n) ∧ (e.reason = .timer → e.n < n) ∧
      (e.reason = .eof → ended = true ∧ e.n < max n 1 ∧ (flushLog n oracle ended).getLast? = some e) := by
  have hi := finv_run n oracle
  intro e he
  unfold flushLog at he ⊢
  cases ended with
  | false =>
    simp only [Bool.false_eq_true, if_false] at he ⊢
    obtain ⟨h1, h2, h3, h4⟩ := hi.sizes e he
    exact ⟨h1, h2, h3, fun hr => absurd hr h4⟩
  | true =>
    simp only [if_true, ffinish] at he ⊢
    split at he
    · rename_i hc
      simp only [hc, if_true]
      simp only [List.mem_append, List.mem_singleton] at he
      rcases he with he | rfl
      · obtain ⟨h1, h2, h3, h4⟩ := hi.sizes e he
        exact ⟨h1, h2, h3, fun hr => absurd hr h4⟩
      · exact ⟨hc, (fun hr => by cases hr), (fun hr => by cases hr), fun _ => ⟨by simp, hi.cur, by simp⟩⟩
    · rename_i hc
      simp only [hc, if_false]
      obtain ⟨h1, h2, h3, h4⟩ := hi.sizes e he
      exact ⟨h1, h2, h3, fun hr => absurd hr h4⟩

end Rare.C15.Trace
