import Rare.Model.C05Close
namespace Rare.C05Close

/-- Invariant: once closed, every reader is past `doneAt` (program counters only grow). -/
def Inv (c : Cfg) (s : St) : Prop := s.closed = true → ∀ p ∈ s.pcs, c.doneAt ≤ p

theorem inv_step {c : Cfg} {s s' : St} (h : Inv c s) (hs : Step c s s') : Inv c s' := by
  cases hs with
  | adv i hi hlt =>
    intro hc p hp
    have hc' : s.closed = true := hc
    rcases List.mem_or_eq_of_mem_set hp with hp | rfl
    · exact h hc' p hp
    · have := h hc' s.pcs[i] (List.getElem_mem hi)
      omega
  | close hcl hall => intro _ p hp; exact hall p hp

theorem inv_reach {c : Cfg} {n : Nat} {s : St} (hr : Reach c (init n) s) : Inv c s := by
  induction hr with
  | refl => intro h; simp [init] at h
  | step _ hs ih => exact inv_step ih hs

theorem length_reach {c : Cfg} {n : Nat} {s : St} (hr : Reach c (init n) s) : s.pcs.length = n := by
  induction hr with
  | refl => simp [init]
  | step _ hs ih =>
    cases hs with
    | adv i hi hlt => simpa using ih
    | close _ _ => exact ih

/-- With `stoppedAt ≤ doneAt` (status first, then `wg.Done()`): when the channel is closed the status is complete. -/
theorem closed_status_complete {c : Cfg} (hord : c.stoppedAt ≤ c.doneAt) {n : Nat} {s : St}
    (hr : Reach c (init n) s) (hc : s.closed = true) : active c s = 0 ∧ readCount c s = n := by
  have h := inv_reach hr hc
  have hl := length_reach hr
  constructor
  · simp only [active, List.length_eq_zero_iff, List.filter_eq_nil_iff, decide_eq_true_eq]
    intro p hp; have := h p hp; omega
  · have : s.pcs.filter (fun p => decide (c.stoppedAt ≤ p)) = s.pcs := by
      rw [List.filter_eq_self]; intro p hp; have := h p hp; simp; omega
    simp [readCount, this, hl]

/-- Whatever the order: when every reader has finished its exit block the status is complete. -/
theorem quiescent_status_complete (c : Cfg) (hs2 : c.stoppedAt ≤ 2) {n : Nat} {s : St}
    (hr : Reach c (init n) s) (hq : ∀ p ∈ s.pcs, p = 2) : active c s = 0 ∧ readCount c s = n := by
  have hl := length_reach hr
  constructor
  · simp only [active, List.length_eq_zero_iff, List.filter_eq_nil_iff, decide_eq_true_eq]
    intro p hp; have := hq p hp; omega
  · have : s.pcs.filter (fun p => decide (c.stoppedAt ≤ p)) = s.pcs := by
      rw [List.filter_eq_self]; intro p hp; have := hq p hp; simp; omega
    simp [readCount, this, hl]

end Rare.C05Close
