import Rare.Proofs.C04Order
import Rare.Proofs.C04Held
/-!
Round 4c helpers for C04:

* the buffered twin of the slice ordering (`bscanAll_sorted`): purely positional, from every state;
* fuel irrelevance: the fuel parameters of the model (`readLoop`/`scan` recursion fuel, number of `Scan()` calls of
  `scanAll`) are artefacts of totality - once a run did not stop for lack of fuel, more fuel / more calls change
  nothing.
-/
namespace Rare.C04

/-! ### ordering of the buffered scanner's slices -/

def BAfter (s t : Buf) : Prop := s.mem.length < t.mem.length ∨ (s.mem.length = t.mem.length ∧ s.offset ≤ t.offset)

def BAfterV (s : Buf) (v : View) : Prop := s.mem.length < v.arr ∨ (s.mem.length = v.arr ∧ s.offset ≤ v.start)

theorem BAfter.refl (s : Buf) : BAfter s s := Or.inr ⟨rfl, Nat.le_refl _⟩

theorem BAfter.trans {s t u : Buf} (h1 : BAfter s t) (h2 : BAfter t u) : BAfter s u := by
  unfold BAfter at *; omega

theorem BAfter.view {s t : Buf} {v : View} (h1 : BAfter s t) (h2 : BAfterV t v) : BAfterV s v := by
  unfold BAfter BAfterV at *; omega

def BPosPost (s : Buf) : Res → Buf → Prop
  | .tok v _, s' => v.arr = s'.mem.length ∧ v.stop ≤ s'.offset ∧ BAfterV s v ∧ BAfter s s' ∧ v.start ≤ v.stop
  | .done, s' => BAfter s s'
  | .fuel, s' => BAfter s s'

theorem BPosPost.mono {s t : Buf} (h : BAfter s t) : ∀ {r : Res} {s' : Buf}, BPosPost t r s' → BPosPost s r s'
  | .tok _ _, _, ⟨a, b, c, d, e⟩ => ⟨a, b, h.view c, h.trans d, e⟩
  | .done, _, d => h.trans d
  | .fuel, _, d => h.trans d

theorem bscan_pos (f : Nat) : ∀ s : Buf, BPosPost s (s.scan f).1 (s.scan f).2 := by
  induction f with
  | zero => intro s; exact BAfter.refl s
  | succ f ih =>
    intro s
    simp only [Buf.scan]
    split
    · rename_i rel _
      have h1 := dropCR_length_le ((s.buf.drop s.offset).take rel)
      have h2 : ((s.buf.drop s.offset).take rel).length ≤ rel := by simp [List.length_take]; omega
      refine ⟨rfl, ?_, Or.inr ⟨rfl, Nat.le_refl _⟩, Or.inr ⟨rfl, ?_⟩, ?_⟩
      · show s.offset + (dropCR ((s.buf.drop s.offset).take rel)).length ≤ s.offset + rel + 1
        omega
      · show s.offset ≤ s.offset + rel + 1
        omega
      · show s.offset ≤ s.offset + (dropCR ((s.buf.drop s.offset).take rel)).length
        omega
    · split
      · rename_i hc
        have hlt : s.offset < s.buf.length := by simp at hc; exact hc.2
        exact ⟨rfl, Nat.le_refl _, Or.inr ⟨rfl, Nat.le_refl _⟩, Or.inr ⟨rfl, Nat.le_of_lt hlt⟩, Nat.le_of_lt hlt⟩
      · split
        · split
          · exact BAfter.refl s
          · exact BPosPost.mono (Or.inl (by simp)) (ih _)
        · exact BAfter.refl s

theorem bscanAll_sorted (f : Nat) : ∀ (n : Nat) (s : Buf),
    (∀ vb ∈ (s.scanAll f n).1, BAfterV s vb.1 ∧ vb.1.start ≤ vb.1.stop) ∧
    List.Pairwise (fun a b : View × Bytes => Before a.1 b.1) (s.scanAll f n).1 := by
  intro n
  induction n with
  | zero => intro s; simp [Buf.scanAll]
  | succ n ih =>
    intro s
    have hp := bscan_pos f s
    simp only [Buf.scanAll]
    generalize s.scan f = r at hp
    obtain ⟨res, s'⟩ := r
    cases res with
    | tok v b =>
      simp only [BPosPost] at hp
      obtain ⟨h1, h2, h3, h4, h5⟩ := hp
      obtain ⟨ia, ib⟩ := ih s'
      simp only
      refine ⟨?_, ?_⟩
      · intro vb hvb
        simp only [List.mem_cons] at hvb
        rcases hvb with rfl | hm
        · exact ⟨h3, h5⟩
        · exact ⟨h4.view (ia vb hm).1, (ia vb hm).2⟩
      · refine List.Pairwise.cons ?_ ib
        intro w hw
        have := (ia w hw).1
        unfold BAfterV at this
        unfold Before
        simp only
        omega
    | done => simp
    | fuel => simp

/-! ### fuel irrelevance -/

theorem readLoop_fuel_mono (f g : Nat) : ∀ s : Imm, (s.readLoop f).1 ≠ .fuel → s.readLoop (f + g) = s.readLoop f := by
  induction f with
  | zero => intro s h; simp [Imm.readLoop] at h
  | succ f ih =>
    intro s h
    have e : f + 1 + g = (f + g) + 1 := by omega
    rw [e]
    simp only [Imm.readLoop] at h ⊢
    generalize s.grown.rd.read (s.grown.cap - s.grown.buf.length) = r at h ⊢
    cases h1 : r.2.1 with
    | some e => rfl
    | none =>
      rw [h1] at h
      cases h2 : idxNl r.1 with
      | some eol => rfl
      | none =>
        rw [h2] at h
        exact ih _ h

theorem scan_fuel_mono (f g : Nat) (s : Imm) (h : (s.scan f).1 ≠ .fuel) : s.scan (f + g) = s.scan f := by
  unfold Imm.scan at h ⊢
  split
  · rfl
  · rename_i ht
    simp only [ht] at h
    exact readLoop_fuel_mono f g s h

theorem fill_fuel_mono (f g : Nat) : ∀ (cap : Nat) (acc : Bytes) (rd : Reader) (errs : Nat) (dl : Bytes) x,
    Buf.fill f cap acc rd errs dl = some x → Buf.fill (f + g) cap acc rd errs dl = some x := by
  induction f with
  | zero => intro cap acc rd errs dl x h; simp [Buf.fill] at h
  | succ f ih =>
    intro cap acc rd errs dl x h
    have e : f + 1 + g = (f + g) + 1 := by omega
    rw [e]
    simp only [Buf.fill] at h ⊢
    split
    · rename_i hlt
      simp only [hlt, if_true] at h
      generalize rd.read (cap - acc.length) = r at h ⊢
      split
      · rename_i h1
        simp only [h1] at h
        exact h
      · rename_i h1
        simp only [h1] at h
        exact ih _ _ _ _ _ _ h
    · rename_i hlt
      simp only [hlt, if_false] at h
      exact h

theorem bscan_fuel_mono (f g : Nat) : ∀ s : Buf, (s.scan f).1 ≠ .fuel → s.scan (f + g) = s.scan f := by
  induction f with
  | zero => intro s h; simp [Buf.scan] at h
  | succ f ih =>
    intro s h
    have e : f + 1 + g = (f + g) + 1 := by omega
    rw [e]
    simp only [Buf.scan] at h ⊢
    split
    · rfl
    · rename_i h0
      simp only [h0] at h
      split
      · rfl
      · rename_i h1
        simp only [h1] at h
        split
        · rename_i h2
          simp only [h2, if_true] at h
          split
          · rfl
          · rename_i h3
            simp only [h3] at h
            exact ih _ h
        · rfl

/-- more calls after the call that answered false change nothing -/
theorem scanAll_calls_mono (f : Nat) : ∀ (n k : Nat) (s : Imm), (s.scanAll f n).2.1 = true →
    s.scanAll f (n + k) = s.scanAll f n := by
  intro n
  induction n with
  | zero => intro k s h; simp [Imm.scanAll] at h
  | succ n ih =>
    intro k s h
    have e : n + 1 + k = (n + k) + 1 := by omega
    rw [e]
    simp only [Imm.scanAll] at h ⊢
    generalize s.scan f = r at h ⊢
    obtain ⟨res, s'⟩ := r
    cases res with
    | tok v b => simp only at h ⊢; rw [ih k s' h]
    | done => rfl
    | fuel => simp at h

theorem bscanAll_calls_mono (f : Nat) : ∀ (n k : Nat) (s : Buf), (s.scanAll f n).2.1 = true →
    s.scanAll f (n + k) = s.scanAll f n := by
  intro n
  induction n with
  | zero => intro k s h; simp [Buf.scanAll] at h
  | succ n ih =>
    intro k s h
    have e : n + 1 + k = (n + k) + 1 := by omega
    rw [e]
    simp only [Buf.scanAll] at h ⊢
    generalize s.scan f = r at h ⊢
    obtain ⟨res, s'⟩ := r
    cases res with
    | tok v b => simp only at h ⊢; rw [ih k s' h]
    | done => rfl
    | fuel => simp at h

/-- more recursion fuel changes nothing once the fuel exceeds the reader's progress measure -/
theorem scanAll_fuel_mono (f g : Nat) : ∀ (n : Nat) {s : Imm} {E : List Bytes}, Good s E → s.rd.measure < f →
    s.scanAll (f + g) n = s.scanAll f n := by
  intro n
  induction n with
  | zero => intro s E _ _; rfl
  | succ n ih =>
    intro s E hg hm
    obtain ⟨C, hinv, _⟩ := id hg
    have hnf := scan_nofuel f hinv hm
    have hsg := scan_good f hg
    have hc := scan_closed (closed_measure s.rd.measure) f hinv (Nat.le_refl _)
    simp only [Imm.scanAll]
    rw [scan_fuel_mono f g s hnf]
    generalize s.scan f = r at hsg hc hnf
    obtain ⟨res, s'⟩ := r
    cases res with
    | tok v b =>
      simp only at hsg hc ⊢
      rw [ih hsg (by omega)]
    | done => rfl
    | fuel => rfl

theorem bscanAll_fuel_mono (f g : Nat) : ∀ (n : Nat) {s : Buf} {E : List Bytes}, BGood s E → s.rd.measure + 1 < f →
    s.scanAll (f + g) n = s.scanAll f n := by
  intro n
  induction n with
  | zero => intro s E _ _; rfl
  | succ n ih =>
    intro s E hg hm
    obtain ⟨C, hinv, _⟩ := id hg
    have hnf := bscan_nofuel f hinv hm
    have hsg := bscan_good f (by omega) hg
    have hc := bscan_closed (bclosed_measure s.rd.measure) f (s := s) (Nat.le_refl _)
    simp only [Buf.scanAll]
    rw [bscan_fuel_mono f g s hnf]
    generalize s.scan f = r at hsg hc hnf
    obtain ⟨res, s'⟩ := r
    cases res with
    | tok v b =>
      simp only at hsg hc ⊢
      rw [ih hsg (by omega)]
    | done => rfl
    | fuel => rfl

end Rare.C04
