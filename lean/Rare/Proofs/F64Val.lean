import Rare.Proofs.F64Round
/-!
Values of the software binary64 model: fields of a pattern, the exact value `toRat`, the round trip
`ofRat ∘ toRat`, monotonicity of rounding in the float order, representability of integers and
dyadic rationals.
-/
namespace Rare.F64

/-! ### fields -/

theorem mag_lt (x : F64) : x.mag < P63 := by unfold mag; omega

theorem sign_ofSM (s : Bool) {m : Nat} (_h : m < P63) : (ofSM s m).sign = s := by
  unfold ofSM sign
  cases s <;> simp <;> omega

theorem mag_ofSM (s : Bool) {m : Nat} (h : m < P63) : (ofSM s m).mag = m := by
  unfold ofSM mag
  cases s <;> simp <;> omega

theorem ofSM_sign_mag (x : F64) : ofSM x.sign x.mag = x := by
  obtain ⟨b, hb⟩ := x
  unfold ofSM sign mag
  simp only [F64.mk.injEq]
  by_cases h : P63 ≤ b <;> simp [h] <;> omega

theorem key_ofSM (s : Bool) {m : Nat} (h : m < P63) :
    (ofSM s m).key = if s then -(m : Int) else (m : Int) := by
  unfold key; rw [sign_ofSM s h, mag_ofSM s h]

theorem isNaN_ofSM (s : Bool) {m : Nat} (h : m ≤ InfMag) : (ofSM s m).isNaN = false := by
  unfold isNaN; rw [mag_ofSM s (by omega)]; simp; omega

/-! ### decomposition of a magnitude pattern -/

theorem mag_decomp (m : Nat) :
    m = magScale m * P52 + magSig m ∧ (magScale m = 0 ∨ P52 ≤ magSig m) ∧ magSig m < P53 := by
  unfold magSig magScale
  omega

theorem magSig_pos {m : Nat} (h : 0 < m) : 0 < magSig m := by
  have := mag_decomp m; omega

theorem magScale_le {m : Nat} (h : m < InfMag) : magScale m ≤ 2045 := by
  unfold magScale; omega

/-! ### the exact value -/

theorem magVal_zero : magVal 0 = 0 := by
  unfold magVal magSig magScale
  simp [Rat.div_def]

theorem magVal_pos {m : Nat} (h : 0 < m) : 0 < magVal m := by
  unfold magVal
  rw [Rat.lt_div_iff two1074_pos, Rat.zero_mul]
  exact natCast_pos_of_pos (Nat.mul_pos (magSig_pos h) (Nat.pow_pos (by decide)))

theorem magVal_nonneg (m : Nat) : 0 ≤ magVal m := by
  by_cases h : m = 0
  · subst h; rw [magVal_zero]; exact Rat.le_refl
  · exact Rat.le_of_lt (magVal_pos (by omega))

theorem roundMag_zero : roundMag 0 = 0 := by
  have := rawMag_exact 0 0 (by omega) (Or.inl rfl)
  simp [Rat.div_def] at this
  rw [roundMag_eq, this]; omega

/-- Every finite magnitude pattern is the rounding of its own value. -/
theorem roundMag_magVal {m : Nat} (h : m < InfMag) : roundMag (magVal m) = m := by
  obtain ⟨h1, h2, h3⟩ := mag_decomp m
  have := rawMag_exact (magScale m) (magSig m) h3 h2
  unfold magVal
  rw [roundMag_eq, this]; omega

theorem toRat_eq_zero_of_mag {x : F64} (h : x.mag = 0) : x.toRat = 0 := by
  unfold toRat; rw [h, magVal_zero]; split <;> simp

theorem toRat_of_pos {x : F64} (h : x.sign = false) : x.toRat = magVal x.mag := by
  unfold toRat; simp [h]

theorem toRat_of_neg {x : F64} (h : x.sign = true) : x.toRat = -(magVal x.mag) := by
  unfold toRat; simp [h]

theorem absRat_toRat (x : F64) : absRat x.toRat = magVal x.mag := by
  have hn := magVal_nonneg x.mag
  unfold absRat toRat
  split <;> split <;> grind

theorem toRat_neg_iff (x : F64) : x.toRat < 0 ↔ (x.sign = true ∧ x.mag ≠ 0) := by
  constructor
  · intro h
    cases hs : x.sign
    · rw [toRat_of_pos hs] at h; have := magVal_nonneg x.mag; grind
    · refine ⟨rfl, ?_⟩
      intro hm; rw [toRat_eq_zero_of_mag hm] at h; grind
  · rintro ⟨hs, hm⟩
    rw [toRat_of_neg hs]
    have := magVal_pos (m := x.mag) (by omega)
    grind

theorem toRat_eq_zero_iff (x : F64) : x.toRat = 0 ↔ x.mag = 0 := by
  constructor
  · intro h
    apply Classical.byContradiction
    intro hm
    have := magVal_pos (m := x.mag) (by omega)
    unfold toRat at h
    split at h <;> grind
  · exact toRat_eq_zero_of_mag

/-! ### round trip -/

/-- **(a)** Rounding the exact value of a finite float gives the float back, when an exact zero is
    given the float's own sign. -/
theorem ofRatS_toRat (x : F64) (hf : x.isFinite = true) : ofRatS x.sign x.toRat = x := by
  have hlt : x.mag < InfMag := by simpa [isFinite] using hf
  unfold ofRatS
  by_cases hm : x.mag = 0
  · rw [if_pos (toRat_eq_zero_of_mag hm)]
    unfold zero; rw [← hm]; exact ofSM_sign_mag x
  · rw [if_neg (by rw [toRat_eq_zero_iff]; exact hm), absRat_toRat, roundMag_magVal hlt]
    have : decide (x.toRat < 0) = x.sign := by
      cases hs : x.sign
      · simp; intro h; have := (toRat_neg_iff x).mp h; simp [hs] at this
      · simp; exact (toRat_neg_iff x).mpr ⟨hs, hm⟩
    rw [this]; exact ofSM_sign_mag x

/-- **(a)** `ofRat (toRat x) = x` for every finite `x` other than `-0`… -/
theorem ofRat_toRat (x : F64) (hf : x.isFinite = true) (hz : ¬(x.sign = true ∧ x.mag = 0)) :
    ofRat x.toRat = x := by
  have := ofRatS_toRat x hf
  unfold ofRat
  by_cases hm : x.mag = 0
  · have hs : x.sign = false := by
      cases h : x.sign
      · rfl
      · exact absurd ⟨h, hm⟩ hz
    rw [hs] at this; exact this
  · unfold ofRatS at this ⊢
    rw [if_neg (by rw [toRat_eq_zero_iff]; exact hm)] at this ⊢
    exact this

/-- … and `-0`, whose value is `0`, comes back as `+0`. -/
theorem ofRat_toRat_negZero : ofRat (zero true).toRat = zero false := by
  have : (zero true).mag = 0 := by unfold zero; exact mag_ofSM true (by omega)
  rw [toRat_eq_zero_of_mag this]
  unfold ofRat ofRatS; simp

/-! ### rounding is monotone in the float order -/

theorem roundMag_lt_P63 (q : Rat) : roundMag q < P63 := by
  have := roundMag_le_inf q; omega

theorem isNaN_ofRatS (s : Bool) (q : Rat) : (ofRatS s q).isNaN = false := by
  unfold ofRatS
  split
  · unfold zero; exact isNaN_ofSM _ (by omega)
  · exact isNaN_ofSM _ (roundMag_le_inf _)

theorem key_ofRatS (s : Bool) (q : Rat) :
    (ofRatS s q).key = if q < 0 then -(roundMag (-q) : Int) else (roundMag q : Int) := by
  unfold ofRatS
  by_cases h0 : q = 0
  · subst h0
    rw [if_pos rfl]
    unfold zero
    rw [key_ofSM s (by omega)]
    have : ¬ ((0 : Rat) < 0) := by grind
    rw [if_neg this, roundMag_zero]
    cases s <;> simp
  · rw [if_neg h0, key_ofSM _ (roundMag_lt_P63 _)]
    unfold absRat
    by_cases hn : q < 0 <;> simp [hn]

theorem ofRatS_le_ofRatS (s₁ s₂ : Bool) {q₁ q₂ : Rat} (h : q₁ ≤ q₂) :
    le (ofRatS s₁ q₁) (ofRatS s₂ q₂) = true := by
  unfold le
  rw [isNaN_ofRatS, isNaN_ofRatS, key_ofRatS, key_ofRatS]
  simp only [Bool.not_false, Bool.true_and, decide_eq_true_eq]
  by_cases h1 : q₁ < 0
  · by_cases h2 : q₂ < 0
    · rw [if_pos h1, if_pos h2]
      have := roundMag_mono (q₁ := -q₂) (q₂ := -q₁) (by grind) (by grind)
      omega
    · rw [if_pos h1, if_neg h2]; omega
  · have h2 : ¬ q₂ < 0 := by grind
    rw [if_neg h1, if_neg h2]
    have := roundMag_mono (q₁ := q₁) (q₂ := q₂) (by grind) h
    omega

/-- **(c)** `ofRat` is monotone: `q₁ ≤ q₂ → ofRat q₁ ≤ ofRat q₂` in the IEEE order. -/
theorem ofRat_mono {q₁ q₂ : Rat} (h : q₁ ≤ q₂) : le (ofRat q₁) (ofRat q₂) = true :=
  ofRatS_le_ofRatS _ _ h

/-! ### representable values -/

/-- `q` is exactly the value of a finite float. -/
def Rep (q : Rat) : Prop := ∃ y : F64, y.isFinite = true ∧ y.toRat = q

theorem isFinite_iff (x : F64) : x.isFinite = true ↔ x.mag < InfMag := by simp [isFinite]

theorem magScale_magSig_of (E s : Nat) (hs : s < P53) (hn : E = 0 ∨ P52 ≤ s) :
    magScale (E * P52 + s) = E ∧ magSig (E * P52 + s) = s := by
  unfold magSig magScale
  omega

theorem pow2_52 : (2 : Nat) ^ 52 = P52 := by decide
theorem pow2_53 : (2 : Nat) ^ 53 = P53 := by decide

/-- Normalisation: a dyadic `m·2^e/2^1074` with a significand below `2^53` and below the overflow
    threshold is the value of a finite magnitude pattern. -/
theorem exists_mag_of_dyadic (m e : Nat) (hm : m < P53) (hr : m * 2 ^ e < 2 ^ 2098) :
    ∃ p, p < InfMag ∧ magVal p = ((m * 2 ^ e : Nat) : Rat) / two1074 := by
  by_cases hm0 : m = 0
  · subst hm0
    refine ⟨0, by omega, ?_⟩
    rw [magVal_zero]; simp [Rat.div_def]
  · have hL1 : 2 ^ m.log2 ≤ m := Nat.log2_self_le hm0
    have hL2 : m < 2 ^ (m.log2 + 1) := Nat.lt_log2_self
    have hL : m.log2 ≤ 52 := by
      have : m.log2 < 53 := (Nat.log2_lt hm0).mpr (by rw [pow2_53]; exact hm)
      omega
    by_cases hek : 52 - m.log2 ≤ e
    · -- normal: shift the significand up to 53 bits
      let k := 52 - m.log2
      have hk : m.log2 + k = 52 := by omega
      have s1 : P52 ≤ m * 2 ^ k := by
        have : 2 ^ m.log2 * 2 ^ k ≤ m * 2 ^ k := Nat.mul_le_mul_right _ hL1
        rwa [← Nat.pow_add, hk, pow2_52] at this
      have s2 : m * 2 ^ k < P53 := by
        have : m * 2 ^ k < 2 ^ (m.log2 + 1) * 2 ^ k :=
          Nat.mul_lt_mul_of_pos_right hL2 (Nat.pow_pos (by decide))
        rwa [← Nat.pow_add, show m.log2 + 1 + k = 53 by omega, pow2_53] at this
      have hval : m * 2 ^ k * 2 ^ (e - k) = m * 2 ^ e := by
        rw [Nat.mul_assoc, ← Nat.pow_add, show k + (e - k) = e by omega]
      have hE : e - k ≤ 2045 := by
        apply Classical.byContradiction
        intro hc
        have h1 : 2 ^ 2046 ≤ 2 ^ (e - k) := Nat.pow_le_pow_right (by decide) (by omega)
        have h2 : 2 ^ 52 * 2 ^ 2046 ≤ m * 2 ^ k * 2 ^ (e - k) := Nat.mul_le_mul (by rw [pow2_52]; exact s1) h1
        rw [hval, ← Nat.pow_add] at h2
        omega
      obtain ⟨p1, p2⟩ := magScale_magSig_of (e - k) (m * 2 ^ k) s2 (Or.inr s1)
      refine ⟨(e - k) * P52 + m * 2 ^ k, by omega, ?_⟩
      unfold magVal
      rw [p1, p2, hval]
    · -- subnormal: the value is a multiple of 2^-1074 below 2^52 units
      have s2 : m * 2 ^ e < P52 := by
        have : m * 2 ^ e < 2 ^ (m.log2 + 1) * 2 ^ e :=
          Nat.mul_lt_mul_of_pos_right hL2 (Nat.pow_pos (by decide))
        rw [← Nat.pow_add] at this
        have h2 : 2 ^ (m.log2 + 1 + e) ≤ 2 ^ 52 := Nat.pow_le_pow_right (by decide) (by omega)
        rw [pow2_52] at h2
        omega
      obtain ⟨p1, p2⟩ := magScale_magSig_of 0 (m * 2 ^ e) (by omega) (Or.inl rfl)
      refine ⟨0 * P52 + m * 2 ^ e, by omega, ?_⟩
      unfold magVal
      rw [p1, p2]; simp

theorem isFinite_ofSM (s : Bool) {p : Nat} (h : p < InfMag) : (ofSM s p).isFinite = true := by
  rw [isFinite_iff, mag_ofSM s (by omega)]; exact h

theorem rep_of_dyadic (m e : Nat) (hm : m < P53) (hr : m * 2 ^ e < 2 ^ 2098) :
    Rep (((m * 2 ^ e : Nat) : Rat) / two1074) := by
  obtain ⟨p, hp, hv⟩ := exists_mag_of_dyadic m e hm hr
  refine ⟨ofSM false p, isFinite_ofSM _ hp, ?_⟩
  rw [toRat_of_pos (sign_ofSM _ (by omega)), mag_ofSM _ (by omega), hv]

theorem mag_neg (x : F64) : (neg x).mag = x.mag := by
  unfold neg; exact mag_ofSM _ (mag_lt x)

theorem sign_neg (x : F64) : (neg x).sign = !x.sign := by
  unfold neg; exact sign_ofSM _ (mag_lt x)

theorem toRat_neg (x : F64) : (neg x).toRat = -x.toRat := by
  unfold toRat
  rw [mag_neg, sign_neg]
  cases x.sign <;> simp [Rat.neg_neg]

theorem isFinite_neg (x : F64) : (neg x).isFinite = x.isFinite := by
  unfold isFinite; rw [mag_neg]

theorem rep_neg {q : Rat} (h : Rep q) : Rep (-q) := by
  obtain ⟨y, hf, hv⟩ := h
  exact ⟨neg y, by rw [isFinite_neg]; exact hf, by rw [toRat_neg, hv]⟩

theorem rep_zero : Rep 0 :=
  ⟨zero false, isFinite_ofSM _ (by omega), toRat_eq_zero_of_mag (mag_ofSM _ (by omega))⟩

/-- Every natural number up to `2^53` is a float. -/
theorem rep_nat {n : Nat} (h : n ≤ P53) : Rep (n : Rat) := by
  have key : ∀ (m e : Nat), m * 2 ^ e = n * 2 ^ 1074 →
      ((m * 2 ^ e : Nat) : Rat) / two1074 = (n : Rat) := by
    intro m e he
    rw [he, Rat.natCast_mul, ← two1074_eq]
    exact Rat.mul_div_cancel two1074_ne
  by_cases hn : n < P53
  · have := rep_of_dyadic n 1074 hn (by
      have : n * 2 ^ 1074 < 2 ^ 53 * 2 ^ 1074 := Nat.mul_lt_mul_of_pos_right (by rw [pow2_53]; exact hn) (Nat.pow_pos (by decide))
      rw [← Nat.pow_add] at this
      exact Nat.lt_of_lt_of_le this (Nat.pow_le_pow_right (by decide) (by omega)))
    rwa [key n 1074 rfl] at this
  · have hn' : n = 2 ^ 53 := by rw [pow2_53]; omega
    have := rep_of_dyadic 1 1127 (by omega) (by
      rw [Nat.one_mul]; exact Nat.pow_lt_pow_right (by decide) (by omega))
    rwa [key 1 1127 (by rw [hn', Nat.one_mul, ← Nat.pow_add])] at this

/-- **(b)** Every integer `n` with `|n| ≤ 2^53` is a float. -/
theorem rep_int {n : Int} (h : n.natAbs ≤ P53) : Rep (n : Rat) := by
  rcases Int.natAbs_eq n with e | e
  · rw [e]; exact rep_nat h
  · rw [e, Rat.intCast_neg]; exact rep_neg (rep_nat h)

/-- Rounding a representable value returns it (with the requested sign of zero). -/
theorem ofRatS_rep (s : Bool) {q : Rat} (h : Rep q) :
    (ofRatS s q).isFinite = true ∧ (ofRatS s q).toRat = q := by
  obtain ⟨y, hf, hv⟩ := h
  by_cases h0 : q = 0
  · subst h0
    unfold ofRatS; rw [if_pos rfl]
    exact ⟨isFinite_ofSM _ (by omega), toRat_eq_zero_of_mag (mag_ofSM _ (by omega))⟩
  · have hy := ofRatS_toRat y hf
    rw [hv] at hy
    have : ofRatS s q = ofRatS y.sign q := by
      unfold ofRatS; rw [if_neg h0, if_neg h0]
    rw [this, hy]; exact ⟨hf, hv⟩

/-- **(b)** `toRat? (ofRat n) = some n` for every integer `|n| ≤ 2^53`. -/
theorem ofRat_exact_int {n : Int} (h : n.natAbs ≤ P53) : (ofRat (n : Rat)).toRat? = some (n : Rat) := by
  obtain ⟨a, b⟩ := ofRatS_rep false (rep_int h)
  unfold toRat? ofRat; rw [a, b]; rfl

/-- **(b)** More generally every `±m·2^e/2^1074` (`m < 2^53`, below the overflow threshold). -/
theorem ofRat_exact_dyadic (neg : Bool) (m e : Nat) (hm : m < P53) (hr : m * 2 ^ e < 2 ^ 2098) :
    let q : Rat := (if neg then -1 else 1) * (((m * 2 ^ e : Nat) : Rat) / two1074)
    (ofRat q).toRat? = some q := by
  intro q
  have hrep : Rep q := by
    have := rep_of_dyadic m e hm hr
    cases neg
    · simpa [q] using this
    · have := rep_neg this
      simpa [q, Rat.neg_mul] using this
  obtain ⟨a, b⟩ := ofRatS_rep false hrep
  unfold toRat? ofRat; rw [a, b]; rfl

end Rare.F64
