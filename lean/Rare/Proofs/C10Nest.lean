import Rare.Proofs.C10
import Rare.Proofs.C09Errors
import Rare.Proofs.C09Utf8Char
/-!
C10: nested user-defined functions and the loader.

* `withArgs_compose`: substitution composes – calling an outer function whose body calls an inner function is
  the inner body with its parameters replaced by the inner call's arguments, in which the outer parameters
  have been replaced by the outer call's arguments ("doubly inlined").
* `nest_run`: at every depth of nesting the innermost body runs in the context built level by level: each
  level's arguments are evaluated in the context of the level outside it, named keys and negative indices
  are the outermost caller's, an index beyond a level's arguments reads as empty.
* `loadDefs_spec`: what `LoadDefinitions` adds to the registry, in file order.
-/
namespace Rare.C10
open Rare Rare.Expr

theorem withArgs_bind {α β : Type} (args : List Stage) (c : Comp α) (f : α → Comp β) :
    withArgs args (c.bind f) = (withArgs args c).bind fun v => withArgs args (f v) := by
  induction c with
  | ret a => rfl
  | getKey s k ih => simp only [Comp.bind, withArgs]; congr 1; funext b; exact ih b
  | panic m => rfl
  | getMatch i k ih =>
    simp only [Comp.bind, withArgs]
    split
    · simp only [Comp.bind]; congr 1; funext b; exact ih b
    · split
      · exact ih []
      · rw [Comp.bind_assoc]; congr 1; funext v; exact ih v

theorem getD_map_withArgs (outer inner : List Stage) (n : Nat) (h : n < inner.length) :
    (inner.map (withArgs outer)).getD n (.ret []) = withArgs outer (inner.getD n (.ret [])) := by
  rw [List.getD_eq_getElem?_getD, List.getD_eq_getElem?_getD, List.getElem?_map,
    List.getElem?_eq_getElem h]
  rfl

/-- **Substitution composes.** -/
theorem withArgs_compose {α : Type} (outer inner : List Stage) (c : Comp α) :
    withArgs outer (withArgs inner c) = withArgs (inner.map (withArgs outer)) c := by
  induction c with
  | ret a => rfl
  | getKey s k ih => simp only [withArgs]; congr 1; funext b; exact ih b
  | panic m => rfl
  | getMatch i k ih =>
    simp only [withArgs, List.length_map]
    split
    · rename_i hneg
      simp only [withArgs, hneg, if_true]; congr 1; funext b; exact ih b
    · split
      · exact ih []
      · rename_i h0 h1
        rw [withArgs_bind, getD_map_withArgs outer inner i.toNat (by omega)]
        congr 1; funext v; exact ih v

/-! ### every depth -/

/-- The stage of a chain of nested calls: `c` is the innermost body, the list holds the argument stages of
    the calls from the INNERMOST call (made inside the body of the function one level out) to the OUTERMOST
    (made by the template). -/
def nest {α : Type} (c : Comp α) : List (List Stage) → Comp α
  | [] => c
  | as :: outer => nest (withArgs as c) outer

/-- The contexts of a chain of nested calls, from the outermost caller's match inwards: each level's argument
    stages are evaluated in the context of the level outside it. -/
inductive Levels : Ctx → List (List Stage) → Ctx → Prop
  | nil (ctx : Ctx) : Levels ctx [] ctx
  | cons (ctx mid : Ctx) (as : List Stage) (outer : List (List Stage)) (vals : List Bytes) :
      Levels ctx outer mid → as.map (·.run mid) = vals.map .ok →
      Levels ctx (as :: outer) (argCtx mid as.length vals)

theorem nest_run {α : Type} (ctx : Ctx) : ∀ (levels : List (List Stage)) (inner : Ctx) (c : Comp α),
    Levels ctx levels inner → (nest c levels).run ctx = c.run inner := by
  intro levels
  induction levels with
  | nil => intro inner c h; cases h; rfl
  | cons as outer ih =>
    intro inner c h
    cases h with
    | cons mid _ _ vals hl hv =>
      rw [nest, ih mid (withArgs as c) hl, withArgs_run as mid vals hv]

/-- Named keys and negative indices are the outermost caller's at every level. -/
theorem levels_passthrough {ctx inner : Ctx} {levels : List (List Stage)} (h : Levels ctx levels inner) :
    inner.getKey = ctx.getKey ∧ ∀ i : Int, i < 0 → inner.getMatch i = ctx.getMatch i := by
  induction h with
  | nil => exact ⟨rfl, fun _ _ => rfl⟩
  | cons mid as outer vals _ _ ih =>
    refine ⟨ih.1, fun i hi => ?_⟩
    simp only [argCtx, hi, if_true]
    exact ih.2 i hi

/-! ### the loader -/

/-- What `LoadDefinitions` does with a list of phrases, as a relation: the functions added, in file order,
    each compiled (optimiser on) against the registry extended by exactly the functions added BEFORE it. -/
inductive Loaded : Registry → List (Option (Bytes × Bytes)) → List (List Char × Builder) → Prop
  | done (reg : Registry) : Loaded reg [] []
  | noExpr (reg : Registry) (rest : List (Option (Bytes × Bytes))) (fs : List (List Char × Builder)) :
      Loaded reg rest fs → Loaded reg (none :: rest) fs
  | rejected (reg : Registry) (name expr : Bytes) (rest : List (Option (Bytes × Bytes)))
      (fs : List (List Char × Builder)) (stages : List Stage) (errs : List CErr) :
      C09.compileBytes reg true expr = .ok (stages, errs) → (errs ≠ [] ∨ C09.wellFormed name = false) →
      Loaded reg rest fs → Loaded reg (some (name, expr) :: rest) fs
  | added (reg : Registry) (name expr : Bytes) (rest : List (Option (Bytes × Bytes)))
      (fs : List (List Char × Builder)) (stages : List Stage) :
      C09.compileBytes reg true expr = .ok (stages, []) → C09.wellFormed name = true →
      Loaded (extend reg (C09.decodeRunes name) (userFunction stages)) rest fs →
      Loaded reg (some (name, expr) :: rest) ((C09.decodeRunes name, userFunction stages) :: fs)

theorem withFuncs_cons (reg : Registry) (n : List Char) (f : Builder) (fs : List (List Char × Builder)) :
    withFuncs reg ((n, f) :: fs) = withFuncs (extend reg n f) fs := rfl

theorem loadDefs_spec : ∀ (defs : List (Option (Bytes × Bytes))) (reg r : Registry) (fs : List (List Char × Builder)),
    loadDefs reg defs = .ok (r, fs) → Loaded reg defs fs ∧ r = withFuncs reg fs := by
  intro defs
  induction defs with
  | nil =>
    intro reg r fs h
    simp only [loadDefs, Except.ok.injEq, Prod.mk.injEq] at h
    obtain ⟨rfl, rfl⟩ := h
    exact ⟨.done _, rfl⟩
  | cons d rest ih =>
    intro reg r fs h
    cases d with
    | none =>
      simp only [loadDefs] at h
      obtain ⟨h1, h2⟩ := ih reg r fs h
      exact ⟨.noExpr _ _ _ h1, h2⟩
    | some p =>
      obtain ⟨name, expr⟩ := p
      simp only [loadDefs] at h
      cases hc : C09.compileBytes reg true expr with
      | error m => rw [hc] at h; cases h
      | ok q =>
        obtain ⟨stages, errs⟩ := q
        rw [hc] at h
        simp only [] at h
        by_cases hok : (errs.isEmpty && C09.wellFormed name) = true
        · simp only [hok, if_true] at h
          simp only [Bool.and_eq_true, List.isEmpty_iff] at hok
          obtain ⟨he, hw⟩ := hok
          subst he
          cases hl : loadDefs (extend reg (C09.decodeRunes name) (userFunction stages)) rest with
          | error m => rw [hl] at h; cases h
          | ok q2 =>
            obtain ⟨r2, fs2⟩ := q2
            rw [hl] at h
            simp only [Except.ok.injEq, Prod.mk.injEq] at h
            obtain ⟨rfl, rfl⟩ := h
            obtain ⟨h1, h2⟩ := ih _ _ _ hl
            exact ⟨.added _ _ _ _ _ _ hc hw h1, by rw [withFuncs_cons]; exact h2⟩
        · simp only [hok, Bool.false_eq_true, if_false] at h
          obtain ⟨h1, h2⟩ := ih reg r fs h
          refine ⟨.rejected _ _ _ _ _ stages errs hc ?_ h1, h2⟩
          simp only [Bool.and_eq_true, List.isEmpty_iff, not_and, Bool.not_eq_true] at hok
          by_cases he : errs = []
          · exact Or.inr (hok he)
          · exact Or.inl he

/-- …and conversely the relation determines the loader's answer. -/
theorem loadDefs_of_loaded {reg : Registry} {defs : List (Option (Bytes × Bytes))} {fs : List (List Char × Builder)}
    (h : Loaded reg defs fs) : loadDefs reg defs = .ok (withFuncs reg fs, fs) := by
  induction h with
  | done reg => rfl
  | noExpr reg rest fs _ ih => simpa only [loadDefs] using ih
  | rejected reg name expr rest fs stages errs hc hbad _ ih =>
    simp only [loadDefs, hc]
    have : (errs.isEmpty && C09.wellFormed name) = false := by
      rcases hbad with h | h
      · cases errs with
        | nil => exact absurd rfl h
        | cons _ _ => rfl
      · rw [h]; simp
    simp only [this, Bool.false_eq_true, if_false]
    exact ih
  | added reg name expr rest fs stages hc hw _ ih =>
    simp only [loadDefs, hc, hw, List.isEmpty_nil, Bool.and_self, if_true, ih]
    rfl

/-- **Forward references and recursion are compile errors.**  A definition whose body is a call `{g …}` of a
    name the compiler does not know *at that point* – not a builtin, not defined EARLIER in the file; in
    particular its own name, or a name defined later – compiles with `ErrorMissingFunction`, so it is logged
    and not added: the loader goes on exactly as if the line were not there. -/
theorem loadDefs_unknown_callee (reg : Registry) (name : Bytes) (w0 g w1 : List Char) (p1 : C09.Piece)
    (more : List (List Char × C09.Piece)) (trail : List Char) (rest : List (Option (Bytes × Bytes)))
    (hl : C09.LayoutOk true ((w0, .bare g) :: (w1, p1) :: more)) (ht : C09.allSpace trail = true)
    (hg : reg g = none) :
    loadDefs reg (some (name, encodeRunes ('{' :: ((C09.layout ((w0, .bare g) :: (w1, p1) :: more) ++ trail) ++ ['}']))) :: rest)
      = loadDefs reg rest := by
  obtain ⟨st, hc, _⟩ := C09.compileF_missing_function
    (('{' :: ((C09.layout ((w0, .bare g) :: (w1, p1) :: more) ++ trail) ++ ['}'])).length) reg true w0 g w1 p1 more trail hl ht hg
  have hcb : C09.compileBytes reg true (encodeRunes ('{' :: ((C09.layout ((w0, .bare g) :: (w1, p1) :: more) ++ trail) ++ ['}'])))
      = .ok (st, [⟨.missingFunction, C09.layout ((w0, .bare g) :: (w1, p1) :: more) ++ trail, 0⟩]) := by
    rw [C09.compileBytes, C09.decodeRunes_encodeRunes]; exact hc
  simp only [loadDefs, hcb, List.isEmpty_cons, Bool.false_and, Bool.false_eq_true, if_false]

end Rare.C10
