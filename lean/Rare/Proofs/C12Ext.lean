import Rare.Proofs.C12Grammar
import Rare.Proofs.C12Go
/-! Round 4 helper lemmas for C12: the fold is positional and ASCII-only, result shape and the
name table, the leading literal of an ignore-case match seen in the ORIGINAL line. -/
namespace Rare.C12

/-- no ASCII upper-case letter -/
def NoUpper (l : Bytes) : Prop := ∀ c ∈ l, ¬ (65 ≤ c ∧ c ≤ 90)

instance (l : Bytes) : Decidable (NoUpper l) := by unfold NoUpper; exact inferInstance

theorem lowerByte_of_not_upper {c : UInt8} (h : ¬ (65 ≤ c ∧ c ≤ 90)) : lowerByte c = c := by
  simp [lowerByte, h]

theorem lower_of_noUpper {l : Bytes} (h : NoUpper l) : lower l = l := by
  induction l with
  | nil => rfl
  | cons c cs ih =>
    have hc := h c (by simp)
    have := ih (fun x hx => h x (by simp [hx]))
    simp only [lower, List.map_cons] at this ⊢
    rw [this, lowerByte_of_not_upper hc]

theorem lower_getElem? (l : Bytes) (i : Nat) : (lower l)[i]? = l[i]?.map lowerByte := by
  simp [lower]

theorem lower_take (b : Bytes) (k : Nat) : lower (b.take k) = (lower b).take k := by
  simp [lower, List.map_take]

/-! ### shape of a result -/

theorem capCount_cons (t : Tok) (ts : List Tok) :
    capCount (t :: ts) = (if t.skip then 0 else 1) + capCount ts := by
  by_cases hs : t.skip = true
  · simp [capCount, List.filter, hs]
  · simp [capCount, List.filter, hs]; omega

theorem specToks_caps_length {line : Bytes} : ∀ {ts : List Tok} {pos : Nat} {caps : List Nat} {e : Nat},
    specToks line ts pos = some (caps, e) → caps.length = 2 * capCount ts := by
  intro ts
  induction ts with
  | nil => intro pos caps e h; simp [specToks] at h; simp [h.1, capCount]
  | cons t ts ih =>
    intro pos caps e h
    rw [specToks_cons] at h
    cases hl : tokLen line t pos with
    | none => simp [hl] at h
    | some n =>
      simp only [hl] at h
      cases hr : specToks line ts (pos + n + t.lit.length) with
      | none => simp [hr] at h
      | some ce =>
        obtain ⟨caps', e'⟩ := ce
        simp only [hr, Option.some.injEq, Prod.mk.injEq] at h
        have := ih hr
        rw [← h.1, capCount_cons, List.length_append, this]
        by_cases hs : t.skip = true
        · simp [hs]
        · simp [hs]; omega

theorem specDissect_length {p : Pat} {line : Bytes} {r : List Nat} (h : specDissect p line = some r) :
    r.length = 2 * capCount p.toks + 2 := by
  unfold specDissect at h
  cases hf : firstIndex p.pre line with
  | none => simp [hf] at h
  | some s =>
    simp only [hf] at h
    cases hr : specToks line p.toks (s + p.pre.length) with
    | none => simp [hr] at h
    | some ce =>
      obtain ⟨caps, e⟩ := ce
      simp only [hr, Option.some.injEq] at h
      rw [← h]; simp [specToks_caps_length hr]

theorem capCount_eq_names (toks : List Tok) : capCount toks = (capturedNames toks).length := by
  simp [capCount, capturedNames]

theorem nameTable_eq (toks : List Tok) : nameTable toks = (capturedNames toks).zipIdx 1 := rfl

theorem mem_nameTable {toks : List Tok} {nm : Bytes} {i : Nat} :
    (nm, i) ∈ nameTable toks ↔ 1 ≤ i ∧ (capturedNames toks)[i - 1]? = some nm := by
  rw [nameTable_eq]; exact List.mem_zipIdx_iff_le_and_getElem?_sub

theorem nameTable_functional {toks : List Tok} (hn : (capturedNames toks).Nodup) {nm : Bytes} {i j : Nat}
    (hi : (nm, i) ∈ nameTable toks) (hj : (nm, j) ∈ nameTable toks) : i = j := by
  rw [mem_nameTable] at hi hj
  have hlt : i - 1 < (capturedNames toks).length := by
    rcases Nat.lt_or_ge (i - 1) (capturedNames toks).length with h' | h'
    · exact h'
    · rw [List.getElem?_eq_none h'] at hi; cases hi.2
  have := (List.getElem?_inj (j := j - 1) hlt hn).mp (hi.2.trans hj.2.symm)
  omega

/-- consecutive elements of a `≤`-chain -/
theorem pairwise_getElem_le {l : List Nat} (h : l.Pairwise (· ≤ ·)) {i j : Nat} (hij : i < j) {a b : Nat}
    (ha : l[i]? = some a) (hb : l[j]? = some b) : a ≤ b := by
  rw [List.pairwise_iff_getElem] at h
  have hi : i < l.length := by
    rcases Nat.lt_or_ge i l.length with h' | h'
    · exact h'
    · rw [List.getElem?_eq_none h'] at ha; cases ha
  have hj : j < l.length := by
    rcases Nat.lt_or_ge j l.length with h' | h'
    · exact h'
    · rw [List.getElem?_eq_none h'] at hb; cases hb
  rw [List.getElem?_eq_getElem hi] at ha
  rw [List.getElem?_eq_getElem hj] at hb
  have := h i j hi hj hij
  rw [Option.some.inj ha, Option.some.inj hb] at this
  exact this

/-- the slot pair of the `i`-th name (1-based) exists, is ordered and lies in the line -/
theorem specDissect_slot {p : Pat} {line : Bytes} {r : List Nat} (h : specDissect p line = some r)
    {i : Nat} (h1 : 1 ≤ i) (h2 : i ≤ capCount p.toks) :
    ∃ a b, r[2 * i]? = some a ∧ r[2 * i + 1]? = some b ∧ a ≤ b ∧ b ≤ line.length := by
  have hlen := specDissect_length h
  obtain ⟨s, e, caps, hr, hpw, he, _⟩ := specDissect_ordered h
  have hcl : caps.length = 2 * capCount p.toks := by
    have := hlen; rw [hr] at this; simp at this; omega
  have ha : 2 * i - 2 < caps.length := by omega
  have hb : 2 * i - 1 < caps.length := by omega
  refine ⟨caps[2 * i - 2], caps[2 * i - 1], ?_, ?_, ?_, ?_⟩
  · rw [hr]
    obtain ⟨m, hm⟩ : ∃ m, 2 * i = m + 1 + 1 := ⟨2 * i - 2, by omega⟩
    have hm' : 2 * i - 2 = m := by omega
    simp only [hm, List.getElem?_cons_succ]
    exact List.getElem?_eq_getElem (by omega)
  · rw [hr]
    obtain ⟨m, hm⟩ : ∃ m, 2 * i + 1 = m + 1 + 1 := ⟨2 * i - 1, by omega⟩
    have hm' : 2 * i - 1 = m := by omega
    simp only [hm, hm', List.getElem?_cons_succ]
    exact List.getElem?_eq_getElem (by omega)
  · have hpw' : (caps ++ [e]).Pairwise (· ≤ ·) := (List.pairwise_cons.mp hpw).2
    apply pairwise_getElem_le hpw' (i := 2 * i - 2) (j := 2 * i - 1) (by omega)
    · rw [List.getElem?_append_left (by omega), List.getElem?_eq_getElem ha]
    · rw [List.getElem?_append_left (by omega), List.getElem?_eq_getElem hb]
  · have hpw' : (caps ++ [e]).Pairwise (· ≤ ·) := (List.pairwise_cons.mp hpw).2
    have : caps[2 * i - 1] ≤ e := by
      apply pairwise_getElem_le hpw' (i := 2 * i - 1) (j := caps.length) (by omega)
      · rw [List.getElem?_append_left (by omega), List.getElem?_eq_getElem hb]
      · simp
    omega

/-! ### the leading literal of a match, read in the ORIGINAL line -/

theorem specDissect_leading {p : Pat} {line : Bytes} {r : List Nat} (h : specDissect p line = some r) :
    ∃ s rest, r = s :: rest ∧ s + p.pre.length ≤ line.length ∧ (line.drop s).take p.pre.length = p.pre ∧
      ∀ j < s, ¬ p.pre <+: line.drop j := by
  unfold specDissect at h
  cases hf : firstIndex p.pre line with
  | none => simp [hf] at h
  | some s =>
    simp only [hf] at h
    cases hr : specToks line p.toks (s + p.pre.length) with
    | none => simp [hr] at h
    | some ce =>
      simp only [hr, Option.some.injEq] at h
      have hp := firstIndex_some_prefix hf
      refine ⟨s, _, h.symm, hp.2, ?_, fun j hj => firstIndex_min hf hj⟩
      exact (List.prefix_iff_eq_take.mp hp.1).symm


/-- either mode: length of a result and its slot pairs -/
theorem specFor_slots {ic : Bool} {p : Pat} {line : Bytes} {r : List Nat} (h : specFor ic p line = some r) :
    r.length = 2 * capCount p.toks + 2 ∧
    ∀ i, 1 ≤ i → i ≤ capCount p.toks →
      ∃ a b, r[2 * i]? = some a ∧ r[2 * i + 1]? = some b ∧ a ≤ b ∧ b ≤ line.length := by
  cases ic with
  | false =>
    have h' : specDissect p line = some r := by simpa [specFor] using h
    exact ⟨specDissect_length h', fun i h1 h2 => specDissect_slot h' h1 h2⟩
  | true =>
    have h' : specDissect p.lowerLits (lower line) = some r := by simpa [specFor, specDissectIC] using h
    have hc : capCount p.lowerLits.toks = capCount p.toks := capCount_lowerLit p.toks
    refine ⟨by rw [specDissect_length h', hc], fun i h1 h2 => ?_⟩
    have := specDissect_slot h' h1 (by rw [hc]; exact h2)
    simpa [lower_length] using this

/-- ignore-case: the leading literal of a match, folded, stands at the reported offset of the
ORIGINAL line, and nowhere earlier -/
theorem specDissectIC_leading {p : Pat} {line : Bytes} {r : List Nat} (h : specDissectIC p line = some r) :
    ∃ s rest, r = s :: rest ∧ s + p.pre.length ≤ line.length ∧
      lower ((line.drop s).take p.pre.length) = lower p.pre ∧
      ∀ j < s, ¬ lower p.pre <+: lower (line.drop j) := by
  obtain ⟨s, rest, hr, hl, ht, hmin⟩ := specDissect_leading (p := p.lowerLits) (line := lower line) h
  refine ⟨s, rest, hr, by simpa [Pat.lowerLits, lower_length] using hl, ?_, ?_⟩
  · simpa [Pat.lowerLits, lower_length, lower_take, lower_drop] using ht
  · intro j hj
    simpa [Pat.lowerLits, lower_drop] using hmin j hj

theorem specDissectIC_of_noUpper {p : Pat} {line : Bytes} (hl : NoUpper line) (hp : NoUpper p.pre)
    (ht : ∀ t ∈ p.toks, NoUpper t.lit) : specDissectIC p line = specDissect p line := by
  have h1 : p.lowerLits = p := by
    cases p with
    | mk pre toks =>
      simp only [Pat.lowerLits, Pat.mk.injEq]
      refine ⟨lower_of_noUpper hp, ?_⟩
      have : ∀ t ∈ toks, Tok.lowerLit t = t := by
        intro t htm
        cases t with
        | mk key lit => simp [Tok.lowerLit, lower_of_noUpper (ht _ htm)]
      calc toks.map Tok.lowerLit = toks.map id := List.map_congr_left this
        _ = toks := List.map_id _
  rw [specDissectIC, h1, lower_of_noUpper hl]

/-- ignore-case finds the leading literal and the end of the match NO LATER than case-sensitive -/
theorem specDissect_ci_mono_le {p : Pat} {line : Bytes} {r : List Nat} (h : specDissect p line = some r) :
    ∃ s e caps s' e' caps', r = s :: e :: caps ∧ specDissectIC p line = some (s' :: e' :: caps') ∧
      s' ≤ s ∧ e' ≤ e ∧ caps'.length = caps.length := by
  have hlen := specDissect_length h
  simp only [specDissect] at h
  split at h
  · cases h
  · rename_i s hs
    split at h
    · cases h
    · rename_i caps e hrec
      have hs0 : firstIndex p.pre (line.drop 0) = some s := by simpa using hs
      obtain ⟨s', hs', hle⟩ := firstIndex_lower_le (pos' := 0) hs0 (Nat.le_refl 0)
      obtain ⟨c', e', h', hee⟩ := specToks_ci_mono (pos' := s' + (lower p.pre).length) hrec
        (by simp [lower_length]; omega)
      have hic : specDissectIC p line = some (s' :: e' :: c') := by
        simp only [specDissectIC, specDissect, Pat.lowerLits]
        simp only [List.drop_zero] at hs'
        rw [hs']; simp only []; rw [h']
      refine ⟨s, e, caps, s', e', c', (Option.some.inj h).symm, hic, by omega, hee, ?_⟩
      have h1 := specToks_caps_length hrec
      have h2 := specToks_caps_length h'
      rw [capCount_lowerLit] at h2
      omega

theorem find_same_dissect {s s' : Instance} {str : Bytes} {r : Option View}
    (h : findSubmatchIndex s str = .ok (r, s')) : s'.d = s.d := by
  unfold findSubmatchIndex at h
  simp only at h
  repeat' split at h
  all_goals first | cases h; rfl | cases h


def pick (w : Bool) {α : Type} (l : List (Bool × α)) : List α := (l.filter fun x => x.1 == w).map (·.2)

theorem runTwo_split : ∀ (sched : List (Bool × Bytes)) (a b : Instance) rs a' b',
    runTwo a b sched = .ok (rs, a', b') →
    runLines a (pick true sched) = .ok (pick true rs, a') ∧
    runLines b (pick false sched) = .ok (pick false rs, b') := by
  intro sched
  induction sched with
  | nil =>
    intro a b rs a' b' h
    simp only [runTwo, Except.ok.injEq, Prod.mk.injEq] at h
    obtain ⟨rfl, rfl, rfl⟩ := h
    simp [pick, runLines]
  | cons x rest ih =>
    intro a b rs a' b' h
    obtain ⟨w, l⟩ := x
    cases w with
    | true =>
      simp only [runTwo, if_true] at h
      cases hf : findSubmatchIndex a l with
      | error e => simp [hf] at h
      | ok ra =>
        obtain ⟨r, a1⟩ := ra
        simp only [hf] at h
        cases hr : runTwo a1 b rest with
        | error e => simp [hr] at h
        | ok t =>
          obtain ⟨rs1, a2, b2⟩ := t
          simp only [hr, Except.ok.injEq, Prod.mk.injEq] at h
          obtain ⟨rfl, rfl, rfl⟩ := h
          obtain ⟨h1, h2⟩ := ih a1 b rs1 a2 b2 hr
          refine ⟨?_, ?_⟩
          · simp only [pick, List.filter_cons, beq_self_eq_true, if_true, List.map_cons, runLines, hf]
            simp only [pick] at h1
            rw [h1]
          · simpa [pick, List.filter_cons] using h2
    | false =>
      simp only [runTwo, Bool.false_eq_true, if_false] at h
      cases hf : findSubmatchIndex b l with
      | error e => simp [hf] at h
      | ok rb =>
        obtain ⟨r, b1⟩ := rb
        simp only [hf] at h
        cases hr : runTwo a b1 rest with
        | error e => simp [hr] at h
        | ok t =>
          obtain ⟨rs1, a2, b2⟩ := t
          simp only [hr, Except.ok.injEq, Prod.mk.injEq] at h
          obtain ⟨rfl, rfl, rfl⟩ := h
          obtain ⟨h1, h2⟩ := ih a b1 rs1 a2 b2 hr
          refine ⟨?_, ?_⟩
          · simpa [pick, List.filter_cons] using h1
          · simp only [pick, List.filter_cons, beq_self_eq_true, if_true, List.map_cons, runLines, hf]
            simp only [pick] at h2
            rw [h2]

theorem pick_cons_same (w : Bool) {α : Type} (x : α) (l : List (Bool × α)) :
    pick w ((w, x) :: l) = x :: pick w l := by simp [pick]

theorem pick_cons_other (w : Bool) {α : Type} (x : α) (l : List (Bool × α)) :
    pick w ((!w, x) :: l) = pick w l := by cases w <;> simp [pick]

theorem runTwo_ok : ∀ (sched : List (Bool × Bytes)) (a b : Instance) va a' vb b',
    runLines a (pick true sched) = .ok (va, a') → runLines b (pick false sched) = .ok (vb, b') →
    ∃ rs, runTwo a b sched = .ok (rs, a', b') := by
  intro sched
  induction sched with
  | nil =>
    intro a b va a' vb b' ha hb
    simp only [pick, List.filter_nil, List.map_nil, runLines, Except.ok.injEq, Prod.mk.injEq] at ha hb
    exact ⟨[], by simp [runTwo, ha.2, hb.2]⟩
  | cons x rest ih =>
    intro a b va a' vb b' ha hb
    obtain ⟨w, l⟩ := x
    cases w with
    | true =>
      rw [pick_cons_same] at ha
      have hb' : runLines b (pick false rest) = .ok (vb, b') := by
        have := pick_cons_other false l rest
        simp only [Bool.not_false] at this
        rw [this] at hb; exact hb
      simp only [runLines] at ha
      cases hf : findSubmatchIndex a l with
      | error e => simp [hf] at ha
      | ok ra =>
        obtain ⟨r, a1⟩ := ra
        simp only [hf] at ha
        cases hr : runLines a1 (pick true rest) with
        | error e => simp [hr] at ha
        | ok t =>
          obtain ⟨va1, a2⟩ := t
          simp only [hr, Except.ok.injEq, Prod.mk.injEq] at ha
          obtain ⟨rs, hrs⟩ := ih a1 b va1 a2 vb b' hr hb'
          refine ⟨(true, r) :: rs, ?_⟩
          simp only [runTwo, if_true, hf, hrs, ha.2]
    | false =>
      rw [pick_cons_same] at hb
      have ha' : runLines a (pick true rest) = .ok (va, a') := by
        have := pick_cons_other true l rest
        simp only [Bool.not_true] at this
        rw [this] at ha; exact ha
      simp only [runLines] at hb
      cases hf : findSubmatchIndex b l with
      | error e => simp [hf] at hb
      | ok rb =>
        obtain ⟨r, b1⟩ := rb
        simp only [hf] at hb
        cases hr : runLines b1 (pick false rest) with
        | error e => simp [hr] at hb
        | ok t =>
          obtain ⟨vb1, b2⟩ := t
          simp only [hr, Except.ok.injEq, Prod.mk.injEq] at hb
          obtain ⟨rs, hrs⟩ := ih a b1 va a' vb1 b2 ha' hr
          refine ⟨(false, r) :: rs, ?_⟩
          simp only [runTwo, Bool.false_eq_true, if_false, hf, hrs, hb.2]

end Rare.C12
