import Rare.Model.C07NumHist
import Rare.Proofs.C07NumF64
/-!
C07, `MatchNumerical` as a state machine with `Analyze()` calls between the samples (`Model/C07NumHist.lean`):

* a run with any sorting algorithm behind `Analyze()` (`HistRun`) keeps the aggregator equal, up to the stored ORDER of the
  kept values, to the plain `Samplef` fold over the samples of the history (`histRun_sameUpToOrder`, `histRun_final`);
* the executable machine is such a run (`histRun_is_run`); runs split at every position (`histRun_split`);
* the order statistics of two sorted arrangements of the same samples agree: `medianF_sorted_unique`,
  `quantileF_sorted_unique`, `modeF_sorted_unique` (up to the sign of a zero / the identity of a NaN);
* `sorted_append_iff`: when appending a sample to a sorted slice keeps it sorted – the only situation in which a re-sort
  could be skipped (ascending: the sample is not below the last value; `Reverse`: not above it).
-/
namespace Rare.C07
open Rare Rare.F64

/-- The same aggregator up to the stored order of the kept values. -/
def SameUpToOrder (a b : NumF) : Prop :=
  a.samples = b.samples ∧ a.mean = b.mean ∧ a.variance = b.variance ∧ a.min = b.min ∧ a.max = b.max ∧
  a.parseErrors = b.parseErrors ∧ a.values.Perm b.values

theorem SameUpToOrder.refl (a : NumF) : SameUpToOrder a a := ⟨rfl, rfl, rfl, rfl, rfl, rfl, List.Perm.refl _⟩

theorem sameUpToOrder_samplef (keep : Bool) (a b : NumF) (v : F64) (h : SameUpToOrder a b) :
    SameUpToOrder (NumF.samplef keep a v) (NumF.samplef keep b v) := by
  obtain ⟨h1, h2, h3, h4, h5, h6, h7⟩ := h
  refine ⟨?_, ?_, ?_, ?_, ?_, ?_, ?_⟩
  · show a.samples + 1 = b.samples + 1
    rw [h1]
  · show f64Ops.add a.mean (f64Ops.div (f64Ops.sub v a.mean) (f64Ops.ofNat (a.samples + 1))) =
      f64Ops.add b.mean (f64Ops.div (f64Ops.sub v b.mean) (f64Ops.ofNat (b.samples + 1)))
    rw [h1, h2]
  · show f64Ops.add a.variance (f64Ops.mul (f64Ops.sub v a.mean)
        (f64Ops.sub v (f64Ops.add a.mean (f64Ops.div (f64Ops.sub v a.mean) (f64Ops.ofNat (a.samples + 1)))))) =
      f64Ops.add b.variance (f64Ops.mul (f64Ops.sub v b.mean)
        (f64Ops.sub v (f64Ops.add b.mean (f64Ops.div (f64Ops.sub v b.mean) (f64Ops.ofNat (b.samples + 1))))))
    rw [h1, h2, h3]
  · rw [samplef_min, samplef_min, h4]
  · rw [samplef_max, samplef_max, h5]
  · rw [samplef_parseErrors, samplef_parseErrors, h6]
  · rw [samplef_values, samplef_values]
    cases keep
    · simpa using h7
    · simpa using h7.append_right [v]

theorem sameUpToOrder_sample (keep : Bool) (a b : NumF) (e : Bytes) (h : SameUpToOrder a b) :
    SameUpToOrder (NumF.sample keep a e) (NumF.sample keep b e) := by
  unfold NumF.sample
  cases F64.parseFloat e with
  | none =>
    obtain ⟨h1, h2, h3, h4, h5, h6, h7⟩ := h
    exact ⟨h1, h2, h3, h4, h5, by show a.parseErrors + 1 = b.parseErrors + 1; rw [h6], h7⟩
  | some v => exact sameUpToOrder_samplef keep a b v h

/-- The history without its `Analyze()` calls. -/
def plainStep (keep : Bool) (s : NumF) : NumOp → NumF
  | .samplef v => NumF.samplef keep s v
  | .sample e => NumF.sample keep s e
  | .analyze => s

def plainRun (keep : Bool) (s : NumF) (ops : List NumOp) : NumF := ops.foldl (plainStep keep) s

theorem histStep_sameUpToOrder (keep rev : Bool) {a a' : NumF} {op : NumOp} {o : Option (List F64)}
    (h : HistStep keep rev a op a' o) (b : NumF) (hab : SameUpToOrder a b) :
    SameUpToOrder a' (plainStep keep b op) := by
  cases h with
  | samplef v => exact sameUpToOrder_samplef keep _ b v hab
  | sample e => exact sameUpToOrder_sample keep _ b e hab
  | analyze o hs =>
    obtain ⟨h1, h2, h3, h4, h5, h6, h7⟩ := hab
    exact ⟨h1, h2, h3, h4, h5, h6, hs.1.trans h7⟩

/-- `Analyze()` calls between the samples change nothing but the stored order of the kept values. -/
theorem histRun_sameUpToOrder (keep rev : Bool) {a a' : NumF} {ops : List NumOp} {vs : List (List F64)}
    (h : HistRun keep rev a ops a' vs) : ∀ b : NumF, SameUpToOrder a b → SameUpToOrder a' (plainRun keep b ops) := by
  induction h with
  | nil s => intro b hab; exact hab
  | cons h1 _ ih =>
    intro b hab
    exact ih _ (histStep_sameUpToOrder keep rev h1 b hab)

theorem foldl_samplef_withErrors (keep : Bool) (l : List F64) : ∀ (t : NumF) (n : Nat),
    l.foldl (NumF.samplef keep) { t with parseErrors := n } = { l.foldl (NumF.samplef keep) t with parseErrors := n } := by
  induction l with
  | nil => intro t n; rfl
  | cons v l ih => intro t n; rw [List.foldl_cons, samplef_withErrors, ih]; rfl

theorem plainRun_eq (keep : Bool) (ops : List NumOp) : ∀ s : NumF,
    plainRun keep s ops =
      { (histSamples ops).foldl (NumF.samplef keep) s with
        parseErrors := s.parseErrors + ops.countP NumOp.isParseError } := by
  induction ops with
  | nil => intro s; simp [plainRun, histSamples]
  | cons op ops ih =>
    intro s
    unfold plainRun at ih ⊢
    rw [List.foldl_cons, ih]
    cases op with
    | samplef v =>
      have e1 : histSamples (NumOp.samplef v :: ops) = v :: histSamples ops := by
        simp [histSamples, NumOp.value?]
      rw [e1, List.foldl_cons, List.countP_cons_of_neg (by simp [NumOp.isParseError])]
      rfl
    | analyze =>
      have e1 : histSamples (NumOp.analyze :: ops) = histSamples ops :=
        List.filterMap_cons_none (f := NumOp.value?) (a := NumOp.analyze) (l := ops) rfl
      rw [e1, List.countP_cons_of_neg (by simp [NumOp.isParseError])]
      rfl
    | sample e =>
      cases hp : F64.parseFloat e with
      | none =>
        have e1 : histSamples (NumOp.sample e :: ops) = histSamples ops := by
          simp [histSamples, NumOp.value?, hp]
        have e2 : plainStep keep s (NumOp.sample e) = { s with parseErrors := s.parseErrors + 1 } := by
          simp only [plainStep, NumF.sample, hp]
        rw [e1, e2, List.countP_cons_of_pos (by simp [NumOp.isParseError, hp]), foldl_samplef_withErrors]
        simp only [Numerical.mk.injEq, true_and, and_true]
        omega
      | some v =>
        have e1 : histSamples (NumOp.sample e :: ops) = v :: histSamples ops := by
          simp [histSamples, NumOp.value?, hp]
        have e2 : plainStep keep s (NumOp.sample e) = NumF.samplef keep s v := by
          simp only [plainStep, NumF.sample, hp]
        rw [e1, e2, List.foldl_cons, samplef_parseErrors, List.countP_cons_of_neg (by simp [NumOp.isParseError, hp])]

/-- The aggregator after ANY run of a history on a new aggregator: the moments and counters of the plain `Samplef` fold
over the samples of the history, and the stored values are an arrangement of the kept ones. -/
theorem histRun_final (keep rev : Bool) (ops : List NumOp) (s : NumF) (vs : List (List F64))
    (h : HistRun keep rev NumF.new ops s vs) :
    SameUpToOrder s { runFv keep (histSamples ops) with parseErrors := ops.countP NumOp.isParseError } ∧
    s.values.Perm (keptOf keep (histSamples ops)) := by
  have h1 := histRun_sameUpToOrder keep rev h NumF.new (SameUpToOrder.refl _)
  rw [plainRun_eq] at h1
  have e : (NumF.new).parseErrors + ops.countP NumOp.isParseError = ops.countP NumOp.isParseError := by
    show 0 + _ = _; omega
  rw [e] at h1
  refine ⟨h1, ?_⟩
  have := h1.2.2.2.2.2.2
  have e2 : (runFv keep (histSamples ops)).values = keptOf keep (histSamples ops) := runFv_values keep _
  exact this.trans (by rw [← e2]; exact List.Perm.refl _)

/-! ### the executable machine is a run; runs split -/

theorem histStep_stepOp (keep rev : Bool) (s : NumF) (op : NumOp) :
    HistStep keep rev s op (NumF.stepOp keep rev s op).1 (NumF.stepOp keep rev s op).2 := by
  cases op with
  | samplef v => exact HistStep.samplef s v
  | sample e => exact HistStep.sample s e
  | analyze => exact HistStep.analyze s (analyzeF rev s.values) (analyzeF_sorted rev s.values)

theorem histRunFrom_acc (keep rev : Bool) (ops : List NumOp) : ∀ (s : NumF) (acc : List (List F64)),
    ops.foldl (fun (a : NumF × List (List F64)) op =>
      ((NumF.stepOp keep rev a.1 op).1, a.2 ++ (NumF.stepOp keep rev a.1 op).2.toList)) (s, acc) =
    ((histRunFrom keep rev s ops).1, acc ++ (histRunFrom keep rev s ops).2) := by
  induction ops with
  | nil => intro s acc; simp [histRunFrom]
  | cons op ops ih =>
    intro s acc
    unfold histRunFrom
    rw [List.foldl_cons, List.foldl_cons, ih, ih (NumF.stepOp keep rev s op).1 ([] ++ _)]
    simp [List.append_assoc]

theorem histRunFrom_cons (keep rev : Bool) (s : NumF) (op : NumOp) (ops : List NumOp) :
    histRunFrom keep rev s (op :: ops) =
      ((histRunFrom keep rev (NumF.stepOp keep rev s op).1 ops).1,
       (NumF.stepOp keep rev s op).2.toList ++ (histRunFrom keep rev (NumF.stepOp keep rev s op).1 ops).2) := by
  show List.foldl _ _ (op :: ops) = _
  rw [List.foldl_cons, histRunFrom_acc]
  simp

theorem histRun_is_run (keep rev : Bool) (ops : List NumOp) : ∀ s : NumF,
    HistRun keep rev s ops (histRunFrom keep rev s ops).1 (histRunFrom keep rev s ops).2 := by
  induction ops with
  | nil => intro s; exact HistRun.nil s
  | cons op ops ih =>
    intro s
    rw [histRunFrom_cons]
    exact HistRun.cons (histStep_stepOp keep rev s op) (ih _)

theorem histRun_split (keep rev : Bool) (pre : List NumOp) : ∀ {a a' : NumF} {post : List NumOp} {vs : List (List F64)},
    HistRun keep rev a (pre ++ post) a' vs →
    ∃ m v1 v2, HistRun keep rev a pre m v1 ∧ HistRun keep rev m post a' v2 ∧ vs = v1 ++ v2 := by
  induction pre with
  | nil => intro a a' post vs h; exact ⟨a, [], vs, HistRun.nil a, h, rfl⟩
  | cons op pre ih =>
    intro a a' post vs h
    cases h with
    | cons h1 h2 =>
      obtain ⟨m, v1, v2, r1, r2, e⟩ := ih h2
      exact ⟨m, _, v2, HistRun.cons h1 r1, r2, by rw [e, List.append_assoc]⟩

theorem histRun_views_length (keep rev : Bool) {a a' : NumF} {ops : List NumOp} {vs : List (List F64)}
    (h : HistRun keep rev a ops a' vs) : vs.length = ops.countP NumOp.isAnalyze := by
  induction h with
  | nil s => rfl
  | cons h1 _ ih =>
    rw [List.length_append, ih]
    cases h1 with
    | samplef v => rw [List.countP_cons_of_neg (by simp [NumOp.isAnalyze])]; simp
    | sample e => rw [List.countP_cons_of_neg (by simp [NumOp.isAnalyze])]; simp
    | analyze o hs => rw [List.countP_cons_of_pos (by simp [NumOp.isAnalyze])]; simp; omega

/-- The view of every `Analyze()` of a run: a sorted arrangement of ALL samples kept before it. -/
theorem histRun_view (keep rev : Bool) (ops : List NumOp) (s : NumF) (vs : List (List F64))
    (h : HistRun keep rev NumF.new ops s vs) (pre post : List NumOp) (e : ops = pre ++ NumOp.analyze :: post) :
    ∃ o, vs[pre.countP NumOp.isAnalyze]? = some o ∧ IsSortedF rev o (keptOf keep (histSamples pre)) := by
  subst e
  obtain ⟨m, v1, v2, r1, r2, e⟩ := histRun_split keep rev pre h
  have hl := histRun_views_length keep rev r1
  have hm := (histRun_final keep rev pre m v1 r1).2
  cases r2 with
  | cons h1 h2 =>
    cases h1 with
    | analyze o hs =>
      refine ⟨o, ?_, hs.1.trans hm, hs.2⟩
      rw [e, ← hl]
      simp

/-! ### order statistics of two sorted arrangements -/

theorem isSortedF_length {rev : Bool} {s l : List F64} (h : IsSortedF rev s l) : s.length = l.length := h.1.length_eq

theorem sameF_zero : sameF (F64.zero false) (F64.zero false) = true := by decide

theorem medianF_sorted_unique (rev : Bool) (s s' l : List F64) (h : IsSortedF rev s l) (h' : IsSortedF rev s' l) :
    sameF (medianF s) (medianF s') = true := by
  cases l with
  | nil =>
    have e1 : s = [] := h.1.eq_nil
    have e2 : s' = [] := h'.1.eq_nil
    rw [e1, e2]; exact sameF_zero
  | cons x l =>
    have n1 : s ≠ [] := by intro e; rw [e] at h; exact List.cons_ne_nil _ _ h.1.symm.eq_nil
    have n2 : s' ≠ [] := by intro e; rw [e] at h'; exact List.cons_ne_nil _ _ h'.1.symm.eq_nil
    obtain ⟨a, ha, ea⟩ := medianF_eq s n1
    obtain ⟨b, hb, eb⟩ := medianF_eq s' n2
    rw [ea, eb]
    rw [isSortedF_length h] at ha
    rw [isSortedF_length h'] at hb
    exact rank_unique rev s s' _ h h' _ a b ha hb

theorem quantileF_sorted_unique (rev : Bool) (s s' l : List F64) (h : IsSortedF rev s l) (h' : IsSortedF rev s' l)
    (p : F64) : ∃ x x', quantileF s p = .ok x ∧ quantileF s' p = .ok x' ∧ sameF x x' = true := by
  cases l with
  | nil =>
    have e1 : s = [] := h.1.eq_nil
    have e2 : s' = [] := h'.1.eq_nil
    rw [e1, e2]
    exact ⟨_, _, quantileF_nil p, quantileF_nil p, sameF_zero⟩
  | cons x l =>
    have l1 := isSortedF_length h
    have l2 := isSortedF_length h'
    have p1 : 0 < s.length := by rw [l1]; simp
    have p2 : 0 < s'.length := by rw [l2]; simp
    obtain ⟨a, ha, ea⟩ := quantileF_ok s p1 p
    obtain ⟨b, hb, eb⟩ := quantileF_ok s' p2 p
    rw [l1] at ha
    rw [l2] at hb
    exact ⟨a, b, ea, eb, rank_unique rev s s' _ h h' _ a b ha hb⟩

/-- The equality test of `Mode()` on sort keys: a NaN key equals nothing. -/
def eqKey (a b : Int) : Bool := a == b && a != -(P64 : Int)

theorem eqKey_skey (x y : F64) : eqKey (skey x) (skey y) = F64.eq x y := by
  have bx := key_bounds x
  have b := key_bounds y
  have hP : (P64 : Int) = 2 * (P63 : Int) := by decide
  cases h : F64.eq x y
  · have := eq_iff_key x y
    rw [h] at this
    simp only [Bool.false_eq_true, false_iff] at this
    unfold eqKey skey
    cases hx : x.isNaN <;> cases hy : y.isNaN <;> simp [hx, hy] at this ⊢ <;> omega
  · obtain ⟨hx, hy, hk⟩ := (eq_iff_key x y).mp h
    unfold eqKey skey
    simp [hx, hy, hk]
    omega

/-- `Mode()` is a function of the sort keys. -/
theorem skey_modeF (s : List F64) : skey (modeF s) = mode (skey (F64.zero false)) eqKey (s.map skey) := by
  unfold modeF
  exact mode_map skey (F64.zero false) F64.eq eqKey s (fun a _ b _ => eqKey_skey a b)

/-- `Mode()` does not depend on which sorted arrangement the (unstable) sort produced. -/
theorem modeF_sorted_unique (rev : Bool) (s s' l : List F64) (h : IsSortedF rev s l) (h' : IsSortedF rev s' l) :
    sameF (modeF s) (modeF s') = true := by
  rw [sameF_iff, skey_modeF, skey_modeF, sorted_skey_eq rev s s' l h h']

/-- An arrangement is sorted for one direction iff its reverse is sorted for the other. -/
theorem isSortedF_reverse (rev : Bool) (s l : List F64) : IsSortedF rev s l ↔ IsSortedF (!rev) s.reverse l := by
  unfold IsSortedF
  constructor
  · intro ⟨hp, hs⟩
    refine ⟨(List.reverse_perm s).trans hp, ?_⟩
    rw [List.pairwise_reverse]
    cases rev <;> simpa using hs
  · intro ⟨hp, hs⟩
    refine ⟨(List.reverse_perm s).symm.trans hp, ?_⟩
    rw [List.pairwise_reverse] at hs
    cases rev <;> simpa using hs


/-! ### when an appended sample leaves the slice sorted -/

theorem isSortedF_append_iff (rev : Bool) (o l : List F64) (v : F64) (h : IsSortedF rev o l) :
    IsSortedF rev (o ++ [v]) (l ++ [v]) ↔ ∀ a ∈ o, (if rev then goLess a v else goLess v a) = false := by
  constructor
  · intro hs a ha
    have := (List.pairwise_append.mp hs.2).2.2 a ha v (by simp)
    exact this
  · intro hv
    refine ⟨h.1.append_right [v], List.pairwise_append.mpr ⟨h.2, List.pairwise_singleton _ _, ?_⟩⟩
    intro a ha b hb
    have : b = v := by simpa using hb
    rw [this]; exact hv a ha

/-- Appending `v` to a non-empty sorted slice keeps it sorted iff `v` is not before its LAST element in the sort order:
ascending `v` is not below the last value, with `Reverse` `v` is not ABOVE it. -/
theorem sorted_append_iff (rev : Bool) (o l : List F64) (last v : F64) (h : IsSortedF rev o l)
    (hl : o.getLast? = some last) :
    IsSortedF rev (o ++ [v]) (l ++ [v]) ↔ (if rev then goLess last v else goLess v last) = false := by
  rw [isSortedF_append_iff rev o l v h]
  have hmem : last ∈ o := List.mem_of_getLast? hl
  constructor
  · intro hall; exact hall last hmem
  · intro hlast a ha
    -- every element of `o` is not after `last`
    obtain ⟨pre, rfl⟩ : ∃ pre, o = pre ++ [last] := List.getLast?_eq_some_iff.mp hl
    rcases List.mem_append.mp ha with hp | hp
    · have := (List.pairwise_append.mp h.2).2.2 a hp last (by simp)
      cases rev
      · simp only [Bool.false_eq_true, if_false] at this hlast ⊢
        rw [goLess_false_iff] at this hlast ⊢; omega
      · simp only [if_true] at this hlast ⊢
        rw [goLess_false_iff] at this hlast ⊢; omega
    · have : a = last := by simpa using hp
      rw [this]; exact hlast

end Rare.C07
