import Rare.Proofs.C16Obj
/-! C16: `true` / `false` are emitted only for the exact ASCII spellings of the two words. -/
namespace Rare.C16

theorem lower_toNat (c : UInt8) :
    (lower c).toNat = if 0x41 ≤ c.toNat ∧ c.toNat ≤ 0x5a then c.toNat + 32 else c.toNat := by
  unfold lower
  by_cases h : 0x41 ≤ c ∧ c ≤ 0x5a
  · have h1 := UInt8.le_iff_toNat_le.mp h.1
    have h2 := UInt8.le_iff_toNat_le.mp h.2
    simp at h1 h2
    rw [if_pos h, if_pos ⟨by simpa using h1, by simpa using h2⟩, UInt8.toNat_add]
    simp; omega
  · rw [if_neg h]
    have : ¬ (0x41 ≤ c.toNat ∧ c.toNat ≤ 0x5a) := by
      intro ⟨h1, h2⟩
      exact h ⟨UInt8.le_iff_toNat_le.mpr (by simpa using h1), UInt8.le_iff_toNat_le.mpr (by simpa using h2)⟩
    rw [if_neg this]

/-- for a lower-case ASCII letter `l`: ASCII-lowering `c` gives `l` exactly for `l` and its capital -/
theorem lower_eq_iff (c l : UInt8) (h1 : 0x61 ≤ l.toNat) (h2 : l.toNat ≤ 0x7a) :
    lower c = l ↔ (c = l ∨ c = l - 32) := by
  have hs : (l - 32).toNat = l.toNat - 32 := by
    rw [UInt8.toNat_sub]; simp; omega
  constructor
  · intro h
    have := congrArg UInt8.toNat h
    rw [lower_toNat] at this
    split at this
    · right; apply UInt8.toNat_inj.mp; rw [hs]; omega
    · left; exact UInt8.toNat_inj.mp this
  · intro h
    apply UInt8.toNat_inj.mp
    rw [lower_toNat]
    rcases h with h | h
    · subst h; rw [if_neg (by omega)]
    · have : c.toNat = l.toNat - 32 := by rw [h, hs]
      rw [if_pos (by omega)]; omega

def IsLowerWord (lit : Bytes) : Prop := ∀ l ∈ lit, 0x61 ≤ l.toNat ∧ l.toNat ≤ 0x7a

theorem mem_spellings : ∀ (lit : Bytes), IsLowerWord lit → ∀ val : Bytes,
    val ∈ spellings lit ↔ val.map lower = lit := by
  intro lit
  induction lit with
  | nil => intro _ val; simp [spellings]
  | cons l r ih =>
    intro hl val
    have hl0 := hl l (by simp)
    have ih := ih (fun x hx => hl x (by simp [hx]))
    cases val with
    | nil => simp [spellings]
    | cons c t =>
      simp only [spellings, List.mem_flatMap, List.mem_cons, List.cons.injEq, List.not_mem_nil, or_false,
        List.map_cons]
      rw [lower_eq_iff c l hl0.1 hl0.2]
      constructor
      · rintro ⟨u, hu, ⟨e1, e2⟩ | ⟨e1, e2⟩⟩
        · subst e2; exact ⟨Or.inl e1, (ih t).mp hu⟩
        · subst e2; exact ⟨Or.inr e1, (ih t).mp hu⟩
      · rintro ⟨e1 | e1, e2⟩
        · exact ⟨t, (ih t).mpr e2, Or.inl ⟨e1, rfl⟩⟩
        · exact ⟨t, (ih t).mpr e2, Or.inr ⟨e1, rfl⟩⟩

theorem equalFoldLen_iff (val lit : Bytes) (hl : IsLowerWord lit) :
    equalFoldLen val lit = true ↔ val ∈ spellings lit := by
  rw [mem_spellings lit hl]
  unfold equalFoldLen
  simp only [Bool.and_eq_true, beq_iff_eq]
  constructor
  · exact fun h => h.2
  · intro h; exact ⟨by rw [← h]; simp, h⟩

theorem litTrue_lower : IsLowerWord litTrue := by intro l hl; simp [litTrue] at hl; rcases hl with h | h | h | h <;> subst h <;> decide
theorem litFalse_lower : IsLowerWord litFalse := by intro l hl; simp [litFalse] at hl; rcases hl with h | h | h | h | h <;> subst h <;> decide

/-- a spelling of `true` / `false` is not numeric -/
theorem spelling_not_numeric (val lit : Bytes) (hl : IsLowerWord lit) (hne : lit ≠ [])
    (h : val ∈ spellings lit) : isNumeric val = false := by
  cases hn : isNumeric val with
  | false => rfl
  | true =>
    exfalso
    obtain ⟨a, r, e, hd⟩ := isNumeric_head val hn
    subst e
    have hm := (mem_spellings lit hl _).mp h
    cases lit with
    | nil => exact hne rfl
    | cons l lr =>
      simp only [List.map_cons, List.cons.injEq] at hm
      have hl0 := hl l (by simp)
      have := congrArg UInt8.toNat hm.1
      rw [lower_toNat] at this
      simp only [isDig, Bool.and_eq_true, decide_eq_true_eq] at hd
      have h1 := UInt8.le_iff_toNat_le.mp hd.1
      have h2 := UInt8.le_iff_toNat_le.mp hd.2
      simp at h1 h2
      split at this <;> omega

/-- The value is written as the bare literal `true` exactly when the capture is one of the 16 ASCII
spellings of the word, and as `false` exactly for the 32 ASCII spellings of that word. -/
theorem inferredVal_bool_iff (val : Bytes) (b : Bool) :
    inferredVal val = .bool b ↔ val ∈ spellings (if b then litTrue else litFalse) := by
  have ht := equalFoldLen_iff val litTrue litTrue_lower
  have hf := equalFoldLen_iff val litFalse litFalse_lower
  have hdis : val ∈ spellings litTrue → val ∉ spellings litFalse := by
    intro h1 h2
    have a := (mem_spellings _ litTrue_lower val).mp h1
    have c := (mem_spellings _ litFalse_lower val).mp h2
    rw [a] at c; exact absurd c (by decide)
  unfold inferredVal
  cases b with
  | true =>
    simp only [if_true]
    constructor
    · intro h
      split at h
      · split at h <;> cases h
      · split at h
        · exact ht.mp ‹_›
        · split at h <;> cases h
    · intro h
      rw [if_neg (by simp [spelling_not_numeric val litTrue litTrue_lower (by decide) h]), if_pos (ht.mpr h)]
  | false =>
    simp only [Bool.false_eq_true, if_false]
    constructor
    · intro h
      split at h
      · split at h <;> cases h
      · split at h
        · cases h
        · split at h
          · exact hf.mp ‹_›
          · cases h
    · intro h
      have hnt : ¬ equalFoldLen val litTrue = true := fun h' => hdis (ht.mp h') h
      rw [if_neg (by simp [spelling_not_numeric val litFalse litFalse_lower (by decide) h]), if_neg hnt,
        if_pos (hf.mpr h)]

end Rare.C16
