import Rare.Proofs.C19Grammar
/-!
C19: literals (`0x…`, `0b…`, `0o…`, decimal integers) through tokenizer, `compileToken` and the
parser; implied multiplication written out.
-/
namespace Rare.C19

variable {α : Type} (A : Arith α)

/-! ### facts about single bytes, by enumeration of all 256 -/

theorem byte_forall (P : UInt8 → Prop) (h : ∀ n, n < 256 → P (UInt8.ofNat n)) : ∀ b, P b := by
  intro b
  have := h b.toNat b.toNat_lt
  rwa [UInt8.ofNat_toNat] at this

theorem alnum_facts : ∀ b : UInt8, isAlnumB b = true →
    b ≠ 40 ∧ b ≠ 41 ∧ b ≠ 32 ∧ b ≠ 95 ∧ b ≠ 91 ∧ hasUnaryOp b = false ∧ digitVal b = some (litDigit b) ∧
    (opKeys.all fun k => match k with | c :: _ => c != b | [] => false) = true := by
  apply byte_forall
  decide +kernel

/-! ### the tokenizer on a run of letters and digits -/

theorem opKeys_not_head (r : UInt8) (t : Bytes) (h : isAlnumB r = true) : opKeys.contains (r :: t) = false := by
  have hk := (alnum_facts r h).2.2.2.2.2.2.2
  rw [List.all_eq_true] at hk
  cases hc : opKeys.contains (r :: t) with
  | false => rfl
  | true =>
    have hm : (r :: t) ∈ opKeys := by simpa using hc
    have := hk _ hm
    simp at this

theorem opKeys_not_mem (r : UInt8) (t : Bytes) (h : isAlnumB r = true) : ¬ (r :: t) ∈ opKeys := by
  intro hm
  have := opKeys_not_head r t h
  rw [List.contains_iff_mem.mpr hm] at this
  cases this

theorem prefixInOps_alnum (r : UInt8) (rest : Bytes) (h : isAlnumB r = true) :
    prefixInOps (r :: rest) = none := by
  unfold prefixInOps
  simp only [maxOpLen]
  cases rest with
  | nil =>
    simp [prefixInOps.go, opKeys_not_mem r [] h]
  | cons x rest =>
    have e : (r :: x :: rest).take 2 = [r, x] := rfl
    simp [e, prefixInOps.go, opKeys_not_mem r [x] h, opKeys_not_mem r [] h]

theorem tokStep_alnum (ret : List Token) (sb : Bytes) (r : UInt8) (rest : Bytes) (h : isAlnumB r = true) :
    tokStep ⟨ret, sb, 0, 0⟩ r (r :: rest) = .ok ⟨ret, sb ++ [r], 0, 0⟩ := by
  obtain ⟨h40, h41, h32, _, _, hu, _, _⟩ := alnum_facts r h
  simp [tokStep, h40, h41, h32, hu, prefixInOps_alnum r rest h]

theorem tokLoop_alnum (ret : List Token) : ∀ (s sb : Bytes), (∀ b ∈ s, isAlnumB b = true) →
    tokLoop s ⟨ret, sb, 0, 0⟩ = .ok ⟨ret, sb ++ s, 0, 0⟩ := by
  intro s
  induction s with
  | nil => intro sb _; simp [tokLoop]
  | cons r rest ih =>
    intro sb h
    simp only [tokLoop, tokStep_alnum ret sb r rest (h r (by simp))]
    rw [ih (sb ++ [r]) (fun b hb => h b (by simp [hb]))]
    simp

/-- A non-empty run of ASCII letters and digits is one literal token. -/
theorem tokenize_alnum (s : Bytes) (hne : s ≠ []) (h : ∀ b ∈ s, isAlnumB b = true) :
    tokenize s = .ok [⟨s, .lit⟩] := by
  have he : s.isEmpty = false := by cases s with
    | nil => exact absurd rfl hne
    | cons _ _ => rfl
  simp [tokenize, tokLoop_alnum [] s [] h, he]

/-! ### `strconv.ParseInt(s, 0, 64)` on prefixed literals -/

theorem digitsBase_spec (base : Nat) : ∀ (ds : Bytes) (acc : Nat),
    (∀ d ∈ ds, isBaseDigit base d = true) →
    digitsBase base ds acc = some (ds.foldl (fun a d => a * base + litDigit d) acc) := by
  intro ds
  induction ds with
  | nil => intro acc _; rfl
  | cons d r ih =>
    intro acc h
    have hd := h d (by simp)
    simp only [isBaseDigit, Bool.and_eq_true, decide_eq_true_eq] at hd
    have hv := (alnum_facts d hd.1).2.2.2.2.2.2.1
    simp only [digitsBase, hv, hd.2, if_true, List.foldl_cons]
    exact ih _ (fun x hx => h x (by simp [hx]))

/-- prefix letter ↦ base, as `ParseInt(s, 0, 64)` reads it -/
def prefixBase (c : UInt8) : Option Nat :=
  if c = 98 ∨ c = 66 then some 2 else if c = 111 ∨ c = 79 then some 8 else if c = 120 ∨ c = 88 then some 16
  else none

theorem parseIntLit_prefixed (c : UInt8) (base : Nat) (ds : Bytes) (hc : prefixBase c = some base)
    (hne : ds ≠ []) (hd : ∀ d ∈ ds, isBaseDigit base d = true) (hr : baseVal base ds ≤ 9223372036854775807) :
    parseIntLit (48 :: c :: ds) = some (baseVal base ds : Int) := by
  have hlen : (48 :: c :: ds).length ≥ 3 := by
    cases ds with
    | nil => exact absurd rfl hne
    | cons _ _ => simp
  have hlen' : 1 ≤ ds.length := by simp only [List.length_cons] at hlen; omega
  have hdb := digitsBase_spec base ds 0 hd
  have hv : ds.foldl (fun a d => a * base + litDigit d) 0 = baseVal base ds := rfl
  rw [hv] at hdb
  unfold prefixBase at hc
  simp only [parseIntLit]
  by_cases h2 : c = 98 ∨ c = 66
  · have hb : base = 2 := by simp [h2] at hc; exact hc.symm
    subst hb
    have hl : lowerB c = 98 := by rcases h2 with rfl | rfl <;> decide
    simp [hlen', hl, hdb, hr]
  · by_cases h8 : c = 111 ∨ c = 79
    · have hb : base = 8 := by simp [h2, h8] at hc; exact hc.symm
      subst hb
      have hl : lowerB c = 111 := by rcases h8 with rfl | rfl <;> decide
      have hl2 : ¬ lowerB c = 98 := by rw [hl]; decide
      simp [hlen', hl, hdb, hr]
    · by_cases h16 : c = 120 ∨ c = 88
      · have hb : base = 16 := by simp [h2, h8, h16] at hc; exact hc.symm
        subst hb
        have hl : lowerB c = 120 := by rcases h16 with rfl | rfl <;> decide
        simp [hlen', hl, hdb, hr]
      · simp [h2, h8, h16] at hc

theorem parseIntLit_dec (ds : Bytes) (hne : ds ≠ []) (h0 : ds.head? ≠ some 48)
    (hd : ∀ d ∈ ds, isBaseDigit 10 d = true) (hr : baseVal 10 ds ≤ 9223372036854775807) :
    parseIntLit ds = some (baseVal 10 ds : Int) := by
  have hdb := digitsBase_spec 10 ds 0 hd
  have hv : ds.foldl (fun a d => a * 10 + litDigit d) 0 = baseVal 10 ds := rfl
  rw [hv] at hdb
  cases ds with
  | nil => exact absurd rfl hne
  | cons d r =>
    have hd0 : d ≠ 48 := by intro e; subst e; simp at h0
    unfold parseIntLit
    split
    · rename_i heq; cases heq
    · rename_i heq; injection heq with h1 _; exact absurd h1 hd0
    · simp [hdb, hr]

/-! ### from a literal token to the compiled formula -/

theorem classifyE_int (v : Bytes) (n : Int) (hne : v ≠ []) (hal : ∀ b ∈ v, isAlnumB b = true)
    (hp : parseIntLit v = some n) : classifyE A v = .ok (.num (A.ofInt n)) := by
  cases v with
  | nil => exact absurd rfl hne
  | cons c r =>
    have hc := alnum_facts c (hal c (by simp))
    have hbox : isBoxed (c :: r) = false := by
      have : ¬ (c = 91) := hc.2.2.2.2.1
      simp [isBoxed, this]
    have hund : (c :: r).contains 95 = false := by
      cases hx : (c :: r).contains 95 with
      | false => rfl
      | true =>
        have hm : (95 : UInt8) ∈ c :: r := by simpa using hx
        exact absurd rfl (alnum_facts 95 (hal 95 hm)).2.2.2.1
    have hu : parseIntU (c :: r) = some n := by
      unfold parseIntU; rw [hund]; exact hp
    simp only [classifyE, hbox, Bool.false_eq_true, if_false, parseNum, hu]

/-- A formula that is a single literal token compiles to that literal. -/
theorem compile_single_lit (s : Bytes) (a : Atom α) (htok : tokenize s = .ok [⟨s, .lit⟩])
    (hc : classifyE A s = .ok a) : compile A s = .ok (.lit s, simplify A (Expr.ofAtom a)) := by
  simp only [compile, compileF, htok, compileTokens, getNextExpr, hc, climb]

theorem simplify_val (v : α) : simplify A (.val v) = .val v := rfl

/-- **Literal value, any prefix**: `0b…`, `0o…`, `0x…` (either case of the prefix letter and of the
    digits) compile to the constant whose value is the positional value of the digits. -/
theorem compile_prefixed_lit (c : UInt8) (base : Nat) (ds : Bytes) (hc : prefixBase c = some base)
    (hne : ds ≠ []) (hd : ∀ d ∈ ds, isBaseDigit base d = true) (hr : baseVal base ds ≤ 9223372036854775807) :
    compile A (48 :: c :: ds) = .ok (.lit (48 :: c :: ds), .val (A.ofInt (baseVal base ds))) := by
  have hcal : isAlnumB c = true := by
    unfold prefixBase at hc
    by_cases h2 : c = 98 ∨ c = 66
    · rcases h2 with rfl | rfl <;> decide
    · by_cases h8 : c = 111 ∨ c = 79
      · rcases h8 with rfl | rfl <;> decide
      · by_cases h16 : c = 120 ∨ c = 88
        · rcases h16 with rfl | rfl <;> decide
        · simp [h2, h8, h16] at hc
  have hal : ∀ b ∈ (48 :: c :: ds : Bytes), isAlnumB b = true := by
    intro b hb
    rcases List.mem_cons.mp hb with rfl | hb
    · decide
    · rcases List.mem_cons.mp hb with rfl | hb
      · exact hcal
      · have := hd b hb
        simp only [isBaseDigit, Bool.and_eq_true] at this
        exact this.1
  have hp := parseIntLit_prefixed c base ds hc hne hd hr
  have hcl := classifyE_int A _ _ (by simp) hal hp
  rw [compile_single_lit A _ _ (tokenize_alnum _ (by simp) hal) hcl]
  rfl

theorem compile_dec_lit (ds : Bytes) (hne : ds ≠ []) (h0 : ds.head? ≠ some 48)
    (hd : ∀ d ∈ ds, isBaseDigit 10 d = true) (hr : baseVal 10 ds ≤ 9223372036854775807) :
    compile A ds = .ok (.lit ds, .val (A.ofInt (baseVal 10 ds))) := by
  have hal : ∀ b ∈ ds, isAlnumB b = true := by
    intro b hb
    have := hd b hb
    simp only [isBaseDigit, Bool.and_eq_true] at this
    exact this.1
  have hcl := classifyE_int A _ _ hne hal (parseIntLit_dec ds hne h0 hd hr)
  rw [compile_single_lit A _ _ (tokenize_alnum _ hne hal) hcl]
  rfl

/-! ### implied multiplication written out -/

theorem explicit_eval (cls : Bytes → Option (Atom α)) (b : Binding α) :
    ∀ t : Tree, t.explicit.eval A cls b = t.eval A cls b := by
  intro t
  induction t with
  | lit v => rfl
  | grp s e _ => rfl
  | un m e ih => simp only [Tree.explicit, Tree.eval, ih]
  | bin i op l r ihl ihr => simp only [Tree.explicit, Tree.eval, ihl, ihr]

theorem explicit_rootLvl (tb : List (List Bytes)) (t : Tree) : t.explicit.rootLvl tb = t.rootLvl tb := by
  cases t <;> rfl

theorem explicit_isAtom (t : Tree) : t.explicit.isAtom = t.isAtom := by
  cases t <;> rfl

theorem explicit_wp {tb : List (List Bytes)} : ∀ t : Tree, WellPrec tb t → WellPrec tb t.explicit := by
  intro t h
  induction h with
  | lit v => exact WellPrec.lit v
  | grp s e h _ => exact WellPrec.grp s e h
  | un m e hat _ ih => exact WellPrec.un m _ (by rw [explicit_isAtom]; exact hat) ih
  | bin i op l r lv _ _ hlv hl hr _ ihl ihr =>
    exact WellPrec.bin false op _ _ lv ihl ihr hlv (by rw [explicit_rootLvl]; exact hl)
      (by rw [explicit_rootLvl]; exact hr) (by intro h; cases h)

theorem explicit_deep {tk : Bytes → Option (List Token)} : ∀ t : Tree, Deep tk t → Deep tk t.explicit := by
  intro t h
  induction h with
  | lit v => exact Deep.lit v
  | grp s e h1 h2 _ => exact Deep.grp s e h1 h2
  | un m e _ ih => exact Deep.un m _ ih
  | bin i op l r _ _ ihl ihr => exact Deep.bin false op _ _ ihl ihr

theorem explicit_allLits (p : Bytes → Bool) : ∀ t : Tree, t.explicit.allLits p = t.allLits p := by
  intro t
  induction t with
  | lit v => rfl
  | grp s e _ => rfl
  | un m e ih => simp only [Tree.explicit, Tree.allLits, ih]
  | bin i op l r ihl ihr => simp only [Tree.explicit, Tree.allLits, ihl, ihr]

/-- No implied multiplication is left at this level of the text. -/
def Tree.noImplied : Tree → Bool
  | .bin i _ l r => !i && noImplied l && noImplied r
  | .un _ e => noImplied e
  | _ => true

theorem explicit_noImplied : ∀ t : Tree, t.explicit.noImplied = true := by
  intro t
  induction t with
  | lit v => rfl
  | grp s e _ => rfl
  | un m e ih => simpa only [Tree.explicit, Tree.noImplied] using ih
  | bin i op l r ihl ihr => simp [Tree.explicit, Tree.noImplied, ihl, ihr]

/-- Writing the implied multiplications out gives a formula that compiles to the same parse with
    explicit `*` nodes and has the same value under every binding. -/
theorem compile_explicit (s s' : Bytes) (t : Tree) (e : Expr α) (hc : compile A s = .ok (t, e))
    (htok : tok s' = some t.explicit.flatten) :
    ∃ e', compile A s' = .ok (t.explicit, e') ∧ ∀ b, e'.eval A b = e.eval A b := by
  obtain ⟨_, g⟩ := compileF_post A _ s t e hc
  have hl : Lits A t.explicit := by
    simp only [Lits, explicit_allLits]; exact g.lits
  obtain ⟨e', he'⟩ := compileF_complete A (s'.length + 1) s' t.explicit (Nat.lt_succ_self _) htok
    (explicit_wp t g.wp) (explicit_deep t g.deep) hl
  obtain ⟨_, g'⟩ := compileF_post A _ s' _ e' he'
  refine ⟨e', he', fun b => ?_⟩
  rw [g'.ev b, g.ev b, explicit_eval]

/-- Every implied node is a multiplication. -/
def Tree.impliedStar : Tree → Bool
  | .bin i op l r => (!i || op == starOp) && impliedStar l && impliedStar r
  | .un _ e => impliedStar e
  | _ => true

theorem wp_impliedStar {tb : List (List Bytes)} : ∀ t : Tree, WellPrec tb t → t.impliedStar = true := by
  intro t h
  induction h with
  | lit v => rfl
  | grp s e _ _ => rfl
  | un m e _ _ ih => simpa only [Tree.impliedStar] using ih
  | bin i op l r lv _ _ _ _ _ himp ihl ihr =>
    cases i with
    | false => simp [Tree.impliedStar, ihl, ihr]
    | true => simp [Tree.impliedStar, ihl, ihr, (himp rfl).1]

end Rare.C19
