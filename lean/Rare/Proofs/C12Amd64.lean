import Rare.Proofs.C12Go
/-! `stringslite.Index` as compiled for amd64 (`goIndexAmd64`, `Model/C12Go.lean`) computes the
contract `stringsIndex`, GIVEN the documented contract of the assembly routine `bytealg.IndexString`
for needles of 2 … MaxLen bytes.  Also the small definitions of round 4b (`foldFor`, `histPat`). -/
namespace Rare.C12

/-- the fold a mode applies to both sides before bytes are compared -/
def foldFor (ic : Bool) (b : Bytes) : Bytes := if ic then lower b else b

/-- `id=%{v};` -/
def histPat : Pat := ⟨[105, 100, 61], [⟨[118], [59]⟩]⟩

section Asm
variable (maxLen : Nat) (asm : Bytes → Bytes → Int)
  (hasm : ∀ s' u : Bytes, 2 ≤ u.length → u.length ≤ maxLen → asm s' u = stringsIndex s' u)
include hasm

theorem goIndexLoopAsm_eq (s rest : Bytes) (c0 c1 : UInt8) (hn : rest.length + 2 < s.length)
    (hmax : rest.length + 2 ≤ maxLen) :
    ∀ (fuel i fails : Nat), i ≤ s.length - (rest.length + 2) + 1 →
      s.length - (rest.length + 2) + 1 - i < fuel →
      (∀ j < i, ¬ (c0 :: c1 :: rest) <+: s.drop j) →
      goIndexLoopAsm asm s (c0 :: c1 :: rest) c0 c1 (s.length - (rest.length + 2) + 1) fuel i fails =
        stringsIndex s (c0 :: c1 :: rest) := by
  intro fuel
  induction fuel with
  | zero => intro i fails _ h; omega
  | succ fuel ih =>
    intro i fails hit hfuel hmin
    generalize ht : s.length - (rest.length + 2) + 1 = t at *
    have hocc_lt : ∀ j, (c0 :: c1 :: rest) <+: s.drop j → j < t := by
      intro j hj; have := (occ_heads hj).2.2; omega
    unfold goIndexLoopAsm
    by_cases hlt : i < t
    · simp only [hlt, not_true_eq_false, if_false]
      have hil : i < s.length := by omega
      rw [List.getElem?_eq_getElem hil]
      simp only
      have tail : ∀ i', i ≤ i' → i' < t → (∀ j < i', ¬ (c0 :: c1 :: rest) <+: s.drop j) →
          (match s[i' + 1]? with
           | none => (-3 : Int)
           | some s1 =>
             if s1 = c1 ∧ windowEq s i' (c0 :: c1 :: rest) = true then (i' : Int)
             else if fails + 1 > cutoverAmd64 (i' + 1) then
                (if asm (s.drop (i' + 1)) (c0 :: c1 :: rest) ≥ 0 then
                   asm (s.drop (i' + 1)) (c0 :: c1 :: rest) + ((i' + 1 : Nat) : Int)
                 else -1)
             else goIndexLoopAsm asm s (c0 :: c1 :: rest) c0 c1 t fuel (i' + 1) (fails + 1)) =
            stringsIndex s (c0 :: c1 :: rest) := by
        intro i' hii' hi't hmin'
        have h1l : i' + 1 < s.length := by omega
        rw [List.getElem?_eq_getElem h1l]
        simp only
        by_cases hw : s[i' + 1] = c1 ∧ windowEq s i' (c0 :: c1 :: rest) = true
        · rw [if_pos hw]
          exact (stringsIndex_of_least (by omega) ((windowEq_iff _ _ _).mp hw.2) hmin').symm
        · rw [if_neg hw]
          have hno : ¬ (c0 :: c1 :: rest) <+: s.drop i' := by
            intro hp
            apply hw
            refine ⟨?_, (windowEq_iff _ _ _).mpr hp⟩
            have := (occ_heads hp).2.1
            rw [List.getElem?_eq_getElem h1l] at this
            exact Option.some.inj this
          have hmin'' : ∀ j < i' + 1, ¬ (c0 :: c1 :: rest) <+: s.drop j := by
            intro j hj
            rcases Nat.lt_or_ge j i' with h | h
            · exact hmin' j h
            · have : j = i' := by omega
              subst this; exact hno
          by_cases hfall : fails + 1 > cutoverAmd64 (i' + 1)
          · rw [if_pos hfall]
            rw [hasm _ _ (by simp) (by simpa using hmax)]
            rw [stringsIndex_drop (k := i' + 1) (by omega) hmin'']
            have := stringsIndex_ge (s.drop (i' + 1)) (c0 :: c1 :: rest)
            split <;> split <;> omega
          · rw [if_neg hfall]
            exact ih (i' + 1) (fails + 1) (by omega) (by omega) hmin''
      by_cases hc : s[i] = c0
      · simp only [hc, ne_eq, not_true_eq_false, if_false]
        exact tail i (Nat.le_refl _) hlt hmin
      · simp only [ne_eq, hc, not_false_eq_true, if_true]
        rcases goIndexByte_spec ((s.take t).drop (i + 1)) c0 with ⟨h1, h2⟩ | ⟨o, h1, h2, h3⟩
        · rw [h1]
          simp only [show ((-1 : Int) < 0) from by omega, if_true]
          symm
          apply stringsIndex_of_none
          intro j _ hp
          have hjt := hocc_lt j hp
          have hj0 := (occ_heads hp).1
          rcases Nat.lt_or_ge j i with h | h
          · exact hmin j h hp
          · rcases Nat.eq_or_lt_of_le h with h | h
            · subst h
              rw [List.getElem?_eq_getElem hil] at hj0
              exact hc (Option.some.inj hj0)
            · apply h2
              rw [List.mem_iff_getElem?]
              refine ⟨j - (i + 1), ?_⟩
              rw [List.getElem?_drop, List.getElem?_take]
              have : i + 1 + (j - (i + 1)) = j := by omega
              rw [this, if_pos hjt]; exact hj0
        · rw [h1]
          have hnn : ¬ ((o : Int) < 0) := by omega
          simp only [hnn, if_false, Int.toNat_natCast]
          rw [List.getElem?_drop, List.getElem?_take] at h2
          have hot : i + 1 + o < t := by
            by_cases hh : i + 1 + o < t
            · exact hh
            · rw [if_neg hh] at h2; cases h2
          have hshape : i + (o + 1) = i + 1 + o := by omega
          rw [hshape]
          apply tail (i + 1 + o) (by omega) hot
          intro j hj hp
          have hj0 := (occ_heads hp).1
          rcases Nat.lt_or_ge j i with h | h
          · exact hmin j h hp
          · rcases Nat.eq_or_lt_of_le h with h | h
            · subst h
              rw [List.getElem?_eq_getElem hil] at hj0
              exact hc (Option.some.inj hj0)
            · apply h3 (j - (i + 1)) (by omega)
              rw [List.getElem?_drop, List.getElem?_take]
              have : i + 1 + (j - (i + 1)) = j := by omega
              rw [this, if_pos (by omega)]; exact hj0
    · simp only [hlt, not_false_eq_true, if_true]
      symm
      apply stringsIndex_of_none
      intro j _ hp
      have := hocc_lt j hp
      exact hmin j (by omega) hp

/-- `stringslite.Index` on amd64 computes the contract, given the contract of the assembly routine. -/
theorem goIndexAmd64_eq (s sub : Bytes) : goIndexAmd64 maxLen asm s sub = stringsIndex s sub := by
  have hport := goIndexWith_eq indexRabinKarp indexRabinKarp_eq s sub
  unfold goIndexAmd64
  unfold goIndexWith at hport
  split
  · simpa using hport
  · simpa using hport
  · rename_i c0 c1 rest
    simp only at hport ⊢
    by_cases h1 : rest.length + 2 = s.length
    · rw [if_pos h1] at hport ⊢; exact hport
    · rw [if_neg h1] at hport ⊢
      by_cases h2 : rest.length + 2 > s.length
      · rw [if_pos h2] at hport ⊢; exact hport
      · rw [if_neg h2] at hport ⊢
        by_cases h3 : rest.length + 2 ≤ maxLen
        · rw [if_pos h3]
          by_cases h4 : s.length ≤ maxBruteForce
          · rw [if_pos h4]
            exact hasm _ _ (by simp) (by simpa using h3)
          · rw [if_neg h4]
            exact goIndexLoopAsm_eq maxLen asm hasm s rest c0 c1 (by omega) h3 _ 0 0 (by omega) (by omega) (by omega)
        · rw [if_neg h3]; exact hport

end Asm

end Rare.C12
