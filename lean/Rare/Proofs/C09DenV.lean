import Rare.Proofs.C09Den
/-!
C09: the generalised print/compile theorem once more, for tree semantics in which the meaning of a call is NOT
a function of its argument values – the array helpers `@map @filter @reduce @for` evaluate an argument in a
sub-context, so their meaning depends on the argument's denotation in OTHER contexts.

`Val = C09.Expr → Ctx → Bytes` is an arbitrary denotation of trees that reads literals, group and key
references as the specification says (`ValOk`); `DenV val D stage e` says that the stage evaluates to
`val e ctx` in every context.  The registry hypothesis `RegDenV` is per call site, as in `C09Den.lean`
(`Den sem D` is the instance `val e ctx = evalTree (envC sem ctx) e`: `den_iff`).
-/
namespace Rare.C09
open Rare Rare.Expr

/-- A denotation of trees: the value of a tree in a context. -/
abbrev Val := C09.Expr → Ctx → Bytes

/-- The tree semantics of `Spec/C09.lean` under `sem` as a denotation. -/
def semVal (sem : Sem) : Val := fun e ctx => evalTree (envC sem ctx) e

/-- The denotation agrees with the specification on the leaves. -/
structure ValOk (val : Val) : Prop where
  lit : ∀ s ctx, val (.lit s) ctx = utf8 s
  group : ∀ n ctx, val (.group n) ctx = ctx.getMatch (n : Int)
  key : ∀ k ctx, val (.key k) ctx = ctx.getKey (utf8 k)

theorem semVal_ok (sem : Sem) : ValOk (semVal sem) := ⟨fun _ _ => rfl, fun _ _ => rfl, fun _ _ => rfl⟩

/-- `stage` denotes the tree `e` under `val`. -/
structure DenV (val : Val) (D : C09.Expr → Bool) (stage : Stage) (e : C09.Expr) : Prop where
  run : ∀ ctx, stage.run ctx = .ok (val e ctx)
  dyn : D e = true → ∃ v, stage.probe = .ok (v, false)
  lit : ∀ s, e = .lit s → stage = .ret (utf8 s)

def DenArgsV (val : Val) (D : C09.Expr → Bool) : List Stage → List C09.Expr → Prop
  | [], [] => True
  | s :: ss, e :: es => DenV val D s e ∧ DenArgsV val D ss es
  | _, _ => False

theorem den_iff {sem : Sem} {D : C09.Expr → Bool} {s : Stage} {e : C09.Expr} : Den sem D s e ↔ DenV (semVal sem) D s e :=
  ⟨fun h => ⟨h.run, h.dyn, h.lit⟩, fun h => ⟨h.run, h.dyn, h.lit⟩⟩

theorem denArgs_iff {sem : Sem} {D : C09.Expr → Bool} : ∀ {cargs : List Stage} {args : List C09.Expr},
    DenArgs sem D cargs args ↔ DenArgsV (semVal sem) D cargs args
  | [], [] => Iff.rfl
  | _ :: ss, _ :: es => by
    simp only [DenArgs, DenArgsV]
    exact and_congr den_iff (denArgs_iff (cargs := ss) (args := es))
  | [], _ :: _ => Iff.rfl
  | _ :: _, [] => Iff.rfl

theorem DenArgsV.length {val : Val} {D : C09.Expr → Bool} : ∀ {cargs : List Stage} {args : List C09.Expr},
    DenArgsV val D cargs args → cargs.length = args.length
  | [], [], _ => rfl
  | _ :: ss, _ :: es, h => by simp [DenArgsV.length (cargs := ss) (args := es) h.2]
  | [], _ :: _, h => by cases h
  | _ :: _, [], h => by cases h

/-- The values of the argument trees in a context. -/
def valArgs (val : Val) (ctx : Ctx) (args : List C09.Expr) : List Bytes := args.map fun a => val a ctx

theorem valArgs_sem (sem : Sem) (ctx : Ctx) : ∀ args : List C09.Expr,
    valArgs (semVal sem) ctx args = evalArgs (envC sem ctx) args
  | [] => rfl
  | a :: rest => by
    have := valArgs_sem sem ctx rest
    simp only [valArgs] at this
    simp only [valArgs, List.map_cons, evalArgs, this]; rfl

theorem DenArgsV.runs {val : Val} {D : C09.Expr → Bool} (ctx : Ctx) : ∀ {cargs : List Stage} {args : List C09.Expr},
    DenArgsV val D cargs args → cargs.map (·.run ctx) = (valArgs val ctx args).map .ok
  | [], [], _ => rfl
  | s :: ss, e :: es, h => by
    have := DenArgsV.runs ctx (cargs := ss) (args := es) h.2
    simp only [valArgs, List.map_cons, h.1.run ctx] at *
    rw [this]
  | [], _ :: _, h => by cases h
  | _ :: _, [], h => by cases h

theorem DenArgsV.total {val : Val} {D : C09.Expr → Bool} : ∀ {cargs : List Stage} {args : List C09.Expr},
    DenArgsV val D cargs args → ∀ a ∈ cargs, Total a
  | [], [], _ => fun a ha => by cases ha
  | s :: ss, e :: es, h => fun a ha => by
    rcases List.mem_cons.mp ha with rfl | ha
    · exact fun ctx => ⟨_, h.1.run ctx⟩
    · exact DenArgsV.total (cargs := ss) (args := es) h.2 a ha
  | [], _ :: _, h => by cases h
  | _ :: _, [], h => by cases h

mutual
/-- Every function called in the tree is registered with a builder that, at this call site – for argument
    stages denoting the argument trees – returns without compile error a stage denoting the call. -/
def RegDenV (reg : Registry) (val : Val) (D : C09.Expr → Bool) : C09.Expr → Prop
  | .call f args =>
    (∃ b, reg f = some b ∧ ∀ cargs, DenArgsV val D cargs args →
      ∃ stage, b cargs = .ok ⟨some stage, none⟩ ∧ DenV val D stage (.call f args)) ∧
    RegDenArgsV reg val D args
  | .lit _ => True
  | .group _ => True
  | .key _ => True
def RegDenArgsV (reg : Registry) (val : Val) (D : C09.Expr → Bool) : List C09.Expr → Prop
  | [] => True
  | a :: rest => RegDenV reg val D a ∧ RegDenArgsV reg val D rest
end

section
variable (reg : Registry) (val : Val) (D : C09.Expr → Bool) (opt : Bool)

theorem den_varV (w : List Char) (e : C09.Expr)
    (hrun : ∀ ctx, (stageSimpleVariable w).run ctx = .ok (val e ctx)) (hne : ∀ s, e ≠ .lit s) :
    DenV val D (stageSimpleVariable w) e := by
  refine ⟨hrun, fun _ => ?_, fun s hs => absurd hs (hne s)⟩
  unfold stageSimpleVariable
  split
  · exact ⟨[], rfl⟩
  · exact ⟨[], rfl⟩

variable (hD : ∀ s, D (.lit s) = false) (hv : ValOk val)
include hD hv

mutual
theorem arg_denV : ∀ (e : C09.Expr) (σ : Style) (fuel : Nat), Admissible e → RegDenV reg val D e → depth e ≤ fuel →
    ∃ stages, compileF fuel reg opt (argString σ e) = .ok (stages, []) ∧ DenV val D (joinStages stages) e
  | .lit s, σ, fuel, ha, _, hd => by
    obtain ⟨g, rfl⟩ : ∃ g, fuel = g + 1 := ⟨fuel - 1, by simp [depth] at hd; omega⟩
    simp only [Admissible] at ha
    obtain ⟨st, h1, h2⟩ := compileF_plain_den reg opt g s ha
    refine ⟨st, h1, ?_⟩
    rw [h2]
    exact ⟨fun ctx => by rw [hv.lit]; rfl, fun h => (by rw [hD s] at h; cases h), fun s' hs => (by cases hs; rfl)⟩
  | .group n, σ, fuel, ha, _, hd => by
    obtain ⟨g, rfl⟩ : ∃ g, fuel = g + 1 := ⟨fuel - 1, by simp [depth] at hd; omega⟩
    simp only [Admissible] at ha
    obtain ⟨st, h1, h2⟩ := compileF_var_den reg opt g σ (decimal n) (bare_decimal n)
    refine ⟨st, ?_, ?_⟩
    · rw [argString, printArg_stmt σ _ (by intro s h; cases h)]
      exact h1
    · rw [h2]
      have hs : stageSimpleVariable (decimal n) = Comp.match_ (n : Int) := by
        simp [stageSimpleVariable, utf8_eq, atoi_decimal n ha]
      exact den_varV val D _ _ (fun ctx => by rw [hs, hv.group]; rfl) (by intro s h; cases h)
  | .key k, σ, fuel, ha, _, hd => by
    obtain ⟨g, rfl⟩ : ∃ g, fuel = g + 1 := ⟨fuel - 1, by simp [depth] at hd; omega⟩
    simp only [Admissible] at ha
    obtain ⟨st, h1, h2⟩ := compileF_var_den reg opt g σ k ha.1
    refine ⟨st, ?_, ?_⟩
    · rw [argString, printArg_stmt σ _ (by intro s h; cases h)]
      exact h1
    · rw [h2]
      have hs : stageSimpleVariable k = Comp.key (utf8 k) := by
        simp [stageSimpleVariable, utf8_eq, ha.2]
      exact den_varV val D _ _ (fun ctx => by rw [hs, hv.key]; rfl) (by intro s h; cases h)
  | .call f args, σ, fuel, ha, hreg, hd => by
    obtain ⟨g, rfl⟩ : ∃ g, fuel = g + 1 := ⟨fuel - 1, by simp [depth] at hd; omega⟩
    have hd' : depthArgs args ≤ g := by simp [depth] at hd; omega
    have hsplit := split_call σ f args ha
    have hpiece := argPiece_ok (.call f args) σ ha
    simp only [Admissible] at ha
    simp only [RegDenV] at hreg
    obtain ⟨⟨b, hb, himpl⟩, hregs⟩ := hreg
    obtain ⟨cargs, hc, hden⟩ := args_denV args σ 0 g ha.2.2 hregs hd'
    obtain ⟨stage, hst, hsd⟩ := himpl cargs hden
    cases args with
    | nil => exact absurd rfl ha.2.1
    | cons a rest =>
      have hin : Inner (stmtBody σ (.call f (a :: rest))) := by
        simpa [argPiece, Piece.ok] using hpiece
      obtain ⟨j, hj⟩ := compileF_braced g reg opt hin
      simp only [argStrings] at hsplit hc
      have hclose := close_call g reg opt ('{' :: (stmtBody σ (.call f (a :: rest)) ++ ['}'])) j
          ⟨[], [], stmtBody σ (.call f (a :: rest)), 0, 1⟩ f _ _ b cargs stage hsplit hb hc hst
      obtain ⟨out, h1, h2⟩ := finishC_single opt ('{' :: (stmtBody σ (.call f (a :: rest)) ++ ['}'])) stage
        ⟨_, hsd.run emptyCtx⟩
      refine ⟨out, ?_, by rw [h2]; exact hsd⟩
      rw [argString, printArg_stmt σ _ (by intro s h; cases h), hj, hclose]
      exact h1
theorem args_denV : ∀ (l : List C09.Expr) (σ : Style) (i fuel : Nat), AdmissibleArgs l → RegDenArgsV reg val D l →
    depthArgs l ≤ fuel →
    ∃ cargs, compileArgs fuel reg opt (argStrings σ i l) = .ok (cargs, []) ∧ DenArgsV val D cargs l
  | [], σ, i, fuel, _, _, _ => ⟨[], by rw [argStrings, compileArgs], trivial⟩
  | a :: rest, σ, i, fuel, ha, hreg, hd => by
    simp only [AdmissibleArgs] at ha
    simp only [RegDenArgsV] at hreg
    simp only [depthArgs] at hd
    obtain ⟨stages, h1, r1⟩ := arg_denV a (σ.child i) fuel ha.1 hreg.1 (by omega)
    obtain ⟨cargs, h2, r2⟩ := args_denV rest σ (i + 1) fuel ha.2 hreg.2 (by omega)
    refine ⟨joinStages stages :: cargs, ?_, ⟨r1, r2⟩⟩
    rw [argStrings, compileArgs, h1]
    simp only []
    rw [h2]
    simp
end

/-- **A printed tree, optimiser on or off, general registry hypothesis.** -/
theorem printTop_denV (σ : Style) (e : C09.Expr) (ha : AdmissibleTop e) (hreg : RegDenV reg val D e) :
    ∃ stages, compile reg opt (printTop σ e) = .ok (stages, []) ∧
      ∀ ctx, (buildKey stages).run ctx = .ok (val e ctx) := by
  have key : ∀ e : C09.Expr, Admissible e → RegDenV reg val D e →
      ∃ stages, compile reg opt (argString σ e) = .ok (stages, []) ∧
        ∀ ctx, (buildKey stages).run ctx = .ok (val e ctx) := by
    intro e ha hreg
    obtain ⟨st, h1, h2⟩ := arg_denV reg val D opt hD hv e σ ((argString σ e).length + 1 + depth e) ha hreg (by omega)
    refine ⟨st, ?_, fun ctx => ?_⟩
    · have := compileF_fuel_irrelevant reg opt ((argString σ e).length + 1) (argString σ e) (by omega)
        ((argString σ e).length + 1 + depth e) ((argString σ e).length + 1) (by omega) (by omega)
      rw [compile, ← this]; exact h1
    · rw [buildKey, ← joinStages_eq]; exact h2.run ctx
  cases e with
  | lit s =>
    obtain ⟨st, h1, h2⟩ := compileF_escapeLit (escapeLit s).length reg opt s
    exact ⟨st, h1, fun ctx => by rw [hv.lit]; exact h2 ctx⟩
  | group n => exact key _ ha hreg
  | key k => exact key _ ha hreg
  | call f args => exact key _ ha hreg

end

end Rare.C09
