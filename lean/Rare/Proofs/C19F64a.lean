import Rare.Proofs.C19Lit
import Rare.Model.C19F64
/-!
C19, IEEE instance, part (a): the tainted evaluation `arithT` (what the driver runs) is sound for
the instance `arith L` of the theorems, for every behaviour `L` of the libm-backed functions.
-/
namespace Rare.C19.IEEE
open Rare Rare.F64 Rare.C19

variable (L : Libm)

/-- `o` is tainted or is the value `v`. -/
def Sound (o : TV) (v : F64) : Prop := ∀ x, o = some x → x = v

theorem sound_some (v : F64) : Sound (some v) v := fun _ h => (Option.some.inj h).symm

theorem sound_none (v : F64) : Sound none v := fun _ h => by cases h

theorem sound_lift2 (f : F64 → F64 → F64) {a b : TV} {a' b' : F64} (ha : Sound a a') (hb : Sound b b') :
    Sound (lift2 f a b) (f a' b') := by
  cases a with
  | none => exact sound_none _
  | some x =>
    cases b with
    | none => exact sound_none _
    | some y =>
      rw [ha x rfl, hb y rfl]
      exact sound_some _

theorem sound_map (f : F64 → F64) {a : TV} {a' : F64} (ha : Sound a a') : Sound (Option.map f a) (f a') := by
  cases a with
  | none => exact sound_none _
  | some x => rw [ha x rfl]; exact sound_some _

theorem sound_pow {a b : TV} {a' b' : F64} (ha : Sound a a') (hb : Sound b b') :
    Sound (primT.pow a b) ((prim L).pow a' b') := by
  cases a with
  | none => exact sound_none _
  | some x =>
    cases b with
    | none => exact sound_none _
    | some y =>
      rw [ha x rfl, hb y rfl]
      show Sound (powCore a' b') ((powCore a' b').getD (L.pow a' b'))
      cases powCore a' b' with
      | none => exact sound_none _
      | some r => exact sound_some _

theorem sound_fn (name : Bytes) {a : TV} {a' : F64} (ha : Sound a a') :
    Sound (primT.fn name a) ((prim L).fn name a') := by
  cases a with
  | none => exact sound_none _
  | some x =>
    rw [ha x rfl]
    show Sound (match some a', exactFn name with
      | some x, some f => some (f x)
      | _, _ => none) (match exactFn name with
      | some f => f a'
      | none => L.fn name a')
    cases exactFn name with
    | none => exact sound_none _
    | some f => exact sound_some _

theorem sound_intBin (f : Int → Int → Option Int) {a b : TV} {a' b' : F64} (ha : Sound a a') (hb : Sound b b') :
    Sound (primT.intBin f a b) ((prim L).intBin f a' b') :=
  sound_lift2 (intBinF f) ha hb

/-- Every binary operator of the tainted arithmetic is sound for `arith L`. -/
theorem sound_bin (op : Bytes) {a b : TV} {a' b' : F64} (ha : Sound a a') (hb : Sound b b') :
    Sound (arithT.bin op a b) ((arith L).bin op a' b') := by
  show Sound (binOf primT op a b) (binOf (prim L) op a' b')
  unfold binOf
  by_cases h1 : op = [43]
  · simp only [h1, if_true]; exact sound_lift2 add ha hb
  simp only [h1, if_false]
  by_cases h2 : op = [42]
  · simp only [h2, if_true]; exact sound_lift2 mul ha hb
  simp only [h2, if_false]
  by_cases h3 : op = [45]
  · simp only [h3, if_true]; exact sound_lift2 sub ha hb
  simp only [h3, if_false]
  by_cases h4 : op = [47]
  · simp only [h4, if_true]; exact sound_lift2 div ha hb
  simp only [h4, if_false]
  by_cases h5 : op = [94]
  · simp only [h5, if_true]; exact sound_pow L ha hb
  simp only [h5, if_false]
  by_cases h6 : op = [37]
  · simp only [h6, if_true]; exact sound_intBin L modI ha hb
  simp only [h6, if_false]
  by_cases h7 : op = [60, 60]
  · simp only [h7, if_true]; exact sound_intBin L shlI ha hb
  simp only [h7, if_false]
  by_cases h8 : op = [62, 62]
  · simp only [h8, if_true]; exact sound_intBin L shrI ha hb
  simp only [h8, if_false]
  by_cases h9 : op = [38]
  · simp only [h9, if_true]; exact sound_intBin L andI ha hb
  simp only [h9, if_false]
  by_cases h10 : op = [124]
  · simp only [h10, if_true]; exact sound_intBin L orI ha hb
  simp only [h10, if_false]
  by_cases h11 : op = [60]
  · simp only [h11, if_true]; exact sound_lift2 ltF ha hb
  simp only [h11, if_false]
  by_cases h12 : op = [60, 61]
  · simp only [h12, if_true]; exact sound_lift2 leF ha hb
  simp only [h12, if_false]
  by_cases h13 : op = [62]
  · simp only [h13, if_true]; exact sound_lift2 ltF hb ha
  simp only [h13, if_false]
  by_cases h14 : op = [62, 61]
  · simp only [h14, if_true]; exact sound_lift2 leF hb ha
  simp only [h14, if_false]
  by_cases h15 : op = [61, 61]
  · simp only [h15, if_true]; exact sound_lift2 eqF ha hb
  simp only [h15, if_false]
  by_cases h16 : op = [38, 38]
  · simp only [h16, if_true]; exact sound_lift2 andF ha hb
  simp only [h16, if_false]
  by_cases h17 : op = [124, 124]
  · simp only [h17, if_true]; exact sound_lift2 orF ha hb
  simp only [h17, if_false]
  exact sound_some _

theorem sound_un (m : Bytes) {a : TV} {a' : F64} (ha : Sound a a') :
    Sound (arithT.un m a) ((arith L).un m a') := by
  show Sound (unOf primT m a) (unOf (prim L) m a')
  unfold unOf
  by_cases h1 : m = [45]
  · simp only [h1, if_true]; exact sound_map neg ha
  simp only [h1, if_false]
  by_cases h2 : m = [33]
  · simp only [h2, if_true]; exact sound_map notF ha
  simp only [h2, if_false]
  exact sound_fn L m ha

/-! ### literals are classified alike -/

def liftAtom : Atom F64 → Atom TV
  | .num x => .num (some x)
  | .named n => .named n
  | .idx i => .idx i

theorem parseNum_lift (v : Bytes) :
    parseNum arithT v = match parseNum (arith L) v with
      | .val x => .val (some x)
      | .notNum => .notNum
      | .unmodelled w => .unmodelled w := by
  unfold parseNum
  cases v with
  | nil => rfl
  | cons c r =>
    simp only
    cases parseIntU (c :: r) with
    | some k => rfl
    | none =>
      show primT.parseFloat (c :: r) = match parseLit (c :: r) with
        | .val x => .val (some x)
        | .notNum => .notNum
        | .unmodelled w => .unmodelled w
      unfold parseLit
      show (match F64.parseFloat (c :: r) with
        | some v => NumRes.val (some v)
        | none => NumRes.notNum) = _
      cases F64.parseFloat (c :: r) <;> rfl

theorem classifyE_lift (v : Bytes) :
    classifyE arithT v = (classifyE (arith L) v).map liftAtom := by
  unfold classifyE
  by_cases hb : isBoxed v = true
  · simp only [hb, if_true]
    cases atoi ((v.drop 1).dropLast) <;> rfl
  · simp only [hb, Bool.false_eq_true, if_false]
    rw [parseNum_lift L v]
    cases parseNum (arith L) v with
    | val x => rfl
    | unmodelled w => rfl
    | notNum =>
      simp only
      cases validVariableName v <;> rfl

theorem classify_lift (v : Bytes) : classify arithT v = (classify (arith L) v).map liftAtom := by
  unfold classify
  rw [classifyE_lift L v]
  cases classifyE (arith L) v <;> rfl

theorem classify_isSome (v : Bytes) : (classify arithT v).isSome = (classify (arith L) v).isSome := by
  rw [classify_lift L v]
  cases classify (arith L) v <;> rfl

/-! ### values of parse trees -/

/-- The tainted binding is sound for the plain one. -/
def SoundB (bT : Binding TV) (b : Binding F64) : Prop :=
  (∀ k, Sound (bT.getKey k) (b.getKey k)) ∧ (∀ i, Sound (bT.getMatch i) (b.getMatch i))

theorem sound_tree {bT : Binding TV} {b : Binding F64} (hb : SoundB bT b) : ∀ t : Tree,
    Sound (t.eval arithT (classify arithT) bT) (t.eval (arith L) (classify (arith L)) b) := by
  intro t
  induction t with
  | lit v =>
    simp only [Tree.eval]
    rw [classify_lift L v]
    cases classify (arith L) v with
    | none => exact sound_some _
    | some a =>
      cases a with
      | num x => exact sound_some _
      | named n => exact hb.1 n
      | idx i => exact hb.2 i
  | grp s e ih => exact ih
  | un m e ih => exact sound_un L m ih
  | bin i op l r ihl ihr => exact sound_bin L op ihl ihr

theorem lits_transfer (t : Tree) (h : Lits arithT t) : Lits (arith L) t := by
  have e : (fun v => (classify arithT v).isSome) = (fun v => (classify (arith L) v).isSome) :=
    funext (classify_isSome L)
  unfold Lits at h ⊢
  rw [← e]; exact h

/-- **Soundness of the tainted evaluation.**  If a formula compiles in the tainted arithmetic it
    compiles, to the same parse, in `arith L` for every `L`; and whenever the tainted value is not
    tainted it *is* the value in `arith L`. -/
theorem taint_sound_aux (s : Bytes) (t : Tree) (eT : Expr TV) (h : compile arithT s = .ok (t, eT))
    (bT : Binding TV) (b : Binding F64) (hb : SoundB bT b) :
    ∃ e, compile (arith L) s = .ok (t, e) ∧ Sound (eT.eval arithT bT) (e.eval (arith L) b) := by
  obtain ⟨htok, g⟩ := compileF_post arithT _ s t eT h
  obtain ⟨e, he⟩ := compileF_complete (arith L) (s.length + 1) s t (Nat.lt_succ_self _) htok g.wp g.deep
    (lits_transfer L t g.lits)
  obtain ⟨_, g'⟩ := compileF_post (arith L) _ s t e he
  refine ⟨e, he, ?_⟩
  rw [g.ev bT, g'.ev b]
  exact sound_tree L hb t

/-- The tainted arithmetic and `arith L` accept exactly the same formula texts. -/
theorem compile_ok_iff (s : Bytes) :
    (∃ t eT, compile arithT s = .ok (t, eT)) ↔ (∃ t e, compile (arith L) s = .ok (t, e)) := by
  constructor
  · rintro ⟨t, eT, h⟩
    obtain ⟨htok, g⟩ := compileF_post arithT _ s t eT h
    obtain ⟨e, he⟩ := compileF_complete (arith L) (s.length + 1) s t (Nat.lt_succ_self _) htok g.wp g.deep
      (lits_transfer L t g.lits)
    exact ⟨t, e, he⟩
  · rintro ⟨t, e, h⟩
    obtain ⟨htok, g⟩ := compileF_post (arith L) _ s t e h
    have hl : Lits arithT t := by
      have e' : (fun v => (classify arithT v).isSome) = (fun v => (classify (arith L) v).isSome) :=
        funext (classify_isSome L)
      unfold Lits
      rw [e']; exact g.lits
    obtain ⟨eT, he⟩ := compileF_complete arithT (s.length + 1) s t (Nat.lt_succ_self _) htok g.wp g.deep hl
    exact ⟨t, eT, he⟩

end Rare.C19.IEEE
