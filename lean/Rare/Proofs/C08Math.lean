import Rare.Proofs.ExprSafe
import Rare.Proofs.C19Fuel
import Rare.Proofs.C19Rat
import Rare.Model.Expr.Funcs.Math
/-!
Panic-freedom of the `!` builder (`kfMath`, funcsMath.go) for C08.

The builder is generic in a `MathInst` (arithmetic, conversion of capture text, rendering, handling
of literal spellings outside the modelled grammar).  Proved here:

* `kfMathWith_safe`: for EVERY instance whose rendering and unmodelled-literal fallback do not
  panic, `kfMathWith I` is a `SafeBuilder`: on safe (panic-free) argument stages the builder neither
  panics at compile time (the stdmath model never answers `.panic` – `compileF_noPanic`, i.e. the
  simplifier probe, `opCodeOrder` and the dangling-operator case are total after the F11/F12
  repairs – nor `.fuel` – `compile_noFuel`) nor returns a stage that can panic (formula evaluation
  is a total function of the look-ups; `%` by zero and negative shifts are values, not crashes).
* The registered float64 builder `kfMath = kfMathWith floatInst` differs from such an instance only
  in that its rendering answers the marker `unmodelled:!…` (a `Comp.panic` node the driver prints
  as `unmodelled`) for values that went through libm functions or inexact powers, and for
  literals like `1_000`/`0x1p4`.  `kfMath_safeMod`: it never fails at compile time, and every
  panic node of its stage carries such an `unmodelled:` marker – never a modelled Go panic.
  Hence `!` is listed in `mathUnmodelled` and `math_safe` holds for the rest of the table.
-/
namespace Rare.Expr.Funcs.Math
open Rare.Expr

/-- Names of the family whose registered builder can emit a `.panic "unmodelled:…"` node. -/
def mathUnmodelled : List String := ["!"]

/-- The parts of an instance that could introduce a panic node do not. -/
def MathInst.SafeInst {V : Type} (I : MathInst V) : Prop :=
  (∀ v, Safe (I.render v)) ∧ (∀ w s, (I.unmodelledLit w).stage = some s → Safe s)

theorem evalC_safe {V : Type} (I : MathInst V) (e : C19.Expr V) : Safe (evalC I e) := by
  induction e with
  | val v => exact Safe.pure _
  | named n => exact Safe.bind' (Safe.key n) fun s => Safe.pure _
  | idx i => exact Safe.bind' (Safe.match_ i) fun s => Safe.pure _
  | un m e ih => exact Safe.bind' ih fun a => by obtain ⟨v, k⟩ := a; exact Safe.pure _
  | bin op l r ihl ihr =>
    exact Safe.bind' ihl fun a => by
      obtain ⟨v, k⟩ := a
      exact Safe.bind' ihr fun b => by obtain ⟨w, k2⟩ := b; exact Safe.pure _

theorem collapse_ok : ∀ (args : List Stage) (acc : Bytes), (∀ a ∈ args, Safe a) →
    ∃ r, collapse args acc = .ok r := by
  intro args
  induction args with
  | nil => intro acc _; exact ⟨_, rfl⟩
  | cons a rest ih =>
    intro acc h
    obtain ⟨v, b, hp⟩ := (h a List.mem_cons_self).probe
    simp only [collapse, hp]
    cases b with
    | true => exact ih _ fun x hx => h x (List.mem_cons_of_mem _ hx)
    | false => exact ⟨_, rfl⟩

/-- **Panic-freedom of `{! …}` for every panic-free instance.** -/
theorem kfMathWith_safe {V : Type} (I : MathInst V) (hI : I.SafeInst) : SafeBuilder (kfMathWith I) := by
  intro args hargs
  obtain ⟨r, hr⟩ := collapse_ok args [] hargs
  simp only [kfMathWith, hr]
  cases r with
  | none => exact ⟨_, rfl, fun s hs => by injection hs with hs; subst hs; exact Safe.lit _⟩
  | some src =>
    simp only
    cases hc : C19.compile I.arith src with
    | error err =>
      cases err with
      | panic m => exact absurd rfl (C19.compileF_noPanic I.arith _ src _ hc m)
      | fuel => exact absurd hc (C19.compile_noFuel I.arith src)
      | unmodelled w => exact ⟨_, rfl, fun s hs => hI.2 w s hs⟩
      | overclosed => exact ⟨_, rfl, fun s hs => by injection hs with hs; subst hs; exact Safe.lit _⟩
      | unclosed => exact ⟨_, rfl, fun s hs => by injection hs with hs; subst hs; exact Safe.lit _⟩
      | numeric => exact ⟨_, rfl, fun s hs => by injection hs with hs; subst hs; exact Safe.lit _⟩
      | unexpectedEnd => exact ⟨_, rfl, fun s hs => by injection hs with hs; subst hs; exact Safe.lit _⟩
      | expectedExpr => exact ⟨_, rfl, fun s hs => by injection hs with hs; subst hs; exact Safe.lit _⟩
      | unknownOp => exact ⟨_, rfl, fun s hs => by injection hs with hs; subst hs; exact Safe.lit _⟩
      | expectedOp => exact ⟨_, rfl, fun s hs => by injection hs with hs; subst hs; exact Safe.lit _⟩
    | ok r =>
      obtain ⟨t, e⟩ := r
      refine ⟨_, rfl, fun s hs => ?_⟩
      injection hs with hs
      subst hs
      exact Safe.bind' (evalC_safe I e) fun a => by
        obtain ⟨v, errs⟩ := a
        show Safe (if errs > 0 then pure ErrorNum else I.render v)
        split
        · exact Safe.pure _
        · exact hI.1 v

/-- A panic-free instance exists (exact arithmetic `Option Rat` of `Rare/Proofs/C19Rat.lean`,
    constant rendering): the theorem above is not vacuous. -/
def exactInst : MathInst C19.QV where
  arith := C19.ratArith
  conv := fun s => match atoi s with
    | some i => (some (i : Rat), 0)
    | none => (some 0, 1)
  render := fun _ => Stage.lit []
  unmodelledLit := fun _ => ⟨some (Stage.lit ErrorParsing), some "parsing"⟩

theorem exactInst_safe : SafeBuilder (kfMathWith exactInst) :=
  kfMathWith_safe exactInst ⟨fun _ => Safe.lit _, fun _ s hs => by
    injection hs with hs; subst hs; exact Safe.lit _⟩

/-! ### the registered float64 builder -/

/-- No panic node other than an `unmodelled:!…` marker (which `Rare/Drv/Expr.lean` prints as
    `unmodelled …`, never as `panic`) is reachable. -/
inductive SafeMod {α : Type} : Comp α → Prop
  | ret (a : α) : SafeMod (.ret a)
  | getMatch (i : Int) (k : Bytes → Comp α) : (∀ b, SafeMod (k b)) → SafeMod (.getMatch i k)
  | getKey (s : Bytes) (k : Bytes → Comp α) : (∀ b, SafeMod (k b)) → SafeMod (.getKey s k)
  | marker (m : String) : (∃ w, m = "unmodelled:!" ++ w) → SafeMod (.panic m)

theorem SafeMod.ofSafe {α : Type} {c : Comp α} (h : Safe c) : SafeMod c := by
  induction h with
  | ret a => exact .ret a
  | getMatch i k _ ih => exact .getMatch _ _ ih
  | getKey s k _ ih => exact .getKey _ _ ih

theorem SafeMod.bind {α β : Type} {c : Comp α} {f : α → Comp β} (h : Safe c) (hf : ∀ a, SafeMod (f a)) :
    SafeMod (c >>= f) := by
  show SafeMod (c.bind f)
  induction h with
  | ret a => exact hf a
  | getMatch i k _ ih => exact .getMatch _ _ ih
  | getKey s k _ ih => exact .getKey _ _ ih

/-- The registered `!` builder never fails at compile time on safe arguments, and the stage it
    returns reaches no panic node except the `unmodelled:` markers of the float64 rendering. -/
theorem kfMath_safeMod (args : List Stage) (hargs : ∀ a ∈ args, Safe a) :
    ∃ built, kfMath args = .ok built ∧ ∀ s, built.stage = some s → SafeMod s := by
  obtain ⟨r, hr⟩ := collapse_ok args [] hargs
  simp only [kfMath, kfMathWith, hr]
  cases r with
  | none => exact ⟨_, rfl, fun s hs => by injection hs with hs; subst hs; exact .ret _⟩
  | some src =>
    simp only
    cases hc : C19.compile floatInst.arith src with
    | error err =>
      cases err with
      | panic m => exact absurd rfl (C19.compileF_noPanic floatInst.arith _ src _ hc m)
      | fuel => exact absurd hc (C19.compile_noFuel floatInst.arith src)
      | unmodelled w =>
        refine ⟨_, rfl, fun s hs => ?_⟩
        injection hs with hs; subst hs
        exact .marker _ ⟨w, rfl⟩
      | overclosed => exact ⟨_, rfl, fun s hs => by injection hs with hs; subst hs; exact .ret _⟩
      | unclosed => exact ⟨_, rfl, fun s hs => by injection hs with hs; subst hs; exact .ret _⟩
      | numeric => exact ⟨_, rfl, fun s hs => by injection hs with hs; subst hs; exact .ret _⟩
      | unexpectedEnd => exact ⟨_, rfl, fun s hs => by injection hs with hs; subst hs; exact .ret _⟩
      | expectedExpr => exact ⟨_, rfl, fun s hs => by injection hs with hs; subst hs; exact .ret _⟩
      | unknownOp => exact ⟨_, rfl, fun s hs => by injection hs with hs; subst hs; exact .ret _⟩
      | expectedOp => exact ⟨_, rfl, fun s hs => by injection hs with hs; subst hs; exact .ret _⟩
    | ok r =>
      obtain ⟨t, e⟩ := r
      refine ⟨_, rfl, fun s hs => ?_⟩
      injection hs with hs
      subst hs
      exact SafeMod.bind (evalC_safe floatInst e) fun a => by
        obtain ⟨v, errs⟩ := a
        show SafeMod (if errs > 0 then pure ErrorNum else floatInst.render v)
        split
        · exact .ret _
        · cases v with
          | none => exact .marker _ ⟨"inexact", by decide⟩
          | some x => exact .ret _

/-- Every builder of the family outside `mathUnmodelled` is a `SafeBuilder`.  (The family consists
    of `!` alone, which is in `mathUnmodelled` because of its float64 rendering; what is proved
    about it is `kfMathWith_safe` and `kfMath_safeMod` above.) -/
theorem math_safe : ∀ p ∈ Rare.Expr.Funcs.Math.table, p.1 ∉ mathUnmodelled → SafeBuilder p.2 := by
  intro p hp hn
  simp only [table, List.mem_singleton] at hp
  subst hp
  exact absurd (by simp [mathUnmodelled]) hn

end Rare.Expr.Funcs.Math
