import Rare.Proofs.C19Vars
import Rare.Proofs.C19Complete
/-!
C19, round 4c: the look-ups of a compiled formula read off the formula TEXT.

`textVars` (`Model/C19Pool.lean`) walks the token stream of the text (the tokenizer specification `tok`): every literal token that
denotes `[n]` / `[name]` / a bare name is one look-up, a group token contributes the look-ups of its own text,
operators and unary modifiers none.  `compile_textVars`: that list IS `Expr.vars` of what `compile` builds.
-/
namespace Rare.C19
open Rare.C19.Pool

variable {α : Type}

theorem tokListVars_append (cls : Bytes → Option (Atom α)) (g : Bytes → List Var) (a b : List Token) :
    tokListVars cls g (a ++ b) = tokListVars cls g a ++ tokListVars cls g b := by
  induction a with
  | nil => rfl
  | cons tk rest ih => simp only [List.cons_append, tokListVars, ih, List.append_assoc]

theorem flatten_vars (cls : Bytes → Option (Atom α)) (g : Bytes → List Var) {N : Nat}
    (hG : ∀ s0 e0, s0.length < N → tok s0 = some e0.flatten → Deep tok e0 → g s0 = e0.vars cls) :
    ∀ t : Tree, Deep tok t → GrpLt N t.flatten → tokListVars cls g t.flatten = t.vars cls := by
  intro t
  induction t with
  | lit v =>
    intro _ _
    simp only [Tree.flatten, tokListVars, Tree.vars, List.append_nil]
    all_goals (cases cls v <;> rfl)
  | grp s e0 _ =>
    intro hd hgl
    cases hd with
    | grp _ _ htok hd0 =>
      have hlen : s.length < N := hgl ⟨s, .group⟩ (by simp [Tree.flatten]) rfl
      simp [Tree.flatten, tokListVars, Tree.vars, hG s e0 hlen htok hd0]
  | un m e0 ih =>
    intro hd hgl
    cases hd with
    | un _ _ hd0 =>
      have hg0 : GrpLt N e0.flatten := fun tk hm => hgl tk (by simp [Tree.flatten, hm])
      simp [Tree.flatten, tokListVars, Tree.vars, ih hd0 hg0]
  | bin i op l r ihl ihr =>
    intro hd hgl
    cases hd with
    | bin _ _ _ _ hdl hdr =>
      have hgl1 : GrpLt N l.flatten := fun tk hm => hgl tk (by simp [Tree.flatten, hm])
      have hgl2 : GrpLt N r.flatten := fun tk hm => hgl tk (by simp [Tree.flatten, hm])
      simp only [Tree.flatten, tokListVars_append, Tree.vars, ihl hdl hgl1, ihr hdr hgl2]
      cases i <;> simp [tokListVars]

theorem textVarsF_tree (cls : Bytes → Option (Atom α)) : ∀ (f : Nat) (s : Bytes) (t : Tree), s.length < f →
    tok s = some t.flatten → Deep tok t → textVarsF tok cls f s = t.vars cls := by
  intro f
  induction f with
  | zero => intro s t h; omega
  | succ f ih =>
    intro s t hlen htok hd
    simp only [textVarsF, htok]
    exact flatten_vars cls (textVarsF tok cls f)
      (fun s0 e0 h0 ht0 hd0 => ih s0 e0 (by omega) ht0 hd0) t hd (tok_group_len htok)

end Rare.C19
