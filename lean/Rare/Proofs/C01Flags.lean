import Rare.Model.C01Flags
/-! Helper lemmas for the command-line plumbing model of C01 (`Model/C01Flags.lean`). -/
namespace Rare.C01

theorem varValue_guarded (f : Flags) : varValue f "batchSize" = some f.batch ∧
    varValue f "batchBuffer" = some f.batchBuffer ∧ varValue f "concurrentReaders" = some f.readers := by
  refine ⟨?_, ?_, ?_⟩ <;> simp [varValue]

theorem exitCodeOf_invalidUsage : exitCodeOf "ExitCodeInvalidUsage" = 2 := by decide

/-- The interpreted guard table, as the if-chain of the source. -/
theorem checkGuards_usageGuards (f : Flags) : checkGuards f usageGuards =
    if f.batch < 1 then .error ⟨2, fmtMsg "Batch size must be >= 1, is %d" f.batch⟩
    else if f.batchBuffer < 0 then .error ⟨2, fmtMsg "Batch buffer must be >= 0, is %d" f.batchBuffer⟩
    else if f.readers < 1 then .error ⟨2, "Must have at least 1 reader"⟩
    else .ok () := by
  have hm : fmtMsg "Must have at least 1 reader" f.readers = "Must have at least 1 reader" := rfl
  unfold usageGuards
  rw [checkGuards, (varValue_guarded f).1]
  simp only [if_true, exitCodeOf_invalidUsage, decide_eq_true_eq]
  rw [checkGuards, (varValue_guarded f).2.1]
  simp only [if_true, exitCodeOf_invalidUsage, decide_eq_true_eq]
  rw [checkGuards, (varValue_guarded f).2.2]
  simp only [if_true, exitCodeOf_invalidUsage, decide_eq_true_eq, hm]
  rw [checkGuards]

end Rare.C01
