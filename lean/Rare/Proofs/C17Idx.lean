import Rare.Proofs.C17Funcs
/-!
Helper lemmas for C17, part 4: index arithmetic of `@select` and `@slice`.
-/
namespace Rare.C17
open Rare Rare.Expr Rare.Expr.Funcs.Range

/-! ## @select -/

def selG : SelSt → Bool := fun st => st.found.isNone
def selPhi (idx : Int) : SelSt → Bytes → SelSt := fun st val =>
  if st.i = idx then ⟨st.i, some val⟩ else ⟨wrap64 (st.i + 1), none⟩

theorem select_fold (idx : Int) (xs : List Bytes) (i : Int) (h0 : 0 ≤ i)
    (hb : i + xs.length ≤ maxInt64) :
    (foldWhile selG (selPhi idx) xs ⟨i, none⟩).found.getD [] =
      if idx < i then [] else xs.getD (idx - i).toNat [] := by
  induction xs generalizing i with
  | nil => simp [foldWhile]
  | cons x xs ih =>
    simp only [foldWhile, selG, Option.isNone_none, if_true, selPhi]
    by_cases he : i = idx
    · subst he
      simp only [if_true]
      rw [foldWhile_false _ _ _ _ (by simp [selG])]
      simp
    · simp only [he, if_false]
      have hl : (i + 1 : Int) + (xs.length : Int) ≤ maxInt64 := by
        simp only [List.length_cons] at hb; omega
      rw [wrap64_id (i + 1) (by unfold minInt64; omega) (by omega)]
      rw [ih (i + 1) (by omega) hl]
      by_cases hlt : idx < i
      · have : idx < i + 1 := by omega
        simp [hlt, this]
      · have h1 : ¬ idx < i + 1 := by omega
        have h2 : (idx - i).toNat = (idx - (i + 1)).toNat + 1 := by omega
        simp [hlt, h1, h2]

/-! ## @slice -/

/-- `len` elements, or all of them when `len < 0`. -/
def takeL (len : Int) (l : List Bytes) : List Bytes := if len < 0 then l else l.take len.toNat

def sliG (rs len : Int) : SliceSt → Bool := fun st =>
  decide (len < 0) || decide (wrap64 (st.i - rs) < len)
def sliPhi (rs : Int) : SliceSt → Bytes → SliceSt := fun st val =>
  ⟨wrap64 (st.i + 1),
    if st.i ≥ rs then (if st.i > rs then st.ret.write ArraySeparatorString else st.ret).write val
    else st.ret⟩

/-- Past the start: every further element is written with a separator in front. -/
theorem slice_fold_after (rs len : Int) (hrs : 0 ≤ rs) (xs : List Bytes) (i : Int) (sb : Sb)
    (hi : rs < i) (hb : i + xs.length ≤ maxInt64) (hle : len < 0 ∨ i - rs ≤ len) :
    (foldWhile (sliG rs len) (sliPhi rs) xs ⟨i, sb⟩).ret.str =
      sb.str ++ joinTail [NUL] (takeL (if len < 0 then len else len - (i - rs)) xs) := by
  induction xs generalizing i sb with
  | nil => simp [foldWhile, takeL, joinTail]
  | cons x xs ih =>
    have hw : wrap64 (i - rs) = i - rs :=
      wrap64_id _ (by unfold minInt64; omega) (by unfold maxInt64 at *; simp at hb; omega)
    have hgv : ∀ sb', sliG rs len ⟨i, sb'⟩ = (decide (len < 0) || decide (i - rs < len)) := by
      intro sb'
      show (decide (len < 0) || decide (wrap64 (i - rs) < len)) = _
      rw [hw]
    have hl : (i + 1 : Int) + (xs.length : Int) ≤ maxInt64 := by
      simp only [List.length_cons] at hb; omega
    by_cases hg : sliG rs len ⟨i, sb⟩ = true
    · simp only [foldWhile, hg, if_true, sliPhi]
      have h1 : i ≥ rs := by omega
      simp only [h1, hi, if_true]
      rw [wrap64_id (i + 1) (by unfold minInt64; omega) (by omega)]
      rw [hgv] at hg
      simp only [Bool.or_eq_true, decide_eq_true_eq] at hg
      rw [ih (i + 1) _ (by omega) hl (by omega)]
      by_cases hn : len < 0
      · simp [hn, takeL, joinTail, ArraySeparatorString, ArraySeparator, NUL]
      · have hlt : i - rs < len := by omega
        have e : (len - (i - rs)).toNat = (len - (i + 1 - rs)).toNat + 1 := by omega
        have n1 : ¬ len - (i - rs) < 0 := by omega
        have n2 : ¬ len - (i + 1 - rs) < 0 := by omega
        simp [hn, takeL, n1, n2, e, joinTail, ArraySeparatorString, ArraySeparator, NUL]
    · have hg' : sliG rs len ⟨i, sb⟩ = false := by simpa using hg
      rw [foldWhile_false _ _ _ _ hg']
      have hg'' := hg'
      rw [hgv] at hg''
      simp only [Bool.or_eq_false_iff, decide_eq_false_iff_not] at hg''
      have e : (len - (i - rs)).toNat = 0 := by omega
      have n1 : ¬ len - (i - rs) < 0 := by omega
      simp [hg''.1, takeL, n1, e, joinTail]

/-- Before (or at) the start: skip up to the start, then write the first element bare. -/
theorem slice_fold_before (rs len : Int) (hrs : 0 ≤ rs) (hrm : rs ≤ maxInt64) (xs : List Bytes)
    (i : Int) (sb : Sb) (h0 : 0 ≤ i) (hi : i ≤ rs) (hb : i + xs.length ≤ maxInt64) :
    (foldWhile (sliG rs len) (sliPhi rs) xs ⟨i, sb⟩).ret.str =
      sb.str ++ pack (takeL len (xs.drop (rs - i).toNat)) := by
  induction xs generalizing i sb with
  | nil => simp [foldWhile, takeL, pack, join]
  | cons x xs ih =>
    have hw : wrap64 (i - rs) = i - rs :=
      wrap64_id _ (by unfold minInt64 maxInt64 at *; omega) (by unfold maxInt64 at *; omega)
    have hgv : ∀ sb', sliG rs len ⟨i, sb'⟩ = (decide (len < 0) || decide (i - rs < len)) := by
      intro sb'
      show (decide (len < 0) || decide (wrap64 (i - rs) < len)) = _
      rw [hw]
    have hl : (i + 1 : Int) + (xs.length : Int) ≤ maxInt64 := by
      simp only [List.length_cons] at hb; omega
    have hw1 : wrap64 (i + 1) = i + 1 := wrap64_id (i + 1) (by unfold minInt64; omega) (by omega)
    by_cases hlt : i < rs
    · -- still skipping: the guard holds
      have hg : sliG rs len ⟨i, sb⟩ = true := by
        rw [hgv]
        simp only [Bool.or_eq_true, decide_eq_true_eq]
        by_cases hn : len < 0
        · exact Or.inl hn
        · exact Or.inr (by omega)
      have h1 : ¬ i ≥ rs := by omega
      simp only [foldWhile, hg, if_true, sliPhi, h1, if_false, hw1]
      rw [ih (i + 1) sb (by omega) (by omega) hl]
      have e : (rs - i).toNat = (rs - (i + 1)).toNat + 1 := by omega
      simp [e]
    · have he : i = rs := by omega
      subst he
      by_cases hg : sliG i len ⟨i, sb⟩ = true
      · simp only [foldWhile, hg, if_true, sliPhi, hw1]
        have h1 : i ≥ i := by omega
        have h2 : ¬ i > i := by omega
        simp only [h1, h2, if_true, if_false]
        rw [hgv] at hg
        simp only [Bool.or_eq_true, decide_eq_true_eq] at hg
        rw [slice_fold_after i len hrs xs (i + 1) _ (by omega) hl (by omega)]
        by_cases hn : len < 0
        · simp [hn, takeL, pack, join_cons_tail]
        · have hpos : 0 < len := by omega
          have e : len.toNat = (len - (i + 1 - i)).toNat + 1 := by omega
          have n2 : ¬ len - (i + 1 - i) < 0 := by omega
          simp [hn, takeL, n2, e, pack, join_cons_tail]
      · have hg' : sliG i len ⟨i, sb⟩ = false := by simpa using hg
        rw [foldWhile_false _ _ _ _ hg']
        have hg'' := hg'
        rw [hgv] at hg''
        simp only [Bool.or_eq_false_iff, decide_eq_false_iff_not] at hg''
        have e : len.toNat = 0 := by omega
        simp [hg''.1, takeL, e, pack, join]

end Rare.C17
