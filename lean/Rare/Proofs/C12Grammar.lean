import Rare.Proofs.C12Parse
import Rare.Spec.C12Grammar
/-! `CompileEx` accepts exactly the texts of the pattern grammar (`Spec/C12Grammar.lean`). -/
namespace Rare.C12

/-- "no occurrence" by search = "not an infix" -/
theorem firstIndex_none_iff_not_infix (n h : Bytes) : firstIndex n h = none ↔ ¬ n <:+: h := by
  rw [firstIndex_none_iff]
  constructor
  · rintro hall ⟨s, t, hst⟩
    apply hall s.length (by rw [← hst]; simp)
    rw [← hst]
    exact ⟨t, by simp⟩
  · intro hno k hk hp
    apply hno
    obtain ⟨t, ht⟩ := hp
    exact ⟨h.take k, t, by rw [List.append_assoc, ht, List.take_append_drop]⟩

theorem noTok_iff_literal (l : Bytes) : NoTok l ↔ IsLiteral l :=
  firstIndex_none_iff_not_infix _ l

theorem shape_iff (p : Pat) :
    p.Shape ↔ IsLiteral p.pre ∧ (∀ t ∈ p.toks, IsKey t.key) ∧ (∀ t ∈ p.toks, IsLiteral t.lit) := by
  unfold Pat.Shape
  constructor
  · rintro ⟨h1, h2⟩
    exact ⟨(noTok_iff_literal _).mp h1, fun t ht => (h2 t ht).1, fun t ht => (noTok_iff_literal _).mp (h2 t ht).2⟩
  · rintro ⟨h1, h2, h3⟩
    exact ⟨(noTok_iff_literal _).mpr h1, fun t ht => ⟨h2 t ht, (noTok_iff_literal _).mpr (h3 t ht)⟩⟩

/-- the scan of `specErrors` finds nothing iff delimiters between adjacent tokens are non-empty and
the captured names are new and pairwise different -/
theorem specErrors_none_iff : ∀ (toks : List Tok) (seen : List Bytes),
    specErrors false toks seen = none ↔
      DelimsNonEmpty toks ∧ (capturedNames toks).Nodup ∧ ∀ n ∈ capturedNames toks, n ∉ seen := by
  intro toks
  induction toks with
  | nil => intro seen; simp [specErrors, DelimsNonEmpty, capturedNames]
  | cons t ts ih =>
    intro seen
    simp only [specErrors, DelimsNonEmpty]
    by_cases hseq : t.lit = [] ∧ (ts ≠ [] ∨ false = true)
    · rw [if_pos hseq]
      have : ¬ (ts ≠ [] → t.lit ≠ []) := by
        intro h
        rcases hseq.2 with h2 | h2
        · exact h h2 hseq.1
        · cases h2
      simp [this]
    · rw [if_neg hseq]
      have hd : (ts ≠ [] → t.lit ≠ []) := by
        intro h1 h2; exact hseq ⟨h2, Or.inl h1⟩
      by_cases hsk : t.skip = true
      · have hcap : capturedNames (t :: ts) = capturedNames ts := by simp [capturedNames, List.filter, hsk]
        simp only [hsk, Bool.not_true, Bool.false_eq_true, false_and, if_false, if_true, hcap]
        rw [ih seen]
        constructor
        · rintro ⟨a, b, c⟩; exact ⟨⟨hd, a⟩, b, c⟩
        · rintro ⟨⟨_, a⟩, b, c⟩; exact ⟨a, b, c⟩
      · have hsk' : t.skip = false := by simpa using hsk
        have hcap : capturedNames (t :: ts) = t.name :: capturedNames ts := by
          simp [capturedNames, List.filter, hsk']
        simp only [hsk', Bool.not_false, true_and, Bool.false_eq_true, if_false, hcap]
        by_cases hc : t.name ∈ seen
        · rw [if_pos hc]
          simp only [reduceCtorEq, false_iff]
          rintro ⟨_, _, h⟩
          exact h t.name (by simp) hc
        · rw [if_neg hc, ih (t.name :: seen)]
          simp only [List.nodup_cons, List.mem_cons, not_or]
          constructor
          · rintro ⟨a, b, c⟩
            refine ⟨⟨hd, a⟩, ⟨fun hm => (c _ hm).1 rfl, b⟩, ?_⟩
            intro n hn
            rcases hn with rfl | hn
            · exact hc
            · exact (c n hn).2
          · rintro ⟨⟨_, a⟩, ⟨b1, b2⟩, c⟩
            refine ⟨a, b2, fun n hn => ⟨?_, c n (Or.inr hn)⟩⟩
            intro e; subst e; exact b1 hn

theorem grammar_iff (p : Pat) : p.Grammar ↔ p.Shape ∧ specErrors false p.toks [] = none := by
  rw [shape_iff, specErrors_none_iff]
  constructor
  · intro g; exact ⟨⟨g.pre, g.keys, g.lits⟩, g.delims, g.names, by simp⟩
  · rintro ⟨⟨a, b, c⟩, d, e, _⟩; exact ⟨a, b, c, d, e⟩

/-- **`CompileEx` succeeds iff the text is derivable in the grammar** (either mode). -/
theorem compileEx_ok_iff_grammar (s : Bytes) (ic : Bool) :
    (∃ d, compileEx s ic = .ok d) ↔ PatternText s := by
  constructor
  · rintro ⟨d, h⟩
    obtain ⟨p, hp, hs⟩ := compiles_is_pattern h
    subst hs
    exact ⟨p, (grammar_iff p).mpr ⟨hp, (compileEx_ok hp h).1⟩, rfl⟩
  · rintro ⟨p, g, rfl⟩
    obtain ⟨hp, he⟩ := (grammar_iff p).mp g
    rw [compileEx_pat ic p hp, he]
    exact ⟨_, rfl⟩

/-- the compiled structure of a derivation -/
theorem compileEx_of_grammar (p : Pat) (g : p.Grammar) (ic : Bool) :
    compileEx p.render ic = .ok (compiled ic p) := by
  obtain ⟨hp, he⟩ := (grammar_iff p).mp g
  rw [compileEx_pat ic p hp, he]

/-- `CompileEx` never runs out of the model's fuel: it answers a structure or one of the three Go errors -/
theorem compileEx_no_fuel (s : Bytes) (ic : Bool) : compileEx s ic ≠ .error .fuel := by
  obtain ⟨p, tail, hp, ht, hs⟩ := parse_total s
  rw [hs, compileEx_render ic p hp tail ht]
  cases specErrors tail.isSome p.toks [] with
  | none => simp
  | some e => cases e <;> simp [cerr]

end Rare.C12
