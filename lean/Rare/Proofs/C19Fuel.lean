import Rare.Proofs.C19Complete
/-!
The recursion budgets of the C19 model are never exhausted: `compile` never answers `.fuel`
(so "the model returns" is not an assumption: every formula either compiles or is rejected with
one of the Go error values).
-/
namespace Rare.C19

variable {α : Type} (A : Arith α)

/-- the group compiler does not run out of fuel on any group token of the list -/
def GOK (cg : Bytes → Except Err (Parsed α)) (toks : List Token) : Prop :=
  ∀ tk ∈ toks, tk.t = .group → cg tk.val ≠ .error .fuel

theorem classifyE_noFuel {v : Bytes} {err : Err} (h : classifyE A v = .error err) : err ≠ .fuel := by
  unfold classifyE at h
  split at h
  · simp only at h
    split at h <;> cases h
  · split at h
    · cases h
    · injection h with h; subst h; intro hm; cases hm
    · split at h
      · cases h
      · injection h with h; subst h; intro hm; cases hm

theorem getNextOp_noFuel {tk : Token} {err : Err} (h : getNextOp tk = .error err) : err ≠ .fuel := by
  obtain ⟨val, ty⟩ := tk
  cases ty <;> simp only [getNextOp] at h
  · injection h with h; subst h; intro hm; cases hm
  · cases h
  · split at h
    · cases h
    · injection h with h; subst h; intro hm; cases hm
  · injection h with h; subst h; intro hm; cases hm

theorem getNextExpr_noFuel {cg : Bytes → Except Err (Parsed α)} :
    ∀ (toks : List Token), GOK cg toks → ∀ err, getNextExpr A cg toks = .error err → err ≠ .fuel := by
  intro toks
  induction toks with
  | nil => intro _ err h; simp only [getNextExpr] at h; injection h with h; subst h; intro hm; cases hm
  | cons tk tl ih =>
    intro hg err h
    have hg' : GOK cg tl := fun x hx => hg x (List.mem_cons_of_mem _ hx)
    have hhead := hg tk List.mem_cons_self
    obtain ⟨val, ty⟩ := tk
    cases ty <;> simp only [getNextExpr] at h
    · cases hc : classifyE A val with
      | error e2 => rw [hc] at h; injection h with h; subst h; exact classifyE_noFuel A hc
      | ok a => rw [hc] at h; cases h
    · cases hc : cg val with
      | error e2 =>
        rw [hc] at h; injection h with h; subst h
        intro hf; subst hf; exact hhead rfl hc
      | ok r => obtain ⟨t0, e0⟩ := r; rw [hc] at h; cases h
    · injection h with h; subst h; intro hm; cases hm
    · cases hc : getNextExpr A cg tl with
      | error e2 => rw [hc] at h; injection h with h; subst h; exact ih hg' _ hc
      | ok r => obtain ⟨⟨t0, e0⟩, r0⟩ := r; rw [hc] at h; cases h

theorem getNextExpr_sub {cg : Bytes → Except Err (Parsed α)} :
    ∀ (toks : List Token) (r : Parsed α) (rest : List Token),
      getNextExpr A cg toks = .ok (r, rest) → ∀ tk, tk ∈ rest → tk ∈ toks := by
  intro toks
  induction toks with
  | nil => intro r rest h; simp [getNextExpr] at h
  | cons tk tl ih =>
    intro r rest h
    obtain ⟨val, ty⟩ := tk
    cases ty <;> simp only [getNextExpr] at h
    · cases hc : classifyE A val with
      | error e2 => rw [hc] at h; cases h
      | ok a =>
        rw [hc] at h; injection h with h; injection h with _ h2; subst h2
        exact fun x hx => List.mem_cons_of_mem _ hx
    · cases hc : cg val with
      | error e2 => rw [hc] at h; cases h
      | ok r0 =>
        obtain ⟨t0, e0⟩ := r0
        rw [hc] at h; injection h with h; injection h with _ h2; subst h2
        exact fun x hx => List.mem_cons_of_mem _ hx
    · cases h
    · cases hc : getNextExpr A cg tl with
      | error e2 => rw [hc] at h; cases h
      | ok r0 =>
        obtain ⟨⟨t0, e0⟩, rest0⟩ := r0
        rw [hc] at h; injection h with h; injection h with _ h2; subst h2
        exact fun x hx => List.mem_cons_of_mem _ (ih _ _ hc x hx)

/-- what the loop leaves unconsumed is part of what it was given -/
theorem climb_sub {cg : Bytes → Except Err (Parsed α)} :
    ∀ (f : Nat) (last : Bytes) (ret : Parsed α) (toks : List Token) (r : Parsed α) (rest' : List Token),
      climb A cg f last ret toks = .ok (r, rest') → ∀ tk, tk ∈ rest' → tk ∈ toks := by
  intro f
  induction f with
  | zero => intro last ret toks r rest' h; simp [climb] at h
  | succ f ih =>
    intro last ret toks r rest' h
    cases toks with
    | nil =>
      simp only [climb] at h
      injection h with h; injection h with _ h2; subst h2; exact fun _ hx => hx
    | cons tk rest =>
      simp only [climb] at h
      cases hop : getNextOp tk with
      | error e2 => rw [hop] at h; cases h
      | ok oc =>
        obtain ⟨op, c⟩ := oc
        rw [hop] at h
        simp only at h
        cases hord : opCodeOrder last op with
        | error e2 => rw [hord] at h; cases h
        | ok ord =>
          rw [hord] at h
          simp only at h
          by_cases h1 : ord = 1
          · simp only [h1, if_true] at h
            cases hne : getNextExpr A cg (if c = true then rest else tk :: rest) with
            | error e2 => rw [hne] at h; cases h
            | ok r1 =>
              obtain ⟨⟨t1, e1⟩, toks1⟩ := r1
              rw [hne] at h
              simp only at h
              have s0 := getNextExpr_sub A _ _ _ hne
              cases hc1 : climb A cg f op (t1, e1) toks1 with
              | error e2 => rw [hc1] at h; cases h
              | ok r2 =>
                obtain ⟨⟨t2, e2⟩, toks2⟩ := r2
                rw [hc1] at h
                have s1 := ih _ _ _ _ _ hc1
                have s2 := ih _ _ _ _ _ h
                intro x hx
                have hx0 := s0 x (s1 x (s2 x hx))
                split at hx0
                · exact List.mem_cons_of_mem _ hx0
                · exact hx0
          · simp only [h1, if_false] at h
            injection h with h; injection h with _ h2; subst h2; exact fun _ hx => hx

theorem climb_noFuel {cg : Bytes → Except Err (Parsed α)} :
    ∀ (f : Nat) (last : Bytes) (ret : Parsed α) (toks : List Token), toks.length < f → GOK cg toks →
      ∀ err, climb A cg f last ret toks = .error err → err ≠ .fuel := by
  intro f
  induction f with
  | zero => intro last ret toks hl; omega
  | succ f ih =>
    intro last ret toks hl hg err h
    cases toks with
    | nil => simp [climb] at h
    | cons tk rest =>
      simp only [climb] at h
      cases hop : getNextOp tk with
      | error e2 => rw [hop] at h; injection h with h; subst h; exact getNextOp_noFuel hop
      | ok oc =>
        obtain ⟨op, c⟩ := oc
        rw [hop] at h
        simp only at h
        have hlv := getNextOp_level hop
        cases hlvl : level orderOfOps op with
        | none => rw [hlvl] at hlv; cases hlv
        | some lb =>
          obtain ⟨ord, hord⟩ := order_total (a := last) hlvl
          have hord' : opCodeOrder last op = .ok ord := hord
          rw [hord'] at h
          simp only at h
          by_cases h1 : ord = 1
          · simp only [h1, if_true] at h
            have hg0 : GOK cg (if c = true then rest else tk :: rest) := by
              split
              · exact fun x hx => hg x (List.mem_cons_of_mem _ hx)
              · exact hg
            cases hne : getNextExpr A cg (if c = true then rest else tk :: rest) with
            | error e2 => rw [hne] at h; injection h with h; subst h; exact getNextExpr_noFuel A _ hg0 _ hne
            | ok r1 =>
              obtain ⟨⟨t1, e1⟩, toks1⟩ := r1
              rw [hne] at h
              simp only at h
              have l0 := getNextExpr_len A _ _ _ hne
              have s0 := getNextExpr_sub A _ _ _ hne
              have hg1 : GOK cg toks1 := fun x hx => hg0 x (s0 x hx)
              have l0' : toks1.length < f := by
                simp only [List.length_cons] at hl
                split at l0 <;> (try simp only [List.length_cons] at l0) <;> omega
              cases hc1 : climb A cg f op (t1, e1) toks1 with
              | error e2 => rw [hc1] at h; injection h with h; subst h; exact ih _ _ _ l0' hg1 _ hc1
              | ok r2 =>
                obtain ⟨⟨t2, e2⟩, toks2⟩ := r2
                rw [hc1] at h
                have l1 := climb_len A _ _ _ _ _ _ hc1
                have s1 := climb_sub A _ _ _ _ _ _ hc1
                exact ih _ _ _ (by omega) (fun x hx => hg1 x (s1 x hx)) _ h
          · simp only [h1, if_false] at h
            cases h

theorem compileF_noFuel : ∀ (f : Nat) (s : Bytes), s.length < f →
    ∀ err, compileF A f s = .error err → err ≠ .fuel := by
  intro f
  induction f with
  | zero => intro s hl; omega
  | succ f ih =>
    intro s hl err h
    simp only [compileF] at h
    cases htk : tokenize s with
    | error e2 =>
      rw [htk] at h
      injection h with h; subst h
      rcases tokenize_err htk with h' | h' <;> subst h' <;> intro hm <;> cases hm
    | ok toks =>
      rw [htk] at h
      have hgl : GrpLt s.length toks := tok_group_len (by simp only [tok, htk])
      have hg : GOK (compileF A f) toks := by
        intro tk hm hgr hf
        exact ih tk.val (by have := hgl tk hm hgr; omega) _ hf rfl
      simp only [compileTokens] at h
      cases hne : getNextExpr A (compileF A f) toks with
      | error e2 => rw [hne] at h; injection h with h; subst h; exact getNextExpr_noFuel A _ hg _ hne
      | ok r1 =>
        obtain ⟨⟨t1, e1⟩, rest⟩ := r1
        rw [hne] at h
        simp only at h
        have s0 := getNextExpr_sub A _ _ _ hne
        cases hc : climb A (compileF A f) (rest.length + 1) [] (t1, e1) rest with
        | error e2 =>
          rw [hc] at h; injection h with h; subst h
          exact climb_noFuel A _ _ _ _ (Nat.lt_succ_self _) (fun x hx => hg x (s0 x hx)) _ hc
        | ok r2 => obtain ⟨⟨t2, e2⟩, rest2⟩ := r2; rw [hc] at h; cases h

/-- `compile` never runs out of its recursion budget. -/
theorem compile_noFuel (s : Bytes) : compile A s ≠ .error .fuel :=
  fun h => compileF_noFuel A _ s (Nat.lt_succ_self _) _ h rfl

end Rare.C19
