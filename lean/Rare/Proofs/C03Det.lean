import Rare.Proofs.C13Order
import Rare.Proofs.C13Algo
import Rare.Proofs.C07Base
import Rare.Model.C03
/-! Helper lemmas for `csv_of_state_deterministic`: the sorters of the CSV writers are strict total
orders on rows with distinct names, so `sort.Sort` returns one and the same sequence whatever order
the map handed the rows over in. -/
namespace Rare.C03
open Rare.C07 Rare.C13

theorem nvNameLess_eq (a b : NV) : nvNameLess a b = bytesLt a.name b.name := rfl

theorem nvValueLess_eq (a b : NV) :
    nvValueLess a b = if a.value = b.value then bytesLt a.name b.name else decide (b.value < a.value) := by
  simp only [nvValueLess, nvValueSorter, C13.reverse, valueSorterEx, pureCmp, byName]
  by_cases h : a.value = b.value
  · simp [h]
  · have : (a.value == b.value) = false := by simpa using h
    simp only [this, if_neg h]
    simp only [Bool.false_eq_true, if_false, Bool.not_eq_eq_eq_not]
    by_cases h2 : a.value < b.value
    · have : ¬ b.value < a.value := by omega
      simp [h2, this]
    · have : b.value < a.value := by omega
      simp [h2, this]

theorem nodup_map_inj {α β : Type} (f : α → β) : ∀ l : List α, (l.map f).Nodup →
    l.Nodup ∧ ∀ x ∈ l, ∀ y ∈ l, f x = f y → x = y := by
  intro l
  induction l with
  | nil => intro _; simp
  | cons a r ih =>
    intro h
    simp only [List.map_cons, List.nodup_cons, List.mem_map, not_exists, not_and] at h
    obtain ⟨h1, h2⟩ := h
    obtain ⟨i1, i2⟩ := ih h2
    refine ⟨List.nodup_cons.mpr ⟨fun hm => h1 a hm rfl, i1⟩, ?_⟩
    intro x hx y hy hxy
    rcases List.mem_cons.mp hx with rfl | hx' <;> rcases List.mem_cons.mp hy with rfl | hy'
    · rfl
    · exact absurd hxy.symm (h1 y hy')
    · exact absurd hxy (h1 x hx')
    · exact i2 x hx' y hy' hxy

theorem name_inj {items : List NV} (hnd : (items.map (·.name)).Nodup) {a b : NV} (ha : a ∈ items) (hb : b ∈ items)
    (hne : a ≠ b) : a.name ≠ b.name := fun h => hne ((nodup_map_inj _ items hnd).2 a ha b hb h)

theorem bytesLt_asymm {a b : Bytes} (h : bytesLt a b = true) : bytesLt b a = false := by
  cases hba : bytesLt b a with
  | false => rfl
  | true =>
    have := bytesLt_strictTotal.trans a b a trivial trivial trivial h hba
    rw [bytesLt_strictTotal.irrefl a trivial] at this
    cases this

theorem nvNameLess_order (items : List NV) (hnd : (items.map (·.name)).Nodup) : OrderOn (· ∈ items) nvNameLess := by
  refine ⟨?_, ?_, ?_⟩
  · intro a b _ _ _ hab; exact bytesLt_asymm hab
  · intro a b ha hb hne
    exact bytesLt_strictTotal.total a.name b.name trivial trivial (name_inj hnd ha hb hne)
  · intro a b c _ _ _ _ _ _ hab hbc
    exact bytesLt_strictTotal.trans a.name b.name c.name trivial trivial trivial hab hbc

theorem nvValueLess_order (items : List NV) (hnd : (items.map (·.name)).Nodup) : OrderOn (· ∈ items) nvValueLess := by
  refine ⟨?_, ?_, ?_⟩
  · intro a b _ _ _ hab
    rw [nvValueLess_eq] at hab ⊢
    by_cases h : a.value = b.value
    · rw [if_pos h] at hab; rw [if_pos h.symm]; exact bytesLt_asymm hab
    · rw [if_neg h] at hab; rw [if_neg (Ne.symm h)]
      simp only [decide_eq_true_eq] at hab
      simp only [decide_eq_false_iff_not]; omega
  · intro a b ha hb hne
    rw [nvValueLess_eq, nvValueLess_eq]
    by_cases h : a.value = b.value
    · rw [if_pos h, if_pos h.symm]
      exact bytesLt_strictTotal.total a.name b.name trivial trivial (name_inj hnd ha hb hne)
    · rw [if_neg h, if_neg (Ne.symm h)]
      simp only [decide_eq_true_eq]; omega
  · intro a b c _ _ _ _ _ _ hab hbc
    rw [nvValueLess_eq] at hab hbc ⊢
    by_cases h1 : a.value = b.value <;> by_cases h2 : b.value = c.value
    · rw [if_pos h1] at hab; rw [if_pos h2] at hbc; rw [if_pos (h1.trans h2)]
      exact bytesLt_strictTotal.trans a.name b.name c.name trivial trivial trivial hab hbc
    · rw [if_neg h2] at hbc
      have : ¬ a.value = c.value := by omega
      rw [if_neg this]; simp only [decide_eq_true_eq] at hbc ⊢; omega
    · rw [if_neg h1] at hab
      have : ¬ a.value = c.value := by omega
      rw [if_neg this]; simp only [decide_eq_true_eq] at hab ⊢; omega
    · rw [if_neg h1] at hab; rw [if_neg h2] at hbc
      simp only [decide_eq_true_eq] at hab hbc
      have : ¬ a.value = c.value := by omega
      rw [if_neg this]; simp only [decide_eq_true_eq]; omega

/-- `sort.Sort` as a sorting routine of the model -/
def sortOf (alg : List NV → Algo NV (List NV)) : SortFn := fun less l => (alg l).runPure less

/-- Whatever arrival order: a contract-abiding sort returns the reference arrangement. -/
theorem sort_det (alg : List NV → Algo NV (List NV)) (hc : SortContract alg) (less : NV → NV → Bool)
    (items a : List NV) (hnd : (items.map (·.name)).Nodup) (ho : OrderOn (· ∈ items) less) (ha : a.Perm items) :
    sortOf alg less a = isort less items := by
  have hni : items.Nodup := (nodup_map_inj _ items hnd).1
  have hna : a.Nodup := ha.nodup_iff.mpr hni
  have hoa : OrderOn (· ∈ a) less := ho.mono (fun x hx => ha.mem_iff.mp hx)
  have h1 := hc.sorted less a hna hoa
  have h1' : IsSorted less ((alg a).runPure less) items := ⟨h1.1.trans ha, h1.2⟩
  exact sorted_unique' ho h1' (isort_sorted hni ho)

/-- a possible result of ranging over a Go map: every key exactly once -/
def IsRangeOf {α : Type} (order : List Bytes) (m : List (Bytes × α)) : Prop :=
  order.Nodup ∧ ∀ k, k ∈ order ↔ (aget m k).isSome = true

theorem range_perm {α β : Type} {o1 o2 : List Bytes} {m1 : List (Bytes × α)} {m2 : List (Bytes × β)}
    (h1 : IsRangeOf o1 m1) (h2 : IsRangeOf o2 m2) (hm : ∀ k, (aget m1 k).isSome = (aget m2 k).isSome) : o1.Perm o2 :=
  (List.perm_ext_iff_of_nodup h1.1 h2.1).mpr fun k => by rw [h1.2, h2.2, hm]

theorem nv_names_nodup (order : List Bytes) (f : Bytes → Int) (h : order.Nodup) :
    ((order.map fun k => (⟨k, f k⟩ : NV)).map (·.name)).Nodup := by
  simpa [List.map_map, Function.comp_def] using h

/-- sorting the rows built from two iteration orders of maps with the same look-ups gives one result -/
theorem sorted_rows_eq (alg : List NV → Algo NV (List NV)) (hc : SortContract alg) (less : NV → NV → Bool)
    (hless : ∀ items : List NV, (items.map (·.name)).Nodup → OrderOn (· ∈ items) less)
    (o1 o2 : List Bytes) (f1 f2 : Bytes → Int) (hn : o1.Nodup) (hp : o2.Perm o1) (hf : ∀ k ∈ o1, f1 k = f2 k) :
    sortOf alg less (o2.map fun k => (⟨k, f2 k⟩ : NV)) = isort less (o1.map fun k => (⟨k, f1 k⟩ : NV)) := by
  have hnd := nv_names_nodup o1 f1 hn
  apply sort_det alg hc less _ _ hnd (hless _ hnd)
  have : (o1.map fun k => (⟨k, f1 k⟩ : NV)) = o1.map fun k => (⟨k, f2 k⟩ : NV) :=
    List.map_congr_left fun k hk => by rw [hf k hk]
  rw [this]
  exact hp.map _

end Rare.C03
