import Rare.Proofs.C07SubKeyA
import Rare.Proofs.C07MinMax
/-! Sub-key counter (countersubkey.go): alignment invariant and fold theorem. -/
namespace Rare.C07

theorem SubKeyCounter.sample_eq (s : SubKeyCounter) (e : Bytes) :
    s.sample e = match (parseSubKey e).inc with
      | none => .ok { s with errors := s.errors + 1 }
      | some n => s.sampleValue (parseSubKey e).k1 (parseSubKey e).k2 n := by
  obtain ⟨a0, a1, -, a2, b2⟩ := splitter_fields nul e (by simp [nul])
  unfold SubKeyCounter.sample parseSubKey
  simp only [Splitter.nextOk] at a1 a2 b2
  simp only [Splitter.nextOk, a0, a1, a2, b2]
  have hne := splitOn_ne_nil nul e
  rcases hs : splitOn nul e with _ | ⟨k, _ | ⟨sk, _ | ⟨v, rest⟩⟩⟩
  · exact absurd hs hne
  · simp
  · simp
  · simp only [List.headD_cons, List.tail_cons, List.isEmpty_cons, Bool.not_false, if_true]
    cases atoi v <;> rfl

/-- The value in row `k`, column (sub-key) `x`. -/
def cellTot (hp : List Parsed) (k x : Bytes) : Int := total (selKeySub k x) hp

/-- `SubKeysAligned` + fold: the alignment invariant of the sub-key counter w.r.t. a parsed history. -/
structure SubInv (s : SubKeyCounter) (hp : List Parsed) : Prop where
  sorted : Sorted s.subKeys
  mem : ∀ x, x ∈ s.subKeys ↔ present (selSub x) hp = true
  idx : ∀ x i, aget s.subKeyIdx x = some i ↔ s.subKeys[i]? = some x
  itemsPresent : ∀ k, (aget s.items k).isSome = present (selKey k) hp
  items : ∀ k it, aget s.items k = some it →
    it.count = total (selKey k) hp ∧ it.submatches = s.subKeys.map (cellTot hp k)
  errors : s.errors = errorCount hp

theorem subInv_init : SubInv {} [] := by
  constructor <;> simp [present, errorCount, Sorted]

/-- steps 1–2 of `SampleValue`: fetch or create the row, add to its count. -/
def SubKeyCounter.bump (s : SubKeyCounter) (key : Bytes) (count : Int) : SubKeyCounter :=
  let s := s.getOrCreateKeyItem key
  match aget s.items key with
  | some it => { s with items := aset s.items key { it with count := wrap64 (it.count + count) } }
  | none => s

/-- step 4 of `SampleValue`. -/
def SubKeyCounter.finish (r : SubKeyCounter × Nat) (key : Bytes) (count : Int) : Except String SubKeyCounter :=
  match aget r.1.items key with
  | none => .error "nil item"
  | some it =>
    match it.submatches[r.2]? with
    | none => .error "index out of range"
    | some v => .ok { r.1 with items := aset r.1.items key { it with submatches := it.submatches.set r.2 (wrap64 (v + count)) } }

theorem sampleValue_eq (s : SubKeyCounter) (key sub : Bytes) (n : Int) :
    s.sampleValue key sub n = SubKeyCounter.finish ((s.bump key n).getOrCreateSubkeyIndex sub) key n := rfl

theorem cellTot_zero_of_no_key (hp : List Parsed) (k x : Bytes) (h : present (selKey k) hp = false) :
    cellTot hp k x = 0 := by
  apply total_of_not_present
  cases hc : present (selKeySub k x) hp with
  | false => rfl
  | true =>
    have := present_mono (selKeySub k x) (selKey k) hp
      (by intro p hp'; simp only [selKeySub, Bool.and_eq_true] at hp'; simpa [selKey] using hp'.1) hc
    rw [h] at this; exact Bool.noConfusion this

theorem cellTot_zero_of_no_sub (hp : List Parsed) (k x : Bytes) (h : present (selSub x) hp = false) :
    cellTot hp k x = 0 := by
  apply total_of_not_present
  cases hc : present (selKeySub k x) hp with
  | false => rfl
  | true =>
    have := present_mono (selKeySub k x) (selSub x) hp
      (by intro p hp'; simp only [selKeySub, Bool.and_eq_true] at hp'; simpa [selSub] using hp'.2) hc
    rw [h] at this; exact Bool.noConfusion this

theorem bump_spec (s : SubKeyCounter) (hp : List Parsed) (key : Bytes) (n : Int) (h : SubInv s hp) :
    (s.bump key n).subKeys = s.subKeys ∧ (s.bump key n).subKeyIdx = s.subKeyIdx ∧ (s.bump key n).errors = s.errors ∧
    ∀ k, aget (s.bump key n).items k =
      if key = k then some ⟨wrap64 (total (selKey key) hp + n), s.subKeys.map (cellTot hp key)⟩ else aget s.items k := by
  unfold SubKeyCounter.bump SubKeyCounter.getOrCreateKeyItem
  cases hk : aget s.items key with
  | some it =>
    obtain ⟨c1, c2⟩ := h.items key it hk
    simp only [hk]
    refine ⟨by trivial, by trivial, by trivial, ?_⟩
    intro k; rw [aget_aset]
    by_cases e : key = k
    · simp only [e, if_true, Option.some.injEq]
      rw [← e, c1, c2]
    · simp [e]
  | none =>
    have hnp : present (selKey key) hp = false := by
      have := h.itemsPresent key; rw [hk] at this; simpa using this.symm
    simp only [aget_aset_self]
    refine ⟨by trivial, by trivial, by trivial, ?_⟩
    intro k; rw [aget_aset, aget_aset]
    by_cases e : key = k
    · simp only [e, if_true, Option.some.injEq]
      rw [← e, total_of_not_present _ _ hnp]
      congr 1
      exact replicate_eq_map _ _ (fun x _ => cellTot_zero_of_no_key hp key x hnp)
    · simp [e]

/-- the `!ok` branch of `getOrCreateSubkeyIndex`. -/
def idxNew (s : SubKeyCounter) (sub : Bytes) : SubKeyCounter × Nat :=
  let ins := insertAlphanumeric s.subKeys sub
  ({ s with subKeys := ins.1, subKeyIdx := regenIdx s.subKeyIdx ins.1 0,
            items := s.items.map fun (kv : Bytes × SubItem) =>
              (kv.1, { kv.2 with submatches := insertAt kv.2.submatches ins.2 0 }) }, ins.2)

/-- step 3: look up or create the sub-key column. -/
theorem subkeyIndex_spec (s : SubKeyCounter) (sub : Bytes) (hs : Sorted s.subKeys)
    (hidx : ∀ x i, aget s.subKeyIdx x = some i ↔ s.subKeys[i]? = some x) :
    let r := s.getOrCreateSubkeyIndex sub
    Sorted r.1.subKeys ∧ (∀ x, x ∈ r.1.subKeys ↔ x = sub ∨ x ∈ s.subKeys) ∧
    (∀ x i, aget r.1.subKeyIdx x = some i ↔ r.1.subKeys[i]? = some x) ∧
    r.1.subKeys[r.2]? = some sub ∧ r.1.errors = s.errors ∧
    (∀ k, (aget r.1.items k).isSome = (aget s.items k).isSome) ∧
    (∀ k it, aget s.items k = some it → ∃ it', aget r.1.items k = some it' ∧ it'.count = it.count ∧
      ∀ f : Bytes → Int, (sub ∉ s.subKeys → f sub = 0) → it.submatches = s.subKeys.map f →
        it'.submatches = r.1.subKeys.map f) := by
  intro r
  cases hl : aget s.subKeyIdx sub with
  | some i =>
    have hr : r = (s, i) := by simp [r, SubKeyCounter.getOrCreateSubkeyIndex, hl]
    have hi := (hidx sub i).mp hl
    rw [hr]
    refine ⟨hs, ?_, hidx, hi, rfl, fun _ => rfl, ?_⟩
    · intro x; constructor
      · exact Or.inr
      · rintro (h | h)
        · subst h; exact List.mem_of_getElem? hi
        · exact h
    · intro k it hk; exact ⟨it, hk, rfl, fun f _ hf => hf⟩
  | none =>
    have hnot : sub ∉ s.subKeys := by
      intro hm
      obtain ⟨i, hi⟩ := List.getElem?_of_mem hm
      have := (hidx sub i).mpr hi
      rw [hl] at this; cases this
    obtain ⟨e1, e2⟩ := insAlpha_eq s.subKeys sub
    have hr : r = idxNew s sub := by
      simp only [r, SubKeyCounter.getOrCreateSubkeyIndex, hl]
      rfl
    unfold idxNew at hr
    rw [hr]
    have hsorted := insAlpha_sorted s.subKeys sub hs hnot
    have hnodup := sorted_nodup hsorted
    refine ⟨hsorted, fun x => mem_insAlpha _ _ _, ?_, ?_, rfl, ?_, ?_⟩
    · intro x i
      have spec := regenIdx_spec (insertAlphanumeric s.subKeys sub).1 s.subKeyIdx 0 hnodup x
      constructor
      · intro hx
        by_cases hm : x ∈ (insertAlphanumeric s.subKeys sub).1
        · obtain ⟨j, hj⟩ := List.getElem?_of_mem hm
          have := spec.1 j hj
          simp only [Nat.zero_add] at this
          have hx' : aget (regenIdx s.subKeyIdx (insertAlphanumeric s.subKeys sub).1 0) x = some i := hx
          rw [this] at hx'
          have : j = i := by simpa using hx'
          subst this; exact hj
        · exfalso
          have hx' : aget (regenIdx s.subKeyIdx (insertAlphanumeric s.subKeys sub).1 0) x = some i := hx
          rw [spec.2 hm] at hx'
          have := (hidx x i).mp hx'
          exact hm ((mem_insAlpha _ _ _).mpr (Or.inr (List.mem_of_getElem? this)))
      · intro hx
        have := spec.1 i hx
        simpa using this
    · show (insertAlphanumeric s.subKeys sub).1[(insertAlphanumeric s.subKeys sub).2]? = some sub
      rw [e1]; exact getElem?_insertAt_self _ _ _ e2
    · intro k
      have := aget_map_val s.items (fun (it : SubItem) =>
        ({ it with submatches := insertAt it.submatches (insertAlphanumeric s.subKeys sub).2 0 } : SubItem)) k
      refine (congrArg Option.isSome this).trans ?_
      simp
    · intro k it hk
      refine ⟨{ it with submatches := insertAt it.submatches (insertAlphanumeric s.subKeys sub).2 0 }, ?_, rfl, ?_⟩
      · have := aget_map_val s.items (fun (it : SubItem) =>
          ({ it with submatches := insertAt it.submatches (insertAlphanumeric s.subKeys sub).2 0 } : SubItem)) k
        exact this.trans (by rw [hk]; rfl)
      · intro f hf0 hf
        show insertAt it.submatches _ 0 = (insertAlphanumeric s.subKeys sub).1.map f
        rw [e1, ← insertAt_map, hf, hf0 hnot]

theorem cellTot_snoc (hp : List Parsed) (p : Parsed) (n : Int) (hi : p.inc = some n) (k x : Bytes) :
    cellTot (hp ++ [p]) k x = if p.k1 = k ∧ p.k2 = x then wrap64 (cellTot hp k x + n) else cellTot hp k x := by
  unfold cellTot
  by_cases h : p.k1 = k ∧ p.k2 = x
  · rw [total_snoc]; simp [incIf, hi, selKeySub, h.1, h.2]
  · rw [total_snoc_skip]
    · simp [h]
    · have : selKeySub k x p = false := by
        simp only [selKeySub, Bool.and_eq_false_iff, beq_eq_false_iff_ne]
        by_cases h1 : p.k1 = k
        · right; exact fun h2 => h ⟨h1, h2⟩
        · left; exact h1
      simp [incIf, hi, this]

theorem sampleValue_spec (s : SubKeyCounter) (hp : List Parsed) (p : Parsed) (n : Int) (hi : p.inc = some n)
    (h : SubInv s hp) : ∃ s', s.sampleValue p.k1 p.k2 n = .ok s' ∧ SubInv s' (hp ++ [p]) := by
  rw [sampleValue_eq]
  obtain ⟨b1, b2, b3, b4⟩ := bump_spec s hp p.k1 n h
  have hs2 : Sorted (s.bump p.k1 n).subKeys := by rw [b1]; exact h.sorted
  have hidx2 : ∀ x i, aget (s.bump p.k1 n).subKeyIdx x = some i ↔ (s.bump p.k1 n).subKeys[i]? = some x := by
    rw [b1, b2]; exact h.idx
  obtain ⟨c1, c2, c3, c4, c5, c6, c7⟩ := subkeyIndex_spec (s.bump p.k1 n) p.k2 hs2 hidx2
  generalize hr : (s.bump p.k1 n).getOrCreateSubkeyIndex p.k2 = r at c1 c2 c3 c4 c5 c6 c7
  rw [b1] at c2 c7
  -- the row of the sampled key
  have hkey := b4 p.k1
  simp only [if_true] at hkey
  obtain ⟨it', g1, g2, g3⟩ := c7 p.k1 _ hkey
  have hzero : p.k2 ∉ s.subKeys → cellTot hp p.k1 p.k2 = 0 := by
    intro hn
    apply cellTot_zero_of_no_sub
    cases hc : present (selSub p.k2) hp with
    | false => rfl
    | true => exact absurd ((h.mem p.k2).mpr hc) hn
  have g4 := g3 (cellTot hp p.k1) hzero rfl
  have hget : it'.submatches[r.2]? = some (cellTot hp p.k1 p.k2) := by
    rw [g4, List.getElem?_map, c4]; rfl
  unfold SubKeyCounter.finish
  simp only [g1, hget]
  refine ⟨_, rfl, ?_⟩
  have hnodup := sorted_nodup c1
  constructor
  · exact c1
  · intro x
    show x ∈ r.1.subKeys ↔ _
    rw [c2 x, present_snoc, h.mem x]
    simp only [hi, Option.isSome_some, Bool.true_and, selSub, Bool.or_eq_true, beq_iff_eq]
    constructor
    · rintro (e | e)
      · right; exact e.symm
      · left; exact e
    · rintro (e | e)
      · right; exact e
      · left; exact e.symm
  · exact c3
  · intro k
    show (aget (aset r.1.items p.k1 _) k).isSome = _
    rw [aget_aset, present_snoc]
    by_cases e : p.k1 = k
    · simp [e, hi, selKey]
    · simp only [e, if_false, hi, Option.isSome_some, Bool.true_and, selKey]
      rw [c6 k, b4 k]
      simp only [e, if_false, h.itemsPresent k]
      simp [e]
  · intro k it hk
    have hk' : aget (aset r.1.items p.k1 _) k = some it := hk
    rw [aget_aset] at hk'
    by_cases e : p.k1 = k
    · subst e
      simp only [if_true, Option.some.injEq] at hk'
      subst hk'
      constructor
      · show it'.count = _
        rw [g2, total_snoc]; simp [incIf, hi, selKey]
      · show it'.submatches.set r.2 _ = r.1.subKeys.map (cellTot (hp ++ [p]) p.k1)
        rw [g4]
        have := map_set_nodup r.1.subKeys (cellTot hp p.k1) (cellTot (hp ++ [p]) p.k1) r.2 p.k2 hnodup c4
          (by intro x hx; rw [cellTot_snoc hp p n hi]; have : ¬ (p.k2 = x) := fun e => hx e.symm; simp [this])
        rw [← this, cellTot_snoc hp p n hi]; simp
    · simp only [e, if_false] at hk'
      -- an untouched row: it comes from the old row through the re-indexing
      have hold : (aget s.items k).isSome := by
        have := c6 k; rw [hk', b4 k] at this; simp only [e, if_false] at this; simpa using this.symm
      obtain ⟨it0, hit0⟩ := Option.isSome_iff_exists.mp hold
      have hb : aget (s.bump p.k1 n).items k = some it0 := by rw [b4 k]; simp [e, hit0]
      obtain ⟨it1, k1, k2, k3⟩ := c7 k it0 hb
      rw [hk'] at k1
      have : it = it1 := by simpa using k1
      subst this
      obtain ⟨o1, o2⟩ := h.items k it0 hit0
      have hz : p.k2 ∉ s.subKeys → cellTot hp k p.k2 = 0 := by
        intro hn
        apply cellTot_zero_of_no_sub
        cases hc : present (selSub p.k2) hp with
        | false => rfl
        | true => exact absurd ((h.mem p.k2).mpr hc) hn
      constructor
      · rw [k2, o1, total_snoc_skip]
        simp [incIf, hi, selKey, e]
      · rw [k3 (cellTot hp k) hz o2]
        apply List.map_congr_left
        intro x _
        rw [cellTot_snoc hp p n hi]; simp [e]
  · show r.1.errors = _
    rw [c5, b3, h.errors, errorCount_snoc]; simp [hi]

theorem subInv_step (s : SubKeyCounter) (hp : List Parsed) (e : Bytes) (h : SubInv s hp) :
    ∃ s', s.sample e = .ok s' ∧ SubInv s' (hp ++ [parseSubKey e]) := by
  rw [SubKeyCounter.sample_eq]
  cases hi : (parseSubKey e).inc with
  | some n => exact sampleValue_spec s hp _ n hi h
  | none =>
    refine ⟨_, rfl, ?_⟩
    have hz : ∀ sel, incIf sel (parseSubKey e) = 0 := fun sel => incIf_none sel _ hi
    constructor
    · exact h.sorted
    · intro x; rw [present_snoc]; simp [hi, h.mem x]
    · exact h.idx
    · intro k; rw [present_snoc]; simp [hi, h.itemsPresent k]
    · intro k it hk
      obtain ⟨o1, o2⟩ := h.items k it hk
      refine ⟨by rw [total_snoc_skip _ _ _ (hz _)]; exact o1, ?_⟩
      rw [o2]; apply List.map_congr_left; intro x _
      unfold cellTot; rw [total_snoc_skip _ _ _ (hz _)]
    · show s.errors + 1 = _
      rw [errorCount_snoc, h.errors]; simp [hi]

theorem subInv_foldlM (l : List Bytes) (s : SubKeyCounter) (hp : List Parsed) (h : SubInv s hp) :
    ∃ s', l.foldlM SubKeyCounter.sample s = .ok s' ∧ SubInv s' (hp ++ l.map parseSubKey) := by
  induction l generalizing s hp with
  | nil => exact ⟨s, rfl, by simpa using h⟩
  | cons e l ih =>
    obtain ⟨s1, h1, h2⟩ := subInv_step s hp e h
    obtain ⟨s2, h3, h4⟩ := ih s1 _ h2
    refine ⟨s2, ?_, by simpa [List.append_assoc] using h4⟩
    simp only [List.foldlM_cons, h1]; exact h3

theorem subInv_run (h : List Bytes) :
    ∃ s, SubKeyCounter.run h = .ok s ∧ SubInv s (h.map parseSubKey) := by
  have := subInv_foldlM h {} [] subInv_init
  simpa [SubKeyCounter.run] using this

end Rare.C07
