import Rare.Proofs.C14F64
import Rare.Proofs.C14Heat
/-!
# C14: the laws of a `float64` instance that the renderer proofs use, and its two instances

`UnitLaws A Dom Unit le` collects what the proofs about cells, bars and whole renderers need of an instance
`A` of the `float64` operations: `Scale` of integers in `Dom` is a `Unit` value and monotone (`le`), and
`int(u * float64(n))` of a unit value lies in `[0, n]` and is monotone, for `0 ≤ n ≤ 2^53`.

* `unitLaws_rat`: exact rational arithmetic with abstract monotone logarithms (`Dom` = every integer);
* `unitLaws_f64`: IEEE-754 binary64 (`Dom` = int64, `Unit` = finite float with value in `[0,1]`).

Everything below the instances is proved once for both: palette lookups (`heatWrite`, `sparkWrite`) never
fail and give one cell, `BarWrite` writes at most `maxLen` glyphs and more for a larger value.
-/
namespace Rare.C14
open Rare Rare.C20

structure UnitLaws {α : Type} (A : Arith α) (Dom : Int → Prop) (Unit : α → Prop) (le : α → α → Prop) : Prop where
  dom_zero : Dom 0
  dom_wrap : ∀ x, Dom (wrap64 x)
  dom_trunc : ∀ x, Dom (A.trunc x)
  scale_unit : ∀ (k : Scaler) {v mn mx : Int}, Dom v → Dom mn → Dom mx → Unit (scale A k v mn mx)
  scale_mono : ∀ (k : Scaler) {v v' mn mx : Int}, Dom v → Dom v' → Dom mn → Dom mx → v ≤ v' →
    le (scale A k v mn mx) (scale A k v' mn mx)
  trunc_mul : ∀ {u : α} {n : Int}, Unit u → 0 ≤ n → n ≤ 9007199254740992 →
    0 ≤ A.trunc (A.mul u (A.ofInt n)) ∧ A.trunc (A.mul u (A.ofInt n)) ≤ n
  trunc_mul_mono : ∀ {u v : α} {n : Int}, Unit u → Unit v → le u v → 0 ≤ n → n ≤ 9007199254740992 →
    A.trunc (A.mul u (A.ofInt n)) ≤ A.trunc (A.mul v (A.ofInt n))

/-- exact rational arithmetic, logarithms only assumed monotone and non-negative above 1 -/
theorem unitLaws_rat {L2 L10 : Rat → Rat} (h2 : LogLike L2) (h10 : LogLike L10) :
    UnitLaws (ratArith L2 L10) (fun _ => True) (fun u => 0 ≤ u ∧ u ≤ 1) (fun u v => u ≤ v) where
  dom_zero := trivial
  dom_wrap := fun _ => trivial
  dom_trunc := fun _ => trivial
  scale_unit := fun k v mn mx _ _ _ => scale_bounds h2 h10 k v mn mx
  scale_mono := fun k _ _ mn mx _ _ _ _ h => scale_mono h2 h10 k mn mx h
  trunc_mul := fun hu h0 _ => trunc_mul_bounds hu.1 hu.2 h0
  trunc_mul_mono := fun hu _ huv h0 _ => trunc_mul_mono hu.1 huv h0

theorem toInt64_i64 (x : F64) : I64 (F64.toInt64 x) := by
  unfold F64.toInt64 I64
  split
  · unfold minInt64 maxInt64; omega
  · simp only
    split
    · unfold minInt64 maxInt64; omega
    · rename_i h
      simp only [Bool.or_eq_true, decide_eq_true_eq, not_or, Int.not_lt] at h
      exact h

/-- IEEE-754 binary64 (`Rare.F64`), logarithms assumed finite and monotone on `[1, ∞)` with `log 1 = 0` -/
theorem unitLaws_f64 {L2 L10 P2 P10 : F64 → F64} (h2 : LogLikeF64 L2) (h10 : LogLikeF64 L10) :
    UnitLaws (f64Arith L2 L10 P2 P10) I64 UnitF64 (fun u v => u.toRat ≤ v.toRat) where
  dom_zero := by unfold I64 minInt64 maxInt64; omega
  dom_wrap := i64_wrap
  dom_trunc := toInt64_i64
  scale_unit := fun k _ _ _ hv hmn hmx => scale_f64_unit h2 h10 k hv hmn hmx
  scale_mono := fun k _ _ _ _ hv hv' hmn hmx h => scale_f64_mono h2 h10 k hv hv' hmn hmx h
  trunc_mul := fun hu h0 h1 => ⟨(trunc_mul_f64 hu h0 h1).1, (trunc_mul_f64 hu h0 h1).2.1⟩
  trunc_mul_mono := fun hu hv huv h0 h1 => trunc_mul_f64_mono hu hv huv h0 h1

/-! ### consequences, for every instance -/

section
variable {α : Type} {A : Arith α} {Dom : Int → Prop} {Unit : α → Prop} {le : α → α → Prop}

/-- `Bucket(n, u)` is an index into a table of `n` entries (`1 ≤ n ≤ 2^53`) -/
theorem UnitLaws.bucket_bounds (U : UnitLaws A Dom Unit le) {u : α} (hu : Unit u) {n : Int} (hn : 1 ≤ n) (hn' : n ≤ 9007199254740992) :
    0 ≤ bucket A n u ∧ bucket A n u < n := by
  have := U.trunc_mul hu (n := n - 1) (by omega) (by omega)
  unfold bucket; omega

/-- `LengthVal(n, u)` lies in `[0, n]` -/
theorem UnitLaws.lengthVal_bounds (U : UnitLaws A Dom Unit le) {u : α} (hu : Unit u) {n : Int} (hn : 0 ≤ n) (hn' : n ≤ 9007199254740992) :
    0 ≤ lengthVal A n u ∧ lengthVal A n u ≤ n :=
  U.trunc_mul hu hn hn'

theorem UnitLaws.lengthVal_mono (U : UnitLaws A Dom Unit le) {u v : α} (hu : Unit u) (hv : Unit v) (huv : le u v) {n : Int} (hn : 0 ≤ n)
    (hn' : n ≤ 9007199254740992) : lengthVal A n u ≤ lengthVal A n v :=
  U.trunc_mul_mono hu hv huv hn hn'

/-- `HeatWrite` of a unit value: no panic, one heat cell -/
theorem UnitLaws.heatWrite_cell (U : UnitLaws A Dom Unit le) (env : Env) {u : α} (hu : Unit u) :
    ∃ b, heatWrite A env u = .ok b ∧ IsHeatCell env b := by
  unfold heatWrite
  by_cases hc : env.color
  · obtain ⟨a, b⟩ := U.bucket_bounds hu (n := (heatmapColors.length : Int)) (by decide) (by decide)
    obtain ⟨x, hx⟩ := getIdx_ok heatmapColors a b
    refine ⟨wrap env x (encodeRune (if env.unicode then fullBlock else heatmapNonUnicode)), ?_, Or.inr ⟨x, getIdx_mem hx, rfl⟩⟩
    simp [hc, hx, bind, Except.bind, pure, Except.pure]
  · obtain ⟨a, b⟩ := U.bucket_bounds hu (n := (heatmapAscii.length : Int)) (by decide) (by decide)
    obtain ⟨x, hx⟩ := getIdx_ok heatmapAscii a b
    exact ⟨x, by simp [hc, hx], Or.inl (getIdx_mem hx)⟩

/-- `SparkWrite` of a unit value: no panic, one glyph of the palette -/
theorem UnitLaws.sparkWrite_glyph (U : UnitLaws A Dom Unit le) (env : Env) {u : α} (hu : Unit u) :
    ∃ b, sparkWrite A env u = .ok b ∧ IsSparkGlyph b := by
  unfold sparkWrite
  by_cases hc : env.unicode
  · obtain ⟨a, b⟩ := U.bucket_bounds hu (n := (sparkBlocks.length : Int)) (by decide) (by decide)
    obtain ⟨x, hx⟩ := getIdx_ok sparkBlocks a b
    exact ⟨encodeRune x, by simp [hc, hx, bind, Except.bind, pure, Except.pure], x, Or.inl (getIdx_mem hx), rfl⟩
  · obtain ⟨a, b⟩ := U.bucket_bounds hu (n := (sparkAscii.length : Int)) (by decide) (by decide)
    obtain ⟨x, hx⟩ := getIdx_ok sparkAscii a b
    exact ⟨encodeRune x, by simp [hc, hx, bind, Except.bind, pure, Except.pure], x, Or.inr (getIdx_mem hx), rfl⟩

/-- number of glyphs of `BarWrite` as a function of the scaled block count -/
def glyphCount (A : Arith α) (env : Env) (maxLen : Int) (u : α) : Int :=
  if env.unicode then
    let rem := lengthVal A (wrap64 (maxLen * barUnicodePartCount)) u
    (barParts rem).1 + (if (barParts rem).2 > 0 then 1 else 0)
  else lengthVal A maxLen u

theorem wrap_mul9 {maxLen : Int} (hm : 0 ≤ maxLen) (hs : maxLen ≤ 1000000000000000) :
    wrap64 (maxLen * barUnicodePartCount) = maxLen * 9 := by
  have : barUnicodePartCount = 9 := by decide
  rw [this]; exact wrap64_small (by omega) (by omega)

theorem barParts_nonneg {rem : Int} (h : 0 ≤ rem) : barParts rem = (rem / 9, rem % 9) := by
  have : barUnicodePartCount = 9 := by decide
  simp [barParts, this, show ¬ rem < 0 by omega]

/-- `BarWrite` of a unit value (`0 ≤ maxLen ≤ 10^15`): no panic, `glyphCount` glyphs -/
theorem UnitLaws.barWriteR_ok (U : UnitLaws A Dom Unit le) (env : Env) {u : α} (hu : Unit u) {maxLen : Int} (hm : 0 ≤ maxLen)
    (hs : maxLen ≤ 1000000000000000) :
    ∃ rs, barWriteR A env u maxLen = .ok rs ∧ (rs.length : Int) = glyphCount A env maxLen u := by
  unfold barWriteR glyphCount
  by_cases hc : env.unicode
  · obtain ⟨a, b⟩ := U.lengthVal_bounds hu (n := maxLen * 9) (by omega) (by omega)
    simp only [hc, if_true, wrap_mul9 hm hs]
    generalize lengthVal A (maxLen * 9) u = rem at a b
    rw [barParts_nonneg a]
    simp only
    by_cases hpart : rem % 9 > 0
    · have h9 : (barUnicode.length : Int) = 9 := by decide
      obtain ⟨x, hx⟩ := getIdx_ok barUnicode (i := rem % 9) (by omega) (by omega)
      refine ⟨List.replicate (rem / 9).toNat fullBlock ++ [x], ?_, ?_⟩
      · simp [hpart, hx, bind, Except.bind, pure, Except.pure]
      · simp [hpart]; omega
    · refine ⟨List.replicate (rem / 9).toNat fullBlock, ?_, ?_⟩
      · simp [hpart, pure, Except.pure]
      · simp [hpart]; omega
  · obtain ⟨a, b⟩ := U.lengthVal_bounds hu hm (by omega)
    refine ⟨List.replicate (lengthVal A maxLen u).toNat nonUnicodeBlock, by simp [hc, pure, Except.pure], ?_⟩
    simp [hc]; omega

/-- a bar never has more glyphs than its maximum width -/
theorem UnitLaws.glyphCount_le (U : UnitLaws A Dom Unit le) (env : Env) {u : α} (hu : Unit u) {maxLen : Int} (hm : 0 ≤ maxLen)
    (hs : maxLen ≤ 1000000000000000) : 0 ≤ glyphCount A env maxLen u ∧ glyphCount A env maxLen u ≤ maxLen := by
  unfold glyphCount
  by_cases hc : env.unicode
  · obtain ⟨a, b⟩ := U.lengthVal_bounds hu (n := maxLen * 9) (by omega) (by omega)
    simp only [hc, if_true, wrap_mul9 hm hs]
    generalize lengthVal A (maxLen * 9) u = rem at a b
    rw [barParts_nonneg a]; simp only
    split <;> omega
  · simpa [hc] using U.lengthVal_bounds hu hm (by omega)

/-- a bar grows with the scaled value -/
theorem UnitLaws.glyphCount_mono (U : UnitLaws A Dom Unit le) (env : Env) {u v : α} (hu : Unit u) (hv : Unit v) (huv : le u v) {maxLen : Int}
    (hm : 0 ≤ maxLen) (hs : maxLen ≤ 1000000000000000) : glyphCount A env maxLen u ≤ glyphCount A env maxLen v := by
  unfold glyphCount
  by_cases hc : env.unicode
  · have hmono := U.lengthVal_mono hu hv huv (n := maxLen * 9) (by omega) (by omega)
    obtain ⟨a, _⟩ := U.lengthVal_bounds hu (n := maxLen * 9) (by omega) (by omega)
    obtain ⟨a', _⟩ := U.lengthVal_bounds hv (n := maxLen * 9) (by omega) (by omega)
    simp only [hc, if_true, wrap_mul9 hm hs]
    generalize lengthVal A (maxLen * 9) u = r1 at a hmono
    generalize lengthVal A (maxLen * 9) v = r2 at a' hmono
    rw [barParts_nonneg a, barParts_nonneg a']; simp only
    split <;> split <;> omega
  · simpa [hc] using U.lengthVal_mono hu hv huv hm (by omega)

/-- `BarWrite` (bytes) of a unit value never panics -/
theorem UnitLaws.barWrite_ok (U : UnitLaws A Dom Unit le) (env : Env) {u : α} (hu : Unit u) {maxLen : Int} (hm : 0 ≤ maxLen)
    (hs : maxLen ≤ 1000000000000000) : ∃ b, barWrite A env u maxLen = .ok b := by
  obtain ⟨rs, hrs, _⟩ := U.barWriteR_ok env hu hm hs
  exact ⟨_, by unfold barWrite; rw [hrs]; rfl⟩

end
end Rare.C14
