import Rare.Model.C02Hist
import Rare.Proofs.C16Ctx
import Rare.Proofs.C16CtxSeam
/-!
C02: the capture values over a history of matches on ONE context – the worker's loop equals the map of a
context-free function; seam with C16's model of the same object.
-/
namespace Rare.C02

theorem MatchCtx.load_names (c : MatchCtx) (h : LineHit) : (c.load h).names = c.names := rfl

/-- the four assignments overwrite everything a previous match left behind -/
theorem MatchCtx.load_load (c : MatchCtx) (h₁ h₂ : LineHit) : (c.load h₁).load h₂ = c.load h₂ := rfl

/-- a re-pointed context is the context built from the match and the name table alone -/
theorem MatchCtx.load_eq (c : MatchCtx) (h : LineHit) :
    c.load h = MatchCtx.mk h.line h.indices c.names h.source h.lineNum := rfl

theorem histLine_eq (keys : List Bytes) (c : MatchCtx) (h : LineHit) :
    histLine keys c h =
      (captureOf keys c.names h).map fun o => (if h.indices = [] then c else c.load h, o) := by
  unfold histLine captureOf
  by_cases hi : h.indices = []
  · simp [hi, Except.map]
  · simp only [hi, if_false, ← MatchCtx.load_eq]
    cases (c.load h).buildKeys keys <;> rfl

theorem histLine_names (keys : List Bytes) (c c' : MatchCtx) (h : LineHit) (o : Option KeyAns)
    (hp : histLine keys c h = .ok (c', o)) : c'.names = c.names := by
  rw [histLine_eq] at hp
  cases he : captureOf keys c.names h with
  | error e => simp [he, Except.map] at hp
  | ok v =>
    simp [he, Except.map] at hp
    rw [← hp.1]; split <;> rfl

theorem histFrom_eq_mapM (keys : List Bytes) (hs : List LineHit) :
    ∀ c : MatchCtx, histFrom keys c hs = hs.mapM (captureOf keys c.names) := by
  induction hs with
  | nil => intro c; rfl
  | cons h r ih =>
    intro c
    rw [histFrom, List.mapM_cons, histLine_eq]
    cases he : captureOf keys c.names h with
    | error e => rfl
    | ok v =>
      have hn : (if h.indices = [] then c else c.load h).names = c.names := by split <;> rfl
      simp only [Except.map, bind, Except.bind]
      rw [ih, hn]

/-- **the loop of one worker = the map of a context-free function over its history** -/
theorem histWorker_eq_mapM (keys : List Bytes) (nt : List (Bytes × Int)) (hs : List LineHit) :
    histWorker keys nt hs = hs.mapM (captureOf keys nt) := histFrom_eq_mapM keys hs (MatchCtx.fresh nt)

/-! ### what the source's read / write sets say (lists regenerated into `Gen.C02`) -/

/-- fields `processLineSync` assigns, from the generated event list -/
def loadSetFields (ev : List (String × String × String)) : List String :=
  ev.filterMap fun e => if e.1 = "set" then some e.2.1 else none

/-- no assignment to the context comes after the first call the context is handed to -/
def setsBeforeUses (ev : List (String × String × String)) : Bool :=
  (ev.dropWhile fun e => e.1 ≠ "use").all fun e => e.1 ≠ "set"

abbrev MethodRow := String × List String × List String × List String × List String

/-- fields the named methods read (from the generated method table) -/
def methodReadsOf (names : List String) (ms : List MethodRow) : List String :=
  (ms.filter fun m => names.contains m.1).flatMap fun m => m.2.1

/-- fields ANY method of the context may write -/
def methodWrites (ms : List MethodRow) : List String := ms.flatMap fun m => m.2.2.1

/-- the methods the capture keys `{N}`, `{name}`, `{@}`, `{src}`, `{line}` run through -/
def captureMethods : List String := ["GetMatch", "GetKey", "array"]

/-! ### seam: C16's model of the context (`C16.Ctx`) and this one -/

/-- C16's context as the context of this model -/
def ofC16 (c : C16.Ctx) : MatchCtx := ⟨c.linePtr, c.indices, c.nameTable, c.source, c.lineNum⟩

def ofC16Hit (h : C16.Hit) : LineHit := ⟨h.source, h.lineNum, h.indices, h.line⟩

theorem ofC16_load (c : C16.Ctx) (h : C16.Hit) : ofC16 (c.load h) = (ofC16 c).load (ofC16Hit h) := rfl

theorem ofC16_fresh (nt : List (Bytes × Int)) : ofC16 (C16.Ctx.fresh nt) = MatchCtx.fresh nt := rfl

/-- a key that is neither decimal nor a JSON view: both models of `GetKey` answer the same bytes (or panic) -/
theorem keyVal_eq_C16 (c : C16.Ctx) (key : Bytes) (hd : atoi key = none) (hv : C16.viewFlags key = none) :
    (ofC16 c).keyVal key = (c.getKey key).map KeyAns.val := by
  have e1 : ascii "." = [0x2e] := by decide +kernel
  have e2 : ascii "#" = [0x23] := by decide +kernel
  have e3 : ascii ".#" = [0x2e, 0x23] := by decide +kernel
  have e4 : ascii "#." = [0x23, 0x2e] := by decide +kernel
  have e5 : ascii "src" = C16.keySrc := by decide +kernel
  have e6 : ascii "line" = C16.keyLine := by decide +kernel
  have e7 : ascii "@" = [0x40] := by decide +kernel
  have e8 : Expr.ErrorArgName = C16.errorArgName := by decide +kernel
  have hn : itoa (c.lineNum : Nat) = C16.natAscii c.lineNum := by
    unfold itoa C16.natAscii; simp
  unfold MatchCtx.keyVal
  rw [hd]
  simp only []
  unfold getKey C16.Ctx.getKey ofC16
  rw [e1, e2, e3, e4, e5, e6, e7, e8]
  simp only []
  by_cases h5 : key = C16.keySrc
  · subst h5; simp [Except.map]
  by_cases h6 : key = C16.keyLine
  · subst h6; simp [C16.keySrc, C16.keyLine, Except.map, hn]
  rw [if_neg h5, if_neg h6, if_neg h5, if_neg h6]
  have hnv : ¬ (key = [0x2e] ∨ key = [0x23] ∨ key = [0x2e, 0x23] ∨ key = [0x23, 0x2e]) := by
    intro h
    unfold C16.viewFlags at hv
    rcases h with h | h | h | h <;> subst h <;> simp at hv
  rw [if_neg hnv]
  have hgj : C16.getKeyJson key c.nameTable c.indices c.linePtr = none := by
    simp only [not_or] at hnv
    unfold C16.getKeyJson
    simp [hnv.1, hnv.2.1, hnv.2.2.1, hnv.2.2.2]
  rw [hgj]
  simp only []
  by_cases h7 : key = [0x40]
  · rw [if_pos h7, if_pos h7, C16.ctx_array_eq_c02]
  · rw [if_neg h7, if_neg h7]
    cases c.nameTable.find? (fun p => p.1 == key) with
    | none => rfl
    | some p => simp only [C16.Ctx.getMatch, C16.getMatch_eq_c02]

/-- a decimal key: `GetMatch` of both models -/
theorem keyVal_decimal_eq_C16 (c : C16.Ctx) (key : Bytes) (i : Int) (hd : atoi key = some i) :
    (ofC16 c).keyVal key = (c.getMatch i).map KeyAns.val := by
  unfold MatchCtx.keyVal
  rw [hd]
  simp only [ofC16, C16.Ctx.getMatch, C16.getMatch_eq_c02]

end Rare.C02
