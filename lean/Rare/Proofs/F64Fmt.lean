import Rare.Proofs.F64Parse
import Rare.Proofs.C11Str
/-!
`strconv.FormatFloat(x, 'f', -1, 64)` (the model `F64.format x (-1)`) on integer-valued floats:

  `format_ofInt : |n| ≤ 2^53 → format (ofInt n) (-1) = itoa n`

i.e. the shortest-digits search prints an integer-valued float up to `2^53` exactly as `strconv.Itoa`
prints the integer.  Ingredients: rounding is injective and strictly monotone on the integers up
to `2^53` (`roundMag_nat_inj/lt`), so an `n`-digit candidate reads back iff it *is* the integer
(`tryDigits_int`; the only other integer that rounds to a pattern in range is `2^53+1 ↦ 2^53`, which
is not a multiple of 10); the search therefore stops at the digit count that drops exactly the
trailing zeros (`searchDigits_int`); the decimal exponent found from the binary one is right
(`decExp_spec`, a 54-row table checked by the kernel).
-/
namespace Rare.F64
open Rare

/-! ### integers as magnitude patterns -/

theorem natCast_div_two1074 (n : Nat) : ((n * 2 ^ 1074 : Nat) : Rat) / two1074 = (n : Rat) := by
  rw [Rat.natCast_mul, ← two1074_eq]
  exact Rat.mul_div_cancel two1074_ne

/-- Every natural number up to `2^53`, and `2^53 + 2`, is the value of a finite magnitude pattern. -/
theorem exists_mag_of_nat {n : Nat} (h : n ≤ P53 ∨ n = P53 + 2) : ∃ p, p < InfMag ∧ magVal p = (n : Rat) := by
  have big : ∀ m e : Nat, m < P53 → m * 2 ^ e = n * 2 ^ 1074 → m * 2 ^ e < 2 ^ 2098 →
      ∃ p, p < InfMag ∧ magVal p = (n : Rat) := by
    intro m e hm he hr
    obtain ⟨p, hp, hv⟩ := exists_mag_of_dyadic m e hm hr
    exact ⟨p, hp, by rw [hv, he, natCast_div_two1074]⟩
  rcases h with h | h
  · by_cases hn : n < P53
    · apply big n 1074 hn rfl
      have : n * 2 ^ 1074 < 2 ^ 53 * 2 ^ 1074 :=
        Nat.mul_lt_mul_of_pos_right (by rw [pow2_53]; exact hn) (Nat.pow_pos (by decide))
      rw [← Nat.pow_add] at this
      exact Nat.lt_of_lt_of_le this (Nat.pow_le_pow_right (by decide) (by omega))
    · have hn' : n = 2 ^ 53 := by rw [pow2_53]; omega
      apply big 1 1127 (by omega) (by rw [hn', Nat.one_mul, ← Nat.pow_add])
      rw [Nat.one_mul]; exact Nat.pow_lt_pow_right (by decide) (by omega)
  · apply big (P52 + 1) 1075 (by omega)
    · rw [h, show (1075 : Nat) = 1 + 1074 by rfl, Nat.pow_add, ← Nat.mul_assoc]
    · have : (P52 + 1) * 2 ^ 1075 < 2 ^ 53 * 2 ^ 1075 :=
        Nat.mul_lt_mul_of_pos_right (by rw [pow2_53]; omega) (Nat.pow_pos (by decide))
      rw [← Nat.pow_add] at this
      exact Nat.lt_of_lt_of_le this (Nat.pow_le_pow_right (by decide) (by omega))

/-- For such `n` the rounding is exact. -/
theorem magVal_roundMag_nat {n : Nat} (h : n ≤ P53 ∨ n = P53 + 2) :
    magVal (roundMag (n : Rat)) = (n : Rat) ∧ roundMag (n : Rat) < InfMag := by
  obtain ⟨p, hp, hv⟩ := exists_mag_of_nat h
  rw [← hv, roundMag_magVal hp]; exact ⟨rfl, hp⟩

/-- Rounding is injective on the integers up to `2^53` (and `2^53+2`). -/
theorem roundMag_nat_inj {a b : Nat} (ha : a ≤ P53 ∨ a = P53 + 2) (hb : b ≤ P53 ∨ b = P53 + 2)
    (h : roundMag (a : Rat) = roundMag (b : Rat)) : a = b := by
  have := (magVal_roundMag_nat ha).1
  rw [h, (magVal_roundMag_nat hb).1] at this
  exact (Rat.natCast_inj.mp this).symm

theorem roundMag_nat_mono {a b : Nat} (h : a ≤ b) : roundMag (a : Rat) ≤ roundMag (b : Rat) :=
  roundMag_mono Rat.natCast_nonneg (Rat.natCast_le_natCast.mpr h)

/-- Strictly monotone on those integers. -/
theorem roundMag_nat_lt {a b : Nat} (ha : a ≤ P53 ∨ a = P53 + 2) (hb : b ≤ P53 ∨ b = P53 + 2) (h : a < b) :
    roundMag (a : Rat) < roundMag (b : Rat) := by
  have h1 := roundMag_nat_mono (Nat.le_of_lt h)
  have h2 : roundMag (a : Rat) ≠ roundMag (b : Rat) := fun e => by
    have := roundMag_nat_inj ha hb e; omega
  omega

/-- An integer `M ≠ N` does not round to the pattern of `N ≤ 2^53`, except `2^53 + 1 ↦ 2^53`. -/
theorem roundMag_ne_of_ne {N M : Nat} (hN : N ≤ P53) (hne : M ≠ N) (hx : ¬ (N = P53 ∧ M = P53 + 1)) :
    roundMag (M : Rat) ≠ roundMag (N : Rat) := by
  intro e
  by_cases hM : M ≤ P53
  · exact hne (roundMag_nat_inj (Or.inl hM) (Or.inl hN) e)
  · by_cases hN2 : N = P53
    · have hM2 : P53 + 2 ≤ M := by omega
      have h1 := roundMag_nat_mono hM2
      have h2 := roundMag_nat_lt (a := N) (b := P53 + 2) (Or.inl hN) (Or.inr rfl) (by omega)
      omega
    · have h1 := roundMag_nat_mono (a := P53) (b := M) (by omega)
      have h2 := roundMag_nat_lt (a := N) (b := P53) (Or.inl hN) (Or.inl (by omega)) (by omega)
      omega

/-! ### floor of a quotient of naturals -/

theorem floor_natCast_div (a b : Nat) (hb : 0 < b) : ((a : Rat) / (b : Rat)).floor = ((a / b : Nat) : Int) := by
  have hbr : (0 : Rat) < (b : Rat) := natCast_pos_of_pos hb
  apply floor_eq_of
  · rw [rat_le_div_iff hbr]
    have : a / b * b ≤ a := Nat.div_mul_le_self a b
    have := Rat.natCast_le_natCast.mpr this
    rw [Rat.natCast_mul] at this
    exact this
  · rw [Rat.div_lt_iff hbr]
    have : a < (a / b + 1) * b := by
      have := Nat.lt_div_mul_add hb (a := a)
      rw [Nat.add_mul, Nat.one_mul]; omega
    have := Rat.natCast_lt_natCast.mpr this
    rw [Rat.natCast_mul, Rat.natCast_add] at this
    have e1 : ((1 : Nat) : Rat) = 1 := rfl
    rw [e1] at this
    exact this

/-! ### the digit search on an integer -/

theorem p10_natCast (k : Nat) : p10 (k : Int) = ((10 ^ k : Nat) : Rat) := by
  unfold p10 pow10
  simp

theorem not_ten_dvd_P53_succ : ¬ (10 ∣ (P53 + 1 : Nat)) := by decide

/-- With `k = e − n ≥ 0` the `n`-digit candidates for an integer `N ≤ 2^53` succeed exactly when
    `10^k ∣ N`, and then the candidate is `N / 10^k`. -/
theorem tryDigits_int {N : Nat} (hN : N ≤ P53) (e : Int) (n k : Nat) (hk : e - (n : Int) = (k : Int)) :
    tryDigits (roundMag (N : Rat)) (N : Rat) e n =
      if N % 10 ^ k = 0 then some (N / 10 ^ k, (k : Int)) else none := by
  have hpos : 0 < 10 ^ k := Nat.pow_pos (by decide)
  have hfl : ((N : Rat) / ((10 ^ k : Nat) : Rat)).floor.toNat = N / 10 ^ k := by
    rw [floor_natCast_div N _ hpos, Int.toNat_natCast]
  have hdm := Nat.div_add_mod N (10 ^ k)
  have hml := Nat.mod_lt N hpos
  unfold tryDigits
  simp only [hk, p10_natCast, hfl, ← Rat.natCast_mul]
  by_cases hd : N % 10 ^ k = 0
  · -- the lower candidate is N itself
    have hlo : N / 10 ^ k * 10 ^ k = N := by rw [Nat.mul_comm]; omega
    have hr : (N : Rat) / ((10 ^ k : Nat) : Rat) - ((N / 10 ^ k : Nat) : Rat) = 0 := by
      have h2 : (((N / 10 ^ k : Nat) : Rat) * ((10 ^ k : Nat) : Rat)) / ((10 ^ k : Nat) : Rat) = ((N / 10 ^ k : Nat) : Rat) :=
        Rat.mul_div_cancel (Rat.ne_of_gt (natCast_pos_of_pos hpos))
      rw [← Rat.natCast_mul, hlo] at h2
      rw [h2]; grind
    rw [hlo, hr, if_pos hd]
    have b1 : (roundMag (N : Rat) == roundMag (N : Rat)) = true := beq_self_eq_true _
    have h12 : ((0 : Rat) < 1 / 2) := by grind
    rw [b1]
    simp only [Bool.true_and, h12, decide_true, Bool.true_or, if_true]
    split <;> rfl
  · -- neither candidate reads back
    have hlo : N / 10 ^ k * 10 ^ k ≠ N := by rw [Nat.mul_comm]; omega
    have hlo_le : N / 10 ^ k * 10 ^ k ≤ N := Nat.div_mul_le_self N _
    have n1 := roundMag_ne_of_ne hN hlo (by omega)
    have hhi : (N / 10 ^ k + 1) * 10 ^ k ≠ N := by rw [Nat.add_mul, Nat.mul_comm (N / 10 ^ k)]; omega
    have n2 := roundMag_ne_of_ne hN hhi (by
      rintro ⟨_, h2⟩
      -- (lo+1)·10^k = 2^53+1 forces k = 0, i.e. 10^k ∣ N
      cases k with
      | zero => exact hd (by rw [Nat.pow_zero, Nat.mod_one])
      | succ k =>
        apply not_ten_dvd_P53_succ
        rw [← h2, Nat.pow_succ, ← Nat.mul_assoc]
        exact Nat.dvd_mul_left _ _)
    have b1 := beq_eq_false_iff_ne.mpr n1
    have b2 := beq_eq_false_iff_ne.mpr n2
    rw [b1, b2, if_neg hd]
    simp

theorem searchBy_succ (t : Nat → Option (Nat × Int)) (f n : Nat) :
    searchBy t (f + 1) n =
      match t n with
      | some r => r
      | none => searchBy t f (n + 1) := rfl

theorem searchBy_hit {t : Nat → Option (Nat × Int)} {f n : Nat} {r : Nat × Int} (h : t n = some r) :
    searchBy t (f + 1) n = r := by
  rw [searchBy_succ, h]

theorem searchBy_miss {t : Nat → Option (Nat × Int)} {f n : Nat} (h : t n = none) :
    searchBy t (f + 1) n = searchBy t f (n + 1) := by
  rw [searchBy_succ, h]

/-- The search stops at the first digit count at which `10^k ∣ N`: with `z` trailing zeros and
    `e = D`, at `n = D − z` digits, returning `(N / 10^z, z)`. -/
theorem searchDigits_int {N : Nat} (hN : N ≤ P53) (D z : Nat)
    (hz1 : N % 10 ^ z = 0) (hz2 : N % 10 ^ (z + 1) ≠ 0) :
    ∀ (j fuel n : Nat), n + j + z = D → j < fuel →
      searchBy (tryDigits (roundMag (N : Rat)) (N : Rat) (D : Int)) fuel n = (N / 10 ^ z, (z : Int)) := by
  intro j
  induction j with
  | zero =>
    intro fuel n hD hf
    obtain ⟨f, rfl⟩ : ∃ f, fuel = f + 1 := ⟨fuel - 1, by omega⟩
    apply searchBy_hit
    rw [tryDigits_int hN (D : Int) n z (by omega), if_pos hz1]
  | succ j ih =>
    intro fuel n hD hf
    obtain ⟨f, rfl⟩ : ∃ f, fuel = f + 1 := ⟨fuel - 1, by omega⟩
    have hnd : N % 10 ^ (j + 1 + z) ≠ 0 := by
      intro h0
      apply hz2
      have d1 : 10 ^ (z + 1) ∣ 10 ^ (j + 1 + z) := Nat.pow_dvd_pow 10 (by omega)
      exact Nat.mod_eq_zero_of_dvd (Nat.dvd_trans d1 (Nat.dvd_of_mod_eq_zero h0))
    rw [searchBy_miss (by rw [tryDigits_int hN (D : Int) n (j + 1 + z) (by omega), if_neg hnd])]
    exact ih f (n + 1) (by omega) (by omega)

/-! ### the decimal exponent of an integer -/

/-- The table behind `decExp`: for every binary exponent `L ≤ 53` the starting guess is within range. -/
theorem decExp_table : ∀ L : Nat, L < 54 →
    p10 ((L : Int) * 30103 / 100000 - 1 - 1) ≤ ((2 ^ L : Nat) : Rat) ∧
    ((2 ^ (L + 1) : Nat) : Rat) ≤ p10 ((L : Int) * 30103 / 100000 - 1 + 3) := by
  decide +kernel

theorem decExp_spec {N L : Nat} (hL : L < 54) (h1 : 2 ^ L ≤ N) (h2 : N < 2 ^ (L + 1)) :
    p10 (decExp (N : Rat) (L : Int) - 1) ≤ (N : Rat) ∧ (N : Rat) < p10 (decExp (N : Rat) (L : Int)) := by
  obtain ⟨t1, t2⟩ := decExp_table L hL
  have lo : p10 ((L : Int) * 30103 / 100000 - 1 - 1) ≤ (N : Rat) :=
    Rat.le_trans t1 (Rat.natCast_le_natCast.mpr h1)
  have hi : (N : Rat) < p10 ((L : Int) * 30103 / 100000 - 1 + 3) := by
    have := Rat.natCast_lt_natCast.mpr h2
    grind
  unfold decExp
  simp only []
  generalize (L : Int) * 30103 / 100000 - 1 = e0 at lo hi ⊢
  split
  · rename_i a
    exact ⟨by rw [show e0 + 3 - 1 = e0 + 2 by omega]; exact a, hi⟩
  · rename_i a
    split
    · rename_i b
      exact ⟨by rw [show e0 + 2 - 1 = e0 + 1 by omega]; exact b, by grind⟩
    · rename_i b
      split
      · rename_i c
        exact ⟨by rw [show e0 + 1 - 1 = e0 by omega]; exact c, by grind⟩
      · rename_i c
        exact ⟨lo, by grind⟩

/-- The binary exponent that `shortest` computes for the pattern of an integer `1 ≤ N ≤ 2^53`. -/
theorem lg_of_nat {N : Nat} (h1 : 1 ≤ N) (hN : N ≤ P53) :
    ∃ L : Nat, L < 54 ∧ 2 ^ L ≤ N ∧ N < 2 ^ (L + 1) ∧
      (((magSig (roundMag (N : Rat))).log2 : Nat) : Int) + ((magScale (roundMag (N : Rat)) : Nat) : Int) - 1074 = (L : Int) := by
  obtain ⟨hv, _⟩ := magVal_roundMag_nat (Or.inl hN)
  generalize roundMag (N : Rat) = p at hv
  obtain ⟨_, d2, d3⟩ := mag_decomp p
  have hprod : magSig p * 2 ^ magScale p = N * 2 ^ 1074 := by
    unfold magVal at hv
    have := Rat.div_mul_cancel (a := ((magSig p * 2 ^ magScale p : Nat) : Rat)) two1074_ne
    rw [hv, two1074_eq, ← Rat.natCast_mul] at this
    exact (Rat.natCast_inj.mp this).symm
  have hpos1074 : 0 < 2 ^ 1074 := Nat.pow_pos (by decide)
  have hbig : 2 ^ 1074 ≤ N * 2 ^ 1074 := Nat.le_mul_of_pos_left _ (by omega)
  have h53lt : P53 < 2 ^ 1074 := by
    rw [← pow2_53]; exact Nat.pow_lt_pow_right (by decide) (by decide)
  have hsig : P52 ≤ magSig p := by
    rcases d2 with h0 | h
    · rw [h0, Nat.pow_zero, Nat.mul_one] at hprod; omega
    · exact h
  have hlog : (magSig p).log2 = 52 := by
    rw [Nat.log2_eq_iff (by omega)]
    rw [pow2_52, show 52 + 1 = 53 by rfl, pow2_53]; exact ⟨hsig, d3⟩
  -- bounds on the scale
  have lo : 2 ^ (52 + magScale p) ≤ N * 2 ^ 1074 := by
    rw [← hprod, Nat.pow_add, pow2_52]; exact Nat.mul_le_mul_right _ hsig
  have hi : N * 2 ^ 1074 < 2 ^ (53 + magScale p) := by
    rw [← hprod, Nat.pow_add, pow2_53]; exact Nat.mul_lt_mul_of_pos_right d3 (Nat.pow_pos (by decide))
  have hsc1 : 1022 ≤ magScale p := by
    apply Classical.byContradiction
    intro hc
    have : 2 ^ (53 + magScale p) ≤ 2 ^ 1074 := Nat.pow_le_pow_right (by decide) (by omega)
    omega
  have hsc2 : magScale p ≤ 1075 := by
    apply Classical.byContradiction
    intro hc
    have a : N * 2 ^ 1074 ≤ P53 * 2 ^ 1074 := Nat.mul_le_mul_right _ hN
    have b : 2 ^ (53 + 1074) < 2 ^ (52 + magScale p) := Nat.pow_lt_pow_right (by decide) (by omega)
    rw [Nat.pow_add, pow2_53] at b
    omega
  refine ⟨magScale p - 1022, by omega, ?_, ?_, by rw [hlog]; omega⟩
  · have e : 52 + magScale p = (magScale p - 1022) + 1074 := by omega
    rw [e, Nat.pow_add] at lo
    exact Nat.le_of_mul_le_mul_right lo hpos1074
  · have e : 53 + magScale p = (magScale p - 1022 + 1) + 1074 := by omega
    rw [e, Nat.pow_add] at hi
    exact Nat.lt_of_mul_lt_mul_right hi

/-- Trailing decimal zeros: the largest `z` with `10^z ∣ N`. -/
theorem exists_trailing_zeros : ∀ (D N : Nat), 0 < N → N < 10 ^ D →
    ∃ z, z < D ∧ N % 10 ^ z = 0 ∧ N % 10 ^ (z + 1) ≠ 0 := by
  intro D
  induction D with
  | zero => intro N h0 h1; simp at h1; omega
  | succ D ih =>
    intro N h0 h1
    by_cases h10 : N % 10 = 0
    · have hN : N = 10 * (N / 10) := by omega
      have hM : N / 10 < 10 ^ D := by
        rw [Nat.pow_succ] at h1; omega
      obtain ⟨z, hz, a, b⟩ := ih (N / 10) (by omega) hM
      refine ⟨z + 1, by omega, ?_, ?_⟩
      · rw [hN, Nat.pow_succ, Nat.mul_comm (10 ^ z) 10, Nat.mul_mod_mul_left, a]
      · rw [hN, Nat.pow_succ, Nat.mul_comm (10 ^ (z + 1)) 10, Nat.mul_mod_mul_left]
        omega
    · exact ⟨0, by omega, by simp [Nat.mod_one], by simpa using h10⟩

/-! ### `FormatFloat(float64(n), 'f', -1, 64)` for `|n| ≤ 2^53` -/

theorem natDigits_mul_ten {c : Nat} (hc : c ≠ 0) : natDigits (c * 10) = natDigits c ++ [48] := by
  rw [C11.natDigits_step (c * 10) (by omega)]
  have h1 : c * 10 / 10 = c := by omega
  have h2 : c * 10 % 10 = 0 := by omega
  rw [h1, h2]
  simp [C11.digitsPos, hc]

theorem natDigits_mul_pow_ten {c : Nat} (hc : c ≠ 0) : ∀ z : Nat, natDigits (c * 10 ^ z) = natDigits c ++ zerosB z
  | 0 => by simp [zerosB]
  | z + 1 => by
    have hne : c * 10 ^ z ≠ 0 := Nat.mul_ne_zero hc (Nat.ne_of_gt (Nat.pow_pos (by decide)))
    rw [Nat.pow_succ, ← Nat.mul_assoc, natDigits_mul_ten hne, natDigits_mul_pow_ten hc z]
    simp [zerosB, List.replicate_succ']

/-- The shortest digits of the pattern of an integer `1 ≤ N ≤ 2^53` are `N` without its trailing zeros. -/
theorem shortest_nat {N : Nat} (h1 : 1 ≤ N) (hN : N ≤ P53) :
    ∃ z : Nat, N % 10 ^ z = 0 ∧ N % 10 ^ (z + 1) ≠ 0 ∧ shortest (roundMag (N : Rat)) = (N / 10 ^ z, (z : Int)) := by
  obtain ⟨L, hL, l1, l2, hlg⟩ := lg_of_nat h1 hN
  obtain ⟨hv, _⟩ := magVal_roundMag_nat (Or.inl hN)
  obtain ⟨s1, s2⟩ := decExp_spec hL l1 l2
  -- the decimal exponent is a positive natural number D ≤ 16 with N < 10^D
  generalize he : decExp (N : Rat) (L : Int) = e at s1 s2
  have hepos : 1 ≤ e := by
    apply Classical.byContradiction
    intro hc
    have hle : p10 e ≤ 1 := by
      unfold p10
      by_cases h0 : e ≥ 0
      · have : e = 0 := by omega
        subst this; simp [pow10]
      · rw [if_neg h0]
        have hp : (1 : Rat) ≤ pow10 (-e).toNat := by
          unfold pow10
          have : 1 ≤ 10 ^ (-e).toNat := Nat.pow_pos (by decide)
          have := Rat.natCast_le_natCast.mpr this
          simpa using this
        rw [rat_div_le_iff (by grind)]
        grind
    have : (1 : Rat) ≤ (N : Rat) := by
      have := Rat.natCast_le_natCast.mpr h1
      simpa using this
    grind
  obtain ⟨D, rfl⟩ : ∃ D : Nat, e = (D : Int) := ⟨e.toNat, by omega⟩
  rw [p10_natCast, Rat.natCast_lt_natCast] at s2
  have hD1 : 1 ≤ D := by omega
  rw [show (D : Int) - 1 = ((D - 1 : Nat) : Int) by omega, p10_natCast, Rat.natCast_le_natCast] at s1
  have hD16 : D ≤ 16 := by
    apply Classical.byContradiction
    intro hc
    have : 10 ^ 16 ≤ 10 ^ (D - 1) := Nat.pow_le_pow_right (by decide) (by omega)
    have e16 : (10 : Nat) ^ 16 = 10000000000000000 := by decide
    omega
  obtain ⟨z, hz, z1, z2⟩ := exists_trailing_zeros D N (by omega) s2
  refine ⟨z, z1, z2, ?_⟩
  unfold shortest
  simp only [hv, hlg, he]
  exact searchDigits_int hN D z z1 z2 (D - z - 1) 18 1 (by omega) (by omega)

/-- `FormatFloat(x, 'f', -1, 64)` of the float of an integer `1 ≤ N ≤ 2^53` is its decimal spelling. -/
theorem shortestBody_nat {N : Nat} (h1 : 1 ≤ N) (hN : N ≤ P53) :
    shortestBody (roundMag (N : Rat)) = natDigits N := by
  obtain ⟨z, z1, z2, hs⟩ := shortest_nat h1 hN
  have hpos : 0 < 10 ^ z := Nat.pow_pos (by decide)
  have hNc : N / 10 ^ z * 10 ^ z = N := by
    have := Nat.div_add_mod N (10 ^ z); rw [Nat.mul_comm]; omega
  have hc0 : N / 10 ^ z ≠ 0 := by
    intro h0; rw [h0] at hNc; omega
  have hc10 : N / 10 ^ z % 10 ≠ 0 := by
    intro h0
    apply z2
    have : 10 ∣ N / 10 ^ z := Nat.dvd_of_mod_eq_zero h0
    obtain ⟨q, hq⟩ := this
    rw [← hNc, hq, Nat.pow_succ, Nat.mul_comm (10 ^ z) 10, Nat.mul_assoc, Nat.mul_comm q, ← Nat.mul_assoc]
    exact Nat.mul_mod_right _ _
  have hmag : roundMag (N : Rat) ≠ 0 := by
    intro h0
    have := (magVal_roundMag_nat (Or.inl hN)).1
    rw [h0, magVal_zero] at this
    have : (N : Rat) = ((0 : Nat) : Rat) := by rw [← this]; rfl
    have := Rat.natCast_inj.mp this
    omega
  unfold shortestBody
  rw [if_neg hmag, hs]
  have hstrip : stripZeros 400 (z : Int) (N / 10 ^ z) = (N / 10 ^ z, (z : Int)) := by
    unfold stripZeros
    simp [hc0, hc10]
  simp only [hstrip]
  have hz0 : (z : Int) ≥ 0 := by omega
  rw [if_pos hz0, Int.toNat_natCast, ← natDigits_mul_pow_ten hc0 z, hNc]

/-- **`FormatFloat(float64(n), 'f', -1, 64) = strconv.Itoa(n)`** for every integer `|n| ≤ 2^53`. -/
theorem format_ofInt {n : Int} (h : n.natAbs ≤ P53) : format (ofInt n) (-1) = itoa n := by
  unfold ofInt ofRat ofRatS
  by_cases h0 : n = 0
  · subst h0
    have : ((0 : Int) : Rat) = 0 := rfl
    rw [this, if_pos rfl]
    decide +kernel
  · have hne : (n : Rat) ≠ 0 := by
      intro e
      have : (n : Rat) = ((0 : Int) : Rat) := e
      exact h0 (Rat.intCast_inj.mp this)
    rw [if_neg hne]
    have habs : absRat (n : Rat) = ((n.natAbs : Nat) : Rat) := by
      unfold absRat
      rcases Int.natAbs_eq n with e | e
      · have : ¬ ((n : Rat) < 0) := by
          rw [e]; have := Rat.natCast_nonneg (a := n.natAbs); simp only [Rat.intCast_natCast]; grind
        rw [if_neg this]; conv => lhs; rw [e]
        rfl
      · have hpos : 0 < n.natAbs := by omega
        have : (n : Rat) < 0 := by
          rw [e, Rat.intCast_neg, Rat.intCast_natCast]
          have := natCast_pos_of_pos hpos; grind
        rw [if_pos this]; conv => lhs; rw [e]
        rw [Rat.intCast_neg, Rat.neg_neg]; rfl
    rw [habs]
    have hN1 : 1 ≤ n.natAbs := by omega
    obtain ⟨_, hfin⟩ := magVal_roundMag_nat (Or.inl h)
    have hlt63 : roundMag ((n.natAbs : Nat) : Rat) < P63 := by omega
    unfold format
    have hnan : (ofSM (decide ((n : Rat) < 0)) (roundMag ((n.natAbs : Nat) : Rat))).isNaN = false :=
      isNaN_ofSM _ (by omega)
    have hinf : (ofSM (decide ((n : Rat) < 0)) (roundMag ((n.natAbs : Nat) : Rat))).isInf = false := by
      unfold isInf; rw [mag_ofSM _ hlt63]; simp; omega
    rw [hnan, hinf]
    simp only [Bool.false_eq_true, if_false, show ((-1 : Int) < 0) from by decide, if_true,
      mag_ofSM _ hlt63, sign_ofSM _ hlt63, shortestBody_nat hN1 h]
    unfold itoa
    by_cases hneg : n < 0
    · have : (n : Rat) < 0 := by
        have := (Rat.intCast_lt_intCast (a := n) (b := 0)).mpr hneg
        simpa using this
      simp [this, hneg]
    · have : ¬ ((n : Rat) < 0) := by
        intro hc
        have : (n : Rat) < ((0 : Int) : Rat) := hc
        exact hneg (Rat.intCast_lt_intCast.mp this)
      simp [this, hneg]

end Rare.F64
