import Rare.Model.C07
/-! Basic lemmas for C07: int64 wrapping, association lists, spec folds. -/
namespace Rare.C07

/-! ### wrap64 is reduction modulo 2^64 -/

theorem wrap64_idem (a : Int) : wrap64 (wrap64 a) = wrap64 a := by unfold wrap64; omega
theorem wrap64_add_left (a b : Int) : wrap64 (wrap64 a + b) = wrap64 (a + b) := by unfold wrap64; omega
theorem wrap64_add_right (a b : Int) : wrap64 (a + wrap64 b) = wrap64 (a + b) := by unfold wrap64; omega
theorem wrap64_sub_left (a b : Int) : wrap64 (wrap64 a - b) = wrap64 (a - b) := by unfold wrap64; omega
theorem wrap64_zero : wrap64 0 = 0 := by decide
theorem wrap64_of_inRange (a : Int) (h : inInt64 a = true) : wrap64 a = a := by
  unfold inInt64 minInt64 maxInt64 at h
  have h1 : -9223372036854775808 ≤ a := by have := (Bool.and_eq_true _ _ ▸ h).1; exact of_decide_eq_true this
  have h2 : a ≤ 9223372036854775807 := by have := (Bool.and_eq_true _ _ ▸ h).2; exact of_decide_eq_true this
  unfold wrap64; omega
theorem wrap64_inRange (a : Int) : minInt64 ≤ wrap64 a ∧ wrap64 a ≤ maxInt64 := by
  simp only [wrap64, minInt64, maxInt64]; constructor <;> omega

/-! ### association lists -/

section AList
variable {α : Type}

@[simp] theorem aget_nil (k : Bytes) : aget ([] : List (Bytes × α)) k = none := rfl

theorem aget_aset (m : List (Bytes × α)) (k k' : Bytes) (v : α) :
    aget (aset m k v) k' = if k = k' then some v else aget m k' := by
  induction m with
  | nil => simp [aset, aget]
  | cons e m ih =>
    obtain ⟨k0, v0⟩ := e
    by_cases h : k0 = k
    · subst h; by_cases h' : k0 = k' <;> simp [aset, aget, h']
    · by_cases h' : k0 = k'
      · subst h'; simp [aset, aget, h]; intro h2; exact absurd h2.symm h
      · simp [aset, aget, h, h', ih]

theorem aget_aset_self (m : List (Bytes × α)) (k : Bytes) (v : α) : aget (aset m k v) k = some v := by
  simp [aget_aset]

theorem aget_aset_ne (m : List (Bytes × α)) (k k' : Bytes) (v : α) (h : k ≠ k') :
    aget (aset m k v) k' = aget m k' := by simp [aget_aset, h]

theorem aget_adel (m : List (Bytes × α)) (k k' : Bytes) :
    aget (adel m k) k' = if k = k' then none else aget m k' := by
  induction m with
  | nil => simp [adel, aget]
  | cons e m ih =>
    obtain ⟨k0, v0⟩ := e
    by_cases h : k0 = k
    · subst h; by_cases h' : k0 = k'
      · subst h'; simp [adel, ih]
      · simp [adel, aget, h', ih]
    · by_cases h' : k0 = k'
      · subst h'; simp [adel, aget, h]; intro h2; exact absurd h2.symm h
      · simp [adel, aget, h, h', ih]

/-- An association list is empty iff every look-up fails. -/
theorem eq_nil_iff_aget (m : List (Bytes × α)) : m = [] ↔ ∀ k, aget m k = none := by
  cases m with
  | nil => simp
  | cons e m =>
    obtain ⟨k0, v0⟩ := e
    simp only [reduceCtorEq, false_iff]
    intro h; have := h k0; simp [aget] at this

theorem mem_akeys_iff (m : List (Bytes × α)) (k : Bytes) : k ∈ akeys m ↔ (aget m k).isSome := by
  induction m with
  | nil => simp [akeys]
  | cons e m ih =>
    obtain ⟨k0, v0⟩ := e
    by_cases h : k0 = k
    · subst h; simp [akeys, aget]
    · have hne : k ≠ k0 := fun e => h e.symm
      simp only [akeys, List.map_cons, List.mem_cons, aget, h, if_false, hne, false_or]
      exact ih

theorem aget_of_mem (m : List (Bytes × α)) (k : Bytes) (v : α) (h : (k, v) ∈ m) : (aget m k).isSome := by
  rw [← mem_akeys_iff]; exact List.mem_map.mpr ⟨(k, v), h, rfl⟩

end AList

/-! ### spec folds: append and permutation -/

theorem sumBy_append {α : Type} (f : α → Int) (a b : List α) : sumBy f (a ++ b) = sumBy f a + sumBy f b := by
  induction a with
  | nil => simp [sumBy]
  | cons x a ih => simp [sumBy, ih]; omega

theorem sumBy_perm {α : Type} (f : α → Int) {a b : List α} (h : a.Perm b) : sumBy f a = sumBy f b := by
  induction h with
  | nil => rfl
  | cons x _ ih => simp [sumBy, ih]
  | swap x y l => simp [sumBy]; omega
  | trans _ _ ih1 ih2 => exact ih1.trans ih2

theorem total_perm (sel : Parsed → Bool) {a b : List Parsed} (h : a.Perm b) : total sel a = total sel b := by
  unfold total; rw [sumBy_perm _ h]

theorem present_perm (sel : Parsed → Bool) {a b : List Parsed} (h : a.Perm b) : present sel a = present sel b := by
  unfold present
  rw [Bool.eq_iff_iff]; simp only [List.any_eq_true]
  constructor
  · rintro ⟨x, hx, hp⟩; exact ⟨x, h.mem_iff.mp hx, hp⟩
  · rintro ⟨x, hx, hp⟩; exact ⟨x, h.mem_iff.mpr hx, hp⟩

theorem errorCount_perm {a b : List Parsed} (h : a.Perm b) : errorCount a = errorCount b := by
  unfold errorCount; exact h.countP_eq _

theorem total_snoc (sel : Parsed → Bool) (h : List Parsed) (p : Parsed) :
    total sel (h ++ [p]) = wrap64 (total sel h + incIf sel p) := by
  unfold total; rw [sumBy_append]; simp [sumBy, wrap64_add_left]

theorem present_snoc (sel : Parsed → Bool) (h : List Parsed) (p : Parsed) :
    present sel (h ++ [p]) = (present sel h || (p.inc.isSome && sel p)) := by
  unfold present; simp

theorem errorCount_snoc (h : List Parsed) (p : Parsed) :
    errorCount (h ++ [p]) = errorCount h + (if p.inc.isNone then 1 else 0) := by
  unfold errorCount; simp [List.countP_append, List.countP_cons]

theorem total_nil (sel : Parsed → Bool) : total sel [] = 0 := by simp [total, sumBy, wrap64_zero]

/-- A sum over nothing selected is 0 (absent cells count as 0). -/
theorem total_of_not_present (sel : Parsed → Bool) (h : List Parsed) (hp : present sel h = false) : total sel h = 0 := by
  have : sumBy (incIf sel) h = 0 := by
    induction h with
    | nil => rfl
    | cons p h ih =>
      simp only [present, List.any_cons, Bool.or_eq_false_iff] at hp
      have ih' := ih (by simpa [present] using hp.2)
      simp only [sumBy, ih', Int.add_zero]
      unfold incIf
      cases hi : p.inc with
      | none => rfl
      | some v => simp [hi] at hp; simp [hp.1]
  simp [total, this, wrap64_zero]

end Rare.C07
