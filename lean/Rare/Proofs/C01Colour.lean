import Rare.Proofs.C01Summary
/-!
C01: the colour codes of the summary line are transparent – what a terminal displays of the coloured line
(`color.Enabled`) is the uncoloured line.
-/
namespace Rare.C01
open Rare

theorem stripAnsiGo_plain : ∀ (a b : Bytes), (27 : UInt8) ∉ a → stripAnsiGo false (a ++ b) = a ++ stripAnsiGo false b
  | [], _, _ => rfl
  | c :: r, b, h => by
    have hc : c ≠ 27 := fun e => h (by simp [e])
    have hr : (27 : UInt8) ∉ r := fun e => h (by simp [e])
    simp only [List.cons_append, stripAnsiGo, hc, if_false, stripAnsiGo_plain r b hr]

theorem stripAnsi_plain (a : Bytes) (h : (27 : UInt8) ∉ a) : stripAnsi a = a := by
  have := stripAnsiGo_plain a [] h
  simpa [stripAnsi, stripAnsiGo] using this

theorem stripAnsiGo_reset (b : Bytes) : stripAnsiGo false (cReset ++ b) = stripAnsiGo false b := by
  have : cReset = [27, 91, 48, 109] := by decide +kernel
  simp [this, stripAnsiGo]

theorem stripAnsiGo_green (b : Bytes) : stripAnsiGo false (cBrightGreen ++ b) = stripAnsiGo false b := by
  have : cBrightGreen = [27, 91, 51, 50, 59, 49, 109] := by decide +kernel
  simp [this, stripAnsiGo]

theorem stripAnsiGo_white (b : Bytes) : stripAnsiGo false (cBrightWhite ++ b) = stripAnsiGo false b := by
  have : cBrightWhite = [27, 91, 51, 55, 59, 49, 109] := by decide +kernel
  simp [this, stripAnsiGo]

theorem stripAnsiGo_red (b : Bytes) : stripAnsiGo false (cRed ++ b) = stripAnsiGo false b := by
  have : cRed = [27, 91, 51, 49, 109] := by decide +kernel
  simp [this, stripAnsiGo]

theorem esc_not_num {s : Bytes} (h : s.all isNumB = true) : (27 : UInt8) ∉ s := by
  intro hm
  have := List.all_eq_true.mp h 27 hm
  revert this; decide

/-- a text without `ESC` does not end with `Reset`: `color.Wrap` appends it -/
theorem wrap_true_of_noEsc (code s : Bytes) (h : (27 : UInt8) ∉ s) : wrap true code s = code ++ s ++ cReset := by
  unfold wrap
  simp only [Bool.not_true, Bool.false_eq_true, if_false]
  have hc : (s.length < cReset.length || s.drop (s.length - cReset.length) != cReset) = true := by
    by_cases hl : s.length < cReset.length
    · simp [hl]
    · simp only [hl, decide_false, Bool.false_or, bne_iff_ne, ne_eq]
      intro he
      apply h
      have : (27 : UInt8) ∈ s.drop (s.length - cReset.length) := by rw [he]; decide +kernel
      exact List.mem_of_mem_drop this
  rw [if_pos hc]

theorem lit_noEsc_matched : (27 : UInt8) ∉ ascii "Matched: " := by decide +kernel
theorem lit_noEsc_slash : (27 : UInt8) ∉ ascii " / " := by decide +kernel
theorem lit_noEsc_ignored : (27 : UInt8) ∉ ascii " (Ignored: " := by decide +kernel
theorem lit_noEsc_paren : (27 : UInt8) ∉ ascii ")" := by decide +kernel
theorem lit_noEsc_errors : (27 : UInt8) ∉ ascii "(Errors: " := by decide +kernel

theorem parts_noEsc : ∀ (parts : List Bytes), (∀ p ∈ parts, (27 : UInt8) ∉ p) → (27 : UInt8) ∉ parts.flatMap fun p => 32 :: p
  | [], _ => by simp
  | p :: r, h => by
    simp only [List.flatMap_cons, List.mem_append, List.mem_cons, not_or]
    exact ⟨⟨by decide, h p (by simp)⟩, parts_noEsc r fun q hq => h q (by simp [hq])⟩

theorem strip_wrap_green (s b : Bytes) (h : (27 : UInt8) ∉ s) :
    stripAnsiGo false (wrap true cBrightGreen s ++ b) = s ++ stripAnsiGo false b := by
  rw [wrap_true_of_noEsc _ _ h, List.append_assoc, List.append_assoc, stripAnsiGo_green, stripAnsiGo_plain _ _ h, stripAnsiGo_reset]

theorem strip_wrap_white (s b : Bytes) (h : (27 : UInt8) ∉ s) :
    stripAnsiGo false (wrap true cBrightWhite s ++ b) = s ++ stripAnsiGo false b := by
  rw [wrap_true_of_noEsc _ _ h, List.append_assoc, List.append_assoc, stripAnsiGo_white, stripAnsiGo_plain _ _ h, stripAnsiGo_reset]

theorem strip_wrap_red (s b : Bytes) (h : (27 : UInt8) ∉ s) :
    stripAnsiGo false (wrap true cRed s ++ b) = s ++ stripAnsiGo false b := by
  rw [wrap_true_of_noEsc _ _ h, List.append_assoc, List.append_assoc, stripAnsiGo_red, stripAnsiGo_plain _ _ h, stripAnsiGo_reset]

theorem wrap_false (c s : Bytes) : wrap false c s = s := by simp [wrap]

/-- the ` (Ignored: …)` part -/
theorem strip_ignoredPart (fmt : Bool) (i : Nat) (b : Bytes) :
    stripAnsiGo false ((if i > 0 then ascii " (Ignored: " ++ wrap true cRed (hui fmt i) ++ ascii ")" else []) ++ b) =
      (if i > 0 then ascii " (Ignored: " ++ wrap false cRed (hui fmt i) ++ ascii ")" else []) ++ stripAnsiGo false b := by
  split
  · rw [wrap_false, List.append_assoc, List.append_assoc, stripAnsiGo_plain _ _ lit_noEsc_ignored,
      strip_wrap_red _ _ (esc_not_num (hui_allNum fmt i)), stripAnsiGo_plain _ _ lit_noEsc_paren]
    simp only [List.append_assoc]
  · rfl

/-- the ` (Errors: …)` part -/
theorem strip_errorsPart (fmt : Bool) (e : Nat) (b : Bytes) :
    stripAnsiGo false ((if e > 0 then 32 :: wrap true cRed (ascii "(Errors: " ++ hui fmt e ++ ascii ")") else []) ++ b) =
      (if e > 0 then 32 :: wrap false cRed (ascii "(Errors: " ++ hui fmt e ++ ascii ")") else []) ++ stripAnsiGo false b := by
  have he : (27 : UInt8) ∉ ascii "(Errors: " ++ hui fmt e ++ ascii ")" := by
    simp only [List.mem_append, not_or]
    exact ⟨⟨lit_noEsc_errors, esc_not_num (hui_allNum fmt e)⟩, lit_noEsc_paren⟩
  split
  · rw [wrap_false, List.cons_append]
    simp only [stripAnsiGo, show ((32 : UInt8) = 27) = False by decide, if_false]
    rw [strip_wrap_red _ _ he]
    simp
  · rfl

/-- the displayed text of the coloured summary is the uncoloured summary -/
theorem stripAnsi_extractorSummary (fmt : Bool) (m r i e : Nat) (parts : List Bytes) (hp : ∀ p ∈ parts, (27 : UInt8) ∉ p) :
    stripAnsi (extractorSummary fmt true m r i e parts) = extractorSummary fmt false m r i e parts := by
  have hm := esc_not_num (hui_allNum fmt m)
  have hr := esc_not_num (hui_allNum fmt r)
  have hparts := parts_noEsc parts hp
  unfold stripAnsi extractorSummary matchSummary
  rw [← List.append_nil (_ ++ (if e > 0 then _ else []))]
  simp only [List.append_assoc]
  rw [stripAnsiGo_plain _ _ lit_noEsc_matched, strip_wrap_green _ _ hm, stripAnsiGo_plain _ _ lit_noEsc_slash,
    strip_wrap_white _ _ hr, stripAnsiGo_plain _ _ hparts]
  have h1 := strip_ignoredPart fmt i
  have h2 := strip_errorsPart fmt e []
  simp only [List.append_assoc] at h1 h2
  rw [h1, h2]
  simp [wrap_false, stripAnsiGo]

/-- … and the uncoloured summary has nothing to strip -/
theorem stripAnsi_extractorSummary_plain (fmt : Bool) (m r i e : Nat) (parts : List Bytes) (hp : ∀ p ∈ parts, (27 : UInt8) ∉ p) :
    stripAnsi (extractorSummary fmt false m r i e parts) = extractorSummary fmt false m r i e parts := by
  apply stripAnsi_plain
  have w0 : ∀ c s, wrap false c s = s := fun c s => by simp [wrap]
  simp only [extractorSummary, matchSummary, w0, List.mem_append, not_or]
  refine ⟨⟨⟨⟨⟨⟨lit_noEsc_matched, esc_not_num (hui_allNum fmt m)⟩, lit_noEsc_slash⟩, esc_not_num (hui_allNum fmt r)⟩,
    parts_noEsc parts hp⟩, ?_⟩, ?_⟩
  · split
    · simp only [List.mem_append, not_or]
      exact ⟨⟨lit_noEsc_ignored, esc_not_num (hui_allNum fmt i)⟩, lit_noEsc_paren⟩
    · simp
  · split
    · simp only [List.mem_cons, List.mem_append, not_or]
      exact ⟨by decide, ⟨lit_noEsc_errors, esc_not_num (hui_allNum fmt e)⟩, lit_noEsc_paren⟩
    · simp

end Rare.C01
