import Rare.Proofs.C11Str
import Rare.Proofs.C11Float
/-! C11 round 4: call lemmas for the remaining string / logic / type helpers, path facts.  Core Lean only. -/
namespace Rare.C11
open Rare Rare.Expr Rare.Expr.Funcs

/-! ### len, like / prefix / suffix, isint -/

theorem len_call (c : Ctx) (a : Arg) : callHelper Strings.kfLen [a] c = .ok (itoa ((a.val c).length : Int)) := by
  simp only [callHelper, Strings.kfLen, List.map, ok, run_bind, Arg.run_stage]; rfl

theorem test_call (test : Bytes → Bytes → Bool) (c : Ctx) (a b : Arg) :
    callHelper (Strings.testHelper test) [a, b] c = .ok (if test (a.val c) (b.val c) then a.val c else []) := by
  simp only [callHelper, Strings.testHelper, List.map, ok, run_bind, Arg.run_stage]; rfl

theorem isint_call (c : Ctx) (a : Arg) :
    callHelper Arith.kfIsInt [a] c = .ok (if (atoi (a.val c)).isSome then TruthyVal else FalsyVal) := by
  simp only [callHelper, Arith.kfIsInt, List.map, ok, run_bind, Arg.run_stage]; rfl

/-- `strings.Contains` is "occurs as a contiguous block". -/
theorem containsB_iff (sub : Bytes) : ∀ s : Bytes, Strings.containsB s sub = true ↔ sub <:+: s
  | [] => by
    simp only [Strings.containsB, List.isEmpty_iff]
    constructor
    · intro h; subst h; exact List.infix_refl _
    · intro h; exact List.eq_nil_of_infix_nil h
  | b :: r => by
    simp only [Strings.containsB, Bool.or_eq_true, List.isPrefixOf_iff_prefix, containsB_iff sub r]
    exact List.infix_cons_iff.symm

/-! ### coalesce, switch, tab -/

/-- `{coalesce …}`: the first non-empty value. -/
def coalesceSpec : List Bytes → Bytes
  | [] => []
  | v :: rest => if v ≠ [] then v else coalesceSpec rest

theorem coalesce_go_run (c : Ctx) : ∀ as : List Arg,
    (Logic.kfCoalesce.go (as.map Arg.stage)).run c = .ok (coalesceSpec (as.map (Arg.val c)))
  | [] => rfl
  | a :: rest => by
    simp only [List.map_cons, Logic.kfCoalesce.go, run_bind, Arg.run_stage, coalesceSpec]
    by_cases h : a.val c = []
    · simp only [h, ne_eq, not_true_eq_false, if_false]; exact coalesce_go_run c rest
    · simp only [h, ne_eq, not_false_eq_true, if_true]; rfl

theorem coalesce_call (c : Ctx) (as : List Arg) :
    callHelper Logic.kfCoalesce as c = .ok (coalesceSpec (as.map (Arg.val c))) := by
  simp only [callHelper, Logic.kfCoalesce, ok]; exact coalesce_go_run c as

/-- `{switch c₁ v₁ c₂ v₂ … [default]}`: the value after the first truthy condition, else the default, else "". -/
def switchSpec : List Bytes → Bytes
  | [] => []
  | [d] => d
  | cnd :: v :: rest => if truthy cnd then v else switchSpec rest

theorem switch_go_run (c : Ctx) : ∀ as : List Arg,
    (Logic.kfSwitch.go (as.map Arg.stage)).run c = .ok (switchSpec (as.map (Arg.val c)))
  | [] => rfl
  | [d] => by simp only [List.map, Logic.kfSwitch.go, Arg.run_stage, switchSpec]
  | cnd :: v :: rest => by
    simp only [List.map_cons, Logic.kfSwitch.go, run_bind, Arg.run_stage, switchSpec]
    cases truthy (cnd.val c)
    · simp only [Bool.false_eq_true, if_false]; exact switch_go_run c rest
    · simp only [if_true, Arg.run_stage]

theorem switch_call (c : Ctx) (as : List Arg) (h : 2 ≤ as.length) :
    callHelper Logic.kfSwitch as c = .ok (switchSpec (as.map (Arg.val c))) := by
  have : ¬ ((as.map Arg.stage).length ≤ 1) := by rw [List.length_map]; omega
  simp only [callHelper, Logic.kfSwitch, this, if_false, ok]
  exact switch_go_run c as

/-- The values joined by a delimiter. -/
def joinSpec (delim : Bytes) : List Bytes → Bytes
  | [] => []
  | [v] => v
  | v :: rest => v ++ delim ++ joinSpec delim rest

theorem joinRun_run (delim : Bytes) (c : Ctx) : ∀ as : List Arg,
    (Strings.joinRun delim (as.map Arg.stage)).run c = .ok ((as.map (Arg.val c)).flatMap (delim ++ ·))
  | [] => rfl
  | a :: rest => by
    simp only [List.map_cons, Strings.joinRun, run_bind, Arg.run_stage, joinRun_run delim c rest,
      List.flatMap_cons, List.append_assoc]; rfl

theorem joinSpec_cons (delim v : Bytes) : ∀ rest : List Bytes,
    joinSpec delim (v :: rest) = v ++ rest.flatMap (delim ++ ·)
  | [] => by simp [joinSpec]
  | w :: r => by
    rw [joinSpec, joinSpec_cons delim w r]
    · simp [List.flatMap_cons, List.append_assoc]
    · intro h; cases h

theorem join_call (delim : Bytes) (c : Ctx) (as : List Arg) :
    callHelper (Strings.kfJoin delim) as c = .ok (joinSpec delim (as.map (Arg.val c))) := by
  match as with
  | [] => rfl
  | [a] => simp only [callHelper, Strings.kfJoin, List.map, ok, Arg.run_stage, joinSpec]
  | a :: b :: rest =>
    have := joinRun_run delim c (b :: rest)
    simp only [callHelper, Strings.kfJoin, List.map_cons, ok, run_bind, Arg.run_stage]
    simp only [List.map_cons] at this
    rw [this, joinSpec_cons]; rfl

/-! ### path helpers -/

theorem mem_takeWhile_sat {α : Type} (q : α → Bool) : ∀ (l : List α) (b : α), b ∈ l.takeWhile q → q b = true
  | [], _, h => by cases h
  | x :: r, b, h => by
    rw [List.takeWhile_cons] at h
    by_cases hx : q x = true
    · rw [if_pos hx] at h
      rcases List.mem_cons.mp h with e | e
      · subst e; exact hx
      · exact mem_takeWhile_sat q r b e
    · rw [if_neg hx] at h; cases h

theorem lastElem_no_slash (p : Bytes) : ∀ b ∈ Misc.lastElem p, b ≠ 47 := by
  intro b hb
  unfold Misc.lastElem at hb
  rw [List.mem_reverse] at hb
  have := mem_takeWhile_sat _ _ _ hb
  simpa using this

/-- `filepath.Base` is never empty, and contains a separator only when it is the root `/`. -/
theorem pathBase_facts (p : Bytes) :
    Misc.pathBase p ≠ [] ∧ (47 ∈ Misc.pathBase p → Misc.pathBase p = [47]) := by
  unfold Misc.pathBase
  by_cases h : p.isEmpty = true
  · simp [h]
  · simp only [h, Bool.false_eq_true, if_false]
    by_cases h2 : (Misc.lastElem (Misc.stripTrailingSlashes p)).isEmpty = true
    · simp [h2]
    · simp only [h2, Bool.false_eq_true, if_false]
      refine ⟨by simpa [List.isEmpty_iff] using h2, fun hm => ?_⟩
      exact absurd rfl (lastElem_no_slash _ 47 hm)

/-- The scan of `filepath.Ext` (from the end of the path): either nothing, or the dot-free, slash-free tail
    behind the last dot of the last element, with that dot. -/
theorem extLoop_spec : ∀ (r acc : Bytes),
    Misc.extLoop r acc = [] ∨
    ∃ k rest, r = k ++ 46 :: rest ∧ (∀ b ∈ k, b ≠ 46 ∧ b ≠ 47) ∧ Misc.extLoop r acc = 46 :: (k.reverse ++ acc)
  | [], _ => .inl rfl
  | ch :: r, acc => by
    unfold Misc.extLoop
    by_cases h1 : (ch == 47) = true
    · left; simp [h1]
    · by_cases h2 : (ch == 46) = true
      · right
        have e : ch = 46 := by simpa using h2
        subst e
        refine ⟨[], r, rfl, by simp, ?_⟩
        simp
      · simp only [h1, h2, Bool.false_eq_true, if_false]
        rcases extLoop_spec r (ch :: acc) with h | ⟨k, rest, hr, hk, he⟩
        · left; exact h
        · right
          refine ⟨ch :: k, rest, by rw [hr]; rfl, ?_, ?_⟩
          · intro b hb
            rcases List.mem_cons.mp hb with e | e
            · subst e; exact ⟨by simpa using h2, by simpa using h1⟩
            · exact hk b e
          · rw [he]; simp

/-- `filepath.Ext p` is empty, or it is a suffix `.xyz` of `p` whose tail holds neither `.` nor `/`. -/
theorem pathExt_facts (p : Bytes) :
    Misc.pathExt p = [] ∨
    ∃ pre k, p = pre ++ 46 :: k ∧ Misc.pathExt p = 46 :: k ∧ ∀ b ∈ k, b ≠ 46 ∧ b ≠ 47 := by
  unfold Misc.pathExt
  rcases extLoop_spec p.reverse [] with h | ⟨k, rest, hr, hk, he⟩
  · left; exact h
  · right
    refine ⟨rest.reverse, k.reverse, ?_, by rw [he]; simp, fun b hb => hk b (List.mem_reverse.mp hb)⟩
    have := congrArg List.reverse hr
    simpa using this

/-! ### the dispatch table of `funcs.go`, as the model reads it -/

/-- Which builder (and which Go operator) each C11 helper name is bound to in `stdlib.StandardFunctions`. -/
def c11Dispatch : List (String × String) := [
  ("sumi", "arithmaticHelperi(a + b)"), ("subi", "arithmaticHelperi(a - b)"), ("multi", "arithmaticHelperi(a * b)"),
  ("divi", "arithmaticHelperiChecked(if b == 0;0,false;a / b,true)"),
  ("modi", "arithmaticHelperiChecked(if b == 0;0,false;a % b,true)"),
  ("maxi", "arithmaticHelperi(if a > b;a;b)"), ("mini", "arithmaticHelperi(if a < b;a;b)"),
  ("sumf", "arithmaticHelperf(a + b)"), ("subf", "arithmaticHelperf(a - b)"),
  ("multf", "arithmaticHelperf(a * b)"), ("divf", "arithmaticHelperf(a / b)"),
  ("ceil", "unaryArithmaticHelperfi(int64(math.Ceil(f)))"), ("floor", "unaryArithmaticHelperfi(int64(math.Floor(f)))"),
  ("sqrt", "unaryArithmaticHelperf(math.Sqrt)"), ("round", "kfRound"),
  ("lt", "arithmaticEqualityHelper(a < b)"), ("gt", "arithmaticEqualityHelper(a > b)"),
  ("lte", "arithmaticEqualityHelper(a <= b)"), ("gte", "arithmaticEqualityHelper(a >= b)"),
  ("eq", "stringComparator(if a == b;TruthyVal;FalsyVal)"), ("neq", "stringComparator(if a != b;TruthyVal;FalsyVal)"),
  ("not", "kfNot"), ("and", "kfAnd"), ("or", "kfOr"), ("if", "kfIf"), ("unless", "kfUnless"), ("switch", "kfSwitch"),
  ("coalesce", "kfCoalesce"), ("isint", "kfIsInt"), ("isnum", "kfIsNum"),
  ("bucket", "kfBucket"), ("bucketrange", "kfBucketRange"), ("clamp", "kfClamp"), ("expbucket", "kfExpBucket"),
  ("len", "kfLen"), ("like", "kfLike"), ("prefix", "kfPrefix"), ("suffix", "kfSuffix"), ("format", "kfFormat"),
  ("substr", "kfSubstr"), ("select", "kfSelect"), ("upper", "kfUpper"), ("lower", "kfLower"),
  ("tab", "kfJoin('\\t')"), ("$", "kfJoin(ArraySeparator)"), ("@", "kfJoin(ArraySeparator)"),
  ("basename", "kfPathBase"), ("dirname", "kfPathDir"), ("extname", "kfPathExt"),
  ("lookup", "kfLookupKey"), ("haskey", "kfHasKey"), ("csv", "kfCsv"),
  ("hi", "kfHumanizeInt"), ("hf", "kfHumanizeFloat"), ("bytesize", "kfBytesize"), ("bytesizesi", "kfBytesizeSi"),
  ("downscale", "kfDownscale"), ("percent", "kfPercent")]

def dispatchLookup (t : List (String × String)) (n : String) : Option String := (t.find? (·.1 == n)).map (·.2)

end Rare.C11
