import Rare.Proofs.C08Arith
import Rare.Proofs.C08Strings
import Rare.Proofs.C08Math
import Rare.Model.Expr.Std
/-!
C08 for the seven helpers whose model stops at a library call it does not compute (`pow`, `log10`, `log2`, `ln`:
`math.Pow` / `math.Log*`; `upper`, `lower`: the Unicode case tables on non-ASCII input; `!`: the float64 rendering of
a formula value).  They are outside `safeTable` (as are, by name only, `bytesize` `bytesizesi` `downscale`, whose
registered builder is the fully safe binary64 one of `Funcs/Float.lean`).  What IS proved about them here: on argument expressions that cannot panic the builder never fails at
compile time, and in the stage it returns the ONLY stopping points are the explicit `unmodelled:` markers – every
arity check, constant-argument evaluation, number parse and error marker in front of the library call is panic-free
for all inputs.  (`Rare/Drv/Expr.lean` prints such a marker as `unmodelled …`, where the oracle of the
correspondence is "the real code returned".)
-/
namespace Rare.C08
open Rare Rare.Expr Rare.Expr.Funcs

/-- No panic node other than an `unmodelled:…` marker is reachable. -/
inductive SafeU {α : Type} : Comp α → Prop
  | ret (a : α) : SafeU (.ret a)
  | getMatch (i : Int) (k : Bytes → Comp α) : (∀ b, SafeU (k b)) → SafeU (.getMatch i k)
  | getKey (s : Bytes) (k : Bytes → Comp α) : (∀ b, SafeU (k b)) → SafeU (.getKey s k)
  | marker (m : String) : (∃ w, m = "unmodelled:" ++ w) → SafeU (.panic m)

theorem SafeU.ofSafe {α : Type} {c : Comp α} (h : Safe c) : SafeU c := by
  induction h with
  | ret a => exact .ret a
  | getMatch i k _ ih => exact .getMatch _ _ ih
  | getKey s k _ ih => exact .getKey _ _ ih

theorem SafeU.bind {α β : Type} {c : Comp α} {f : α → Comp β} (h : Safe c) (hf : ∀ a, SafeU (f a)) :
    SafeU (c >>= f) := by
  show SafeU (c.bind f)
  induction h with
  | ret a => exact hf a
  | getMatch i k _ ih => exact .getMatch _ _ ih
  | getKey s k _ ih => exact .getKey _ _ ih

theorem SafeU.ofSafeMod {α : Type} {c : Comp α} (h : Math.SafeMod c) : SafeU c := by
  induction h with
  | ret a => exact .ret a
  | getMatch i k _ ih => exact .getMatch _ _ ih
  | getKey s k _ ih => exact .getKey _ _ ih
  | marker m hm =>
    obtain ⟨w, rfl⟩ := hm
    exact .marker _ ⟨"!" ++ w, by rw [← String.append_assoc]; rfl⟩

/-- A stage of a `SafeU` computation evaluated in a context returns or stops at an `unmodelled:` marker. -/
theorem SafeU.run {α : Type} {c : Comp α} (h : SafeU c) (ctx : Ctx) :
    (∃ v, c.run ctx = .ok v) ∨ (∃ w, c.run ctx = .error ("unmodelled:" ++ w)) := by
  induction h with
  | ret a => exact .inl ⟨a, rfl⟩
  | getMatch i k _ ih => exact ih _
  | getKey s k _ ih => exact ih _
  | marker m hm => obtain ⟨w, rfl⟩ := hm; exact .inr ⟨w, rfl⟩

/-- On safe arguments: no compile-time failure, and a stage that stops only at `unmodelled:` markers. -/
def SafeUBuilder (b : Builder) : Prop :=
  ∀ args : List Stage, (∀ a ∈ args, Safe a) →
    ∃ built, b args = .ok built ∧ ∀ s, built.stage = some s → SafeU s

theorem safeU_ok {s : Stage} (h : SafeU s) : ∃ built, ok s = .ok built ∧ ∀ s', built.stage = some s' → SafeU s' :=
  ⟨⟨some s, none⟩, rfl, fun s' h' => by cases h'; exact h⟩

theorem safeU_ofResult {r : Except String Built} (h : SafeResult r) :
    ∃ built, r = .ok built ∧ ∀ s, built.stage = some s → SafeU s := by
  obtain ⟨b, e, hs⟩ := h
  exact ⟨b, e, fun s h' => SafeU.ofSafe (hs s h')⟩

theorem unmodelledStage_safeU (why : String) : SafeU (Float.unmodelledStage why) := .marker _ ⟨why, rfl⟩

theorem floatRunU_safeU (why : String) (typed : List (Comp (Option F64))) (h : ∀ t ∈ typed, Safe t) :
    SafeU (Float.floatRunU why typed) := by
  cases typed with
  | nil => exact .ret _
  | cons t rest =>
    unfold Float.floatRunU
    apply SafeU.bind (h t (by simp))
    intro v
    cases v with
    | none => exact .ret _
    | some x =>
      cases rest with
      | nil => exact unmodelledStage_safeU why
      | cons t2 r2 =>
        apply SafeU.bind (h t2 (by simp))
        intro w
        cases w with
        | none => exact .ret _
        | some y => exact unmodelledStage_safeU why

theorem floatHelperU_safeU (why : String) : SafeUBuilder (Float.floatHelperU why) := by
  intro args h
  unfold Float.floatHelperU
  split
  · exact safeU_ofResult SafeResult.errArgCount
  · rcases mapTypedArgs_safe Float.parseF args h with e | ⟨ts, e, hts⟩
    · rw [e]; exact safeU_ofResult SafeResult.errNum
    · rw [e]; exact safeU_ok (floatRunU_safeU why ts hts)

theorem unaryU_safeU (why : String) : SafeUBuilder (Float.unaryU why) := by
  intro args h
  unfold Float.unaryU
  split
  · rename_i a
    apply safeU_ok
    apply SafeU.bind (h a (by simp))
    intro v
    cases Float.parseF v with
    | none => exact .ret _
    | some x => exact unmodelledStage_safeU why
  · exact safeU_ofResult SafeResult.errArgCount

theorem caseHelper_safeU (f : UInt8 → UInt8) : SafeUBuilder (Strings.caseHelper f) := by
  intro args h
  unfold Strings.caseHelper
  split
  · rename_i a
    apply safeU_ok
    apply SafeU.bind (h a (by simp))
    intro v
    split
    · exact .ret _
    · exact .marker _ ⟨"non-ascii-case", rfl⟩
  · exact safeU_ofResult SafeResult.errArgCount

theorem safeU_of_safeBuilder {b : Builder} (h : SafeBuilder b) : SafeUBuilder b := by
  intro args ha
  obtain ⟨built, e, hs⟩ := h args ha
  exact ⟨built, e, fun s h' => SafeU.ofSafe (hs s h')⟩

theorem kfMath_safeU : SafeUBuilder Math.kfMath := by
  intro args h
  obtain ⟨b, e, hs⟩ := Math.kfMath_safeMod args h
  exact ⟨b, e, fun s h' => SafeU.ofSafeMod (hs s h')⟩

end Rare.C08
