import Rare.Proofs.C07Split
/-! Counter (counter.go): the state after a history is the fold of the parsed history. -/
namespace Rare.C07

theorem Counter.sample_eq (c : Counter) (e : Bytes) :
    c.sample e = match (parseCounter e).inc with
      | none => { c with errors := c.errors + 1 }
      | some n => c.sampleValue (parseCounter e).k1 n := by
  obtain ⟨a0, a1, b1, -, -⟩ := splitter_fields nul e (by simp [nul])
  unfold Counter.sample parseCounter
  simp only [a0, a1, b1]
  have hne := splitOn_ne_nil nul e
  rcases hs : splitOn nul e with _ | ⟨k, _ | ⟨v, rest⟩⟩
  · exact absurd hs hne
  · simp
  · simp only [List.headD_cons, List.tail_cons, List.isEmpty_cons, Bool.not_false, if_true]
    cases atoi v <;> rfl

theorem total_wrap (sel : Parsed → Bool) (h : List Parsed) : wrap64 (total sel h) = total sel h := by
  simp [Rare.C07.total, wrap64_idem]

theorem total_snoc_skip (sel : Parsed → Bool) (hp : List Parsed) (p : Parsed) (h : incIf sel p = 0) :
    total sel (hp ++ [p]) = total sel hp := by
  rw [total_snoc, h, Int.add_zero, total_wrap]

theorem incIf_none (sel : Parsed → Bool) (p : Parsed) (h : p.inc = none) : incIf sel p = 0 := by
  simp [incIf, h]

/-- Invariant tying a counter to a parsed history. -/
structure CounterInv (c : Counter) (hp : List Parsed) : Prop where
  items : ∀ k, aget c.items k = if present (selKey k) hp then some (total (selKey k) hp) else none
  total : c.total = total selAll hp
  errors : c.errors = errorCount hp

theorem counterInv_init : CounterInv {} [] := by
  constructor <;> simp [present, Rare.C07.total, sumBy, errorCount, wrap64_zero]

theorem counterInv_step (c : Counter) (hp : List Parsed) (e : Bytes) (h : CounterInv c hp) :
    CounterInv (c.sample e) (hp ++ [parseCounter e]) := by
  rw [Counter.sample_eq]
  cases hi : (parseCounter e).inc with
  | none =>
    constructor
    · intro k; simp [present_snoc, total_snoc_skip _ _ _ (incIf_none _ _ hi), hi, h.items k]
    · simp [total_snoc_skip _ _ _ (incIf_none _ _ hi), h.total]
    · simp [errorCount_snoc, hi, h.errors]
  | some n =>
    constructor
    · intro k
      simp only [Counter.sampleValue, aget_aset, present_snoc, total_snoc, incIf, hi, Option.isSome_some, Bool.true_and]
      by_cases hk : (parseCounter e).k1 = k
      · have : selKey k (parseCounter e) = true := by simp [selKey, hk]
        simp only [hk, this, if_true, Bool.or_true]
        rw [h.items k]
        by_cases hp' : present (selKey k) hp = true
        · simp [hp']
        · have hp'' : present (selKey k) hp = false := by simpa using hp'
          simp [hp'', total_of_not_present _ _ hp'']
      · have : selKey k (parseCounter e) = false := by simp [selKey, hk]
        simp only [hk, this, if_false, Bool.or_false]
        rw [h.items k]
        simp [total_wrap]
    · simp [Counter.sampleValue, total_snoc, incIf, hi, selAll, h.total]
    · simp [Counter.sampleValue, errorCount_snoc, hi, h.errors]

theorem counterInv_foldl (l : List Bytes) (c : Counter) (hp : List Parsed) (h : CounterInv c hp) :
    CounterInv (l.foldl Counter.sample c) (hp ++ l.map parseCounter) := by
  induction l generalizing c hp with
  | nil => simpa using h
  | cons e l ih =>
    have := ih _ _ (counterInv_step c hp e h)
    simpa [List.append_assoc] using this

theorem counterInv_run (h : List Bytes) : CounterInv (Counter.run h) (h.map parseCounter) := by
  have := counterInv_foldl h {} [] counterInv_init
  simpa [Counter.run] using this

end Rare.C07
