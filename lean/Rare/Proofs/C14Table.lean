import Rare.Proofs.C14Layout
import Rare.Proofs.C20Utf8
/-!
Visible width of a padded table cell (`TableWriter.writeRow`): the key step of column alignment.
-/
namespace Rare.C14
open Rare Rare.C20

/-- state of the `StrLen` scanner (inside a colour sequence?) after some runes -/
def codeState : Bool → List Nat → Bool
  | st, [] => st
  | st, r :: rest => if r = 27 then codeState true rest else if st && r = 109 then codeState false rest else codeState st rest

theorem strLenGo_append (a b : List Nat) : ∀ (st : Bool) (n : Nat),
    strLenGo st (a ++ b) n = strLenGo (codeState st a) b (strLenGo st a n) := by
  induction a with
  | nil => intro st n; rfl
  | cons r rest ih =>
    intro st n
    simp only [List.cons_append, strLenGo, codeState]
    by_cases h1 : r = 27
    · simp [h1, ih]
    · by_cases h2 : (st && r = 109) = true
      · simp only [h1, if_false, h2, if_true]; exact ih _ _
      · simp only [h1, if_false, h2]
        cases st <;> simp [ih]

theorem strLenGo_blanks (k n : Nat) : strLenGo false (List.replicate k 32) n = n + k := by
  induction k generalizing n with
  | zero => rfl
  | succ k ih =>
    simp only [List.replicate_succ, strLenGo]
    simp [ih]; omega

/-- the text does not end inside a colour sequence -/
def Terminated (env : Env) (c : Bytes) : Prop := env.color = true → codeState false (decodeUtf8 c) = false

theorem decode_blanks (k : Nat) : decodeUtf8 (List.replicate k (32 : UInt8)) = List.replicate k 32 := by
  rw [decodeUtf8_of_ascii _ (by intro x hx; rw [List.eq_of_mem_replicate hx]; decide)]
  simp

/-- a cell padded by `writeRow` to width `w ≥ StrLen(cell)` plus the separating blank is exactly
`w + 1` cells wide, whatever the cell contains (multi-byte, colour sequences) -/
theorem padded_width (env : Env) (c : Bytes) (w : Int) (hw : strLen env c ≤ w) (hc : Clean c) (ht : Terminated env c) :
    strLen env (c ++ spaces (w - strLen env c) ++ [32]) = w + 1 := by
  have hn := strLen_nonneg env c
  have hpad : c ++ spaces (w - strLen env c) ++ [32] = c ++ List.replicate ((w - strLen env c).toNat + 1) (32 : UInt8) := by
    simp [spaces, List.replicate_succ', List.append_assoc]
  rw [hpad]
  unfold strLen at *
  rw [hc, decode_blanks]
  by_cases hcol : env.color
  · have ht' := ht hcol
    simp only [hcol, Bool.not_true, Bool.false_eq_true, if_false] at hw hn ⊢
    rw [strLenGo_append, ht', strLenGo_blanks]
    omega
  · simp only [hcol, Bool.not_false, if_true] at hw hn ⊢
    simp only [List.length_append, List.length_replicate]
    omega

end Rare.C14
