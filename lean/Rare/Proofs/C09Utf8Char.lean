import Rare.Proofs.C09Utf8
import Rare.Proofs.C09Loop
/-! C09: UTF-8 glue at the `Char` level – the model's rune lists against Go's strings. -/
namespace Rare.C09
open Rare Rare.Expr
open Rare.C20 (decode1 encodeRune validScalar)

theorem char_validScalar (c : Char) : validScalar c.toNat := by
  have := c.valid
  unfold validScalar
  simp only [Char.toNat, UInt32.isValidChar, Nat.isValidChar] at *
  omega

/-- Lean's `String.utf8EncodeChar` (used by the expression model to turn runes into bytes) is Go's
    `utf8.AppendRune` on scalar values. -/
theorem utf8EncodeChar_eq (c : Char) : String.utf8EncodeChar c = encodeRune c.toNat := by
  have hv := char_validScalar c
  unfold validScalar at hv
  have hc : c.toNat = c.val.toNat := rfl
  rw [hc] at hv ⊢
  unfold String.utf8EncodeChar encodeRune
  simp only []
  generalize c.val.toNat = v at *
  by_cases h1 : v ≤ 0x7f
  · have : v < 0x80 := by omega
    simp [h1, this]
  · by_cases h2 : v ≤ 0x7ff
    · have a1 : ¬ v < 0x80 := by omega
      have a2 : v < 0x800 := by omega
      have e1 : v / 64 % 0x20 + 0xc0 = 0xC0 + v / 64 := by omega
      have e2 : v % 0x40 + 0x80 = 0x80 + v % 64 := by omega
      simp only [h1, h2, a1, a2, if_true, if_false, e1, e2]
    · by_cases h3 : v ≤ 0xffff
      · have a1 : ¬ v < 0x80 := by omega
        have a2 : ¬ v < 0x800 := by omega
        have a3 : ¬ ((0xD800 ≤ v ∧ v < 0xE000) ∨ 0x110000 ≤ v) := by omega
        have a4 : v < 0x10000 := by omega
        have e1 : v / 4096 % 0x10 + 0xe0 = 0xE0 + v / 4096 := by omega
        have e2 : v / 64 % 0x40 + 0x80 = 0x80 + v / 64 % 64 := by omega
        have e3 : v % 0x40 + 0x80 = 0x80 + v % 64 := by omega
        simp only [h1, h2, h3, a1, a2, a3, a4, if_true, if_false, e1, e2, e3]
      · have a1 : ¬ v < 0x80 := by omega
        have a2 : ¬ v < 0x800 := by omega
        have a3 : ¬ ((0xD800 ≤ v ∧ v < 0xE000) ∨ 0x110000 ≤ v) := by omega
        have a4 : ¬ v < 0x10000 := by omega
        have e1 : v / 262144 % 0x08 + 0xf0 = 0xF0 + v / 262144 := by omega
        have e2 : v / 4096 % 0x40 + 0x80 = 0x80 + v / 4096 % 64 := by omega
        have e3 : v / 64 % 0x40 + 0x80 = 0x80 + v / 64 % 64 := by omega
        have e4 : v % 0x40 + 0x80 = 0x80 + v % 64 := by omega
        simp only [h1, h2, h3, a1, a2, a3, a4, if_false, e1, e2, e3, e4]

theorem encodeRunes_eq (cs : List Char) : encodeRunes cs = encodeUtf8 (cs.map Char.toNat) := by
  induction cs with
  | nil => rfl
  | cons c cs ih =>
    have : encodeRunes (c :: cs) = String.utf8EncodeChar c ++ encodeRunes cs := by simp [encodeRunes]
    rw [this, ih, utf8EncodeChar_eq, List.map_cons, encodeUtf8_cons]

theorem utf8_eq_encodeRunes (cs : List Char) : utf8 cs = encodeRunes cs := rfl

theorem map_ofNat_toNat (cs : List Char) : (cs.map Char.toNat).map Char.ofNat = cs := by
  induction cs with
  | nil => rfl
  | cons c cs ih => simp [ih]

/-- `[]rune(string(rs)) = rs`: what `strings.Builder.WriteRune` wrote is read back rune for rune.  This
    is why the model may hand the *rune list* of an argument to the nested `Compile` although the Go code
    passes a string. -/
theorem decodeRunes_encodeRunes (cs : List Char) : decodeRunes (encodeRunes cs) = cs := by
  unfold decodeRunes
  rw [encodeRunes_eq]
  show (Rare.C20.decodeUtf8 (Rare.C20.encodeUtf8 (cs.map Char.toNat))).map Char.ofNat = cs
  rw [Rare.C20.decodeUtf8_encodeUtf8 _ (by
    intro r hr
    obtain ⟨c, _, rfl⟩ := List.mem_map.mp hr
    exact char_validScalar c)]
  exact map_ofNat_toNat cs

theorem toNat_ofNat_valid (r : Nat) (h : validScalar r) : (Char.ofNat r).toNat = r := by
  unfold validScalar at h
  have hv : r.isValidChar := by unfold Nat.isValidChar; omega
  simp [Char.ofNat, hv, Char.ofNatAux, Char.toNat]

theorem map_toNat_ofNat (rs : List Nat) (h : ∀ r ∈ rs, validScalar r) : (rs.map Char.ofNat).map Char.toNat = rs := by
  induction rs with
  | nil => rfl
  | cons r rs ih =>
    simp only [List.map_cons, List.cons.injEq]
    exact ⟨toNat_ofNat_valid r (h r (by simp)), ih fun x hx => h x (by simp [hx])⟩

/-- `string([]rune(s))`: the runes of the model re-encode to what Go's round trip gives – every invalid
    byte has become EF BF BD, everything else is unchanged. -/
theorem encodeRunes_decodeRunes (b : Bytes) : encodeRunes (decodeRunes b) = encodeUtf8 (decodeUtf8 b) := by
  unfold decodeRunes
  rw [encodeRunes_eq, map_toNat_ofNat _ (Rare.C20.decodeUtf8_valid b)]

/-- … and for well-formed input that is the input itself. -/
theorem encodeRunes_decodeRunes_wf (b : Bytes) (h : wellFormed b = true) : encodeRunes (decodeRunes b) = b := by
  rw [encodeRunes_decodeRunes]; exact (wellFormed_iff b).mp h

theorem wellFormed_encodeRunes (cs : List Char) : wellFormed (encodeRunes cs) = true := by
  rw [wellFormed_iff, encodeRunes_eq]
  show Rare.C20.encodeUtf8 (Rare.C20.decodeUtf8 (Rare.C20.encodeUtf8 (cs.map Char.toNat))) = _
  rw [Rare.C20.decodeUtf8_encodeUtf8 _ (by
    intro r hr
    obtain ⟨c, _, rfl⟩ := List.mem_map.mp hr
    exact char_validScalar c)]

end Rare.C09
