import Rare.Model.Pipeline
/-! Invariants, progress and termination of the pipeline LTS. -/
namespace Rare.Pipeline

variable {α : Type}

theorem count_flatMap_set {γ β : Type} [DecidableEq β] (g : γ → List β) :
    ∀ {l : List γ} {i : Nat} {a : γ} (b : γ), l[i]? = some a → ∀ y,
    ((l.set i b).flatMap g).count y + (g a).count y = (l.flatMap g).count y + (g b).count y := by
  intro l
  induction l with
  | nil => intro i a b h; simp at h
  | cons x xs ih =>
    intro i a b h y
    cases i with
    | zero =>
      simp at h; subst h
      simp [List.count_append]; omega
    | succ i =>
      simp at h
      have := ih b h y
      simp [List.count_append]; omega

theorem all_set_of {γ : Type} (p : γ → Bool) {l : List γ} {i : Nat} {b : γ}
    (hall : l.all p = true) (hb : p b = true) : (l.set i b).all p = true := by
  rw [List.all_eq_true] at *
  intro x hx
  rcases List.mem_or_eq_of_mem_set hx with h | h
  · exact hall x h
  · rw [h]; exact hb

theorem not_all_of_getElem {γ : Type} (p : γ → Bool) {l : List γ} {i : Nat} {a : γ}
    (h : l[i]? = some a) (ha : p a = false) : l.all p = false := by
  cases hall : l.all p with
  | false => rfl
  | true =>
    rw [List.all_eq_true] at hall
    have := hall a (List.mem_of_getElem? h)
    rw [ha] at this; cases this

variable [DecidableEq α]

/-- The inductive invariant.  `all` = every input line (of every source). -/
structure Inv (cls : α → Cls) (B K : Nat) (all : List α) (s : St α) : Prop where
  lines : ∀ y, (srcLines s).count y + s.c.flatten.count y + (wTodo s).count y + s.processed.count y = all.count y
  mats : ∀ y, (wAcc s).count y + s.rc.flatten.count y + s.consumed.count y
      = (s.processed.filter (isMatched cls)).count y
  nread : s.nRead = s.processed.length
  nmatched : s.nMatched = (s.processed.filter (isMatched cls)).length
  nignored : s.nIgnored = (s.processed.filter (isIgnored cls)).length
  cclosed : s.cClosed = true → s.srcs.all SrcSt.isDone = true
  rcclosed : s.rcClosed = true → s.workers.all WSt.isExited = true
  consdone : s.consDone = true → s.rcClosed = true ∧ s.rc = []
  exited : s.workers.any WSt.isExited = true → s.cClosed = true ∧ s.c = []
  capC : s.c.length ≤ B
  capRC : s.rc.length ≤ K

theorem inv_init (cls : α → Cls) (B K : Nat) (inputs : List (List (List α))) (W : Nat) :
    Inv cls B K (inputs.flatMap List.flatten) (init inputs W) := by
  refine ⟨?_, ?_, rfl, rfl, rfl, by simp [init], by simp [init], by simp [init], ?_, by simp [init], by simp [init]⟩
  · intro y
    have h1 : srcLines (init inputs W) = inputs.flatMap List.flatten := by
      simp [srcLines, init, List.flatMap_map, SrcSt.lines]
    have h2 : wTodo (init inputs W) = [] := by
      simp [wTodo, init, WSt.todo]
    rw [h1, h2]; simp [init]
  · intro y
    have h2 : wAcc (init inputs W) = [] := by
      simp [wAcc, init, WSt.acc]
    rw [h2]; simp [init]
  · intro h
    simp [init, WSt.isExited] at h

omit [DecidableEq α] in
theorem all_done_of_set {l : List (SrcSt α)} {i : Nat} {a : SrcSt α}
    (h : l[i]? = some a) (ha : a.isDone = false) : l.all SrcSt.isDone = false :=
  not_all_of_getElem _ h ha

omit [DecidableEq α] in
theorem any_set_nonexited {l : List (WSt α)} {i : Nat} {b : WSt α} (hb : b.isExited = false)
    (h : (l.set i b).any WSt.isExited = true) : l.any WSt.isExited = true := by
  rw [List.any_eq_true] at *
  obtain ⟨x, hx, hp⟩ := h
  rcases List.mem_or_eq_of_mem_set hx with h | h
  · exact ⟨x, h, hp⟩
  · rw [h, hb] at hp; cases hp

omit [DecidableEq α] in
theorem any_exited_of_getElem {l : List (WSt α)} {i : Nat} (h : l[i]? = some .exited) :
    l.any WSt.isExited = true := by
  rw [List.any_eq_true]; exact ⟨_, List.mem_of_getElem? h, rfl⟩

theorem inv_step {cls : α → Cls} {R B K : Nat} {all : List α} {s s' : St α}
    (hinv : Inv cls B K all s) (hs : Step cls R B K s s') : Inv cls B K all s' := by
  cases hs with
  | start i bs h hr =>
    refine ⟨?_, hinv.mats, hinv.nread, hinv.nmatched, hinv.nignored, ?_, hinv.rcclosed, hinv.consdone,
      hinv.exited, hinv.capC, hinv.capRC⟩
    · intro y
      have := count_flatMap_set SrcSt.lines (.active bs) h y
      have h0 := hinv.lines y
      simp only [srcLines, wTodo, SrcSt.lines] at *
      omega
    · intro hc
      have := hinv.cclosed hc
      rw [all_done_of_set h rfl] at this; cases this
  | send i b bs h hcap =>
    refine ⟨?_, hinv.mats, hinv.nread, hinv.nmatched, hinv.nignored, ?_, hinv.rcclosed, hinv.consdone,
      ?_, (by simp; omega), hinv.capRC⟩
    · intro y
      have := count_flatMap_set SrcSt.lines (.active bs) h y
      have h0 := hinv.lines y
      simp only [srcLines, wTodo, SrcSt.lines, List.flatten_cons, List.count_append, List.flatten_append,
        List.flatten_nil, List.append_nil] at *
      omega
    · intro hc
      have := hinv.cclosed hc
      rw [all_done_of_set h rfl] at this; cases this
    · intro he
      have := (hinv.exited he).1
      have := hinv.cclosed this
      rw [all_done_of_set h rfl] at this; cases this
  | finish i h =>
    refine ⟨?_, hinv.mats, hinv.nread, hinv.nmatched, hinv.nignored, ?_, hinv.rcclosed, hinv.consdone,
      hinv.exited, hinv.capC, hinv.capRC⟩
    · intro y
      have := count_flatMap_set SrcSt.lines .done h y
      have h0 := hinv.lines y
      simp only [srcLines, wTodo, SrcSt.lines, List.flatten_nil, List.count_nil] at *
      omega
    · intro hc
      have := hinv.cclosed hc
      rw [all_done_of_set h rfl] at this; cases this
  | closeC hall hc =>
    exact ⟨hinv.lines, hinv.mats, hinv.nread, hinv.nmatched, hinv.nignored, fun _ => hall, hinv.rcclosed,
      hinv.consdone, (fun he => by have := (hinv.exited he).1; rw [hc] at this; cases this), hinv.capC, hinv.capRC⟩
  | wrecv j b rest h hc =>
    refine ⟨?_, ?_, hinv.nread, hinv.nmatched, hinv.nignored, hinv.cclosed, ?_, hinv.consdone,
      ?_, (by have := hinv.capC; rw [hc] at this; simp at this; simp; omega), hinv.capRC⟩
    · intro y
      have := count_flatMap_set WSt.todo (.busy b []) h y
      have h0 := hinv.lines y
      rw [hc] at h0
      simp only [srcLines, wTodo, WSt.todo, List.flatten_cons, List.count_append, List.count_nil] at *
      omega
    · intro y
      have := count_flatMap_set WSt.acc (.busy b []) h y
      have h0 := hinv.mats y
      simp only [wAcc, WSt.acc, List.count_nil] at *
      omega
    · intro hr
      have := hinv.rcclosed hr
      rw [not_all_of_getElem _ h rfl] at this; cases this
    · intro he
      have := hinv.exited (any_set_nonexited rfl he)
      rw [hc] at this; simp at this
  | wproc j x todo acc h =>
    have hreadd : ∀ y, ((s.processed ++ [x]).filter (isMatched cls)).count y
        = (s.processed.filter (isMatched cls)).count y + (if cls x = .matched then [x] else []).count y := by
      intro y
      by_cases hm : cls x = .matched <;> simp [List.filter_append, isMatched, hm, List.count_append]
    refine ⟨?_, ?_, by simp [hinv.nread], ?_, ?_, hinv.cclosed, ?_, hinv.consdone,
      ?_, hinv.capC, hinv.capRC⟩
    · intro y
      have := count_flatMap_set WSt.todo (.busy todo (if cls x = .matched then acc ++ [x] else acc)) h y
      have h0 := hinv.lines y
      simp only [srcLines, wTodo, WSt.todo, List.count_cons, List.count_append, List.count_nil] at *
      omega
    · intro y
      have := count_flatMap_set WSt.acc (.busy todo (if cls x = .matched then acc ++ [x] else acc)) h y
      have h0 := hinv.mats y
      rw [hreadd y]
      simp only [wAcc, WSt.acc] at *
      by_cases hm : cls x = .matched <;> simp [hm, List.count_append] at * <;> omega
    · by_cases hm : cls x = .matched <;> simp [List.filter_append, isMatched, hm, hinv.nmatched]
    · by_cases hm : cls x = .ignored <;> simp [List.filter_append, isIgnored, hm, hinv.nignored]
    · intro hr
      have := hinv.rcclosed hr
      rw [not_all_of_getElem _ h rfl] at this; cases this
    · intro he
      exact hinv.exited (any_set_nonexited rfl he)
  | wsend j acc h hne hcap =>
    refine ⟨?_, ?_, hinv.nread, hinv.nmatched, hinv.nignored, hinv.cclosed, ?_, ?_,
      ?_, hinv.capC, (by simp; omega)⟩
    · intro y
      have := count_flatMap_set WSt.todo .idle h y
      have h0 := hinv.lines y
      simp only [srcLines, wTodo, WSt.todo, List.count_nil] at *
      omega
    · intro y
      have := count_flatMap_set WSt.acc .idle h y
      have h0 := hinv.mats y
      simp only [wAcc, WSt.acc, List.count_nil, List.flatten_append, List.flatten_cons, List.flatten_nil,
        List.append_nil, List.count_append] at *
      omega
    · intro hr
      have := hinv.rcclosed hr
      rw [not_all_of_getElem _ h rfl] at this; cases this
    · intro hd
      have := (hinv.consdone hd).1
      have := hinv.rcclosed this
      rw [not_all_of_getElem _ h rfl] at this; cases this
    · intro he
      exact hinv.exited (any_set_nonexited rfl he)
  | wskip j h =>
    refine ⟨?_, ?_, hinv.nread, hinv.nmatched, hinv.nignored, hinv.cclosed, ?_, hinv.consdone,
      ?_, hinv.capC, hinv.capRC⟩
    · intro y
      have := count_flatMap_set WSt.todo .idle h y
      have h0 := hinv.lines y
      simp only [srcLines, wTodo, WSt.todo, List.count_nil] at *
      omega
    · intro y
      have := count_flatMap_set WSt.acc .idle h y
      have h0 := hinv.mats y
      simp only [wAcc, WSt.acc, List.count_nil] at *
      omega
    · intro hr
      have := hinv.rcclosed hr
      rw [not_all_of_getElem _ h rfl] at this; cases this
    · intro he
      exact hinv.exited (any_set_nonexited rfl he)
  | wexit j h hc hcl =>
    refine ⟨?_, ?_, hinv.nread, hinv.nmatched, hinv.nignored, hinv.cclosed, ?_, hinv.consdone,
      fun _ => ⟨hcl, hc⟩, hinv.capC, hinv.capRC⟩
    · intro y
      have := count_flatMap_set WSt.todo .exited h y
      have h0 := hinv.lines y
      simp only [srcLines, wTodo, WSt.todo, List.count_nil] at *
      omega
    · intro y
      have := count_flatMap_set WSt.acc .exited h y
      have h0 := hinv.mats y
      simp only [wAcc, WSt.acc, List.count_nil] at *
      omega
    · intro hr
      have := hinv.rcclosed hr
      rw [not_all_of_getElem _ h rfl] at this; cases this
  | closeRC hall hc =>
    exact ⟨hinv.lines, hinv.mats, hinv.nread, hinv.nmatched, hinv.nignored, hinv.cclosed, fun _ => hall,
      (fun hd => by have := (hinv.consdone hd).1; rw [hc] at this; cases this), hinv.exited, hinv.capC, hinv.capRC⟩
  | crecv m rest hrc hd =>
    refine ⟨hinv.lines, ?_, hinv.nread, hinv.nmatched, hinv.nignored, hinv.cclosed, hinv.rcclosed,
      (fun h => by simp at h; rw [hd] at h; cases h), hinv.exited, hinv.capC,
      (by have := hinv.capRC; rw [hrc] at this; simp at this; simp; omega)⟩
    intro y
    have h0 := hinv.mats y
    rw [hrc] at h0
    simp only [wAcc, List.flatten_cons, List.count_append] at *
    omega
  | cdone hrc hcl hd =>
    exact ⟨hinv.lines, hinv.mats, hinv.nread, hinv.nmatched, hinv.nignored, hinv.cclosed, hinv.rcclosed,
      fun _ => ⟨hcl, hrc⟩, hinv.exited, hinv.capC, hinv.capRC⟩

theorem inv_reach {cls : α → Cls} {R B K : Nat} {all : List α} {s0 s : St α}
    (h0 : Inv cls B K all s0) (hr : Reach cls R B K s0 s) : Inv cls B K all s := by
  induction hr with
  | refl => exact h0
  | step _ hs ih => exact inv_step ih hs

/-! ### termination: a strictly decreasing measure -/

omit [DecidableEq α] in
theorem sum_map_set {γ : Type} (f : γ → Nat) : ∀ {l : List γ} {i : Nat} {a : γ} (b : γ), l[i]? = some a →
    ((l.set i b).map f).sum + f a = (l.map f).sum + f b := by
  intro l
  induction l with
  | nil => intro i a b h; simp at h
  | cons x xs ih =>
    intro i a b h
    cases i with
    | zero => simp at h; subst h; simp; omega
    | succ i =>
      simp at h; have := ih b h
      simp only [List.set_cons_succ, List.map_cons, List.sum_cons]; omega

def batchW (b : List α) : Nat := 2 * b.length + 4

def srcW : SrcSt α → Nat
  | .waiting bs => 2 + (bs.map batchW).sum
  | .active bs => 1 + (bs.map batchW).sum
  | .done => 0

def wW : WSt α → Nat
  | .idle => 1
  | .busy todo _ => 2 * todo.length + 3
  | .exited => 0

def flag (b : Bool) : Nat := if b then 0 else 1

/-- Number of steps any execution can still take from `s` is at most `measure s`. -/
def measure (s : St α) : Nat :=
  (s.srcs.map srcW).sum + (s.c.map fun b => 2 * b.length + 3).sum + (s.workers.map wW).sum +
  s.rc.length + flag s.cClosed + flag s.rcClosed + flag s.consDone

omit [DecidableEq α] in
theorem step_measure {cls : α → Cls} {R B K : Nat} {s s' : St α} (hs : Step cls R B K s s') :
    measure s' < measure s := by
  cases hs with
  | start i bs h hr =>
    have := sum_map_set srcW (.active bs) h
    simp only [measure, srcW] at *; omega
  | send i b bs h hcap =>
    have := sum_map_set srcW (.active bs) h
    simp only [measure, srcW, List.map_cons, List.sum_cons, batchW, List.map_append, List.sum_append,
      List.map_nil, List.sum_nil] at *
    omega
  | finish i h =>
    have := sum_map_set srcW .done h
    simp only [measure, srcW, List.map_nil, List.sum_nil] at *; omega
  | closeC hall hc => simp [measure, flag, hc]
  | wrecv j b rest h hc =>
    have := sum_map_set wW (.busy b []) h
    simp only [measure, wW, hc, List.map_cons, List.sum_cons] at *; omega
  | wproc j x todo acc h =>
    have := sum_map_set wW (.busy todo (if cls x = .matched then acc ++ [x] else acc)) h
    simp only [measure, wW, List.length_cons] at *; omega
  | wsend j acc h hne hcap =>
    have := sum_map_set wW .idle h
    simp only [measure, wW, List.length_nil, List.length_append, List.length_cons] at *; omega
  | wskip j h =>
    have := sum_map_set wW .idle h
    simp only [measure, wW, List.length_nil] at *; omega
  | wexit j h hc hcl =>
    have := sum_map_set wW .exited h
    simp only [measure, wW] at *; omega
  | closeRC hall hc => simp [measure, flag, hc]
  | crecv m rest hrc hd => simp only [measure, hrc, List.length_cons]; omega
  | cdone hrc hcl hd => simp [measure, flag, hd]

/-! ### progress: while the consumer has not finished, some goroutine can move -/

omit [DecidableEq α] in
theorem exists_of_all_false {γ : Type} (p : γ → Bool) {l : List γ} (h : l.all p = false) :
    ∃ (i : Nat) (a : γ), l[i]? = some a ∧ p a = false := by
  rw [List.all_eq_false] at h
  obtain ⟨x, hx, hp⟩ := h
  obtain ⟨i, hi⟩ := List.getElem?_of_mem hx
  exact ⟨i, x, hi, by simpa using hp⟩

omit [DecidableEq α] in
theorem progress {cls : α → Cls} {R B K : Nat} {s : St α}
    (hR : 1 ≤ R) (hB : 1 ≤ B) (hK : 1 ≤ K) (hd : s.consDone = false) : ∃ s', Step cls R B K s s' := by
  -- consumer side first
  cases hrc : s.rc with
  | cons m rest => exact ⟨_, .crecv s m rest hrc hd⟩
  | nil =>
  cases hrcl : s.rcClosed with
  | true => exact ⟨_, .cdone s hrc hrcl hd⟩
  | false =>
  cases hwall : s.workers.all WSt.isExited with
  | true => exact ⟨_, .closeRC s hwall hrcl⟩
  | false =>
  obtain ⟨j, w, hj, hw⟩ := exists_of_all_false _ hwall
  cases w with
  | exited => simp [WSt.isExited] at hw
  | busy todo acc =>
    cases todo with
    | cons x todo => exact ⟨_, .wproc s j x todo acc hj⟩
    | nil =>
      cases acc with
      | nil => exact ⟨_, .wskip s j hj⟩
      | cons a acc => exact ⟨_, .wsend s j (a :: acc) hj (by simp) (by rw [hrc]; simp; omega)⟩
  | idle =>
  cases hc : s.c with
  | cons b rest => exact ⟨_, .wrecv s j b rest hj hc⟩
  | nil =>
  cases hcl : s.cClosed with
  | true => exact ⟨_, .wexit s j hj hc hcl⟩
  | false =>
  cases hsall : s.srcs.all SrcSt.isDone with
  | true => exact ⟨_, .closeC s hsall hcl⟩
  | false =>
  obtain ⟨i, src, hi, hsrc⟩ := exists_of_all_false _ hsall
  -- is some source active?
  cases hact : (s.srcs.filter SrcSt.isActive) with
  | nil =>
    cases src with
    | done => simp [SrcSt.isDone] at hsrc
    | active bs =>
      have : SrcSt.active bs ∈ s.srcs.filter SrcSt.isActive :=
        List.mem_filter.mpr ⟨List.mem_of_getElem? hi, rfl⟩
      rw [hact] at this; simp at this
    | waiting bs =>
      exact ⟨_, .start s i bs hi (by simp [activeCount, hact]; omega)⟩
  | cons a as =>
    have ha : a ∈ s.srcs.filter SrcSt.isActive := by rw [hact]; simp
    obtain ⟨hmem, hisa⟩ := List.mem_filter.mp ha
    obtain ⟨k, hk⟩ := List.getElem?_of_mem hmem
    cases a with
    | done => simp [SrcSt.isActive] at hisa
    | waiting bs => simp [SrcSt.isActive] at hisa
    | active bs =>
      cases bs with
      | nil => exact ⟨_, .finish s k hk⟩
      | cons b bs => exact ⟨_, .send s k b bs hk (by rw [hc]; simp; omega)⟩

/-! ### what holds once the consumer has finished -/

omit [DecidableEq α] in
theorem step_workers_length {cls : α → Cls} {R B K : Nat} {s s' : St α} (hs : Step cls R B K s s') :
    s'.workers.length = s.workers.length := by
  cases hs <;> simp

omit [DecidableEq α] in
theorem reach_workers_length {cls : α → Cls} {R B K : Nat} {s0 s : St α} (hr : Reach cls R B K s0 s) :
    s.workers.length = s0.workers.length := by
  induction hr with
  | refl => rfl
  | step _ hs ih => rw [step_workers_length hs, ih]

theorem final_state {cls : α → Cls} {B K : Nat} {all : List α} {s : St α} (hinv : Inv cls B K all s)
    (hW : s.workers ≠ []) (hd : s.consDone = true) :
    (∀ y, s.consumed.count y = (all.filter (isMatched cls)).count y) ∧
    s.nRead = all.length ∧
    s.nMatched = (all.filter (isMatched cls)).length ∧
    s.nIgnored = (all.filter (isIgnored cls)).length := by
  obtain ⟨hrcl, hrc⟩ := hinv.consdone hd
  have hwall := hinv.rcclosed hrcl
  rw [List.all_eq_true] at hwall
  have hwT : wTodo s = [] := by
    simp only [wTodo, List.flatMap_eq_nil_iff]
    intro w hw
    have := hwall w hw
    cases w <;> simp_all [WSt.isExited, WSt.todo]
  have hwA : wAcc s = [] := by
    simp only [wAcc, List.flatMap_eq_nil_iff]
    intro w hw
    have := hwall w hw
    cases w <;> simp_all [WSt.isExited, WSt.acc]
  have hperm : s.processed.Perm all := by
    rw [List.perm_iff_count]
    intro y
    cases hws : s.workers with
    | nil => exact absurd hws hW
    | cons w ws =>
      have hany : s.workers.any WSt.isExited = true := by
        rw [hws, List.any_cons, hwall w (by rw [hws]; simp)]; rfl
      obtain ⟨hcl, hc⟩ := hinv.exited hany
      have hsall := hinv.cclosed hcl
      rw [List.all_eq_true] at hsall
      have hsl : srcLines s = [] := by
        simp only [srcLines, List.flatMap_eq_nil_iff]
        intro x hx
        have := hsall x hx
        cases x <;> simp_all [SrcSt.isDone, SrcSt.lines]
      have := hinv.lines y
      rw [hsl, hc, hwT] at this
      simpa using this
  refine ⟨fun y => ?_, ?_, ?_, ?_⟩
  · have := hinv.mats y
    rw [hwA, hrc] at this
    simp at this
    rw [this]
    exact (hperm.filter _).count_eq y
  · rw [hinv.nread]; exact hperm.length_eq
  · rw [hinv.nmatched]; exact (hperm.filter _).length_eq
  · rw [hinv.nignored]; exact (hperm.filter _).length_eq

/-- At every reachable state the matched counter covers everything the consumer has received
    (so a render never shows more matches than the status line reports). -/
theorem matched_ge_consumed {cls : α → Cls} {B K : Nat} {all : List α} {s : St α} (hinv : Inv cls B K all s) :
    s.consumed.length ≤ s.nMatched := by
  have hp : (wAcc s ++ s.rc.flatten ++ s.consumed).Perm (s.processed.filter (isMatched cls)) := by
    rw [List.perm_iff_count]
    intro y
    have := hinv.mats y
    simp only [List.count_append]; omega
  have := hp.length_eq
  rw [hinv.nmatched, ← this]
  simp only [List.length_append]; omega

/-- Every match the consumer ever receives is one of the matched input lines, no more often than it occurs. -/
theorem consumed_le_final {cls : α → Cls} {B K : Nat} {all : List α} {s : St α} (hinv : Inv cls B K all s) (y : α) :
    s.consumed.count y ≤ (all.filter (isMatched cls)).count y := by
  have h1 := hinv.mats y
  have h2 := hinv.lines y
  have h3 : (s.processed.filter (isMatched cls)).count y ≤ (all.filter (isMatched cls)).count y := by
    by_cases hm : isMatched cls y = true
    · rw [List.count_filter hm, List.count_filter hm]; omega
    · have : ∀ l : List α, (l.filter (isMatched cls)).count y = 0 := by
        intro l
        rw [List.count_eq_zero]
        intro hmem
        exact hm (List.mem_filter.mp hmem).2
      rw [this, this]; exact Nat.le_refl _
  omega

end Rare.Pipeline
