import Rare.Proofs.C07Trim
import Rare.Proofs.C07MinMax
/-! Tables built from samples satisfy the hypotheses of the Trim theorems. -/
namespace Rare.C07

theorem present_cell_row (hp : List Parsed) (c r : Bytes) (h : present (selCell c r) hp = true) :
    present (selRow r) hp = true :=
  present_mono _ _ hp (by intro p hp'; simp only [selCell, Bool.and_eq_true] at hp'; simpa [selRow] using hp'.2) h

theorem present_cell_col (hp : List Parsed) (c r : Bytes) (h : present (selCell c r) hp = true) :
    present (selCol c) hp = true :=
  present_mono _ _ hp (by intro p hp'; simp only [selCell, Bool.and_eq_true] at hp'; simpa [selCol] using hp'.1) h

/-- The cells of a table built from samples. -/
theorem cell_of_inv (t : Table) (hp : List Parsed) (h : TableInv t hp) (c r : Bytes) :
    t.cell c r = if present (selCell c r) hp then some (total (selCell c r) hp) else none := by
  unfold Table.cell
  cases hr : aget t.rows r with
  | none =>
    have : present (selRow r) hp = false := by have := h.rowsPresent r; rw [hr] at this; simpa using this.symm
    cases hc : present (selCell c r) hp with
    | false => simp
    | true => rw [present_cell_row hp c r hc] at this; exact Bool.noConfusion this
  | some row => simpa using (h.rows r row hr).cells c

theorem wf_of_inv (t : Table) (hp : List Parsed) (h : TableInv t hp) : t.WF := by
  constructor
  · intro r row hr hnil
    have hpr : present (selRow r) hp = true := by have := h.rowsPresent r; rw [hr] at this; simpa using this.symm
    simp only [present, List.any_eq_true, Bool.and_eq_true] at hpr
    obtain ⟨p, hp1, hp2, hp3⟩ := hpr
    have hc : present (selCell p.k1 r) hp = true := by
      simp only [present, List.any_eq_true, Bool.and_eq_true]
      exact ⟨p, hp1, hp2, by simp only [selRow] at hp3; simp [selCell, hp3]⟩
    have := (h.rows r row hr).cells p.k1
    rw [hc, hnil] at this; simp at this
  · intro c
    rw [h.cols c]
    constructor
    · intro hs
      have hpc : present (selCol c) hp = true := by
        cases hx : present (selCol c) hp with
        | true => rfl
        | false => rw [hx] at hs; simp at hs
      simp only [present, List.any_eq_true, Bool.and_eq_true] at hpc
      obtain ⟨p, hp1, hp2, hp3⟩ := hpc
      refine ⟨p.k2, ?_⟩
      rw [cell_of_inv t hp h]
      have : present (selCell c p.k2) hp = true := by
        simp only [present, List.any_eq_true, Bool.and_eq_true]
        exact ⟨p, hp1, hp2, by simp only [selCol] at hp3; simp [selCell, hp3]⟩
      simp [this]
    · rintro ⟨r, hr⟩
      rw [cell_of_inv t hp h] at hr
      have : present (selCell c r) hp = true := by
        cases hx : present (selCell c r) hp with
        | true => rfl
        | false => rw [hx] at hr; simp at hr
      simp [present_cell_col hp c r this]

/-- Any enumeration of the key sets (e.g. Go's map iteration in any order) covers the table. -/
theorem covers_of_perm (t : Table) (colOrder : List Bytes) (rowOrder : Bytes → List Bytes)
    (hc : colOrder.Perm (akeys t.cols)) (hr : ∀ c, (rowOrder c).Perm (akeys t.rows)) : Covers t colOrder rowOrder := by
  constructor
  · intro c h; exact hc.mem_iff.mpr ((mem_akeys_iff _ _).mpr h)
  · intro c r h; exact (hr c).mem_iff.mpr ((mem_akeys_iff _ _).mpr h)

theorem sumVals_eq_sumBy (m : List (Bytes × Int)) : sumVals m = sumBy (·.2) m := by
  induction m with
  | nil => rfl
  | cons e m ih => obtain ⟨k, v⟩ := e; rw [sumVals_cons, ih]; rfl

theorem sumsOK_of_inv (t : Table) (hp : List Parsed) (h : TableInv t hp) : SumsOK t := by
  intro r row hr
  have ok := h.rows r row hr
  exact ⟨ok.nodup, by rw [sumVals_eq_sumBy]; exact ok.cellsSum.symm⟩

/-- `Sample` keeps a table well-formed whatever its history (so samples and trims can be interleaved). -/
theorem sampleItem_cell (t : Table) (ck rk : Bytes) (inc : Int) (c r : Bytes) :
    (t.sampleItem ck rk inc).cell c r =
      if rk = r then (if ck = c then some (wrap64 ((t.cell c r).getD 0 + inc)) else t.cell c r) else t.cell c r := by
  unfold Table.cell Table.sampleItem
  simp only [aget_aset]
  by_cases hr : rk = r
  · subst hr
    simp only [if_true, Option.bind_some, aget_aset]
    by_cases hc : ck = c
    · subst hc
      cases aget t.rows rk <;> simp
    · cases aget t.rows rk <;> simp [hc]
  · simp [hr]

theorem sampleItem_wf (t : Table) (ck rk : Bytes) (inc : Int) (h : t.WF) : (t.sampleItem ck rk inc).WF := by
  constructor
  · intro r row hr
    simp only [Table.sampleItem, aget_aset] at hr
    by_cases e : rk = r
    · simp only [e, if_true, Option.some.injEq] at hr
      subst hr
      intro hnil
      have := (eq_nil_iff_aget _).mp hnil ck
      simp [aget_aset] at this
    · simp only [e, if_false] at hr
      exact h.rows_nonempty r row hr
  · intro c
    have hcols : (aget (t.sampleItem ck rk inc).cols c).isSome = (decide (ck = c) || (aget t.cols c).isSome) := by
      simp only [Table.sampleItem, aget_aset]
      by_cases e : ck = c <;> simp [e]
    rw [hcols]
    constructor
    · intro hs
      by_cases e : ck = c
      · refine ⟨rk, ?_⟩
        rw [sampleItem_cell]; simp [e]
      · simp only [e, decide_false, Bool.false_or] at hs
        obtain ⟨r, hr⟩ := (h.cols_iff c).mp hs
        refine ⟨r, ?_⟩
        rw [sampleItem_cell]
        by_cases e2 : rk = r <;> simp [e, e2, hr]
    · rintro ⟨r, hr⟩
      rw [sampleItem_cell] at hr
      by_cases e : ck = c
      · simp [e]
      · have : (t.cell c r).isSome := by
          by_cases e2 : rk = r <;> simpa [e, e2] using hr
        simp [(h.cols_iff c).mpr ⟨r, this⟩]

theorem sample_wf (t : Table) (e : Bytes) (h : t.WF) : (t.sample e).WF := by
  unfold Table.sample
  simp only
  split
  · split
    · exact ⟨h.rows_nonempty, h.cols_iff⟩
    · exact sampleItem_wf _ _ _ _ h
  · split <;> exact sampleItem_wf _ _ _ _ h

end Rare.C07

namespace Rare.C07

/-- Tables reachable from `NewTable(d)` by any interleaving of `Sample` and `Trim`
(each `Trim` ranging over its maps in some covering order). -/
inductive Reach (d : Bytes) : Table → Prop
  | init : Reach d { delim := d }
  | sample (t : Table) (e : Bytes) : Reach d t → Reach d (t.sample e)
  | trim (t : Table) (p : Pred) (colOrder : List Bytes) (rowOrder : Bytes → List Bytes) :
      Reach d t → Covers t colOrder rowOrder → Reach d (t.trim p colOrder rowOrder).1

theorem wf_init (d : Bytes) : ({ delim := d } : Table).WF := by
  constructor
  · intro r row h; simp at h
  · intro c; simp [Table.cell]

theorem reach_wf {d : Bytes} {t : Table} (h : Reach d t) : t.WF := by
  induction h with
  | init => exact wf_init d
  | sample t e _ ih => exact sample_wf t e ih
  | trim t p co ro _ hcov ih => exact trim_wf t p co ro ih hcov

end Rare.C07
