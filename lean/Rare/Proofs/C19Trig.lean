import Rare.Proofs.C19F64b
import Rare.Proofs.F64Arith
/-!
C19, round 4c: facts about the mirrored trigonometric functions and `exp2` that hold for ALL operands
(`Model/C19Trig.lean`, `IEEE.exp2`): the special values Go documents, and the symmetries the code has bit for bit
because the sign is split off first (`sin`, `tan`, `atan`, `asin` odd, `cos` even).
-/
set_option linter.unusedSimpArgs false

namespace Rare.C19.Trig
open Rare Rare.F64 Rare.C19.IEEE

/-- Equal bit for bit, or both NaN (every NaN renders as `NaN` and behaves the same in every operator). -/
def Same (a b : F64) : Prop := a = b ∨ (a.isNaN = true ∧ b.isNaN = true)

theorem Same.rfl' (a : F64) : Same a a := Or.inl rfl

theorem neg_neg (x : F64) : neg (neg x) = x := by
  have h : neg (neg x) = ofSM (!(neg x).sign) (neg x).mag := rfl
  rw [h, sign_neg, mag_neg, Bool.not_not, ofSM_sign_mag]

theorem key_neg (x : F64) : (neg x).key = -x.key := by
  unfold key; rw [sign_neg, mag_neg]
  cases x.sign <;> simp

theorem isInf_neg (x : F64) : (neg x).isInf = x.isInf := by
  unfold isInf; rw [mag_neg]

theorem key_zeroP : Trig.zeroP.key = 0 := by decide

theorem eq_neg_zero (x : F64) : F64.eq (neg x) Trig.zeroP = F64.eq x Trig.zeroP := by
  unfold F64.eq; rw [isNaN_neg, key_neg, key_zeroP]
  congr 1
  by_cases h : x.key = 0 <;> simp [h] <;> omega

theorem lt_neg_zero (x : F64) : F64.lt (neg x) Trig.zeroP = F64.lt Trig.zeroP x := by
  unfold F64.lt; rw [isNaN_neg, key_neg, key_zeroP]
  have : Trig.zeroP.isNaN = false := by decide
  rw [this]
  by_cases h : 0 < x.key <;> simp [h] <;> omega

theorem lt_zero_neg (x : F64) : F64.lt Trig.zeroP (neg x) = F64.lt x Trig.zeroP := by
  have := lt_neg_zero (neg x)
  rw [neg_neg] at this
  exact this.symm

/-- A non-NaN value is zero, negative or positive – exactly one. -/
theorem trichotomy (x : F64) (hn : x.isNaN = false) :
    (F64.eq x Trig.zeroP = true ∧ F64.lt x Trig.zeroP = false ∧ F64.lt Trig.zeroP x = false) ∨
    (F64.eq x Trig.zeroP = false ∧ F64.lt x Trig.zeroP = true ∧ F64.lt Trig.zeroP x = false) ∨
    (F64.eq x Trig.zeroP = false ∧ F64.lt x Trig.zeroP = false ∧ F64.lt Trig.zeroP x = true) := by
  unfold F64.eq F64.lt
  have : Trig.zeroP.isNaN = false := by decide
  rw [this, hn, key_zeroP]
  by_cases h1 : x.key = 0
  · left; simp [h1]
  · by_cases h2 : x.key < 0
    · right; left; simp [h1, h2]; omega
    · right; right; simp [h1, h2]; omega

/-! ### `sin`, `tan`: the saved sign only negates the result -/

theorem sinBody_sign (x : F64) (s : Bool) : sinBody x (!s) = neg (sinBody x s) := by
  unfold sinBody
  generalize reduce true x = r
  obtain ⟨j, z⟩ := r
  simp only
  by_cases hj : j > 3 <;> cases s <;> simp [hj, neg_neg]

theorem tanBody_sign (x : F64) (s : Bool) : tanBody x (!s) = neg (tanBody x s) := by
  unfold tanBody
  generalize reduce false x = r
  obtain ⟨j, z⟩ := r
  simp only
  cases s <;> simp [neg_neg]

theorem isNaN_of_same_neg {a : F64} (h : a.isNaN = true) : (neg a).isNaN = true := by rw [isNaN_neg]; exact h

/-- `sin(-x) = -sin(x)` for every operand (NaN: both NaN; ±Inf: both NaN). -/
theorem sin_neg (x : F64) : Same (sin (neg x)) (neg (sin x)) := by
  unfold sin
  rw [eq_neg_zero, isNaN_neg, isInf_neg, lt_neg_zero, neg_neg]
  by_cases hn : x.isNaN = true
  · right; simp [hn, isNaN_neg]
  · have hn' : x.isNaN = false := by simpa using hn
    by_cases hi : x.isInf = true
    · have he : F64.eq x Trig.zeroP = false := by
        rcases trichotomy x hn' with ⟨h, _, _⟩ | ⟨h, _, _⟩ | ⟨h, _, _⟩
        · exfalso
          unfold F64.eq at h; rw [key_zeroP] at h
          unfold isInf at hi; unfold key at h
          have hm : x.mag = InfMag := by simpa using hi
          cases hs : x.sign <;> simp [hs, hm, hn'] at h
        · exact h
        · exact h
      right; simp [he, hn', hi, isNaN_neg, isNaN_nan]
    · have hi' : x.isInf = false := by simpa using hi
      rcases trichotomy x hn' with ⟨h1, h2, h3⟩ | ⟨h1, h2, h3⟩ | ⟨h1, h2, h3⟩
      · left; simp [h1]
      · left; simp [h1, h2, h3, hn', hi']
        have := sinBody_sign (neg x) true
        simpa using this
      · left; simp [h1, h2, h3, hn', hi']
        have := sinBody_sign x false
        simpa using this

/-- `tan(-x) = -tan(x)` for every operand. -/
theorem tan_neg (x : F64) : Same (tan (neg x)) (neg (tan x)) := by
  unfold tan
  rw [eq_neg_zero, isNaN_neg, isInf_neg, lt_neg_zero, neg_neg]
  by_cases hn : x.isNaN = true
  · right; simp [hn, isNaN_neg]
  · have hn' : x.isNaN = false := by simpa using hn
    by_cases hi : x.isInf = true
    · have he : F64.eq x Trig.zeroP = false := by
        rcases trichotomy x hn' with ⟨h, _, _⟩ | ⟨h, _, _⟩ | ⟨h, _, _⟩
        · exfalso
          unfold F64.eq at h; rw [key_zeroP] at h
          unfold isInf at hi; unfold key at h
          have hm : x.mag = InfMag := by simpa using hi
          cases hs : x.sign <;> simp [hs, hm, hn'] at h
        · exact h
        · exact h
      right; simp [he, hn', hi, isNaN_neg, isNaN_nan]
    · have hi' : x.isInf = false := by simpa using hi
      rcases trichotomy x hn' with ⟨h1, h2, h3⟩ | ⟨h1, h2, h3⟩ | ⟨h1, h2, h3⟩
      · left; simp [h1]
      · left; simp [h1, h2, h3, hn', hi']
        have := tanBody_sign (neg x) true
        simpa using this
      · left; simp [h1, h2, h3, hn', hi']
        have := tanBody_sign x false
        simpa using this

theorem abs_neg (x : F64) : F64.abs (neg x) = F64.abs x := by
  unfold F64.abs; rw [mag_neg]

/-- `cos(-x) = cos(x)` bit for bit, for every operand. -/
theorem cos_neg (x : F64) : cos (neg x) = cos x := by
  unfold cos; rw [isNaN_neg, isInf_neg, abs_neg]

/-- `atan(-x) = -atan(x)` bit for bit for every operand that is not NaN. -/
theorem atan_neg (x : F64) (hn : x.isNaN = false) : atan (neg x) = neg (atan x) := by
  unfold atan
  rw [eq_neg_zero, lt_zero_neg, neg_neg]
  rcases trichotomy x hn with ⟨h1, h2, h3⟩ | ⟨h1, h2, h3⟩ | ⟨h1, h2, h3⟩
  · simp [h1]
  · simp [h1, h2, h3, neg_neg]
  · simp [h1, h2, h3]

/-- `asin(-x) = -asin(x)` for every operand that is not NaN (outside [-1, 1]: both NaN). -/
theorem asin_neg (x : F64) (hn : x.isNaN = false) : Same (asin (neg x)) (neg (asin x)) := by
  unfold asin
  rw [eq_neg_zero, lt_neg_zero, neg_neg]
  rcases trichotomy x hn with ⟨h1, h2, h3⟩ | ⟨h1, h2, h3⟩ | ⟨h1, h2, h3⟩
  · left; simp [h1]
  · simp only [h1, h2, h3, Bool.false_eq_true, if_false, if_true]
    by_cases h : F64.lt F64.one (neg x) = true
    · right; simp [h, isNaN_neg, isNaN_nan]
    · left; simp [h, neg_neg]
  · simp only [h1, h2, h3, Bool.false_eq_true, if_false, if_true]
    by_cases h : F64.lt F64.one x = true
    · right; simp [h, isNaN_neg, isNaN_nan]
    · left; simp [h]

/-! ### special values -/

theorem sin_zero {x : F64} (h : x.mag = 0) : sin x = x ∧ tan x = x ∧ atan x = x ∧ asin x = x := by
  have : F64.eq x Trig.zeroP = true := eq_zero_of_mag h
  unfold sin tan atan asin
  simp [this]

theorem trig_inf {x : F64} (h : x.isInf = true) : sin x = F64.nan ∧ cos x = F64.nan ∧ tan x = F64.nan := by
  have hn : x.isNaN = false := by
    unfold isInf at h; unfold isNaN
    have hm : x.mag = InfMag := by simpa using h
    simp [hm]
  have he : F64.eq x Trig.zeroP = false := by
    unfold F64.eq; rw [key_zeroP]; unfold key
    have hm : x.mag = InfMag := by unfold isInf at h; simpa using h
    cases hs : x.sign <;> simp [hs, hm, hn]
  unfold sin cos tan
  simp [h, hn, he]

theorem trig_nan {x : F64} (h : x.isNaN = true) :
    (sin x).isNaN = true ∧ (cos x).isNaN = true ∧ (tan x).isNaN = true := by
  have he : F64.eq x Trig.zeroP = false := eq_nan (Or.inl h)
  unfold sin cos tan
  simp [h, he, isNaN_nan]

/-- `asin` outside `[-1, 1]` (±Inf included) is NaN. -/
theorem asin_outside {x : F64} (hn : x.isNaN = false) (h : F64.lt F64.one (F64.abs x) = true) :
    asin x = F64.nan ∨ asin x = neg F64.nan := by
  have hx0 : F64.eq x Trig.zeroP = false := by
    rcases trichotomy x hn with ⟨h1, _, _⟩ | ⟨h1, _, _⟩ | ⟨h1, _, _⟩
    · exfalso
      have hm : x.mag = 0 := (eq_zero_iff_mag x hn).mp h1
      unfold F64.lt F64.abs at h
      rw [hm] at h
      revert h; decide
    · exact h1
    · exact h1
  unfold asin
  simp only [hx0, Bool.false_eq_true, if_false]
  by_cases hs : F64.lt x Trig.zeroP = true
  · have habs : F64.abs x = neg x := by
      unfold F64.abs neg
      have : x.sign = true := by
        unfold F64.lt at hs; rw [key_zeroP] at hs; unfold key at hs
        cases hsg : x.sign
        · simp [hsg] at hs; omega
        · rfl
      rw [this]; rfl
    rw [habs] at h
    simp [hs, h]
  · have hs' : F64.lt x Trig.zeroP = false := by simpa using hs
    have habs : F64.abs x = x := by
      rcases trichotomy x hn with ⟨h1, _, _⟩ | ⟨_, h2, _⟩ | ⟨_, _, h3⟩
      · rw [hx0] at h1; exact absurd h1 (by decide)
      · rw [hs'] at h2; exact absurd h2 (by decide)
      · have : x.sign = false := by
          unfold F64.lt at h3; rw [key_zeroP] at h3; unfold key at h3
          cases hsg : x.sign
          · rfl
          · simp [hsg] at h3; omega
        have h2 := ofSM_sign_mag x
        rw [this] at h2
        exact h2
    rw [habs] at h
    simp [hs', h]

end Rare.C19.Trig

namespace Rare.C19.IEEE
open Rare Rare.F64

/-- `expmulti` at `r = 0` (`hi = +0`, `lo = -0`: what `exp2` passes for an integral argument): `y` is exactly 1. -/
theorem expY_zero : expY zeroP (zero true) = one := by decide +kernel

theorem expmulti_zero (k : Int) : expmulti zeroP (zero true) k = ldexp one k := by
  unfold expmulti; rw [expY_zero]

theorem exp2_special (x : F64) :
    (x.isNaN = true → (exp2 x).isNaN = true) ∧
    (x.isInf = true → x.sign = false → exp2 x = x) ∧
    (x.isInf = true → x.sign = true → exp2 x = zeroP) ∧
    (x.isNaN = false → lt exp2Overflow x = true → x.isInf = false → exp2 x = inf false) ∧
    (x.isNaN = false → lt x exp2Underflow = true → x.isInf = false → exp2 x = zeroP) := by
  refine ⟨?_, ?_, ?_, ?_, ?_⟩
  · intro h; unfold exp2; simp [h]
  · intro h hs; unfold exp2; simp [h, hs]
  · intro h hs
    have hn : x.isNaN = false := by
      unfold isInf at h; unfold isNaN
      have hm : x.mag = InfMag := by simpa using h
      simp [hm]
    unfold exp2; simp [h, hs, hn]
  · intro hn h hi; unfold exp2; simp [hn, hi, h]
  · intro hn h hi
    have h2 : lt exp2Overflow x = false := by
      unfold F64.lt at h ⊢
      have k1 : exp2Underflow.key = -4652438317399277568 := by decide
      have k2 : exp2Overflow.key = 4652218415073722367 := by decide
      have n1 : exp2Underflow.isNaN = false := by decide
      have n2 : exp2Overflow.isNaN = false := by decide
      rw [k1, n1, hn] at h
      rw [k2, n2, hn]
      simp at h ⊢
      omega
    unfold exp2; simp [hn, hi, h, h2]

end Rare.C19.IEEE

/-! ### `exp2` of an integer is exactly the power of two -/

namespace Rare.C19.IEEE
open Rare Rare.F64

theorem half_val : half.toRat? = some (1/2 : Rat) := by
  rw [toRat?_eq_some]
  refine ⟨by decide, ?_⟩
  unfold toRat
  have hs : half.sign = false := by decide
  have hm : half.mag = 4602678819172646912 := by decide
  rw [hs, hm]
  simp only [Bool.false_eq_true, if_false]
  unfold magVal
  have h1 : magScale 4602678819172646912 = 1021 := by decide
  have h2 : magSig 4602678819172646912 = 4503599627370496 := by decide
  rw [h1, h2, two1074_eq]
  have e : (4503599627370496 * 2 ^ 1021 : Nat) = 2 ^ 1073 := by
    rw [show (4503599627370496 : Nat) = 2 ^ 52 by decide, ← Nat.pow_add]
  have e2 : (2 ^ 1074 : Nat) = 2 ^ 1073 * 2 := by rw [← Nat.pow_succ]
  rw [e, e2, Rat.natCast_mul]
  have hp : ((2 ^ 1073 : Nat) : Rat) ≠ 0 := Rat.ne_of_gt (pow2_cast_pos 1073)
  generalize ((2 ^ 1073 : Nat) : Rat) = A at hp
  rw [Rat.div_def, Rat.div_def, Rat.inv_mul_rev]
  grind

/-- Half-integers of moderate size are floats. -/
theorem rep_half_nat (m : Nat) (hm : m < P53) : Rep ((m : Rat) / 2) := by
  have h := rep_of_dyadic m 1073 hm (by
    have : m * 2 ^ 1073 < 2 ^ 53 * 2 ^ 1073 := Nat.mul_lt_mul_of_pos_right (by rw [pow2_53]; exact hm) (Nat.pow_pos (by decide))
    rw [← Nat.pow_add] at this
    exact Nat.lt_of_lt_of_le this (Nat.pow_le_pow_right (by decide) (by omega)))
  have e2 : (2 ^ 1074 : Nat) = 2 ^ 1073 * 2 := by rw [← Nat.pow_succ]
  rw [two1074_eq, e2, Rat.natCast_mul, Rat.natCast_mul] at h
  have hp : ((2 ^ 1073 : Nat) : Rat) ≠ 0 := Rat.ne_of_gt (pow2_cast_pos 1073)
  generalize ((2 ^ 1073 : Nat) : Rat) = A at hp h
  have : (m : Rat) * A / (A * ((2 : Nat) : Rat)) = (m : Rat) / 2 := by
    rw [Rat.div_def, Rat.div_def, Rat.inv_mul_rev]
    have : A * A⁻¹ = 1 := Rat.mul_inv_cancel A hp
    grind
  rwa [this] at h

end Rare.C19.IEEE

namespace Rare.C19.IEEE
open Rare Rare.F64

theorem rep_half_int (n : Int) (h : n.natAbs ≤ 2000) : Rep ((n : Rat) + 1/2) ∧ Rep ((n : Rat) - 1/2) := by
  have key : ∀ k : Int, k.natAbs ≤ 5000 → Rep ((k : Rat) / 2) := by
    intro k hk
    rcases Int.natAbs_eq k with e | e
    · have := rep_half_nat k.natAbs (by omega)
      rw [e]; exact this
    · have := rep_neg (rep_half_nat k.natAbs (by omega))
      rw [e, Rat.intCast_neg, Rat.div_def, Rat.neg_mul, ← Rat.div_def]; exact this
  constructor
  · have := key (2 * n + 1) (by omega)
    have e : (((2 * n + 1 : Int)) : Rat) / 2 = (n : Rat) + 1/2 := by
      rw [Rat.intCast_add, Rat.intCast_mul]; simp [Rat.div_def]; grind
    rwa [e] at this
  · have := key (2 * n - 1) (by omega)
    have e : (((2 * n - 1 : Int)) : Rat) / 2 = (n : Rat) - 1/2 := by
      rw [Rat.intCast_sub, Rat.intCast_mul]; simp [Rat.div_def]; grind
    rwa [e] at this

theorem truncRat_half_pos (n : Int) (h : 0 ≤ n) : truncRat ((n : Rat) + 1/2) = n := by
  unfold truncRat
  have : ¬ ((n : Rat) + 1/2 < 0) := by
    have : (0 : Rat) ≤ (n : Rat) := by exact_mod_cast h
    grind
  rw [if_neg this]
  exact floor_eq_of (by grind) (by grind)

theorem truncRat_half_neg (n : Int) (h : n ≤ 0) : truncRat ((n : Rat) - 1/2) = n := by
  unfold truncRat
  have hn : (n : Rat) ≤ 0 := by exact_mod_cast h
  have : (n : Rat) - 1/2 < 0 := by grind
  rw [if_pos this]
  have e : (-((n : Rat) - 1/2)).floor = -n := by
    apply floor_eq_of
    · rw [Rat.intCast_neg]; grind
    · rw [Rat.intCast_neg]; grind
  rw [e]; omega

/-- **`exp2` of an integer is exact**: for every integer `n` of the representable range the reduction finds `k = n`,
    `r = 0`, the polynomial answers exactly 1 and the result is `Ldexp(1, n)`. -/
theorem exp2_int (n : Int) (h1 : -1074 ≤ n) (h2 : n ≤ 1023) : exp2 (ofInt n) = ldexp one n := by
  have hx := isFinite_ofInt n (by omega)
  have hq : (ofInt n).toRat? = some (n : Rat) := toRat?_eq_some.mpr hx
  have hnan := not_nan_of_finite hx.1
  have hinf := not_inf_of_finite hx.1
  have hov : lt exp2Overflow (ofInt n) = false := by
    have hle := ofInt_mono h2
    unfold le at hle; unfold lt
    have k1 : (ofInt 1023).key = 4652209618980700160 := by decide +kernel
    have k2 : exp2Overflow.key = 4652218415073722367 := by decide
    rw [k1] at hle; rw [k2]
    simp at hle ⊢
    intro _ _; omega
  have hun : lt (ofInt n) exp2Underflow = false := by
    have hle := ofInt_mono h1
    unfold le at hle; unfold lt
    have k1 : (ofInt (-1074)).key = -4652438317399277568 := by decide +kernel
    have k2 : exp2Underflow.key = -4652438317399277568 := by decide
    rw [k1] at hle; rw [k2]
    simp at hle ⊢
    intro _ _; omega
  have hz : zeroP.toRat? = some ((0 : Int) : Rat) := by rw [zeroP_eq_ofInt]; exact toRat?_ofInt (by decide)
  have hk : (if lt zeroP (ofInt n) then toInt64 (add (ofInt n) half)
      else if lt (ofInt n) zeroP then toInt64 (sub (ofInt n) half) else 0) = n := by
    rw [lt_int hz hq, lt_int hq hz]
    obtain ⟨hf, hv⟩ := toRat?_eq_some.mp half_val
    obtain ⟨r1, r2⟩ := rep_half_int n (by omega)
    by_cases hp : 0 < n
    · simp only [hp, decide_true, if_true]
      have := add_exact hx.1 hf (by rw [hx.2, hv]; exact r1)
      rw [hx.2, hv] at this
      obtain ⟨f2, v2⟩ := toRat?_eq_some.mp this
      unfold toInt64
      rw [f2, v2, truncRat_half_pos n (by omega)]
      have : ¬ (n < minInt64 ∨ maxInt64 < n) := by unfold minInt64 maxInt64; omega
      simp [this]
    · by_cases hm : n < 0
      · simp only [hp, hm, decide_true, decide_false, if_true, Bool.false_eq_true, if_false]
        have := sub_exact hx.1 hf (by rw [hx.2, hv]; exact r2)
        rw [hx.2, hv] at this
        obtain ⟨f2, v2⟩ := toRat?_eq_some.mp this
        unfold toInt64
        rw [f2, v2, truncRat_half_neg n (by omega)]
        have : ¬ (n < minInt64 ∨ maxInt64 < n) := by unfold minInt64 maxInt64; omega
        simp [this]
      · simp only [hp, hm, decide_false, Bool.false_eq_true, if_false]; omega
  have ht : sub (ofInt n) (ofInt n) = zeroP := by
    rw [sub_finite hx.1 hx.1]
    have : (ofInt n).toRat - (ofInt n).toRat = 0 := by grind
    rw [this]
    unfold ofRatS
    simp
    rfl
  unfold exp2
  simp only [hnan, hinf, hov, hun, Bool.false_or, Bool.false_and, Bool.false_eq_true, if_false]
  rw [hk, ht]
  have m1 : mul zeroP ln2Hi = zeroP := by decide +kernel
  have m2 : mul (neg zeroP) ln2Lo = zero true := by decide +kernel
  rw [m1, m2]
  exact expmulti_zero n

end Rare.C19.IEEE

namespace Rare.C19.IEEE
open Rare Rare.F64

theorem pow2Z_eq (n : Int) (h : -1074 ≤ n) : pow2Z n = ((2 ^ (n + 1074).toNat : Nat) : Rat) / two1074 := by
  unfold pow2Z
  rw [two1074_eq]
  have hT : ((2 ^ 1074 : Nat) : Rat) ≠ 0 := Rat.ne_of_gt (pow2_cast_pos 1074)
  by_cases hn : n ≥ 0
  · rw [if_pos hn]
    have e : (n + 1074).toNat = n.toNat + 1074 := by omega
    rw [e, Nat.pow_add, Rat.natCast_mul]
    exact (Rat.mul_div_cancel hT).symm
  · rw [if_neg hn]
    have e : 1074 = (n + 1074).toNat + (-n).toNat := by omega
    have e2 : (2 ^ 1074 : Nat) = 2 ^ (n + 1074).toNat * 2 ^ (-n).toNat := by rw [← Nat.pow_add, ← e]
    rw [e2, Rat.natCast_mul]
    have hA : ((2 ^ (n + 1074).toNat : Nat) : Rat) ≠ 0 := Rat.ne_of_gt (pow2_cast_pos _)
    have hB : ((2 ^ (-n).toNat : Nat) : Rat) ≠ 0 := Rat.ne_of_gt (pow2_cast_pos _)
    generalize ((2 ^ (n + 1074).toNat : Nat) : Rat) = A at hA
    generalize ((2 ^ (-n).toNat : Nat) : Rat) = B at hB
    rw [Rat.div_def, Rat.div_def, Rat.inv_mul_rev]
    have : A * A⁻¹ = 1 := Rat.mul_inv_cancel A hA
    grind

/-- `Ldexp(1, n)` is the float `2^n`: exponent field `n + 1023` with an empty fraction in the normal range, the
    single bit `n + 1074` in the subnormal range. -/
theorem ldexp_one (n : Int) (h1 : -1074 ≤ n) (h2 : n ≤ 1023) :
    ldexp one n = ofSM false (if -1022 ≤ n then (n + 1023).toNat * P52 else 2 ^ (n + 1074).toNat) := by
  unfold ldexp
  have z1 : one.isZero = false := by decide
  have f1 : one.isFinite = true := by decide
  have fr : (frexp one).2 = 1 := by decide +kernel
  have v1 : one.toRat = 1 := by decide +kernel
  have s1 : one.sign = false := by decide
  simp only [z1, f1, fr, s1, Bool.not_true, Bool.or_self, Bool.false_eq_true, if_false]
  have c1 : ¬ (1 - 1 + n < -1075) := by omega
  have c2 : ¬ (1 - 1 + n > 1023) := by omega
  rw [if_neg c1, if_neg c2, v1, Rat.one_mul, pow2Z_eq n h1]
  have hpos : (0 : Rat) < ((2 ^ (n + 1074).toNat : Nat) : Rat) / two1074 := by
    rw [Rat.div_def]
    exact Rat.mul_pos (pow2_cast_pos _) (Rat.inv_pos.mpr two1074_pos)
  unfold ofRatS
  rw [if_neg (Rat.ne_of_gt hpos)]
  have hlt : ¬ (((2 ^ (n + 1074).toNat : Nat) : Rat) / two1074 < 0) := by grind
  have habs : absRat (((2 ^ (n + 1074).toNat : Nat) : Rat) / two1074) = ((2 ^ (n + 1074).toNat : Nat) : Rat) / two1074 := by
    unfold absRat; rw [if_neg hlt]
  have hm : min (rawMag (((2 ^ (n + 1074).toNat : Nat) : Rat) / two1074)) InfMag =
      (if -1022 ≤ n then (n + 1023).toNat * P52 else 2 ^ (n + 1074).toNat) := by
    by_cases hn : -1022 ≤ n
    · rw [if_pos hn]
      have e : (n + 1074).toNat = 52 + (n + 1022).toNat := by omega
      have e2 : (2 ^ (n + 1074).toNat : Nat) = P52 * 2 ^ (n + 1022).toNat := by
        rw [e, Nat.pow_add]
      rw [e2, rawMag_exact (n + 1022).toNat P52 (by omega) (Or.inr (Nat.le_refl _))]
      have : (n + 1023).toNat = (n + 1022).toNat + 1 := by omega
      rw [this]
      have : (n + 1022).toNat ≤ 2045 := by omega
      omega
    · rw [if_neg hn]
      have hK : (n + 1074).toNat < 52 := by omega
      have hlt52 : 2 ^ (n + 1074).toNat < P52 := by
        have := Nat.pow_lt_pow_right (a := 2) (by decide) hK
        simpa using this
      have := rawMag_exact 0 (2 ^ (n + 1074).toNat) (by omega) (Or.inl rfl)
      simp only [Nat.pow_zero, Nat.mul_one, Nat.zero_mul, Nat.zero_add] at this
      rw [this]
      omega
  rw [habs, roundMag_eq, hm]
  simp only [hlt, decide_false]

/-- **`exp2(n)` is exactly `2^n`** for every integer `n` from -1074 to 1023, as a bit pattern. -/
theorem exp2_int_bits (n : Int) (h1 : -1074 ≤ n) (h2 : n ≤ 1023) :
    exp2 (ofInt n) = ofSM false (if -1022 ≤ n then (n + 1023).toNat * P52 else 2 ^ (n + 1074).toNat) := by
  rw [exp2_int n h1 h2, ldexp_one n h1 h2]

end Rare.C19.IEEE

namespace Rare.C19.IEEE
open Rare Rare.F64

theorem ldexp_one_rat (n : Int) (h1 : -1074 ≤ n) (h2 : n ≤ 1023) : ldexp one n = ofRatS false (pow2Z n) := by
  unfold ldexp
  have z1 : one.isZero = false := by decide
  have f1 : one.isFinite = true := by decide
  have fr : (frexp one).2 = 1 := by decide +kernel
  have v1 : one.toRat = 1 := by decide +kernel
  have s1 : one.sign = false := by decide
  simp only [z1, f1, fr, s1, Bool.not_true, Bool.or_self, Bool.false_eq_true, if_false]
  have c1 : ¬ (1 - 1 + n < -1075) := by omega
  have c2 : ¬ (1 - 1 + n > 1023) := by omega
  rw [if_neg c1, if_neg c2, v1, Rat.one_mul]

/-- The value of `exp2(n)` is the rational `2^n`, finite. -/
theorem exp2_int_val (n : Int) (h1 : -1074 ≤ n) (h2 : n ≤ 1023) : (exp2 (ofInt n)).toRat? = some (pow2Z n) := by
  rw [exp2_int n h1 h2, ldexp_one_rat n h1 h2, toRat?_eq_some]
  have hr : Rep (pow2Z n) := by
    rw [pow2Z_eq n h1]
    have := rep_of_dyadic 1 (n + 1074).toNat (by omega) (by
      rw [Nat.one_mul]; exact Nat.pow_lt_pow_right (by decide) (by omega))
    rwa [Nat.one_mul] at this
  exact ofRatS_rep false hr

end Rare.C19.IEEE
