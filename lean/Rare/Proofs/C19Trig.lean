import Rare.Proofs.C19F64b
/-!
C19, round 4c: facts about the mirrored trigonometric functions and `exp2` that hold for ALL operands
(`Model/C19Trig.lean`, `IEEE.exp2`): the special values Go documents, and the symmetries the code has bit for bit
because the sign is split off first (`sin`, `tan`, `atan`, `asin` odd, `cos` even).
-/
set_option linter.unusedSimpArgs false

namespace Rare.C19.Trig
open Rare Rare.F64 Rare.C19.IEEE

/-- Equal bit for bit, or both NaN (every NaN renders as `NaN` and behaves the same in every operator). -/
def Same (a b : F64) : Prop := a = b ∨ (a.isNaN = true ∧ b.isNaN = true)

theorem Same.rfl' (a : F64) : Same a a := Or.inl rfl

theorem neg_neg (x : F64) : neg (neg x) = x := by
  have h : neg (neg x) = ofSM (!(neg x).sign) (neg x).mag := rfl
  rw [h, sign_neg, mag_neg, Bool.not_not, ofSM_sign_mag]

theorem key_neg (x : F64) : (neg x).key = -x.key := by
  unfold key; rw [sign_neg, mag_neg]
  cases x.sign <;> simp

theorem isInf_neg (x : F64) : (neg x).isInf = x.isInf := by
  unfold isInf; rw [mag_neg]

theorem key_zeroP : Trig.zeroP.key = 0 := by decide

theorem eq_neg_zero (x : F64) : F64.eq (neg x) Trig.zeroP = F64.eq x Trig.zeroP := by
  unfold F64.eq; rw [isNaN_neg, key_neg, key_zeroP]
  congr 1
  by_cases h : x.key = 0 <;> simp [h] <;> omega

theorem lt_neg_zero (x : F64) : F64.lt (neg x) Trig.zeroP = F64.lt Trig.zeroP x := by
  unfold F64.lt; rw [isNaN_neg, key_neg, key_zeroP]
  have : Trig.zeroP.isNaN = false := by decide
  rw [this]
  by_cases h : 0 < x.key <;> simp [h] <;> omega

theorem lt_zero_neg (x : F64) : F64.lt Trig.zeroP (neg x) = F64.lt x Trig.zeroP := by
  have := lt_neg_zero (neg x)
  rw [neg_neg] at this
  exact this.symm

/-- A non-NaN value is zero, negative or positive – exactly one. -/
theorem trichotomy (x : F64) (hn : x.isNaN = false) :
    (F64.eq x Trig.zeroP = true ∧ F64.lt x Trig.zeroP = false ∧ F64.lt Trig.zeroP x = false) ∨
    (F64.eq x Trig.zeroP = false ∧ F64.lt x Trig.zeroP = true ∧ F64.lt Trig.zeroP x = false) ∨
    (F64.eq x Trig.zeroP = false ∧ F64.lt x Trig.zeroP = false ∧ F64.lt Trig.zeroP x = true) := by
  unfold F64.eq F64.lt
  have : Trig.zeroP.isNaN = false := by decide
  rw [this, hn, key_zeroP]
  by_cases h1 : x.key = 0
  · left; simp [h1]
  · by_cases h2 : x.key < 0
    · right; left; simp [h1, h2]; omega
    · right; right; simp [h1, h2]; omega

/-! ### `sin`, `tan`: the saved sign only negates the result -/

theorem sinBody_sign (x : F64) (s : Bool) : sinBody x (!s) = neg (sinBody x s) := by
  unfold sinBody
  generalize reduce true x = r
  obtain ⟨j, z⟩ := r
  simp only
  by_cases hj : j > 3 <;> cases s <;> simp [hj, neg_neg]

theorem tanBody_sign (x : F64) (s : Bool) : tanBody x (!s) = neg (tanBody x s) := by
  unfold tanBody
  generalize reduce false x = r
  obtain ⟨j, z⟩ := r
  simp only
  cases s <;> simp [neg_neg]

theorem isNaN_of_same_neg {a : F64} (h : a.isNaN = true) : (neg a).isNaN = true := by rw [isNaN_neg]; exact h

/-- `sin(-x) = -sin(x)` for every operand (NaN: both NaN; ±Inf: both NaN). -/
theorem sin_neg (x : F64) : Same (sin (neg x)) (neg (sin x)) := by
  unfold sin
  rw [eq_neg_zero, isNaN_neg, isInf_neg, lt_neg_zero, neg_neg]
  by_cases hn : x.isNaN = true
  · right; simp [hn, isNaN_neg]
  · have hn' : x.isNaN = false := by simpa using hn
    by_cases hi : x.isInf = true
    · have he : F64.eq x Trig.zeroP = false := by
        rcases trichotomy x hn' with ⟨h, _, _⟩ | ⟨h, _, _⟩ | ⟨h, _, _⟩
        · exfalso
          unfold F64.eq at h; rw [key_zeroP] at h
          unfold isInf at hi; unfold key at h
          have hm : x.mag = InfMag := by simpa using hi
          cases hs : x.sign <;> simp [hs, hm, hn'] at h
        · exact h
        · exact h
      right; simp [he, hn', hi, isNaN_neg, isNaN_nan]
    · have hi' : x.isInf = false := by simpa using hi
      rcases trichotomy x hn' with ⟨h1, h2, h3⟩ | ⟨h1, h2, h3⟩ | ⟨h1, h2, h3⟩
      · left; simp [h1]
      · left; simp [h1, h2, h3, hn', hi']
        have := sinBody_sign (neg x) true
        simpa using this
      · left; simp [h1, h2, h3, hn', hi']
        have := sinBody_sign x false
        simpa using this

/-- `tan(-x) = -tan(x)` for every operand. -/
theorem tan_neg (x : F64) : Same (tan (neg x)) (neg (tan x)) := by
  unfold tan
  rw [eq_neg_zero, isNaN_neg, isInf_neg, lt_neg_zero, neg_neg]
  by_cases hn : x.isNaN = true
  · right; simp [hn, isNaN_neg]
  · have hn' : x.isNaN = false := by simpa using hn
    by_cases hi : x.isInf = true
    · have he : F64.eq x Trig.zeroP = false := by
        rcases trichotomy x hn' with ⟨h, _, _⟩ | ⟨h, _, _⟩ | ⟨h, _, _⟩
        · exfalso
          unfold F64.eq at h; rw [key_zeroP] at h
          unfold isInf at hi; unfold key at h
          have hm : x.mag = InfMag := by simpa using hi
          cases hs : x.sign <;> simp [hs, hm, hn'] at h
        · exact h
        · exact h
      right; simp [he, hn', hi, isNaN_neg, isNaN_nan]
    · have hi' : x.isInf = false := by simpa using hi
      rcases trichotomy x hn' with ⟨h1, h2, h3⟩ | ⟨h1, h2, h3⟩ | ⟨h1, h2, h3⟩
      · left; simp [h1]
      · left; simp [h1, h2, h3, hn', hi']
        have := tanBody_sign (neg x) true
        simpa using this
      · left; simp [h1, h2, h3, hn', hi']
        have := tanBody_sign x false
        simpa using this

theorem abs_neg (x : F64) : F64.abs (neg x) = F64.abs x := by
  unfold F64.abs; rw [mag_neg]

/-- `cos(-x) = cos(x)` bit for bit, for every operand. -/
theorem cos_neg (x : F64) : cos (neg x) = cos x := by
  unfold cos; rw [isNaN_neg, isInf_neg, abs_neg]

/-- `atan(-x) = -atan(x)` bit for bit for every operand that is not NaN. -/
theorem atan_neg (x : F64) (hn : x.isNaN = false) : atan (neg x) = neg (atan x) := by
  unfold atan
  rw [eq_neg_zero, lt_zero_neg, neg_neg]
  rcases trichotomy x hn with ⟨h1, h2, h3⟩ | ⟨h1, h2, h3⟩ | ⟨h1, h2, h3⟩
  · simp [h1]
  · simp [h1, h2, h3, neg_neg]
  · simp [h1, h2, h3]

/-- `asin(-x) = -asin(x)` for every operand that is not NaN (outside [-1, 1]: both NaN). -/
theorem asin_neg (x : F64) (hn : x.isNaN = false) : Same (asin (neg x)) (neg (asin x)) := by
  unfold asin
  rw [eq_neg_zero, lt_neg_zero, neg_neg]
  rcases trichotomy x hn with ⟨h1, h2, h3⟩ | ⟨h1, h2, h3⟩ | ⟨h1, h2, h3⟩
  · left; simp [h1]
  · simp only [h1, h2, h3, Bool.false_eq_true, if_false, if_true]
    by_cases h : F64.lt F64.one (neg x) = true
    · right; simp [h, isNaN_neg, isNaN_nan]
    · left; simp [h, neg_neg]
  · simp only [h1, h2, h3, Bool.false_eq_true, if_false, if_true]
    by_cases h : F64.lt F64.one x = true
    · right; simp [h, isNaN_neg, isNaN_nan]
    · left; simp [h]

/-! ### special values -/

theorem sin_zero {x : F64} (h : x.mag = 0) : sin x = x ∧ tan x = x ∧ atan x = x ∧ asin x = x := by
  have : F64.eq x Trig.zeroP = true := eq_zero_of_mag h
  unfold sin tan atan asin
  simp [this]

theorem trig_inf {x : F64} (h : x.isInf = true) : sin x = F64.nan ∧ cos x = F64.nan ∧ tan x = F64.nan := by
  have hn : x.isNaN = false := by
    unfold isInf at h; unfold isNaN
    have hm : x.mag = InfMag := by simpa using h
    simp [hm]
  have he : F64.eq x Trig.zeroP = false := by
    unfold F64.eq; rw [key_zeroP]; unfold key
    have hm : x.mag = InfMag := by unfold isInf at h; simpa using h
    cases hs : x.sign <;> simp [hs, hm, hn]
  unfold sin cos tan
  simp [h, hn, he]

theorem trig_nan {x : F64} (h : x.isNaN = true) :
    (sin x).isNaN = true ∧ (cos x).isNaN = true ∧ (tan x).isNaN = true := by
  have he : F64.eq x Trig.zeroP = false := eq_nan (Or.inl h)
  unfold sin cos tan
  simp [h, he, isNaN_nan]

/-- `asin` outside `[-1, 1]` (±Inf included) is NaN. -/
theorem asin_outside {x : F64} (hn : x.isNaN = false) (h : F64.lt F64.one (F64.abs x) = true) :
    asin x = F64.nan ∨ asin x = neg F64.nan := by
  have hx0 : F64.eq x Trig.zeroP = false := by
    rcases trichotomy x hn with ⟨h1, _, _⟩ | ⟨h1, _, _⟩ | ⟨h1, _, _⟩
    · exfalso
      have hm : x.mag = 0 := (eq_zero_iff_mag x hn).mp h1
      unfold F64.lt F64.abs at h
      rw [hm] at h
      revert h; decide
    · exact h1
    · exact h1
  unfold asin
  simp only [hx0, Bool.false_eq_true, if_false]
  by_cases hs : F64.lt x Trig.zeroP = true
  · have habs : F64.abs x = neg x := by
      unfold F64.abs neg
      have : x.sign = true := by
        unfold F64.lt at hs; rw [key_zeroP] at hs; unfold key at hs
        cases hsg : x.sign
        · simp [hsg] at hs; omega
        · rfl
      rw [this]; rfl
    rw [habs] at h
    simp [hs, h]
  · have hs' : F64.lt x Trig.zeroP = false := by simpa using hs
    have habs : F64.abs x = x := by
      rcases trichotomy x hn with ⟨h1, _, _⟩ | ⟨_, h2, _⟩ | ⟨_, _, h3⟩
      · rw [hx0] at h1; exact absurd h1 (by decide)
      · rw [hs'] at h2; exact absurd h2 (by decide)
      · have : x.sign = false := by
          unfold F64.lt at h3; rw [key_zeroP] at h3; unfold key at h3
          cases hsg : x.sign
          · rfl
          · simp [hsg] at h3; omega
        have h2 := ofSM_sign_mag x
        rw [this] at h2
        exact h2
    rw [habs] at h
    simp [hs', h]

end Rare.C19.Trig

namespace Rare.C19.IEEE
open Rare Rare.F64

/-- `expmulti` at `r = 0` (`hi = +0`, `lo = -0`: what `exp2` passes for an integral argument): `y` is exactly 1. -/
theorem expY_zero : expY zeroP (zero true) = one := by decide +kernel

theorem expmulti_zero (k : Int) : expmulti zeroP (zero true) k = ldexp one k := by
  unfold expmulti; rw [expY_zero]

theorem exp2_special (x : F64) :
    (x.isNaN = true → (exp2 x).isNaN = true) ∧
    (x.isInf = true → x.sign = false → exp2 x = x) ∧
    (x.isInf = true → x.sign = true → exp2 x = zeroP) ∧
    (x.isNaN = false → lt exp2Overflow x = true → x.isInf = false → exp2 x = inf false) ∧
    (x.isNaN = false → lt x exp2Underflow = true → x.isInf = false → exp2 x = zeroP) := by
  refine ⟨?_, ?_, ?_, ?_, ?_⟩
  · intro h; unfold exp2; simp [h]
  · intro h hs; unfold exp2; simp [h, hs]
  · intro h hs
    have hn : x.isNaN = false := by
      unfold isInf at h; unfold isNaN
      have hm : x.mag = InfMag := by simpa using h
      simp [hm]
    unfold exp2; simp [h, hs, hn]
  · intro hn h hi; unfold exp2; simp [hn, hi, h]
  · intro hn h hi
    have h2 : lt exp2Overflow x = false := by
      unfold F64.lt at h ⊢
      have k1 : exp2Underflow.key = -4652438317399277568 := by decide
      have k2 : exp2Overflow.key = 4652218415073722367 := by decide
      have n1 : exp2Underflow.isNaN = false := by decide
      have n2 : exp2Overflow.isNaN = false := by decide
      rw [k1, n1, hn] at h
      rw [k2, n2, hn]
      simp at h ⊢
      omega
    unfold exp2; simp [hn, hi, h, h2]

end Rare.C19.IEEE
