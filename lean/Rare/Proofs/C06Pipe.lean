import Rare.Model.C06Pipe
import Rare.Props.C01
import Rare.Proofs.C06
namespace Rare.C06.Pipe
open Rare.Pipeline Rare.C01

variable {α : Type}

theorem step_srcs_length {cls : α → Cls} {R B K : Nat} {s s' : St α} (h : Step cls R B K s s') :
    s'.srcs.length = s.srcs.length := by
  cases h <;> simp

/-- forgetting the error counter: every run of the extended system is a run of the pipeline -/
theorem ereach_proj {cls : α → Cls} {R B K : Nat} {e0 es : ESt α} (h : EReach cls R B K e0 es) :
    Reach cls R B K e0.lts es.lts := by
  induction h with
  | refl => exact .refl
  | step _ hs ih =>
    cases hs with
    | move s' hstep _ => exact .step ih hstep
    | count i bs _ _ => exact ih

structure EInv (total : Nat) (es : ESt α) : Prop where
  sum : es.errs + pendingCount es.pending = total
  live : ∀ i : Nat, es.pending[i]? = some true → ∃ st, es.lts.srcs[i]? = some st ∧ st.isDone = false

theorem einv_init (inputs : List (List (List α))) (W : Nat) (fails : List Bool) (hl : fails.length = inputs.length) :
    EInv (pendingCount fails) (einit inputs W fails) := by
  refine ⟨by simp [einit], ?_⟩
  intro i hi
  have hlt : i < inputs.length := by
    have := (List.getElem?_eq_some_iff.1 hi).1
    simp only [einit] at this
    omega
  refine ⟨.waiting inputs[i], ?_, rfl⟩
  simp [einit, init, hlt]

theorem einv_step {cls : α → Cls} {R B K total : Nat} {es es' : ESt α} (hs : EStep cls R B K es es')
    (h : EInv total es) : EInv total es' := by
  cases hs with
  | move s' hstep hguard =>
    refine ⟨h.sum, ?_⟩
    intro i hi
    obtain ⟨st, hst, hnd⟩ := h.live i hi
    have hlt : i < s'.srcs.length := by
      rw [step_srcs_length hstep]
      exact (List.getElem?_eq_some_iff.1 hst).1
    refine ⟨s'.srcs[i], by simp [hlt], ?_⟩
    cases hst' : s'.srcs[i] with
    | done =>
      have h1 : s'.srcs[i]? = some SrcSt.done := by simp [hlt, hst']
      have := hguard i hi h1
      rw [hst] at this
      cases this
      simp [SrcSt.isDone] at hnd
    | waiting bs => rfl
    | active bs => rfl
  | count i bs hact hp =>
    constructor
    · have := filter_set_length id false hp
      simp only [id, if_true, Bool.false_eq_true, if_false] at this
      simp only [pendingCount]
      have hs := h.sum
      simp only [pendingCount] at hs
      omega
    · intro j hj
      by_cases e : j = i
      · subst e
        have hlt := (List.getElem?_eq_some_iff.1 hp).1
        simp [hlt] at hj
      · rw [List.getElem?_set_ne (Ne.symm e)] at hj
        exact h.live j hj

theorem einv_reach {cls : α → Cls} {R B K total : Nat} {e0 es : ESt α} (hr : EReach cls R B K e0 es)
    (h0 : EInv total e0) : EInv total es := by
  induction hr with
  | refl => exact h0
  | step _ hs ih => exact einv_step hs ih

theorem pending_zero_of_all_done {total : Nat} {es : ESt α} (h : EInv total es)
    (hd : es.lts.srcs.all SrcSt.isDone = true) : pendingCount es.pending = 0 := by
  simp only [pendingCount, List.length_eq_zero_iff, List.filter_eq_nil_iff, id]
  intro b hb
  cases b with
  | false => simp
  | true =>
    obtain ⟨j, hj⟩ := List.mem_iff_getElem?.1 hb
    obtain ⟨st, hst, hnd⟩ := h.live j hj
    rw [List.all_eq_true] at hd
    have := hd st (List.mem_of_getElem? hst)
    rw [this] at hnd
    cases hnd

end Rare.C06.Pipe
