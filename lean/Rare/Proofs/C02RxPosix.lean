import Rare.Proofs.C02RxIdx
/-! POSIX mode (`regexp.CompilePOSIX`, `rare … --posix`): leftmost-longest; among the longest matches the one
a backtracking search finds first. -/
namespace Rare.C02.Rx

theorem pickLongest_none {l : List Res} : pickLongest l = none ↔ l = [] := by
  cases l with
  | nil => simp [pickLongest]
  | cons x xs =>
    simp only [pickLongest]
    cases pickLongest xs with
    | none => simp
    | some y => by_cases h : x.1 < y.1 <;> simp [h]

/-- the chosen element reaches the largest end offset, and nothing before it in the list reaches as far -/
theorem pickLongest_some : ∀ (l : List Res) (x : Res), pickLongest l = some x →
    ∃ l1 l2, l = l1 ++ x :: l2 ∧ (∀ y ∈ l1, y.1 < x.1) ∧ (∀ y ∈ l2, y.1 ≤ x.1) := by
  intro l
  induction l with
  | nil => intro x h; simp [pickLongest] at h
  | cons a as ih =>
    intro x h
    simp only [pickLongest] at h
    cases hp : pickLongest as with
    | none =>
      rw [hp] at h
      simp only [Option.some.injEq] at h
      subst h
      have : as = [] := pickLongest_none.mp hp
      subst this
      exact ⟨[], [], rfl, by simp, by simp⟩
    | some y =>
      rw [hp] at h
      obtain ⟨l1, l2, e, h1, h2⟩ := ih y hp
      by_cases hlt : a.1 < y.1
      · simp only [hlt, if_true, Option.some.injEq] at h
        subst h
        refine ⟨a :: l1, l2, by rw [e]; rfl, ?_, h2⟩
        intro z hz
        rcases List.mem_cons.mp hz with rfl | hz
        · exact hlt
        · exact h1 z hz
      · simp only [hlt, if_false, Option.some.injEq] at h
        subst h
        refine ⟨[], as, rfl, by simp, ?_⟩
        intro z hz
        rw [e] at hz
        rcases List.mem_append.mp hz with hz | hz
        · have := h1 z hz; omega
        · rcases List.mem_cons.mp hz with rfl | hz
          · omega
          · have := h2 z hz; omega

theorem matchAtL_none_iff (s : Bytes) (r : Re) (p : Nat) : matchAtL s r p = none ↔ matchAt s r p = none := by
  unfold matchAtL
  rw [pickLongest_none, matchAt_eq]
  cases den s r p [] <;> simp

theorem searchFromL_some (s : Bytes) (r : Re) :
    ∀ f p q res, searchFromL s r f p = some (q, res) →
      p ≤ q ∧ q < p + f ∧ matchAtL s r q = some res ∧ ∀ q', p ≤ q' → q' < q → matchAtL s r q' = none := by
  intro f
  induction f with
  | zero => intro p q res h; simp [searchFromL] at h
  | succ f ih =>
    intro p q res h
    simp only [searchFromL] at h
    cases hm : matchAtL s r p with
    | some x =>
      rw [hm] at h
      simp only [Option.some.injEq, Prod.mk.injEq] at h
      obtain ⟨rfl, rfl⟩ := h
      exact ⟨Nat.le_refl _, by omega, hm, fun q' h1 h2 => by omega⟩
    | none =>
      rw [hm] at h
      obtain ⟨h1, h2, h3, h4⟩ := ih (p + 1) q res h
      refine ⟨by omega, by omega, h3, ?_⟩
      intro q' hq1 hq2
      by_cases he : q' = p
      · subst he; exact hm
      · exact h4 q' (by omega) hq2

theorem searchFromL_none (s : Bytes) (r : Re) :
    ∀ f p, searchFromL s r f p = none → ∀ q, p ≤ q → q < p + f → matchAtL s r q = none := by
  intro f
  induction f with
  | zero => intro p _ q h1 h2; omega
  | succ f ih =>
    intro p h q h1 h2
    simp only [searchFromL] at h
    cases hm : matchAtL s r p with
    | some x => rw [hm] at h; cases h
    | none =>
      rw [hm] at h
      by_cases he : q = p
      · subst he; exact hm
      · exact ih (p + 1) h q (by omega) (by omega)

/-- **the POSIX search result**: a derivation from the leftmost possible start; no derivation from there ends
later; it is the first element of the priority list that ends there; its capture log consists of
derivations of the groups' bodies inside the match -/
theorem searchL_some (s : Bytes) (r : Re) (p j : Nat) (c : Caps) (h : searchL s r = some (p, j, c)) :
    p ≤ j ∧ j ≤ s.length ∧ Derives s r p j ∧
    (∀ q, q < p → ∀ j', ¬ Derives s r q j') ∧
    (∀ j', Derives s r p j' → j' ≤ j) ∧
    (∃ l1 l2, den s r p [] = l1 ++ (j, c) :: l2 ∧ (∀ y ∈ l1, y.1 < j) ∧ (∀ y ∈ l2, y.1 ≤ j)) ∧
    (∀ e ∈ c, EntryOK s r p j e) := by
  obtain ⟨_, hlt, hm, hnone⟩ := searchFromL_some s r _ 0 p (j, c) h
  have hp : p ≤ s.length := by omega
  obtain ⟨l1, l2, e, h1, h2⟩ := pickLongest_some _ _ hm
  have hmem : (j, c) ∈ den s r p [] := by rw [e]; simp
  obtain ⟨hd, hl, new, en, hn⟩ := den_sound s r p [] (j, c) hp hmem
  simp only [List.append_nil] at en
  subst en
  refine ⟨hd.le, hl, hd, ?_, ?_, ⟨l1, l2, e, h1, h2⟩, hn⟩
  · intro q hq j' hd'
    have := (matchAtL_none_iff s r q).mp (hnone q (Nat.zero_le _) hq)
    exact (matchAt_none_iff s r q (by omega)).mp this j' hd'
  · intro j' hd'
    obtain ⟨c', hc'⟩ := den_complete s r p j' [] hd' (hd'.le_length hp)
    rw [e] at hc'
    rcases List.mem_append.mp hc' with hz | hz
    · have := h1 _ hz; simp only at this; omega
    · rcases List.mem_cons.mp hz with hz | hz
      · simp only [Prod.mk.injEq] at hz; omega
      · have := h2 _ hz; simpa using this

theorem searchL_none (s : Bytes) (r : Re) (h : searchL s r = none) :
    ∀ q, q ≤ s.length → ∀ j', ¬ Derives s r q j' := by
  intro q hq j' hd
  have := (matchAtL_none_iff s r q).mp (searchFromL_none s r _ 0 h q (Nat.zero_le _) (by omega))
  exact (matchAt_none_iff s r q hq).mp this j' hd

/-- both modes find a match in the same lines, from the same start offset; the POSIX one is at least as long -/
theorem searchL_vs_search (s : Bytes) (r : Re) :
    (search s r = none ↔ searchL s r = none) ∧
    (∀ p j c, search s r = some (p, j, c) → ∃ j' c', searchL s r = some (p, j', c') ∧ j ≤ j') := by
  have hnn : search s r = none → searchL s r = none := by
    intro h
    cases hL : searchL s r with
    | none => rfl
    | some m =>
      obtain ⟨p, j, c⟩ := m
      obtain ⟨_, h2, h3, _⟩ := searchL_some s r p j c hL
      exact absurd h3 (search_none s r h p (by have := h3.le; omega) j)
  have hnn' : searchL s r = none → search s r = none := by
    intro h
    cases hS : search s r with
    | none => rfl
    | some m =>
      obtain ⟨p, j, c⟩ := m
      obtain ⟨_, h2, h3, _⟩ := search_some s r p j c hS
      exact absurd h3 (searchL_none s r h p (by have := h3.le; omega) j)
  refine ⟨⟨hnn, hnn'⟩, ?_⟩
  intro p j c hS
  obtain ⟨a1, a2, a3, _, a5, _⟩ := search_some s r p j c hS
  cases hL : searchL s r with
  | none => rw [hnn' hL] at hS; cases hS
  | some m =>
    obtain ⟨p', j', c'⟩ := m
    obtain ⟨b1, b2, b3, b4, b5, _⟩ := searchL_some s r p' j' c' hL
    have hpp : p' = p := by
      rcases Nat.lt_trichotomy p' p with hlt | heq | hgt
      · exact absurd b3 (a5 p' hlt j')
      · exact heq
      · exact absurd a3 (b4 p hgt j)
    subst hpp
    exact ⟨j', c', rfl, b5 j a3⟩

end Rare.C02.Rx
