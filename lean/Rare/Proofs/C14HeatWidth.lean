import Rare.Proofs.C14BarGraph
/-!
# C14: the visible width of a whole heatmap row

A drawn heatmap row (`IsHeatRow`: the coloured key, at least one blank, one cell per displayed column) is
exactly `StrLen(key) + blanks + columns` cells wide – colour on or off, unicode or ASCII, multi-byte keys,
keys with (terminated) colour sequences.  With `heat_writeRow`: the cells of a row start in visible column
`maxRowKeyWidth + 1` (the width known when the row was written).
-/
namespace Rare.C14
open Rare Rare.C20

theorem codeState_append (a b : List Nat) : ∀ st : Bool, codeState st (a ++ b) = codeState (codeState st a) b := by
  induction a with
  | nil => intro st; rfl
  | cons r rest ih =>
    intro st
    simp only [List.cons_append, codeState]
    split
    · exact ih _
    · split
      · exact ih _
      · exact ih _

/-- visible widths add up after a self-delimiting text that does not end inside a colour sequence -/
theorem strLen_append_clean (env : Env) (a b : Bytes) (ha : Clean a) (ht : Terminated env a) :
    strLen env (a ++ b) = strLen env a + strLen env b := by
  unfold strLen
  rw [ha b]
  by_cases hcol : env.color
  · simp only [hcol, Bool.not_true, Bool.false_eq_true, if_false]
    rw [strLenGo_append, ht hcol, strLenGo_acc]
    omega
  · simp only [hcol, Bool.not_false, if_true, List.length_append]
    omega

theorem terminated_append (env : Env) (a b : Bytes) (ha : Clean a) (hta : Terminated env a) (htb : Terminated env b) :
    Terminated env (a ++ b) := by
  intro hc
  rw [ha b, codeState_append, hta hc, htb hc]

theorem clean_ite (c : Prop) [Decidable c] (a b : Bytes) (ha : Clean a) (hb : Clean b) : Clean (if c then a else b) := by
  split <;> assumption

theorem clean_encodeRune (r : Nat) (h : validScalar r) : Clean (encodeRune r) := by
  have := Clean.encode [r] (by intro x hx; simp at hx; subst hx; exact h)
  simpa [encodeUtf8] using this

/-- a heat cell is self-delimiting, does not end inside a colour sequence, and is one cell wide -/
theorem heatCell_props (env : Env) (c : Bytes) (h : IsHeatCell env c) : Clean c ∧ Terminated env c ∧ strLen env c = 1 := by
  refine ⟨?_, ?_, heatCell_width env c h⟩
  · rcases h with h | ⟨hc, hhc, rfl⟩
    · apply Clean.asciiList
      have : ∀ c ∈ heatmapAscii, ∀ x ∈ c, x.toNat < 0x80 := by decide +kernel
      exact this c h
    · have hblk : validScalar (if env.unicode then fullBlock else heatmapNonUnicode) := by
        split
        · unfold validScalar fullBlock; omega
        · unfold validScalar heatmapNonUnicode; omega
      unfold wrap
      by_cases hcol : env.color
      · have hasc : ∀ hc ∈ heatmapColors, IsAscii hc := by
          have : ∀ hc ∈ heatmapColors, ∀ x ∈ hc, x.toNat < 0x80 := by decide +kernel
          exact this
        simp only [hcol, Bool.not_true, Bool.false_eq_true, if_false]
        apply Clean.append (Clean.append (Clean.asciiList hc (hasc hc hhc)) (clean_encodeRune _ hblk))
        have hr : IsAscii cReset := by
          have : ∀ x ∈ cReset, x.toNat < 0x80 := by decide +kernel
          exact this
        exact clean_ite _ _ _ (Clean.asciiList cReset hr) Clean.nil
      · simp only [hcol, Bool.not_false, if_true]
        exact clean_encodeRune _ hblk
  · intro hcol
    rcases h with h | ⟨hc, hhc, rfl⟩
    · have : ∀ c ∈ heatmapAscii, codeState false (decodeUtf8 c) = false := by decide +kernel
      exact this c h
    · have : ∀ hc ∈ heatmapColors,
          codeState false (decodeUtf8 (wrap env hc (encodeRune (if env.unicode then fullBlock else heatmapNonUnicode)))) = false := by
        obtain ⟨col, uni⟩ := env
        cases col <;> cases uni <;> decide +kernel
      exact this hc hhc

theorem strLen_cells (env : Env) : ∀ cells : List Bytes, (∀ c ∈ cells, IsHeatCell env c) → strLen env cells.flatten = cells.length := by
  intro cells
  induction cells with
  | nil => intro _; simp [strLen_nil]
  | cons c rest ih =>
    intro h
    obtain ⟨hc, ht, hw⟩ := heatCell_props env c (h c (by simp))
    rw [List.flatten_cons, strLen_append_clean env c _ hc ht, hw, ih (fun x hx => h x (by simp [hx]))]
    simp; omega

/-- a text followed by nothing or by the reset sequence decodes separately, whatever the text ends with -/
theorem decode_append_reset (key tail : Bytes) (h : tail = [] ∨ tail = cReset) :
    decodeUtf8 (key ++ tail) = decodeUtf8 key ++ decodeUtf8 tail := by
  rcases h with rfl | rfl
  · simp [decodeUtf8_nil]
  · have e : cReset = 27 :: ascii "[0m" := rfl
    rw [e, decodeUtf8_before_ascii key 27 (by decide), decodeUtf8_ascii 27 (by decide)]

/-- the key as the renderers colour it (`color.Wrap(color.Yellow, key)`): as wide as the key, and it does not
end inside a colour sequence – for every key that does not -/
theorem wrapYellow_props (env : Env) (key : Bytes) (ht : Terminated env key) :
    strLen env (wrap env cYellow key) = strLen env key ∧ Terminated env (wrap env cYellow key) := by
  by_cases hcol : env.color
  · have hw : ∃ tail, (tail = [] ∨ tail = cReset) ∧ wrap env cYellow key = cYellow ++ (key ++ tail) := by
      unfold wrap
      simp only [hcol, Bool.not_true, Bool.false_eq_true, if_false]
      split
      · exact ⟨cReset, Or.inr rfl, by simp [List.append_assoc]⟩
      · exact ⟨[], Or.inl rfl, by simp⟩
    obtain ⟨tail, htail, hw⟩ := hw
    have hy : IsAscii cYellow := by
      have : ∀ x ∈ cYellow, x.toNat < 0x80 := by decide +kernel
      exact this
    have hd : decodeUtf8 (wrap env cYellow key) = cYellow.map (·.toNat) ++ (decodeUtf8 key ++ decodeUtf8 tail) := by
      rw [hw, decodeUtf8_asciiList cYellow hy, decode_append_reset key tail htail]
    have y1 : codeState false (cYellow.map (·.toNat)) = false := by decide +kernel
    have y2 : ∀ n, strLenGo false (cYellow.map (·.toNat)) n = n := by
      intro n; rw [strLenGo_acc]; have : strLenGo false (cYellow.map (·.toNat)) 0 = 0 := by decide +kernel
      omega
    have t1 : codeState false (decodeUtf8 tail) = false := by
      rcases htail with rfl | rfl
      · rfl
      · decide +kernel
    have t2 : ∀ n, strLenGo false (decodeUtf8 tail) n = n := by
      intro n; rw [strLenGo_acc]
      have : strLenGo false (decodeUtf8 tail) 0 = 0 := by
        rcases htail with rfl | rfl
        · rfl
        · decide +kernel
      omega
    have hk := ht hcol
    constructor
    · unfold strLen
      simp only [hcol, Bool.not_true, Bool.false_eq_true, if_false]
      rw [hd, strLenGo_append, y1, y2, strLenGo_append, hk, t2]
    · intro _
      rw [hd, codeState_append, y1, codeState_append, hk, t1]
  · have : wrap env cYellow key = key := by unfold wrap; simp [hcol]
    rw [this]; exact ⟨rfl, ht⟩

/-- THE ROW: key, `pad ≥ 1` blanks, one heat cell per displayed column – `StrLen(key) + pad + columns` cells wide -/
theorem heatRow_width (env : Env) (key : Bytes) (pad : Nat) (cells : List Bytes) (ht : Terminated env key)
    (hcells : ∀ c ∈ cells, IsHeatCell env c) :
    strLen env (wrap env cYellow key ++ writeRepeat 32 ((pad + 1 : Nat) : Int) ++ cells.flatten) = strLen env key + (pad + 1 : Nat) + cells.length := by
  obtain ⟨w, t⟩ := wrapYellow_props env key ht
  have hb : writeRepeat 32 ((pad + 1 : Nat) : Int) = List.replicate (pad + 1) (32 : UInt8) := by
    unfold writeRepeat
    have : encodeRune 32 = [32] := by decide
    rw [this, Int.toNat_natCast, flatten_replicate_blank]
  rw [hb, strLen_cell_append env _ pad _ t, w, strLen_cells env cells hcells]

/-- `Heatmap.WriteRow(idx, name, cols)` as a whole, for every float instance satisfying `UnitLaws`: it returns, the row
key column is widened to the key when needed, and the line it writes – the coloured key, blanks, ONE heat cell
per value – is exactly `maxRowKeyWidth + 1 + len(values)` cells wide: the cells start in visible column
`maxRowKeyWidth + 1` and there is one column per value (keys: any bytes not ending inside a colour sequence) -/
theorem heat_writeRow_width {α : Type} {A : Arith α} {Dom : Int → Prop} {Unit : α → Prop} {le : α → α → Prop} (U : UnitLaws A Dom Unit le)
    (env : Env) (h : Heatmap) (vt : VirtualTerm) (ho : vt.closed = false) (idx : Nat) (name : Bytes) (vals : List Int)
    (ht : Terminated env name) (hd : ∀ v ∈ vals, Dom v) (hmn : Dom h.minVal) (hmx : Dom h.maxVal) :
    ∃ h' vt' line cells, h.writeRow A env vt (idx : Int) name vals = .ok (h', vt') ∧ vt'.closed = false ∧
      vt'.lines[2 + idx]? = some line ∧
      h'.maxRowKeyWidth = (if strLen env name > h.maxRowKeyWidth then strLen env name else h.maxRowKeyWidth) ∧
      line = wrap env cYellow name ++ writeRepeat 32 (h'.maxRowKeyWidth - strLen env name + 1) ++ List.flatten cells ∧
      cells.length = vals.length ∧ (∀ c ∈ cells, IsHeatCell env c) ∧
      strLen env line = h'.maxRowKeyWidth + 1 + vals.length ∧
      (∀ j x, j ≠ 2 + idx → vt.lines[j]? = some x → vt'.lines[j]? = some x) := by
  have key : ∀ h1 : Heatmap, h1 = (if strLen env name > h.maxRowKeyWidth then { h with maxRowKeyWidth := strLen env name } else h) →
      h.writeRow A env vt (idx : Int) name vals = (do
        let cells ← vals.mapM fun v => heatWrite A env (scale A h1.scaler v h1.minVal h1.maxVal)
        let vt' ← vt.writeForLine (2 + (idx : Int)) (wrap env cYellow name ++ writeRepeat 32 (h1.maxRowKeyWidth - strLen env name + 1) ++ cells.flatten)
        pure (h1, vt')) := by
    intro h1 e; subst e; rfl
  rw [key _ rfl]
  generalize hh1 : (if strLen env name > h.maxRowKeyWidth then { h with maxRowKeyWidth := strLen env name } else h) = h1
  have h1w : h1.maxRowKeyWidth = (if strLen env name > h.maxRowKeyWidth then strLen env name else h.maxRowKeyWidth) := by
    rw [← hh1]; split <;> rfl
  have h1s : h1.scaler = h.scaler ∧ h1.minVal = h.minVal ∧ h1.maxVal = h.maxVal := by
    rw [← hh1]; split <;> exact ⟨rfl, rfl, rfl⟩
  obtain ⟨cells, hcells, hlen, hall⟩ := mapM_ok_all
    (fun v => heatWrite A env (scale A h1.scaler v h1.minVal h1.maxVal)) (IsHeatCell env) vals
    (by
      intro v hv
      rw [h1s.2.1, h1s.2.2]
      exact U.heatWrite_cell env (U.scale_unit _ (hd v hv) hmn hmx))
  have hcast : (2 : Int) + (idx : Int) = ((2 + idx : Nat) : Int) := by omega
  obtain ⟨vt', hw, ho', hline, hkeep⟩ := vt_write_ok vt ho (2 + idx)
    (wrap env cYellow name ++ writeRepeat 32 (h1.maxRowKeyWidth - strLen env name + 1) ++ cells.flatten)
  refine ⟨h1, vt', _, cells, ?_, ho', hline, h1w, rfl, hlen, hall, ?_, hkeep⟩
  · simp only [hcells, bind, Except.bind, hcast, hw]
    rfl
  · have hge : strLen env name ≤ h1.maxRowKeyWidth := by rw [h1w]; split <;> omega
    have hn := strLen_nonneg env name
    obtain ⟨p, hp⟩ : ∃ p : Nat, h1.maxRowKeyWidth - strLen env name + 1 = ((p + 1 : Nat) : Int) :=
      ⟨(h1.maxRowKeyWidth - strLen env name).toNat, by omega⟩
    rw [hp, heatRow_width env name p cells ht hall, hlen]
    omega

/-! ### what a drawn bar-graph row looks like, what a render of the histogram leaves on the screen -/

section
variable {α : Type} {A : Arith α} {Dom : Int → Prop} {Unit : α → Prop} {le : α → α → Prop}

/-- the bar of one value of a grouped row: the glyphs of `BarWrite(Scale(v, 0, max), BarSize)` – at most `BarSize` -/
theorem bars_bar_shape (U : UnitLaws A Dom Unit le) (env : Env) (c : BarCfg) (v : Int) (hd : Dom v) (hm : Dom c.max)
    (hb : 0 ≤ c.barSize) (hb' : c.barSize ≤ 1000000000000000) :
    ∃ rs, barWriteR A env (scale A c.scaler v 0 c.max) c.barSize = .ok rs ∧ c.barBytes A env v = rs.flatMap encodeRune ∧
      (rs.length : Int) = glyphCount A env c.barSize (scale A c.scaler v 0 c.max) ∧ (rs.length : Int) ≤ c.barSize := by
  have hu := U.scale_unit c.scaler hd U.dom_zero hm
  obtain ⟨rs, hrs, hl⟩ := U.barWriteR_ok env hu hb hb'
  have hle := (U.glyphCount_le env hu hb hb').2
  refine ⟨rs, hrs, ?_, hl, by omega⟩
  unfold BarCfg.barBytes barWrite
  rw [hrs]; rfl

/-- the rows stored and the state after one render of the histogram -/
theorem histo_render_rows (env : Env) (h : Histo) (items : List (Bytes × Int)) (total atLeast : Int)
    (hfit : (histoShown items atLeast).length ≤ h.items.length) (i : Nat) (it : Bytes × Int) (hi : (histoShown items atLeast)[i]? = some it) :
    (h.stateAfterAll env (histoOutputOps items total atLeast)).items[i]? = some (some it) := by
  unfold histoOutputOps
  rw [histo_stateAfterAll_cons]
  have := (histo_lineOps_items env (histoShown items atLeast) 0 (h.stateAfter env (.total total))
    (by rw [Nat.zero_add]; exact hfit)).1 i it hi
  rwa [Nat.zero_add] at this

end
end Rare.C14
