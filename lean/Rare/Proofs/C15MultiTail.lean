import Rare.Proofs.C15Multi
import Rare.Proofs.C15Live
/-!
What the batches of one follower (`Rare.C15.Multi.FileRun.follower`) are, from the single-file theorems:
a numbered partition of the lines of its delivered stream when the stream ends, a numbered prefix of the
lines of the newline-terminated part while it is still following.
-/
namespace Rare.C15.Multi
open Rare.C04 Rare.C15.Tail Rare.C15.Batch

theorem prefix_flatMap {α β : Type} (f : α → List β) {l1 l2 : List α} (h : l1 <+: l2) :
    l1.flatMap f <+: l2.flatMap f := by
  obtain ⟨t, rfl⟩ := h
  rw [List.flatMap_append]
  exact List.prefix_append _ _

/-- The lines a follower's batches are cut from. -/
structure LinesOf (r : FileRun) (L : List Bytes) : Prop where
  ended : r.ends = true → L = splitLines r.data
  live : r.ends = false → ∃ C rest, r.data = C ++ rest ∧ nl ∉ rest ∧ (C = [] ∨ C.getLast? = some nl) ∧ L = splitLines C

theorem follower_lines (bufSize batchSize : Nat) (hb : 1 ≤ bufSize) (r : FileRun)
    (hs : ∀ st ∈ r.script, st.err = none) :
    ∃ L, LinesOf r L ∧
      (r.follower bufSize batchSize).batches.flatMap Batcher.lineNumbers <+: L.zipIdx 1 ∧
      (r.ends = true → (r.follower bufSize batchSize).batches.flatMap Batcher.lineNumbers = L.zipIdx 1) ∧
      (∀ b ∈ (r.follower bufSize batchSize).batches, b.lines ≠ []) := by
  cases he : r.ends with
  | true =>
    have hj : J r.src (tailToChan r.src bufSize batchSize r.timer r.data r.script) :=
      j_after r.src bufSize batchSize r.timer r.data r.script hb _
    have hc := tail_closed r.src bufSize batchSize r.timer r.data r.script hb
    obtain ⟨h1, h2, _⟩ := closed_spec hj hc
    have hd := closed_delivered r.src bufSize batchSize r.timer r.data r.script hb hs
    rw [hd] at h1
    refine ⟨splitLines r.data, ⟨fun _ => rfl, (fun h => by rw [he] at h; exact absurd h (by decide))⟩, ?_, fun _ => ?_, ?_⟩
    · simp only [FileRun.follower, he, if_true]; rw [h1]; exact List.prefix_refl _
    · simp only [FileRun.follower, he, if_true]; exact h1
    · simp only [FileRun.follower, he, if_true]; exact h2
  | false =>
    obtain ⟨hrun, C, rest, h1, h2, h3, h4⟩ := live_spec r.src bufSize batchSize r.timer r.data r.script hb hs
    have hj : J r.src (live r.src bufSize batchSize r.timer r.data r.script) :=
      j_after r.src bufSize batchSize r.timer r.data r.script hb _
    obtain ⟨g1, g2, _⟩ := running_spec hj (by rw [hrun]; decide)
    rw [h4] at g1
    refine ⟨splitLines C, ⟨(fun h => by rw [he] at h; exact absurd h (by decide)), fun _ => ⟨C, rest, h1, h2, h3, rfl⟩⟩, ?_,
      (fun h => absurd h (by decide)), ?_⟩
    · simp only [FileRun.follower, he, Bool.false_eq_true, if_false]
      exact ⟨_, g1⟩
    · simp only [FileRun.follower, he, Bool.false_eq_true, if_false]; exact g2

/-- look-up in a mapped list -/
theorem get_map_follower {runs : List FileRun} {bufSize batchSize i : Nat} {r : FileRun} (h : runs[i]? = some r) :
    (runs.map (FileRun.follower bufSize batchSize))[i]? = some (r.follower bufSize batchSize) := by
  simp [List.getElem?_map, h]

end Rare.C15.Multi
