import Rare.Proofs.C07NumF64
/-!
C07, numerical aggregator over the software binary64 model – the arithmetic of `Samplef`:

* `round_between`: monotone rounding squeezes a rounded value between two floats that bracket the exact one;
* `binade`: a positive difference of two floats lies in `[w, 2w]` for a representable power of two `w`;
* `mean_step_between`: from the second sample on, the updated mean lies between the old mean and the sample
  (for samples of magnitude at most `2^1021`, so that no difference overflows);
* `mean_between`: hence the running mean stays inside every interval that contains the samples;
* `var_step_nonneg`: each increment of `M2` is non-negative, so `Variance()` / `StdDev()` are never NaN;
* `sim_step` / `exact_run`: when every intermediate value of the exact (rational) Welford recurrence is
  representable, the float run IS the exact run; constant samples are such a case.
-/
namespace Rare.C07
open Rare Rare.F64

/-! ### rounding between two floats -/

theorem round_between (s : Bool) {a b : F64} {q : Rat} (ha : a.isFinite = true) (hb : b.isFinite = true)
    (h1 : a.toRat ≤ q) (h2 : q ≤ b.toRat) :
    (ofRatS s q).isFinite = true ∧ a.toRat ≤ (ofRatS s q).toRat ∧ (ofRatS s q).toRat ≤ b.toRat := by
  have l1 : F64.le a (ofRatS s q) = true := by
    have := ofRatS_le_ofRatS a.sign s h1; rwa [ofRatS_toRat a ha] at this
  have l2 : F64.le (ofRatS s q) b = true := by
    have := ofRatS_le_ofRatS s b.sign h2; rwa [ofRatS_toRat b hb] at this
  have f := finite_of_between ha hb l1 l2
  exact ⟨f, (le_iff_toRat_le ha f).mp l1, (le_iff_toRat_le f hb).mp l2⟩

theorem round_between_rep (s : Bool) {qa qb q : Rat} (ha : Rep qa) (hb : Rep qb) (h1 : qa ≤ q) (h2 : q ≤ qb) :
    (ofRatS s q).isFinite = true ∧ qa ≤ (ofRatS s q).toRat ∧ (ofRatS s q).toRat ≤ qb := by
  obtain ⟨a, fa, va⟩ := ha
  obtain ⟨b, fb, vb⟩ := hb
  have := round_between s fa fb (by rw [va]; exact h1) (by rw [vb]; exact h2)
  rwa [va, vb] at this

theorem rep_self (x : F64) (hx : x.isFinite = true) : Rep x.toRat := ⟨x, hx, rfl⟩

/-! ### floats are integer multiples of 2^-1074 -/

theorem toRat_units (x : F64) : ∃ z : Int, x.toRat = (z : Rat) / two1074 := by
  unfold toRat magVal
  split
  · refine ⟨-((magSig x.mag * 2 ^ magScale x.mag : Nat) : Int), ?_⟩
    rw [Rat.intCast_neg, Rat.intCast_natCast]
    have := two1074_ne
    grind
  · exact ⟨((magSig x.mag * 2 ^ magScale x.mag : Nat) : Int), by rw [Rat.intCast_natCast]⟩

theorem rat_div_pos {a c : Rat} (ha : 0 < a) (hc : 0 < c) : 0 < a / c := by
  apply Classical.byContradiction
  intro h
  have h1 : a / c ≤ 0 := by grind
  rw [rat_div_le_iff hc] at h1
  grind

/-- `2^1021`, written in units of `2^-1074`. -/
def bigB : Rat := ((2 ^ 2095 : Nat) : Rat) / two1074

theorem bigB_eq : bigB = ((2 ^ 1021 : Nat) : Rat) := by decide +kernel

/-- A positive multiple `y ≤ 2^1022` of `2^-1074` lies in `[w, 2w]` for a power of two `w` such that
`±w` and `±2w` are floats. -/
theorem binade (y : Rat) (z : Int) (hz : y = (z : Rat) / two1074) (hpos : 0 < y) (hb : y ≤ 2 * bigB) :
    ∃ w : Rat, Rep w ∧ Rep (2 * w) ∧ Rep (-w) ∧ Rep (-(2 * w)) ∧ 0 < w ∧ w ≤ y ∧ y ≤ 2 * w := by
  have c := two1074_pos
  have hzr : (z : Rat) = y * two1074 := by rw [hz]; exact (Rat.div_mul_cancel two1074_ne).symm
  have hz0 : 0 < z := by
    have : (0 : Rat) < (z : Rat) := by rw [hzr]; exact Rat.mul_pos hpos c
    exact_mod_cast this
  let t := z.toNat
  have ht : ((t : Nat) : Int) = z := Int.toNat_of_nonneg (by omega)
  have htq : (t : Rat) = (z : Rat) := by rw [← ht, Rat.intCast_natCast]
  have ht0 : t ≠ 0 := by omega
  have hy : y = (t : Rat) / two1074 := by rw [htq]; exact hz
  -- the bound in units
  have htb : t ≤ 2 ^ 2096 := by
    have h1 : (t : Rat) ≤ 2 * bigB * two1074 := by
      rw [htq, hzr]; exact Rat.mul_le_mul_of_nonneg_right hb (Rat.le_of_lt c)
    have h2 : 2 * bigB * two1074 = ((2 ^ 2096 : Nat) : Rat) := by decide +kernel
    rw [h2] at h1
    exact Rat.natCast_le_natCast.mp h1
  have hL1 : 2 ^ t.log2 ≤ t := Nat.log2_self_le ht0
  have hL2 : t < 2 ^ (t.log2 + 1) := Nat.lt_log2_self
  have hL : t.log2 < 2097 := (Nat.log2_lt ht0).mpr (by
    have : (2 : Nat) ^ 2096 < 2 ^ 2097 := Nat.pow_lt_pow_right (by decide) (by decide)
    omega)
  have r1 := rep_of_dyadic 1 t.log2 (by decide) (by
    rw [Nat.one_mul]; exact Nat.pow_lt_pow_right (by decide) (by omega))
  have r2 := rep_of_dyadic 1 (t.log2 + 1) (by decide) (by
    rw [Nat.one_mul]; exact Nat.pow_lt_pow_right (by decide) (by omega))
  rw [Nat.one_mul] at r1 r2
  have e2 : ((2 ^ (t.log2 + 1) : Nat) : Rat) / two1074 = 2 * (((2 ^ t.log2 : Nat) : Rat) / two1074) := by
    rw [Nat.pow_succ, Rat.natCast_mul]
    have := two1074_ne
    have : ((2 : Nat) : Rat) = 2 := rfl
    grind
  rw [e2] at r2
  refine ⟨((2 ^ t.log2 : Nat) : Rat) / two1074, r1, r2, rep_neg r1, rep_neg r2, ?_, ?_, ?_⟩
  · exact rat_div_pos (pow2_cast_pos _) c
  · rw [hy]; exact rat_div_le_div_right c (Rat.natCast_le_natCast.mpr hL1)
  · rw [← e2, hy]; exact rat_div_le_div_right c (Rat.natCast_le_natCast.mpr (Nat.le_of_lt hL2))

/-! ### one update of the mean -/

theorem div_le_half {d k : Rat} (hd : 0 ≤ d) (hk : 2 ≤ k) : d / k ≤ d / 2 := by
  have hk0 : (0 : Rat) < k := by grind
  rw [rat_div_le_iff hk0]
  have h2 : (0 : Rat) ≤ d / 2 := by grind
  have := Rat.mul_le_mul_of_nonneg_left hk h2
  grind

theorem half_le_div {d k : Rat} (hd : d ≤ 0) (hk : 2 ≤ k) : d / 2 ≤ d / k := by
  have := div_le_half (d := -d) (by grind) hk
  have hk0 : k ≠ 0 := by grind
  grind

theorem div_nonneg' {d k : Rat} (hd : 0 ≤ d) (hk : 0 < k) : 0 ≤ d / k := by
  rw [rat_le_div_iff hk]; grind

theorem div_nonpos' {d k : Rat} (hd : d ≤ 0) (hk : 0 < k) : d / k ≤ 0 := by
  rw [rat_div_le_iff hk]; grind

/-- The float `float64(k)` for `1 ≤ k ≤ 2^53`. -/
theorem ofInt_count (k : Nat) (hk1 : 1 ≤ k) (hk : k ≤ P53) :
    (F64.ofInt (k : Int)).isFinite = true ∧ (F64.ofInt (k : Int)).toRat = (k : Rat) ∧ (F64.ofInt (k : Int)).mag ≠ 0 := by
  obtain ⟨a, b⟩ := isFinite_ofInt (k : Int) (by omega)
  rw [Rat.intCast_natCast] at b
  refine ⟨a, b, ?_⟩
  intro h0
  have := toRat_eq_zero_of_mag h0
  rw [b] at this
  have : (k : Rat) = ((0 : Nat) : Rat) := this
  have := Rat.natCast_inj.mp this
  omega

/-- From the second sample on (`k ≥ 2`), for a finite mean `m` and sample `x` of magnitude at most `2^1021`:
`d = x - m` is finite with the sign of the exact difference, and the new mean lies between `m` and `x`. -/
theorem mean_step_between (m x : F64) (k : Nat) (hk : 2 ≤ k) (hk2 : k ≤ P53)
    (hm : m.isFinite = true) (hx : x.isFinite = true)
    (bm : -bigB ≤ m.toRat ∧ m.toRat ≤ bigB) (bx : -bigB ≤ x.toRat ∧ x.toRat ≤ bigB) :
    let d := F64.sub x m
    let m' := F64.add m (F64.div d (F64.ofInt (k : Int)))
    d.isFinite = true ∧ m'.isFinite = true ∧
    (m.toRat ≤ x.toRat → 0 ≤ d.toRat ∧ m.toRat ≤ m'.toRat ∧ m'.toRat ≤ x.toRat) ∧
    (x.toRat ≤ m.toRat → d.toRat ≤ 0 ∧ x.toRat ≤ m'.toRat ∧ m'.toRat ≤ m.toRat) := by
  intro d m'
  obtain ⟨kf, kv, kz⟩ := ofInt_count k (by omega) hk2
  have hkq : (2 : Rat) ≤ (k : Rat) := by
    have := Rat.natCast_le_natCast.mpr hk
    exact this
  have hk0 : (0 : Rat) < (k : Rat) := by grind
  obtain ⟨zx, hzx⟩ := toRat_units x
  obtain ⟨zm, hzm⟩ := toRat_units m
  have hd : d = ofRatS (x.sign && !m.sign) (x.toRat - m.toRat) := sub_finite hx hm
  have c := two1074_ne
  rcases Rat.le_total (a := m.toRat) (b := x.toRat) with hle | hle
  · -- the sample is not below the mean
    by_cases h0 : x.toRat - m.toRat = 0
    · have dv := ofRatS_rep (x.sign && !m.sign) rep_zero
      rw [← h0, ← hd] at dv
      rw [h0] at dv
      have he : F64.div d (F64.ofInt (k : Int)) = ofRatS (d.sign != (F64.ofInt (k : Int)).sign) (d.toRat / (k : Rat)) := by
        rw [div_finite dv.1 kf kz, kv]
      have ev := ofRatS_rep (d.sign != (F64.ofInt (k : Int)).sign) rep_zero
      have e0 : d.toRat / (k : Rat) = 0 := by rw [dv.2]; grind
      rw [← e0, ← he] at ev
      rw [e0] at ev
      have hm' : m' = ofRatS (m.sign && (F64.div d (F64.ofInt (k : Int))).sign) (m.toRat + (F64.div d (F64.ofInt (k : Int))).toRat) :=
        add_finite hm ev.1
      have mv := ofRatS_rep (m.sign && (F64.div d (F64.ofInt (k : Int))).sign) (rep_self m hm)
      have : m.toRat + (F64.div d (F64.ofInt (k : Int))).toRat = m.toRat := by rw [ev.2]; grind
      rw [← this, ← hm'] at mv
      rw [this] at mv
      refine ⟨dv.1, mv.1, fun _ => ⟨by rw [dv.2]; exact Rat.le_refl, by rw [mv.2]; exact Rat.le_refl, by rw [mv.2]; exact hle⟩,
        fun h => ⟨by rw [dv.2]; exact Rat.le_refl, by rw [mv.2]; exact h, by rw [mv.2]; exact Rat.le_refl⟩⟩
    · have ypos : 0 < x.toRat - m.toRat := by grind
      have yb : x.toRat - m.toRat ≤ 2 * bigB := by grind
      obtain ⟨w, rw1, rw2, _, _, wpos, wle, wge⟩ := binade (x.toRat - m.toRat) (zx - zm)
        (by rw [hzx, hzm, Rat.intCast_sub]; grind) ypos yb
      have dv := round_between_rep (x.sign && !m.sign) rw1 rw2 wle wge
      rw [← hd] at dv
      have he : F64.div d (F64.ofInt (k : Int)) = ofRatS (d.sign != (F64.ofInt (k : Int)).sign) (d.toRat / (k : Rat)) := by
        rw [div_finite dv.1 kf kz, kv]
      have dnn : 0 ≤ d.toRat := by grind
      have ev := round_between_rep (d.sign != (F64.ofInt (k : Int)).sign) rep_zero rw1
        (div_nonneg' dnn hk0) (by
          have := div_le_half dnn hkq
          grind)
      rw [← he] at ev
      have hm' : m' = ofRatS (m.sign && (F64.div d (F64.ofInt (k : Int))).sign) (m.toRat + (F64.div d (F64.ofInt (k : Int))).toRat) :=
        add_finite hm ev.1
      have mv := round_between (m.sign && (F64.div d (F64.ofInt (k : Int))).sign) hm hx
        (q := m.toRat + (F64.div d (F64.ofInt (k : Int))).toRat) (by grind) (by grind)
      rw [← hm'] at mv
      refine ⟨dv.1, mv.1, fun _ => ⟨dnn, mv.2.1, mv.2.2⟩, fun h => absurd h (by grind)⟩
  · -- the sample is below the mean (or equal: done above, but harmless here)
    by_cases h0 : x.toRat - m.toRat = 0
    · have dv := ofRatS_rep (x.sign && !m.sign) rep_zero
      rw [← h0, ← hd] at dv
      rw [h0] at dv
      have he : F64.div d (F64.ofInt (k : Int)) = ofRatS (d.sign != (F64.ofInt (k : Int)).sign) (d.toRat / (k : Rat)) := by
        rw [div_finite dv.1 kf kz, kv]
      have ev := ofRatS_rep (d.sign != (F64.ofInt (k : Int)).sign) rep_zero
      have e0 : d.toRat / (k : Rat) = 0 := by rw [dv.2]; grind
      rw [← e0, ← he] at ev
      rw [e0] at ev
      have hm' : m' = ofRatS (m.sign && (F64.div d (F64.ofInt (k : Int))).sign) (m.toRat + (F64.div d (F64.ofInt (k : Int))).toRat) :=
        add_finite hm ev.1
      have mv := ofRatS_rep (m.sign && (F64.div d (F64.ofInt (k : Int))).sign) (rep_self m hm)
      have : m.toRat + (F64.div d (F64.ofInt (k : Int))).toRat = m.toRat := by rw [ev.2]; grind
      rw [← this, ← hm'] at mv
      rw [this] at mv
      have hxm : x.toRat = m.toRat := by grind
      refine ⟨dv.1, mv.1, fun h => ⟨by rw [dv.2]; exact Rat.le_refl, by rw [mv.2]; exact Rat.le_refl, by rw [mv.2]; exact h⟩,
        fun h => ⟨by rw [dv.2]; exact Rat.le_refl, by rw [mv.2]; exact h, by rw [mv.2]; exact Rat.le_refl⟩⟩
    · have ypos : 0 < m.toRat - x.toRat := by grind
      have yb : m.toRat - x.toRat ≤ 2 * bigB := by grind
      obtain ⟨w, _, _, rw1, rw2, wpos, wle, wge⟩ := binade (m.toRat - x.toRat) (zm - zx)
        (by rw [hzx, hzm, Rat.intCast_sub]; grind) ypos yb
      have dv := round_between_rep (x.sign && !m.sign) rw2 rw1 (q := x.toRat - m.toRat) (by grind) (by grind)
      rw [← hd] at dv
      have he : F64.div d (F64.ofInt (k : Int)) = ofRatS (d.sign != (F64.ofInt (k : Int)).sign) (d.toRat / (k : Rat)) := by
        rw [div_finite dv.1 kf kz, kv]
      have dnp : d.toRat ≤ 0 := by grind
      have ev := round_between_rep (d.sign != (F64.ofInt (k : Int)).sign) rw1 rep_zero
        (q := d.toRat / (k : Rat)) (by
          have := half_le_div dnp hkq
          grind) (div_nonpos' dnp hk0)
      rw [← he] at ev
      have hm' : m' = ofRatS (m.sign && (F64.div d (F64.ofInt (k : Int))).sign) (m.toRat + (F64.div d (F64.ofInt (k : Int))).toRat) :=
        add_finite hm ev.1
      have mv := round_between (m.sign && (F64.div d (F64.ofInt (k : Int))).sign) hx hm
        (q := m.toRat + (F64.div d (F64.ofInt (k : Int))).toRat) (by grind) (by grind)
      rw [← hm'] at mv
      refine ⟨dv.1, mv.1, fun h => absurd h (by grind), fun _ => ⟨dnp, mv.2.1, mv.2.2⟩⟩

/-! ### exact runs: the float recurrence simulates the rational one while everything is representable -/

/-- The float state carries exactly the rational state. -/
structure Sim (sf : NumF) (sq : Numerical Rat) : Prop where
  samples : sf.samples = sq.samples
  meanF : sf.mean.isFinite = true
  meanV : sf.mean.toRat = sq.mean
  varF : sf.variance.isFinite = true
  varV : sf.variance.toRat = sq.variance

/-- Every intermediate value of one exact Welford update is a float. -/
def StepRep (sq : Numerical Rat) (xq : Rat) : Prop :=
  Rep (xq - sq.mean) ∧
  Rep ((xq - sq.mean) / ((sq.samples + 1 : Nat) : Rat)) ∧
  Rep (sq.mean + (xq - sq.mean) / ((sq.samples + 1 : Nat) : Rat)) ∧
  Rep (xq - (sq.mean + (xq - sq.mean) / ((sq.samples + 1 : Nat) : Rat))) ∧
  Rep ((xq - sq.mean) * (xq - (sq.mean + (xq - sq.mean) / ((sq.samples + 1 : Nat) : Rat)))) ∧
  Rep (sq.variance + (xq - sq.mean) * (xq - (sq.mean + (xq - sq.mean) / ((sq.samples + 1 : Nat) : Rat))))

theorem samplefQ_mean (keep : Bool) (sq : Numerical Rat) (xq : Rat) :
    (Numerical.samplef ratOps keep sq xq).mean = sq.mean + (xq - sq.mean) / ((sq.samples + 1 : Nat) : Rat) := rfl
theorem samplefQ_var (keep : Bool) (sq : Numerical Rat) (xq : Rat) :
    (Numerical.samplef ratOps keep sq xq).variance =
      sq.variance + (xq - sq.mean) * (xq - (sq.mean + (xq - sq.mean) / ((sq.samples + 1 : Nat) : Rat))) := rfl
theorem samplefQ_samples (keep : Bool) (sq : Numerical Rat) (xq : Rat) :
    (Numerical.samplef ratOps keep sq xq).samples = sq.samples + 1 := rfl

theorem samplefF_mean (keep : Bool) (s : NumF) (v : F64) :
    (NumF.samplef keep s v).mean = F64.add s.mean (F64.div (F64.sub v s.mean) (F64.ofInt ((s.samples + 1 : Nat) : Int))) := rfl
theorem samplefF_var (keep : Bool) (s : NumF) (v : F64) :
    (NumF.samplef keep s v).variance =
      F64.add s.variance (F64.mul (F64.sub v s.mean) (F64.sub v (NumF.samplef keep s v).mean)) := rfl

theorem fv_of_rep (s : Bool) {q q' : Rat} (e : q = q') (h : Rep q') :
    (ofRatS s q).isFinite = true ∧ (ofRatS s q).toRat = q' := by
  subst e; exact ofRatS_rep s h

theorem sim_step (keep k2 : Bool) (sf : NumF) (sq : Numerical Rat) (x : F64) (hx : x.isFinite = true)
    (hs : Sim sf sq) (hn : sq.samples + 1 ≤ P53) (hr : StepRep sq x.toRat) :
    Sim (NumF.samplef keep sf x) (Numerical.samplef ratOps k2 sq x.toRat) := by
  obtain ⟨r1, r2, r3, r4, r5, r6⟩ := hr
  obtain ⟨kf, kv, kz⟩ := ofInt_count (sq.samples + 1) (by omega) hn
  have hcnt : sf.samples + 1 = sq.samples + 1 := by rw [hs.samples]
  have dv := fv_of_rep (x.sign && !sf.mean.sign) (q := x.toRat - sf.mean.toRat) (by rw [hs.meanV]) r1
  rw [← sub_finite hx hs.meanF] at dv
  have ev := fv_of_rep ((F64.sub x sf.mean).sign != (F64.ofInt ((sq.samples + 1 : Nat) : Int)).sign)
    (q := (F64.sub x sf.mean).toRat / (F64.ofInt ((sq.samples + 1 : Nat) : Int)).toRat) (by rw [dv.2, kv]) r2
  rw [← div_finite dv.1 kf kz] at ev
  have mv := fv_of_rep (sf.mean.sign && (F64.div (F64.sub x sf.mean) (F64.ofInt ((sq.samples + 1 : Nat) : Int))).sign)
    (q := sf.mean.toRat + (F64.div (F64.sub x sf.mean) (F64.ofInt ((sq.samples + 1 : Nat) : Int))).toRat)
    (by rw [hs.meanV, ev.2]) r3
  rw [← add_finite hs.meanF ev.1] at mv
  have hmean : (NumF.samplef keep sf x).mean =
      F64.add sf.mean (F64.div (F64.sub x sf.mean) (F64.ofInt ((sq.samples + 1 : Nat) : Int))) := by
    rw [samplefF_mean, hcnt]
  rw [← hmean] at mv
  have d2v := fv_of_rep (x.sign && !(NumF.samplef keep sf x).mean.sign)
    (q := x.toRat - (NumF.samplef keep sf x).mean.toRat) (by rw [mv.2]) r4
  rw [← sub_finite hx mv.1] at d2v
  have pv := fv_of_rep ((F64.sub x sf.mean).sign != (F64.sub x (NumF.samplef keep sf x).mean).sign)
    (q := (F64.sub x sf.mean).toRat * (F64.sub x (NumF.samplef keep sf x).mean).toRat) (by rw [dv.2, d2v.2]) r5
  rw [← mul_finite dv.1 d2v.1] at pv
  have vv := fv_of_rep (sf.variance.sign && (F64.mul (F64.sub x sf.mean) (F64.sub x (NumF.samplef keep sf x).mean)).sign)
    (q := sf.variance.toRat + (F64.mul (F64.sub x sf.mean) (F64.sub x (NumF.samplef keep sf x).mean)).toRat)
    (by rw [hs.varV, pv.2]) r6
  rw [← add_finite hs.varF pv.1, ← samplefF_var] at vv
  exact ⟨by rw [samplef_samples, samplefQ_samples, hs.samples], mv.1, by rw [mv.2, samplefQ_mean],
    vv.1, by rw [vv.2, samplefQ_var]⟩

theorem sim_new : Sim NumF.new (Numerical.new ratOps) := by
  refine ⟨rfl, by decide, ?_, by decide, ?_⟩
  · exact toRat_eq_zero_of_mag (by decide)
  · exact toRat_eq_zero_of_mag (by decide)

/-- The exact recurrence stays inside the floats along the whole list. -/
def AllRep : Numerical Rat → List Rat → Prop
  | _, [] => True
  | sq, x :: l => StepRep sq x ∧ AllRep (Numerical.samplef ratOps false sq x) l

theorem sim_fold (keep : Bool) (l : List F64) : ∀ (sf : NumF) (sq : Numerical Rat), Sim sf sq →
    (∀ x ∈ l, x.isFinite = true) → sq.samples + l.length ≤ P53 → AllRep sq (l.map F64.toRat) →
    Sim (l.foldl (NumF.samplef keep) sf) ((l.map F64.toRat).foldl (Numerical.samplef ratOps false) sq) := by
  induction l with
  | nil => intro sf sq h _ _ _; exact h
  | cons x l ih =>
    intro sf sq h hf hn hr
    simp only [List.map_cons, AllRep] at hr
    simp only [List.length_cons] at hn
    rw [List.foldl_cons, List.map_cons, List.foldl_cons]
    apply ih _ _ (sim_step keep false sf sq x (hf x (by simp)) h (by omega) hr.1)
      (fun y hy => hf y (by simp [hy])) (by rw [samplefQ_samples]; omega) hr.2

/-- **Exact runs.**  If all samples are finite and every intermediate value of the exact Welford recurrence on
their values is a float, then the float aggregator holds exactly the exact state. -/
theorem exact_run (keep : Bool) (l : List F64) (hf : ∀ x ∈ l, x.isFinite = true) (hn : l.length ≤ P53)
    (hr : AllRep (Numerical.new ratOps) (l.map F64.toRat)) :
    Sim (runFv keep l) (runQ false (l.map F64.toRat)) := by
  have := sim_fold keep l NumF.new (Numerical.new ratOps) sim_new hf (by
    show 0 + l.length ≤ P53; omega) hr
  exact this

/-! a decidable form of the condition, for concrete lists -/

def repB (q : Rat) : Bool := (F64.ofRat q).isFinite && decide ((F64.ofRat q).toRat = q)

theorem rep_of_repB {q : Rat} (h : repB q = true) : Rep q := by
  unfold repB at h
  simp only [Bool.and_eq_true, decide_eq_true_eq] at h
  exact ⟨F64.ofRat q, h.1, h.2⟩

def stepRepB (sq : Numerical Rat) (xq : Rat) : Bool :=
  let d := xq - sq.mean
  let m' := sq.mean + d / ((sq.samples + 1 : Nat) : Rat)
  repB d && repB (d / ((sq.samples + 1 : Nat) : Rat)) && repB m' && repB (xq - m') && repB (d * (xq - m')) &&
    repB (sq.variance + d * (xq - m'))

def allRepB : Numerical Rat → List Rat → Bool
  | _, [] => true
  | sq, x :: l => stepRepB sq x && allRepB (Numerical.samplef ratOps false sq x) l

theorem allRep_of_allRepB : ∀ (l : List Rat) (sq : Numerical Rat), allRepB sq l = true → AllRep sq l := by
  intro l
  induction l with
  | nil => intro _ _; trivial
  | cons x l ih =>
    intro sq h
    simp only [allRepB, stepRepB, Bool.and_eq_true] at h
    obtain ⟨⟨⟨⟨⟨⟨a1, a2⟩, a3⟩, a4⟩, a5⟩, a6⟩, a7⟩ := h
    exact ⟨⟨rep_of_repB a1, rep_of_repB a2, rep_of_repB a3, rep_of_repB a4, rep_of_repB a5, rep_of_repB a6⟩, ih _ a7⟩

/-! ### constant samples -/

theorem allRep_const (x : Rat) (hx : Rep x) (n : Nat) : ∀ sq : Numerical Rat, sq.mean = x → sq.variance = 0 →
    AllRep sq (List.replicate n x) ∧
    ((List.replicate n x).foldl (Numerical.samplef ratOps false) sq).mean = x ∧
    ((List.replicate n x).foldl (Numerical.samplef ratOps false) sq).variance = 0 := by
  induction n with
  | zero => intro sq h1 h2; exact ⟨trivial, h1, h2⟩
  | succ n ih =>
    intro sq h1 h2
    have hk : ((sq.samples + 1 : Nat) : Rat) ≠ 0 := by
      rw [Rat.natCast_add]; exact natCast_succ_ne_zero _
    have e1 : x - sq.mean = 0 := by rw [h1]; grind
    have e2 : (x - sq.mean) / ((sq.samples + 1 : Nat) : Rat) = 0 := by rw [e1]; grind
    have hm : (Numerical.samplef ratOps false sq x).mean = x := by rw [samplefQ_mean, e2, h1]; grind
    have hv : (Numerical.samplef ratOps false sq x).variance = 0 := by rw [samplefQ_var, e1, h2]; grind
    obtain ⟨a, b, c⟩ := ih _ hm hv
    rw [List.replicate_succ, List.foldl_cons]
    refine ⟨⟨⟨?_, ?_, ?_, ?_, ?_, ?_⟩, a⟩, b, c⟩
    · rw [e1]; exact rep_zero
    · rw [e2]; exact rep_zero
    · rw [e2, h1]; have : x + 0 = x := by grind
      rw [this]; exact hx
    · rw [e2, h1]; have : x - (x + 0) = 0 := by grind
      rw [this]; exact rep_zero
    · rw [e1]; have : ∀ q : Rat, 0 * q = 0 := by intro q; grind
      rw [this]; exact rep_zero
    · rw [e1, h2]; have : ∀ q : Rat, 0 + 0 * q = 0 := by intro q; grind
      rw [this]; exact rep_zero

theorem allRep_const_new (x : Rat) (hx : Rep x) (n : Nat) :
    AllRep (Numerical.new ratOps) (List.replicate (n + 1) x) ∧
    (runQ false (List.replicate (n + 1) x)).mean = x ∧ (runQ false (List.replicate (n + 1) x)).variance = 0 := by
  have e0 : (Numerical.new ratOps).mean = 0 := rfl
  have ev : (Numerical.new ratOps).variance = 0 := rfl
  have es : ((Numerical.new ratOps).samples + 1 : Nat) = 1 := rfl
  have hm : (Numerical.samplef ratOps false (Numerical.new ratOps) x).mean = x := by
    rw [samplefQ_mean, e0, es]
    have : ((1 : Nat) : Rat) = 1 := rfl
    rw [this]; grind
  have e3 : x - (0 + (x - 0) / ((1 : Nat) : Rat)) = 0 := by
    have : ((1 : Nat) : Rat) = 1 := rfl
    rw [this]; grind
  have hv : (Numerical.samplef ratOps false (Numerical.new ratOps) x).variance = 0 := by
    rw [samplefQ_var, e0, ev, es, e3]; grind
  obtain ⟨a, b, c⟩ := allRep_const x hx n _ hm hv
  unfold runQ
  rw [List.replicate_succ, List.foldl_cons]
  refine ⟨⟨⟨?_, ?_, ?_, ?_, ?_, ?_⟩, a⟩, b, c⟩
  all_goals (rw [e0]; try rw [es])
  · have : x - 0 = x := by grind
    rw [this]; exact hx
  · have : (x - 0) / ((1 : Nat) : Rat) = x := by
      have : ((1 : Nat) : Rat) = 1 := rfl
      rw [this]; grind
    rw [this]; exact hx
  · have : 0 + (x - 0) / ((1 : Nat) : Rat) = x := by
      have : ((1 : Nat) : Rat) = 1 := rfl
      rw [this]; grind
    rw [this]; exact hx
  · rw [e3]; exact rep_zero
  · rw [e3]; have : (x - 0) * 0 = 0 := by grind
    rw [this]; exact rep_zero
  · rw [e3, ev]; have : 0 + (x - 0) * 0 = 0 := by grind
    rw [this]; exact rep_zero

/-- Constant samples: the mean is exactly the sample and `M2` exactly zero, after every prefix. -/
theorem const_run (keep : Bool) (x : F64) (hx : x.isFinite = true) (n : Nat) (hn : n + 1 ≤ P53) :
    let r := runFv keep (List.replicate (n + 1) x)
    r.mean.isFinite = true ∧ r.mean.toRat = x.toRat ∧ r.variance.isFinite = true ∧ r.variance.toRat = 0 := by
  intro r
  obtain ⟨a, b, c⟩ := allRep_const_new x.toRat (rep_self x hx) n
  have hs := exact_run keep (List.replicate (n + 1) x)
    (fun y hy => by rw [(List.mem_replicate.mp hy).2]; exact hx) (by simpa using hn)
    (by rw [List.map_replicate]; exact a)
  rw [List.map_replicate] at hs
  exact ⟨hs.meanF, by rw [hs.meanV, b], hs.varF, by rw [hs.varV, c]⟩

/-- The first sample: mean = the sample, `M2` = 0. -/
theorem first_step (keep : Bool) (x : F64) (hx : x.isFinite = true) :
    let s := NumF.samplef keep NumF.new x
    s.samples = 1 ∧ s.mean.isFinite = true ∧ s.mean.toRat = x.toRat ∧ s.variance.isFinite = true ∧ s.variance.toRat = 0 := by
  have := const_run keep x hx 0 (by decide)
  exact ⟨rfl, this⟩

/-! ### the running mean stays inside every interval that contains the samples -/

theorem mean_between_fold (keep : Bool) (a b : Rat) (ha : -bigB ≤ a) (hb : b ≤ bigB) (l : List F64) :
    ∀ sf : NumF, 1 ≤ sf.samples → sf.samples + l.length ≤ P53 → sf.mean.isFinite = true →
      a ≤ sf.mean.toRat → sf.mean.toRat ≤ b →
      (∀ x ∈ l, x.isFinite = true ∧ a ≤ x.toRat ∧ x.toRat ≤ b) →
      (l.foldl (NumF.samplef keep) sf).mean.isFinite = true ∧
      a ≤ (l.foldl (NumF.samplef keep) sf).mean.toRat ∧ (l.foldl (NumF.samplef keep) sf).mean.toRat ≤ b := by
  induction l with
  | nil => intro sf _ _ h1 h2 h3 _; exact ⟨h1, h2, h3⟩
  | cons x l ih =>
    intro sf hk hn hf h1 h2 hl
    obtain ⟨xf, xa, xb⟩ := hl x (by simp)
    simp only [List.length_cons] at hn
    have st := mean_step_between sf.mean x (sf.samples + 1) (by omega) (by omega) hf xf
      ⟨by grind, by grind⟩ ⟨by grind, by grind⟩
    simp only [] at st
    rw [← samplefF_mean keep] at st
    obtain ⟨_, mf, c1, c2⟩ := st
    rw [List.foldl_cons]
    have hbtw : a ≤ (NumF.samplef keep sf x).mean.toRat ∧ (NumF.samplef keep sf x).mean.toRat ≤ b := by
      rcases Rat.le_total (a := sf.mean.toRat) (b := x.toRat) with h | h
      · have := c1 h; exact ⟨by grind, by grind⟩
      · have := c2 h; exact ⟨by grind, by grind⟩
    exact ih _ (by rw [samplef_samples]; omega) (by rw [samplef_samples]; omega) mf hbtw.1 hbtw.2
      (fun y hy => hl y (by simp [hy]))

/-- For finite samples of magnitude at most `2^1021` (at most `2^53` of them) the mean lies in every interval
that contains them all – rounding is monotone, so no update can leave the interval. -/
theorem mean_between (keep : Bool) (a b : Rat) (ha : -bigB ≤ a) (hb : b ≤ bigB) (l : List F64) (hne : l ≠ [])
    (hn : l.length ≤ P53) (hl : ∀ x ∈ l, x.isFinite = true ∧ a ≤ x.toRat ∧ x.toRat ≤ b) :
    (runFv keep l).mean.isFinite = true ∧ a ≤ (runFv keep l).mean.toRat ∧ (runFv keep l).mean.toRat ≤ b := by
  obtain ⟨x, l', rfl⟩ := List.exists_cons_of_ne_nil hne
  obtain ⟨xf, xa, xb⟩ := hl x (by simp)
  obtain ⟨s1, s2, s3, _, _⟩ := first_step keep x xf
  simp only [List.length_cons] at hn
  unfold runFv
  rw [List.foldl_cons]
  exact mean_between_fold keep a b ha hb l' _ (by rw [s1]; omega) (by rw [s1]; omega) s2
    (by rw [s3]; exact xa) (by rw [s3]; exact xb) (fun y hy => hl y (by simp [hy]))

/-! ### `M2` never decreases below zero: `Variance()` and `StdDev()` are never NaN -/

/-- Not NaN and not negative (`+Inf` allowed: the products may overflow). -/
def VarOK (v : F64) : Prop := v.isNaN = false ∧ 0 ≤ v.key

theorem varOK_ofRatS (s : Bool) {q : Rat} (h : 0 ≤ q) : VarOK (ofRatS s q) := by
  refine ⟨isNaN_ofRatS s q, ?_⟩
  rw [key_ofRatS, if_neg (by grind)]
  omega

theorem varOK_sign_of_mag {v : F64} (h : VarOK v) (hm : v.mag ≠ 0) : v.sign = false := by
  have := h.2
  unfold key at this
  cases hs : v.sign
  · rfl
  · rw [hs] at this; simp only [if_true] at this; omega

theorem varOK_toRat {v : F64} (h : VarOK v) : 0 ≤ v.toRat := by
  rw [toRat_eq_keyVal]
  unfold keyVal
  rw [if_neg (by have := h.2; omega)]
  exact magVal_nonneg _

theorem finite_of_not_nan_inf {v : F64} (h1 : v.isNaN = false) (h2 : v.isInf = false) : v.isFinite = true := by
  simp [isNaN, isInf, isFinite] at *; omega

theorem varOK_add {v p : F64} (hv : VarOK v) (hp : VarOK p) : VarOK (F64.add v p) := by
  unfold F64.add
  rw [hv.1, hp.1]
  simp only [Bool.or_self, Bool.false_eq_true, if_false]
  cases hvi : v.isInf
  · cases hpi : p.isInf
    · simp only [Bool.false_eq_true, if_false]
      have fv := finite_of_not_nan_inf hv.1 hvi
      have fp := finite_of_not_nan_inf hp.1 hpi
      have a := varOK_toRat hv
      have b := varOK_toRat hp
      exact varOK_ofRatS _ (by grind)
    · simp only [Bool.false_eq_true, if_false, if_true]; exact hp
  · simp only [if_true]
    have hvm : v.mag ≠ 0 := by simp [isInf] at hvi; omega
    have sv := varOK_sign_of_mag hv hvm
    cases hpi : p.isInf
    · simp only [Bool.false_and, Bool.false_eq_true, if_false]; exact hv
    · have hpm : p.mag ≠ 0 := by simp [isInf] at hpi; omega
      have sp := varOK_sign_of_mag hp hpm
      rw [sv, sp]; simp only [bne_self_eq_false, Bool.and_false, Bool.false_eq_true, if_false]; exact hv

theorem varOK_mul_finite {d d2 : F64} (hd : d.isFinite = true) (hd2 : d2.isFinite = true)
    (h : 0 ≤ d.toRat * d2.toRat) : VarOK (F64.mul d d2) := by
  rw [mul_finite hd hd2]; exact varOK_ofRatS _ h

theorem ofInt_count_sign (k : Nat) (hk1 : 1 ≤ k) (hk : k ≤ P53) : (F64.ofInt (k : Int)).sign = false := by
  obtain ⟨_, kv, _⟩ := ofInt_count k hk1 hk
  cases hs : (F64.ofInt (k : Int)).sign
  · rfl
  · have := toRat_of_neg hs
    rw [kv] at this
    have h1 := magVal_nonneg (F64.ofInt (k : Int)).mag
    have h2 : (0 : Rat) < (k : Rat) := natCast_pos_of_pos (by omega)
    grind

theorem varOK_div_count {v : F64} (hv : VarOK v) (k : Nat) (hk1 : 1 ≤ k) (hk : k ≤ P53) :
    VarOK (F64.div v (F64.ofInt (k : Int))) := by
  obtain ⟨kf, kv, kz⟩ := ofInt_count k hk1 hk
  have ks := ofInt_count_sign k hk1 hk
  have hk0 : (0 : Rat) < (k : Rat) := natCast_pos_of_pos (by omega)
  cases hvi : v.isInf
  · have fv := finite_of_not_nan_inf hv.1 hvi
    rw [div_finite fv kf kz, kv]
    exact varOK_ofRatS _ (div_nonneg' (varOK_toRat hv) hk0)
  · have hvm : v.mag ≠ 0 := by simp [isInf] at hvi; omega
    have sv := varOK_sign_of_mag hv hvm
    unfold F64.div
    rw [hv.1, not_nan_of_finite kf, hvi, not_inf_of_finite kf, sv, ks]
    simp only [Bool.or_self, Bool.false_eq_true, if_false, if_true, bne_self_eq_false]
    exact ⟨by decide, by decide⟩

theorem varOK_sqrt {v : F64} (hv : VarOK v) : VarOK (F64.sqrt v) := by
  unfold F64.sqrt
  rw [hv.1]
  simp only [Bool.false_eq_true, if_false]
  cases hz : v.isZero
  · have hm : v.mag ≠ 0 := by simp [isZero] at hz; exact hz
    rw [varOK_sign_of_mag hv hm]
    simp only [Bool.false_eq_true, if_false]
    cases hi : v.isInf
    · simp only [Bool.false_eq_true, if_false]
      split
      · exact varOK_ofRatS _ (div_nonneg' Rat.natCast_nonneg (pow2_cast_pos _))
      · exact varOK_ofRatS _ (div_nonneg' Rat.natCast_nonneg (pow2_cast_pos _))
    · simp only [if_true]; exact hv
  · simp only [if_true]; exact hv

theorem rep_two_bigB : Rep (2 * bigB) := by
  have := rep_of_dyadic 1 2096 (by decide) (by
    rw [Nat.one_mul]; exact Nat.pow_lt_pow_right (by decide) (by decide))
  have e : ((1 * 2 ^ 2096 : Nat) : Rat) / two1074 = 2 * bigB := by decide +kernel
  rwa [e] at this

/-- Invariant of the whole run for bounded finite samples. -/
structure RunOK (s : NumF) : Prop where
  meanF : s.mean.isFinite = true
  meanLo : -bigB ≤ s.mean.toRat
  meanHi : s.mean.toRat ≤ bigB
  var : VarOK s.variance

theorem runOK_step (keep : Bool) (s : NumF) (x : F64) (hk : 1 ≤ s.samples) (hn : s.samples + 1 ≤ P53)
    (h : RunOK s) (xf : x.isFinite = true) (xl : -bigB ≤ x.toRat) (xh : x.toRat ≤ bigB) :
    RunOK (NumF.samplef keep s x) := by
  have hlo := h.meanLo
  have hhi := h.meanHi
  have st := mean_step_between s.mean x (s.samples + 1) (by omega) hn h.meanF xf ⟨h.meanLo, h.meanHi⟩ ⟨xl, xh⟩
  simp only [] at st
  rw [← samplefF_mean keep] at st
  obtain ⟨df, mf, c1, c2⟩ := st
  have hd2 : F64.sub x (NumF.samplef keep s x).mean =
      ofRatS (x.sign && !(NumF.samplef keep s x).mean.sign) (x.toRat - (NumF.samplef keep s x).mean.toRat) :=
    sub_finite xf mf
  have r2 := rep_two_bigB
  rcases Rat.le_total (a := s.mean.toRat) (b := x.toRat) with hle | hle
  · obtain ⟨dnn, m1, m2⟩ := c1 hle
    have d2v := round_between_rep (x.sign && !(NumF.samplef keep s x).mean.sign) rep_zero r2
      (q := x.toRat - (NumF.samplef keep s x).mean.toRat) (by grind) (by grind)
    rw [← hd2] at d2v
    have pv : VarOK (F64.mul (F64.sub x s.mean) (F64.sub x (NumF.samplef keep s x).mean)) :=
      varOK_mul_finite df d2v.1 (Rat.mul_nonneg dnn d2v.2.1)
    refine ⟨mf, by grind, by grind, ?_⟩
    rw [samplefF_var]; exact varOK_add h.var pv
  · obtain ⟨dnp, m1, m2⟩ := c2 hle
    have d2v := round_between_rep (x.sign && !(NumF.samplef keep s x).mean.sign) (rep_neg r2) rep_zero
      (q := x.toRat - (NumF.samplef keep s x).mean.toRat) (by grind) (by grind)
    rw [← hd2] at d2v
    have pv : VarOK (F64.mul (F64.sub x s.mean) (F64.sub x (NumF.samplef keep s x).mean)) := by
      apply varOK_mul_finite df d2v.1
      have := Rat.mul_nonneg (a := -(F64.sub x s.mean).toRat) (b := -(F64.sub x (NumF.samplef keep s x).mean).toRat)
        (by grind) (by grind)
      grind
    refine ⟨mf, by grind, by grind, ?_⟩
    rw [samplefF_var]; exact varOK_add h.var pv

theorem runOK_fold (keep : Bool) (l : List F64) : ∀ s : NumF, 1 ≤ s.samples → s.samples + l.length ≤ P53 → RunOK s →
    (∀ x ∈ l, x.isFinite = true ∧ -bigB ≤ x.toRat ∧ x.toRat ≤ bigB) →
    RunOK (l.foldl (NumF.samplef keep) s) := by
  induction l with
  | nil => intro s _ _ h _; exact h
  | cons x l ih =>
    intro s hk hn h hl
    obtain ⟨xf, xa, xb⟩ := hl x (by simp)
    simp only [List.length_cons] at hn
    rw [List.foldl_cons]
    exact ih _ (by rw [samplef_samples]; omega) (by rw [samplef_samples]; omega)
      (runOK_step keep s x hk (by omega) h xf xa xb) (fun y hy => hl y (by simp [hy]))

/-- For finite samples of magnitude at most `2^1021`: `M2`, `Variance()` and `StdDev()` are never NaN and
never negative (they may be `+Inf` when a product overflows). -/
theorem var_nonneg (keep : Bool) (l : List F64) (hn : l.length ≤ P53)
    (hl : ∀ x ∈ l, x.isFinite = true ∧ -bigB ≤ x.toRat ∧ x.toRat ≤ bigB) :
    VarOK (runFv keep l).variance ∧ VarOK (runFv keep l).varianceF ∧ VarOK (runFv keep l).stdDev := by
  have hv : VarOK (runFv keep l).variance := by
    cases l with
    | nil =>
      have : (runFv keep []).variance = F64.zero false := rfl
      rw [this]; exact ⟨by decide, by decide⟩
    | cons x l' =>
      obtain ⟨xf, xa, xb⟩ := hl x (by simp)
      obtain ⟨s1, s2, s3, s4, s5⟩ := first_step keep x xf
      simp only [List.length_cons] at hn
      unfold runFv
      rw [List.foldl_cons]
      refine (runOK_fold keep l' _ (by rw [s1]; omega) (by rw [s1]; omega) ⟨s2, by rw [s3]; exact xa, by rw [s3]; exact xb, ?_⟩
        (fun y hy => hl y (by simp [hy]))).var
      refine ⟨not_nan_of_finite s4, ?_⟩
      have hm : (NumF.samplef keep NumF.new x).variance.mag = 0 := (toRat_eq_zero_iff _).mp s5
      unfold key; rw [hm]; split <;> omega
  have hvf : VarOK (runFv keep l).varianceF := by
    unfold NumF.varianceF Numerical.varianceOf
    split
    · rename_i hgt
      have hs := runFv_samples keep l
      exact varOK_div_count hv _ (by omega) (by omega)
    · exact ⟨by decide, by decide⟩
  exact ⟨hv, hvf, varOK_sqrt hvf⟩

end Rare.C07
