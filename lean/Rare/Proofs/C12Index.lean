import Rare.Model.C12
import Rare.Proofs.C12Spec
/-! `indexIgnoreCase s low` (mirrored loops) is `strings.Index` on the byte-wise lowered `s`. -/
namespace Rare.C12

theorem firstIndex_none_of_short {n h : Bytes} (hl : h.length < n.length) : firstIndex n h = none := by
  cases hf : firstIndex n h with
  | none => rfl
  | some i => have := (firstIndex_some_prefix hf).2; omega

theorem foldEq_eq (s low : Bytes) : foldEq s low = low.isPrefixOf (lower s) := by
  induction s generalizing low with
  | nil => cases low <;> simp [foldEq, lower]
  | cons c cs ih =>
    cases low with
    | nil => simp [foldEq]
    | cons l ls =>
      simp only [foldEq, lower, List.map_cons, List.isPrefixOf]
      have := ih ls
      simp only [lower] at this
      rw [this]
      by_cases h : lowerByte c = l
      · simp [h]
      · have h' : ¬ l = lowerByte c := fun e => h e.symm
        simp [h, h']

theorem icLoop_eq (low : Bytes) (rest : Bytes) (i : Nat) :
    icLoop low low.length rest i =
      match firstIndex low (lower rest) with
      | some k => ((i + k : Nat) : Int)
      | none => -1 := by
  induction rest generalizing i with
  | nil =>
    simp only [icLoop, lower, List.map_nil, firstIndex]
    cases low with
    | nil => simp [foldEq]
    | cons l ls => simp
  | cons c cs ih =>
    simp only [icLoop]
    split
    · rename_i hlt
      rw [firstIndex_none_of_short (by simpa [lower_length] using hlt)]
    · rw [foldEq_eq]
      simp only [lower, List.map_cons, firstIndex]
      split
      · simp
      · rw [ih (i + 1)]
        simp only [lower]
        cases firstIndex low (List.map lowerByte cs) with
        | none => simp
        | some k => simp only [Option.map_some]; congr 1; omega

theorem indexIgnoreCase_eq (s low : Bytes) : indexIgnoreCase s low = stringsIndex (lower s) low := by
  simp only [indexIgnoreCase, stringsIndex]
  split
  · rename_i h0
    have : low = [] := List.length_eq_zero_iff.mp h0
    subst this; simp [firstIndex_nil]
  · split
    · rename_i hlt
      rw [firstIndex_none_of_short (by simpa [lower_length] using hlt)]
    · split
      · rename_i hne _ heq
        rw [foldEq_eq]
        cases hs : lower s with
        | nil =>
          have : s.length = 0 := by simpa [lower] using congrArg List.length hs
          omega
        | cons c cs =>
          simp only [firstIndex]
          split
          · simp
          · rename_i hnp
            cases hf : firstIndex low cs with
            | none => simp
            | some k =>
              exfalso
              have := (firstIndex_some_prefix hf).2
              have hl : (lower s).length = cs.length + 1 := by rw [hs]; rfl
              rw [lower_length] at hl
              omega
      · rw [icLoop_eq]
        cases firstIndex low (lower s) <;> simp

/-- the installed search function, uniformly: search the (possibly lowered) line -/
theorem indexOf_eq (d : Dissect) (src of_ : Bytes) :
    d.indexOf src of_ = stringsIndex (if d.ic then lower src else src) of_ := by
  simp only [Dissect.indexOf]
  split <;> simp [indexIgnoreCase_eq]

end Rare.C12
