import Rare.Proofs.C13Lower
import Rare.Proofs.C13Num
import Rare.Proofs.C13Main
/-! C13: the closures built with the modelled `strings.ToLower` (`goToLower tl`) and with its
look-up equivalent `lowerK` give the same answers along every comparison sequence. -/
namespace Rare.C13
open Rare

/-- Two closures over the same captured variables agree (answer and next state) from every state
satisfying `Inv`, and `Inv` is preserved. -/
def EqOn {α σ : Type} (Inv : σ → Prop) (c1 c2 : SCmp α σ) : Prop :=
  ∀ s a b, Inv s → c1 s a b = c2 s a b ∧ Inv (c1 s a b).2

theorem EqOn.refl {α σ : Type} (c : SCmp α σ) : EqOn (fun _ => True) c c :=
  fun _ _ _ _ => ⟨rfl, trivial⟩

theorem EqOn.run_eq {α σ ρ : Type} {Inv : σ → Prop} {c1 c2 : SCmp α σ} (h : EqOn Inv c1 c2) :
    ∀ (alg : Algo α ρ) (s : σ), Inv s → Algo.run c1 s alg = Algo.run c2 s alg := by
  intro alg
  induction alg with
  | done r => intro s _; rfl
  | ask a b k ih =>
    intro s hs
    have := h s a b hs
    simp only [Algo.run]
    rw [← this.1]
    exact ih _ _ this.2

theorem EqOn.runSeq_eq {α σ : Type} {Inv : σ → Prop} {c1 c2 : SCmp α σ} (h : EqOn Inv c1 c2) :
    ∀ (pairs : List (α × α)) (s : σ), Inv s → runSeq c1 s pairs = runSeq c2 s pairs := by
  intro pairs
  induction pairs with
  | nil => intro s _; rfl
  | cons p rest ih =>
    intro s hs
    obtain ⟨a, b⟩ := p
    have := h s a b hs
    simp only [runSeq]
    rw [← this.1]
    rw [ih _ this.2]

theorem EqOn.valueNil {σ : Type} {Inv : σ → Prop} {c1 c2 : SCmp Key σ} (h : EqOn Inv c1 c2) :
    EqOn Inv (valueNilSorter c1) (valueNilSorter c2) :=
  fun s a b hs => h s a.name b.name hs

theorem EqOn.reverse {α σ : Type} {Inv : σ → Prop} {c1 c2 : SCmp α σ} (h : EqOn Inv c1 c2) :
    EqOn Inv (reverse c1) (reverse c2) := by
  intro s a b hs
  have := h s a b hs
  unfold Rare.C13.reverse
  simp only
  rw [← this.1]
  exact ⟨rfl, this.2⟩

/-- The two lower-casing functions answer every look-up in the tables `sets` alike. -/
def LookupAgree (sets : List SortSet) (l1 l2 : Key → Key) : Prop :=
  ∀ set ∈ sets, ∀ k, set.get (l1 k) = set.get (l2 k)

theorem find?_congr' {α : Type} : ∀ (l : List α) (p q : α → Bool), (∀ x ∈ l, p x = q x) → l.find? p = l.find? q
  | [], _, _, _ => rfl
  | x :: xs, p, q, h => by
    rw [List.find?_cons, List.find?_cons, h x (List.mem_cons_self ..)]
    rw [find?_congr' xs p q (fun y hy => h y (List.mem_cons_of_mem _ hy))]

theorem infer_agree {sets : List SortSet} {l1 l2 : Key → Key} (h : LookupAgree sets l1 l2) (k : Key) :
    inferSortSetByValue sets l1 k = inferSortSetByValue sets l2 k := by
  unfold inferSortSetByValue
  simp only
  exact find?_congr' sets _ _ (fun set hset => by rw [h set hset k])

theorem infer_mem {sets : List SortSet} {l : Key → Key} {k : Key} {set : SortSet}
    (h : inferSortSetByValue sets l k = some set) : set ∈ sets :=
  List.mem_of_find?_eq_some h

/-- the captured `set` is `nil` or one of `sortSets` -/
def CtxInv (sets : List SortSet) (st : CtxState) : Prop := st.set = none ∨ ∃ set ∈ sets, st.set = some set

theorem ctx_eqOn {σ : Type} (sets : List SortSet) (l1 l2 : Key → Key) (h : LookupAgree sets l1 l2)
    {InvF : σ → Prop} {fb1 fb2 : SCmp Key σ} (hfb : EqOn InvF fb1 fb2) :
    EqOn (fun s => CtxInv sets s.1 ∧ InvF s.2) (byContextualEx sets l1 fb1) (byContextualEx sets l2 fb2) := by
  intro s a b ⟨hs, hF⟩
  obtain ⟨st, sf⟩ := s
  have hfbab := hfb sf a b hF
  -- the state after the inference step is the same, and still satisfies the invariant
  have hst : ∀ l : Key → Key, CtxInv sets
      (if (!st.fallback && st.set.isNone) = true then
        ({ set := inferSortSetByValue sets l a, fallback := (inferSortSetByValue sets l a).isNone } : CtxState)
       else st) := by
    intro l
    split
    · cases hi : inferSortSetByValue sets l a with
      | none => exact Or.inl rfl
      | some set => exact Or.inr ⟨set, infer_mem hi, rfl⟩
    · exact hs
  have hinf := infer_agree h a
  unfold byContextualEx
  simp only
  rw [← hinf]
  generalize hst1 : (if (!st.fallback && st.set.isNone) = true then
        ({ set := inferSortSetByValue sets l1 a, fallback := (inferSortSetByValue sets l1 a).isNone } : CtxState)
       else st) = st1
  have hinv1 : CtxInv sets st1 := by rw [← hst1]; exact hst l1
  have hlook : ∀ k, st1.set.bind (fun m => m.get (l1 k)) = st1.set.bind (fun m => m.get (l2 k)) := by
    intro k
    rcases hinv1 with hn | ⟨set, hmem, hsome⟩
    · rw [hn]; rfl
    · rw [hsome]; exact h set hmem k
  rw [← hlook a, ← hlook b, ← hfbab.1]
  cases st1.fallback with
  | true =>
    simp only [Bool.not_true, Bool.false_eq_true, if_false]
    exact ⟨(by first | trivial | rfl), hinv1, hfbab.2⟩
  | false =>
    simp only [Bool.not_false, if_true]
    cases st1.set.bind (fun m => m.get (l1 a)) with
    | none => exact ⟨(by first | trivial | rfl), hinv1, hfbab.2⟩
    | some v0 =>
      cases st1.set.bind (fun m => m.get (l1 b)) with
      | none => exact ⟨(by first | trivial | rfl), hinv1, hfbab.2⟩
      | some v1 => exact ⟨(by first | trivial | rfl), hinv1, hF⟩

theorem date_eqOn {σ : Type} (o : Oracle) {InvF : σ → Prop} {fb1 fb2 : SCmp Key σ} (hfb : EqOn InvF fb1 fb2) :
    EqOn (fun s => InvF s.2) (byDate o fb1) (byDate o fb2) := by
  intro s a b hF
  obtain ⟨⟨fmt, fbk⟩, sf⟩ := s
  have hfbab := hfb sf a b hF
  have tail : ∀ (f : Nat) (st1 : DateState),
      (match o.dparse f a, o.dparse f b with
        | some d0, some d1 => ((if d0 = d1 then bytesLt a b else decide (d0 < d1)), (st1, sf))
        | _, _ => ((fb1 sf a b).1, (({ st1 with fallback := true } : DateState), (fb1 sf a b).2)))
      = (match o.dparse f a, o.dparse f b with
        | some d0, some d1 => ((if d0 = d1 then bytesLt a b else decide (d0 < d1)), (st1, sf))
        | _, _ => ((fb2 sf a b).1, (({ st1 with fallback := true } : DateState), (fb2 sf a b).2)))
      ∧ InvF (match o.dparse f a, o.dparse f b with
        | some d0, some d1 => ((if d0 = d1 then bytesLt a b else decide (d0 < d1)), (st1, sf))
        | _, _ => ((fb1 sf a b).1, (({ st1 with fallback := true } : DateState), (fb1 sf a b).2))).2.2 := by
    intro f st1
    rw [← hfbab.1]
    cases o.dparse f a with
    | none => exact ⟨rfl, hfbab.2⟩
    | some d0 =>
      cases o.dparse f b with
      | none => exact ⟨rfl, hfbab.2⟩
      | some d1 => exact ⟨rfl, hF⟩
  cases fbk with
  | true =>
    simp only [byDate, Bool.not_true, Bool.false_eq_true, if_false]
    rw [← hfbab.1]
    exact ⟨(by first | trivial | rfl), hfbab.2⟩
  | false =>
    cases fmt with
    | some f =>
      simp only [byDate, Bool.not_false, if_true, Option.isNone_some, Bool.false_eq_true, if_false]
      exact tail f _
    | none =>
      cases hd : o.dfmt a with
      | some f =>
        simp only [byDate, Bool.not_false, if_true, Option.isNone_none, hd]
        exact tail f _
      | none =>
        simp only [byDate, Bool.not_false, if_true, Option.isNone_none, hd]
        rw [← hfbab.1]
        exact ⟨(by first | trivial | rfl), hfbab.2⟩

/-- ASCII-keyed tables: every key of every table is an ASCII string. -/
def AsciiKeys (sets : List SortSet) : Prop := ∀ set ∈ sets, ∀ e ∈ set, e.1.all (fun c => c < 128) = true

theorem lookup_congr {x y : Key} : ∀ (m : SortSet), (∀ e ∈ m, (x = e.1 ↔ y = e.1)) → m.get x = m.get y
  | [], _ => rfl
  | e :: rest, h => by
    unfold SortSet.get at *
    rw [List.lookup_cons, List.lookup_cons]
    have he := h e (List.mem_cons_self ..)
    by_cases hx : x = e.1
    · have hy := he.mp hx
      simp [hx, hy]
    · have hy : ¬ y = e.1 := fun hy => hx (he.mpr hy)
      have e1 : (x == e.1) = false := by simpa using hx
      have e2 : (y == e.1) = false := by simpa using hy
      rw [e1, e2]
      exact lookup_congr rest (fun e' he' => h e' (List.mem_cons_of_mem _ he'))

/-- On ASCII-keyed tables `strings.ToLower` and `lowerK` answer every look-up alike. -/
theorem lookupAgree_lower (tl : Nat → Nat) (h : RuneLower tl) (sets : List SortSet) (ha : AsciiKeys sets) :
    LookupAgree sets (goToLower tl) lowerK := by
  intro set hset k
  apply lookup_congr
  intro e he
  exact lower_lookup tl h k e.1 (ha set hset e he)

/-- `contextual` built with `strings.ToLower` = `contextual` built with `lowerK`, along every
adaptive comparison sequence. -/
theorem contextual_lower_run (tl : Nat → Nat) (h : RuneLower tl) (sets : List SortSet) (ha : AsciiKeys sets)
    (d : DateLib) {ρ : Type} (alg : Algo Key ρ) :
    Algo.run (byContextual (goOracle tl d) sets) ({}, ()) alg = Algo.run (byContextual (realOracle d) sets) ({}, ()) alg := by
  have e := ctx_eqOn sets (goToLower tl) lowerK (lookupAgree_lower tl h sets ha) (EqOn.refl (pureCmp (byNameSmart realNum)))
  exact e.run_eq alg ({}, ()) ⟨Or.inl rfl, trivial⟩

/-- … and `date` (whose fallback is `contextual`). -/
theorem date_lower_run (tl : Nat → Nat) (h : RuneLower tl) (sets : List SortSet) (ha : AsciiKeys sets)
    (d : DateLib) {ρ : Type} (alg : Algo Key ρ) :
    Algo.run (byDateWithContextual (goOracle tl d) sets) ({}, {}, ()) alg
      = Algo.run (byDateWithContextual (realOracle d) sets) ({}, {}, ()) alg := by
  have e := ctx_eqOn sets (goToLower tl) lowerK (lookupAgree_lower tl h sets ha) (EqOn.refl (pureCmp (byNameSmart realNum)))
  have e2 := date_eqOn (goOracle tl d) e
  exact e2.run_eq alg ({}, {}, ()) ⟨Or.inl rfl, trivial⟩

end Rare.C13
