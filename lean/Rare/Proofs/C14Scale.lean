import Rare.Model.C14
import Rare.Spec.C14
/-!
Scaler laws over ℚ.  `ratArith L2 L10` is the exact-arithmetic instance of the `float64` operations:
`ofInt` is the exact cast (equal to the float64 conversion for |v| < 2^53), `+ - * /` are exact,
`floor/ceil` are the integer floor/ceiling, `int(f)` truncates toward zero, and the two logarithms
are abstract functions (math.Log2/Log10 are a trusted library) assumed monotone and non-negative
above 1 – the code itself maps everything `≤ 1` to 0.
-/
namespace Rare.C14
open Rare

/-- Go `int(f)` on exact values: truncation toward zero -/
def ratTrunc (q : Rat) : Int := if 0 ≤ q then q.floor else q.ceil

def ratArith (L2 L10 : Rat → Rat) : Arith Rat :=
  { ofInt := fun i => (i : Rat), add := (· + ·), sub := (· - ·), mul := (· * ·), div := (· / ·),
    floor := fun q => (q.floor : Rat), ceil := fun q => (q.ceil : Rat),
    le := fun a b => decide (a ≤ b), beq := fun a b => decide (a = b),
    trunc := ratTrunc, log2 := L2, log10 := L10, pow2 := id, pow10 := id }

/-- what is assumed of a logarithm: monotone and non-negative on `(1, ∞)` -/
structure LogLike (L : Rat → Rat) : Prop where
  mono : ∀ x y, 1 < x → x ≤ y → L x ≤ L y
  nonneg : ∀ x, 1 < x → 0 ≤ L x

theorem div_le_div_right_pos {a b c : Rat} (h : a ≤ b) (hc : 0 < c) : a / c ≤ b / c := by
  rw [Rat.div_def, Rat.div_def]
  exact Rat.mul_le_mul_of_nonneg_right h (Rat.le_of_lt (Rat.inv_pos.mpr hc))

theorem div_self_pos {c : Rat} (hc : 0 < c) : c / c = 1 := by
  rw [Rat.div_def]; exact Rat.mul_inv_cancel c (by intro h; rw [h] at hc; exact absurd hc (by decide))

theorem zero_div' (c : Rat) : (0 : Rat) / c = 0 := by rw [Rat.div_def, Rat.zero_mul]

theorem unit_of_between {x a b : Rat} (h1 : a ≤ x) (h2 : x ≤ b) (hab : a < b) :
    0 ≤ (x - a) / (b - a) ∧ (x - a) / (b - a) ≤ 1 := by
  have hc : 0 < b - a := by grind
  constructor
  · have := div_le_div_right_pos (a := 0) (b := x - a) (c := b - a) (by grind) hc
    rwa [zero_div'] at this
  · have := div_le_div_right_pos (a := x - a) (b := b - a) (c := b - a) (by grind) hc
    rwa [div_self_pos hc] at this

section
variable {L2 L10 : Rat → Rat}

/-- the mapped value is monotone in the (integer) argument -/
theorem mapVal_mono (h2 : LogLike L2) (h10 : LogLike L10) (k : Scaler) {a b : Int} (hab : a ≤ b) :
    mapVal (ratArith L2 L10) k ((a : Int) : Rat) ≤ mapVal (ratArith L2 L10) k ((b : Int) : Rat) := by
  have hc : ((a : Int) : Rat) ≤ ((b : Int) : Rat) := Rat.intCast_le_intCast.mpr hab
  cases k with
  | linear => simpa [mapVal] using hc
  | log2 =>
    simp only [mapVal, ratArith, decide_eq_true_eq, Rat.intCast_one, Rat.intCast_zero]
    split <;> split
    · exact Rat.le_refl
    · exact h2.nonneg _ (by grind)
    · grind
    · exact h2.mono _ _ (by grind) hc
  | log10 =>
    simp only [mapVal, ratArith, decide_eq_true_eq, Rat.intCast_one, Rat.intCast_zero]
    split <;> split
    · exact Rat.le_refl
    · exact h10.nonneg _ (by grind)
    · grind
    · exact h10.mono _ _ (by grind) hc

theorem floor_succ_le_of_lt {x y : Rat} (h : ((x.floor : Int) : Rat) < ((y.ceil : Int) : Rat)) : x ≤ ((y.ceil : Int) : Rat) := by
  have h1 : x.floor < y.ceil := Rat.intCast_lt_intCast.mp h
  have h2 : x.floor + 1 ≤ y.ceil := h1
  have h3 : x < ((x.floor + 1 : Int) : Rat) := Rat.lt_floor_add_one x
  have h4 : ((x.floor + 1 : Int) : Rat) ≤ ((y.ceil : Int) : Rat) := Rat.intCast_le_intCast.mpr h2
  grind

/-- the shape of `scale` inside the range: the guard chain passed and the remapped range is increasing -/
theorem scale_in_range (k : Scaler) {val min max : Int} (h1 : min ≤ val) (h2 : val ≤ max) :
    scale (ratArith L2 L10) k val min max =
      let r := remapMinMax (ratArith L2 L10) k min max
      if r.2 ≤ r.1 then 0 else (mapVal (ratArith L2 L10) k (val : Rat) - r.1) / (r.2 - r.1) := by
  have h3 : ¬ max < min := by omega
  have h4 : ¬ val < min := by omega
  have h5 : ¬ val > max := by omega
  simp only [scale, h3, h4, h5, if_false]
  simp only [ratArith, decide_eq_true_eq]
  rfl

theorem scale_bounds (h2 : LogLike L2) (h10 : LogLike L10) (k : Scaler) (val min max : Int) :
    0 ≤ scale (ratArith L2 L10) k val min max ∧ scale (ratArith L2 L10) k val min max ≤ 1 := by
  have h01 : (0 : Rat) ≤ 1 := by decide
  by_cases g1 : max < min
  · simp [scale, g1, ratArith, h01]
  by_cases g2 : val < min
  · simp [scale, g1, g2, ratArith, h01]
  by_cases g3 : val > max
  · simp [scale, g1, g2, g3, ratArith, h01]
  rw [scale_in_range k (by omega) (by omega)]
  simp only
  split
  · simp [h01]
  · rename_i hlt
    have hlt' : (remapMinMax (ratArith L2 L10) k min max).1 < (remapMinMax (ratArith L2 L10) k min max).2 := by grind
    apply unit_of_between _ _ hlt'
    · -- floor (M min) ≤ M min ≤ M val
      have hm := mapVal_mono h2 h10 k (show min ≤ val by omega)
      have hf := Rat.floor_le (mapVal (ratArith L2 L10) k ((min : Int) : Rat))
      simp only [remapMinMax, ratArith] at hf ⊢
      simp only [ratArith] at hm
      grind
    · by_cases hdeg : max ≤ min
      · -- val = min = max: floor (M val) < ceil (…) forces M val ≤ ceil (…)
        have hv : val = min := by omega
        subst hv
        simp only [remapMinMax, ratArith, hdeg, if_true] at hlt' ⊢
        exact floor_succ_le_of_lt hlt'
      · have hm := mapVal_mono h2 h10 k (show val ≤ max by omega)
        have hc := Rat.le_ceil (x := mapVal (ratArith L2 L10) k ((max : Int) : Rat))
        simp only [remapMinMax, ratArith, hdeg, if_false] at hc ⊢
        simp only [ratArith] at hm
        grind

theorem scale_mono (h2 : LogLike L2) (h10 : LogLike L10) (k : Scaler) {val val' : Int} (min max : Int) (hv : val ≤ val') :
    scale (ratArith L2 L10) k val min max ≤ scale (ratArith L2 L10) k val' min max := by
  by_cases g1 : max < min
  · simp [scale, g1]
  by_cases g2 : val < min
  · have := (scale_bounds h2 h10 k val' min max).1
    simpa [scale, g1, g2, ratArith] using this
  by_cases g3 : val' > max
  · have := (scale_bounds h2 h10 k val min max).2
    have g2' : ¬ val' < min := by omega
    simpa [scale, g1, g2', g3, ratArith] using this
  rw [scale_in_range k (by omega) (by omega), scale_in_range k (by omega) (by omega)]
  simp only
  split
  · exact Rat.le_refl
  · rename_i hlt
    have hpos : 0 < (remapMinMax (ratArith L2 L10) k min max).2 - (remapMinMax (ratArith L2 L10) k min max).1 := by grind
    apply div_le_div_right_pos _ hpos
    have hm := mapVal_mono h2 h10 k hv
    simp only [ratArith] at hm ⊢
    grind

end
end Rare.C14
