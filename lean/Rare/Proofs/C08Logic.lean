import Rare.Proofs.ExprSafe
import Rare.Model.Expr.Funcs.Logic
/-! Panic-freedom of the builders in `Funcs/Logic.lean`. -/
namespace Rare.Expr.Funcs.Logic
open Rare.Expr

theorem errArgCount_ok : ∃ built, errArgCount = .ok built ∧ ∀ s, built.stage = some s → Safe s :=
  ⟨_, rfl, fun s h => by cases h; exact Safe.lit _⟩

theorem ok_safe {st : Stage} (h : Safe st) : ∃ built, ok st = .ok built ∧ ∀ s, built.stage = some s → Safe s :=
  ⟨_, rfl, fun s hs => by cases hs; exact h⟩

theorem coalesce_go_safe : ∀ l : List Stage, AllSafe l → Safe (kfCoalesce.go l) := by
  intro l
  induction l with
  | nil => intro _; exact .ret _
  | cons a rest ih =>
    intro h
    refine Safe.bind' (h a (by simp)) fun v => ?_
    split
    · exact .ret _
    · exact ih fun x hx => h x (by simp [hx])

theorem kfCoalesce_safe : SafeBuilder kfCoalesce := fun args h => ok_safe (coalesce_go_safe args h)

theorem cmp_go_safe (eq : Bytes → Bytes → Bytes) : ∀ (l : List Stage) (v : Bytes), AllSafe l →
    Safe (stringComparator.go eq v l) := by
  intro l
  induction l with
  | nil => intro v _; exact .ret _
  | cons a rest ih =>
    intro v h
    exact Safe.bind' (h a (by simp)) fun x => ih _ fun y hy => h y (by simp [hy])

theorem stringComparator_safe (eq : Bytes → Bytes → Bytes) : SafeBuilder (stringComparator eq) := by
  intro args h
  unfold stringComparator
  split
  · rename_i a0 a1 rest
    exact ok_safe (Safe.bind' (h a0 (by simp)) fun v => cmp_go_safe eq _ _ fun y hy => h y (by simp at hy ⊢; exact Or.inr hy))
  · exact errArgCount_ok

theorem kfNot_safe : SafeBuilder kfNot := by
  intro args h
  unfold kfNot
  split
  · rename_i a
    exact ok_safe (Safe.bind' (h a (by simp)) fun v => .ret _)
  · exact errArgCount_ok

theorem and_go_safe : ∀ l : List Stage, AllSafe l → Safe (kfAnd.go l) := by
  intro l
  induction l with
  | nil => intro _; exact .ret _
  | cons a rest ih =>
    intro h
    refine Safe.bind' (h a (by simp)) fun v => ?_
    split
    · exact .ret _
    · exact ih fun x hx => h x (by simp [hx])

theorem kfAnd_safe : SafeBuilder kfAnd := fun args h => ok_safe (and_go_safe args h)

theorem or_go_safe : ∀ l : List Stage, AllSafe l → Safe (kfOr.go l) := by
  intro l
  induction l with
  | nil => intro _; exact .ret _
  | cons a rest ih =>
    intro h
    refine Safe.bind' (h a (by simp)) fun v => ?_
    split
    · exact .ret _
    · exact ih fun x hx => h x (by simp [hx])

theorem kfOr_safe : SafeBuilder kfOr := fun args h => ok_safe (or_go_safe args h)

theorem kfIf_safe : SafeBuilder kfIf := by
  intro args h
  unfold kfIf
  split
  · rename_i c t
    refine ok_safe (Safe.bind' (h c (by simp)) fun v => ?_)
    split
    · exact h t (by simp)
    · exact .ret _
  · rename_i c t e
    refine ok_safe (Safe.bind' (h c (by simp)) fun v => ?_)
    split
    · exact h t (by simp)
    · exact h e (by simp)
  · exact errArgCount_ok

theorem kfUnless_safe : SafeBuilder kfUnless := by
  intro args h
  unfold kfUnless
  split
  · rename_i c t
    refine ok_safe (Safe.bind' (h c (by simp)) fun v => ?_)
    split
    · exact h t (by simp)
    · exact .ret _
  · exact errArgCount_ok

theorem switch_go_safe : ∀ (n : Nat) (l : List Stage), l.length ≤ n → AllSafe l → Safe (kfSwitch.go l) := by
  intro n
  induction n with
  | zero =>
    intro l hl _
    have : l = [] := List.length_eq_zero_iff.mp (by omega)
    subst this; exact .ret _
  | succ n ih =>
    intro l hl h
    match l, hl, h with
    | [], _, _ => exact .ret _
    | [d], _, h => exact h d (by simp)
    | c :: v :: rest, hl, h =>
      simp only [kfSwitch.go]
      refine Safe.bind' (h c (by simp)) fun x => ?_
      split
      · exact h v (by simp)
      · exact ih rest (by simp at hl; omega) fun y hy => h y (by simp [hy])

theorem kfSwitch_safe : SafeBuilder kfSwitch := by
  intro args h
  unfold kfSwitch
  split
  · exact errArgCount_ok
  · exact ok_safe (switch_go_safe _ args (Nat.le_refl _) h)

/-- Every builder of the logic family is panic-free. -/
theorem logic_safe : ∀ p ∈ table, SafeBuilder p.2 := by
  intro p hp
  simp only [table, List.mem_cons, List.mem_nil_iff, or_false] at hp
  rcases hp with rfl | rfl | rfl | rfl | rfl | rfl | rfl | rfl | rfl
  · exact kfCoalesce_safe
  · exact stringComparator_safe _
  · exact stringComparator_safe _
  · exact kfNot_safe
  · exact kfAnd_safe
  · exact kfOr_safe
  · exact kfIf_safe
  · exact kfUnless_safe
  · exact kfSwitch_safe

end Rare.Expr.Funcs.Logic
