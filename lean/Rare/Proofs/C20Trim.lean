import Rare.Model.C20
/-! C20 helper lemmas: the trimming scanner on well-formed (token) texts. -/
namespace Rare.C20

/-- spec of trimming on tokens: keep whole tokens while fewer than `cols` visible runes were kept -/
def trimToks (cols : Int) : Int → List Tok → List Tok
  | _, [] => []
  | vis, t :: ts =>
    if vis < cols then
      match t with
      | .ch r => .ch r :: trimToks cols (vis + 1) ts
      | .sgr b => .sgr b :: trimToks cols vis ts
    else []

theorem renderToks_cons (t : Tok) (ts : List Tok) : renderToks (t :: ts) = t.render ++ renderToks ts := by
  simp [renderToks]

theorem visToks_cons (t : Tok) (ts : List Tok) : visToks (t :: ts) = t.vis ++ visToks ts := by
  simp [visToks]

/-- a token as the scanner sees it (with the scanner's own two rune literals) -/
def rtok (E : Esc) : Tok → List Rune
  | .ch r => [r]
  | .sgr b => E.trimEsc :: b ++ [E.trimEnd]

def rtoks (E : Esc) (ts : List Tok) : List Rune := ts.flatMap (rtok E)

theorem rtoks_nil (E : Esc) : rtoks E [] = [] := rfl
theorem rtoks_cons (E : Esc) (t : Tok) (ts : List Tok) : rtoks E (t :: ts) = rtok E t ++ rtoks E ts := by
  simp [rtoks]
theorem rtoks_append (E : Esc) (a b : List Tok) : rtoks E (a ++ b) = rtoks E a ++ rtoks E b := by
  simp [rtoks]

/-- inner loop: an escape body without `m`, then `m` -/
theorem trimGo_inner (E : Esc) (cols vis : Int) (b R : List Rune) (hb : E.trimEnd ∉ b) :
    trimGo E cols true vis (b ++ E.trimEnd :: R) = b.length + 1 + trimGo E cols false vis R := by
  induction b with
  | nil => simp [trimGo]
  | cons x b ih =>
    have hx : x ≠ E.trimEnd := fun h => hb (by simp [h])
    have hb' : E.trimEnd ∉ b := fun h => hb (by simp [h])
    simp [trimGo, hx, ih hb']; omega

def TokScannable (E : Esc) : Tok → Prop
  | .ch r => r ≠ E.trimEsc
  | .sgr b => E.trimEnd ∉ b

theorem trimGo_toks (E : Esc) (hE : E.trimEsc ≠ E.trimEnd) (cols : Int) (toks : List Tok) :
    ∀ vis : Int, (∀ t ∈ toks, TokScannable E t) →
    trimGo E cols false vis (rtoks E toks) = (rtoks E (trimToks cols vis toks)).length := by
  induction toks with
  | nil => intro vis _; simp [trimGo, trimToks, rtoks_nil]
  | cons t ts ih =>
    intro vis h
    have hts := fun t ht => h t (List.mem_cons_of_mem _ ht)
    have ht := h t (List.mem_cons_self)
    by_cases hv : vis < cols
    · cases t with
      | ch r =>
        have ht' : r ≠ E.trimEsc := ht
        have e1 : rtoks E (Tok.ch r :: ts) = r :: rtoks E ts := by simp [rtoks_cons, rtok]
        have e2 : trimToks cols vis (Tok.ch r :: ts) = Tok.ch r :: trimToks cols (vis + 1) ts := by
          simp [trimToks, hv]
        rw [e1, e2, rtoks_cons]
        simp only [trimGo, hv, if_true, ht', if_false, ih (vis + 1) hts, rtok, List.length_append, List.length_cons, List.length_nil]
      | sgr b =>
        have ht' : E.trimEnd ∉ b := ht
        have e1 : rtoks E (Tok.sgr b :: ts) = E.trimEsc :: (b ++ E.trimEnd :: rtoks E ts) := by
          simp [rtoks_cons, rtok]
        have e2 : trimToks cols vis (Tok.sgr b :: ts) = Tok.sgr b :: trimToks cols vis ts := by
          simp [trimToks, hv]
        have hne : b ++ E.trimEnd :: rtoks E ts ≠ [] := by simp
        rw [e1, e2, rtoks_cons]
        simp only [trimGo, hv, if_true, hE, ne_eq, not_false_eq_true, hne, and_self, trimGo_inner E cols vis b _ ht',
          ih vis hts, rtok, List.length_append, List.length_cons, List.length_nil]
        omega
    · have e2 : trimToks cols vis (t :: ts) = [] := by simp [trimToks, hv]
      have : ∃ r R, rtoks E (t :: ts) = r :: R := by
        cases t with
        | ch r => exact ⟨r, rtoks E ts, by simp [rtoks_cons, rtok]⟩
        | sgr b => exact ⟨E.trimEsc, b ++ E.trimEnd :: rtoks E ts, by simp [rtoks_cons, rtok]⟩
      obtain ⟨r, R, hr⟩ := this
      rw [e2, hr]; simp [trimGo, hv, rtoks_nil]

theorem trimToks_prefix (cols : Int) (toks : List Tok) : ∀ vis, ∃ rest, toks = trimToks cols vis toks ++ rest := by
  induction toks with
  | nil => intro _; exact ⟨[], by simp [trimToks]⟩
  | cons t ts ih =>
    intro vis
    by_cases hv : vis < cols
    · cases t with
      | ch r => obtain ⟨rest, hr⟩ := ih (vis + 1); exact ⟨rest, by simp [trimToks, hv]; exact hr⟩
      | sgr b => obtain ⟨rest, hr⟩ := ih vis; exact ⟨rest, by simp [trimToks, hv]; exact hr⟩
    · exact ⟨t :: ts, by simp [trimToks, hv]⟩

/-- number of visible runes kept: never more than the room that was left -/
theorem trimToks_vis_le (cols : Int) (toks : List Tok) :
    ∀ vis, vis ≤ cols → vis + ((visToks (trimToks cols vis toks)).length : Int) ≤ cols := by
  induction toks with
  | nil => intro vis h; simp [trimToks, visToks]; exact h
  | cons t ts ih =>
    intro vis h
    by_cases hv : vis < cols
    · cases t with
      | ch r =>
        have := ih (vis + 1) (by omega)
        simp [trimToks, hv, visToks_cons, Tok.vis]; omega
      | sgr b =>
        have := ih vis h
        simp [trimToks, hv, visToks_cons, Tok.vis]; omega
    · simp [trimToks, hv, visToks]; exact h

/-- if something was cut off, the line is full -/
theorem trimToks_full (cols : Int) (toks : List Tok) :
    ∀ vis, vis ≤ cols → trimToks cols vis toks = toks ∨ vis + ((visToks (trimToks cols vis toks)).length : Int) = cols := by
  induction toks with
  | nil => intro vis _; left; simp [trimToks]
  | cons t ts ih =>
    intro vis h
    by_cases hv : vis < cols
    · cases t with
      | ch r =>
        rcases ih (vis + 1) (by omega) with h1 | h1
        · left; simp [trimToks, hv, h1]
        · right; simp [trimToks, hv, visToks_cons, Tok.vis]; omega
      | sgr b =>
        rcases ih vis h with h1 | h1
        · left; simp [trimToks, hv, h1]
        · right; simp [trimToks, hv, visToks_cons, Tok.vis]; omega
    · right; simp [trimToks, hv, visToks]; omega

/-- the visible part of a trimmed token list is the visible part cut to the room left -/
theorem visToks_trimToks (cols : Int) (toks : List Tok) :
    ∀ vis, vis ≤ cols → visToks (trimToks cols vis toks) = (visToks toks).take (cols - vis).toNat := by
  induction toks with
  | nil => intro vis _; simp [trimToks, visToks]
  | cons t ts ih =>
    intro vis h
    by_cases hv : vis < cols
    · cases t with
      | ch r =>
        have e : (cols - vis).toNat = (cols - (vis + 1)).toNat + 1 := by omega
        simp [trimToks, hv, visToks_cons, Tok.vis, ih (vis + 1) (by omega), e]
      | sgr b =>
        simp [trimToks, hv, visToks_cons, Tok.vis, ih vis h]
    · have e : (cols - vis).toNat = 0 := by omega
      simp [trimToks, hv, visToks, e]

end Rare.C20
