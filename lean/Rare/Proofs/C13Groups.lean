import Rare.Proofs.C13Main
import Rare.Model.C13Groups
/-! C13: `Groups(sort)` of `rare reduce` orders the groups whenever the sorter orders the sort keys. -/
namespace Rare.C13

/-- If `less` orders the (distinct) sort keys of the groups in `P`, `groupsSpecLess` orders the groups:
by sort key, groups with one sort key by their own text. -/
theorem groupsSpec_orderOn {P : Key → Prop} {less : Key → Key → Bool} (sortKey : Key → Key)
    (h : OrderOn (fun k => ∃ g, P g ∧ sortKey g = k) less) : OrderOn P (groupsSpecLess less sortKey) := by
  have hb := bytesLt_strictTotal
  refine ⟨?_, ?_, ?_⟩
  · intro a b ha hb' hne hab
    unfold groupsSpecLess at hab ⊢
    by_cases e : sortKey a = sortKey b
    · rw [if_pos e] at hab
      rw [if_pos e.symm]
      exact hb.asymm a b trivial trivial hab
    · rw [if_neg e] at hab
      rw [if_neg (fun x => e x.symm)]
      exact h.asymm _ _ ⟨a, ha, rfl⟩ ⟨b, hb', rfl⟩ e hab
  · intro a b ha hb' hne
    unfold groupsSpecLess
    by_cases e : sortKey a = sortKey b
    · rw [if_pos e, if_pos e.symm]
      exact hb.total a b trivial trivial hne
    · rw [if_neg e, if_neg (fun x => e x.symm)]
      exact h.total _ _ ⟨a, ha, rfl⟩ ⟨b, hb', rfl⟩ e
  · intro a b c ha hb' hc hab hbc hac lab lbc
    unfold groupsSpecLess at lab lbc ⊢
    by_cases e1 : sortKey a = sortKey b
    · rw [if_pos e1] at lab
      by_cases e2 : sortKey b = sortKey c
      · rw [if_pos e2] at lbc
        rw [if_pos (e1.trans e2)]
        exact hb.trans a b c trivial trivial trivial lab lbc
      · rw [if_neg e2] at lbc
        rw [if_neg (fun x => e2 (e1.symm.trans x)), e1]
        exact lbc
    · rw [if_neg e1] at lab
      by_cases e2 : sortKey b = sortKey c
      · rw [if_pos e2] at lbc
        rw [if_neg (fun x => e1 (x.trans e2.symm)), ← e2]
        exact lab
      · rw [if_neg e2] at lbc
        by_cases e3 : sortKey a = sortKey c
        · -- a < b < c in sort keys with key a = key c: impossible by asymmetry
          rw [e3] at lab
          have := h.asymm _ _ ⟨c, hc, rfl⟩ ⟨b, hb', rfl⟩ (fun x => e2 x.symm) lab
          rw [this] at lbc
          cases lbc
        · rw [if_neg e3]
          exact h.trans _ _ _ ⟨a, ha, rfl⟩ ⟨b, hb', rfl⟩ ⟨c, hc, rfl⟩ e1 e2 e3 lab lbc

/-- A faithful sorter on the sort keys makes the `sortExpr` comparator faithful on the groups. -/
theorem groupsCmpExpr_faithful {σ : Type} {sort : SCmp Key σ} {init : σ} {Q : Key → Prop} {less : Key → Key → Bool}
    (h : Faithful sort init Q less) (sortKey : Key → Key) (P : Key → Prop) (hPQ : ∀ g, P g → Q (sortKey g)) :
    Faithful (groupsCmpExpr sort sortKey) init P (groupsSpecLess less sortKey) := by
  obtain ⟨Inv, h0, hstep⟩ := h
  refine ⟨Inv, h0, ?_⟩
  intro s a b hs ha hb
  unfold groupsCmpExpr groupsSpecLess
  by_cases e : sortKey a = sortKey b
  · simp only [e, if_true]
    exact ⟨trivial, hs⟩
  · simp only [e, if_false]
    exact hstep s _ _ hs (hPQ a ha) (hPQ b hb)

/-- `sort.Sort` (any algorithm meeting the contract) with a closure that is faithful to an order of the
distinct items returns the unique sorted arrangement, whatever the arrival order. -/
theorem sort_faithful_result {α σ : Type} {cmp : SCmp α σ} {init : σ} {less : α → α → Bool}
    (alg : List α → Algo α (List α)) (hc : SortContract alg) (items arrival : List α)
    (hnd : items.Nodup) (hp : arrival.Perm items)
    (hf : Faithful cmp init (· ∈ items) less) (ho : OrderOn (· ∈ items) less) :
    (Algo.run cmp init (alg arrival)).1 = isort less items := by
  have hf' := hf.mono (Q := (· ∈ arrival)) (fun a h => hp.mem_iff.mp h)
  rw [hf'.run_eq (alg arrival) (hc.within arrival)]
  have hnda : arrival.Nodup := hp.nodup_iff.mpr hnd
  have hoa : OrderOn (· ∈ arrival) less := ho.mono (fun a h => hp.mem_iff.mp h)
  rw [hc.result hnda hoa]
  exact isort_perm_invariant hnda hoa hp

/-- the sorter `cmd/reduce.go` builds is faithful to the contextual order of a uniform key set -/
theorem reduceSorter_faithful (o : Oracle) (sets : List SortSet) (rev : Bool) (keys : List Key)
    (hu : ctxUniform o sets keys = true) :
    Faithful (reduceSorter o sets rev) ({}, ()) (· ∈ keys)
      (if rev then revLess (contextualSpec o sets keys) else contextualSpec o sets keys) := by
  cases rev with
  | false => exact ctx_faithful o sets keys hu
  | true => exact (ctx_faithful o sets keys hu).reverse

theorem reduceLess_orderOn (o : Oracle) (sets : List SortSet) (rev : Bool) (keys : List Key) (P : Key → Prop) :
    OrderOn P (if rev then revLess (contextualSpec o sets keys) else contextualSpec o sets keys) := by
  have h : OrderOn (fun _ : Key => True) (contextualSpec o sets keys) :=
    (contextualSpec_strictTotal o sets keys).toOrderOn
  cases rev with
  | false => exact h.mono (fun _ _ => trivial)
  | true => exact h.rev.mono (fun _ _ => trivial)

end Rare.C13
