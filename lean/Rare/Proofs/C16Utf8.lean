import Rare.Proofs.C16Json
import Rare.Proofs.C16Sort
/-! C16: the text is well-formed UTF-8 whenever the names and captures are. -/
namespace Rare.C16

theorem u8Run_append : ∀ (a b : Bytes) (st : U8),
    u8Run st (a ++ b) = (u8Run st a).bind fun st' => u8Run st' b := by
  intro a
  induction a with
  | nil => intro b st; simp [u8Run]
  | cons c a ih =>
    intro b st
    simp only [List.cons_append, u8Run]
    cases u8Step st c with
    | none => simp
    | some st' => simp [ih]

def IsAscii (a : Bytes) : Prop := ∀ c ∈ a, c < 0x80

theorem u8Run_ascii : ∀ (a : Bytes), IsAscii a → u8Run .s0 a = some .s0 := by
  intro a
  induction a with
  | nil => intro _; rfl
  | cons c a ih =>
    intro h
    have hc : c < 0x80 := h c (by simp)
    simp only [u8Run, u8Step, hc, if_true]
    exact ih (fun d hd => h d (by simp [hd]))

/-- an ASCII byte is only accepted between characters -/
theorem u8Step_ascii (st st' : U8) (c : UInt8) (hc : c < 0x80) (h : u8Step st c = some st') :
    st = .s0 ∧ st' = .s0 := by
  have hn : c.toNat < 128 := by simpa using UInt8.lt_iff_toNat_lt.mp hc
  cases st with
  | s0 => simp [u8Step, hc] at h; exact ⟨rfl, h.symm⟩
  | c1 | c2 | c3 | e0 | ed | f0 | f4 =>
    simp only [u8Step] at h
    split at h
    · rename_i hh
      have := UInt8.le_iff_toNat_le.mp hh.1
      simp at this; omega
    · cases h

set_option maxRecDepth 100000 in
theorem table_ascii : ∀ n, n < 256 → lookup (UInt8.ofNat n) ≠ [] →
    n < 128 ∧ (lookup (UInt8.ofNat n)).all (fun c => c < 0x80) = true := by
  decide

theorem lookup_ascii (c : UInt8) (h : lookup c ≠ []) : c < 0x80 ∧ IsAscii (lookup c) := by
  have := table_ascii c.toNat c.toNat_lt (by simpa using h)
  simp only [UInt8.ofNat_toNat] at this
  refine ⟨UInt8.lt_iff_toNat_lt.mpr (by simpa using this.1), ?_⟩
  intro d hd
  have := List.all_eq_true.mp this.2 d hd
  simpa using this

theorem u8Run_escape : ∀ (s : Bytes) (st st' : U8), u8Run st s = some st' → u8Run st (escape s) = some st' := by
  intro s
  induction s with
  | nil => intro st st' h; simpa [escape_nil] using h
  | cons c s ih =>
    intro st st' h
    rw [escape_cons, u8Run_append]
    simp only [u8Run] at h
    cases hs : u8Step st c with
    | none => simp [hs] at h
    | some st1 =>
      simp only [hs] at h
      by_cases hl : lookup c ≠ []
      · obtain ⟨hc, ha⟩ := lookup_ascii c hl
        obtain ⟨e0, e1⟩ := u8Step_ascii st st1 c hc hs
        subst e0 e1
        simp [esc1, hl, u8Run_ascii _ ha, ih _ _ h]
      · simp [esc1, hl, u8Run, hs, ih _ _ h]

theorem valid_append (a b : Bytes) (ha : validUtf8 a = true) (hb : validUtf8 b = true) :
    validUtf8 (a ++ b) = true := by
  simp only [validUtf8, beq_iff_eq] at *
  rw [u8Run_append, ha]; simpa using hb

theorem valid_ascii (a : Bytes) (h : IsAscii a) : validUtf8 a = true := by
  simp [validUtf8, u8Run_ascii a h]

theorem valid_cons_ascii (c : UInt8) (b : Bytes) (hc : c < 0x80) (hb : validUtf8 b = true) :
    validUtf8 (c :: b) = true :=
  valid_append [c] b (valid_ascii [c] (by intro d hd; simp at hd; subst hd; exact hc)) hb

theorem valid_escape (s : Bytes) (h : validUtf8 s = true) : validUtf8 (escape s) = true := by
  simp only [validUtf8, beq_iff_eq] at *
  exact u8Run_escape s _ _ h

theorem valid_valueText (v : Bytes) (h : validUtf8 v = true) : validUtf8 (valueText v) = true := by
  unfold valueText
  split
  · exact h
  · split
    · decide
    · split
      · decide
      · exact valid_append _ _ (valid_cons_ascii _ _ (by decide) (by simpa using valid_escape v h)) (by decide)

theorem valid_renderMember (m : Bytes × Bytes) (hk : validUtf8 m.1 = true) (hv : validUtf8 m.2 = true) :
    validUtf8 (renderMember inferredR m) = true := by
  unfold renderMember
  apply valid_cons_ascii _ _ (by decide)
  apply valid_append _ _ (valid_escape _ hk)
  apply valid_cons_ascii _ _ (by decide)
  apply valid_cons_ascii _ _ (by decide)
  apply valid_cons_ascii _ _ (by decide)
  exact valid_valueText _ hv

theorem valid_renderTail (ms : List (Bytes × Bytes))
    (h : ∀ m ∈ ms, validUtf8 m.1 = true ∧ validUtf8 m.2 = true) : validUtf8 (renderTail inferredR ms) = true := by
  induction ms with
  | nil => decide
  | cons m ms ih =>
    rw [renderTail_cons]
    apply valid_cons_ascii _ _ (by decide)
    apply valid_cons_ascii _ _ (by decide)
    exact valid_append _ _ (valid_renderMember m (h m (by simp)).1 (h m (by simp)).2)
      (ih (fun x hx => h x (by simp [hx])))

theorem valid_objText (ms : List (Bytes × Bytes))
    (h : ∀ m ∈ ms, validUtf8 m.1 = true ∧ validUtf8 m.2 = true) : validUtf8 (objText inferredR ms) = true := by
  unfold objText
  apply valid_cons_ascii _ _ (by decide)
  refine valid_append _ _ ?_ (by decide)
  cases ms with
  | nil => decide
  | cons m ms =>
    simp only [renderList]
    exact valid_append _ _ (valid_renderMember m (h m (by simp)).1 (h m (by simp)).2)
      (valid_renderTail ms (fun x hx => h x (by simp [hx])))

theorem valid_natAscii (n : Nat) : validUtf8 (natAscii n) = true := by
  apply valid_ascii
  intro c hc
  simp only [natAscii, natDigits, List.mem_map] at hc
  obtain ⟨ch, hch, e⟩ := hc
  have hd := Nat.isDigit_of_mem_toDigits (by decide) (by decide) hch
  simp only [Char.isDigit, Bool.and_eq_true, decide_eq_true_eq] at hd
  subst e
  have h2 : ch.toNat ≤ 57 := UInt32.le_iff_toNat_le.mp hd.2
  apply UInt8.lt_iff_toNat_lt.mpr
  simp; omega

theorem json_text_utf8 (named numbered : Bool) (order : List (Bytes × Int)) (indices : List Int)
    (line out : Bytes) (ht : GoTyped order indices) (h : json named numbered order indices line = .ok out)
    (hk : ∀ p ∈ order, validUtf8 p.1 = true)
    (hv : ∀ i, validUtf8 (capture indices line i) = true) : validUtf8 out = true := by
  rw [json_ok_text named numbered order indices line out ht h]
  apply valid_objText
  intro m hm
  rcases List.mem_append.mp hm with hm | hm
  · cases named with
    | false => simp at hm
    | true =>
      simp only [if_true, namedMembers, List.mem_map] at hm
      obtain ⟨n, hn, e⟩ := hm
      subst e
      have : n ∈ order.map (·.1) := (sortNames_perm _).mem_iff.mp hn
      obtain ⟨p, hp, e⟩ := List.mem_map.mp this
      exact ⟨by rw [← e]; exact hk p hp, hv _⟩
  · cases numbered with
    | false => simp at hm
    | true =>
      simp only [if_true, expectedNumbered, List.mem_filterMap] at hm
      obtain ⟨i, _, e⟩ := hm
      split at e
      · cases e
      · cases e; exact ⟨valid_natAscii i, hv _⟩

end Rare.C16
