import Rare.Proofs.C02Rx
/-! Counted repetition: what the parser's unfolding of `x{n}`, `x{n,}`, `x{n,m}` (`repeatRe`, the shape
`syntax.Simplify` produces) matches is exactly `k` matches of `x` in a row for some `k` in the interval. -/
namespace Rare.C02.Rx

theorem Pow.le {s : Bytes} {a : Re} {k i j : Nat} (h : Pow s a k i j) : i ≤ j := by
  induction h with
  | zero => exact Nat.le_refl _
  | succ hd _ ih => exact Nat.le_trans hd.le ih

theorem Pow.append {s : Bytes} {a : Re} {n k i m j : Nat} (h1 : Pow s a n i m) (h2 : Pow s a k m j) :
    Pow s a (n + k) i j := by
  induction h1 with
  | zero => simpa using h2
  | succ hd _ ih =>
    have := Pow.succ hd (ih h2)
    rwa [Nat.add_right_comm] at this

theorem Pow.zero_inv {s : Bytes} {a : Re} {i j : Nat} (h : Pow s a 0 i j) : i = j := by
  cases h; rfl

theorem Pow.succ_inv {s : Bytes} {a : Re} {k i j : Nat} (h : Pow s a (k + 1) i j) :
    ∃ m, Derives s a i m ∧ Pow s a k m j := by
  cases h with
  | succ hd hp => exact ⟨_, hd, hp⟩

/-- a loop matches `s[i:j]` iff some number of matches of its body in a row do (iterations that match the
empty text add nothing) -/
theorem star_derives (s : Bytes) (g : Bool) (a : Re) (i j : Nat) :
    Derives s (.star g a) i j ↔ ∃ n, Pow s a n i j := by
  constructor
  · intro h
    generalize hr : Re.star g a = r at h
    induction h with
    | eps | cls | look | cat | altL | altR | grp => cases hr
    | starNil g' a' i => exact ⟨0, .zero i⟩
    | starCons hlt h1 h2 _ ih2 =>
      cases hr
      obtain ⟨n, hn⟩ := ih2 rfl
      exact ⟨n + 1, .succ h1 hn⟩
  · rintro ⟨n, hp⟩
    induction hp with
    | zero i => exact .starNil g a i
    | @succ k i j l hd _ ih =>
      by_cases hlt : i < j
      · exact .starCons hlt hd ih
      · have : i = j := Nat.le_antisymm hd.le (Nat.le_of_not_lt hlt)
        subst this
        exact ih

theorem copies_derives (s : Bytes) (a t : Re) : ∀ n i j,
    Derives s (copies a n t) i j ↔ ∃ m, Pow s a n i m ∧ Derives s t m j := by
  intro n
  induction n with
  | zero =>
    intro i j
    simp only [copies]
    exact ⟨fun h => ⟨i, .zero i, h⟩, fun ⟨m, hp, hd⟩ => by rw [hp.zero_inv]; exact hd⟩
  | succ n ih =>
    intro i j
    simp only [copies]
    constructor
    · intro h
      cases h with
      | cat h1 h2 =>
        obtain ⟨m, hp, hd⟩ := (ih _ _).mp h2
        exact ⟨m, .succ h1 hp, hd⟩
    · rintro ⟨m, hp, hd⟩
      obtain ⟨m', h1, hp'⟩ := hp.succ_inv
      exact .cat h1 ((ih _ _).mpr ⟨m, hp', hd⟩)

theorem optNest_derives (s : Bytes) (g : Bool) (a : Re) : ∀ k i j,
    Derives s (optNest g a k) i j ↔ ∃ n, n ≤ k ∧ Pow s a n i j := by
  intro k
  induction k with
  | zero =>
    intro i j
    simp only [optNest]
    constructor
    · intro h; cases h; exact ⟨0, Nat.le_refl _, .zero i⟩
    · rintro ⟨n, hn, hp⟩
      have : n = 0 := by omega
      subst this
      rw [hp.zero_inv]; exact .eps j
  | succ k ih =>
    intro i j
    have fwd : Derives s (.cat a (optNest g a k)) i j → ∃ n, n ≤ k + 1 ∧ Pow s a n i j := by
      intro h
      cases h with
      | cat h1 h2 =>
        obtain ⟨n, hn, hp⟩ := (ih _ _).mp h2
        exact ⟨n + 1, by omega, .succ h1 hp⟩
    have fwd0 : Derives s .eps i j → ∃ n, n ≤ k + 1 ∧ Pow s a n i j := by
      intro h; cases h; exact ⟨0, by omega, .zero i⟩
    have bwd : (∃ n, n ≤ k + 1 ∧ Pow s a n i j) →
        Derives s (.cat a (optNest g a k)) i j ∨ Derives s .eps i j := by
      rintro ⟨n, hn, hp⟩
      cases n with
      | zero => right; rw [hp.zero_inv]; exact .eps j
      | succ n =>
        obtain ⟨m, h1, hp'⟩ := hp.succ_inv
        left
        exact .cat h1 ((ih _ _).mpr ⟨n, by omega, hp'⟩)
    cases g with
    | true =>
      simp only [optNest, if_true]
      constructor
      · intro h
        cases h with
        | altL h => exact fwd h
        | altR h => exact fwd0 h
      · intro h
        rcases bwd h with h | h
        · exact .altL h
        · exact .altR h
    | false =>
      simp only [optNest, Bool.false_eq_true, if_false]
      constructor
      · intro h
        cases h with
        | altL h => exact fwd0 h
        | altR h => exact fwd h
      · intro h
        rcases bwd h with h | h
        · exact .altR h
        · exact .altL h

/-- `x{n,m}` (`n ≤ m`) -/
theorem repeat_bounded_derives (s : Bytes) (g : Bool) (a : Re) (n m i j : Nat) (hnm : n ≤ m) :
    Derives s (repeatRe g a n (some m)) i j ↔ ∃ k, n ≤ k ∧ k ≤ m ∧ Pow s a k i j := by
  simp only [repeatRe]
  rw [copies_derives]
  constructor
  · rintro ⟨x, hp, hd⟩
    obtain ⟨k, hk, hp2⟩ := (optNest_derives s g a _ _ _).mp hd
    exact ⟨n + k, by omega, by omega, hp.append hp2⟩
  · rintro ⟨k, h1, h2, hp⟩
    obtain ⟨d, rfl⟩ : ∃ d, k = n + d := ⟨k - n, by omega⟩
    -- split the row after the first `n`
    have split : ∀ (n : Nat) (i : Nat), Pow s a (n + d) i j → ∃ x, Pow s a n i x ∧ Pow s a d x j := by
      intro n
      induction n with
      | zero => intro i h; exact ⟨i, .zero i, by simpa using h⟩
      | succ n ih =>
        intro i h
        rw [Nat.add_right_comm] at h
        obtain ⟨x, h1, hp'⟩ := h.succ_inv
        obtain ⟨y, hy1, hy2⟩ := ih x hp'
        exact ⟨y, .succ h1 hy1, hy2⟩
    obtain ⟨x, hx1, hx2⟩ := split n i hp
    exact ⟨x, hx1, (optNest_derives s g a _ _ _).mpr ⟨d, by omega, hx2⟩⟩

/-- `x{n,}` -/
theorem repeat_open_derives (s : Bytes) (g : Bool) (a : Re) (n i j : Nat) :
    Derives s (repeatRe g a n none) i j ↔ ∃ k, n ≤ k ∧ Pow s a k i j := by
  simp only [repeatRe]
  rw [copies_derives]
  constructor
  · rintro ⟨x, hp, hd⟩
    obtain ⟨k, hp2⟩ := (star_derives s g a _ _).mp hd
    exact ⟨n + k, by omega, hp.append hp2⟩
  · rintro ⟨k, h1, hp⟩
    obtain ⟨d, rfl⟩ : ∃ d, k = n + d := ⟨k - n, by omega⟩
    have split : ∀ (n : Nat) (i : Nat), Pow s a (n + d) i j → ∃ x, Pow s a n i x ∧ Pow s a d x j := by
      intro n
      induction n with
      | zero => intro i h; exact ⟨i, .zero i, by simpa using h⟩
      | succ n ih =>
        intro i h
        rw [Nat.add_right_comm] at h
        obtain ⟨x, h1, hp'⟩ := h.succ_inv
        obtain ⟨y, hy1, hy2⟩ := ih x hp'
        exact ⟨y, .succ h1 hy1, hy2⟩
    obtain ⟨x, hx1, hx2⟩ := split n i hp
    exact ⟨x, hx1, (star_derives s g a _ _).mpr ⟨d, hx2⟩⟩

end Rare.C02.Rx
