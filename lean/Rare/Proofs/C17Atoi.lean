import Rare.Model.Expr.Build
import Rare.Spec.C17Atoi
/-!
Helper lemmas for C17, part 0: the modelled `strconv.Atoi` / `ParseInt(s, 10, 64)` (`Rare.atoi`,
`Rare/Base/GoInt.lean`).

* `atoi_range`: whenever it succeeds, the result is an int64.
* `atoi_iff`: it succeeds exactly on `[+-]?[0-9]+` whose decimal value (Horner, `decVal`) fits,
  and the result is that value.
* `atoi_itoa`, `itoa_nul_free`: `Itoa` output parses back to the same int64 and contains no NUL.
* `evalStageInt_range` / `evalArgInt_range`: the constant integer arguments of `@select`/`@slice`
  are int64 (they are `atoi` of a static stage, or the default).
-/
namespace Rare.C17
open Rare Rare.Expr

theorem digitsVal_foldl (ds : Bytes) (acc : Nat) :
    digitsVal ds acc = ds.foldl (fun a b => a * 10 + (b.toNat - 48)) acc := by
  induction ds generalizing acc with
  | nil => rfl
  | cons b r ih => simp [digitsVal, ih]

theorem digitsVal_decVal (ds : Bytes) : digitsVal ds 0 = decVal ds := digitsVal_foldl ds 0

theorem inInt64_iff (v : Int) : inInt64 v = true ↔ minInt64 ≤ v ∧ v ≤ maxInt64 := by
  simp [inInt64]

/-! ## `atoi` in two steps: split off the sign, then parse digits -/

def signSplit (s : Bytes) : Bool × Bytes :=
  match s with
  | 43 :: r => (false, r)
  | 45 :: r => (true, r)
  | r => (false, r)

def atoiCore (neg : Bool) (ds : Bytes) : Option Int :=
  if ds.isEmpty || !ds.all isDigitB then none
  else
    let v : Int := if neg then -((digitsVal ds 0 : Nat) : Int) else ((digitsVal ds 0 : Nat) : Int)
    if inInt64 v then some v else none

theorem atoi_eq (s : Bytes) : atoi s = atoiCore (signSplit s).1 (signSplit s).2 := by
  unfold atoi
  split
  rename_i heq
  split at heq
  · injection heq with h1 h2; subst h1 h2; rfl
  · injection heq with h1 h2; subst h1 h2; rfl
  · rename_i n1 n2
    injection heq with h1 h2; subst h1 h2
    have hs : signSplit s = (false, s) := by
      unfold signSplit
      split
      · exact (n1 _ rfl).elim
      · exact (n2 _ rfl).elim
      · rfl
    rw [hs]; rfl

theorem signSplit_spec (s : Bytes) :
    (s = 43 :: (signSplit s).2 ∧ (signSplit s).1 = false) ∨
    (s = 45 :: (signSplit s).2 ∧ (signSplit s).1 = true) ∨
    (s = (signSplit s).2 ∧ (signSplit s).1 = false) := by
  unfold signSplit
  split
  · exact Or.inl ⟨rfl, rfl⟩
  · exact Or.inr (Or.inl ⟨rfl, rfl⟩)
  · exact Or.inr (Or.inr ⟨rfl, rfl⟩)

theorem signSplit_digit (b : UInt8) (r : Bytes) (hb : isDigitB b = true) :
    signSplit (b :: r) = (false, b :: r) := by
  have h43 : b ≠ 43 := by intro h; subst h; revert hb; decide
  have h45 : b ≠ 45 := by intro h; subst h; revert hb; decide
  unfold signSplit
  split
  · rename_i heq; injection heq with h1 _; exact absurd h1 h43
  · rename_i heq; injection heq with h1 _; exact absurd h1 h45
  · rfl

theorem atoiCore_some {neg : Bool} {ds : Bytes} {v : Int} (h : atoiCore neg ds = some v) :
    ds ≠ [] ∧ ds.all isDigitB = true ∧
      v = (if neg then -(decVal ds : Int) else (decVal ds : Int)) ∧ minInt64 ≤ v ∧ v ≤ maxInt64 := by
  unfold atoiCore at h
  by_cases hg : (ds.isEmpty || !ds.all isDigitB) = true
  · rw [if_pos hg] at h; cases h
  · rw [if_neg hg] at h
    simp only [Bool.or_eq_true, Bool.not_eq_true', not_or, Bool.not_eq_true, Bool.not_eq_false] at hg
    have hne : ds ≠ [] := by intro e; subst e; simp at hg
    simp only [digitsVal_decVal] at h
    by_cases hin : inInt64 (if neg = true then -(decVal ds : Int) else (decVal ds : Int)) = true
    · rw [if_pos hin] at h
      injection h with h
      subst h
      exact ⟨hne, hg.2, rfl, (inInt64_iff _).mp hin⟩
    · rw [if_neg hin] at h; cases h

theorem atoiCore_digits (neg : Bool) (ds : Bytes) (hne : ds ≠ []) (hd : ds.all isDigitB = true) :
    atoiCore neg ds =
      (if minInt64 ≤ (if neg then -(decVal ds : Int) else (decVal ds : Int)) ∧
          (if neg then -(decVal ds : Int) else (decVal ds : Int)) ≤ maxInt64
       then some (if neg then -(decVal ds : Int) else (decVal ds : Int)) else none) := by
  have hemp : ds.isEmpty = false := by
    cases ds with
    | nil => exact absurd rfl hne
    | cons _ _ => rfl
  unfold atoiCore
  simp only [hemp, hd, Bool.not_true, Bool.or_self, Bool.false_eq_true, if_false, digitsVal_decVal]
  by_cases hin : inInt64 (if neg = true then -(decVal ds : Int) else (decVal ds : Int)) = true
  · rw [if_pos hin, if_pos ((inInt64_iff _).mp hin)]
  · rw [if_neg hin, if_neg (fun h => hin ((inInt64_iff _).mpr h))]

/-- **The range lemma**: a successfully parsed integer is an int64. -/
theorem atoi_range {s : Bytes} {v : Int} (h : atoi s = some v) : minInt64 ≤ v ∧ v ≤ maxInt64 := by
  rw [atoi_eq] at h
  exact (atoiCore_some h).2.2.2

/-- What `atoi` computes on a digit string with an optional sign in front. -/
theorem atoi_sign_digits (sign ds : Bytes) (hs : sign = [] ∨ sign = [43] ∨ sign = [45])
    (hne : ds ≠ []) (hd : ds.all isDigitB = true) :
    atoi (sign ++ ds) =
      (if minInt64 ≤ (if sign = [45] then -(decVal ds : Int) else (decVal ds : Int)) ∧
          (if sign = [45] then -(decVal ds : Int) else (decVal ds : Int)) ≤ maxInt64
       then some (if sign = [45] then -(decVal ds : Int) else (decVal ds : Int)) else none) := by
  rw [atoi_eq]
  rcases hs with rfl | rfl | rfl
  · cases ds with
    | nil => exact absurd rfl hne
    | cons b r =>
      have hb : isDigitB b = true := by simp at hd; exact hd.1
      simp only [List.nil_append, signSplit_digit b r hb]
      rw [atoiCore_digits false _ hne hd]
      simp
  · have e : signSplit ([43] ++ ds) = (false, ds) := rfl
    rw [e, atoiCore_digits false _ hne hd]
    simp
  · have e : signSplit ([45] ++ ds) = (true, ds) := rfl
    rw [e, atoiCore_digits true _ hne hd]
    simp

/-- Every successful parse is of that shape: optional sign, one or more digits, and the result is
    the (signed) decimal value. -/
theorem atoi_shape {s : Bytes} {v : Int} (h : atoi s = some v) :
    ∃ sign ds, s = sign ++ ds ∧ (sign = [] ∨ sign = [43] ∨ sign = [45]) ∧ ds ≠ [] ∧
      ds.all isDigitB = true ∧ v = (if sign = [45] then -(decVal ds : Int) else (decVal ds : Int)) := by
  rw [atoi_eq] at h
  obtain ⟨h1, h2, h3, _⟩ := atoiCore_some h
  rcases signSplit_spec s with ⟨e, hn⟩ | ⟨e, hn⟩ | ⟨e, hn⟩
  · exact ⟨[43], _, e, Or.inr (Or.inl rfl), h1, h2, by rw [h3, hn]; simp⟩
  · exact ⟨[45], _, e, Or.inr (Or.inr rfl), h1, h2, by rw [h3, hn]; simp⟩
  · exact ⟨[], _, e, Or.inl rfl, h1, h2, by rw [h3, hn]; simp⟩

/-- **`atoi` is decimal parsing into int64**: it answers `v` exactly when the text is an optional
    sign followed by one or more ASCII digits whose signed decimal value is `v` and fits int64. -/
theorem atoi_iff (s : Bytes) (v : Int) :
    atoi s = some v ↔
      ∃ sign ds, s = sign ++ ds ∧ (sign = [] ∨ sign = [43] ∨ sign = [45]) ∧ ds ≠ [] ∧
        ds.all isDigitB = true ∧ v = (if sign = [45] then -(decVal ds : Int) else (decVal ds : Int)) ∧
        minInt64 ≤ v ∧ v ≤ maxInt64 := by
  constructor
  · intro h
    obtain ⟨sign, ds, h1, h2, h3, h4, h5⟩ := atoi_shape h
    exact ⟨sign, ds, h1, h2, h3, h4, h5, atoi_range h⟩
  · rintro ⟨sign, ds, rfl, h2, h3, h4, h5, h6⟩
    rw [atoi_sign_digits sign ds h2 h3 h4, ← h5, if_pos h6]

/-! ## Constant integer arguments -/

theorem evalStageInt_atoi {st : Stage} {i : Int} (h : evalStageInt st = .ok (some i)) :
    ∃ v, st.probe = .ok (v, true) ∧ atoi v = some i := by
  unfold evalStageInt at h
  split at h
  · cases h
  · rename_i v hp
    injection h with h
    exact ⟨v, hp, h⟩
  · injection h with h; cases h

/-- `EvalStageInt` answers int64 values only. -/
theorem evalStageInt_range {st : Stage} {i : Int} (h : evalStageInt st = .ok (some i)) :
    minInt64 ≤ i ∧ i ≤ maxInt64 := by
  obtain ⟨v, _, hv⟩ := evalStageInt_atoi h
  exact atoi_range hv

/-- `EvalArgInt` answers int64 values only, provided the default is one. -/
theorem evalArgInt_range {args : List Stage} {idx : Nat} {dflt i : Int}
    (hd : minInt64 ≤ dflt ∧ dflt ≤ maxInt64) (h : evalArgInt args idx dflt = .ok (some i)) :
    minInt64 ≤ i ∧ i ≤ maxInt64 := by
  unfold evalArgInt at h
  split at h
  · injection h with h; injection h with h; subst h; exact hd
  · exact evalStageInt_range h

/-! ## `itoa`: digits only, parses back -/

theorem digit_char_toNat {c : Char} (h : c.isDigit = true) : 48 ≤ c.toNat ∧ c.toNat ≤ 57 := by
  simp only [Char.isDigit, Bool.and_eq_true, decide_eq_true_eq, ge_iff_le] at h
  have h1 := h.1
  have h2 := h.2
  rw [UInt32.le_iff_toNat_le] at h1 h2
  exact ⟨h1, h2⟩

theorem digit_byte {c : Char} (h : c.isDigit = true) :
    (UInt8.ofNat c.toNat).toNat = c.toNat ∧ isDigitB (UInt8.ofNat c.toNat) = true := by
  obtain ⟨h1, h2⟩ := digit_char_toNat h
  have e : (UInt8.ofNat c.toNat).toNat = c.toNat := by
    simp only [UInt8.toNat_ofNat']
    omega
  refine ⟨e, ?_⟩
  simp only [isDigitB, Bool.and_eq_true, decide_eq_true_eq]
  rw [UInt8.le_iff_toNat_le, UInt8.le_iff_toNat_le, e]
  exact ⟨h1, h2⟩

theorem natDigits_all (n : Nat) : (natDigits n).all isDigitB = true := by
  simp only [natDigits, List.all_map, List.all_eq_true, Function.comp]
  intro c hc
  exact (digit_byte (Nat.isDigit_of_mem_toDigits (by decide) (by decide) hc)).2

theorem natDigits_ne_nil (n : Nat) : natDigits n ≠ [] := by
  simp [natDigits, Nat.toDigits_ne_nil]

theorem decVal_map_chars (cs : List Char) (h : ∀ c ∈ cs, c.isDigit = true) (acc : Nat) :
    (cs.map fun c => UInt8.ofNat c.toNat).foldl (fun a b => a * 10 + (b.toNat - 48)) acc =
      Nat.ofDigitChars 10 cs acc := by
  induction cs generalizing acc with
  | nil => simp
  | cons c r ih =>
    have hc := (digit_byte (h c (by simp))).1
    simp only [List.map_cons, List.foldl_cons, Nat.ofDigitChars_cons, hc]
    rw [ih (fun x hx => h x (by simp [hx]))]
    have : acc * 10 = 10 * acc := Nat.mul_comm _ _
    simp [this]

theorem decVal_natDigits (n : Nat) : decVal (natDigits n) = n := by
  unfold decVal natDigits
  rw [decVal_map_chars _ (fun c hc => Nat.isDigit_of_mem_toDigits (by decide) (by decide) hc)]
  exact Nat.ofDigitChars_ten_toDigits

/-- `strconv.Atoi(strconv.Itoa(v)) = v` for every int64. -/
theorem atoi_itoa (v : Int) (h1 : minInt64 ≤ v) (h2 : v ≤ maxInt64) : atoi (itoa v) = some v := by
  unfold itoa
  by_cases hn : v < 0
  · simp only [hn, if_true]
    have := atoi_sign_digits [45] (natDigits v.natAbs) (Or.inr (Or.inr rfl)) (natDigits_ne_nil _) (natDigits_all _)
    simp only [List.cons_append, List.nil_append, if_true, decVal_natDigits] at this
    rw [this]
    have e : -((v.natAbs : Nat) : Int) = v := by omega
    rw [e, if_pos ⟨h1, h2⟩]
  · simp only [hn, if_false]
    have := atoi_sign_digits [] (natDigits v.natAbs) (Or.inl rfl) (natDigits_ne_nil _) (natDigits_all _)
    have hne : ¬ (([] : Bytes) = [45]) := by simp
    simp only [List.nil_append, hne, if_false, decVal_natDigits] at this
    rw [this]
    have e : ((v.natAbs : Nat) : Int) = v := by omega
    rw [e, if_pos ⟨h1, h2⟩]

/-- No decimal rendering contains the array separator. -/
theorem itoa_nul_free (v : Int) : (0 : UInt8) ∉ itoa v := by
  have hd : ∀ n, (0 : UInt8) ∉ natDigits n := by
    intro n hm
    have := List.all_eq_true.mp (natDigits_all n) 0 hm
    revert this; decide
  unfold itoa
  split
  · intro hm
    rcases List.mem_cons.mp hm with h | h
    · revert h; decide
    · exact hd _ h
  · exact hd _

end Rare.C17
