import Rare.Model.C03Cmd
import Rare.Model.C03Wiring
import Rare.Proofs.C13Lower
import Rare.Proofs.C03Cmd
/-! `helpers.SortsByValue` against `helpers.BuildSorter`: both read the flag text through `parseSort`, so they agree on every
spelling; with the real `strings.ToLower` (any rune map meeting C13's `RuneLower` contract) as with `lowerK`. -/
namespace Rare.C03
open Rare.C07 Rare.C13

theorem sortsByValue_eq_with (fullName : Bytes) : sortsByValue fullName = sortsByValueWith lowerK fullName := rfl

theorem beq_lower (tl : Nat → Nat) (h : RuneLower tl) (k c : Bytes) (hc : c.all (fun x => x < 128) = true) :
    (goToLower tl k == c) = (lowerK k == c) := by
  rw [Bool.eq_iff_iff, beq_iff_eq, beq_iff_eq]
  exact lower_lookup tl h k c hc

/-- `parseSort` with Go's `strings.ToLower` and with `lowerK`: the same error / reverse flag, and the names compare alike
with every ASCII constant. -/
theorem parseSort_lower (tl : Nat → Nat) (h : RuneLower tl) (fullName : Bytes) :
    (match parseSort (goToLower tl) fullName, parseSort lowerK fullName with
     | .ok (n₁, r₁), .ok (n₂, r₂) => r₁ = r₂ ∧ n₁ = goToLower tl (splitNext colon fullName).1 ∧ n₂ = lowerK (splitNext colon fullName).1
     | .error _, .error _ => True
     | _, _ => False) := by
  unfold parseSort
  simp only [beq_lower tl h _ (asc "value") (by decide), beq_lower tl h _ (asc "rev") (by decide),
    beq_lower tl h _ (asc "reverse") (by decide), beq_lower tl h _ (asc "desc") (by decide),
    beq_lower tl h _ (asc "asc") (by decide)]
  cases (splitNext colon fullName).2 with
  | none => simp
  | some rest =>
    simp only
    by_cases h1 : (lowerK (splitNext colon rest).fst == asc "rev" || lowerK (splitNext colon rest).fst == asc "reverse") = true
    · simp [h1]
    · by_cases h2 : (lowerK (splitNext colon rest).fst == asc "desc") = true
      · simp [h1, h2]
      · by_cases h3 : (lowerK (splitNext colon rest).fst == asc "asc") = true
        · simp [h1, h2, h3]
        · simp [h1, h2, h3]

theorem sortsByValueWith_lower (tl : Nat → Nat) (h : RuneLower tl) (fullName : Bytes) :
    sortsByValueWith (goToLower tl) fullName = sortsByValue fullName := by
  have hp := parseSort_lower tl h fullName
  rw [sortsByValue_eq_with]
  unfold sortsByValueWith
  cases h1 : parseSort (goToLower tl) fullName with
  | error e1 =>
    cases h2 : parseSort lowerK fullName with
    | error e2 => rfl
    | ok p2 => rw [h1, h2] at hp; exact hp.elim
  | ok p1 =>
    cases h2 : parseSort lowerK fullName with
    | error e2 => rw [h1, h2] at hp; exact hp.elim
    | ok p2 =>
      obtain ⟨n₁, r₁⟩ := p1
      obtain ⟨n₂, r₂⟩ := p2
      rw [h1, h2] at hp
      obtain ⟨_, rfl, rfl⟩ := hp
      exact beq_lower tl h _ (asc "value") (by decide)

theorem lowerB_idem (c : UInt8) : lowerB (lowerB c) = lowerB c := by
  unfold lowerB
  by_cases h : 65 ≤ c ∧ c ≤ 90
  · rw [if_pos h]
    have h1 := h.1
    have h2 := h.2
    rw [UInt8.le_iff_toNat_le] at h1 h2
    have e65 : (65 : UInt8).toNat = 65 := rfl
    have e90 : (90 : UInt8).toNat = 90 := rfl
    have e32 : (32 : UInt8).toNat = 32 := rfl
    have : ¬ (65 ≤ c + 32 ∧ c + 32 ≤ 90) := by
      intro hh
      have h3 := hh.2
      rw [UInt8.le_iff_toNat_le, UInt8.toNat_add] at h3
      omega
    rw [if_neg this]
  · rw [if_neg h, if_neg h]

theorem foldLower_lowered_aux : ∀ (n : Nat) (k l : Bytes), k.length ≤ n → foldLower k = some l → l.map lowerB = l := by
  intro n
  induction n with
  | zero =>
    intro k l hk h
    have : k = [] := List.eq_nil_of_length_eq_zero (by omega)
    subst this
    simp [foldLower] at h
    subst h
    rfl
  | succ n ih =>
    intro k l hk h
    cases k with
    | nil => simp [foldLower] at h; subst h; rfl
    | cons c r =>
      simp only [List.length_cons] at hk
      rcases foldLower_some_view c r l h with ⟨hc, l', hr, rfl⟩ | ⟨r', l', _, rfl, hr, rfl⟩ | ⟨r', l', _, rfl, hr, rfl⟩
      · simp [lowerB_idem, ih r l' (by omega) hr]
      · simp only [List.length_cons] at hk
        have := ih r' l' (by omega) hr
        simp only [List.map_cons, this]
        rfl
      · simp only [List.length_cons] at hk
        have := ih r' l' (by omega) hr
        simp only [List.map_cons, this]
        rfl

/-- `strings.ToLower` of an already lower-cased name: nothing changes (as far as `lowerK` can tell) -/
theorem lowerK_idem (k : Bytes) : lowerK (lowerK k) = lowerK k := by
  cases hf : foldLower k with
  | none =>
    have hk : lowerK k = k := by simp [lowerK, hf]
    rw [hk, hk]
  | some l =>
    have hk : lowerK k = l := by simp [lowerK, hf]
    rw [hk]
    have ha := foldLower_isAscii k l hf
    have hl := foldLower_lowered_aux k.length k l (Nat.le_refl _) hf
    simp [lowerK, foldLower_ascii l ha, hl]

/-- a lower-cased name is looked up as the value sorter exactly when it is `value` -/
theorem lookupMode_value_iff (n : Bytes) : lookupMode lowerK (lowerK n) = some .value ↔ lowerK n = asc "value" := by
  unfold lookupMode
  simp only [lowerK_idem]
  constructor
  · intro hm
    split at hm
    · cases hm
    · split at hm
      · cases hm
      · split at hm
        · cases hm
        · split at hm
          · cases hm
          · split at hm
            · rename_i hv
              simpa using hv
            · cases hm
  · intro hv
    rw [hv]; decide

/-- `SortsByValue` says "value-ordered" exactly for the spellings for which `BuildSorter` builds the value sorter -/
theorem sortsByValue_iff_built (fullName : Bytes) :
    sortsByValue fullName = true ↔ ∃ rev, builtSorter lowerK fullName = some (true, rev) := by
  unfold sortsByValue builtSorter
  cases hp : parseSort lowerK fullName with
  | error e => simp
  | ok p =>
    obtain ⟨name, rev⟩ := p
    have hn : name = lowerK (splitNext colon fullName).1 := by
      unfold parseSort at hp
      simp only at hp
      split at hp
      · cases hp; rfl
      · split at hp
        · cases hp; rfl
        · split at hp
          · cases hp; rfl
          · split at hp
            · cases hp; rfl
            · cases hp
    subst hn
    simp only
    have hiff := lookupMode_value_iff (splitNext colon fullName).1
    constructor
    · intro hv
      have hv' : lowerK (splitNext colon fullName).1 = asc "value" := by simpa using hv
      rw [hiff.mpr hv']
      exact ⟨rev, rfl⟩
    · rintro ⟨rev', h⟩
      cases hm : lookupMode lowerK (lowerK (splitNext colon fullName).1) with
      | none => rw [hm] at h; cases h
      | some m =>
        rw [hm] at h
        cases m <;> first
          | (simp at h; done)
          | (have := hiff.mp hm; simp [this])

/-- `valueNilSorter`: the values of the two rows are never looked at -/
theorem valueNilSorter_ignores {σ : Type} (c : SCmp Key σ) (st : σ) (a b : NV) (va vb : Int) :
    valueNilSorter c st a b = valueNilSorter c st ⟨a.name, va⟩ ⟨b.name, vb⟩ := rfl

/-- What the trim guard of `spark` relies on, for EVERY sort name `BuildSorter` accepts (the inferring ones included, any
oracle for `ParseFloat` / date formats): when `SortsByValue` answers false the built comparator never looks at the values of
the rows – the column order is a function of the column NAMES – and when it answers true the comparator is the value sorter. -/
theorem buildSorter_by_name_or_value (o : Oracle) (ho : o.lower = lowerK) (sets : List SortSet) (fullName : Bytes) (s : Sorter)
    (hb : buildSorter o sets fullName = .ok s) :
    (sortsByValue fullName = false → ∀ (st : s.σ) (a b : NV) (va vb : Int), s.cmp st a b = s.cmp st ⟨a.name, va⟩ ⟨b.name, vb⟩) ∧
    (sortsByValue fullName = true →
      s = ⟨Unit, (), valueSorterEx (pureCmp byName)⟩ ∨ s = ⟨Unit, (), reverse (valueSorterEx (pureCmp byName))⟩) := by
  have hiff := sortsByValue_iff_built fullName
  unfold buildSorter lookupSorter at hb
  rw [ho] at hb
  unfold builtSorter at hiff
  cases hp : parseSort lowerK fullName with
  | error e => rw [hp] at hb; cases hb
  | ok p =>
    obtain ⟨name, rev⟩ := p
    rw [hp] at hb hiff
    simp only at hb hiff
    cases hm : lookupMode lowerK name with
    | none => rw [hm] at hb; cases hb
    | some m =>
      rw [hm] at hb hiff
      simp only at hb
      cases hb
      cases m <;> cases rev <;> simp only [modeSorter, Sorter.reversed, if_true, Bool.false_eq_true, if_false]
      all_goals first
        | (refine ⟨fun _ _ _ _ _ _ => rfl, fun hv => ?_⟩
           have := hiff.mp hv
           simp at this)
        | (refine ⟨fun hv => ?_, fun _ => ?_⟩
           · have : sortsByValue fullName = true := hiff.mpr ⟨_, rfl⟩
             rw [this] at hv; cases hv
           · first | exact Or.inl rfl | exact Or.inr rfl | exact Or.inl trivial | exact Or.inr trivial | simp)

/-! ### evaluating `pureSortLess` on a concrete spelling (`lowerK` is defined by well-founded recursion: the two look-ups
are decided in the kernel, the comparator is read off) -/

theorem ok_of_toOption {f : Bytes} {p : Bytes × Bool} (h : (parseSort lowerK f).toOption = some p) :
    parseSort lowerK f = .ok p := by
  cases hp : parseSort lowerK f with
  | error e => rw [hp] at h; cases h
  | ok q => rw [hp] at h; simp only [Except.toOption, Option.some.injEq] at h; rw [h]

theorem pureSortLess_text (f name : Bytes) (rev : Bool) (h : (parseSort lowerK f).toOption = some (name, rev))
    (h2 : lookupMode lowerK name = some .text) : pureSortLess f = some (bif rev then revLess nvNameLess else nvNameLess) := by
  unfold pureSortLess
  rw [ok_of_toOption h]; simp only; rw [h2]
  cases rev <;> rfl

theorem pureSortLess_value (f name : Bytes) (rev : Bool) (h : (parseSort lowerK f).toOption = some (name, rev))
    (h2 : lookupMode lowerK name = some .value) :
    pureSortLess f = some (bif rev then revLess nvValueAscLess else nvValueAscLess) := by
  unfold pureSortLess
  rw [ok_of_toOption h]; simp only; rw [h2]
  cases rev <;> rfl

theorem pureSortLess_numeric (f name : Bytes) (rev : Bool) (h : (parseSort lowerK f).toOption = some (name, rev))
    (h2 : lookupMode lowerK name = some .numeric) :
    pureSortLess f = some (bif rev then revLess nvSmartLess else nvSmartLess) := by
  unfold pureSortLess
  rw [ok_of_toOption h]; simp only; rw [h2]
  cases rev <;> rfl

theorem pureSortLess_infer (f name : Bytes) (rev : Bool) (m : Mode) (h : (parseSort lowerK f).toOption = some (name, rev))
    (h2 : lookupMode lowerK name = some m) (hm : m ≠ .text ∧ m ≠ .value ∧ m ≠ .numeric) : pureSortLess f = none := by
  unfold pureSortLess
  rw [ok_of_toOption h]; simp only; rw [h2]
  cases m <;> simp_all

theorem pureSortLess_error (f : Bytes) (h : (parseSort lowerK f).toOption = none) : pureSortLess f = none := by
  unfold pureSortLess
  cases hp : parseSort lowerK f with
  | error e => rfl
  | ok q => rw [hp] at h; cases h

end Rare.C03
