import Rare.Props.C04
import Rare.Model.C06Read
/-!
A failing `Read` is reported exactly once, whatever it returns together with the error (property C06, read faults).
Over the C04 model of `ImmediateReadAhead` (scripted reader: per `Read` call a byte count and an optional error).
-/
namespace Rare.C04

theorem closed_failseen :
    Closed (fun s => (s.eof = false ∧ failsFirst s.rd.script = true ∧ s.errs = 0) ∨ (s.errs = 1 ∧ s.eof = true)) where
  emitAt := fun s k h => h
  emitTail := fun s h => h
  grown := fun s h => by unfold Imm.grown; split <;> exact h
  read := fun s h he _ => by
    dsimp only
    rcases h with ⟨_, hf, h0⟩ | ⟨_, h1⟩
    · cases hsc : s.rd.script with
      | nil => rw [hsc] at hf; simp [failsFirst] at hf
      | cons st ss =>
        rw [hsc] at hf
        simp only [failsFirst] at hf
        cases hst : st.err with
        | none =>
          rw [hst] at hf
          simp only [Reader.read, hsc, hst, Imm.recv]
          exact Or.inl ⟨he, hf, h0⟩
        | some e =>
          rw [hst] at hf
          simp only [Reader.read, hsc, hst, Imm.recv, Imm.fail]
          have : e = .fail := by simpa using hf
          exact Or.inr (by simp [this, h0])
    · rw [he] at h1; cases h1

/-- **A failing read is counted exactly once, whatever comes with it.**  If the first `Read` that returns an error
    returns a failure (with any number of bytes, none or some, with or without a line end among them – the script
    is arbitrary), then at the end of the scan the `OnError` callback has fired exactly once, and the lines handed
    on are exactly the lines of everything the reader delivered, the bytes that came with the error included. -/
theorem imm_fault_counted (bufSize : Nat) (data : Bytes) (script : List Step) (h : 1 ≤ bufSize)
    (hf : failsFirst script = true) :
    (Imm.run bufSize data script).2.2.errs = 1 ∧
    (Imm.run bufSize data script).1.map (·.2) = splitLines (Imm.run bufSize data script).2.2.delivered := by
  have hg : Good (Imm.init bufSize ⟨data, script⟩) [] := good_init _ _ h
  have hdone := imm_terminates bufSize data script h
  have heof := scanAll_eof _ _ hg hdone
  have hP := scanAll_closed closed_failseen (data.length + script.length + 3) (data.length + script.length + 3) hg
    (Or.inl ⟨by simp [Imm.init], by simpa [Imm.init] using hf, by simp [Imm.init]⟩)
  refine ⟨?_, (imm_tokens_eq_split bufSize data script h).1⟩
  rcases hP with ⟨he, _, _⟩ | ⟨h1, _⟩
  · have : (Imm.run bufSize data script).2.2.eof = true := heof
    simp only [Imm.run] at this
    rw [he] at this; cases this
  · exact h1

end Rare.C04
