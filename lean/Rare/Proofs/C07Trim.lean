import Rare.Proofs.C07Base
/-!
`TableAggregator.Trim` (model `Table.trim`): for every well-formed table, every predicate and every pair of
covering map-iteration orders (duplicates allowed),

* `trim_cells`  – the remaining cells are exactly the unselected ones, values unchanged;
* `trim_wf`, `trim_rows`, `trim_cols` – a row / column survives iff it still has a cell;
* `trim_order_independent` – cells, row key set and column key set do not depend on the orders;
* `trim_count`, `trim_count_order_independent` – the returned number is the number of selected cells
  (orders duplicate-free, as Go's `range` yields each key once);
* `trim_sums`, `trim_colTotals` – row sums and column totals stay the wrapped sums of the remaining cells.
-/
namespace Rare.C07

def Table.cell (t : Table) (c r : Bytes) : Option Int := (aget t.rows r).bind fun row => aget row.cols c

def trimmedCell (p : Pred) (c r : Bytes) : Option Int → Option Int
  | some v => if p c r v then none else some v
  | none => none

def RowsNonempty (t : Table) : Prop := ∀ r row, aget t.rows r = some row → row.cols ≠ []

theorem trimmedCell_idem (p : Pred) (c r : Bytes) (x : Option Int) :
    trimmedCell p c r (trimmedCell p c r x) = trimmedCell p c r x := by
  cases x with
  | none => rfl
  | some v => by_cases h : p c r v <;> simp [trimmedCell, h]

theorem trimmedCell_isSome (p : Pred) (c r : Bytes) (x : Option Int) (h : (trimmedCell p c r x).isSome) : x.isSome := by
  cases x with
  | none => simp [trimmedCell] at h
  | some v => rfl

/-- The row write-back at the end of the loop body. -/
def putRow (t : Table) (rn : Bytes) (row : TableRow) (tcols : List (Bytes × Int)) : Table :=
  { t with rows := if row.cols.length = 0 then adel t.rows rn else aset t.rows rn row, cols := tcols }

theorem putRow_cell (t : Table) (rn : Bytes) (row : TableRow) (tcols : List (Bytes × Int)) (c' r' : Bytes) :
    (putRow t rn row tcols).cell c' r' = if r' = rn then aget row.cols c' else t.cell c' r' := by
  unfold putRow Table.cell
  by_cases h0 : row.cols.length = 0
  · have hnil : row.cols = [] := List.eq_nil_of_length_eq_zero h0
    by_cases hr : r' = rn
    · subst hr; simp [aget_adel, hnil]
    · have hr' : ¬ rn = r' := fun e => hr e.symm
      simp [h0, aget_adel, hr, hr']
  · by_cases hr : r' = rn
    · subst hr; simp [h0, aget_aset]
    · have hr' : ¬ rn = r' := fun e => hr e.symm
      simp [h0, aget_aset, hr, hr']

theorem putRow_nonempty (t : Table) (rn : Bytes) (row : TableRow) (tcols : List (Bytes × Int))
    (h : RowsNonempty t) : RowsNonempty (putRow t rn row tcols) := by
  intro r rw hr
  unfold putRow at hr
  by_cases h0 : row.cols.length = 0
  · simp only [h0, if_true, aget_adel] at hr
    by_cases e : rn = r
    · simp [e] at hr
    · simp only [e, if_false] at hr; exact h r rw hr
  · simp only [h0, if_false, aget_aset] at hr
    by_cases e : rn = r
    · simp only [e, if_true, Option.some.injEq] at hr
      subst hr; intro hn; exact h0 (by simp [hn])
    · simp only [e, if_false] at hr; exact h r rw hr

theorem putRow_cols (t : Table) (rn : Bytes) (row : TableRow) (tcols : List (Bytes × Int)) :
    (putRow t rn row tcols).cols = tcols := rfl

theorem trimCell_none (p : Pred) (c : Bytes) (t : Table) (n : Nat) (ra : Bool) (rn : Bytes)
    (h : aget t.rows rn = none) : Table.trimCell p c (t, n, ra) rn = (t, n, ra) := by
  simp [Table.trimCell, h]

/-- One inner-loop step in normal form. -/
theorem trimCell_some (p : Pred) (c : Bytes) (t : Table) (n : Nat) (ra : Bool) (rn : Bytes) (row : TableRow)
    (h : aget t.rows rn = some row) :
    ∃ row' tcols n1,
      Table.trimCell p c (t, n, ra) rn
        = (putRow t rn row' tcols, n1, (ra && (trimmedCell p c rn (aget row.cols c)).isNone)) ∧
      (∀ c', aget row'.cols c' = if c' = c then trimmedCell p c rn (aget row.cols c) else aget row.cols c') ∧
      (∀ c', (aget t.cols c).isSome → (aget tcols c').isSome = (aget t.cols c').isSome) := by
  cases h2 : aget row.cols c with
  | none =>
    refine ⟨row, t.cols, n, ?_, ?_, ?_⟩
    · simp [Table.trimCell, h, h2, putRow, trimmedCell]
    · intro c'; by_cases e : c' = c
      · subst e; simp [h2, trimmedCell]
      · simp [e]
    · intros; rfl
  | some val =>
    by_cases hp : p c rn val = true
    · refine ⟨{ row with cols := adel row.cols c, sum := wrap64 (row.sum - val) },
        aset t.cols c (wrap64 ((aget t.cols c).getD 0 - val)), n + 1, ?_, ?_, ?_⟩
      · simp [Table.trimCell, h, h2, hp, putRow, trimmedCell]
      · intro c'; by_cases e : c' = c
        · subst e; simp [aget_adel, trimmedCell, hp]
        · have e' : ¬ c = c' := fun x => e x.symm
          simp [aget_adel, e, e']
      · intro c' hc
        by_cases e : c = c'
        · subst e; simp [aget_aset, hc]
        · simp [aget_aset, e]
    · have hp' : p c rn val = false := by simpa using hp
      refine ⟨row, t.cols, n, ?_, ?_, ?_⟩
      · simp [Table.trimCell, h, h2, hp', putRow, trimmedCell]
      · intro c'; by_cases e : c' = c
        · subst e; simp [h2, trimmedCell, hp']
        · simp [e]
      · intros; rfl

/-- Specification of a run of inner-loop steps for column `c` over the row names `L`, from `(t, _, ra)` to `st`. -/
structure InnerSpec (p : Pred) (c : Bytes) (L : List Bytes) (t : Table) (ra : Bool) (st : Table × Nat × Bool) : Prop where
  cell : ∀ c' r', st.1.cell c' r' = if c' = c ∧ r' ∈ L then trimmedCell p c r' (t.cell c r') else t.cell c' r'
  nonempty : RowsNonempty t → RowsNonempty st.1
  cols : (aget t.cols c).isSome → ∀ c', (aget st.1.cols c').isSome = (aget t.cols c').isSome
  flag : st.2.2 = (ra && L.all fun r => (trimmedCell p c r (t.cell c r)).isNone)

theorem trimCell_step (p : Pred) (c : Bytes) (t : Table) (n : Nat) (ra : Bool) (rn : Bytes) :
    InnerSpec p c [rn] t ra (Table.trimCell p c (t, n, ra) rn) := by
  cases h : aget t.rows rn with
  | none =>
    have hc : t.cell c rn = none := by simp [Table.cell, h]
    rw [trimCell_none p c t n ra rn h]
    refine ⟨?_, fun x => x, fun _ _ => rfl, ?_⟩
    · intro c' r'
      by_cases e : c' = c ∧ r' ∈ [rn]
      · obtain ⟨e1, e2⟩ := e
        have e2 : r' = rn := by simpa using e2
        subst e1; subst e2; simp [hc, trimmedCell]
      · simp only [e, if_false]
    · simp [hc, trimmedCell]
  | some row =>
    have hc : t.cell c rn = aget row.cols c := by simp [Table.cell, h]
    obtain ⟨row', tcols, n1, heq, hrow, hcols⟩ := trimCell_some p c t n ra rn row h
    rw [heq]
    refine ⟨?_, putRow_nonempty t rn row' tcols, fun hs c' => hcols c' hs, ?_⟩
    · intro c' r'
      simp only [putRow_cell, hrow, List.mem_singleton]
      by_cases e2 : r' = rn
      · subst e2
        by_cases e1 : c' = c
        · subst e1; simp [hc]
        · simp [e1, Table.cell, h]
      · simp [e2]
    · simp [hc]

theorem InnerSpec.nil (p : Pred) (c : Bytes) (t : Table) (n : Nat) (ra : Bool) : InnerSpec p c [] t ra (t, n, ra) :=
  ⟨by simp, fun x => x, fun _ _ => rfl, by simp⟩

/-- A column-`c` cell after a step re-trims to the same value (idempotence). -/
theorem InnerSpec.retrim {p : Pred} {c : Bytes} {L : List Bytes} {t : Table} {ra : Bool} {st : Table × Nat × Bool}
    (h : InnerSpec p c L t ra st) (r : Bytes) :
    trimmedCell p c r (st.1.cell c r) = trimmedCell p c r (t.cell c r) := by
  rw [h.cell c r]
  by_cases e : r ∈ L
  · simp [e, trimmedCell_idem]
  · simp [e]

theorem InnerSpec.cons {p : Pred} {c : Bytes} {rn : Bytes} {L : List Bytes} {t : Table} {ra : Bool}
    {st1 st : Table × Nat × Bool}
    (h1 : InnerSpec p c [rn] t ra st1) (h2 : InnerSpec p c L st1.1 st1.2.2 st) :
    InnerSpec p c (rn :: L) t ra st := by
  refine ⟨?_, fun x => h2.nonempty (h1.nonempty x), ?_, ?_⟩
  · intro c' r'
    rw [h2.cell c' r']
    by_cases ec : c' = c
    · subst ec
      by_cases eL : r' ∈ L
      · simp [eL, h1.retrim]
      · simp [eL, h1.cell]
    · simp [ec, h1.cell]
  · intro hs c'
    have := h1.cols hs
    rw [h2.cols (by rw [this c]; exact hs) c', this c']
  · rw [h2.flag, h1.flag]
    simp only [List.all_cons, List.all_nil, Bool.and_true, h1.retrim, Bool.and_assoc]

theorem inner_fold (p : Pred) (c : Bytes) (L : List Bytes) : ∀ (t : Table) (n : Nat) (ra : Bool),
    InnerSpec p c L t ra (L.foldl (Table.trimCell p c) (t, n, ra)) := by
  induction L with
  | nil => intro t n ra; exact InnerSpec.nil p c t n ra
  | cons rn L ih =>
    intro t n ra
    simp only [List.foldl_cons]
    have h1 := trimCell_step p c t n ra rn
    generalize Table.trimCell p c (t, n, ra) rn = st1 at h1 ⊢
    obtain ⟨t1, n1, ra1⟩ := st1
    exact InnerSpec.cons h1 (ih t1 n1 ra1)

structure Table.WF (t : Table) : Prop where
  rows_nonempty : ∀ r row, aget t.rows r = some row → row.cols ≠ []
  cols_iff : ∀ c, (aget t.cols c).isSome ↔ ∃ r, (t.cell c r).isSome

def Covers (t : Table) (colOrder : List Bytes) (rowOrder : Bytes → List Bytes) : Prop :=
  (∀ c, (aget t.cols c).isSome → c ∈ colOrder) ∧ (∀ c r, (aget t.rows r).isSome → r ∈ rowOrder c)

theorem cell_isSome_row {t : Table} {c r : Bytes} (h : (t.cell c r).isSome) : (aget t.rows r).isSome := by
  unfold Table.cell at h
  cases h' : aget t.rows r with
  | none => simp [h'] at h
  | some _ => rfl

theorem cell_eq_none_of_not_isSome {t : Table} {c r : Bytes} (h : ¬ (t.cell c r).isSome) : t.cell c r = none := by
  simpa using h

theorem cell_withCols (t : Table) (cs : List (Bytes × Int)) (c r : Bytes) :
    ({ t with cols := cs } : Table).cell c r = t.cell c r := rfl

theorem trimCol_none (p : Pred) (L : List Bytes) (t : Table) (n : Nat) (c : Bytes) (h : aget t.cols c = none) :
    Table.trimCol p L (t, n) c = (t, n) := by
  simp [Table.trimCol, h]

theorem trimCol_some (p : Pred) (L : List Bytes) (t : Table) (n : Nat) (c : Bytes) (v : Int) (h : aget t.cols c = some v) :
    Table.trimCol p L (t, n) c =
      (if (L.foldl (Table.trimCell p c) (t, n, true)).2.2
        then { (L.foldl (Table.trimCell p c) (t, n, true)).1 with
                cols := adel (L.foldl (Table.trimCell p c) (t, n, true)).1.cols c }
        else (L.foldl (Table.trimCell p c) (t, n, true)).1,
       (L.foldl (Table.trimCell p c) (t, n, true)).2.1) := by
  simp [Table.trimCol, h]

/-- The table after the end of one outer-loop iteration, from the inner loop's final state. -/
def finishCol (c : Bytes) (st : Table × Nat × Bool) : Table :=
  if st.2.2 then { st.1 with cols := adel st.1.cols c } else st.1

theorem finishCol_cell (c : Bytes) (st : Table × Nat × Bool) (c' r' : Bytes) :
    (finishCol c st).cell c' r' = st.1.cell c' r' := by
  unfold finishCol; split <;> rfl

theorem finishCol_rows (c : Bytes) (st : Table × Nat × Bool) : (finishCol c st).rows = st.1.rows := by
  unfold finishCol; split <;> rfl

theorem finishCol_cols_ne (c : Bytes) (st : Table × Nat × Bool) (c' : Bytes) (h : c ≠ c') :
    aget (finishCol c st).cols c' = aget st.1.cols c' := by
  unfold finishCol; split
  · simp [aget_adel, h]
  · rfl

theorem finishCol_cols_self (c : Bytes) (st : Table × Nat × Bool) :
    aget (finishCol c st).cols c = if st.2.2 then none else aget st.1.cols c := by
  unfold finishCol; split <;> simp [aget_adel]

section
variable {p : Pred} {c : Bytes} {L : List Bytes} {t : Table} {st : Table × Nat × Bool}

theorem finishCol_cells (hs : InnerSpec p c L t true st)
    (hcov : ∀ r, (t.cell c r).isSome → r ∈ L) (c' r' : Bytes) :
    (finishCol c st).cell c' r' = if c' = c then trimmedCell p c r' (t.cell c r') else t.cell c' r' := by
  rw [finishCol_cell, hs.cell]
  by_cases ec : c' = c
  · subst ec
    by_cases eL : r' ∈ L
    · simp [eL]
    · have : t.cell c' r' = none := cell_eq_none_of_not_isSome (fun h => eL (hcov r' h))
      simp [eL, this, trimmedCell]
  · simp [ec]

theorem finishCol_wf (hs : InnerSpec p c L t true st) (hwf : t.WF) (hc : (aget t.cols c).isSome)
    (hcov : ∀ r, (t.cell c r).isSome → r ∈ L) : (finishCol c st).WF := by
  have hcells := finishCol_cells hs hcov
  constructor
  · rw [finishCol_rows]; exact hs.nonempty hwf.rows_nonempty
  · intro c'
    by_cases ec : c = c'
    · subst ec
      rw [finishCol_cols_self, hs.flag]
      simp only [hcells, if_true, Bool.true_and]
      by_cases hall : (L.all fun r => (trimmedCell p c r (t.cell c r)).isNone) = true
      · simp only [hall, if_true, Option.isSome_none, Bool.false_eq_true, false_iff]
        rintro ⟨r, hr⟩
        by_cases eL : r ∈ L
        · have := List.all_eq_true.mp hall r eL
          simp [Option.isNone_iff_eq_none.mp this] at hr
        · have : t.cell c r = none := cell_eq_none_of_not_isSome (fun h => eL (hcov r h))
          simp [this, trimmedCell] at hr
      · simp only [hall, Bool.false_eq_true, if_false, hs.cols hc c, hc, true_iff]
        have : ∃ r, r ∈ L ∧ ¬ (trimmedCell p c r (t.cell c r)).isNone = true := by
          simpa [List.all_eq_true] using hall
        obtain ⟨r, _, hr⟩ := this
        refine ⟨r, ?_⟩
        cases hx : trimmedCell p c r (t.cell c r) with
        | none => simp [hx] at hr
        | some _ => rfl
    · rw [finishCol_cols_ne c st c' ec, hs.cols hc c', hwf.cols_iff c']
      have ec' : ¬ c' = c := fun e => ec e.symm
      simp only [hcells, ec', if_false]
end

/-- One outer-loop iteration: only column `c` changes, each of its cells is trimmed, and the table stays
well-formed. -/
theorem trimCol_spec (p : Pred) (L : List Bytes) (t : Table) (n : Nat) (c : Bytes) (hwf : t.WF)
    (hcov : ∀ r, (t.cell c r).isSome → r ∈ L) :
    (Table.trimCol p L (t, n) c).1.WF ∧
    ∀ c' r', (Table.trimCol p L (t, n) c).1.cell c' r'
      = if c' = c then trimmedCell p c r' (t.cell c r') else t.cell c' r' := by
  cases h : aget t.cols c with
  | none =>
    rw [trimCol_none p L t n c h]
    refine ⟨hwf, ?_⟩
    intro c' r'
    by_cases ec : c' = c
    · subst ec
      have : t.cell c' r' = none := by
        apply cell_eq_none_of_not_isSome
        intro hx
        have := (hwf.cols_iff c').mpr ⟨r', hx⟩
        simp [h] at this
      simp [this, trimmedCell]
    · simp [ec]
  | some v =>
    rw [trimCol_some p L t n c v h]
    have hs := inner_fold p c L t n true
    have hc : (aget t.cols c).isSome := by simp [h]
    exact ⟨finishCol_wf hs hwf hc hcov, finishCol_cells hs hcov⟩

/-- The outer loop over any list of columns, from any well-formed state whose column-`c` cells lie in rows
listed by `rowOrder c`. -/
theorem outer_fold (p : Pred) (rowOrder : Bytes → List Bytes) (cs : List Bytes) :
    ∀ (t : Table) (n : Nat), t.WF → (∀ c r, (t.cell c r).isSome → r ∈ rowOrder c) →
      (cs.foldl (fun st c => Table.trimCol p (rowOrder c) st c) (t, n)).1.WF ∧
      ∀ c' r', (cs.foldl (fun st c => Table.trimCol p (rowOrder c) st c) (t, n)).1.cell c' r'
        = if c' ∈ cs then trimmedCell p c' r' (t.cell c' r') else t.cell c' r' := by
  induction cs with
  | nil => intro t n hwf _; exact ⟨hwf, by simp⟩
  | cons c cs ih =>
    intro t n hwf hcov
    simp only [List.foldl_cons]
    obtain ⟨hwf1, hcell1⟩ := trimCol_spec p (rowOrder c) t n c hwf (hcov c)
    generalize Table.trimCol p (rowOrder c) (t, n) c = st1 at hwf1 hcell1 ⊢
    obtain ⟨t1, n1⟩ := st1
    simp only at hwf1 hcell1
    have hcov1 : ∀ c' r, (t1.cell c' r).isSome → r ∈ rowOrder c' := by
      intro c' r h
      rw [hcell1] at h
      by_cases ec : c' = c
      · subst ec
        simp only [if_true] at h
        exact hcov c' r (trimmedCell_isSome p c' r _ h)
      · simp only [ec, if_false] at h; exact hcov c' r h
    obtain ⟨hwf2, hcell2⟩ := ih t1 n1 hwf1 hcov1
    refine ⟨hwf2, ?_⟩
    intro c' r'
    rw [hcell2, hcell1]
    by_cases ec : c' = c
    · subst ec
      by_cases em : c' ∈ cs
      · simp [em, trimmedCell_idem]
      · simp [em]
    · simp [ec]

section Main
variable (t : Table) (p : Pred) (colOrder : List Bytes) (rowOrder : Bytes → List Bytes)

theorem covers_rows {t : Table} {colOrder : List Bytes} {rowOrder : Bytes → List Bytes}
    (hcov : Covers t colOrder rowOrder) : ∀ c r, (t.cell c r).isSome → r ∈ rowOrder c :=
  fun c r h => hcov.2 c r (cell_isSome_row h)

/-- `Trim` keeps the table well-formed. -/
theorem trim_wf (hwf : t.WF) (hcov : Covers t colOrder rowOrder) : (t.trim p colOrder rowOrder).1.WF :=
  (outer_fold p rowOrder colOrder t 0 hwf (covers_rows hcov)).1

/-- (a) The remaining cells are exactly the unselected ones, with unchanged values. -/
theorem trim_cells (hwf : t.WF) (hcov : Covers t colOrder rowOrder) (c r : Bytes) :
    (t.trim p colOrder rowOrder).1.cell c r = trimmedCell p c r (t.cell c r) := by
  have h := (outer_fold p rowOrder colOrder t 0 hwf (covers_rows hcov)).2 c r
  unfold Table.trim
  rw [h]
  by_cases em : c ∈ colOrder
  · simp [em]
  · have hn : t.cell c r = none := by
      apply cell_eq_none_of_not_isSome
      intro hx
      exact em (hcov.1 c ((hwf.cols_iff c).mpr ⟨r, hx⟩))
    simp [em, hn, trimmedCell]

/-- In a well-formed table a row exists iff it has a cell. -/
theorem WF.rows_iff {t : Table} (hwf : t.WF) (r : Bytes) : (aget t.rows r).isSome ↔ ∃ c, (t.cell c r).isSome := by
  constructor
  · intro h
    cases hr : aget t.rows r with
    | none => simp [hr] at h
    | some row =>
      have hne := hwf.rows_nonempty r row hr
      have : ¬ ∀ k, aget row.cols k = none := fun hall => hne ((eq_nil_iff_aget row.cols).mpr hall)
      have : ∃ k, ¬ aget row.cols k = none := Classical.not_forall.mp this
      obtain ⟨k, hk⟩ := this
      refine ⟨k, ?_⟩
      simp only [Table.cell, hr, Option.bind_some]
      cases hx : aget row.cols k with
      | none => exact absurd hx hk
      | some _ => rfl
  · rintro ⟨c, hc⟩; exact cell_isSome_row hc

/-- (b) A row survives iff it still has a cell. -/
theorem trim_rows (hwf : t.WF) (hcov : Covers t colOrder rowOrder) (r : Bytes) :
    (aget (t.trim p colOrder rowOrder).1.rows r).isSome ↔ ∃ c, ((t.trim p colOrder rowOrder).1.cell c r).isSome :=
  WF.rows_iff (trim_wf t p colOrder rowOrder hwf hcov) r

/-- (c) A column survives iff it still has a cell. -/
theorem trim_cols (hwf : t.WF) (hcov : Covers t colOrder rowOrder) (c : Bytes) :
    (aget (t.trim p colOrder rowOrder).1.cols c).isSome ↔ ∃ r, ((t.trim p colOrder rowOrder).1.cell c r).isSome :=
  (trim_wf t p colOrder rowOrder hwf hcov).cols_iff c

/-- (b'), (c') in terms of the original table. -/
theorem trim_rows_orig (hwf : t.WF) (hcov : Covers t colOrder rowOrder) (r : Bytes) :
    (aget (t.trim p colOrder rowOrder).1.rows r).isSome ↔ ∃ c, (trimmedCell p c r (t.cell c r)).isSome := by
  rw [trim_rows t p colOrder rowOrder hwf hcov]
  simp only [trim_cells t p colOrder rowOrder hwf hcov]

theorem trim_cols_orig (hwf : t.WF) (hcov : Covers t colOrder rowOrder) (c : Bytes) :
    (aget (t.trim p colOrder rowOrder).1.cols c).isSome ↔ ∃ r, (trimmedCell p c r (t.cell c r)).isSome := by
  rw [trim_cols t p colOrder rowOrder hwf hcov]
  simp only [trim_cells t p colOrder rowOrder hwf hcov]

/-- (d) The result does not depend on the map iteration orders. -/
theorem trim_order_independent (colOrder' : List Bytes) (rowOrder' : Bytes → List Bytes)
    (hwf : t.WF) (hcov : Covers t colOrder rowOrder) (hcov' : Covers t colOrder' rowOrder') :
    (∀ c r, (t.trim p colOrder rowOrder).1.cell c r = (t.trim p colOrder' rowOrder').1.cell c r) ∧
    (∀ r, (aget (t.trim p colOrder rowOrder).1.rows r).isSome = (aget (t.trim p colOrder' rowOrder').1.rows r).isSome) ∧
    (∀ c, (aget (t.trim p colOrder rowOrder).1.cols c).isSome = (aget (t.trim p colOrder' rowOrder').1.cols c).isSome) := by
  refine ⟨?_, ?_, ?_⟩
  · intro c r; rw [trim_cells t p colOrder rowOrder hwf hcov, trim_cells t p colOrder' rowOrder' hwf hcov']
  · intro r
    rw [Bool.eq_iff_iff, trim_rows_orig t p colOrder rowOrder hwf hcov, trim_rows_orig t p colOrder' rowOrder' hwf hcov']
  · intro c
    rw [Bool.eq_iff_iff, trim_cols_orig t p colOrder rowOrder hwf hcov, trim_cols_orig t p colOrder' rowOrder' hwf hcov']
end Main

/-! ### (e) the returned count, row sums and column totals -/

/-- The cell is removed by `Trim`. -/
def selected (p : Pred) (c r : Bytes) : Option Int → Bool
  | some v => p c r v
  | none => false

def sumVals (m : List (Bytes × Int)) : Int := m.foldl (fun a kv => a + kv.2) 0

/-- A row's keys are distinct and its `sum` field is the (wrapped) sum of its cells. -/
def RowSumOK (row : TableRow) : Prop := (akeys row.cols).Nodup ∧ row.sum = wrap64 (sumVals row.cols)

def SumsOK (t : Table) : Prop := ∀ r row, aget t.rows r = some row → RowSumOK row

theorem trimmedCell_of_not_selected (p : Pred) (c r : Bytes) (x : Option Int) (h : selected p c r x = false) :
    trimmedCell p c r x = x := by
  cases x with
  | none => rfl
  | some v => simp [selected] at h; simp [trimmedCell, h]

theorem trimmedCell_of_selected (p : Pred) (c r : Bytes) (x : Option Int) (h : selected p c r x = true) :
    trimmedCell p c r x = none := by
  cases x with
  | none => rfl
  | some v => simp [selected] at h; simp [trimmedCell, h]

theorem selected_trimmed (p : Pred) (c r : Bytes) (x : Option Int) : selected p c r (trimmedCell p c r x) = false := by
  cases x with
  | none => rfl
  | some v => by_cases h : p c r v <;> simp [trimmedCell, selected, h]

theorem foldl_add_init (m : List (Bytes × Int)) : ∀ a : Int,
    m.foldl (fun a kv => a + kv.2) a = a + m.foldl (fun a kv => a + kv.2) 0 := by
  induction m with
  | nil => intro a; simp
  | cons e m ih => intro a; simp only [List.foldl_cons]; rw [ih (a + e.2), ih (0 + e.2)]; omega

theorem sumVals_cons (k : Bytes) (v : Int) (m : List (Bytes × Int)) : sumVals ((k, v) :: m) = v + sumVals m := by
  unfold sumVals; simp only [List.foldl_cons]; rw [foldl_add_init]; omega

theorem adel_of_aget_none {α : Type} (m : List (Bytes × α)) (c : Bytes) (h : aget m c = none) : adel m c = m := by
  induction m with
  | nil => rfl
  | cons e m ih =>
    obtain ⟨k0, v0⟩ := e
    by_cases e : k0 = c
    · simp [aget, e] at h
    · simp only [aget, e, if_false] at h
      simp [adel, e, ih h]

theorem sumVals_adel (m : List (Bytes × Int)) (c : Bytes) (val : Int) (hnd : (akeys m).Nodup)
    (h : aget m c = some val) : sumVals (adel m c) = sumVals m - val := by
  induction m with
  | nil => simp at h
  | cons e m ih =>
    obtain ⟨k0, v0⟩ := e
    have hnd' : k0 ∉ akeys m ∧ (akeys m).Nodup := by simpa [akeys] using hnd
    by_cases e : k0 = c
    · subst e
      simp only [aget, if_true, Option.some.injEq] at h
      have hn : aget m k0 = none := by
        have := hnd'.1
        rw [mem_akeys_iff] at this
        simpa using this
      simp only [adel, if_true, adel_of_aget_none m k0 hn, sumVals_cons]; omega
    · simp only [aget, e, if_false] at h
      simp only [adel, e, if_false, sumVals_cons, ih hnd'.2 h]; omega

theorem akeys_adel_nodup {α : Type} (m : List (Bytes × α)) (c : Bytes) (hnd : (akeys m).Nodup) :
    (akeys (adel m c)).Nodup := by
  induction m with
  | nil => simpa [adel] using hnd
  | cons e m ih =>
    obtain ⟨k0, v0⟩ := e
    have hnd' : k0 ∉ akeys m ∧ (akeys m).Nodup := by simpa [akeys] using hnd
    by_cases e : k0 = c
    · simp only [adel, e, if_true]; exact ih hnd'.2
    · simp only [adel, e, if_false]
      have : k0 ∉ akeys (adel m c) := by
        rw [mem_akeys_iff, aget_adel]
        have := hnd'.1
        rw [mem_akeys_iff] at this
        split
        · simp
        · exact this
      have := ih hnd'.2
      simp only [akeys, List.map_cons, List.nodup_cons]
      exact ⟨by simpa [akeys] using ‹k0 ∉ akeys (adel m c)›, by simpa [akeys] using this⟩

theorem putRow_sums (t : Table) (rn : Bytes) (row : TableRow) (tcols : List (Bytes × Int))
    (h : SumsOK t) (hrow : RowSumOK row) : SumsOK (putRow t rn row tcols) := by
  intro r rw hr
  unfold putRow at hr
  by_cases h0 : row.cols.length = 0
  · simp only [h0, if_true, aget_adel] at hr
    by_cases e : rn = r
    · simp [e] at hr
    · simp only [e, if_false] at hr; exact h r rw hr
  · simp only [h0, if_false, aget_aset] at hr
    by_cases e : rn = r
    · simp only [e, if_true, Option.some.injEq] at hr
      subst hr; exact hrow
    · simp only [e, if_false] at hr; exact h r rw hr

/-- One inner-loop step in normal form, with the counter, the column totals and the row sum. -/
theorem trimCell_some_acc (p : Pred) (c : Bytes) (t : Table) (n : Nat) (ra : Bool) (rn : Bytes) (row : TableRow)
    (h : aget t.rows rn = some row) :
    ∃ row' ra1,
      Table.trimCell p c (t, n, ra) rn
        = (putRow t rn row'
            (if selected p c rn (aget row.cols c)
              then aset t.cols c (wrap64 ((aget t.cols c).getD 0 - (aget row.cols c).getD 0)) else t.cols),
           n + (if selected p c rn (aget row.cols c) then 1 else 0), ra1) ∧
      (RowSumOK row → RowSumOK row') := by
  cases h2 : aget row.cols c with
  | none =>
    refine ⟨row, ra, ?_, fun x => x⟩
    simp [Table.trimCell, h, h2, putRow, selected]
  | some val =>
    by_cases hp : p c rn val = true
    · refine ⟨{ row with cols := adel row.cols c, sum := wrap64 (row.sum - val) }, ra, ?_, ?_⟩
      · simp [Table.trimCell, h, h2, hp, putRow, selected]
      · rintro ⟨hnd, hsum⟩
        refine ⟨akeys_adel_nodup row.cols c hnd, ?_⟩
        simp only [sumVals_adel row.cols c val hnd h2, hsum, wrap64_sub_left]
    · have hp' : p c rn val = false := by simpa using hp
      refine ⟨row, false, ?_, fun x => x⟩
      simp [Table.trimCell, h, h2, hp', putRow, selected]

theorem trimCell_acc (p : Pred) (c : Bytes) (t : Table) (n : Nat) (ra : Bool) (rn : Bytes) :
    (Table.trimCell p c (t, n, ra) rn).2.1 = n + (if selected p c rn (t.cell c rn) then 1 else 0) ∧
    (Table.trimCell p c (t, n, ra) rn).1.cols
      = (if selected p c rn (t.cell c rn)
          then aset t.cols c (wrap64 ((aget t.cols c).getD 0 - (t.cell c rn).getD 0)) else t.cols) ∧
    (SumsOK t → SumsOK (Table.trimCell p c (t, n, ra) rn).1) := by
  cases h : aget t.rows rn with
  | none =>
    have hc : t.cell c rn = none := by simp [Table.cell, h]
    rw [trimCell_none p c t n ra rn h]
    simp [hc, selected]
  | some row =>
    have hc : t.cell c rn = aget row.cols c := by simp [Table.cell, h]
    obtain ⟨row', ra1, heq, hrow⟩ := trimCell_some_acc p c t n ra rn row h
    rw [heq, hc]
    exact ⟨rfl, rfl, fun hs => putRow_sums t rn row' _ hs (hrow (hs rn row h))⟩

/-- Sum of column `c` over the row names `R`. -/
def colSum (R : List Bytes) (t : Table) (c : Bytes) : Int := sumBy (fun r => (t.cell c r).getD 0) R

/-- All cells lie in rows named in `R`. -/
def CellsIn (R : List Bytes) (t : Table) : Prop := ∀ c r, (t.cell c r).isSome → r ∈ R

/-- Every recorded column total is the (wrapped) sum of the column's cells. -/
def ColsOK (R : List Bytes) (t : Table) : Prop := ∀ c v, aget t.cols c = some v → v = wrap64 (colSum R t c)

theorem sumBy_congr_of_not_mem (f g : Bytes → Int) (rn : Bytes) (hfg : ∀ r, r ≠ rn → g r = f r) :
    ∀ R : List Bytes, rn ∉ R → sumBy g R = sumBy f R := by
  intro R
  induction R with
  | nil => intro _; rfl
  | cons x R ih =>
    intro hn
    have h1 : x ≠ rn := fun e => hn (by simp [e])
    have h2 : rn ∉ R := fun e => hn (by simp [e])
    simp only [sumBy, hfg x h1, ih h2]

theorem sumBy_update (f g : Bytes → Int) (rn : Bytes) (hfg : ∀ r, r ≠ rn → g r = f r) :
    ∀ R : List Bytes, R.Nodup → rn ∈ R → sumBy g R = sumBy f R - f rn + g rn := by
  intro R
  induction R with
  | nil => intro _ h; simp at h
  | cons x R ih =>
    intro hnd hm
    have hnd' : x ∉ R ∧ R.Nodup := List.nodup_cons.mp hnd
    by_cases e : x = rn
    · subst e
      simp only [sumBy, sumBy_congr_of_not_mem f g x hfg R hnd'.1]; omega
    · have hm' : rn ∈ R := by
        rcases List.mem_cons.mp hm with h | h
        · exact absurd h.symm e
        · exact h
      simp only [sumBy, hfg x e, ih hnd'.2 hm']; omega

theorem colSum_congr (R : List Bytes) (t t1 : Table) (c : Bytes) (h : ∀ r, t1.cell c r = t.cell c r) :
    colSum R t1 c = colSum R t c := by
  unfold colSum
  have : (fun r => (t1.cell c r).getD 0) = (fun r => (t.cell c r).getD 0) := by funext r; rw [h r]
  rw [this]

/-- One inner-loop step keeps the column totals right. -/
theorem trimCell_colsOK (p : Pred) (c : Bytes) (t : Table) (n : Nat) (ra : Bool) (rn : Bytes) (R : List Bytes)
    (hnd : R.Nodup) (hc : (aget t.cols c).isSome) (hin : CellsIn R t) (hok : ColsOK R t) :
    ColsOK R (Table.trimCell p c (t, n, ra) rn).1 := by
  have hcell := (trimCell_step p c t n ra rn).cell
  have hcols := (trimCell_acc p c t n ra rn).2.1
  generalize Table.trimCell p c (t, n, ra) rn = st1 at hcell hcols ⊢
  by_cases hsel : selected p c rn (t.cell c rn) = true
  · simp only [hsel, if_true] at hcols
    have htr := trimmedCell_of_selected p c rn _ hsel
    cases hx : t.cell c rn with
    | none => simp [hx, selected] at hsel
    | some val =>
      have hrn : rn ∈ R := hin c rn (by simp [hx])
      cases ho : aget t.cols c with
      | none => simp [ho] at hc
      | some old =>
        have hold := hok c old ho
        intro c' v' hv'
        rw [hcols, aget_aset] at hv'
        by_cases ec : c = c'
        · subst ec
          simp only [if_true, Option.some.injEq, ho, hx, Option.getD_some] at hv'
          have hsum : colSum R st1.1 c = colSum R t c - val := by
            unfold colSum
            rw [sumBy_update (fun r => (t.cell c r).getD 0) (fun r => (st1.1.cell c r).getD 0) rn ?_ R hnd hrn]
            · rw [hx] at htr
              simp only [hcell, List.mem_singleton, true_and, if_true, hx, htr]; simp
            · intro r hr; simp only [hcell, List.mem_singleton, hr, and_false, if_false]
          rw [← hv', hsum, hold, wrap64_sub_left]
        · simp only [ec, if_false] at hv'
          rw [hok c' v' hv']
          congr 1
          apply (colSum_congr R t st1.1 c' _).symm
          intro r
          have ec' : ¬ c' = c := fun e => ec e.symm
          simp only [hcell, ec', false_and, if_false]
  · have hsel' : selected p c rn (t.cell c rn) = false := by simpa using hsel
    simp only [hsel', Bool.false_eq_true, if_false] at hcols
    have htr := trimmedCell_of_not_selected p c rn _ hsel'
    have hsame : ∀ c' r, st1.1.cell c' r = t.cell c' r := by
      intro c' r
      rw [hcell]
      by_cases e : c' = c ∧ r ∈ [rn]
      · obtain ⟨e1, e2⟩ := e
        have e2 : r = rn := by simpa using e2
        subst e1; subst e2; simp [htr]
      · simp only [e, if_false]
    intro c' v' hv'
    rw [hcols] at hv'
    rw [hok c' v' hv', colSum_congr R t st1.1 c' (hsame c')]

theorem InnerSpec.cells_sub {p : Pred} {c : Bytes} {L : List Bytes} {t : Table} {ra : Bool} {st : Table × Nat × Bool}
    (h : InnerSpec p c L t ra st) (c' r' : Bytes) (hs : (st.1.cell c' r').isSome) : (t.cell c' r').isSome := by
  rw [h.cell] at hs
  by_cases e : c' = c ∧ r' ∈ L
  · simp only [e, and_self, if_true] at hs
    rw [e.1]; exact trimmedCell_isSome p c r' _ hs
  · simpa only [e, if_false] using hs

theorem CellsIn.mono {R : List Bytes} {t t1 : Table} (h : CellsIn R t)
    (hsub : ∀ c r, (t1.cell c r).isSome → (t.cell c r).isSome) : CellsIn R t1 :=
  fun c r hs => h c r (hsub c r hs)

/-- Counter, row sums and column totals over a run of inner-loop steps. -/
theorem inner_acc (p : Pred) (c : Bytes) (L : List Bytes) : ∀ (t : Table) (n : Nat) (ra : Bool),
    (L.Nodup → (L.foldl (Table.trimCell p c) (t, n, ra)).2.1
        = n + L.countP (fun r => selected p c r (t.cell c r))) ∧
    (SumsOK t → SumsOK (L.foldl (Table.trimCell p c) (t, n, ra)).1) ∧
    (∀ R : List Bytes, R.Nodup → (aget t.cols c).isSome → CellsIn R t → ColsOK R t →
        ColsOK R (L.foldl (Table.trimCell p c) (t, n, ra)).1) := by
  induction L with
  | nil => intro t n ra; exact ⟨fun _ => by simp, fun x => x, fun _ _ _ _ x => x⟩
  | cons rn L ih =>
    intro t n ra
    simp only [List.foldl_cons]
    have h1 := trimCell_step p c t n ra rn
    have ha := trimCell_acc p c t n ra rn
    have hk := fun R hnd hc hin hok => trimCell_colsOK p c t n ra rn R hnd hc hin hok
    generalize Table.trimCell p c (t, n, ra) rn = st1 at h1 ha hk ⊢
    obtain ⟨t1, n1, ra1⟩ := st1
    obtain ⟨ih1, ih2, ih3⟩ := ih t1 n1 ra1
    simp only at ha hk
    refine ⟨?_, fun hs => ih2 (ha.2.2 hs), ?_⟩
    · intro hnd
      have hnd' : rn ∉ L ∧ L.Nodup := List.nodup_cons.mp hnd
      rw [ih1 hnd'.2, ha.1, List.countP_cons]
      have : L.countP (fun r => selected p c r (t1.cell c r)) = L.countP (fun r => selected p c r (t.cell c r)) := by
        apply List.countP_congr
        intro r hr
        have hne : r ≠ rn := fun e => hnd'.1 (e ▸ hr)
        have := h1.cell c r
        simp only [List.mem_singleton, hne, and_false, if_false] at this
        rw [this]
      rw [this]; omega
    · intro R hnd hc hin hok
      have hc1 : (aget t1.cols c).isSome := by rw [h1.cols hc c]; exact hc
      exact ih3 R hnd hc1 (hin.mono h1.cells_sub) (hk R hnd hc hin hok)

theorem finishCol_colsOK (c : Bytes) (st : Table × Nat × Bool) (R : List Bytes) (h : ColsOK R st.1) :
    ColsOK R (finishCol c st) := by
  intro c' v' hv'
  have hsum : colSum R (finishCol c st) c' = colSum R st.1 c' :=
    colSum_congr R st.1 (finishCol c st) c' (fun r => finishCol_cell c st c' r)
  rw [hsum]
  by_cases e : c = c'
  · subst e
    rw [finishCol_cols_self] at hv'
    split at hv'
    · simp at hv'
    · exact h c v' hv'
  · rw [finishCol_cols_ne c st c' e] at hv'
    exact h c' v' hv'

theorem trimCol_cells_sub (p : Pred) (L : List Bytes) (t : Table) (n : Nat) (c : Bytes) (c' r' : Bytes)
    (hs : ((Table.trimCol p L (t, n) c).1.cell c' r').isSome) : (t.cell c' r').isSome := by
  cases h : aget t.cols c with
  | none => rw [trimCol_none p L t n c h] at hs; exact hs
  | some v =>
    rw [trimCol_some p L t n c v h] at hs
    have := finishCol_cell c (L.foldl (Table.trimCell p c) (t, n, true)) c' r'
    unfold finishCol at this
    rw [this] at hs
    exact (inner_fold p c L t n true).cells_sub c' r' hs

/-- One outer-loop iteration: row sums and column totals stay right. -/
theorem trimCol_acc (p : Pred) (L : List Bytes) (t : Table) (n : Nat) (c : Bytes) :
    (SumsOK t → SumsOK (Table.trimCol p L (t, n) c).1) ∧
    (∀ R : List Bytes, R.Nodup → CellsIn R t → ColsOK R t → ColsOK R (Table.trimCol p L (t, n) c).1) := by
  cases h : aget t.cols c with
  | none => rw [trimCol_none p L t n c h]; exact ⟨fun x => x, fun _ _ _ x => x⟩
  | some v =>
    rw [trimCol_some p L t n c v h]
    obtain ⟨_, h2, h3⟩ := inner_acc p c L t n true
    have hc : (aget t.cols c).isSome := by simp [h]
    refine ⟨?_, ?_⟩
    · intro hs
      have := finishCol_rows c (L.foldl (Table.trimCell p c) (t, n, true))
      unfold finishCol at this
      intro r row hr
      rw [this] at hr
      exact h2 hs r row hr
    · intro R hnd hin hok
      exact finishCol_colsOK c _ R (h3 R hnd hc hin hok)

/-- One outer-loop iteration: the counter grows by the number of selected cells of the column. -/
theorem trimCol_count (p : Pred) (L : List Bytes) (t : Table) (n : Nat) (c : Bytes) (hwf : t.WF) (hnd : L.Nodup) :
    (Table.trimCol p L (t, n) c).2 = n + L.countP (fun r => selected p c r (t.cell c r)) := by
  cases h : aget t.cols c with
  | none =>
    rw [trimCol_none p L t n c h]
    have : ∀ r, t.cell c r = none := by
      intro r
      apply cell_eq_none_of_not_isSome
      intro hx
      have := (hwf.cols_iff c).mpr ⟨r, hx⟩
      simp [h] at this
    simp [this, selected]
  | some v =>
    rw [trimCol_some p L t n c v h]
    exact (inner_acc p c L t n true).1 hnd

/-- The outer loop keeps row sums and column totals right, and never creates a cell. -/
theorem outer_acc (p : Pred) (rowOrder : Bytes → List Bytes) (cs : List Bytes) : ∀ (t : Table) (n : Nat),
    (∀ c r, ((cs.foldl (fun st c => Table.trimCol p (rowOrder c) st c) (t, n)).1.cell c r).isSome → (t.cell c r).isSome) ∧
    (SumsOK t → SumsOK (cs.foldl (fun st c => Table.trimCol p (rowOrder c) st c) (t, n)).1) ∧
    (∀ R : List Bytes, R.Nodup → CellsIn R t → ColsOK R t →
      ColsOK R (cs.foldl (fun st c => Table.trimCol p (rowOrder c) st c) (t, n)).1) := by
  induction cs with
  | nil => intro t n; exact ⟨fun _ _ x => x, fun x => x, fun _ _ _ x => x⟩
  | cons c cs ih =>
    intro t n
    simp only [List.foldl_cons]
    have hsub := trimCol_cells_sub p (rowOrder c) t n c
    obtain ⟨hs1, hk1⟩ := trimCol_acc p (rowOrder c) t n c
    generalize Table.trimCol p (rowOrder c) (t, n) c = st1 at hsub hs1 hk1 ⊢
    obtain ⟨t1, n1⟩ := st1
    obtain ⟨ih1, ih2, ih3⟩ := ih t1 n1
    refine ⟨fun c' r h => hsub c' r (ih1 c' r h), fun hs => ih2 (hs1 hs), ?_⟩
    intro R hnd hin hok
    exact ih3 R hnd (hin.mono hsub) (hk1 R hnd hin hok)

/-- The outer loop's counter. -/
theorem outer_count (p : Pred) (rowOrder : Bytes → List Bytes) (hrnd : ∀ c, (rowOrder c).Nodup) (cs : List Bytes) :
    ∀ (t : Table) (n : Nat), t.WF → (∀ c r, (t.cell c r).isSome → r ∈ rowOrder c) → cs.Nodup →
      (cs.foldl (fun st c => Table.trimCol p (rowOrder c) st c) (t, n)).2
        = n + (cs.map fun c => (rowOrder c).countP fun r => selected p c r (t.cell c r)).sum := by
  induction cs with
  | nil => intro t n _ _ _; simp
  | cons c cs ih =>
    intro t n hwf hcov hnd
    have hnd' : c ∉ cs ∧ cs.Nodup := List.nodup_cons.mp hnd
    simp only [List.foldl_cons]
    obtain ⟨hwf1, hcell1⟩ := trimCol_spec p (rowOrder c) t n c hwf (hcov c)
    have hcnt := trimCol_count p (rowOrder c) t n c hwf (hrnd c)
    generalize Table.trimCol p (rowOrder c) (t, n) c = st1 at hwf1 hcell1 hcnt ⊢
    obtain ⟨t1, n1⟩ := st1
    simp only at hwf1 hcell1 hcnt
    have hcov1 : ∀ c' r, (t1.cell c' r).isSome → r ∈ rowOrder c' := by
      intro c' r h
      rw [hcell1] at h
      by_cases ec : c' = c
      · subst ec
        simp only [if_true] at h
        exact hcov c' r (trimmedCell_isSome p c' r _ h)
      · simp only [ec, if_false] at h; exact hcov c' r h
    rw [ih t1 n1 hwf1 hcov1 hnd'.2, hcnt, List.map_cons, List.sum_cons]
    have : (cs.map fun c => (rowOrder c).countP fun r => selected p c r (t1.cell c r))
         = (cs.map fun c => (rowOrder c).countP fun r => selected p c r (t.cell c r)) := by
      apply List.map_congr_left
      intro c' hc'
      have ec : ¬ c' = c := fun e => hnd'.1 (e ▸ hc')
      simp only [hcell1, ec, if_false]
    rw [this]; omega

section MainE
variable (t : Table) (p : Pred) (colOrder : List Bytes) (rowOrder : Bytes → List Bytes)

/-- (e1) The number returned by `Trim` is the number of selected cells (each Go `range` yields a key once). -/
theorem trim_count (hwf : t.WF) (hcov : Covers t colOrder rowOrder)
    (hcnd : colOrder.Nodup) (hrnd : ∀ c, (rowOrder c).Nodup) :
    (t.trim p colOrder rowOrder).2
      = (colOrder.map fun c => (rowOrder c).countP fun r => selected p c r (t.cell c r)).sum := by
  have := outer_count p rowOrder hrnd colOrder t 0 hwf (covers_rows hcov) hcnd
  unfold Table.trim
  rw [this]; omega

/-- (e2) `Trim` keeps every row's `sum` equal to the wrapped sum of its remaining cells. -/
theorem trim_sums (hs : SumsOK t) : SumsOK (t.trim p colOrder rowOrder).1 :=
  (outer_acc p rowOrder colOrder t 0).2.1 hs

/-- (e3) `Trim` keeps every remaining column total equal to the wrapped sum of the column's remaining cells
(`R` is any duplicate-free list naming all rows that have a cell). -/
theorem trim_colTotals (R : List Bytes) (hnd : R.Nodup) (hin : CellsIn R t) (hok : ColsOK R t) :
    ColsOK R (t.trim p colOrder rowOrder).1 :=
  (outer_acc p rowOrder colOrder t 0).2.2 R hnd hin hok

/-- `Trim` never creates a cell. -/
theorem trim_cells_sub (c r : Bytes) (h : ((t.trim p colOrder rowOrder).1.cell c r).isSome) : (t.cell c r).isSome :=
  (outer_acc p rowOrder colOrder t 0).1 c r h
end MainE

/-! #### the count does not depend on the orders either -/

theorem countP_eq_of_nodup_support (q : Bytes → Bool) (L L' : List Bytes) (hnd : L.Nodup) (hnd' : L'.Nodup)
    (h : ∀ r, q r = true → r ∈ L) (h' : ∀ r, q r = true → r ∈ L') : L.countP q = L'.countP q := by
  rw [List.countP_eq_length_filter, List.countP_eq_length_filter]
  apply List.Perm.length_eq
  rw [List.perm_ext_iff_of_nodup (List.Pairwise.filter q hnd) (List.Pairwise.filter q hnd')]
  intro a
  simp only [List.mem_filter]
  constructor
  · rintro ⟨_, hq⟩; exact ⟨h' a hq, hq⟩
  · rintro ⟨_, hq⟩; exact ⟨h a hq, hq⟩

theorem sum_map_perm (F : Bytes → Nat) {L L' : List Bytes} (h : L.Perm L') : (L.map F).sum = (L'.map F).sum := by
  induction h with
  | nil => rfl
  | cons x _ ih => simp [ih]
  | swap x y l => simp; omega
  | trans _ _ ih1 ih2 => exact ih1.trans ih2

theorem sum_map_filter_ne_zero (F : Bytes → Nat) (L : List Bytes) :
    ((L.filter fun c => F c != 0).map F).sum = (L.map F).sum := by
  induction L with
  | nil => rfl
  | cons x L ih =>
    by_cases e : F x = 0
    · simp [e, ih]
    · simp [e, ih]

theorem sum_map_eq_of_nodup_support (F : Bytes → Nat) (L L' : List Bytes) (hnd : L.Nodup) (hnd' : L'.Nodup)
    (h : ∀ c, F c ≠ 0 → c ∈ L) (h' : ∀ c, F c ≠ 0 → c ∈ L') : (L.map F).sum = (L'.map F).sum := by
  rw [← sum_map_filter_ne_zero F L, ← sum_map_filter_ne_zero F L']
  apply sum_map_perm
  rw [List.perm_ext_iff_of_nodup (List.Pairwise.filter _ hnd) (List.Pairwise.filter _ hnd')]
  intro a
  simp only [List.mem_filter, bne_iff_ne]
  constructor
  · rintro ⟨_, hq⟩; exact ⟨h' a hq, hq⟩
  · rintro ⟨_, hq⟩; exact ⟨h a hq, hq⟩

theorem selected_isSome {p : Pred} {c r : Bytes} {x : Option Int} (h : selected p c r x = true) : x.isSome := by
  cases x with
  | none => simp [selected] at h
  | some _ => rfl

/-- (e1') The returned count is the same for any two duplicate-free covering iteration orders. -/
theorem trim_count_order_independent (t : Table) (p : Pred) (colOrder colOrder' : List Bytes)
    (rowOrder rowOrder' : Bytes → List Bytes) (hwf : t.WF)
    (hcov : Covers t colOrder rowOrder) (hcov' : Covers t colOrder' rowOrder')
    (hcnd : colOrder.Nodup) (hrnd : ∀ c, (rowOrder c).Nodup)
    (hcnd' : colOrder'.Nodup) (hrnd' : ∀ c, (rowOrder' c).Nodup) :
    (t.trim p colOrder rowOrder).2 = (t.trim p colOrder' rowOrder').2 := by
  rw [trim_count t p colOrder rowOrder hwf hcov hcnd hrnd, trim_count t p colOrder' rowOrder' hwf hcov' hcnd' hrnd']
  have hrow : ∀ c, ((rowOrder' c).countP fun r => selected p c r (t.cell c r))
      = ((rowOrder c).countP fun r => selected p c r (t.cell c r)) := by
    intro c
    apply countP_eq_of_nodup_support _ _ _ (hrnd' c) (hrnd c)
    · intro r hr; exact hcov'.2 c r (cell_isSome_row (selected_isSome hr))
    · intro r hr; exact hcov.2 c r (cell_isSome_row (selected_isSome hr))
  simp only [hrow]
  apply sum_map_eq_of_nodup_support _ _ _ hcnd hcnd'
  · intro c hc
    have : ∃ r, r ∈ rowOrder c ∧ selected p c r (t.cell c r) = true := by
      have := List.countP_pos_iff.mp (Nat.pos_of_ne_zero hc)
      simpa using this
    obtain ⟨r, _, hr⟩ := this
    exact hcov.1 c ((hwf.cols_iff c).mpr ⟨r, selected_isSome hr⟩)
  · intro c hc
    have : ∃ r, r ∈ rowOrder c ∧ selected p c r (t.cell c r) = true := by
      have := List.countP_pos_iff.mp (Nat.pos_of_ne_zero hc)
      simpa using this
    obtain ⟨r, _, hr⟩ := this
    exact hcov'.1 c ((hwf.cols_iff c).mpr ⟨r, selected_isSome hr⟩)
end Rare.C07
