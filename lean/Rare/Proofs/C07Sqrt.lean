import Rare.Proofs.C07NumF64Err
/-!
C07 – `StdDev()` = `math.Sqrt(Variance())`.

* `isqrt_spec`: the Newton iteration of `Rare.F64.isqrt` returns the integer square root, for EVERY `n`
  (the fuel `log2 n + 2` suffices: the distance to the root at least halves in every step);
* `sqrt_bracket`: hence `F64.sqrt x` of a positive finite `x` is the correct rounding of a rational `t` whose
  square brackets `x` within `2^-603`.
-/
namespace Rare.F64

theorem exists_isqrt (n : Nat) : ∃ s, s * s ≤ n ∧ n < (s + 1) * (s + 1) := by
  induction n with
  | zero => exact ⟨0, by decide, by decide⟩
  | succ n ih =>
    obtain ⟨s, h1, h2⟩ := ih
    by_cases h : (s + 1) * (s + 1) ≤ n + 1
    · refine ⟨s + 1, h, ?_⟩
      have : (s + 1 + 1) * (s + 1 + 1) = (s + 1) * (s + 1) + 2 * s + 3 := by grind
      omega
    · exact ⟨s, by omega, by omega⟩

theorem amgm (a b : Nat) : 4 * (a * b) ≤ (a + b) * (a + b) := by
  rcases Nat.le_total a b with h | h
  · obtain ⟨k, rfl⟩ := Nat.exists_eq_add_of_le h
    have : (a + (a + k)) * (a + (a + k)) = 4 * (a * (a + k)) + k * k := by grind
    omega
  · obtain ⟨k, rfl⟩ := Nat.exists_eq_add_of_le h
    have : (b + k + b) * (b + k + b) = 4 * ((b + k) * b) + k * k := by grind
    omega

/-- One Newton step never goes below the root. -/
theorem newton_ge (n s x : Nat) (hs : s * s ≤ n) (hx : 0 < x) : s ≤ (x + n / x) / 2 := by
  apply Nat.le_of_not_lt
  intro hlt
  have h1 : x + n / x ≤ 2 * ((x + n / x) / 2) + 1 := by omega
  have h2 : n < x * (n / x + 1) := Nat.lt_mul_div_succ n hx
  have h3 := amgm x (n / x + 1)
  have h4 : (x + (n / x + 1)) * (x + (n / x + 1)) ≤ (2 * ((x + n / x) / 2) + 2) * (2 * ((x + n / x) / 2) + 2) :=
    Nat.mul_le_mul (by omega) (by omega)
  have h5 : ((x + n / x) / 2 + 1) * ((x + n / x) / 2 + 1) ≤ s * s := Nat.mul_le_mul (by omega) (by omega)
  have h6 : (2 * ((x + n / x) / 2) + 2) * (2 * ((x + n / x) / 2) + 2) =
      4 * (((x + n / x) / 2 + 1) * ((x + n / x) / 2 + 1)) := by grind
  omega

theorem isqrtLoop_spec (n s : Nat) (hs1 : s * s ≤ n) (hs2 : n < (s + 1) * (s + 1)) (hn : 0 < n) :
    ∀ (f x : Nat), s ≤ x → x - s < 2 ^ f → isqrtLoop (f + 1) n x = s := by
  have hs0 : 0 < s := by
    apply Nat.pos_of_ne_zero
    intro h; rw [h] at hs2; omega
  intro f
  induction f with
  | zero =>
    intro x h1 h2
    have hx : x = s := by simp at h2; omega
    subst hx
    have hq : x ≤ n / x := (Nat.le_div_iff_mul_le hs0).mpr hs1
    unfold isqrtLoop
    simp only
    rw [if_neg (by omega)]
  | succ f ih =>
    intro x h1 h2
    have hx0 : 0 < x := by omega
    have hge := newton_ge n s x hs1 hx0
    unfold isqrtLoop
    simp only
    by_cases hxs : x = s
    · subst hxs
      have hq : x ≤ n / x := (Nat.le_div_iff_mul_le hs0).mpr hs1
      rw [if_neg (by omega)]
    · have hq : n / x ≤ s := by
        have : n / x < s + 1 := by
          rw [Nat.div_lt_iff_lt_mul hx0]
          have := Nat.mul_le_mul_left (s + 1) (show s + 1 ≤ x by omega)
          omega
        omega
      rw [if_pos (by omega)]
      apply ih _ hge
      have : 2 ^ (f + 1) = 2 * 2 ^ f := by rw [Nat.pow_succ]; omega
      omega

/-- **`isqrt` is the integer square root**, for every `n`. -/
theorem isqrt_spec (n : Nat) : isqrt n * isqrt n ≤ n ∧ n < (isqrt n + 1) * (isqrt n + 1) := by
  by_cases h0 : n = 0
  · subst h0; decide
  · obtain ⟨s, hs1, hs2⟩ := exists_isqrt n
    have hn : 0 < n := Nat.pos_of_ne_zero h0
    have hlog : n < 2 ^ (n.log2 + 1) := Nat.lt_log2_self
    -- the start value is above the root
    have hx0 : n < 2 ^ (n.log2 / 2 + 1) * 2 ^ (n.log2 / 2 + 1) := by
      rw [← Nat.pow_add]
      have : n.log2 + 1 ≤ n.log2 / 2 + 1 + (n.log2 / 2 + 1) := by omega
      exact Nat.lt_of_lt_of_le hlog (Nat.pow_le_pow_right (by decide) this)
    have hsx : s ≤ 2 ^ (n.log2 / 2 + 1) := by
      apply Nat.le_of_not_lt
      intro hlt
      have := Nat.mul_le_mul (Nat.le_of_lt hlt) (Nat.le_of_lt hlt)
      omega
    have hd : 2 ^ (n.log2 / 2 + 1) - s < 2 ^ (n.log2 + 1) := by
      have : 2 ^ (n.log2 / 2 + 1) ≤ 2 ^ (n.log2 + 1) := Nat.pow_le_pow_right (by decide) (by omega)
      have hs0 : 0 < s := by
        apply Nat.pos_of_ne_zero
        intro h; rw [h] at hs2; omega
      omega
    have := isqrtLoop_spec n s hs1 hs2 hn (n.log2 + 1) _ hsx hd
    have e : isqrt n = s := by
      unfold isqrt; rw [if_neg h0]; exact this
    rw [e]; exact ⟨hs1, hs2⟩

/-- `2^-603`: half a unit of the integer root's scale. -/
def sqrtEps : Rat := 1 / ((2 ^ 603 : Nat) : Rat)

theorem natCast_mul_self_le {a b : Nat} (h : a * a ≤ b) : ((a : Nat) : Rat) * ((a : Nat) : Rat) ≤ ((b : Nat) : Rat) := by
  rw [← Rat.natCast_mul]; exact Rat.natCast_le_natCast.mpr h

/-- **`math.Sqrt` of a positive finite float** is the correct rounding (`ofRatS`, to nearest even) of a rational `t`
whose square brackets the argument: `(t − 2^-603)² ≤ x ≤ (t + 2^-603)²` (with equality `t² = x` when the root is
rational at that scale), and `t ≥ 2^-603`. -/
theorem sqrt_bracket (x : F64) (hf : x.isFinite = true) (hp : 0 < x.toRat) :
    ∃ t : Rat, sqrtEps ≤ t ∧ F64.sqrt x = ofRatS false t ∧
      (t - sqrtEps) * (t - sqrtEps) ≤ x.toRat ∧ x.toRat ≤ (t + sqrtEps) * (t + sqrtEps) := by
  have hs : x.sign = false := by
    cases h : x.sign
    · rfl
    · have := toRat_of_neg h
      have := magVal_nonneg x.mag
      grind
  have hz : x.isZero = false := by
    cases h : x.isZero
    · rfl
    · have := toRat_eq_zero_of_mag ((isZero_iff x).mp h)
      grind
  have hv : x.toRat = ((magSig x.mag * 2 ^ magScale x.mag : Nat) : Rat) / two1074 := by
    rw [toRat_of_pos hs]; rfl
  -- the scale
  have hD0 : (0 : Rat) < ((2 ^ 602 : Nat) : Rat) := pow2_cast_pos _
  have hDD : ((2 ^ 602 : Nat) : Rat) * ((2 ^ 602 : Nat) : Rat) = ((2 ^ 130 : Nat) : Rat) * two1074 := by
    rw [two1074_eq, ← Rat.natCast_mul, ← Rat.natCast_mul, ← Nat.pow_add, ← Nat.pow_add]
  have h603 : ((2 ^ 603 : Nat) : Rat) = 2 * ((2 ^ 602 : Nat) : Rat) := by
    rw [show (2 ^ 603 : Nat) = 2 * 2 ^ 602 by rw [Nat.pow_succ]; omega, Rat.natCast_mul]; rfl
  generalize hD : ((2 ^ 602 : Nat) : Rat) = D at *
  have hDne : D ≠ 0 := Rat.ne_of_gt hD0
  have hinv : D * D⁻¹ = 1 := Rat.mul_inv_cancel D hDne
  have hi0 : 0 < D⁻¹ := by
    have : 0 < 1 / D := Rare.C07.rat_div_pos (by decide) hD0
    rw [Rat.div_def, Rat.one_mul] at this; exact this
  have heps : sqrtEps = D⁻¹ / 2 := by
    unfold sqrtEps; rw [h603, Rat.div_def, Rat.div_def, Rat.inv_mul_rev]; grind
  -- the value as n / D²
  have hn : ((magSig x.mag * 2 ^ magScale x.mag * 2 ^ 130 : Nat) : Rat) =
      ((magSig x.mag * 2 ^ magScale x.mag : Nat) : Rat) * ((2 ^ 130 : Nat) : Rat) := Rat.natCast_mul _ _
  have h130 : (0 : Rat) < ((2 ^ 130 : Nat) : Rat) := pow2_cast_pos _
  have ht0 := two1074_pos
  have hvn : x.toRat = ((magSig x.mag * 2 ^ magScale x.mag * 2 ^ 130 : Nat) : Rat) * (D⁻¹ * D⁻¹) := by
    rw [hv, hn, Rat.div_def]
    have e1 : two1074 * two1074⁻¹ = 1 := Rat.mul_inv_cancel _ (Rat.ne_of_gt ht0)
    have e2 : (D * D) * (D⁻¹ * D⁻¹) = 1 := by grind
    rw [hDD] at e2
    grind
  obtain ⟨s1, s2⟩ := isqrt_spec (magSig x.mag * 2 ^ magScale x.mag * 2 ^ 130)
  unfold F64.sqrt
  rw [not_nan_of_finite hf, hz, hs, not_inf_of_finite hf]
  simp only [Bool.false_eq_true, if_false]
  generalize hnn : magSig x.mag * 2 ^ magScale x.mag * 2 ^ 130 = n at *
  generalize hss : isqrt n = s at *
  have hnpos : 0 < n := by
    apply Nat.pos_of_ne_zero
    intro h; rw [h] at hvn
    have : x.toRat = 0 := by rw [hvn]; simp
    grind
  have hs0 : 1 ≤ s := by
    apply Nat.pos_of_ne_zero
    intro h; rw [h] at s2; omega
  have hsq : (1 : Rat) ≤ (s : Rat) := by
    have := Rat.natCast_le_natCast.mpr hs0
    exact this
  have c1 : (s : Rat) * (s : Rat) ≤ (n : Rat) := natCast_mul_self_le s1
  have c2 : (n : Rat) ≤ ((s : Rat) + 1) * ((s : Rat) + 1) := by
    have : ((n : Nat) : Rat) ≤ (((s + 1) * (s + 1) : Nat) : Rat) := Rat.natCast_le_natCast.mpr (Nat.le_of_lt s2)
    rw [Rat.natCast_mul, Rat.natCast_add] at this
    exact this
  have hii : 0 ≤ D⁻¹ * D⁻¹ := Rat.mul_nonneg (Rat.le_of_lt hi0) (Rat.le_of_lt hi0)
  have d1 := Rat.mul_le_mul_of_nonneg_right c1 hii
  have d2 := Rat.mul_le_mul_of_nonneg_right c2 hii
  have hsi : D⁻¹ ≤ (s : Rat) * D⁻¹ := by
    have := Rat.mul_le_mul_of_nonneg_right hsq (Rat.le_of_lt hi0)
    grind
  by_cases hex : s * s = n
  · rw [if_pos hex]
    refine ⟨(s : Rat) * D⁻¹, by rw [heps]; grind, by unfold ofRat; rw [Rat.div_def, hD], ?_, ?_⟩
    · have e : (n : Rat) = (s : Rat) * (s : Rat) := by rw [← hex, Rat.natCast_mul]
      rw [hvn, e, heps]
      have : 0 ≤ (D⁻¹ / 2) * (2 * ((s : Rat) * D⁻¹) - D⁻¹ / 2) := Rat.mul_nonneg (by grind) (by grind)
      grind
    · have e : (n : Rat) = (s : Rat) * (s : Rat) := by rw [← hex, Rat.natCast_mul]
      rw [hvn, e, heps]
      have : 0 ≤ (D⁻¹ / 2) * (2 * ((s : Rat) * D⁻¹) + D⁻¹ / 2) := Rat.mul_nonneg (by grind) (by grind)
      grind
  · rw [if_neg hex]
    refine ⟨((s : Rat) + 1 / 2) * D⁻¹, by rw [heps]; grind, ?_, ?_, ?_⟩
    · unfold ofRat
      rw [h603]
      have e : ((2 * s + 1 : Nat) : Rat) / (2 * D) = ((s : Rat) + 1 / 2) * D⁻¹ := by
        rw [Rat.natCast_add, Rat.natCast_mul, Rat.div_def, Rat.inv_mul_rev]
        have h2 : ((2 : Nat) : Rat) = 2 := rfl
        have h1 : ((1 : Nat) : Rat) = 1 := rfl
        rw [h2, h1]; grind
      rw [e]
    · rw [hvn, heps]
      have : (((s : Rat) + 1 / 2) * D⁻¹ - D⁻¹ / 2) = (s : Rat) * D⁻¹ := by grind
      rw [this]; grind
    · rw [hvn, heps]
      have : (((s : Rat) + 1 / 2) * D⁻¹ + D⁻¹ / 2) = ((s : Rat) + 1) * D⁻¹ := by grind
      rw [this]; grind

end Rare.F64

namespace Rare.C07
open Rare Rare.F64

theorem rep_two513 : Rep (((2 ^ 513 : Nat) : Rat)) := by
  have := rep_of_dyadic 1 1587 (by decide) (by
    rw [Nat.one_mul]; exact Nat.pow_lt_pow_right (by decide) (by decide))
  have e : ((1 * 2 ^ 1587 : Nat) : Rat) / two1074 = ((2 ^ 513 : Nat) : Rat) := by decide +kernel
  rwa [e] at this

theorem maxF64_lt : maxF64.toRat < ((2 ^ 512 : Nat) : Rat) * ((2 ^ 512 : Nat) : Rat) := by decide +kernel

theorem finite_le_max {x : F64} (h : x.isFinite = true) : x.toRat ≤ maxF64.toRat := by
  have hm : maxF64.isFinite = true := by decide
  have hk : maxF64.key = 9218868437227405311 := by decide
  have := (finite_key_bounds h).2
  have hle : F64.le x maxF64 = true := by
    rw [le_iff_key]; exact ⟨not_nan_of_finite h, not_nan_of_finite hm, by rw [hk]; exact this⟩
  exact (le_iff_toRat_le h hm).mp hle

/-- **`StdDev()` = `math.Sqrt(Variance())` for a positive finite variance**: the result is finite, it is the correct
rounding of a rational `t ≥ 2^-603` with `(t − 2^-603)² ≤ Variance() ≤ (t + 2^-603)²`, and `|StdDev() − t| ≤ t·u + η`. -/
theorem sqrt_finite_err (x : F64) (hf : x.isFinite = true) (hp : 0 < x.toRat) :
    (F64.sqrt x).isFinite = true ∧
    ∃ t : Rat, sqrtEps ≤ t ∧ F64.sqrt x = ofRatS false t ∧
      (t - sqrtEps) * (t - sqrtEps) ≤ x.toRat ∧ x.toRat ≤ (t + sqrtEps) * (t + sqrtEps) ∧
      (F64.sqrt x).toRat - t ≤ t * uF + etaF ∧ t - (F64.sqrt x).toRat ≤ t * uF + etaF := by
  obtain ⟨t, ht, hsq, b1, b2⟩ := sqrt_bracket x hf hp
  have he : 0 < sqrtEps := by
    unfold sqrtEps; exact rat_div_pos (by decide) (pow2_cast_pos _)
  have hB : (0 : Rat) < ((2 ^ 512 : Nat) : Rat) := pow2_cast_pos _
  have h513 : ((2 ^ 513 : Nat) : Rat) = 2 * ((2 ^ 512 : Nat) : Rat) := by
    rw [show (2 ^ 513 : Nat) = 2 * 2 ^ 512 by rw [Nat.pow_succ]; omega, Rat.natCast_mul]; rfl
  have heB : sqrtEps ≤ ((2 ^ 512 : Nat) : Rat) := by decide +kernel
  have hx := finite_le_max hf
  have hm := maxF64_lt
  have r513 := rep_two513
  generalize ((2 ^ 512 : Nat) : Rat) = B at *
  have hlt : t - sqrtEps < B := by
    apply Rat.not_le.mp
    intro hge
    have := Rat.mul_le_mul_of_nonneg_left hge (Rat.le_of_lt hB)
    have h2 := Rat.mul_le_mul_of_nonneg_right hge (show (0 : Rat) ≤ t - sqrtEps by grind)
    grind
  rw [h513] at r513
  have fin := round_between_rep false rep_zero r513 (q := t) (by grind) (by grind)
  rw [← hsq] at fin
  have E := (ofRatS_err false t (by rw [← hsq]; exact fin.1)).1
  rw [← hsq, div_P53] at E
  have hat : absRat t = t := by unfold absRat; rw [if_neg (by grind)]
  rw [hat] at E
  exact ⟨fin.1, t, ht, hsq, b1, b2, E.1, E.2⟩

end Rare.C07
