import Rare.Spec.C02Rx
/-! Proofs about the regex fragment (`Model/C02Rx`, `Spec/C02Rx`). -/
namespace Rare.C02.Rx

/-! ### the backtracking matcher returns the first element of the priority list -/

theorem findSome?_filter_flatMap {α β γ : Type} (l : List α) (p : α → Bool) (f : α → List β) (g : β → Option γ) :
    ((l.filter p).flatMap f).findSome? g = l.findSome? (fun x => if p x then (f x).findSome? g else none) := by
  induction l with
  | nil => rfl
  | cons x r ih =>
    by_cases hp : p x = true
    · simp only [List.filter_cons, hp, if_true, List.flatMap_cons, List.findSome?_append, List.findSome?_cons, ih]
      cases (f x).findSome? g <;> rfl
    · simp only [List.filter_cons, hp, Bool.false_eq_true, if_false, List.findSome?_cons, ih]

theorem findSome?_flatMap' {α β γ : Type} (l : List α) (f : α → List β) (g : β → Option γ) :
    (l.flatMap f).findSome? g = l.findSome? (fun x => (f x).findSome? g) := by
  induction l with
  | nil => rfl
  | cons x r ih =>
    simp only [List.flatMap_cons, List.findSome?_append, List.findSome?_cons, ih]
    cases (f x).findSome? g <;> rfl

theorem orElse_eq_match {γ : Type} (a b : Option γ) :
    (match a with | some x => some x | none => b) = a.or b := by
  cases a <;> rfl

theorem iterK_eq {β : Type} (stepK : Nat → Caps → (Nat → Caps → Option β) → Option β)
    (step : Nat → Caps → List Res)
    (h : ∀ i c k, stepK i c k = (step i c).findSome? fun r => k r.1 r.2) (g : Bool) :
    ∀ f i c k, iterK stepK g f i c k = (iter step g f i c).findSome? fun r => k r.1 r.2 := by
  intro f
  induction f with
  | zero => intro i c k; simp [iterK, iter]
  | succ f ih =>
    intro i c k
    have hmore : stepK i c (fun j c' => if i < j then iterK stepK g f j c' k else none) =
        (((step i c).filter fun r => decide (i < r.1)).flatMap fun r => iter step g f r.1 r.2).findSome?
          fun r => k r.1 r.2 := by
      rw [h, findSome?_filter_flatMap]
      congr 1
      funext r
      by_cases hr : i < r.1 <;> simp [hr, ih]
    cases g with
    | true =>
      simp only [iterK, iter, if_true, List.findSome?_append, hmore]
      cases (List.findSome? _ _) <;> simp
    | false =>
      simp only [iterK, iter, Bool.false_eq_true, if_false, List.findSome?_cons, hmore]
      cases k i c <;> simp

theorem mk_eq {β : Type} (s : Bytes) (r : Re) :
    ∀ i c (k : Nat → Caps → Option β), mk s r i c k = (den s r i c).findSome? fun x => k x.1 x.2 := by
  induction r with
  | eps => intro i c k; simp [mk, den]
  | cls neg rs =>
    intro i c k
    simp only [mk, den]
    cases s[i]? with
    | none => rfl
    | some b => by_cases hb : inCls neg rs b = true <;> simp [hb]
  | look l => intro i c k; by_cases h : holds s l i = true <;> simp [mk, den, h]
  | cat a b iha ihb =>
    intro i c k
    simp only [mk, den, findSome?_flatMap']
    rw [iha]
    congr 1
    funext x
    exact ihb _ _ _
  | alt a b iha ihb =>
    intro i c k
    simp only [mk, den, List.findSome?_append, iha, ihb]
    cases (List.findSome? _ (den s a i c)) <;> simp
  | star g a iha =>
    intro i c k
    simp only [mk, den]
    exact iterK_eq (mk s a) (den s a) iha g _ i c k
  | grp n a iha =>
    intro i c k
    simp only [mk, den, iha, List.findSome?_map]
    rfl

theorem findSome?_some_eq_head? {α : Type} (l : List α) : l.findSome? (fun x => some x) = l.head? := by
  cases l <;> simp

theorem matchAt_eq (s : Bytes) (r : Re) (p : Nat) : matchAt s r p = (den s r p []).head? := by
  unfold matchAt
  rw [mk_eq]
  exact findSome?_some_eq_head? _


/-! ### soundness: every element of the priority list is a derivation, its captures are sub-derivations -/

theorem Derives.le {s : Bytes} {r : Re} {i j : Nat} (h : Derives s r i j) : i ≤ j := by
  induction h with
  | eps => exact Nat.le_refl _
  | cls => exact Nat.le_succ _
  | look => exact Nat.le_refl _
  | cat _ _ h1 h2 => exact Nat.le_trans h1 h2
  | altL _ h => exact h
  | altR _ h => exact h
  | starNil => exact Nat.le_refl _
  | starCons hlt _ _ _ h2 => exact Nat.le_trans (Nat.le_of_lt hlt) h2
  | grp _ h => exact h

theorem Derives.le_length {s : Bytes} {r : Re} {i j : Nat} (h : Derives s r i j) (hi : i ≤ s.length) :
    j ≤ s.length := by
  induction h with
  | eps => exact hi
  | cls hb _ =>
    rename_i i b
    have := (List.getElem?_eq_some_iff.mp hb).1
    omega
  | look => exact hi
  | cat _ _ h1 h2 => exact h2 (h1 hi)
  | altL _ h => exact h hi
  | altR _ h => exact h hi
  | starNil => exact hi
  | starCons _ _ _ h1 h2 => exact h2 (h1 hi)
  | grp _ h => exact h hi

/-- what a capture-log entry must satisfy: produced inside `[i, j]` by a group of `r` whose body derives it -/
def EntryOK (s : Bytes) (r : Re) (i j : Nat) (e : Nat × Nat × Nat) : Prop :=
  i ≤ e.2.1 ∧ e.2.1 ≤ e.2.2 ∧ e.2.2 ≤ j ∧ ∃ body, Sub r e.1 body ∧ Derives s body e.2.1 e.2.2

/-- one element of `den s r i c` -/
def Good (s : Bytes) (r : Re) (i : Nat) (c : Caps) (res : Res) : Prop :=
  Derives s r i res.1 ∧ res.1 ≤ s.length ∧ ∃ new, res.2 = new ++ c ∧ ∀ e ∈ new, EntryOK s r i res.1 e

theorem EntryOK.mono {s : Bytes} {r r' : Re} {i j i' j' : Nat} {e : Nat × Nat × Nat}
    (h : EntryOK s r i j e) (hi : i' ≤ i) (hj : j ≤ j') (hsub : ∀ m x, Sub r m x → Sub r' m x) :
    EntryOK s r' i' j' e := by
  obtain ⟨h1, h2, h3, body, hs, hd⟩ := h
  exact ⟨Nat.le_trans hi h1, h2, Nat.le_trans h3 hj, body, hsub _ _ hs, hd⟩

theorem iter_sound (s : Bytes) (a : Re) (g : Bool) (step : Nat → Caps → List Res)
    (hstep : ∀ i c res, i ≤ s.length → res ∈ step i c → Good s a i c res) :
    ∀ f i c res, i ≤ s.length → res ∈ iter step g f i c → Good s (.star g a) i c res := by
  intro f
  induction f with
  | zero =>
    intro i c res hi hm
    simp only [iter, List.mem_singleton] at hm
    subst hm
    exact ⟨.starNil g a i, hi, [], rfl, by simp⟩
  | succ f ih =>
    intro i c res hi hm
    have hnil : Good s (.star g a) i c (i, c) := ⟨.starNil g a i, hi, [], rfl, by simp⟩
    have hmore : res ∈ (((step i c).filter fun r => decide (i < r.1)).flatMap fun r => iter step g f r.1 r.2) →
        Good s (.star g a) i c res := by
      intro hm
      obtain ⟨x, hx, hres⟩ := List.mem_flatMap.mp hm
      obtain ⟨hx1, hx2⟩ := List.mem_filter.mp hx
      have hlt : i < x.1 := by simpa using hx2
      obtain ⟨hd1, hl1, new1, e1, hn1⟩ := hstep i c x hi hx1
      obtain ⟨hd2, hl2, new2, e2, hn2⟩ := ih x.1 x.2 res hl1 hres
      refine ⟨.starCons hlt hd1 hd2, hl2, new2 ++ new1, by rw [e2, e1, List.append_assoc], ?_⟩
      intro e he
      rcases List.mem_append.mp he with he | he
      · exact (hn2 e he).mono (Nat.le_of_lt hlt) (Nat.le_refl _) (fun _ _ h => h)
      · exact (hn1 e he).mono (Nat.le_refl _) hd2.le (fun _ _ h => .star h)
    cases g with
    | true =>
      simp only [iter, if_true, List.mem_append, List.mem_singleton] at hm
      rcases hm with hm | hm
      · exact hmore hm
      · subst hm; exact hnil
    | false =>
      simp only [iter, Bool.false_eq_true, if_false, List.mem_cons] at hm
      rcases hm with hm | hm
      · subst hm; exact hnil
      · exact hmore hm

theorem den_sound (s : Bytes) (r : Re) :
    ∀ i c res, i ≤ s.length → res ∈ den s r i c → Good s r i c res := by
  induction r with
  | eps =>
    intro i c res hi hm
    simp only [den, List.mem_singleton] at hm
    subst hm
    exact ⟨.eps i, hi, [], rfl, by simp⟩
  | cls neg rs =>
    intro i c res hi hm
    simp only [den] at hm
    cases hb : s[i]? with
    | none => simp [hb] at hm
    | some b =>
      rw [hb] at hm
      by_cases hc : inCls neg rs b = true
      · simp only [hc, if_true, List.mem_singleton] at hm
        subst hm
        have := (List.getElem?_eq_some_iff.mp hb).1
        exact ⟨.cls hb hc, by simp only; omega, [], rfl, by simp⟩
      · simp [hc] at hm
  | look l =>
    intro i c res hi hm
    by_cases h : holds s l i = true
    · simp only [den, h, if_true, List.mem_singleton] at hm
      subst hm
      exact ⟨.look h, hi, [], rfl, by simp⟩
    · simp [den, h] at hm
  | cat a b iha ihb =>
    intro i c res hi hm
    simp only [den] at hm
    obtain ⟨x, hx, hres⟩ := List.mem_flatMap.mp hm
    obtain ⟨hd1, hl1, new1, e1, hn1⟩ := iha i c x hi hx
    obtain ⟨hd2, hl2, new2, e2, hn2⟩ := ihb x.1 x.2 res hl1 hres
    refine ⟨.cat hd1 hd2, hl2, new2 ++ new1, by rw [e2, e1, List.append_assoc], ?_⟩
    intro e he
    rcases List.mem_append.mp he with he | he
    · exact (hn2 e he).mono hd1.le (Nat.le_refl _) (fun _ _ h => .catR h)
    · exact (hn1 e he).mono (Nat.le_refl _) hd2.le (fun _ _ h => .catL h)
  | alt a b iha ihb =>
    intro i c res hi hm
    simp only [den, List.mem_append] at hm
    rcases hm with hm | hm
    · obtain ⟨hd, hl, new, e, hn⟩ := iha i c res hi hm
      exact ⟨.altL hd, hl, new, e, fun x hx => (hn x hx).mono (Nat.le_refl _) (Nat.le_refl _) (fun _ _ h => .altL h)⟩
    · obtain ⟨hd, hl, new, e, hn⟩ := ihb i c res hi hm
      exact ⟨.altR hd, hl, new, e, fun x hx => (hn x hx).mono (Nat.le_refl _) (Nat.le_refl _) (fun _ _ h => .altR h)⟩
  | star g a iha =>
    intro i c res hi hm
    simp only [den] at hm
    exact iter_sound s a g (den s a) iha _ i c res hi hm
  | grp n a iha =>
    intro i c res hi hm
    simp only [den] at hm
    obtain ⟨x, hx, hres⟩ := List.mem_map.mp hm
    obtain ⟨hd, hl, new, e, hn⟩ := iha i c x hi hx
    subst hres
    refine ⟨.grp hd, hl, (n, i, x.1) :: new, by simp [e], ?_⟩
    intro y hy
    rcases List.mem_cons.mp hy with hy | hy
    · subst hy
      exact ⟨Nat.le_refl _, hd.le, Nat.le_refl _, a, .here n a, hd⟩
    · exact (hn y hy).mono (Nat.le_refl _) (Nat.le_refl _) (fun _ _ h => .grp h)


/-! ### completeness: every derivation is in the priority list -/

theorem iter_complete (s : Bytes) (a : Re) (g : Bool) (step : Nat → Caps → List Res)
    (hstep : ∀ i j c, Derives s a i j → j ≤ s.length → ∃ c', (j, c') ∈ step i c) :
    ∀ f i k c, s.length ≤ f + i → Derives s (.star g a) i k → k ≤ s.length →
      ∃ c', (k, c') ∈ iter step g f i c := by
  intro f
  induction f with
  | zero =>
    intro i k c hf hd hk
    cases hd with
    | starNil => exact ⟨c, by simp [iter]⟩
    | starCons hlt h1 h2 => have := h2.le; omega
  | succ f ih =>
    intro i k c hf hd hk
    have hnil : (i, c) ∈ iter step g (f + 1) i c := by cases g <;> simp [iter]
    cases hd with
    | starNil => exact ⟨c, hnil⟩
    | starCons hlt h1 h2 =>
      rename_i j
      obtain ⟨c1, hc1⟩ := hstep i j c h1 (Nat.le_trans h2.le hk)
      obtain ⟨c2, hc2⟩ := ih j k c1 (by omega) h2 hk
      refine ⟨c2, ?_⟩
      have hm : (k, c2) ∈ (((step i c).filter fun r => decide (i < r.1)).flatMap fun r => iter step g f r.1 r.2) :=
        List.mem_flatMap.mpr ⟨(j, c1), List.mem_filter.mpr ⟨hc1, by simpa using hlt⟩, hc2⟩
      cases g <;> simp only [iter, if_true, Bool.false_eq_true, if_false, List.mem_append, List.mem_cons]
      · exact Or.inr hm
      · exact Or.inl hm

theorem den_complete (s : Bytes) (r : Re) :
    ∀ i j c, Derives s r i j → j ≤ s.length → ∃ c', (j, c') ∈ den s r i c := by
  induction r with
  | eps => intro i j c hd _; cases hd; exact ⟨c, by simp [den]⟩
  | cls neg rs =>
    intro i j c hd _
    cases hd with
    | cls hb hc => exact ⟨c, by simp [den, hb, hc]⟩
  | look l =>
    intro i j c hd _
    cases hd with
    | look h => exact ⟨c, by simp [den, h]⟩
  | cat a b iha ihb =>
    intro i k c hd hk
    cases hd with
    | cat h1 h2 =>
      rename_i j
      obtain ⟨c1, hc1⟩ := iha i j c h1 (Nat.le_trans h2.le hk)
      obtain ⟨c2, hc2⟩ := ihb j k c1 h2 hk
      exact ⟨c2, by simp only [den]; exact List.mem_flatMap.mpr ⟨(j, c1), hc1, hc2⟩⟩
  | alt a b iha ihb =>
    intro i j c hd hj
    cases hd with
    | altL h => obtain ⟨c1, h1⟩ := iha i j c h hj; exact ⟨c1, by simp only [den]; exact List.mem_append.mpr (Or.inl h1)⟩
    | altR h => obtain ⟨c1, h1⟩ := ihb i j c h hj; exact ⟨c1, by simp only [den]; exact List.mem_append.mpr (Or.inr h1)⟩
  | star g a iha =>
    intro i k c hd hk
    simp only [den]
    exact iter_complete s a g (den s a) iha s.length i k c (Nat.le_add_right _ _) hd hk
  | grp n a iha =>
    intro i j c hd hj
    cases hd with
    | grp h =>
      obtain ⟨c1, h1⟩ := iha i j c h hj
      exact ⟨(n, i, j) :: c1, by simp only [den]; exact List.mem_map.mpr ⟨(j, c1), h1, rfl⟩⟩

/-- no match anchored at `p` ⇔ nothing is derivable from `p` -/
theorem matchAt_none_iff (s : Bytes) (r : Re) (p : Nat) (hp : p ≤ s.length) :
    matchAt s r p = none ↔ ∀ j, ¬ Derives s r p j := by
  rw [matchAt_eq]
  constructor
  · intro h j hd
    obtain ⟨c', hc⟩ := den_complete s r p j [] hd (hd.le_length hp)
    have : den s r p [] = [] := by simpa using h
    rw [this] at hc
    cases hc
  · intro h
    cases hden : den s r p [] with
    | nil => rfl
    | cons x xs =>
      have := den_sound s r p [] x hp (by rw [hden]; exact List.mem_cons_self)
      exact absurd this.1 (h x.1)

/-! ### the unanchored search -/

theorem searchFrom_some (s : Bytes) (r : Re) :
    ∀ f p q res, searchFrom s r f p = some (q, res) →
      p ≤ q ∧ q < p + f ∧ matchAt s r q = some res ∧ ∀ q', p ≤ q' → q' < q → matchAt s r q' = none := by
  intro f
  induction f with
  | zero => intro p q res h; simp [searchFrom] at h
  | succ f ih =>
    intro p q res h
    simp only [searchFrom] at h
    cases hm : matchAt s r p with
    | some x =>
      rw [hm] at h
      simp only [Option.some.injEq, Prod.mk.injEq] at h
      obtain ⟨rfl, rfl⟩ := h
      exact ⟨Nat.le_refl _, by omega, hm, fun q' h1 h2 => by omega⟩
    | none =>
      rw [hm] at h
      obtain ⟨h1, h2, h3, h4⟩ := ih (p + 1) q res h
      refine ⟨by omega, by omega, h3, ?_⟩
      intro q' hq1 hq2
      by_cases he : q' = p
      · subst he; exact hm
      · exact h4 q' (by omega) hq2

theorem searchFrom_none (s : Bytes) (r : Re) :
    ∀ f p, searchFrom s r f p = none → ∀ q, p ≤ q → q < p + f → matchAt s r q = none := by
  intro f
  induction f with
  | zero => intro p _ q h1 h2; omega
  | succ f ih =>
    intro p h q h1 h2
    simp only [searchFrom] at h
    cases hm : matchAt s r p with
    | some x => rw [hm] at h; cases h
    | none =>
      rw [hm] at h
      by_cases he : q = p
      · subst he; exact hm
      · exact ih (p + 1) h q (by omega) (by omega)

end Rare.C02.Rx
