import Rare.Proofs.C12Ext
/-!
Dissect on UTF-8 text: when the line and the literals of the pattern are (structurally) valid UTF-8,
every offset of a result lies on a CHARACTER boundary of the line – no capture and no `{0}` ever
splits a multi-byte character – in both modes.

`Utf8 b` is STRUCTURAL validity: `b` is a sequence of characters, each a lead byte followed by exactly
the number of continuation bytes (`10xxxxxx`) the lead byte announces (`0xxxxxxx` 0, `110xxxxx` 1,
`1110xxxx` 2, `11110xxx` 3).  Real UTF-8 validity (no overlong forms, no surrogates, ≤ U+10FFFF) is
stronger, so every valid UTF-8 string satisfies `Utf8` and the theorems cover a larger class.
`Boundary b i`: position `i` splits `b` into two `Utf8` strings.

The reason is the self-synchronisation of UTF-8: a valid non-empty needle starts with a lead byte,
every byte inside a character of the hay is a continuation byte, so an occurrence can only start at a
character boundary – and then needle and hay decode in lock-step, so it also ends at one.  The
ASCII fold of ignore-case changes single-byte characters only, hence keeps structure and boundaries.
-/
namespace Rare.C12

/-- continuation byte `10xxxxxx` -/
def isCont (c : UInt8) : Prop := 128 ≤ c.toNat ∧ c.toNat < 192

instance (c : UInt8) : Decidable (isCont c) := by unfold isCont; exact inferInstance

/-- number of continuation bytes a lead byte announces; `none` for a byte that cannot start a character -/
def leadLen (c : UInt8) : Option Nat :=
  if c.toNat < 128 then some 0 else if c.toNat < 192 then none else if c.toNat < 224 then some 1
  else if c.toNat < 240 then some 2 else if c.toNat < 248 then some 3 else none

/-- structurally valid UTF-8: a sequence of (lead byte, announced number of continuation bytes) -/
inductive Utf8 : Bytes → Prop
  | nil : Utf8 []
  | char (c : UInt8) (k : Nat) (conts rest : Bytes) : leadLen c = some k → conts.length = k →
      (∀ x ∈ conts, isCont x) → Utf8 rest → Utf8 (c :: (conts ++ rest))

/-- position `i` is a character boundary of `b` -/
def Boundary (b : Bytes) (i : Nat) : Prop := i ≤ b.length ∧ Utf8 (b.take i) ∧ Utf8 (b.drop i)

theorem Utf8.append {a b : Bytes} (ha : Utf8 a) (hb : Utf8 b) : Utf8 (a ++ b) := by
  induction ha with
  | nil => simpa using hb
  | char c k conts rest h1 h2 h3 _ ih =>
    have : c :: (conts ++ rest) ++ b = c :: (conts ++ (rest ++ b)) := by simp
    rw [this]; exact Utf8.char c k conts (rest ++ b) h1 h2 h3 ih

theorem lead_not_cont {c : UInt8} {k : Nat} (h : leadLen c = some k) : ¬ isCont c := by
  unfold leadLen at h
  unfold isCont
  intro ⟨h1, h2⟩
  rw [if_neg (by omega), if_pos h2] at h
  cases h

theorem Boundary.zero {b : Bytes} (h : Utf8 b) : Boundary b 0 :=
  ⟨by omega, by simpa using Utf8.nil, by simpa using h⟩

theorem Boundary.len {b : Bytes} (h : Utf8 b) : Boundary b b.length :=
  ⟨Nat.le_refl _, by simpa using h, by simpa using Utf8.nil⟩

theorem Boundary.add {b : Bytes} {i m : Nat} (hi : Boundary b i) (hm : Boundary (b.drop i) m) :
    Boundary b (i + m) := by
  obtain ⟨h1, h2, _⟩ := hi
  obtain ⟨g1, g2, g3⟩ := hm
  refine ⟨by simp at g1; omega, ?_, ?_⟩
  · rw [List.take_add]; exact h2.append g2
  · rw [List.drop_drop] at g3; exact g3

theorem Boundary.cons_char {c : UInt8} {k : Nat} {conts rest : Bytes} (h1 : leadLen c = some k)
    (h2 : conts.length = k) (h3 : ∀ x ∈ conts, isCont x) {m : Nat} (hb : Boundary rest m) :
    Boundary (c :: (conts ++ rest)) (1 + conts.length + m) := by
  obtain ⟨g1, g2, g3⟩ := hb
  have e : 1 + conts.length + m = (conts.length + m) + 1 := by omega
  refine ⟨by simp; omega, ?_, ?_⟩
  · have : (c :: (conts ++ rest)).take (1 + conts.length + m) = c :: (conts ++ rest.take m) := by
      rw [e, List.take_succ_cons, List.take_length_add_append]
    rw [this]; exact Utf8.char c k conts _ h1 h2 h3 g2
  · have : (c :: (conts ++ rest)).drop (1 + conts.length + m) = rest.drop m := by
      rw [e, List.drop_succ_cons, List.drop_length_add_append]
    rw [this]; exact g3

/-- needle and hay decode in lock-step: what follows an occurrence at the start is valid again -/
theorem utf8_prefix_rest {needle : Bytes} (hn : Utf8 needle) :
    ∀ {hay : Bytes}, Utf8 hay → needle <+: hay → Utf8 (hay.drop needle.length) := by
  induction hn with
  | nil => intro hay hh _; simpa using hh
  | char c k conts rest h1 h2 h3 _ ih =>
    intro hay hh hp
    cases hh with
    | nil => simp at hp
    | char c' k' conts' rest' g1 g2 g3 g4 =>
      obtain ⟨t, ht⟩ := hp
      simp only [List.cons_append, List.cons.injEq] at ht
      obtain ⟨hc, ht⟩ := ht
      subst hc
      have hk : k = k' := by rw [h1] at g1; exact Option.some.inj g1
      have hl : conts.length = conts'.length := by omega
      rw [List.append_assoc] at ht
      obtain ⟨e1, e2⟩ := List.append_inj ht hl
      subst e1
      have hpre : rest <+: rest' := ⟨t, e2⟩
      have hr := ih g4 hpre
      have : (c :: (conts ++ rest')).drop (c :: (conts ++ rest)).length = rest'.drop rest.length := by
        simp only [List.length_cons, List.length_append, List.drop_succ_cons]
        rw [List.drop_length_add_append]
      rw [this]; exact hr

/-- **Self-synchronisation**: an occurrence of a valid non-empty needle in a valid hay starts and ends
on character boundaries of the hay. -/
theorem utf8_occurrence {hay : Bytes} (hh : Utf8 hay) {needle : Bytes} (hn : Utf8 needle) (hne : needle ≠ []) :
    ∀ i, needle <+: hay.drop i → Boundary hay i ∧ Boundary hay (i + needle.length) := by
  induction hh with
  | nil =>
    intro i hp
    simp only [List.drop_nil, List.prefix_nil] at hp
    exact absurd hp hne
  | char c k conts rest h1 h2 h3 h4 ih =>
    intro i hp
    have hall : Utf8 (c :: (conts ++ rest)) := Utf8.char c k conts rest h1 h2 h3 h4
    cases i with
    | zero =>
      refine ⟨Boundary.zero hall, ?_⟩
      simp only [List.drop_zero] at hp
      rw [Nat.zero_add]
      refine ⟨hp.length_le, ?_, utf8_prefix_rest hn hall hp⟩
      rw [← List.prefix_iff_eq_take.mp hp]; exact hn
    | succ j =>
      simp only [List.drop_succ_cons] at hp
      by_cases hj : j < conts.length
      · exfalso
        obtain ⟨n0, nt, rfl⟩ := List.exists_cons_of_ne_nil hne
        have hnc : ¬ isCont n0 := by
          cases hn with
          | char _ k' _ _ g1 _ _ _ => exact lead_not_cont g1
        obtain ⟨t, ht⟩ := hp
        have h0 : ((conts ++ rest).drop j)[0]? = some n0 := by rw [← ht]; simp
        rw [List.getElem?_drop, List.getElem?_append_left (by omega)] at h0
        exact hnc (h3 n0 (List.mem_of_getElem? h0))
      · have hd : (conts ++ rest).drop j = rest.drop (j - conts.length) := by
          rw [List.drop_append, List.drop_of_length_le (by omega)]; simp
        rw [hd] at hp
        obtain ⟨b1, b2⟩ := ih (j - conts.length) hp
        have e1 : j + 1 = 1 + conts.length + (j - conts.length) := by omega
        have e2 : j + 1 + needle.length = 1 + conts.length + (j - conts.length + needle.length) := by omega
        rw [e2, e1]
        exact ⟨Boundary.cons_char h1 h2 h3 b1, Boundary.cons_char h1 h2 h3 b2⟩

/-! ### the ASCII fold keeps structure -/

theorem lowerByte_toNat (c : UInt8) :
    (lowerByte c).toNat = if 65 ≤ c.toNat ∧ c.toNat ≤ 90 then c.toNat + 32 else c.toNat := by
  unfold lowerByte
  by_cases h : 65 ≤ c ∧ c ≤ 90
  · have h1 := UInt8.le_iff_toNat_le.mp h.1
    have h2 := UInt8.le_iff_toNat_le.mp h.2
    simp only [UInt8.reduceToNat] at h1 h2
    rw [if_pos h, if_pos ⟨h1, h2⟩, UInt8.toNat_add]
    simp only [UInt8.reduceToNat]
    omega
  · rw [if_neg h]
    have : ¬ (65 ≤ c.toNat ∧ c.toNat ≤ 90) := by
      intro ⟨h1, h2⟩
      exact h ⟨UInt8.le_iff_toNat_le.mpr (by simpa using h1), UInt8.le_iff_toNat_le.mpr (by simpa using h2)⟩
    rw [if_neg this]

theorem leadLen_lowerByte (c : UInt8) : leadLen (lowerByte c) = leadLen c := by
  unfold leadLen
  rw [lowerByte_toNat]
  by_cases h : 65 ≤ c.toNat ∧ c.toNat ≤ 90
  · rw [if_pos h, if_pos (by omega), if_pos (by omega)]
  · rw [if_neg h]

theorem isCont_lowerByte (c : UInt8) : isCont (lowerByte c) ↔ isCont c := by
  unfold isCont
  rw [lowerByte_toNat]
  by_cases h : 65 ≤ c.toNat ∧ c.toNat ≤ 90
  · rw [if_pos h]; omega
  · rw [if_neg h]

theorem utf8_lower {b : Bytes} (h : Utf8 b) : Utf8 (lower b) := by
  induction h with
  | nil => exact Utf8.nil
  | char c k conts rest h1 h2 h3 _ ih =>
    have : lower (c :: (conts ++ rest)) = lowerByte c :: (lower conts ++ lower rest) := by simp [lower]
    rw [this]
    refine Utf8.char _ k _ _ (by rw [leadLen_lowerByte]; exact h1) (by rw [lower_length]; exact h2) ?_ ih
    intro x hx
    simp only [lower, List.mem_map] at hx
    obtain ⟨y, hy, rfl⟩ := hx
    exact (isCont_lowerByte y).mpr (h3 y hy)

theorem utf8_of_lower : ∀ {l : Bytes}, Utf8 l → ∀ {b : Bytes}, l = lower b → Utf8 b := by
  intro l h
  induction h with
  | nil => intro b hb; rw [lower_eq_nil.mp hb.symm]; exact Utf8.nil
  | char c k conts rest h1 h2 h3 _ ih =>
    intro b hb
    cases b with
    | nil => simp [lower] at hb
    | cons c0 b' =>
      have hb' : lowerByte c0 = c ∧ lower b' = conts ++ rest := by
        have : lower (c0 :: b') = lowerByte c0 :: lower b' := by simp [lower]
        rw [this] at hb
        exact ⟨(List.cons.inj hb).1.symm, (List.cons.inj hb).2.symm⟩
      obtain ⟨hc, hrest⟩ := hb'
      have hlen : conts.length ≤ b'.length := by
        have := congrArg List.length hrest
        simp only [lower_length, List.length_append] at this
        omega
      have e1 : lower (b'.take conts.length) = conts := by
        rw [lower_take, hrest, List.take_left']; rfl
      have e2 : lower (b'.drop conts.length) = rest := by
        rw [lower_drop, hrest, List.drop_left']; rfl
      have hsplit : c0 :: b' = c0 :: (b'.take conts.length ++ b'.drop conts.length) := by
        rw [List.take_append_drop]
      rw [hsplit]
      refine Utf8.char c0 k _ _ (by rw [← leadLen_lowerByte, hc]; exact h1)
        (by rw [List.length_take]; omega) ?_ (ih e2.symm)
      intro x hx
      have hx' : lowerByte x ∈ conts := by
        rw [← e1]; simp only [lower, List.mem_map]; exact ⟨x, hx, rfl⟩
      exact (isCont_lowerByte x).mp (h3 _ hx')

theorem utf8_lower_iff (b : Bytes) : Utf8 (lower b) ↔ Utf8 b :=
  ⟨fun h => utf8_of_lower h rfl, utf8_lower⟩

theorem boundary_lower_iff (b : Bytes) (i : Nat) : Boundary (lower b) i ↔ Boundary b i := by
  unfold Boundary
  rw [lower_length, ← lower_take, ← lower_drop, utf8_lower_iff, utf8_lower_iff]

/-! ### a checker (for concrete examples) -/

/-- one pass with the number of continuation bytes still owed -/
def utf8Chk : Nat → Bytes → Bool
  | 0, [] => true
  | _ + 1, [] => false
  | 0, c :: t => match leadLen c with | none => false | some k => utf8Chk k t
  | k + 1, c :: t => decide (isCont c) && utf8Chk k t

theorem utf8Chk_sound : ∀ (b : Bytes) (k : Nat), utf8Chk k b = true →
    ∃ conts rest, b = conts ++ rest ∧ conts.length = k ∧ (∀ x ∈ conts, isCont x) ∧ Utf8 rest := by
  intro b
  induction b with
  | nil =>
    intro k h
    cases k with
    | zero => exact ⟨[], [], rfl, rfl, by simp, Utf8.nil⟩
    | succ k => simp [utf8Chk] at h
  | cons c t ih =>
    intro k h
    cases k with
    | zero =>
      refine ⟨[], c :: t, rfl, rfl, by simp, ?_⟩
      simp only [utf8Chk] at h
      cases hl : leadLen c with
      | none => rw [hl] at h; cases h
      | some k' =>
        rw [hl] at h
        obtain ⟨conts, rest, e, h2, h3, h4⟩ := ih k' h
        rw [e]; exact Utf8.char c k' conts rest hl h2 h3 h4
    | succ k =>
      simp only [utf8Chk, Bool.and_eq_true, decide_eq_true_eq] at h
      obtain ⟨conts, rest, e, h2, h3, h4⟩ := ih k h.2
      refine ⟨c :: conts, rest, by rw [e]; rfl, by simp [h2], ?_, h4⟩
      intro x hx
      rcases List.mem_cons.mp hx with rfl | hx
      · exact h.1
      · exact h3 x hx

theorem utf8_of_chk {b : Bytes} (h : utf8Chk 0 b = true) : Utf8 b := by
  obtain ⟨conts, rest, e, h2, _, h4⟩ := utf8Chk_sound b 0 h
  have : conts = [] := List.length_eq_zero_iff.mp h2
  subst this; rw [e]; exact h4

/-! ### the specification on UTF-8 text -/

theorem specToks_boundaries {line : Bytes} :
    ∀ (toks : List Tok) (pos : Nat) (caps : List Nat) (e : Nat), (∀ t ∈ toks, Utf8 t.lit) →
      Boundary line pos → specToks line toks pos = some (caps, e) →
      Boundary line e ∧ ∀ x ∈ caps, Boundary line x := by
  intro toks
  induction toks with
  | nil =>
    intro pos caps e _ hb h
    simp only [specToks, Option.some.injEq, Prod.mk.injEq] at h
    obtain ⟨rfl, rfl⟩ := h
    exact ⟨hb, by simp⟩
  | cons t ts ih =>
    intro pos caps e hlit hb h
    have hrest : Utf8 (line.drop pos) := hb.2.2
    have hline : Utf8 line := by
      have := hb.2.1.append hb.2.2
      rwa [List.take_append_drop] at this
    simp only [specToks] at h
    cases hn : (if t.lit = [] then some (line.drop pos).length else firstIndex t.lit (line.drop pos)) with
    | none => rw [hn] at h; cases h
    | some n =>
      rw [hn] at h
      simp only at h
      have hb2 : Boundary line (pos + n) ∧ Boundary line (pos + n + t.lit.length) := by
        by_cases hlit0 : t.lit = []
        · rw [if_pos hlit0] at hn
          have hn' : n = (line.drop pos).length := (Option.some.inj hn).symm
          have hp : pos + n = line.length := by
            rw [hn', List.length_drop]; have := hb.1; omega
          rw [hlit0, List.length_nil, Nat.add_zero, hp]
          exact ⟨Boundary.len hline, Boundary.len hline⟩
        · rw [if_neg hlit0] at hn
          obtain ⟨_, hp, _⟩ := (firstIndex_spec _ _ _).mp hn
          obtain ⟨b1, b2⟩ := utf8_occurrence hrest (hlit t (by simp)) hlit0 n hp
          exact ⟨hb.add b1, by rw [Nat.add_assoc]; exact hb.add b2⟩
      cases hrec : specToks line ts (pos + n + t.lit.length) with
      | none => rw [hrec] at h; cases h
      | some ce =>
        obtain ⟨caps', e'⟩ := ce
        rw [hrec] at h
        simp only [Option.some.injEq, Prod.mk.injEq] at h
        obtain ⟨hc, he⟩ := h
        subst he
        obtain ⟨r1, r2⟩ := ih _ _ _ (fun t' ht' => hlit t' (by simp [ht'])) hb2.2 hrec
        refine ⟨r1, ?_⟩
        rw [← hc]
        intro x hx
        rcases List.mem_append.mp hx with hx | hx
        · by_cases hs : t.skip = true
          · rw [if_pos hs] at hx; cases hx
          · rw [if_neg hs] at hx
            simp only [List.mem_cons, List.not_mem_nil, or_false] at hx
            rcases hx with rfl | rfl
            · exact hb
            · exact hb2.1
        · exact r2 x hx

theorem specDissect_boundaries {p : Pat} {line : Bytes} {r : List Nat} (hl : Utf8 line)
    (hpre : Utf8 p.pre) (hlits : ∀ t ∈ p.toks, Utf8 t.lit) (h : specDissect p line = some r) :
    ∀ x ∈ r, Boundary line x := by
  unfold specDissect at h
  cases hf : firstIndex p.pre line with
  | none => rw [hf] at h; cases h
  | some s =>
    rw [hf] at h
    simp only at h
    obtain ⟨_, hp, hmin⟩ := (firstIndex_spec _ _ _).mp hf
    have hb : Boundary line s ∧ Boundary line (s + p.pre.length) := by
      by_cases h0 : p.pre = []
      · have hs0 : s = 0 := by
          rcases Nat.eq_zero_or_pos s with h' | h'
          · exact h'
          · exact absurd (by rw [h0]; exact List.nil_prefix) (hmin 0 h')
        rw [hs0, h0]; exact ⟨Boundary.zero hl, Boundary.zero hl⟩
      · exact utf8_occurrence hl hpre h0 s hp
    cases hrec : specToks line p.toks (s + p.pre.length) with
    | none => rw [hrec] at h; cases h
    | some ce =>
      obtain ⟨caps, e⟩ := ce
      rw [hrec] at h
      simp only [Option.some.injEq] at h
      obtain ⟨r1, r2⟩ := specToks_boundaries p.toks _ _ _ hlits hb.2 hrec
      rw [← h]
      intro x hx
      rcases List.mem_cons.mp hx with rfl | hx
      · exact hb.1
      · rcases List.mem_cons.mp hx with rfl | hx
        · exact r1
        · exact r2 x hx

theorem specFor_boundaries {ic : Bool} {p : Pat} {line : Bytes} {r : List Nat} (hl : Utf8 line)
    (hpre : Utf8 p.pre) (hlits : ∀ t ∈ p.toks, Utf8 t.lit) (h : specFor ic p line = some r) :
    ∀ x ∈ r, Boundary line x := by
  cases ic with
  | false => exact specDissect_boundaries hl hpre hlits (by simpa [specFor] using h)
  | true =>
    have h' : specDissect p.lowerLits (lower line) = some r := by simpa [specFor, specDissectIC] using h
    intro x hx
    rw [← boundary_lower_iff]
    refine specDissect_boundaries (utf8_lower hl) (utf8_lower hpre) ?_ h' x hx
    intro t ht
    simp only [Pat.lowerLits, List.mem_map] at ht
    obtain ⟨t0, ht0, rfl⟩ := ht
    exact utf8_lower (hlits t0 ht0)

/-- a valid string starts with a lead byte -/
theorem utf8_head {l : Bytes} (h : Utf8 l) : ∀ (c : UInt8) (t : Bytes), l = c :: t → ∃ k, leadLen c = some k := by
  cases h with
  | nil => intro c t e; cases e
  | char c' k conts rest g1 _ _ _ =>
    intro c t e
    exact ⟨k, by rw [← (List.cons.inj e).1]; exact g1⟩

/-- a lone lead byte is not a character: position 1 of `é` = `C3 A9` is not a boundary -/
theorem not_boundary_inside_char : ¬ Boundary [195, 169] 1 := by
  intro ⟨_, h, _⟩
  have key : ∀ l : Bytes, Utf8 l → ∀ c : UInt8, l = [c] → leadLen c = some 0 := by
    intro l hl
    cases hl with
    | nil => intro c hc; cases hc
    | char c' k conts rest g1 g2 _ _ =>
      intro c hc
      have h1 : c' = c := (List.cons.inj hc).1
      have h2 : conts ++ rest = [] := (List.cons.inj hc).2
      have h3 : conts.length = 0 := by
        have := congrArg List.length h2
        simp only [List.length_append, List.length_nil] at this
        omega
      rw [← h1, g1, ← g2, h3]
  have h1 := key [195] h 195 rfl
  have h2 : leadLen 195 = some 1 := by decide
  rw [h2] at h1
  cases h1

end Rare.C12
