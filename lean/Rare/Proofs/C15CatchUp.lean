import Rare.Proofs.C15Replace
import Rare.Proofs.C15PollLive
/-!
C15 – catching up: with a silent writer the fsnotify goroutine and the reader reach a state in which the file
at the path is open and read to its end – in place (any mode) and, with re-open, after any rotation.
-/
namespace Rare.Follow
open Rare.C15.Spec

variable {β : Type} {cfg : NCfg} {ex : Bool} {st0 : Nat}

/-- the reader has the file at the path open and has read all of it -/
def caughtUp (s : NSt β) (j : Nat) : Prop := ∃ x, s.f = some x ∧ x.ino = j ∧ unread s.fs x = []

/-- Why the reader keeps the file it has open: re-open follow compares it with the path when a delete signal
    arrives; in place (file present at the start, nothing removed) no delete signal exists. -/
def Stays (cfg : NCfg) (ex : Bool) (s : NSt β) : Prop := cfg.reopen = true ∨ (ex = true ∧ s.removes = 0)

/-- With the file at the path open, every step of goroutine / reader keeps it open and decreases `nmuP`. -/
theorem onpath_step {w : Who} {s s' : NSt β} (h : NInv cfg ex st0 s) (hw : w ≠ .writer) (hs : NStep cfg w s s')
    (j : Nat) (hp : s.fs.path = some j) (hon : onPath s j) (hst : Stays cfg ex s) :
    onPath s' j ∧ nmuP s' < nmuP s := by
  obtain ⟨x, hfx, hxj⟩ := hon
  cases hs with
  | append _ i bs hp hbs => exact absurd rfl hw
  | remove _ i hp => exact absurd rfl hw
  | create _ hp => exact absurd rfl hw
  | noise _ => exact absurd rfl hw
  | dispatch _ e rest he =>
    refine ⟨⟨x, by simpa using hfx, hxj⟩, ?_⟩
    have := dispatch1_pw_pd cfg { s with evq := rest } e
    simp only [nmuP, nmu, unreadLen, dispatch1_evq, dispatch1_rd, dispatch1_f, dispatch1_fs, he, List.length_cons] at this ⊢
    omega
  | readSome _ y n hrd hf h1 hn =>
    have hyx : y = x := by rw [hf] at hfx; exact Option.some.inj hfx
    subst hyx
    refine ⟨⟨{ y with pos := y.pos + n }, rfl, hxj⟩, ?_⟩
    simp only [nmuP, nmu, unreadLen, hf, unread, List.length_drop] at hn ⊢
    omega
  | readEmpty _ y hrd hf hu => exact ⟨⟨x, hfx, hxj⟩, by simp [nmuP, nmu, unreadLen, hrd, rdW]⟩
  | readNil _ hrd hf => exact ⟨⟨x, hfx, hxj⟩, by simp [nmuP, nmu, unreadLen, hrd, rdW]⟩
  | recvW _ hrd hpw =>
    have : onWrite cfg { s with pw := s.pw - 1 } = { s with pw := s.pw - 1 } := by
      simp [onWrite, hfx]
    rw [this]
    refine ⟨⟨x, hfx, hxj⟩, ?_⟩
    simp only [nmuP, nmu, unreadLen, hrd, rdW]; omega
  | recvD _ hrd hpd _ =>
    have hsame : sameFile { s with pd := s.pd - 1 } = true := by simp [sameFile, hfx, hp, hxj]
    have : reopenIfReplaced { s with pd := s.pd - 1 } = { s with pd := s.pd - 1 } := by
      simp only [reopenIfReplaced]; rw [if_pos hsame]
    rw [this]
    refine ⟨⟨x, hfx, hxj⟩, ?_⟩
    simp only [nmuP, nmu, unreadLen, hrd, rdW]; omega
  | recvDPlain _ hrd hpd hre' =>
    exfalso
    rcases hst with h1 | ⟨h1, h2⟩
    · rw [h1] at hre'; cases hre'
    · rcases h.dSig (Or.inl hpd) with h3 | ⟨h3, _⟩
      · omega
      · rw [hre'] at h3; cases h3

theorem catch_up_aux (hW : 1 ≤ cfg.capW) (hD : 1 ≤ cfg.capD) (j : Nat) :
    ∀ (k : Nat) (s : NSt β), nmuP s ≤ k → NInv cfg ex st0 s → s.fs.path = some j → onPath s j → Stays cfg ex s →
      ∃ s', NSysReach cfg s s' ∧ NInv cfg ex st0 s' ∧ s'.fs = s.fs ∧ s'.removes = s.removes ∧ caughtUp s' j := by
  intro k
  induction k with
  | zero =>
    intro s hk h hp hon hst
    obtain ⟨x, hfx, hxj⟩ := hon
    by_cases hu : unread s.fs x = []
    · exact ⟨s, .refl _, h, rfl, rfl, x, hfx, hxj, hu⟩
    · have hne : s.rd ≠ .ended := by
        intro he
        have := h.ended he
        rcases hst with h1 | ⟨_, h2⟩
        · rw [this.1] at h1; cases h1
        · omega
      obtain ⟨w, s1, hw, hs⟩ := unread_progress h x hfx hu hne
      have := (onpath_step h hw hs j hp ⟨x, hfx, hxj⟩ hst).2
      omega
  | succ k ih =>
    intro s hk h hp hon hst
    obtain ⟨x, hfx, hxj⟩ := hon
    by_cases hu : unread s.fs x = []
    · exact ⟨s, .refl _, h, rfl, rfl, x, hfx, hxj, hu⟩
    · have hne : s.rd ≠ .ended := by
        intro he
        have := h.ended he
        rcases hst with h1 | ⟨_, h2⟩
        · rw [this.1] at h1; cases h1
        · omega
      obtain ⟨w, s1, hw, hs⟩ := unread_progress h x hfx hu hne
      obtain ⟨hon1, hm⟩ := onpath_step h hw hs j hp ⟨x, hfx, hxj⟩ hst
      have hfs := sys_step_fs hw hs
      have hst1 : Stays cfg ex s1 := by
        rcases hst with h1 | ⟨h1, h2⟩
        · exact Or.inl h1
        · exact Or.inr ⟨h1, by rw [hfs.2]; exact h2⟩
      obtain ⟨s2, hreach, hi2, hfs2, hrm2, hc2⟩ := ih s1 (by omega) (ninv_step hW hD h hs)
        (by rw [hfs.1]; exact hp) hon1 hst1
      exact ⟨s2, .step hw hs hreach, hi2, by rw [hfs2, hfs.1], by rw [hrm2, hfs.2], hc2⟩

/-- runs of goroutine + reader keep the invariant and never touch the file system -/
theorem sysreach_inv (hW : 1 ≤ cfg.capW) (hD : 1 ≤ cfg.capD) {s s' : NSt β} (hr : NSysReach cfg s s')
    (h : NInv cfg ex st0 s) : NInv cfg ex st0 s' ∧ s'.fs = s.fs ∧ s'.removes = s.removes := by
  induction hr with
  | refl => exact ⟨h, rfl, rfl⟩
  | step hw hs _ ih =>
    obtain ⟨h1, h2, h3⟩ := ih (ninv_step hW hD h hs)
    have hfs := sys_step_fs hw hs
    exact ⟨h1, by rw [h2, hfs.1], by rw [h3, hfs.2]⟩

/-- Re-open follow: from any state satisfying the invariant, the file at the path ends up open and read to its end. -/
theorem reopen_catch_up (hW : 1 ≤ cfg.capW) (hD : 1 ≤ cfg.capD) (hre : cfg.reopen = true) {s : NSt β}
    (h : NInv cfg ex st0 s) (j : Nat) (hp : s.fs.path = some j) :
    ∃ s', NSysReach cfg s s' ∧ NInv cfg ex st0 s' ∧ s'.fs = s.fs ∧ s'.removes = s.removes ∧ caughtUp s' j := by
  obtain ⟨s1, hr1, hon1⟩ := eventually_reopened_aux hW hD hre j _ s (Nat.le_refl _) h hp
  obtain ⟨hi1, hfs1, hrm1⟩ := sysreach_inv hW hD hr1 h
  obtain ⟨s2, hr2, hi2, hfs2, hrm2, hc2⟩ := catch_up_aux hW hD j _ s1 (Nat.le_refl _) hi1
    (by rw [hfs1]; exact hp) hon1 (Or.inl hre)
  exact ⟨s2, hr1.trans hr2, hi2, by rw [hfs2, hfs1], by rw [hrm2, hrm1], hc2⟩

theorem extract_to_end (c : List β) (a : Nat) : extract c a c.length = c.drop a := by
  simp only [extract]
  exact List.take_of_length_le (by simp)

/-! ### the polling reader -/

theorem preader_fs {cfg : PCfg} {s s' : PSt β} (hs : PStep cfg .reader s s') :
    s'.fs = s.fs ∧ s'.removes = s.removes := by
  cases hs with
  | reopen _ sz hrd => simp only [openStep, openNew]; split <;> exact ⟨rfl, rfl⟩
  | _ => exact ⟨rfl, rfl⟩

theorem psysreach_inv {cfg : PCfg} {s s' : PSt β} (hr : PSysReach cfg s s') (h : PInv cfg ex st0 s) :
    PInv cfg ex st0 s' ∧ s'.fs = s.fs ∧ s'.removes = s.removes := by
  induction hr with
  | refl => exact ⟨h, rfl, rfl⟩
  | step hs _ ih =>
    obtain ⟨h1, h2, h3⟩ := ih (pinv_step h hs)
    have hfs := preader_fs hs
    exact ⟨h1, by rw [h2, hfs.1], by rw [h3, hfs.2]⟩

theorem pinplace_len {cfg : PCfg} {s : PSt β} (h : PInv cfg ex st0 s) (he : ex = true) (hr : s.removes = 0) :
    s.delivered = extract (s.fs.content 0) st0 s.readBytes ∧ s.delivered.length = s.readBytes - st0 ∧
      st0 ≤ s.readBytes ∧ s.readBytes ≤ (s.fs.content 0).length := by
  obtain ⟨h1, _, h3, h4, _⟩ := h.inPlace he hr
  have hb := h.core.bounds ⟨0, st0, s.readBytes⟩ (by simp [h3])
  have hd := h.core.deliv
  rw [h1, h3] at hd
  have hd' : s.delivered = extract (s.fs.content 0) st0 s.readBytes := by simpa [segments] using hd
  exact ⟨hd', (inplace_prefix _ _ _ _ ⟨hb.1, h4, hd'⟩).2, hb.1, h4⟩

theorem poll_catch_up_aux {cfg : PCfg} (hA : 1 ≤ cfg.attempts) (he : ex = true) :
    ∀ (k : Nat) (s : PSt β), (s.fs.content 0).length - s.readBytes ≤ k → PInv cfg ex st0 s → s.removes = 0 →
      ∃ s', PSysReach cfg s s' ∧ PInv cfg ex st0 s' ∧ s'.fs = s.fs ∧ s'.removes = 0 ∧
        s'.readBytes = (s.fs.content 0).length := by
  intro k
  induction k with
  | zero =>
    intro s hk h hr
    have := pinplace_len h he hr
    exact ⟨s, .refl _, h, rfl, hr, by omega⟩
  | succ k ih =>
    intro s hk h hr
    have hl := pinplace_len h he hr
    by_cases hrb : s.readBytes = (s.fs.content 0).length
    · exact ⟨s, .refl _, h, rfl, hr, hrb⟩
    · have hu : unread s.fs ⟨0, st0, s.readBytes⟩ ≠ [] := by
        simp only [unread, ne_eq, List.drop_eq_nil_iff]; omega
      obtain ⟨s1, bs, hr1, hb, hd⟩ := poll_eventually_delivered_aux hA he _ s (Nat.le_refl _) h hr hu
      obtain ⟨hi1, hfs1, hrm1⟩ := psysreach_inv hr1 h
      have hr1' : s1.removes = 0 := by rw [hrm1]; exact hr
      have hl1 := pinplace_len hi1 he hr1'
      have hbl : 0 < bs.length := by
        cases bs with
        | nil => exact absurd rfl hb
        | cons a l => simp
      have hlen : s1.delivered.length = s.delivered.length + bs.length := by rw [hd]; simp
      obtain ⟨s2, hr2, hi2, hfs2, hrm2, hrb2⟩ := ih s1 (by rw [hfs1]; omega) hi1 hr1'
      exact ⟨s2, hr1.trans hr2, hi2, by rw [hfs2, hfs1], hrm2, by rw [hrb2, hfs1]⟩

end Rare.Follow
