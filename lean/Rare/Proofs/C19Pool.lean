import Rare.Proofs.C19F64c
import Rare.Model.C19Pool
/-!
C19, round 4: proofs about the hidden state of the `{! …}` stage (`Model/C19Pool.lean`).
Part 1: one goroutine (a history of evaluations through one stage).  Part 2: several goroutines.
-/
namespace Rare.C19.Pool
open Rare Rare.F64 Rare.C19 Rare.C19.IEEE Rare.Expr

variable (L : Libm)

/-- `expr.Eval(mathCtx)`: the value is the value under "every look-up through `ParseFloat` of what
    `mathCtx.sub` supplies", and `mathCtx.errors` grows by the number of look-ups that did not parse. -/
theorem evalW_spec (e : C19.Expr F64) (o : Obj) :
    evalW L e o = (e.eval (arith L) (ctxBinding o.sub), ⟨o.sub, o.errors + badLookups o.sub e⟩) := by
  induction e generalizing o with
  | val v => rfl
  | named n => rfl
  | idx i => rfl
  | un m e ih => simp only [evalW, ih, C19.Expr.eval, badLookups]
  | bin op l r ihl ihr =>
    simp only [evalW, ihl, ihr, C19.Expr.eval, badLookups, Nat.add_assoc]

theorem stateless_eq (e : C19.Expr F64) (ctx : Ctx) :
    stateless L e ctx = if badLookups ctx e > 0 then ErrorNum else render (e.eval (arith L) (ctxBinding ctx)) := by
  simp only [stateless, evalW_spec, Nat.zero_add]
  rfl

/-- One evaluation with the reset answers what the stateless stage answers, whatever lies in the pool. -/
theorem stageRun_reset (e : C19.Expr F64) (p : Pool) (ctx : Ctx) :
    (stageRun L true e p ctx).1 = stateless L e ctx := by
  simp only [stageRun, stateless, evalW_spec, if_true, Nat.zero_add]
  rfl

theorem runHistory_reset (e : C19.Expr F64) (p : Pool) (cs : List Ctx) :
    (runHistory L true e p cs).1 = cs.map (stateless L e) := by
  induction cs generalizing p with
  | nil => rfl
  | cons c cs ih => simp only [runHistory, List.map_cons, stageRun_reset, ih]

theorem get_ret_length (p : Pool) (o : Obj) : (p.get.2.ret o).length = max p.length 1 := by
  unfold Pool.get Pool.ret
  cases h : p.getLast? with
  | none =>
    have : p = [] := List.getLast?_eq_none_iff.mp h
    subst this; rfl
  | some x =>
    have hne : p ≠ [] := by intro h'; subst h'; cases h
    have : p.length ≥ 1 := List.length_pos_iff.mpr hne
    simp only [List.length_append, List.length_dropLast, List.length_singleton]
    omega

/-- The pool neither leaks nor grows (beyond one object when it was created empty). -/
theorem stageRun_pool_length (reset : Bool) (e : C19.Expr F64) (p : Pool) (ctx : Ctx) :
    (stageRun L reset e p ctx).2.length = max p.length 1 := by
  simp only [stageRun]; exact get_ret_length _ _

/-- The stage of the shared expression model (`kfMathWith`, what `kfmath_output_f64` talks about and
    what the driver's `expr` op runs) is the stateless stage. -/
theorem stage_is_stateless (s : Bytes) (t : Tree) (e : C19.Expr F64) (h : compile (arith L) s = .ok (t, e)) :
    ∃ st, Funcs.Math.kfMathWith (mathInstL L) [Stage.lit s] = .ok ⟨some st, none⟩ ∧
      ∀ ctx, st.run ctx = .ok (stateless L e ctx) := by
  refine ⟨_, kfMath_stage L s t e h, fun ctx => ?_⟩
  obtain ⟨st, h1, h2⟩ := kfMath_run L s t e h ctx
  rw [kfMath_stage L s t e h] at h1
  injection h1 with h1
  injection h1 with h1 _
  injection h1 with h1
  rw [h1, h2, stateless_eq, (compileF_post (arith L) _ s t e h).2.ev]

/-! ## Part 2: several goroutines through one stage -/

/-- value / failure of one look-up on `ctx` -/
def lval (ctx : Ctx) (v : Var) : F64 := (conv (v.text ctx)).1
def lbad (ctx : Ctx) (v : Var) : Nat := (conv (v.text ctx)).2

theorem evalL_lookups (ctx : Ctx) (e : C19.Expr F64) (rest : List F64) :
    evalL L e ((lookups e).map (lval ctx) ++ rest) = (e.eval (arith L) (ctxBinding ctx), rest) := by
  induction e generalizing rest with
  | val v => rfl
  | named n => rfl
  | idx i => rfl
  | un m e ih => simp only [evalL, lookups, ih, C19.Expr.eval]
  | bin op l r ihl ihr =>
    simp only [evalL, lookups, List.map_append, List.append_assoc, ihl, ihr, C19.Expr.eval]

theorem badLookups_sum (ctx : Ctx) (e : C19.Expr F64) :
    badLookups ctx e = ((lookups e).map (lbad ctx)).sum := by
  induction e with
  | val v => rfl
  | named n => simp [badLookups, lookups, lbad, Var.text]
  | idx i => simp [badLookups, lookups, lbad, Var.text]
  | un m e ih => simpa [badLookups, lookups] using ih
  | bin op l r ihl ihr => simp [badLookups, lookups, ihl, ihr, List.sum_append]

theorem sum_ge_of_mem {β : Type} (f : β → Nat) (l : List β) (x : β) (h : x ∈ l) : f x ≤ (l.map f).sum := by
  induction l with
  | nil => cases h
  | cons y ys ih =>
    simp only [List.map_cons, List.sum_cons]
    rcases List.mem_cons.mp h with rfl | h
    · omega
    · have := ih h; omega

theorem sum_zero_of_all {β : Type} (f : β → Nat) (l : List β) (h : ∀ x ∈ l, f x = 0) : (l.map f).sum = 0 := by
  induction l with
  | nil => rfl
  | cons y ys ih =>
    simp only [List.map_cons, List.sum_cons]
    rw [h y (List.mem_cons_self ..), ih (fun x hx => h x (List.mem_cons_of_mem _ hx))]

/-- The address of the wrapper object a goroutine holds (between its `Get` and its `Return`). -/
def Pc.holds : Pc → Option Nat
  | .got a => some a
  | .eval a _ _ => some a
  | _ => none

/-- The invariant of the system: every wrapper object is either in the pool or held by exactly one
    goroutine (so nobody else touches its fields), a goroutine inside `expr.Eval` has read exactly the
    values of ITS context so far and its object's `errors` counts exactly ITS failures so far, and
    every goroutine that returned, returned what the stateless stage answers on its context. -/
structure Inv (e : C19.Expr F64) (s : Sys) : Prop where
  pool_lt : ∀ a ∈ s.pool, a < s.next
  pool_nodup : s.pool.Nodup
  held_lt : ∀ i a, (s.pc i).holds = some a → a < s.next
  held_not_pool : ∀ i a, (s.pc i).holds = some a → a ∉ s.pool
  held_distinct : ∀ i j a, i ≠ j → (s.pc i).holds = some a → (s.pc j).holds ≠ some a
  eval_ok : ∀ i a todo vals, s.pc i = .eval a todo vals →
    (s.heap a).sub = s.ctxOf i ∧ ∃ pre, lookups e = pre ++ todo ∧ vals = pre.map (lval (s.ctxOf i)) ∧
      (s.heap a).errors = (pre.map (lbad (s.ctxOf i))).sum
  done_ok : ∀ i out, s.pc i = .done out → out = stateless L e (s.ctxOf i)

theorem setPc_same (p : Nat → Pc) (i : Nat) (x : Pc) : setPc p i x i = x := by simp [setPc]
theorem setPc_other (p : Nat → Pc) (i j : Nat) (x : Pc) (h : j ≠ i) : setPc p i x j = p j := by simp [setPc, h]
theorem setHeap_same (hp : Nat → Obj) (a : Nat) (o : Obj) : setHeap hp a o a = o := by simp [setHeap]
theorem setHeap_other (hp : Nat → Obj) (a b : Nat) (o : Obj) (h : b ≠ a) : setHeap hp a o b = hp b := by simp [setHeap, h]

theorem inv_init (e : C19.Expr F64) (size : Nat) (ctxOf : Nat → Ctx) : Inv L e (Sys.init size ctxOf) where
  pool_lt := by intro a ha; simpa [Sys.init] using ha
  pool_nodup := by simpa [Sys.init] using List.nodup_range
  held_lt := by intro i a h; simp [Sys.init, Pc.holds] at h
  held_not_pool := by intro i a h; simp [Sys.init, Pc.holds] at h
  held_distinct := by intro i j a _ h; simp [Sys.init, Pc.holds] at h
  eval_ok := by intro i a todo vals h; simp [Sys.init] at h
  done_ok := by intro i out h; simp [Sys.init] at h

theorem step_ctxOf (e : C19.Expr F64) (s : Sys) (i : Nat) : (step L e s i).ctxOf = s.ctxOf := by
  unfold step
  split
  · split <;> rfl
  · rfl
  · rfl
  · rfl
  · rfl

theorem run_ctxOf (e : C19.Expr F64) (s : Sys) (sched : List Nat) : (run L e s sched).ctxOf = s.ctxOf := by
  induction sched generalizing s with
  | nil => rfl
  | cons i r ih => simp only [run, ih, step_ctxOf]

theorem holds_setPc_keep {p : Nat → Pc} {i : Nat} {x : Pc} (h : x.holds = (p i).holds) (j : Nat) :
    (setPc p i x j).holds = (p j).holds := by
  by_cases hj : j = i
  · subst hj; rw [setPc_same, h]
  · rw [setPc_other _ _ _ _ hj]

/-- `Get` from an empty pool: a new object. -/
theorem inv_step_alloc (e : C19.Expr F64) (s : Sys) (i : Nat) (hi : s.pc i = .idle) (hp : s.pool = [])
    (I : Inv L e s) :
    Inv L e { s with heap := setHeap s.heap s.next Obj.fresh, next := s.next + 1, pc := setPc s.pc i (.got s.next) } where
  pool_lt := by intro a ha; have := I.pool_lt a ha; show a < s.next + 1; omega
  pool_nodup := I.pool_nodup
  held_lt := by
    intro j a h
    show a < s.next + 1
    by_cases hj : j = i
    · subst hj; simp only [setPc_same, Pc.holds, Option.some.injEq] at h; omega
    · simp only [setPc_other _ _ _ _ hj] at h; have := I.held_lt j a h; omega
  held_not_pool := by intro j a _; show a ∉ s.pool; rw [hp]; simp
  held_distinct := by
    intro j k a hjk hj hk
    by_cases h1 : j = i
    · subst h1
      simp only [setPc_same, Pc.holds, Option.some.injEq] at hj
      have hk' : k ≠ j := fun h => hjk h.symm
      simp only [setPc_other _ _ _ _ hk'] at hk
      have := I.held_lt k a hk; omega
    · simp only [setPc_other _ _ _ _ h1] at hj
      by_cases h2 : k = i
      · subst h2
        simp only [setPc_same, Pc.holds, Option.some.injEq] at hk
        have := I.held_lt j a hj; omega
      · simp only [setPc_other _ _ _ _ h2] at hk
        exact I.held_distinct j k a hjk hj hk
  eval_ok := by
    intro j a todo vals h
    by_cases hj : j = i
    · subst hj; simp only [setPc_same] at h; cases h
    · simp only [setPc_other _ _ _ _ hj] at h
      have hlt := I.held_lt j a (by rw [h]; rfl)
      have hne : a ≠ s.next := by omega
      simp only [setHeap_other _ _ _ _ hne]
      exact I.eval_ok j a todo vals h
  done_ok := by
    intro j out h
    by_cases hj : j = i
    · subst hj; simp only [setPc_same] at h; cases h
    · simp only [setPc_other _ _ _ _ hj] at h; exact I.done_ok j out h

theorem mem_dropLast_of {α : Type} {l : List α} {x : α} (h : x ∈ l.dropLast) : x ∈ l :=
  (List.dropLast_sublist l).subset h

theorem getLast_split {α : Type} {l : List α} {a : α} (h : l.getLast? = some a) : l = l.dropLast ++ [a] := by
  have hne : l ≠ [] := by intro h'; subst h'; cases h
  have := List.dropLast_concat_getLast hne
  rw [List.getLast?_eq_some_getLast hne] at h
  injection h with h
  rw [h] at this; exact this.symm

/-- `Get` from a non-empty pool: the last address. -/
theorem inv_step_get (e : C19.Expr F64) (s : Sys) (i a : Nat) (hi : s.pc i = .idle) (hp : s.pool.getLast? = some a)
    (I : Inv L e s) :
    Inv L e { s with pool := s.pool.dropLast, pc := setPc s.pc i (.got a) } where
  pool_lt := by intro b hb; exact I.pool_lt b (mem_dropLast_of hb)
  pool_nodup := I.pool_nodup.sublist (List.dropLast_sublist _)
  held_lt := by
    intro j b h
    by_cases hj : j = i
    · subst hj; simp only [setPc_same, Pc.holds, Option.some.injEq] at h
      subst h; exact I.pool_lt _ (List.mem_of_getLast? hp)
    · simp only [setPc_other _ _ _ _ hj] at h; exact I.held_lt j b h
  held_not_pool := by
    intro j b h
    show b ∉ s.pool.dropLast
    by_cases hj : j = i
    · subst hj; simp only [setPc_same, Pc.holds, Option.some.injEq] at h
      subst h
      have hnd := I.pool_nodup
      rw [getLast_split hp] at hnd
      intro hm
      have := (List.nodup_append.mp hnd).2.2 _ hm _ (List.mem_singleton.mpr rfl)
      exact this rfl
    · simp only [setPc_other _ _ _ _ hj] at h
      intro hm; exact I.held_not_pool j b h (mem_dropLast_of hm)
  held_distinct := by
    intro j k b hjk hj hk
    have hmem : a ∈ s.pool := List.mem_of_getLast? hp
    by_cases h1 : j = i
    · subst h1
      simp only [setPc_same, Pc.holds, Option.some.injEq] at hj
      have hk' : k ≠ j := fun h => hjk h.symm
      simp only [setPc_other _ _ _ _ hk'] at hk
      subst hj; exact I.held_not_pool k _ hk hmem
    · simp only [setPc_other _ _ _ _ h1] at hj
      by_cases h2 : k = i
      · subst h2
        simp only [setPc_same, Pc.holds, Option.some.injEq] at hk
        subst hk; exact I.held_not_pool j _ hj hmem
      · simp only [setPc_other _ _ _ _ h2] at hk
        exact I.held_distinct j k b hjk hj hk
  eval_ok := by
    intro j b todo vals h
    by_cases hj : j = i
    · subst hj; simp only [setPc_same] at h; cases h
    · simp only [setPc_other _ _ _ _ hj] at h; exact I.eval_ok j b todo vals h
  done_ok := by
    intro j out h
    by_cases hj : j = i
    · subst hj; simp only [setPc_same] at h; cases h
    · simp only [setPc_other _ _ _ _ hj] at h; exact I.done_ok j out h

/-- A step that keeps the object held and writes only to it (`*mathCtx = …`, a look-up). -/
theorem inv_step_own (e : C19.Expr F64) (s : Sys) (i a : Nat) (o : Obj) (x : Pc)
    (hh : (s.pc i).holds = some a) (hx : x.holds = some a) (hnd : ∀ out, x ≠ .done out)
    (hev : ∀ todo vals, x = .eval a todo vals →
      o.sub = s.ctxOf i ∧ ∃ pre, lookups e = pre ++ todo ∧ vals = pre.map (lval (s.ctxOf i)) ∧
        o.errors = (pre.map (lbad (s.ctxOf i))).sum)
    (hx' : ∀ b todo vals, x = .eval b todo vals → b = a)
    (I : Inv L e s) :
    Inv L e { s with heap := setHeap s.heap a o, pc := setPc s.pc i x } where
  pool_lt := I.pool_lt
  pool_nodup := I.pool_nodup
  held_lt := by
    intro j b h
    rw [holds_setPc_keep (hx.trans hh.symm)] at h; exact I.held_lt j b h
  held_not_pool := by
    intro j b h
    rw [holds_setPc_keep (hx.trans hh.symm)] at h; exact I.held_not_pool j b h
  held_distinct := by
    intro j k b hjk hj hk
    rw [holds_setPc_keep (hx.trans hh.symm)] at hj hk; exact I.held_distinct j k b hjk hj hk
  eval_ok := by
    intro j b todo vals h
    by_cases hj : j = i
    · subst hj
      simp only [setPc_same] at h
      have hb := hx' b todo vals h
      subst hb
      simp only [setHeap_same]
      exact hev todo vals h
    · simp only [setPc_other _ _ _ _ hj] at h
      have hb : b ≠ a := by
        intro hb; subst hb
        exact I.held_distinct j i b hj (by rw [h]; rfl) hh
      simp only [setHeap_other _ _ _ _ hb]
      exact I.eval_ok j b todo vals h
  done_ok := by
    intro j out h
    by_cases hj : j = i
    · subst hj; simp only [setPc_same] at h; exact absurd h (hnd out)
    · simp only [setPc_other _ _ _ _ hj] at h; exact I.done_ok j out h

/-- The last step: the check of `errors` and the deferred `Return`. -/
theorem inv_step_return (e : C19.Expr F64) (s : Sys) (i a : Nat) (vals : List F64) (hi : s.pc i = .eval a [] vals)
    (I : Inv L e s) :
    Inv L e { s with pool := s.pool ++ [a],
                     pc := setPc s.pc i (.done (if (s.heap a).errors > 0 then ErrorNum else render (evalL L e vals).1)) } where
  pool_lt := by
    intro b hb
    rcases List.mem_append.mp hb with hb | hb
    · exact I.pool_lt b hb
    · rw [List.mem_singleton.mp hb]; exact I.held_lt i a (by rw [hi]; rfl)
  pool_nodup := by
    refine List.nodup_append.mpr ⟨I.pool_nodup, (by simp), ?_⟩
    intro x hx y hy hxy
    rw [List.mem_singleton.mp hy] at hxy
    subst hxy
    exact I.held_not_pool i x (by rw [hi]; rfl) hx
  held_lt := by
    intro j b h
    by_cases hj : j = i
    · subst hj; simp only [setPc_same, Pc.holds] at h; cases h
    · simp only [setPc_other _ _ _ _ hj] at h; exact I.held_lt j b h
  held_not_pool := by
    intro j b h
    by_cases hj : j = i
    · subst hj; simp only [setPc_same, Pc.holds] at h; cases h
    · simp only [setPc_other _ _ _ _ hj] at h
      intro hm
      rcases List.mem_append.mp hm with hm | hm
      · exact I.held_not_pool j b h hm
      · rw [List.mem_singleton.mp hm] at h
        exact I.held_distinct j i a hj h (by rw [hi]; rfl)
  held_distinct := by
    intro j k b hjk hj hk
    by_cases h1 : j = i
    · subst h1; simp only [setPc_same, Pc.holds] at hj; cases hj
    · simp only [setPc_other _ _ _ _ h1] at hj
      by_cases h2 : k = i
      · subst h2; simp only [setPc_same, Pc.holds] at hk; cases hk
      · simp only [setPc_other _ _ _ _ h2] at hk
        exact I.held_distinct j k b hjk hj hk
  eval_ok := by
    intro j b todo vs h
    by_cases hj : j = i
    · subst hj; simp only [setPc_same] at h; cases h
    · simp only [setPc_other _ _ _ _ hj] at h; exact I.eval_ok j b todo vs h
  done_ok := by
    intro j out h
    by_cases hj : j = i
    · subst hj
      simp only [setPc_same] at h
      injection h with h
      obtain ⟨_, pre, hpre, hvals, herr⟩ := I.eval_ok j a [] vals hi
      rw [List.append_nil] at hpre
      subst hpre
      show out = stateless L e (s.ctxOf j)
      rw [stateless_eq, badLookups_sum, ← herr, ← h, hvals]
      have := evalL_lookups L (s.ctxOf j) e []
      rw [List.append_nil] at this
      rw [this]
    · simp only [setPc_other _ _ _ _ hj] at h; exact I.done_ok j out h

/-- Every step of every goroutine preserves the invariant. -/
theorem inv_step (e : C19.Expr F64) (s : Sys) (i : Nat) (I : Inv L e s) : Inv L e (step L e s i) := by
  unfold step
  split
  · rename_i hi
    split
    · rename_i hp
      exact inv_step_alloc L e s i hi (List.getLast?_eq_none_iff.mp hp) I
    · rename_i a hp
      exact inv_step_get L e s i a hi hp I
  · rename_i a hi
    refine inv_step_own L e s i a _ _ (by rw [hi]; rfl) rfl (fun _ h => by cases h) ?_ (fun b _ _ h => by injection h with h; exact h.symm) I
    intro todo vals h
    injection h with _ h2 h3
    exact ⟨rfl, [], by simp [← h2], by simp [← h3], rfl⟩
  · rename_i a v todo vals hi
    obtain ⟨hsub, pre, hpre, hvals, herr⟩ := I.eval_ok i a (v :: todo) vals hi
    refine inv_step_own L e s i a _ _ (by rw [hi]; rfl) rfl (fun _ h => by cases h) ?_ (fun b _ _ h => by injection h with h; exact h.symm) I
    intro todo' vals' h
    injection h with _ h2 h3
    subst h2 h3
    refine ⟨hsub, pre ++ [v], by simp [hpre], ?_, ?_⟩
    · simp only [Obj.look, hsub, hvals, List.map_append, List.map_cons, List.map_nil, lval]
    · simp only [Obj.look, hsub, herr, List.map_append, List.map_cons, List.map_nil, List.sum_append, List.sum_cons,
        List.sum_nil, lbad, Nat.add_zero]
  · rename_i a vals hi
    exact inv_step_return L e s i a vals hi I
  · exact I

theorem inv_run (e : C19.Expr F64) (s : Sys) (sched : List Nat) (I : Inv L e s) : Inv L e (run L e s sched) := by
  induction sched generalizing s with
  | nil => exact I
  | cons i r ih => exact ih _ (inv_step L e s i I)

/-! ### Progress: a goroutine that is scheduled often enough returns -/

/-- Steps goroutine needs until it has returned. -/
def Pc.rem (e : C19.Expr F64) : Pc → Nat
  | .idle => (lookups e).length + 3
  | .got _ => (lookups e).length + 2
  | .eval _ todo _ => todo.length + 1
  | .done _ => 0

theorem step_pc_other (e : C19.Expr F64) (s : Sys) (i j : Nat) (h : j ≠ i) : (step L e s i).pc j = s.pc j := by
  unfold step
  split
  · split <;> exact setPc_other _ _ _ _ h
  · exact setPc_other _ _ _ _ h
  · exact setPc_other _ _ _ _ h
  · exact setPc_other _ _ _ _ h
  · rfl

theorem step_rem (e : C19.Expr F64) (s : Sys) (i : Nat) :
    ((step L e s i).pc i).rem e = (s.pc i).rem e - 1 := by
  unfold step
  split
  · rename_i hi
    split <;> simp only [setPc_same, hi, Pc.rem] <;> omega
  · rename_i a hi; simp only [setPc_same, hi, Pc.rem]; omega
  · rename_i a v todo vals hi; simp only [setPc_same, hi, Pc.rem, List.length_cons]; omega
  · rename_i a vals hi; simp only [setPc_same, hi, Pc.rem, List.length_nil]
  · rename_i out hi; simp only [hi, Pc.rem]

theorem run_rem (e : C19.Expr F64) (s : Sys) (sched : List Nat) (i : Nat) :
    ((run L e s sched).pc i).rem e = (s.pc i).rem e - sched.count i := by
  induction sched generalizing s with
  | nil => simp [run]
  | cons j r ih =>
    simp only [run, ih, List.count_cons]
    by_cases hj : j = i
    · subst hj; simp only [step_rem, beq_self_eq_true, if_true]; omega
    · have : (j == i) = false := by simp [hj]
      rw [step_pc_other L e s j i (fun h => hj h.symm), this]; simp

theorem rem_zero_done (e : C19.Expr F64) (p : Pc) (h : p.rem e = 0) : ∃ out, p = .done out := by
  cases p with
  | idle => simp [Pc.rem] at h
  | got a => simp [Pc.rem] at h
  | eval a t v => simp [Pc.rem] at h
  | done out => exact ⟨out, rfl⟩

end Rare.C19.Pool
