import Rare.Proofs.C15TailSpec
/-!
The batcher goroutine while the follow reader is still following (`Rare.C15.Tail.live`): after as many
trips as the delivered stream has newline bytes the loop is still running (it is blocked in the next
`Scan()`), the lines scanned are exactly the lines of the newline-terminated part of the stream, and
fewer than `batchSize` of them are waiting in `batch`.
-/
namespace Rare.C15.Tail
open Rare.C04 Rare.C15.Batch

/-! ### fewer than `batchSize` lines wait in `batch` -/

theorem push_len {α : Type} (s : St α) (x : α) : (s.push x).cur.len = s.cur.len + 1 := by
  unfold St.push; split <;> rfl

theorem step_curBound {α : Type} (src : String) (n : Nat) (s : St α) (x : α × Bool) :
    (step src n s x).cur.len < max n 1 := by
  unfold step
  dsimp only
  split
  · simp only [St.flush]; omega
  · rename_i h
    simp only [Bool.or_eq_true, decide_eq_true_eq, not_or] at h
    have := h.1
    omega

theorem iter_curBound (src : String) (n fuel : Nat) (timer : Nat → Bool) (s : TSt)
    (h : s.b.cur.len < max n 1) : (iter src n fuel timer s).b.cur.len < max n 1 := by
  unfold iter
  split
  · generalize s.imm.scan fuel = r
    obtain ⟨res, imm'⟩ := r
    cases res with
    | tok v b => simp only [advance_b]; exact step_curBound _ _ _ _
    | done =>
      simp only [advance_b]
      unfold finish; split
      · exact h
      · exact h
    | fuel => simpa using h
  · exact h

theorem iterN_curBound (src : String) (n fuel : Nat) (timer : Nat → Bool) (k : Nat) :
    ∀ (s : TSt), s.b.cur.len < max n 1 → (iterN src n fuel timer k s).b.cur.len < max n 1 := by
  induction k with
  | zero => intro s h; exact h
  | succ k ih => intro s h; exact ih _ (iter_curBound src n fuel timer s h)

/-! ### the first `count nl data` trips find a newline each -/

/-- State of the loop after `k` complete lines of an error-free stream `data`. -/
structure Live (data : Bytes) (fuel : Nat) (s : TSt) (k : Nat) : Prop where
  run : s.status = .running
  stream : s.imm.delivered ++ s.imm.rd.rest = data
  drained : (∀ st ∈ s.imm.rd.script, st.err = none) ∧ (s.imm.eof = true → s.imm.rd.rest = [])
  measure : s.imm.rd.measure < fuel
  at_line : ∃ C, Inv s.imm C ∧ Boundary C (s.toks.map (·.2)) ∧ C.count nl = k ∧
    (C = [] ∨ C.getLast? = some nl)
  ntoks : s.toks.length = k

theorem count_nl_append_line (C a : Bytes) (h : nl ∉ a) : (C ++ a ++ [nl]).count nl = C.count nl + 1 := by
  simp [List.count_append, List.count_eq_zero_of_not_mem h]

theorem live_iter {source : String} {data : Bytes} (batchSize fuel : Nat) (timer : Nat → Bool) {s : TSt} {k : Nat}
    (h : Live data fuel s k) (hk : k < data.count nl) :
    Live data fuel (iter source batchSize fuel timer s) (k + 1) := by
  obtain ⟨C, hinv, hb, hc, _⟩ := h.at_line
  have hpost := scan_post fuel hinv
  have hnf := scan_nofuel fuel hinv h.measure
  have hst := scan_closed (closed_stream data) fuel hinv h.stream
  have hdr := scan_closed closed_drained fuel hinv h.drained
  have hmm := scan_closed (closed_measure s.imm.rd.measure) fuel hinv (Nat.le_refl _)
  have hit : iter source batchSize fuel timer s =
      match s.imm.scan fuel with
      | (.tok v bytes, imm') =>
        s.advance imm' (step source batchSize s.b (v, timer s.lines)) (s.lines + 1) .running (s.toks ++ [(v, bytes)])
      | (.done, imm') => s.advance imm' (finish source s.b) s.lines .closed s.toks
      | (.fuel, imm') => s.advance imm' s.b s.lines .stuck s.toks := by
    unfold iter; rw [h.run]; rfl
  rw [hit]
  generalize s.imm.scan fuel = r at hpost hnf hst hdr hmm
  obtain ⟨res, imm'⟩ := r
  -- the stream ended at `C ++ b`: impossible while `data` has more newlines than `C`
  have hcontra : ∀ (b : Bytes), nl ∉ b → imm'.eof = true → imm'.pending = [] → Inv imm' (C ++ b) → False := by
    intro b hnb he hp hi
    have hrest := hdr.2 he
    have hd : imm'.delivered = C ++ b := by rw [hi.del, hp]; simp
    have : data = C ++ b := by
      have := hst; simp only at this hrest
      rw [hrest, hd] at this; simpa using this.symm
    rw [this, List.count_append, List.count_eq_zero_of_not_mem hnb] at hk
    omega
  cases res with
  | tok v b =>
    simp only [Post] at hpost
    rcases hpost with ⟨_, ⟨a, ha, rfl, hi⟩ | ⟨hnb, _, he, hp, hi⟩⟩
    · refine ⟨rfl, hst, hdr, by simp only [advance_imm]; simp only at hmm; have := h.measure; omega,
        ⟨C ++ a ++ [nl], hi, ?_, ?_, Or.inr (by simp)⟩, by simp [h.ntoks]⟩
      · simpa using hb.line a ha
      · rw [count_nl_append_line C a ha, hc]
    · exact (hcontra b hnb he hp hi).elim
  | done =>
    simp only [Post] at hpost
    exact (hcontra [] (by simp) hpost.1 hpost.2.1 (by simpa using hpost.2.2)).elim
  | fuel => simp at hnf

theorem live_iterN {source : String} {data : Bytes} (batchSize fuel : Nat) (timer : Nat → Bool) (m : Nat) :
    ∀ {s : TSt} {k : Nat}, Live data fuel s k → k + m ≤ data.count nl →
      Live data fuel (iterN source batchSize fuel timer m s) (k + m) := by
  induction m with
  | zero => intro s k h _; exact h
  | succ m ih =>
    intro s k h hk
    have h1 := live_iter (source := source) batchSize fuel timer h (by omega)
    have := ih h1 (by omega)
    simpa [iterN, Nat.add_assoc, Nat.add_comm 1 m] using this

theorem live_init (bufSize batchSize : Nat) (data : Bytes) (script : List Step) (hb : 1 ≤ bufSize)
    (hs : ∀ st ∈ script, st.err = none) :
    Live data (budget data script) (TSt.init bufSize batchSize ⟨data, script⟩) 0 where
  run := rfl
  stream := by simp [TSt.init, Imm.init]
  drained := ⟨by simpa [TSt.init, Imm.init] using hs, by simp [TSt.init, Imm.init]⟩
  measure := by simp [TSt.init, Imm.init, Reader.measure, budget]; omega
  at_line := ⟨[], ⟨by simp [TSt.init, Imm.init], by simp [TSt.init, Imm.init, Imm.pending], hb⟩,
    by simpa [TSt.init] using Boundary.nil, rfl, Or.inl rfl⟩
  ntoks := rfl

/-- **The live state.**  For an error-free follow stream `data`: after `count nl data` trips the loop is
    still running; `data` splits into its newline-terminated part `C` and an unterminated rest; the
    lines scanned so far are exactly the lines of `C`. -/
theorem live_spec (source : String) (bufSize batchSize : Nat) (timer : Nat → Bool) (data : Bytes)
    (script : List Step) (hb : 1 ≤ bufSize) (hs : ∀ st ∈ script, st.err = none) :
    (live source bufSize batchSize timer data script).status = .running ∧
    ∃ C r, data = C ++ r ∧ nl ∉ r ∧ (C = [] ∨ C.getLast? = some nl) ∧
      (live source bufSize batchSize timer data script).toks.map (·.2) = splitLines C := by
  have hl := live_iterN (source := source) batchSize (budget data script) timer (completeLines data)
    (live_init bufSize batchSize data script hb hs) (by simp [completeLines])
  simp only [Nat.zero_add] at hl
  change Live data (budget data script) (live source bufSize batchSize timer data script) (completeLines data) at hl
  refine ⟨hl.run, ?_⟩
  obtain ⟨C, hinv, hbd, hc, hend⟩ := hl.at_line
  refine ⟨C, (live source bufSize batchSize timer data script).imm.pending ++
    (live source bufSize batchSize timer data script).imm.rd.rest, ?_, ?_, hend, ?_⟩
  · have := hl.stream
    rw [hinv.del] at this
    simpa [List.append_assoc] using this.symm
  · have hd : data = C ++ ((live source bufSize batchSize timer data script).imm.pending ++
        (live source bufSize batchSize timer data script).imm.rd.rest) := by
      have := hl.stream
      rw [hinv.del] at this
      simpa [List.append_assoc] using this.symm
    have hcount := congrArg (List.count nl) hd
    rw [List.count_append, hc] at hcount
    simp only [completeLines] at hcount
    exact List.count_eq_zero.mp (by omega)
  · have := hbd []
    simpa [splitLines, splitGo] using this.symm

end Rare.C15.Tail
