import Rare.Model.C06ErrTrace
namespace Rare.C06.ErrTrace

theorem laterRel_pos (rest : List TEv) (g : Nat) (h : laterRel rest g = true) :
    ∃ (k : Nat) (e : TEv), rest[k]? = some e ∧ e.kind = "rl" ∧ e.g = g := by
  unfold laterRel at h
  rw [List.any_eq_true] at h
  obtain ⟨e, he, hp⟩ := h
  obtain ⟨k, hk⟩ := List.mem_iff_getElem?.1 he
  simp only [Bool.and_eq_true, beq_iff_eq] at hp
  exact ⟨k, e, hk, hp.1, hp.2⟩

theorem checkFrom_rl (w : Nat) : ∀ (p : Nat) (tr : List TEv), checkFrom w p tr = true →
    ∀ k e, tr[k]? = some e → e.kind = "rl" → p + k < w
  | _, [], _, k, e, hk, _ => by simp at hk
  | p, x :: rest, h, k, e, hk, hr => by
    simp only [checkFrom, Bool.and_eq_true] at h
    cases k with
    | zero =>
      simp only [List.getElem?_cons_zero, Option.some.injEq] at hk
      subst hk
      have := h.1
      simp only [hr, beq_self_eq_true, if_true, decide_eq_true_eq] at this
      omega
    | succ k =>
      simp only [List.getElem?_cons_succ] at hk
      have := checkFrom_rl w (p + 1) rest h.2 k e hk hr
      omega

theorem checkFrom_se (w : Nat) : ∀ (p : Nat) (tr : List TEv), checkFrom w p tr = true →
    ∀ k e, tr[k]? = some e → e.kind = "se" → ∃ q r, k < q ∧ tr[q]? = some r ∧ r.kind = "rl" ∧ r.g = e.g ∧ p + q < w
  | _, [], _, k, e, hk, _ => by simp at hk
  | p, x :: rest, h, k, e, hk, hs => by
    have hall := h
    simp only [checkFrom, Bool.and_eq_true] at h
    cases k with
    | zero =>
      simp only [List.getElem?_cons_zero, Option.some.injEq] at hk
      subst hk
      have h1 := h.1
      have hne : (("se" : String) == "rl") = false := by decide
      simp only [hs, hne, Bool.false_eq_true, if_false, beq_self_eq_true, if_true] at h1
      obtain ⟨j, r, hj, hr, hg⟩ := laterRel_pos rest x.g h1
      refine ⟨j + 1, r, by omega, by simpa using hj, hr, hg, ?_⟩
      have := checkFrom_rl w (p + 1) rest h.2 j r hj hr
      omega
    | succ k =>
      simp only [List.getElem?_cons_succ] at hk
      obtain ⟨q, r, hq, hr, hk', hg, hlt⟩ := checkFrom_se w (p + 1) rest h.2 k e hk hs
      exact ⟨q + 1, r, by omega, by simpa using hr, hk', hg, by omega⟩

/-- **A log that passes the check has every error counted before the batch channel is closed**: each `se` entry is
    followed by the `rl` entry of the same goroutine, which precedes `cw`, which precedes `cc`. -/
theorem check_sound (tr : List TEv) (h : check tr = true) :
    ∃ w c, posOf tr "cw" = some w ∧ posOf tr "cc" = some c ∧ w < c ∧
      ∀ k e, tr[k]? = some e → e.kind = "se" →
        ∃ q r, k < q ∧ tr[q]? = some r ∧ r.kind = "rl" ∧ r.g = e.g ∧ q < w ∧ k < c := by
  unfold check at h
  cases hw : posOf tr "cw" with
  | none => simp [hw] at h
  | some w =>
    cases hc : posOf tr "cc" with
    | none => simp [hw, hc] at h
    | some c =>
      simp only [hw, hc, Bool.and_eq_true, decide_eq_true_eq] at h
      refine ⟨w, c, rfl, rfl, h.1, ?_⟩
      intro k e hk hs
      obtain ⟨q, r, hq, hr, hk', hg, hlt⟩ := checkFrom_se w 0 tr h.2 k e hk hs
      exact ⟨q, r, hq, hr, hk', hg, by omega, by omega⟩

end Rare.C06.ErrTrace
