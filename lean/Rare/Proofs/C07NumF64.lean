import Rare.Model.C07NumF64
import Rare.Proofs.F64Arith
import Rare.Proofs.C07Mode
/-!
C07, numerical aggregator over the software binary64 model (`Model/C07NumF64.lean`):
counting, min/max (IEEE comparisons, starting at `±Inf`), `Analyze` sorting with Go's
NaN-first order, nearest-rank `Median` / `Quantile`, `Mode`.  The arithmetic part (exact runs, mean between
min and max) is in `C07NumF64Arith.lean`.
-/
namespace Rare.C07
open Rare Rare.F64

/-! ### structure of a run -/

theorem samplef_parseErrors (keep : Bool) (s : NumF) (v : F64) : (NumF.samplef keep s v).parseErrors = s.parseErrors := rfl
theorem samplef_samples (keep : Bool) (s : NumF) (v : F64) : (NumF.samplef keep s v).samples = s.samples + 1 := rfl
theorem samplef_values (keep : Bool) (s : NumF) (v : F64) :
    (NumF.samplef keep s v).values = if keep then s.values ++ [v] else s.values := rfl
theorem samplef_min (keep : Bool) (s : NumF) (v : F64) :
    (NumF.samplef keep s v).min = if F64.lt v s.min then v else s.min := rfl
theorem samplef_max (keep : Bool) (s : NumF) (v : F64) :
    (NumF.samplef keep s v).max = if F64.lt s.max v then v else s.max := rfl

/-- `samplef` does not look at the parse-error counter. -/
theorem samplef_withErrors (keep : Bool) (s : NumF) (v : F64) (e : Nat) :
    NumF.samplef keep { s with parseErrors := e } v = { NumF.samplef keep s v with parseErrors := e } := rfl

theorem runF_eq_aux (keep : Bool) (h : List Bytes) : ∀ (s : NumF),
    h.foldl (NumF.sample keep) s =
      { (h.filterMap F64.parseFloat).foldl (NumF.samplef keep) s with
        parseErrors := s.parseErrors + h.countP (fun e => (F64.parseFloat e).isNone) } := by
  induction h with
  | nil => intro s; simp
  | cons e h ih =>
    intro s
    rw [List.foldl_cons, ih]
    cases hp : F64.parseFloat e with
    | none =>
      have e1 : NumF.sample keep s e = { s with parseErrors := s.parseErrors + 1 } := by
        unfold NumF.sample; rw [hp]
      rw [e1, List.filterMap_cons_none hp, List.countP_cons_of_pos (by simp [hp])]
      have : ∀ (l : List F64) (t : NumF) (n : Nat),
          l.foldl (NumF.samplef keep) { t with parseErrors := n } =
            { l.foldl (NumF.samplef keep) t with parseErrors := n } := by
        intro l
        induction l with
        | nil => intro t n; rfl
        | cons v l ih2 => intro t n; rw [List.foldl_cons, samplef_withErrors, ih2]; rfl
      rw [this]
      simp only [Numerical.mk.injEq, true_and, and_true]
      omega
    | some v =>
      have e1 : NumF.sample keep s e = NumF.samplef keep s v := by
        unfold NumF.sample; rw [hp]
      rw [e1, List.filterMap_cons_some hp, List.foldl_cons, samplef_parseErrors,
        List.countP_cons_of_neg (by simp [hp])]

/-- A history of raw strings is the `Samplef` run over the parsable ones, plus the count of the others. -/
theorem runF_eq (keep : Bool) (h : List Bytes) :
    runF keep h = { runFv keep (h.filterMap F64.parseFloat) with
                    parseErrors := h.countP (fun e => (F64.parseFloat e).isNone) } := by
  unfold runF runFv
  rw [runF_eq_aux]
  simp [NumF.new, Numerical.new]

theorem runFv_fold_samples (keep : Bool) (l : List F64) : ∀ s : NumF,
    (l.foldl (NumF.samplef keep) s).samples = s.samples + l.length ∧
    (l.foldl (NumF.samplef keep) s).parseErrors = s.parseErrors ∧
    (l.foldl (NumF.samplef keep) s).values = if keep then s.values ++ l else s.values := by
  induction l with
  | nil => intro s; cases keep <;> simp
  | cons v l ih =>
    intro s
    obtain ⟨a, b, c⟩ := ih (NumF.samplef keep s v)
    rw [List.foldl_cons, a, b, c, samplef_samples, samplef_parseErrors, samplef_values]
    refine ⟨by simp; omega, rfl, ?_⟩
    cases keep <;> simp

theorem runFv_samples (keep : Bool) (l : List F64) : (runFv keep l).samples = l.length := by
  have := (runFv_fold_samples keep l NumF.new).1
  simpa [runFv, NumF.new, Numerical.new] using this

theorem runFv_values (keep : Bool) (l : List F64) : (runFv keep l).values = if keep then l else [] := by
  have := (runFv_fold_samples keep l NumF.new).2.2
  simpa [runFv, NumF.new, Numerical.new] using this

theorem runFv_parseErrors (keep : Bool) (l : List F64) : (runFv keep l).parseErrors = 0 :=
  (runFv_fold_samples keep l NumF.new).2.1

/-! ### the order: everything is a comparison of integer keys -/

theorem lt_iff_key (x y : F64) : F64.lt x y = true ↔ x.isNaN = false ∧ y.isNaN = false ∧ x.key < y.key := by
  unfold F64.lt; simp [and_assoc]

theorem le_iff_key (x y : F64) : F64.le x y = true ↔ x.isNaN = false ∧ y.isNaN = false ∧ x.key ≤ y.key := by
  unfold F64.le; simp [and_assoc]

theorem eq_iff_key (x y : F64) : F64.eq x y = true ↔ x.isNaN = false ∧ y.isNaN = false ∧ x.key = y.key := by
  unfold F64.eq; simp [and_assoc]

theorem key_bounds (x : F64) : -(P63 : Int) < x.key ∧ x.key < (P63 : Int) := by
  have := mag_lt x
  unfold key; split <;> omega

/-- Sort key of Go's float order: NaN below everything. -/
def skey (x : F64) : Int := if x.isNaN then -(P64 : Int) else x.key

theorem goLess_iff (x y : F64) : goLess x y = true ↔ skey x < skey y := by
  have bx := key_bounds x
  have b := key_bounds y
  unfold goLess skey
  cases hx : x.isNaN <;> cases hy : y.isNaN <;> simp [lt_iff_key, hx, hy] <;> omega

theorem goLess_false_iff (x y : F64) : goLess x y = false ↔ skey y ≤ skey x := by
  have := goLess_iff x y
  cases h : goLess x y
  · simp only [true_iff]; rw [h] at this; simp at this; omega
  · simp only [Bool.true_eq_false, false_iff]; rw [h] at this; simp at this; omega

theorem sameF_iff (x y : F64) : sameF x y = true ↔ skey x = skey y := by
  have bx := key_bounds x
  have b := key_bounds y
  unfold sameF skey
  cases hx : x.isNaN <;> cases hy : y.isNaN <;> simp [eq_iff_key, hx, hy] <;> omega

theorem isNaN_posInf : posInf.isNaN = false := by decide
theorem isNaN_negInf : negInf.isNaN = false := by decide

/-! ### Min / Max -/

/-- Invariant-style description of the running minimum / maximum after a fold. -/
theorem minmax_fold (keep : Bool) (l : List F64) : ∀ (s : NumF), s.min.isNaN = false → s.max.isNaN = false →
    let r := l.foldl (NumF.samplef keep) s
    r.min.isNaN = false ∧ r.max.isNaN = false ∧
    (r.min = s.min ∨ r.min ∈ l) ∧ F64.le r.min s.min = true ∧
    (∀ y ∈ l, y.isNaN = false → F64.le r.min y = true) ∧
    ((∃ y ∈ l, F64.lt y s.min = true) → r.min ∈ l) ∧
    (r.max = s.max ∨ r.max ∈ l) ∧ F64.le s.max r.max = true ∧
    (∀ y ∈ l, y.isNaN = false → F64.le y r.max = true) ∧
    ((∃ y ∈ l, F64.lt s.max y = true) → r.max ∈ l) := by
  induction l with
  | nil =>
    intro s h1 h2
    simp [le_iff_key, h1, h2]
  | cons x l ih =>
    intro s h1 h2
    have hmn : (NumF.samplef keep s x).min.isNaN = false := by
      rw [samplef_min]; split
      · rename_i h; exact ((lt_iff_key _ _).mp h).1
      · exact h1
    have hmx : (NumF.samplef keep s x).max.isNaN = false := by
      rw [samplef_max]; split
      · rename_i h; exact ((lt_iff_key _ _).mp h).2.1
      · exact h2
    have h := ih (NumF.samplef keep s x) hmn hmx
    simp only [List.foldl_cons, List.mem_cons, forall_eq_or_imp] at h ⊢
    generalize (l.foldl (NumF.samplef keep) (NumF.samplef keep s x)) = r at h ⊢
    rw [samplef_min, samplef_max] at h
    obtain ⟨a1, a2, a3, a4, a5, a6, a7, a8, a9, a10⟩ := h
    have rn := a1
    have rx := a2
    refine ⟨a1, a2, ?_, ?_, ⟨?_, a5⟩, ?_, ?_, ?_, ⟨?_, a9⟩, ?_⟩
    · -- r.min = s.min ∨ r.min = x ∨ r.min ∈ l
      split at a3
      · rcases a3 with e | e
        · exact Or.inr (Or.inl e)
        · exact Or.inr (Or.inr e)
      · rcases a3 with e | e
        · exact Or.inl e
        · exact Or.inr (Or.inr e)
    · split at a4
      · rename_i hlt
        rw [le_iff_key] at a4 ⊢; rw [lt_iff_key] at hlt
        exact ⟨a4.1, h1, by omega⟩
      · exact a4
    · intro hx
      split at a4
      · exact a4
      · rename_i hlt
        rw [le_iff_key] at a4 ⊢
        have : ¬ (x.key < s.min.key) := by
          intro hk; exact hlt ((lt_iff_key _ _).mpr ⟨hx, h1, hk⟩)
        exact ⟨a4.1, hx, by omega⟩
    · -- some element below the old minimum
      intro hex
      by_cases hlt : F64.lt x s.min = true
      · rw [if_pos hlt] at a3 a6
        rcases a3 with e | e
        · exact Or.inl e
        · exact Or.inr e
      · rw [if_neg hlt] at a3 a6
        obtain ⟨y, hy, hys⟩ := hex
        rcases hy with rfl | hy
        · exact absurd hys hlt
        · exact Or.inr (a6 ⟨y, hy, hys⟩)
    · split at a7
      · rcases a7 with e | e
        · exact Or.inr (Or.inl e)
        · exact Or.inr (Or.inr e)
      · rcases a7 with e | e
        · exact Or.inl e
        · exact Or.inr (Or.inr e)
    · split at a8
      · rename_i hlt
        rw [le_iff_key] at a8 ⊢; rw [lt_iff_key] at hlt
        exact ⟨h2, a8.2.1, by omega⟩
      · exact a8
    · intro hx
      split at a8
      · exact a8
      · rename_i hlt
        rw [le_iff_key] at a8 ⊢
        have : ¬ (s.max.key < x.key) := by
          intro hk; exact hlt ((lt_iff_key _ _).mpr ⟨h2, hx, hk⟩)
        exact ⟨hx, a8.2.1, by omega⟩
    · intro hex
      by_cases hlt : F64.lt s.max x = true
      · rw [if_pos hlt] at a7 a10
        rcases a7 with e | e
        · exact Or.inl e
        · exact Or.inr e
      · rw [if_neg hlt] at a7 a10
        obtain ⟨y, hy, hys⟩ := hex
        rcases hy with rfl | hy
        · exact absurd hys hlt
        · exact Or.inr (a10 ⟨y, hy, hys⟩)

/-! ### Analyze: the sort -/

theorem analyzeF_perm (rev : Bool) (l : List F64) : (analyzeF rev l).Perm l := by
  unfold analyzeF analyze; split <;> exact List.mergeSort_perm _ _

theorem analyzeF_length (rev : Bool) (l : List F64) : (analyzeF rev l).length = l.length :=
  (analyzeF_perm rev l).length_eq

theorem analyzeF_sorted (rev : Bool) (l : List F64) : IsSortedF rev (analyzeF rev l) l := by
  refine ⟨analyzeF_perm rev l, ?_⟩
  cases rev with
  | false =>
    have := List.pairwise_mergeSort (le := fun (a b : F64) => !goLess b a)
      (by
        intro a b c h1 h2
        simp only [Bool.not_eq_true', goLess_false_iff] at h1 h2 ⊢
        omega)
      (by
        intro a b
        cases h : goLess b a <;> simp
        have := (goLess_iff b a).mp h
        rw [goLess_false_iff]; omega) l
    simp only [analyzeF, analyze, f64SortOps, Bool.false_eq_true, if_false]
    exact this.imp (by intro a b h; simpa using h)
  | true =>
    have := List.pairwise_mergeSort (le := fun (a b : F64) => !goLess a b)
      (by
        intro a b c h1 h2
        simp only [Bool.not_eq_true', goLess_false_iff] at h1 h2 ⊢
        omega)
      (by
        intro a b
        cases h : goLess a b <;> simp
        have := (goLess_iff a b).mp h
        rw [goLess_false_iff]; omega) l
    simp only [analyzeF, analyze, f64SortOps, if_true]
    exact this.imp (by intro a b h; simpa using h)

/-- The sort keys of a sorted arrangement are determined by the multiset. -/
theorem sorted_skey_eq (rev : Bool) (s s' l : List F64) (h : IsSortedF rev s l) (h' : IsSortedF rev s' l) :
    s.map skey = s'.map skey := by
  have hp : (s.map skey).Perm (s'.map skey) := (h.1.trans h'.1.symm).map skey
  cases rev with
  | false =>
    have p1 : (s.map skey).Pairwise (fun a b => a ≤ b) := by
      rw [List.pairwise_map]
      exact h.2.imp (by intro a b hh; simp only [Bool.false_eq_true, if_false] at hh; exact (goLess_false_iff _ _).mp hh)
    have p2 : (s'.map skey).Pairwise (fun a b => a ≤ b) := by
      rw [List.pairwise_map]
      exact h'.2.imp (by intro a b hh; simp only [Bool.false_eq_true, if_false] at hh; exact (goLess_false_iff _ _).mp hh)
    exact List.Perm.eq_of_pairwise (fun a b _ _ h1 h2 => by omega) p1 p2 hp
  | true =>
    have p1 : (s.map skey).Pairwise (fun a b => b ≤ a) := by
      rw [List.pairwise_map]
      exact h.2.imp (by intro a b hh; simp only [if_true] at hh; exact (goLess_false_iff _ _).mp hh)
    have p2 : (s'.map skey).Pairwise (fun a b => b ≤ a) := by
      rw [List.pairwise_map]
      exact h'.2.imp (by intro a b hh; simp only [if_true] at hh; exact (goLess_false_iff _ _).mp hh)
    exact List.Perm.eq_of_pairwise (fun a b _ _ h1 h2 => by omega) p1 p2 hp

/-- Rank `k` of the sorted samples is well defined up to the sign of zero / identity of NaN, whatever
(unstable) sorting algorithm produced the arrangement. -/
theorem rank_unique (rev : Bool) (s s' l : List F64) (h : IsSortedF rev s l) (h' : IsSortedF rev s' l)
    (k : Nat) (x x' : F64) (hx : s[k]? = some x) (hx' : s'[k]? = some x') : sameF x x' = true := by
  have e := sorted_skey_eq rev s s' l h h'
  have e1 : (s.map skey)[k]? = some (skey x) := by rw [List.getElem?_map, hx]; rfl
  have e2 : (s'.map skey)[k]? = some (skey x') := by rw [List.getElem?_map, hx']; rfl
  rw [e, e2] at e1
  rw [sameF_iff]
  exact (Option.some.inj e1).symm

/-- In a sorted arrangement the elements before index `k` are not greater, those after not smaller. -/
theorem sorted_rank_bounds (rev : Bool) (s l : List F64) (h : IsSortedF rev s l) (i j : Nat) (hij : i < j)
    (x y : F64) (hx : s[i]? = some x) (hy : s[j]? = some y) :
    if rev then skey y ≤ skey x else skey x ≤ skey y := by
  have hj : j < s.length := by
    rcases Nat.lt_or_ge j s.length with h1 | h1
    · exact h1
    · rw [List.getElem?_eq_none h1] at hy; cases hy
  have hi : i < s.length := by omega
  rw [List.getElem?_eq_getElem hi] at hx
  rw [List.getElem?_eq_getElem hj] at hy
  cases hx; cases hy
  have := List.pairwise_iff_getElem.mp h.2 i j hi hj hij
  cases rev
  · simp only [Bool.false_eq_true, if_false] at this ⊢; exact (goLess_false_iff _ _).mp this
  · simp only [if_true] at this ⊢; exact (goLess_false_iff _ _).mp this

/-! ### Median / Quantile -/

theorem medianF_eq (s : List F64) (hne : s ≠ []) :
    ∃ x, s[s.length / 2]? = some x ∧ medianF s = x := by
  have hpos : 0 < s.length := List.length_pos_iff.mpr hne
  have hlt : s.length / 2 < s.length := by omega
  refine ⟨s[s.length / 2], List.getElem?_eq_getElem hlt, ?_⟩
  unfold medianF median
  rw [if_neg (by omega), List.getElem?_eq_getElem hlt]; rfl

theorem medianF_nil : medianF [] = F64.zero false := rfl

/-- The clamps of `Quantile`. -/
def clampIdx (n : Nat) (idx : Int) : Nat :=
  (if (if idx ≥ (n : Int) then (n : Int) - 1 else idx) < 0 then 0
   else (if idx ≥ (n : Int) then (n : Int) - 1 else idx)).toNat

theorem clampIdx_lt (n : Nat) (hn : 0 < n) (idx : Int) : clampIdx n idx < n := by
  unfold clampIdx; split <;> split <;> omega

theorem clampIdx_inside (n : Nat) (idx : Int) (h0 : 0 ≤ idx) (h1 : idx < n) : clampIdx n idx = idx.toNat := by
  have e : (if idx ≥ (n : Int) then (n : Int) - 1 else idx) = idx := if_neg (by omega)
  unfold clampIdx; rw [e, if_neg (by omega)]

theorem clampIdx_high (n : Nat) (idx : Int) (h1 : (n : Int) ≤ idx) : clampIdx n idx = n - 1 := by
  unfold clampIdx; rw [if_pos h1]; split <;> omega

theorem clampIdx_low (n : Nat) (idx : Int) (h0 : idx < 0) : clampIdx n idx = 0 := by
  have e : (if idx ≥ (n : Int) then (n : Int) - 1 else idx) = idx := if_neg (by omega)
  unfold clampIdx; rw [e, if_pos h0]; rfl

theorem quantileAtF_ok (s : List F64) (hs : 0 < s.length) (idx : Int) :
    ∃ x, s[clampIdx s.length idx]? = some x ∧ quantileAt (F64.zero false) s idx = .ok x := by
  have hlt := clampIdx_lt s.length hs idx
  refine ⟨s[clampIdx s.length idx], List.getElem?_eq_getElem hlt, ?_⟩
  unfold quantileAt
  rw [if_neg (by omega)]
  simp only []
  have e : s[(if (if idx ≥ (s.length : Int) then (s.length : Int) - 1 else idx) < 0 then 0
      else (if idx ≥ (s.length : Int) then (s.length : Int) - 1 else idx)).toNat]? = some s[clampIdx s.length idx] :=
    List.getElem?_eq_getElem hlt
  rw [e]

theorem quantileF_ok (s : List F64) (hs : 0 < s.length) (p : F64) :
    ∃ x, s[clampIdx s.length (quantileIdx s.length p)]? = some x ∧ quantileF s p = .ok x :=
  quantileAtF_ok s hs _

theorem quantileF_nil (p : F64) : quantileF [] p = .ok (F64.zero false) := rfl

/-! ### the index `int(float64(n) * p)` -/

theorem finite_of_between {a x b : F64} (ha : a.isFinite = true) (hb : b.isFinite = true)
    (h1 : F64.le a x = true) (h2 : F64.le x b = true) : x.isFinite = true := by
  rw [le_iff_key] at h1 h2
  rw [isFinite_iff] at ha hb ⊢
  have ka : a.key = if a.sign then -(a.mag : Int) else a.mag := rfl
  have kb : b.key = if b.sign then -(b.mag : Int) else b.mag := rfl
  have kx : x.key = if x.sign then -(x.mag : Int) else x.mag := rfl
  split at ka <;> split at kb <;> split at kx <;> omega

theorem truncRat_nonneg {q : Rat} (h : 0 ≤ q) : truncRat q = q.floor := by
  unfold truncRat; rw [if_neg (by grind)]

/-- For a probability `0 ≤ p ≤ 1` and at most `2^53` samples the raw index is within `[0, n]`: only the
upper clamp can ever act, and only when the rounded product `n·p` reaches `n`. -/
theorem quantileIdx_bounds (n : Nat) (hn : n ≤ P53) (p : F64) (hp : p.isFinite = true)
    (h0 : 0 ≤ p.toRat) (h1 : p.toRat ≤ 1) :
    0 ≤ quantileIdx n p ∧ quantileIdx n p ≤ n ∧
    quantileIdx n p = (F64.ofRatS ((F64.ofInt n).sign != p.sign) ((n : Rat) * p.toRat)).toRat.floor := by
  obtain ⟨nf, nv⟩ := isFinite_ofInt (n : Int) (by omega)
  have nv' : (F64.ofInt (n : Int)).toRat = (n : Rat) := by rw [nv, Rat.intCast_natCast]
  have hprod : F64.mul (F64.ofInt (n : Int)) p = F64.ofRatS ((F64.ofInt n).sign != p.sign) ((n : Rat) * p.toRat) := by
    rw [mul_finite nf hp, nv']
  generalize hr : F64.ofRatS ((F64.ofInt n).sign != p.sign) ((n : Rat) * p.toRat) = r at hprod
  have hn0 : (0 : Rat) ≤ (n : Rat) := by exact_mod_cast Nat.zero_le n
  have q0 : (0 : Rat) ≤ (n : Rat) * p.toRat := Rat.mul_nonneg hn0 h0
  have q1 : (n : Rat) * p.toRat ≤ (n : Rat) := by
    have := Rat.mul_le_mul_of_nonneg_left h1 hn0
    rwa [Rat.mul_one] at this
  have zrep := ofRatS_rep false rep_zero
  have nrep := ofRatS_rep false (rep_int (n := (n : Int)) (by omega))
  have l1 : F64.le (F64.ofRatS false 0) r = true := by rw [← hr]; exact ofRatS_le_ofRatS _ _ q0
  have l2 : F64.le r (F64.ofRatS false ((n : Int) : Rat)) = true := by
    rw [← hr]; exact ofRatS_le_ofRatS _ _ (by rw [Rat.intCast_natCast]; exact q1)
  have rf : r.isFinite = true := finite_of_between zrep.1 nrep.1 l1 l2
  have v0 : 0 ≤ r.toRat := by
    have := (le_iff_toRat_le zrep.1 rf).mp l1; rwa [zrep.2] at this
  have v1 : r.toRat ≤ (n : Rat) := by
    have := (le_iff_toRat_le rf nrep.1).mp l2; rw [nrep.2, Rat.intCast_natCast] at this; exact this
  have f0 : 0 ≤ r.toRat.floor := by rw [Rat.le_floor_iff]; simpa using v0
  have f1 : r.toRat.floor ≤ (n : Int) := by
    have : ((r.toRat.floor : Int) : Rat) ≤ r.toRat := Rat.floor_le _
    have : ((r.toRat.floor : Int) : Rat) ≤ ((n : Int) : Rat) := by
      rw [Rat.intCast_natCast]; grind
    exact Rat.intCast_le_intCast.mp this
  have hidx : quantileIdx n p = r.toRat.floor := by
    unfold quantileIdx
    rw [hprod]
    unfold F64.toInt64
    rw [rf, truncRat_nonneg v0]
    have : ¬ ((r.toRat.floor < minInt64 || maxInt64 < r.toRat.floor) = true) := by
      simp only [Bool.or_eq_true, decide_eq_true_eq, not_or]
      unfold minInt64 maxInt64
      omega
    simp [this]
  exact ⟨by rw [hidx]; exact f0, by rw [hidx]; exact f1, hidx⟩

/-! ### Mode -/

/-- One iteration of the loop in `Mode()`. -/
def modeStepG {α : Type} (eq : α → α → Bool) (st : ModeState α) (val : α) : ModeState α :=
  let st := if !eq val st.currValue then { st with currValue := val, currObserved := 0 } else st
  let st := { st with currObserved := st.currObserved + 1 }
  if st.currObserved > st.maxObserved then { st with maxValue := st.currValue, maxObserved := st.currObserved } else st

theorem mode_eq_foldG {α : Type} (z : α) (eq : α → α → Bool) (s : List α) :
    mode z eq s = (s.foldl (modeStepG eq) ⟨0, z, 0, z⟩).maxValue := rfl

def mapState {α β : Type} (f : α → β) (st : ModeState α) : ModeState β :=
  ⟨st.maxObserved, f st.maxValue, st.currObserved, f st.currValue⟩

theorem modeStepG_map {α β : Type} (f : α → β) (eqa : α → α → Bool) (eqb : β → β → Bool)
    (st : ModeState α) (v : α) (h : eqb (f v) (f st.currValue) = eqa v st.currValue) :
    mapState f (modeStepG eqa st v) = modeStepG eqb (mapState f st) (f v) := by
  unfold modeStepG mapState
  simp only [h]
  cases eqa v st.currValue <;> simp <;> split <;> rfl

theorem modeStepG_curr {α : Type} (eq : α → α → Bool) (st : ModeState α) (v : α) :
    (modeStepG eq st v).currValue = v ∨ (modeStepG eq st v).currValue = st.currValue := by
  unfold modeStepG
  cases eq v st.currValue <;> simp <;> split <;> simp

theorem mode_fold_map {α β : Type} (f : α → β) (eqa : α → α → Bool) (eqb : β → β → Bool) (L : List α) (z : α)
    (h : ∀ a ∈ L, ∀ b, (b ∈ L ∨ b = z) → eqb (f a) (f b) = eqa a b) (l : List α) :
    ∀ st : ModeState α, (∀ a ∈ l, a ∈ L) → (st.currValue ∈ L ∨ st.currValue = z) →
      mapState f (l.foldl (modeStepG eqa) st) = (l.map f).foldl (modeStepG eqb) (mapState f st) := by
  induction l with
  | nil => intro st _ _; rfl
  | cons v l ih =>
    intro st hl hc
    have hv : v ∈ L := hl v (by simp)
    rw [List.foldl_cons, List.map_cons, List.foldl_cons,
      ih _ (fun a ha => hl a (by simp [ha])) ?_, modeStepG_map f eqa eqb st v (h v hv _ hc)]
    rcases modeStepG_curr eqa st v with e | e
    · rw [e]; exact Or.inl hv
    · rw [e]; exact hc

/-- `Mode` commutes with any map under which the equality tests agree. -/
theorem mode_map {α β : Type} (f : α → β) (z : α) (eqa : α → α → Bool) (eqb : β → β → Bool) (l : List α)
    (h : ∀ a ∈ l, ∀ b, (b ∈ l ∨ b = z) → eqb (f a) (f b) = eqa a b) :
    f (mode z eqa l) = mode (f z) eqb (l.map f) := by
  rw [mode_eq_foldG, mode_eq_foldG]
  have := mode_fold_map f eqa eqb l z h l ⟨0, z, 0, z⟩ (fun a ha => ha) (Or.inr rfl)
  have e : mapState f (⟨0, z, 0, z⟩ : ModeState α) = ⟨0, f z, 0, f z⟩ := rfl
  rw [e] at this
  rw [← this]; rfl

def keyQ (x : F64) : Rat := ((x.key : Int) : Rat)

theorem keyQ_eq_iff (x y : F64) : keyQ x = keyQ y ↔ x.key = y.key := by
  unfold keyQ; exact Rat.intCast_inj

theorem keyQ_le_iff (x y : F64) : keyQ x ≤ keyQ y ↔ x.key ≤ y.key := by
  unfold keyQ; exact Rat.intCast_le_intCast

theorem skey_of_not_nan {x : F64} (h : x.isNaN = false) : skey x = x.key := by
  unfold skey; rw [h]; rfl

theorem count_map_keyQ (s : List F64) (hn : ∀ x ∈ s, x.isNaN = false) (y : F64) (hy : y.isNaN = false) :
    (s.map keyQ).count (keyQ y) = s.countP (fun x => F64.eq y x) := by
  rw [List.count_eq_countP, List.countP_map]
  apply List.countP_congr
  intro x hx
  simp only [Function.comp, beq_iff_eq, keyQ_eq_iff, eq_iff_key, hy, hn x hx, true_and]
  exact ⟨fun e => e.symm, fun e => e.symm⟩

/-- `Mode()` on a NaN-free sorted arrangement `s`: a value whose multiplicity (counted with the IEEE `==`,
so `-0` and `+0` are one value) is maximal, and among several such values the first in the sort order. -/
theorem modeF_scan (rev : Bool) (s l : List F64) (hs : IsSortedF rev s l) (hne : l ≠ [])
    (hn : ∀ x ∈ l, x.isNaN = false) :
    let m := modeF s
    m.isNaN = false ∧ (∃ x ∈ l, F64.eq m x = true) ∧
    (∀ y, l.countP (fun x => F64.eq y x) ≤ l.countP (fun x => F64.eq m x)) ∧
    (∀ y ∈ l, l.countP (fun x => F64.eq y x) = l.countP (fun x => F64.eq m x) → F64.eq y m = false →
      (if rev then F64.lt y m else F64.lt m y) = true) := by
  intro m
  have hns : ∀ x ∈ s, x.isNaN = false := fun x hx => hn x (hs.1.mem_iff.mp hx)
  have hz : (F64.zero false).isNaN = false := by decide
  have hsne : s ≠ [] := by
    intro e; rw [e] at hs; exact hne hs.1.symm.eq_nil
  -- transfer to the keys
  have hmap : keyQ m = mode (keyQ (F64.zero false)) (fun a b => decide (a = b)) (s.map keyQ) := by
    apply mode_map keyQ (F64.zero false) F64.eq (fun a b => decide (a = b)) s
    intro a ha b hb
    have hbn : b.isNaN = false := by
      rcases hb with hb | hb
      · exact hns b hb
      · rw [hb]; exact hz
    have := eq_iff_key a b
    rw [hns a ha, hbn] at this
    simp only [true_and] at this
    by_cases hk : a.key = b.key
    · rw [this.mpr hk]; simp [keyQ_eq_iff, hk]
    · have : F64.eq a b = false := by
        cases h : F64.eq a b
        · rfl
        · exact absurd (this.mp h) hk
      rw [this]; simp [keyQ_eq_iff, hk]
  have hz0 : keyQ (F64.zero false) = 0 := by
    have : (F64.zero false).key = 0 := by decide
    unfold keyQ; rw [this]; rfl
  rw [hz0] at hmap
  have hsorted : (s.map keyQ).Pairwise (fun a b => if rev then b ≤ a else a ≤ b) := by
    rw [List.pairwise_map]
    have := List.Pairwise.and_mem.mp hs.2
    refine this.imp ?_
    intro a b ⟨ha, hb, hh⟩
    cases rev
    · simp only [Bool.false_eq_true, if_false] at hh ⊢
      rw [goLess_false_iff, skey_of_not_nan (hns a ha), skey_of_not_nan (hns b hb)] at hh
      exact (keyQ_le_iff _ _).mpr hh
    · simp only [if_true] at hh ⊢
      rw [goLess_false_iff, skey_of_not_nan (hns a ha), skey_of_not_nan (hns b hb)] at hh
      exact (keyQ_le_iff _ _).mpr hh
  have hanti : ∀ a b : Rat, (if rev then b ≤ a else a ≤ b) → (if rev then a ≤ b else b ≤ a) → a = b := by
    intro a b h1 h2
    cases rev
    · exact Rat.le_antisymm h1 h2
    · exact Rat.le_antisymm h2 h1
  obtain ⟨hm, hb, ht⟩ := mode_scan (fun a b => if rev then b ≤ a else a ≤ b) hanti (s.map keyQ)
    (by simpa using hsne) hsorted
  rw [← hmap] at hm hb ht
  obtain ⟨x, hxs, hxk⟩ := List.mem_map.mp hm
  have hxn := hns x hxs
  -- is `m` NaN?  its key equals the key of a sample; NaN patterns have their own keys
  have hmn : m.isNaN = false := by
    -- `m` is the initial zero or one of the scanned values
    have : ∀ (q : List F64) (st : ModeState F64), (∀ a ∈ q, a.isNaN = false) → st.maxValue.isNaN = false →
        st.currValue.isNaN = false → (q.foldl (modeStepG F64.eq) st).maxValue.isNaN = false := by
      intro q
      induction q with
      | nil => intro st _ h1 _; exact h1
      | cons v q ih =>
        intro st hq h1 h2
        rw [List.foldl_cons]
        have hv := hq v (by simp)
        have hc : (modeStepG F64.eq st v).currValue.isNaN = false := by
          rcases modeStepG_curr F64.eq st v with e | e <;> rw [e] <;> assumption
        apply ih _ (fun a ha => hq a (by simp [ha])) _ hc
        unfold modeStepG
        cases F64.eq v st.currValue <;> simp <;> split <;> simp [*]
    exact this s ⟨0, F64.zero false, 0, F64.zero false⟩ hns hz hz
  have hcnt : ∀ y : F64, y.isNaN = false → (s.map keyQ).count (keyQ y) = l.countP (fun x => F64.eq y x) := by
    intro y hy
    rw [count_map_keyQ s hns y hy]; exact hs.1.countP_eq _
  refine ⟨hmn, ⟨x, hs.1.mem_iff.mp hxs, ?_⟩, ?_, ?_⟩
  · rw [eq_iff_key]; exact ⟨hmn, hxn, ((keyQ_eq_iff _ _).mp hxk).symm⟩
  · intro y
    cases hy : y.isNaN
    · rw [← hcnt y hy, ← hcnt m hmn]; exact hb _
    · have : l.countP (fun x => F64.eq y x) = 0 := by
        rw [List.countP_eq_zero]
        intro a _
        simp [eq_iff_key, hy]
      omega
  · intro y hyl hc hne2
    have hy := hn y hyl
    rw [← hcnt y hy, ← hcnt m hmn] at hc
    have hk : y.key ≠ m.key := by
      intro e
      have := (eq_iff_key y m).mpr ⟨hy, hmn, e⟩
      rw [this] at hne2; cases hne2
    have := ht (keyQ y) hc (fun e => hk ((keyQ_eq_iff _ _).mp e))
    cases rev
    · simp only [Bool.false_eq_true, if_false] at this ⊢
      rw [lt_iff_key]; refine ⟨hmn, hy, ?_⟩
      have := (keyQ_le_iff _ _).mp this
      omega
    · simp only [if_true] at this ⊢
      rw [lt_iff_key]; refine ⟨hy, hmn, ?_⟩
      have := (keyQ_le_iff _ _).mp this
      omega

/-! ### Min / Max of finite samples are samples -/

/-- Non-NaN floats with the same non-zero key are the same pattern. -/
theorem eq_of_key_eq {x y : F64} (h : x.key = y.key) (hne : x.key ≠ 0) : x = y := by
  have hx := ofSM_sign_mag x
  have hy := ofSM_sign_mag y
  have mx := mag_lt x
  have my := mag_lt y
  unfold key at h hne
  cases sx : x.sign <;> cases sy : y.sign <;> rw [sx] at h hne hx <;> rw [sy] at h hy <;>
    simp only [Bool.false_eq_true, if_false, if_true] at h hne
  · have : x.mag = y.mag := by omega
    rw [← hx, ← hy, this]
  · omega
  · omega
  · have : x.mag = y.mag := by omega
    rw [← hx, ← hy, this]

theorem min_unchanged (keep : Bool) (l : List F64) : ∀ s : NumF, (∀ y ∈ l, F64.lt y s.min = false) →
    (l.foldl (NumF.samplef keep) s).min = s.min := by
  induction l with
  | nil => intro s _; rfl
  | cons x l ih =>
    intro s h
    have hx := h x (by simp)
    have e : (NumF.samplef keep s x).min = s.min := by rw [samplef_min, hx]; rfl
    rw [List.foldl_cons, ih _ (fun y hy => by rw [e]; exact h y (by simp [hy])), e]

theorem max_unchanged (keep : Bool) (l : List F64) : ∀ s : NumF, (∀ y ∈ l, F64.lt s.max y = false) →
    (l.foldl (NumF.samplef keep) s).max = s.max := by
  induction l with
  | nil => intro s _; rfl
  | cons x l ih =>
    intro s h
    have hx := h x (by simp)
    have e : (NumF.samplef keep s x).max = s.max := by rw [samplef_max, hx]; rfl
    rw [List.foldl_cons, ih _ (fun y hy => by rw [e]; exact h y (by simp [hy])), e]

theorem key_posInf : posInf.key = 9218868437227405312 := by decide
theorem key_negInf : negInf.key = -9218868437227405312 := by decide

theorem finite_key_bounds {x : F64} (h : x.isFinite = true) :
    -9218868437227405311 ≤ x.key ∧ x.key ≤ 9218868437227405311 := by
  rw [isFinite_iff] at h
  unfold key; split <;> omega

theorem not_nan_key_bounds {x : F64} (h : x.isNaN = false) :
    -9218868437227405312 ≤ x.key ∧ x.key ≤ 9218868437227405312 := by
  simp [isNaN] at h
  unfold key; split <;> omega

/-- As soon as one sample is not NaN, `Min()` / `Max()` are samples. -/
theorem minmax_mem (keep : Bool) (l : List F64) (hex : ∃ x ∈ l, x.isNaN = false) :
    (runFv keep l).min ∈ l ∧ (runFv keep l).max ∈ l := by
  have mm := minmax_fold keep l NumF.new isNaN_posInf isNaN_negInf
  simp only [] at mm
  obtain ⟨_, _, _, _, _, a6, _, _, _, a10⟩ := mm
  have e1 : NumF.new.min = posInf := rfl
  have e2 : NumF.new.max = negInf := rfl
  rw [e1] at a6; rw [e2] at a10
  obtain ⟨x, hx, hxn⟩ := hex
  have hb := not_nan_key_bounds hxn
  refine ⟨?_, ?_⟩
  · by_cases hlt : ∃ y ∈ l, F64.lt y posInf = true
    · exact a6 hlt
    · have hall : ∀ y ∈ l, F64.lt y NumF.new.min = false := by
        intro y hy
        cases h : F64.lt y NumF.new.min
        · rfl
        · exact absurd ⟨y, hy, h⟩ hlt
      have hmin : (runFv keep l).min = posInf := min_unchanged keep l NumF.new hall
      have hx2 := hall x hx
      rw [e1] at hx2
      have : ¬ (x.key < posInf.key) := by
        intro hk2
        have := (lt_iff_key x posInf).mpr ⟨hxn, isNaN_posInf, hk2⟩
        rw [this] at hx2; cases hx2
      rw [key_posInf] at this
      have hyk : x.key = posInf.key := by rw [key_posInf]; omega
      have : x = posInf := eq_of_key_eq hyk (by rw [hyk, key_posInf]; decide)
      rw [hmin, ← this]; exact hx
  · by_cases hlt : ∃ y ∈ l, F64.lt negInf y = true
    · exact a10 hlt
    · have hall : ∀ y ∈ l, F64.lt NumF.new.max y = false := by
        intro y hy
        cases h : F64.lt NumF.new.max y
        · rfl
        · exact absurd ⟨y, hy, h⟩ hlt
      have hmax : (runFv keep l).max = negInf := max_unchanged keep l NumF.new hall
      have hx2 := hall x hx
      rw [e2] at hx2
      have : ¬ (negInf.key < x.key) := by
        intro hk2
        have := (lt_iff_key negInf x).mpr ⟨isNaN_negInf, hxn, hk2⟩
        rw [this] at hx2; cases hx2
      rw [key_negInf] at this
      have hyk : x.key = negInf.key := by rw [key_negInf]; omega
      have : x = negInf := eq_of_key_eq hyk (by rw [hyk, key_negInf]; decide)
      rw [hmax, ← this]; exact hx

theorem length_filterMap_add_countP {α β : Type} (f : α → Option β) (l : List α) :
    (l.filterMap f).length + l.countP (fun e => (f e).isNone) = l.length := by
  induction l with
  | nil => rfl
  | cons x l ih =>
    cases h : f x with
    | none => rw [List.filterMap_cons_none h, List.countP_cons_of_pos (by simp [h])]; simp; omega
    | some v => rw [List.filterMap_cons_some h, List.countP_cons_of_neg (by simp [h])]; simp; omega

end Rare.C07
