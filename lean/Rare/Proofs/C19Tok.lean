import Rare.Proofs.C19Lit
/-!
C19: the tokenizer's operator recognition is longest match (`prefixInOps`).
-/
namespace Rare.C19

theorem opKeys_len : (opKeys.all fun k => k.length == 1 || k.length == 2) = true := by decide

theorem opKey_len {k : Bytes} (h : k ∈ opKeys) : k.length = 1 ∨ k.length = 2 := by
  have := List.all_eq_true.mp opKeys_len k h
  simpa using this

/-- `prefixInOps s` is the LONGEST binary operator that `s` starts with (`none` iff there is none). -/
theorem prefixInOps_longest (s : Bytes) :
    (∀ k, prefixInOps s = some k → k ∈ opKeys ∧ k <+: s ∧ ∀ k' ∈ opKeys, k' <+: s → k'.length ≤ k.length) ∧
    (prefixInOps s = none → ∀ k' ∈ opKeys, ¬ k' <+: s) := by
  -- a key that is a prefix of `s` is `s.take 1` or `s.take 2`
  have hkey : ∀ k' ∈ opKeys, k' <+: s → (k' = s.take 1 ∧ k'.length = 1) ∨ (k' = s.take 2 ∧ k'.length = 2) := by
    intro k' hm hp
    have e := List.prefix_iff_eq_take.mp hp
    rcases opKey_len hm with h | h
    · exact Or.inl ⟨by rw [h] at e; exact e, h⟩
    · exact Or.inr ⟨by rw [h] at e; exact e, h⟩
  unfold prefixInOps
  simp only [maxOpLen]
  cases s with
  | nil =>
    refine ⟨fun k h => (by simp [prefixInOps.go] at h), fun _ k' hm hp => ?_⟩
    rcases opKey_len hm with h | h <;> (have := hp.length_le; rw [List.length_nil] at this; omega)
  | cons a r =>
    cases r with
    | nil =>
      have e : ([a] : Bytes).take 2 = [a] := rfl
      simp only [e, List.length_singleton, prefixInOps.go, List.take_succ_cons, List.take_zero]
      by_cases h1 : opKeys.contains [a] = true
      · simp only [h1, if_true]
        refine ⟨fun k hk => ?_, fun h => (by cases h)⟩
        injection hk with hk
        subst hk
        refine ⟨by simpa using h1, List.prefix_refl _, fun k' hm hp => ?_⟩
        have := hp.length_le
        simpa using this
      · simp only [h1]
        refine ⟨fun k hk => (by cases hk), fun _ k' hm hp => ?_⟩
        rcases hkey k' hm hp with ⟨e1, _⟩ | ⟨e2, l2⟩
        · apply h1; rw [List.contains_iff_mem]; simpa [e1] using hm
        · rw [e2] at l2; simp at l2
    | cons b r =>
      have e : (a :: b :: r).take 2 = [a, b] := rfl
      have e1 : (a :: b :: r).take 1 = [a] := rfl
      simp only [e, List.length_cons, List.length_nil, prefixInOps.go, List.take_succ_cons, List.take_zero]
      by_cases h2 : opKeys.contains [a, b] = true
      · simp only [h2, if_true]
        refine ⟨fun k hk => ?_, fun h => (by cases h)⟩
        injection hk with hk
        subst hk
        refine ⟨by simpa using h2, ⟨r, rfl⟩, fun k' hm hp => ?_⟩
        rcases opKey_len hm with h | h <;> simp [h]
      · simp only [h2]
        by_cases h1 : opKeys.contains [a] = true
        · simp only [h1, if_true]
          refine ⟨fun k hk => ?_, fun h => (by cases h)⟩
          injection hk with hk
          subst hk
          refine ⟨by simpa using h1, ⟨b :: r, rfl⟩, fun k' hm hp => ?_⟩
          rcases hkey k' hm hp with ⟨_, l1⟩ | ⟨e2', _⟩
          · simp [l1]
          · exfalso; apply h2; rw [List.contains_iff_mem]; rw [e2', e] at hm; exact hm
        · simp only [h1]
          refine ⟨fun k hk => (by cases hk), fun _ k' hm hp => ?_⟩
          rcases hkey k' hm hp with ⟨e1', _⟩ | ⟨e2', _⟩
          · apply h1; rw [List.contains_iff_mem]; rw [e1', e1] at hm; exact hm
          · apply h2; rw [List.contains_iff_mem]; rw [e2', e] at hm; exact hm

end Rare.C19
