import Rare.Proofs.C18RT
import Rare.Proofs.C18Offset
/-!
C18: the zone abbreviations Go's `parseTimeZone` reads back in full (so that a layout with `MST`
round-trips): three upper-case letters, four or five upper-case letters ending in `T`, and the
numeric abbreviations `±hh` (hh ≤ 23) of the tz database.
-/
namespace Rare.C18

def isUp (c : UInt8) : Bool := decide (65 ≤ c ∧ c ≤ 90)

theorem isUp_iff (c : UInt8) (h : isUp c = true) : 65 ≤ c ∧ c ≤ 90 := by simpa [isUp] using h

theorem ptz_upper3 (a b c : UInt8) (ha : isUp a = true) (hb : isUp b = true) (hc : isUp c = true) (rest : Bytes)
    (hr : rest = [] ∨ ∃ r, rest = 32 :: r) : parseTimeZone (a :: b :: c :: rest) = some 3 := by
  obtain ⟨a0, a1⟩ := isUp_iff a ha
  obtain ⟨b0, b1⟩ := isUp_iff b hb
  obtain ⟨c0, c1⟩ := isUp_iff c hc
  have e1 : asc "ChST" = [67, 104, 83, 84] := by decide
  have e2 : asc "MeST" = [77, 101, 83, 84] := by decide
  have e3 : asc "GMT" = [71, 77, 84] := by decide
  have hb104 : b ≠ 104 := by intro e; subst e; revert b1; decide
  have hb101 : b ≠ 101 := by intro e; subst e; revert b1; decide
  have ha43 : a ≠ 43 := by intro e; subst e; revert a0; decide
  have ha45 : a ≠ 45 := by intro e; subst e; revert a0; decide
  rcases hr with hr | ⟨r, hr⟩ <;> subst hr
  · unfold parseTimeZone
    simp [e1, e2, e3, ha43, ha45, List.takeWhile, a0, a1, b0, b1, c0, c1]
  · unfold parseTimeZone
    simp [e1, e2, e3, ha43, ha45, hb104, hb101, parseSignedOffset, List.takeWhile, a0, a1, b0, b1, c0, c1]

theorem ptz_upper4 (a b c : UInt8) (ha : isUp a = true) (hb : isUp b = true) (hc : isUp c = true) (rest : Bytes)
    (hg : [a, b, c] ≠ asc "GMT")
    (hr : rest = [] ∨ ∃ r, rest = 32 :: r) : parseTimeZone (a :: b :: c :: 84 :: rest) = some 4 := by
  obtain ⟨a0, a1⟩ := isUp_iff a ha
  obtain ⟨b0, b1⟩ := isUp_iff b hb
  obtain ⟨c0, c1⟩ := isUp_iff c hc
  have e1 : asc "ChST" = [67, 104, 83, 84] := by decide
  have e2 : asc "MeST" = [77, 101, 83, 84] := by decide
  have e3 : asc "GMT" = [71, 77, 84] := by decide
  rw [e3] at hg
  have hb104 : b ≠ 104 := by intro e; subst e; revert b1; decide
  have hb101 : b ≠ 101 := by intro e; subst e; revert b1; decide
  have ha43 : a ≠ 43 := by intro e; subst e; revert a0; decide
  have ha45 : a ≠ 45 := by intro e; subst e; revert a0; decide
  have hg' : ¬ (a = 71 ∧ b = 77 ∧ c = 84) := by intro ⟨x, y, z⟩; subst x; subst y; subst z; exact hg rfl
  rcases hr with hr | ⟨r, hr⟩ <;> subst hr
  · unfold parseTimeZone
    simp [e1, e2, e3, ha43, ha45, hb104, hb101, hg', List.takeWhile, a0, a1, b0, b1, c0, c1]
  · unfold parseTimeZone
    simp [e1, e2, e3, ha43, ha45, hb104, hb101, hg', List.takeWhile, a0, a1, b0, b1, c0, c1]

theorem ptz_upper5 (a b c d : UInt8) (ha : isUp a = true) (hb : isUp b = true) (hc : isUp c = true) (hd : isUp d = true) (rest : Bytes)
    (hg : [a, b, c] ≠ asc "GMT")
    (hr : rest = [] ∨ ∃ r, rest = 32 :: r) : parseTimeZone (a :: b :: c :: d :: 84 :: rest) = some 5 := by
  obtain ⟨a0, a1⟩ := isUp_iff a ha
  obtain ⟨b0, b1⟩ := isUp_iff b hb
  obtain ⟨c0, c1⟩ := isUp_iff c hc
  obtain ⟨d0, d1⟩ := isUp_iff d hd
  have e1 : asc "ChST" = [67, 104, 83, 84] := by decide
  have e2 : asc "MeST" = [77, 101, 83, 84] := by decide
  have e3 : asc "GMT" = [71, 77, 84] := by decide
  rw [e3] at hg
  have hb104 : b ≠ 104 := by intro e; subst e; revert b1; decide
  have hb101 : b ≠ 101 := by intro e; subst e; revert b1; decide
  have ha43 : a ≠ 43 := by intro e; subst e; revert a0; decide
  have ha45 : a ≠ 45 := by intro e; subst e; revert a0; decide
  have hg' : ¬ (a = 71 ∧ b = 77 ∧ c = 84) := by intro ⟨x, y, z⟩; subst x; subst y; subst z; exact hg rfl
  rcases hr with hr | ⟨r, hr⟩ <;> subst hr
  · unfold parseTimeZone
    simp [e1, e2, e3, ha43, ha45, hb104, hb101, hg', List.takeWhile, a0, a1, b0, b1, c0, c1, d0, d1]
  · unfold parseTimeZone
    simp [e1, e2, e3, ha43, ha45, hb104, hb101, hg', List.takeWhile, a0, a1, b0, b1, c0, c1, d0, d1]

/-- The shapes of zone abbreviations `parseTimeZone` reads back: three upper-case letters, or four /
five upper-case letters ending in `T` (not starting with `GMT` / `UTC`). -/
def abbrShape (abbr : Bytes) : Bool :=
  match abbr with
  | [a, b, c] => isUp a && isUp b && isUp c
  | [a, b, c, d] => isUp a && isUp b && isUp c && d == 84 && !([a, b, c] == asc "GMT") && !([a, b, c] == asc "UTC")
  | [a, b, c, d, e] => isUp a && isUp b && isUp c && isUp d && e == 84 && !([a, b, c] == asc "GMT") && !([a, b, c] == asc "UTC")
  | _ => false

theorem abbrOK_of_shape (abbr : Bytes) (off : Int) (h : abbrShape abbr = true) (hu : abbr = utcB → off = 0) : AbbrOK abbr off := by
  match abbr, h with
  | [a, b, c], h =>
    simp only [abbrShape, Bool.and_eq_true] at h
    obtain ⟨⟨ha, hb⟩, hc⟩ := h
    have a0 := (isUp_iff a ha).1
    refine ⟨by simp, ⟨a, _, rfl, by intro e; subst e; revert a0; decide⟩, fun e => ⟨e, hu e⟩,
      ptz_upper3 a b c ha hb hc [] (Or.inl rfl), fun r => ptz_upper3 a b c ha hb hc _ (Or.inr ⟨r, rfl⟩)⟩
  | [a, b, c, d], h =>
    simp only [abbrShape, Bool.and_eq_true, beq_iff_eq, Bool.not_eq_true', beq_eq_false_iff_ne] at h
    obtain ⟨⟨⟨⟨⟨ha, hb⟩, hc⟩, hd⟩, hg⟩, hutc⟩ := h
    subst hd
    have a0 := (isUp_iff a ha).1
    refine ⟨by simp, ⟨a, _, rfl, by intro e; subst e; revert a0; decide⟩, fun e => absurd e hutc,
      ptz_upper4 a b c ha hb hc [] hg (Or.inl rfl), fun r => ptz_upper4 a b c ha hb hc _ hg (Or.inr ⟨r, rfl⟩)⟩
  | [a, b, c, d, e], h =>
    simp only [abbrShape, Bool.and_eq_true, beq_iff_eq, Bool.not_eq_true', beq_eq_false_iff_ne] at h
    obtain ⟨⟨⟨⟨⟨⟨ha, hb⟩, hc⟩, hd⟩, he⟩, hg⟩, hutc⟩ := h
    subst he
    have a0 := (isUp_iff a ha).1
    refine ⟨by simp, ⟨a, _, rfl, by intro e; subst e; revert a0; decide⟩, fun e => absurd e hutc,
      ptz_upper5 a b c d ha hb hc hd [] hg (Or.inl rfl), fun r => ptz_upper5 a b c d ha hb hc hd _ hg (Or.inr ⟨r, rfl⟩)⟩

example : AbbrOK (asc "CEST") 7200 := abbrOK_of_shape _ _ (by decide) (by decide)
example : AbbrOK (asc "UTC") 0 := abbrOK_of_shape _ _ (by decide) (fun _ => rfl)
example : AbbrOK (asc "GMT") 0 := abbrOK_of_shape _ _ (by decide) (by decide)

/-! ## numeric abbreviations (`-03`, `+11`) -/

/-- hours 00..23 as two digit bytes -/
def hh2 (d1 d2 : UInt8) : Bool := (d1 == 48 || d1 == 49) && isDigitB d2 || d1 == 50 && (decide (48 ≤ d2) && decide (d2 ≤ 51))

theorem hh2_facts (d1 d2 : UInt8) (h : hh2 d1 d2 = true) :
    isDigitB d1 = true ∧ isDigitB d2 = true ∧ (d1.toNat - 48) * 10 + (d2.toNat - 48) ≤ 23 := by
  unfold hh2 at h
  simp only [Bool.or_eq_true, Bool.and_eq_true, beq_iff_eq, decide_eq_true_eq] at h
  have dig : ∀ c : UInt8, isDigitB c = true → 48 ≤ c.toNat ∧ c.toNat ≤ 57 := by
    intro c hc
    unfold isDigitB at hc
    simp only [Bool.and_eq_true, decide_eq_true_eq] at hc
    exact ⟨by simpa [UInt8.le_iff_toNat_le] using hc.1, by simpa [UInt8.le_iff_toNat_le] using hc.2⟩
  rcases h with ⟨h1 | h1, h2⟩ | ⟨h1, h2, h3⟩
  · subst h1; have := dig d2 h2; exact ⟨by decide, h2, by simp; omega⟩
  · subst h1; have := dig d2 h2; exact ⟨by decide, h2, by simp; omega⟩
  · subst h1
    have a : 48 ≤ d2.toNat := by simpa [UInt8.le_iff_toNat_le] using h2
    have b : d2.toNat ≤ 51 := by simpa [UInt8.le_iff_toNat_le] using h3
    refine ⟨by decide, ?_, by simp; omega⟩
    unfold isDigitB
    simp only [Bool.and_eq_true, decide_eq_true_eq, UInt8.le_iff_toNat_le]
    exact ⟨by simpa using a, by simp; omega⟩

theorem ptz_numeric (s d1 d2 : UInt8) (hs : s = 43 ∨ s = 45) (h : hh2 d1 d2 = true) (rest : Bytes)
    (hr : rest = [] ∨ ∃ r, rest = 32 :: r) : parseTimeZone (s :: d1 :: d2 :: rest) = some 3 := by
  obtain ⟨h1, h2, hv⟩ := hh2_facts d1 d2 h
  have e1 : asc "ChST" = [67, 104, 83, 84] := by decide
  have e2 : asc "MeST" = [77, 101, 83, 84] := by decide
  have e3 : asc "GMT" = [71, 77, 84] := by decide
  have hval : digitsVal [d1, d2] 0 ≤ 23 := by simpa [digitsVal] using hv
  have hds : [d1, d2].all isDigitB = true := by simp [h1, h2]
  have hpso : ∀ tail, NoDigitHead tail → parseSignedOffset (s :: d1 :: d2 :: tail) = 3 := by
    intro tail ht
    have := parseSignedOffset_exact s hs [d1, d2] hds tail ht
    simpa [hval] using this
  have hnd : NoDigitHead rest := by
    rcases hr with hr | ⟨r, hr⟩
    · exact Or.inl hr
    · exact Or.inr ⟨32, r, hr, by decide⟩
  have hp := hpso rest hnd
  rcases hs with hs | hs <;> subst hs <;> rcases hr with hr | ⟨r, hr⟩ <;> subst hr <;>
  · unfold parseTimeZone
    simp [e1, e2, e3, hp]

/-- Numeric zone abbreviations of the tz database (`-03`, `+11`): a sign and an hour 00..23. -/
theorem abbrOK_numeric (s d1 d2 : UInt8) (off : Int) (hs : s = 43 ∨ s = 45) (h : hh2 d1 d2 = true) :
    AbbrOK [s, d1, d2] off := by
  refine ⟨by simp, ⟨s, _, rfl, by rcases hs with e | e <;> subst e <;> decide⟩, ?_,
    ptz_numeric s d1 d2 hs h [] (Or.inl rfl), fun r => ptz_numeric s d1 d2 hs h _ (Or.inr ⟨r, rfl⟩)⟩
  intro e
  exfalso
  have hutc : utcB = [85, 84, 67] := by decide
  rw [hutc] at e
  have : s = 85 := by
    have := congrArg List.head? e
    simpa using this
  rcases hs with e | e <;> subst e <;> exact absurd this (by decide)

example : AbbrOK (asc "-03") (-10800) := abbrOK_numeric 45 48 51 _ (Or.inr rfl) (by decide)
example : AbbrOK (asc "+11") 39600 := abbrOK_numeric 43 49 49 _ (Or.inl rfl) (by decide)

end Rare.C18
