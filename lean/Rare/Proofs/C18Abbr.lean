import Rare.Proofs.C18RT
/-!
C18: the zone abbreviations Go's `parseTimeZone` reads back in full (so that a layout with `MST`
round-trips): three upper-case letters, four or five upper-case letters ending in `T`.
-/
namespace Rare.C18

def isUp (c : UInt8) : Bool := decide (65 ≤ c ∧ c ≤ 90)

theorem isUp_iff (c : UInt8) (h : isUp c = true) : 65 ≤ c ∧ c ≤ 90 := by simpa [isUp] using h

theorem ptz_upper3 (a b c : UInt8) (ha : isUp a = true) (hb : isUp b = true) (hc : isUp c = true) (rest : Bytes)
    (hr : rest = [] ∨ ∃ r, rest = 32 :: r) : parseTimeZone (a :: b :: c :: rest) = some 3 := by
  obtain ⟨a0, a1⟩ := isUp_iff a ha
  obtain ⟨b0, b1⟩ := isUp_iff b hb
  obtain ⟨c0, c1⟩ := isUp_iff c hc
  have e1 : asc "ChST" = [67, 104, 83, 84] := by decide
  have e2 : asc "MeST" = [77, 101, 83, 84] := by decide
  have e3 : asc "GMT" = [71, 77, 84] := by decide
  have hb104 : b ≠ 104 := by intro e; subst e; revert b1; decide
  have hb101 : b ≠ 101 := by intro e; subst e; revert b1; decide
  have ha43 : a ≠ 43 := by intro e; subst e; revert a0; decide
  have ha45 : a ≠ 45 := by intro e; subst e; revert a0; decide
  rcases hr with hr | ⟨r, hr⟩ <;> subst hr
  · unfold parseTimeZone
    simp [e1, e2, e3, ha43, ha45, List.takeWhile, a0, a1, b0, b1, c0, c1]
  · unfold parseTimeZone
    simp [e1, e2, e3, ha43, ha45, hb104, hb101, parseSignedOffset, List.takeWhile, a0, a1, b0, b1, c0, c1]

theorem ptz_upper4 (a b c : UInt8) (ha : isUp a = true) (hb : isUp b = true) (hc : isUp c = true) (rest : Bytes)
    (hg : [a, b, c] ≠ asc "GMT")
    (hr : rest = [] ∨ ∃ r, rest = 32 :: r) : parseTimeZone (a :: b :: c :: 84 :: rest) = some 4 := by
  obtain ⟨a0, a1⟩ := isUp_iff a ha
  obtain ⟨b0, b1⟩ := isUp_iff b hb
  obtain ⟨c0, c1⟩ := isUp_iff c hc
  have e1 : asc "ChST" = [67, 104, 83, 84] := by decide
  have e2 : asc "MeST" = [77, 101, 83, 84] := by decide
  have e3 : asc "GMT" = [71, 77, 84] := by decide
  rw [e3] at hg
  have hb104 : b ≠ 104 := by intro e; subst e; revert b1; decide
  have hb101 : b ≠ 101 := by intro e; subst e; revert b1; decide
  have ha43 : a ≠ 43 := by intro e; subst e; revert a0; decide
  have ha45 : a ≠ 45 := by intro e; subst e; revert a0; decide
  have hg' : ¬ (a = 71 ∧ b = 77 ∧ c = 84) := by intro ⟨x, y, z⟩; subst x; subst y; subst z; exact hg rfl
  rcases hr with hr | ⟨r, hr⟩ <;> subst hr
  · unfold parseTimeZone
    simp [e1, e2, e3, ha43, ha45, hb104, hb101, hg', List.takeWhile, a0, a1, b0, b1, c0, c1]
  · unfold parseTimeZone
    simp [e1, e2, e3, ha43, ha45, hb104, hb101, hg', List.takeWhile, a0, a1, b0, b1, c0, c1]

theorem ptz_upper5 (a b c d : UInt8) (ha : isUp a = true) (hb : isUp b = true) (hc : isUp c = true) (hd : isUp d = true) (rest : Bytes)
    (hg : [a, b, c] ≠ asc "GMT")
    (hr : rest = [] ∨ ∃ r, rest = 32 :: r) : parseTimeZone (a :: b :: c :: d :: 84 :: rest) = some 5 := by
  obtain ⟨a0, a1⟩ := isUp_iff a ha
  obtain ⟨b0, b1⟩ := isUp_iff b hb
  obtain ⟨c0, c1⟩ := isUp_iff c hc
  obtain ⟨d0, d1⟩ := isUp_iff d hd
  have e1 : asc "ChST" = [67, 104, 83, 84] := by decide
  have e2 : asc "MeST" = [77, 101, 83, 84] := by decide
  have e3 : asc "GMT" = [71, 77, 84] := by decide
  rw [e3] at hg
  have hb104 : b ≠ 104 := by intro e; subst e; revert b1; decide
  have hb101 : b ≠ 101 := by intro e; subst e; revert b1; decide
  have ha43 : a ≠ 43 := by intro e; subst e; revert a0; decide
  have ha45 : a ≠ 45 := by intro e; subst e; revert a0; decide
  have hg' : ¬ (a = 71 ∧ b = 77 ∧ c = 84) := by intro ⟨x, y, z⟩; subst x; subst y; subst z; exact hg rfl
  rcases hr with hr | ⟨r, hr⟩ <;> subst hr
  · unfold parseTimeZone
    simp [e1, e2, e3, ha43, ha45, hb104, hb101, hg', List.takeWhile, a0, a1, b0, b1, c0, c1, d0, d1]
  · unfold parseTimeZone
    simp [e1, e2, e3, ha43, ha45, hb104, hb101, hg', List.takeWhile, a0, a1, b0, b1, c0, c1, d0, d1]

/-- The shapes of zone abbreviations `parseTimeZone` reads back: three upper-case letters, or four /
five upper-case letters ending in `T` (not starting with `GMT` / `UTC`). -/
def abbrShape (abbr : Bytes) : Bool :=
  match abbr with
  | [a, b, c] => isUp a && isUp b && isUp c
  | [a, b, c, d] => isUp a && isUp b && isUp c && d == 84 && !([a, b, c] == asc "GMT") && !([a, b, c] == asc "UTC")
  | [a, b, c, d, e] => isUp a && isUp b && isUp c && isUp d && e == 84 && !([a, b, c] == asc "GMT") && !([a, b, c] == asc "UTC")
  | _ => false

theorem abbrOK_of_shape (abbr : Bytes) (off : Int) (h : abbrShape abbr = true) (hu : abbr = utcB → off = 0) : AbbrOK abbr off := by
  match abbr, h with
  | [a, b, c], h =>
    simp only [abbrShape, Bool.and_eq_true] at h
    obtain ⟨⟨ha, hb⟩, hc⟩ := h
    have a0 := (isUp_iff a ha).1
    refine ⟨by simp, ⟨a, _, rfl, by intro e; subst e; revert a0; decide⟩, fun e => ⟨e, hu e⟩,
      ptz_upper3 a b c ha hb hc [] (Or.inl rfl), fun r => ptz_upper3 a b c ha hb hc _ (Or.inr ⟨r, rfl⟩)⟩
  | [a, b, c, d], h =>
    simp only [abbrShape, Bool.and_eq_true, beq_iff_eq, Bool.not_eq_true', beq_eq_false_iff_ne] at h
    obtain ⟨⟨⟨⟨⟨ha, hb⟩, hc⟩, hd⟩, hg⟩, hutc⟩ := h
    subst hd
    have a0 := (isUp_iff a ha).1
    refine ⟨by simp, ⟨a, _, rfl, by intro e; subst e; revert a0; decide⟩, fun e => absurd e hutc,
      ptz_upper4 a b c ha hb hc [] hg (Or.inl rfl), fun r => ptz_upper4 a b c ha hb hc _ hg (Or.inr ⟨r, rfl⟩)⟩
  | [a, b, c, d, e], h =>
    simp only [abbrShape, Bool.and_eq_true, beq_iff_eq, Bool.not_eq_true', beq_eq_false_iff_ne] at h
    obtain ⟨⟨⟨⟨⟨⟨ha, hb⟩, hc⟩, hd⟩, he⟩, hg⟩, hutc⟩ := h
    subst he
    have a0 := (isUp_iff a ha).1
    refine ⟨by simp, ⟨a, _, rfl, by intro e; subst e; revert a0; decide⟩, fun e => absurd e hutc,
      ptz_upper5 a b c d ha hb hc hd [] hg (Or.inl rfl), fun r => ptz_upper5 a b c d ha hb hc hd _ hg (Or.inr ⟨r, rfl⟩)⟩

example : AbbrOK (asc "CEST") 7200 := abbrOK_of_shape _ _ (by decide) (by decide)
example : AbbrOK (asc "UTC") 0 := abbrOK_of_shape _ _ (by decide) (fun _ => rfl)
example : AbbrOK (asc "-03") (-10800) := ⟨by decide, ⟨_, _, rfl, by decide⟩, by decide, rfl, fun r => rfl⟩
example : AbbrOK (asc "GMT") 0 := abbrOK_of_shape _ _ (by decide) (by decide)
end Rare.C18
