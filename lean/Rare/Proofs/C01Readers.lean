import Rare.Proofs.Pipeline
/-!
C01: reader concurrency.  At most `R` reader goroutines run at the same time in every reachable state (the semaphore
`make(chan struct{}, concurrency)` of `OpenFilesToChan`), and `min R n` of them can: the bound is attained.
-/
namespace Rare.Pipeline
variable {α : Type}

theorem filter_length_set (p : SrcSt α → Bool) : ∀ (l : List (SrcSt α)) (i : Nat) (x old : SrcSt α), l[i]? = some old →
    ((l.set i x).filter p).length + (if p old then 1 else 0) = (l.filter p).length + (if p x then 1 else 0)
  | [], i, x, old, h => by simp at h
  | a :: l, 0, x, old, h => by
    simp only [List.getElem?_cons_zero, Option.some.injEq] at h
    subst h
    simp only [List.set_cons_zero, List.filter_cons]
    cases p a <;> cases p x <;> simp
  | a :: l, i + 1, x, old, h => by
    simp only [List.getElem?_cons_succ] at h
    have ih := filter_length_set p l i x old h
    simp only [List.set_cons_succ, List.filter_cons]
    cases p a <;> simp <;> omega

theorem activeCount_step {cls : α → Cls} {R B K : Nat} {s s' : St α} (h : Step cls R B K s s') (hb : activeCount s ≤ R) :
    activeCount s' ≤ R := by
  cases h with
  | start i bs h1 h2 =>
    have := filter_length_set SrcSt.isActive s.srcs i (.active bs) (.waiting bs) h1
    simp only [SrcSt.isActive, if_true, Bool.false_eq_true, if_false] at this
    simp only [activeCount] at *
    omega
  | send i b bs h1 h2 =>
    have := filter_length_set SrcSt.isActive s.srcs i (.active bs) (.active (b :: bs)) h1
    simp only [SrcSt.isActive, if_true] at this
    simp only [activeCount] at *
    omega
  | finish i h1 =>
    have := filter_length_set SrcSt.isActive s.srcs i .done (.active []) h1
    simp only [SrcSt.isActive, if_true, Bool.false_eq_true, if_false] at this
    simp only [activeCount] at *
    omega
  | _ => simpa [activeCount] using hb

theorem activeCount_reach {cls : α → Cls} {R B K : Nat} {s0 s : St α} (h : Reach cls R B K s0 s) (h0 : activeCount s0 ≤ R) :
    activeCount s ≤ R := by
  induction h with
  | refl => exact h0
  | step _ hs ih => exact activeCount_step hs ih

theorem activeCount_init (inputs : List (List (List α))) (W : Nat) : activeCount (init inputs W) = 0 := by
  simp [activeCount, init, List.filter_map, Function.comp_def, SrcSt.isActive]

/-- the state in which the first `k` sources run and the others wait -/
def started (inputs : List (List (List α))) (W k : Nat) : St α :=
  { init inputs W with srcs := (inputs.map SrcSt.active).take k ++ (inputs.map SrcSt.waiting).drop k }

theorem filter_active_take (k : Nat) : ∀ (l : List (List (List α))),
    (((l.map SrcSt.active).take k).filter SrcSt.isActive).length = min k l.length := by
  intro l
  have : ((l.map SrcSt.active).take k).filter SrcSt.isActive = (l.map SrcSt.active).take k := by
    apply List.filter_eq_self.mpr
    intro x hx
    have := List.mem_of_mem_take hx
    simp only [List.mem_map] at this
    obtain ⟨b, _, rfl⟩ := this
    rfl
  rw [this]; simp [List.length_take]

theorem filter_active_drop (k : Nat) (l : List (List (List α))) :
    (((l.map SrcSt.waiting).drop k).filter SrcSt.isActive).length = 0 := by
  have : ((l.map SrcSt.waiting).drop k).filter SrcSt.isActive = [] := by
    apply List.filter_eq_nil_iff.mpr
    intro x hx
    have := List.mem_of_mem_drop hx
    simp only [List.mem_map] at this
    obtain ⟨b, _, rfl⟩ := this
    simp [SrcSt.isActive]
  rw [this]; rfl

theorem activeCount_started (inputs : List (List (List α))) (W k : Nat) :
    activeCount (started inputs W k) = min k inputs.length := by
  simp only [activeCount, started, List.filter_append, List.length_append, filter_active_take, filter_active_drop]
  omega

theorem started_reach (cls : α → Cls) (R B K W : Nat) (inputs : List (List (List α))) :
    ∀ k, k ≤ R → k ≤ inputs.length → Reach cls R B K (init inputs W) (started inputs W k)
  | 0, _, _ => by
    have : started inputs W 0 = init inputs W := by simp [started, init]
    rw [this]; exact .refl
  | k + 1, hR, hn => by
    have ih := started_reach cls R B K W inputs k (by omega) (by omega)
    have hk : k < inputs.length := by omega
    have hlen : ((inputs.map SrcSt.active).take k).length = k := by simp [List.length_take]; omega
    have hd : (inputs.map SrcSt.waiting).drop k = SrcSt.waiting inputs[k] :: (inputs.map SrcSt.waiting).drop (k + 1) := by
      rw [List.drop_eq_getElem_cons (by simpa using hk)]; simp
    have hget : (started inputs W k).srcs[k]? = some (.waiting inputs[k]) := by
      simp only [started]
      rw [List.getElem?_append_right (by omega), hlen, hd]; simp
    have hac : activeCount (started inputs W k) < R := by
      rw [activeCount_started]; omega
    have hstep := Step.start (cls := cls) (R := R) (B := B) (K := K) (started inputs W k) k inputs[k] hget hac
    have hs : { started inputs W k with srcs := (started inputs W k).srcs.set k (.active inputs[k]) } = started inputs W (k + 1) := by
      simp only [started]
      congr 1
      rw [List.set_append_right _ _ (by omega), hlen, Nat.sub_self, hd, List.set_cons_zero]
      have ht : (inputs.map SrcSt.active).take (k + 1) = (inputs.map SrcSt.active).take k ++ [SrcSt.active inputs[k]] := by
        rw [List.take_add_one]; simp [hk]
      rw [ht, List.append_assoc]; rfl
    rw [← hs]
    exact .step ih hstep
end Rare.Pipeline
