import Rare.Proofs.C14Table
import Rare.Proofs.C14Utf8
/-!
The `TableWriter` invariant over every sequence of `WriteRow` / `WriteFooter` calls, and what it
gives: column `k` starts at the same visible offset in every drawn row.
-/
namespace Rare.C14
open Rare Rare.C20

/-! ### visible width of concatenations -/

theorem strLenGo_acc (l : List Nat) : ∀ (st : Bool) (n : Nat), strLenGo st l n = n + strLenGo st l 0 := by
  induction l with
  | nil => intro st n; simp [strLenGo]
  | cons r rest ih =>
    intro st n
    simp only [strLenGo]
    split
    · exact ih _ _
    · split
      · exact ih _ _
      · split
        · rw [ih _ (n + 1), ih _ (0 + 1)]; omega
        · exact ih _ _

theorem codeState_blanks (k : Nat) (st : Bool) : codeState st (List.replicate k 32) = st := by
  induction k with
  | zero => rfl
  | succ k ih => simp [List.replicate_succ, codeState, ih]

theorem strLenGo_blanks' (k : Nat) (rest : List Nat) (n : Nat) :
    strLenGo false (List.replicate k 32 ++ rest) n = strLenGo false rest (n + k) := by
  rw [strLenGo_append, codeState_blanks, strLenGo_blanks]

/-- a text followed by at least one blank: the visible width is additive, for EVERY text `c` that does
not end inside a colour sequence (truncated UTF-8 at its end included) -/
theorem strLen_cell_append (env : Env) (c : Bytes) (m : Nat) (rest : Bytes) (ht : Terminated env c) :
    strLen env (c ++ List.replicate (m + 1) (32 : UInt8) ++ rest) = strLen env c + (m + 1 : Nat) + strLen env rest := by
  have hd : decodeUtf8 (c ++ List.replicate (m + 1) (32 : UInt8) ++ rest)
      = decodeUtf8 c ++ List.replicate (m + 1) 32 ++ decodeUtf8 rest := by
    rw [List.replicate_succ, List.append_assoc, List.cons_append, decodeUtf8_before_ascii c 32 (by decide)]
    rw [decodeUtf8_asciiList _ (by intro x hx; rw [List.eq_of_mem_replicate hx]; decide)]
    simp [List.replicate_succ]
  unfold strLen
  rw [hd]
  by_cases hcol : env.color
  · have ht' := ht hcol
    simp only [hcol, Bool.not_true, Bool.false_eq_true, if_false]
    rw [List.append_assoc, strLenGo_append, ht', strLenGo_blanks', strLenGo_acc]
    omega
  · simp only [hcol, Bool.not_false, if_true]
    simp only [List.length_append, List.length_replicate]
    omega

theorem strLen_nil (env : Env) : strLen env [] = 0 := by
  unfold strLen; split <;> rfl

/-! ### the text of a row -/

/-- one cell as `writeRow` draws it: padded to the column width, plus the separating blank -/
def cellText (env : Env) (w : Int) (c : Bytes) : Bytes := c ++ spaces (w - strLen env c) ++ [32]

/-- the text of a row whose cells occupy the columns `k, k+1, …` (pure form of `TableWriter.rowText`) -/
def rowTextP (env : Env) (cw : List Int) : Nat → List Bytes → Bytes
  | _, [] => []
  | k, c :: rest => cellText env (cw.getD k 0) c ++ rowTextP env cw (k + 1) rest

theorem getIdx_nat {α : Type} (l : List α) (k : Nat) (d : α) (h : k < l.length) : getIdx l (k : Int) = .ok (l.getD k d) := by
  unfold getIdx
  have : ¬ ((k : Int) < 0) := by omega
  simp only [this, if_false, Int.toNat_natCast]
  rw [List.getElem?_eq_getElem h]
  simp [List.getD, List.getElem?_eq_getElem h]

/-- the body of the loop of `writeRow` -/
def cellM (env : Env) (cw : List Int) (p : Bytes × Nat) : Res Bytes := do
  let w ← getIdx cw p.2
  pure (p.1 ++ spaces (w - strLen env p.1) ++ [32])

theorem rowText_aux (env : Env) (cw : List Int) : ∀ (l : List Bytes) (n : Nat), n + l.length ≤ cw.length →
    ∃ parts, (l.zipIdx n).mapM (cellM env cw) = .ok parts ∧ parts.flatten = rowTextP env cw n l := by
  intro l
  induction l with
  | nil => intro n _; exact ⟨[], rfl, rfl⟩
  | cons c rest ih =>
    intro n hn
    obtain ⟨parts, hp, hf⟩ := ih (n + 1) (by simp at hn ⊢; omega)
    have hstep : cellM env cw (c, n) = .ok (cellText env (cw.getD n 0) c) := by
      unfold cellM
      rw [getIdx_nat cw n 0 (by simp at hn; omega)]
      rfl
    refine ⟨cellText env (cw.getD n 0) c :: parts, ?_, ?_⟩
    · rw [List.zipIdx_cons, List.mapM_cons, hstep, hp]; rfl
    · simp [rowTextP, hf]

theorem rowText_eq (env : Env) (mc : Int) (cw : List Int) (cols : List Bytes) (h : (cols.take mc.toNat).length ≤ cw.length) :
    TableWriter.rowText env mc cw cols = .ok (rowTextP env cw 0 (cols.take mc.toNat)) := by
  obtain ⟨parts, hp, hf⟩ := rowText_aux env cw (cols.take mc.toNat) 0 (by omega)
  show (do let parts ← (cols.take mc.toNat).zipIdx.mapM (cellM env cw); (pure parts.flatten : Res Bytes)) = _
  rw [hp, ← hf]; rfl

/-! ### the width-tracking loop -/

theorem setIdx_nat {α : Type} (l : List α) (k : Nat) (x : α) (h : k < l.length) : setIdx l (k : Int) x = .ok (l.set k x) := by
  unfold setIdx
  have : ¬ ((k : Int) < 0 ∨ (k : Int) ≥ l.length) := by omega
  rw [if_neg this, Int.toNat_natCast]

theorem getD_set_int (l : List Int) (n k : Nat) (x : Int) :
    (l.set n x).getD k 0 = if n = k ∧ n < l.length then x else l.getD k 0 := by
  simp only [List.getD_eq_getElem?_getD, List.getElem?_set]
  by_cases h : n = k
  · subst h
    by_cases h2 : n < l.length
    · simp [h2]
    · simp [h2]
  · simp [h]

/-- the body of the width loop of `WriteRow` -/
def widenStep (env : Env) (acc : List Int × Bool) (ci : Bytes × Nat) : Res (List Int × Bool) := do
  let w ← getIdx acc.1 ci.2
  let runeLen := strLen env ci.1
  if runeLen > w then
    let cw ← setIdx acc.1 ci.2 runeLen
    pure (cw, true)
  else pure acc

theorem widenStep_ok (env : Env) (acc : List Int × Bool) (c : Bytes) (n : Nat) (h : n < acc.1.length) :
    widenStep env acc (c, n) =
      .ok (if strLen env c > acc.1.getD n 0 then (acc.1.set n (strLen env c), true) else acc) := by
  unfold widenStep
  simp only [getIdx_nat acc.1 n 0 h, bind, Except.bind]
  split
  · simp only [setIdx_nat acc.1 n _ h]; rfl
  · rfl

theorem widen_aux (env : Env) : ∀ (l : List Bytes) (n : Nat) (acc : List Int × Bool), n + l.length ≤ acc.1.length →
    ∃ cw need, (l.zipIdx n).foldlM (widenStep env) acc = .ok (cw, need) ∧ cw.length = acc.1.length ∧
      (∀ k, acc.1.getD k 0 ≤ cw.getD k 0) ∧
      (∀ j c, l[j]? = some c → strLen env c ≤ cw.getD (n + j) 0) ∧
      (need = false → cw = acc.1) ∧ (acc.2 = true → need = true) := by
  intro l
  induction l with
  | nil =>
    intro n acc _
    exact ⟨acc.1, acc.2, rfl, rfl, fun _ => Int.le_refl _, by simp, fun _ => rfl, fun h => h⟩
  | cons c rest ih =>
    intro n acc hn
    have hlt : n < acc.1.length := by simp at hn; omega
    rw [List.zipIdx_cons, List.foldlM_cons, widenStep_ok env acc c n hlt]
    by_cases hg : strLen env c > acc.1.getD n 0
    · simp only [hg, if_true, bind, Except.bind]
      obtain ⟨cw, need, hf, hlen, hmono, hfit, _, hneed⟩ := ih (n + 1) (acc.1.set n (strLen env c), true) (by simp at hn ⊢; omega)
      refine ⟨cw, need, hf, by simpa using hlen, ?_, ?_, ?_, ?_⟩
      · intro k
        have := hmono k
        simp only [getD_set_int] at this
        split at this
        · rename_i hk
          obtain ⟨rfl, _⟩ := hk
          omega
        · exact this
      · intro j c' hj
        cases j with
        | zero =>
          simp at hj; subst hj
          have := hmono n
          simp only [getD_set_int, hlt, and_self, if_true] at this
          simpa using this
        | succ j =>
          have := hfit j c' (by simpa using hj)
          rw [show n + (j + 1) = n + 1 + j by omega]; exact this
      · intro h; rw [hneed rfl] at h; cases h
      · intro _; exact hneed rfl
    · simp only [hg, if_false, bind, Except.bind]
      obtain ⟨cw, need, hf, hlen, hmono, hfit, hsame, hneed⟩ := ih (n + 1) acc (by simp at hn ⊢; omega)
      refine ⟨cw, need, hf, hlen, hmono, ?_, hsame, hneed⟩
      intro j c' hj
      cases j with
      | zero =>
        simp at hj; subst hj
        have := hmono n
        simp only [Nat.add_zero]; omega
      | succ j =>
        have := hfit j c' (by simpa using hj)
        rw [show n + (j + 1) = n + 1 + j by omega]; exact this

theorem widen_ok (env : Env) (mc : Int) (cols : List Bytes) (cw : List Int) (h : (cols.take mc.toNat).length ≤ cw.length) :
    ∃ cw' need, TableWriter.widen env mc cols cw = .ok (cw', need) ∧ cw'.length = cw.length ∧
      (∀ k, cw.getD k 0 ≤ cw'.getD k 0) ∧
      (∀ j c, (cols.take mc.toNat)[j]? = some c → strLen env c ≤ cw'.getD j 0) ∧
      (need = false → cw' = cw) := by
  obtain ⟨cw', need, hf, hlen, hmono, hfit, hsame, _⟩ := widen_aux env (cols.take mc.toNat) 0 (cw, false) (by simpa using h)
  refine ⟨cw', need, ?_, hlen, hmono, ?_, hsame⟩
  · show (cols.take mc.toNat).zipIdx.foldlM (widenStep env) (cw, false) = _
    exact hf
  · intro j c hj
    have := hfit j c hj
    simpa using this

theorem foldlM_singleton {β α : Type} (f : β → α → Res β) (b : β) (a : α) : [a].foldlM f b = f b a := by
  simp [List.foldlM_cons, List.foldlM_nil]

/-! ### VirtualTerm -/

theorem vt_write_ok (v : VirtualTerm) (hc : v.closed = false) (n : Nat) (text : Bytes) :
    ∃ v', v.writeForLine (n : Int) text = .ok v' ∧ v'.closed = false ∧ v'.lines[n]? = some text ∧
      (∀ j x, j ≠ n → v.lines[j]? = some x → v'.lines[j]? = some x) := by
  unfold VirtualTerm.writeForLine
  have h0 : ¬ ((n : Int) < 0) := by omega
  simp only [hc, Bool.false_eq_true, if_false, h0, Int.toNat_natCast]
  refine ⟨_, rfl, rfl, ?_, ?_⟩
  · simp only [List.getElem?_set]
    have : n < (v.lines ++ List.replicate (n + 1 - v.lines.length) ([] : Bytes)).length := by
      simp only [List.length_append, List.length_replicate]; omega
    rw [if_pos trivial, if_pos this]
  · intro j x hj hx
    simp only [List.getElem?_set]
    rw [if_neg (by omega)]
    have hlt : j < v.lines.length := by
      rcases Nat.lt_or_ge j v.lines.length with h | h
      · exact h
      · rw [List.getElem?_eq_none h] at hx; cases hx
    rw [List.getElem?_append_left hlt]; exact hx

/-! ### the invariant -/

/-- what every sequence of `WriteRow` / `WriteFooter` calls maintains -/
structure TableInv (env : Env) (t : TableWriter) (vt : VirtualTerm) : Prop where
  mc_nonneg : 0 ≤ t.maxCols
  mr_nonneg : 0 ≤ t.maxRows
  cw_len : t.colWidth.length = t.maxCols.toNat
  rows_len : t.rows.length = t.maxRows.toNat
  active_lo : 0 ≤ t.activeRows
  active_hi : t.activeRows ≤ t.maxRows
  vt_open : vt.closed = false
  cw_nonneg : ∀ k : Nat, 0 ≤ t.colWidth.getD k 0
  /-- rows at and below `activeRows` were never written -/
  beyond : ∀ (i : Nat) (r : List Bytes), t.rows[i]? = some r → t.activeRows.toNat ≤ i → r = []
  /-- every written row is on the screen as drawn with the CURRENT column widths -/
  drawn : ∀ (i : Nat) (r : List Bytes), t.rows[i]? = some r → r ≠ [] →
    vt.lines[i]? = some (rowTextP env t.colWidth 0 (r.take t.maxCols.toNat))
  /-- every displayed cell fits its column -/
  fit : ∀ (i : Nat) (r : List Bytes) (k : Nat) (c : Bytes), t.rows[i]? = some r → (r.take t.maxCols.toNat)[k]? = some c → strLen env c ≤ t.colWidth.getD k 0

/-- the body of the full-update loop of `WriteRow` -/
def redrawStep (env : Env) (t : TableWriter) (rows : List (List Bytes)) (v : VirtualTerm) (i : Nat) : Res VirtualTerm := do
  let r ← getIdx rows i
  t.drawRow env v i r

theorem drawRow_ok (env : Env) (t : TableWriter) (hcw : t.colWidth.length = t.maxCols.toNat) (vt : VirtualTerm)
    (ho : vt.closed = false) (n : Nat) (cols : List Bytes) :
    ∃ vt', t.drawRow env vt n cols = .ok vt' ∧ vt'.closed = false ∧
      vt'.lines[n]? = some (rowTextP env t.colWidth 0 (cols.take t.maxCols.toNat)) ∧
      (∀ j x, j ≠ n → vt.lines[j]? = some x → vt'.lines[j]? = some x) := by
  unfold TableWriter.drawRow
  rw [rowText_eq env t.maxCols t.colWidth cols (by rw [hcw, List.length_take]; omega)]
  exact vt_write_ok vt ho n _

theorem redraw_ok (env : Env) (t : TableWriter) (hcw : t.colWidth.length = t.maxCols.toNat) (rows : List (List Bytes)) :
    ∀ n, n ≤ rows.length → ∀ vt : VirtualTerm, vt.closed = false →
    ∃ vt', (List.range n).foldlM (redrawStep env t rows) vt = .ok vt' ∧ vt'.closed = false ∧
      (∀ i r, i < n → rows[i]? = some r → vt'.lines[i]? = some (rowTextP env t.colWidth 0 (r.take t.maxCols.toNat))) ∧
      (∀ j x, n ≤ j → vt.lines[j]? = some x → vt'.lines[j]? = some x) := by
  intro n
  induction n with
  | zero =>
    intro _ vt ho
    exact ⟨vt, rfl, ho, by intro i r hi; omega, fun j x _ h => h⟩
  | succ n ih =>
    intro hn vt ho
    obtain ⟨vt1, hf1, ho1, hd1, hk1⟩ := ih (by omega) vt ho
    have hlt : n < rows.length := by omega
    obtain ⟨vt2, hf2, ho2, hd2, hk2⟩ := drawRow_ok env t hcw vt1 ho1 n (rows.getD n [])
    refine ⟨vt2, ?_, ho2, ?_, ?_⟩
    · rw [List.range_succ, List.foldlM_append, hf1]
      show List.foldlM (redrawStep env t rows) vt1 [n] = _
      rw [foldlM_singleton]
      unfold redrawStep
      rw [getIdx_nat rows n [] hlt]
      exact hf2
    · intro i r hi hr
      by_cases hin : i = n
      · subst hin
        have : rows.getD i [] = r := by simp [List.getD, hr]
        rw [← this]; exact hd2
      · exact hk2 i _ hin (hd1 i r (by omega) hr)
    · intro j x hj hx
      exact hk2 j x (by omega) (hk1 j x (by omega) hx)

theorem writeRow_unfold (env : Env) (t : TableWriter) (vt : VirtualTerm) (n : Nat) (cols : List Bytes)
    (hge : ¬ ((n : Int) ≥ t.maxRows)) (hn : n < t.rows.length) (cw' : List Int) (need : Bool)
    (hw : TableWriter.widen env t.maxCols cols t.colWidth = .ok (cw', need)) :
    t.writeRow env vt (n : Int) cols =
      (let active := if (n : Int) ≥ t.activeRows then (n : Int) + 1 else t.activeRows
       let t' : TableWriter := { t with activeRows := active, rows := t.rows.set n cols, colWidth := cw' }
       if need then do
         let vt' ← (List.range active.toNat).foldlM (redrawStep env t' (t.rows.set n cols)) vt
         pure (t', vt')
       else do
         let vt' ← t'.drawRow env vt n cols
         pure (t', vt')) := by
  unfold TableWriter.writeRow
  rw [if_neg hge]
  simp only [setIdx_nat t.rows n cols hn, hw, bind, Except.bind, pure, Except.pure]
  cases need <;> rfl

theorem getElem?_set_ne' {α : Type} (l : List α) (n i : Nat) (x : α) (h : i ≠ n) : (l.set n x)[i]? = l[i]? := by
  rw [List.getElem?_set]; rw [if_neg (by omega)]

theorem getElem?_set_self' {α : Type} (l : List α) (n : Nat) (x : α) (h : n < l.length) : (l.set n x)[n]? = some x := by
  rw [List.getElem?_set]; simp [h]

/-- `WriteRow(n, cols...)` keeps the invariant, never panics, and only widens columns -/
theorem writeRow_inv (env : Env) (t : TableWriter) (vt : VirtualTerm) (h : TableInv env t vt) (n : Nat) (cols : List Bytes) :
    ∃ t' vt', t.writeRow env vt (n : Int) cols = .ok (t', vt') ∧ TableInv env t' vt' ∧
      t'.maxCols = t.maxCols ∧ t'.maxRows = t.maxRows ∧ t.activeRows ≤ t'.activeRows ∧
      (∀ k, t.colWidth.getD k 0 ≤ t'.colWidth.getD k 0) ∧
      t'.rows = (if (n : Int) ≥ t.maxRows then t.rows else t.rows.set n cols) ∧
      (∀ j x, t'.activeRows.toNat ≤ j → vt.lines[j]? = some x → vt'.lines[j]? = some x) := by
  by_cases hge : (n : Int) ≥ t.maxRows
  · refine ⟨t, vt, ?_, h, rfl, rfl, Int.le_refl _, fun _ => Int.le_refl _, by rw [if_pos hge], fun j x _ hx => hx⟩
    unfold TableWriter.writeRow; rw [if_pos hge]; rfl
  · have hmr := h.mr_nonneg
    have hn : n < t.rows.length := by rw [h.rows_len]; omega
    have htk : (cols.take t.maxCols.toNat).length ≤ t.colWidth.length := by rw [h.cw_len, List.length_take]; omega
    obtain ⟨cw', need, hw, hlen, hmono, hfitc, hsame⟩ := widen_ok env t.maxCols cols t.colWidth htk
    rw [writeRow_unfold env t vt n cols hge hn cw' need hw]
    have hal := h.active_lo
    have hah := h.active_hi
    -- the new state
    generalize hact : (if (n : Int) ≥ t.activeRows then (n : Int) + 1 else t.activeRows) = active
    have hact_lo : t.activeRows ≤ active := by rw [← hact]; split <;> omega
    have hact_n : (n : Int) < active := by rw [← hact]; split <;> omega
    have hact_hi : active ≤ t.maxRows := by rw [← hact]; split <;> omega
    have hact_eq : active = t.activeRows ∨ active = (n : Int) + 1 := by rw [← hact]; split <;> simp
    -- properties that do not depend on the drawing
    have hbeyond : ∀ (i : Nat) (r : List Bytes), (t.rows.set n cols)[i]? = some r → active.toNat ≤ i → r = [] := by
      intro i r hr hi
      have hin : i ≠ n := by omega
      rw [getElem?_set_ne' _ _ _ _ hin] at hr
      exact h.beyond i r hr (by omega)
    have hfit : ∀ (i : Nat) (r : List Bytes) (k : Nat) (c : Bytes), (t.rows.set n cols)[i]? = some r →
        (r.take t.maxCols.toNat)[k]? = some c → strLen env c ≤ cw'.getD k 0 := by
      intro i r k c hr hc
      by_cases hin : i = n
      · subst hin
        rw [getElem?_set_self' _ _ _ hn] at hr
        cases hr
        exact hfitc k c hc
      · rw [getElem?_set_ne' _ _ _ _ hin] at hr
        exact Int.le_trans (h.fit i r k c hr hc) (hmono k)
    cases need with
    | true =>
      simp only [if_true]
      have hcw' : ({ t with activeRows := active, rows := t.rows.set n cols, colWidth := cw' } : TableWriter).colWidth.length
          = ({ t with activeRows := active, rows := t.rows.set n cols, colWidth := cw' } : TableWriter).maxCols.toNat := by
        show cw'.length = t.maxCols.toNat
        rw [hlen, h.cw_len]
      obtain ⟨vt', hf, ho, hd, hk⟩ := redraw_ok env _ hcw' (t.rows.set n cols) active.toNat
        (by rw [List.length_set, h.rows_len]; omega) vt h.vt_open
      refine ⟨{ t with activeRows := active, rows := t.rows.set n cols, colWidth := cw' }, vt', by rw [hf]; rfl, ?_, rfl, rfl,
        hact_lo, hmono, by rw [if_neg hge], hk⟩
      exact {
        mc_nonneg := h.mc_nonneg, mr_nonneg := h.mr_nonneg
        cw_len := by show cw'.length = t.maxCols.toNat; rw [hlen, h.cw_len]
        rows_len := by show (t.rows.set n cols).length = _; rw [List.length_set, h.rows_len]
        active_lo := by show 0 ≤ active; omega
        active_hi := hact_hi
        vt_open := ho
        cw_nonneg := fun k => Int.le_trans (h.cw_nonneg k) (hmono k)
        beyond := hbeyond
        drawn := by
          intro i r hr hne
          have hi : i < active.toNat := by
            rcases Nat.lt_or_ge i active.toNat with hlt | hge'
            · exact hlt
            · exact absurd (hbeyond i r hr hge') hne
          exact hd i r hi hr
        fit := hfit }
    | false =>
      have hcw : cw' = t.colWidth := hsame rfl
      subst hcw
      simp only [Bool.false_eq_true, if_false]
      have hcw' : ({ t with activeRows := active, rows := t.rows.set n cols, colWidth := t.colWidth } : TableWriter).colWidth.length
          = ({ t with activeRows := active, rows := t.rows.set n cols, colWidth := t.colWidth } : TableWriter).maxCols.toNat := h.cw_len
      obtain ⟨vt', hf, ho, hd, hk⟩ := drawRow_ok env _ hcw' vt h.vt_open n cols
      refine ⟨{ t with activeRows := active, rows := t.rows.set n cols, colWidth := t.colWidth }, vt', by rw [hf]; rfl, ?_, rfl, rfl,
        hact_lo, hmono, by rw [if_neg hge], ?_⟩
      · exact {
          mc_nonneg := h.mc_nonneg, mr_nonneg := h.mr_nonneg
          cw_len := h.cw_len
          rows_len := by show (t.rows.set n cols).length = _; rw [List.length_set, h.rows_len]
          active_lo := by show 0 ≤ active; omega
          active_hi := hact_hi
          vt_open := ho
          cw_nonneg := h.cw_nonneg
          beyond := hbeyond
          drawn := by
            intro i r hr hne
            by_cases hin : i = n
            · subst hin
              rw [getElem?_set_self' _ _ _ hn] at hr
              cases hr
              exact hd
            · rw [getElem?_set_ne' _ _ _ _ hin] at hr
              exact hk i _ hin (h.drawn i r hr hne)
          fit := hfit }
      · intro j x hj hx
        exact hk j x (by show j ≠ n; have : ({ t with activeRows := active, rows := t.rows.set n cols, colWidth := t.colWidth } : TableWriter).activeRows = active := rfl
                         rw [this] at hj; omega) hx

/-- `WriteFooter(idx, line)` for `idx ≥ 0` writes below the rows: the invariant is kept -/
theorem writeFooter_inv (env : Env) (t : TableWriter) (vt : VirtualTerm) (h : TableInv env t vt) (idx : Nat) (line : Bytes) :
    ∃ vt', t.writeFooter vt (idx : Int) line = .ok vt' ∧ TableInv env t vt' ∧
      vt'.lines[t.activeRows.toNat + idx]? = some line := by
  unfold TableWriter.writeFooter
  have hal := h.active_lo
  have hcast : t.activeRows + (idx : Int) = ((t.activeRows.toNat + idx : Nat) : Int) := by omega
  rw [hcast]
  obtain ⟨vt', hf, ho, hd, hk⟩ := vt_write_ok vt h.vt_open (t.activeRows.toNat + idx) line
  refine ⟨vt', hf, ?_, hd⟩
  exact { h with
    vt_open := ho
    drawn := by
      intro i r hr hne
      have hi : i < t.activeRows.toNat := by
        rcases Nat.lt_or_ge i t.activeRows.toNat with hlt | hge'
        · exact hlt
        · exact absurd (h.beyond i r hr hge') hne
      exact hk i _ (by omega) (h.drawn i r hr hne) }

/-! ### every sequence of calls -/

/-- the calls the renderers make: row numbers and footer indices are never negative -/
def TableOp.NonNeg : TableOp → Prop
  | .row n _ => 0 ≤ n
  | .footer idx _ => 0 ≤ idx

/-- the rows a table remembers after a sequence of calls: the latest cells of every row below `maxRows` -/
def rowsAfter (maxRows : Int) (rows : List (List Bytes)) (ops : List TableOp) : List (List Bytes) :=
  ops.foldl (fun rows op => match op with
    | .row n cols => if n ≥ maxRows then rows else rows.set n.toNat cols
    | .footer _ _ => rows) rows

theorem new_inv (env : Env) (mc mr : Int) (hmc : 0 ≤ mc) (hmr : 0 ≤ mr) :
    ∃ t, TableWriter.new mc mr = .ok t ∧ TableInv env t VirtualTerm.new ∧ t.maxCols = mc ∧ t.maxRows = mr ∧
      t.rows = List.replicate mr.toNat [] ∧ t.colWidth = List.replicate mc.toNat 0 := by
  unfold TableWriter.new makeSlice
  have h1 : ¬ (mr < 0) := by omega
  have h2 : ¬ (mc < 0) := by omega
  simp only [h1, h2, if_false, bind, Except.bind, pure, Except.pure]
  refine ⟨_, rfl, ?_, rfl, rfl, rfl, rfl⟩
  exact {
    mc_nonneg := hmc, mr_nonneg := hmr
    cw_len := by simp
    rows_len := by simp
    active_lo := Int.le_refl _
    active_hi := hmr
    vt_open := rfl
    cw_nonneg := by
      intro k
      simp only [List.getD_eq_getElem?_getD, List.getElem?_replicate]
      split <;> simp
    beyond := by
      intro i r hr _
      simp only [List.getElem?_replicate] at hr
      split at hr
      · cases hr; rfl
      · cases hr
    drawn := by
      intro i r hr hne
      simp only [List.getElem?_replicate] at hr
      split at hr
      · cases hr; exact absurd rfl hne
      · cases hr
    fit := by
      intro i r k c hr hc
      simp only [List.getElem?_replicate] at hr
      split at hr
      · cases hr; simp at hc
      · cases hr }

theorem apply_inv (env : Env) (t : TableWriter) (vt : VirtualTerm) (h : TableInv env t vt) (op : TableOp) (hop : op.NonNeg) :
    ∃ t' vt', TableWriter.apply env (t, vt) op = .ok (t', vt') ∧ TableInv env t' vt' ∧
      t'.maxCols = t.maxCols ∧ t'.maxRows = t.maxRows ∧ t.activeRows ≤ t'.activeRows ∧
      (∀ k, t.colWidth.getD k 0 ≤ t'.colWidth.getD k 0) ∧ t'.rows = rowsAfter t.maxRows t.rows [op] := by
  cases op with
  | row n cols =>
    have hn : n = ((n.toNat : Nat) : Int) := by have : 0 ≤ n := hop; omega
    obtain ⟨t', vt', hf, hinv, h1, h2, h3, h4, h5, _⟩ := writeRow_inv env t vt h n.toNat cols
    rw [← hn] at hf h5
    exact ⟨t', vt', hf, hinv, h1, h2, h3, h4, h5⟩
  | footer idx line =>
    have hn : idx = ((idx.toNat : Nat) : Int) := by have : 0 ≤ idx := hop; omega
    obtain ⟨vt', hf, hinv, _⟩ := writeFooter_inv env t vt h idx.toNat line
    rw [← hn] at hf
    refine ⟨t, vt', ?_, hinv, rfl, rfl, Int.le_refl _, fun _ => Int.le_refl _, rfl⟩
    show (do let vt ← t.writeFooter vt idx line; (pure (t, vt) : Res (TableWriter × VirtualTerm))) = _
    rw [hf]; rfl

/-- EVERY sequence of `WriteRow` / `WriteFooter` calls: no panic, the invariant holds at the end, widths only grow -/
theorem runOps_inv (env : Env) : ∀ (ops : List TableOp) (t : TableWriter) (vt : VirtualTerm), TableInv env t vt →
    (∀ op ∈ ops, op.NonNeg) →
    ∃ t' vt', TableWriter.runOps env (t, vt) ops = .ok (t', vt') ∧ TableInv env t' vt' ∧
      t'.maxCols = t.maxCols ∧ t'.maxRows = t.maxRows ∧ t.activeRows ≤ t'.activeRows ∧
      (∀ k, t.colWidth.getD k 0 ≤ t'.colWidth.getD k 0) ∧ t'.rows = rowsAfter t.maxRows t.rows ops := by
  intro ops
  induction ops with
  | nil =>
    intro t vt h _
    exact ⟨t, vt, rfl, h, rfl, rfl, Int.le_refl _, fun _ => Int.le_refl _, rfl⟩
  | cons op rest ih =>
    intro t vt h hops
    obtain ⟨t1, vt1, hf1, hinv1, hmc1, hmr1, ha1, hw1, hr1⟩ := apply_inv env t vt h op (hops op (by simp))
    obtain ⟨t2, vt2, hf2, hinv2, hmc2, hmr2, ha2, hw2, hr2⟩ := ih t1 vt1 hinv1 (fun o ho => hops o (by simp [ho]))
    refine ⟨t2, vt2, ?_, hinv2, by rw [hmc2, hmc1], by rw [hmr2, hmr1], Int.le_trans ha1 ha2,
      fun k => Int.le_trans (hw1 k) (hw2 k), ?_⟩
    · unfold TableWriter.runOps
      rw [List.foldlM_cons, hf1]
      exact hf2
    · rw [hr2, hr1, hmr1]; rfl

/-! ### alignment -/

/-- total visible width of the `k` columns from column `n` on, each with its separating blank -/
def widthSum (cw : List Int) : Nat → Nat → Int
  | _, 0 => 0
  | n, k + 1 => cw.getD n 0 + 1 + widthSum cw (n + 1) k

/-- the visible offset at which column `k` starts: `Σ_{j<k} (colWidth[j] + 1)` -/
def colOffset (cw : List Int) (k : Nat) : Int := widthSum cw 0 k

theorem cellText_eq (env : Env) (w : Int) (c : Bytes) :
    cellText env w c = c ++ List.replicate ((w - strLen env c).toNat + 1) (32 : UInt8) := by
  simp [cellText, spaces, List.replicate_succ', List.append_assoc]

theorem strLen_rowTextP (env : Env) (cw : List Int) : ∀ (row : List Bytes) (n : Nat) (rest : Bytes),
    (∀ c ∈ row, Terminated env c) → (∀ j c, row[j]? = some c → strLen env c ≤ cw.getD (n + j) 0) →
    strLen env (rowTextP env cw n row ++ rest) = widthSum cw n row.length + strLen env rest := by
  intro row
  induction row with
  | nil => intro n rest _ _; simp [rowTextP, widthSum]
  | cons c row ih =>
    intro n rest ht hf
    have hc := hf 0 c (by simp)
    have h0 := strLen_nonneg env c
    simp only [rowTextP, List.length_cons, widthSum]
    rw [cellText_eq, List.append_assoc, strLen_cell_append env c _ _ (ht c (by simp))]
    rw [ih (n + 1) rest (fun c' hc' => ht c' (by simp [hc'])) (fun j c' hj => by
      have := hf (j + 1) c' (by simpa using hj)
      rw [show n + 1 + j = n + (j + 1) by omega]; exact this)]
    simp only [Nat.add_zero] at hc
    omega

theorem rowTextP_split (env : Env) (cw : List Int) : ∀ (row : List Bytes) (n k : Nat),
    rowTextP env cw n row = rowTextP env cw n (row.take k) ++ rowTextP env cw (n + k) (row.drop k) := by
  intro row
  induction row with
  | nil => intro n k; simp [rowTextP]
  | cons c row ih =>
    intro n k
    cases k with
    | zero => simp [rowTextP]
    | succ k =>
      simp only [List.take_succ_cons, List.drop_succ_cons, rowTextP, List.append_assoc]
      rw [ih (n + 1) k, show n + 1 + k = n + (k + 1) by omega]

/-- in a row drawn with the widths `cw`, cell `k` starts at visible offset `colOffset cw k` – whatever
the cells contain (multi-byte, invalid UTF-8, colour sequences), provided the cells before it do not
end inside a colour sequence – and it ends before the next column starts -/
theorem cell_position (env : Env) (cw : List Int) (row : List Bytes) (k : Nat) (c : Bytes) (hk : row[k]? = some c)
    (hterm : ∀ j c', j < k → row[j]? = some c' → Terminated env c')
    (hfit : ∀ j c', row[j]? = some c' → strLen env c' ≤ cw.getD j 0) :
    ∃ pre post, rowTextP env cw 0 row = pre ++ c ++ post ∧ strLen env pre = colOffset cw k ∧
      colOffset cw k + strLen env c < colOffset cw (k + 1) := by
  have hlt : k < row.length := by
    rcases Nat.lt_or_ge k row.length with h | h
    · exact h
    · rw [List.getElem?_eq_none h] at hk; cases hk
  have hdrop : row.drop k = c :: row.drop (k + 1) := by
    rw [List.drop_eq_getElem_cons hlt]
    congr 1
    rw [List.getElem?_eq_getElem hlt] at hk
    exact Option.some.inj hk
  refine ⟨rowTextP env cw 0 (row.take k), spaces (cw.getD k 0 - strLen env c) ++ [32] ++ rowTextP env cw (k + 1) (row.drop (k + 1)), ?_, ?_, ?_⟩
  · rw [rowTextP_split env cw row 0 k, hdrop]
    simp [rowTextP, cellText, List.append_assoc]
  · have h := strLen_rowTextP env cw (row.take k) 0 []
      (by
        intro c' hc'
        obtain ⟨j, hj, hjc⟩ := List.mem_iff_getElem.mp hc'
        have hjk : j < k := by simp at hj; omega
        apply hterm j c' hjk
        rw [List.getElem_take] at hjc
        rw [List.getElem?_eq_getElem (by simp at hj; omega), hjc])
      (by
        intro j c' hj
        rw [List.getElem?_take] at hj
        split at hj
        · simpa using hfit j c' hj
        · cases hj)
    rw [List.append_nil, strLen_nil, Int.add_zero] at h
    rw [h, List.length_take, Nat.min_eq_left (by omega)]
    rfl
  · have hw : ∀ k, colOffset cw (k + 1) = colOffset cw k + (cw.getD k 0 + 1) := by
      intro k
      unfold colOffset
      have : ∀ (m n : Nat), widthSum cw n (m + 1) = widthSum cw n m + (cw.getD (n + m) 0 + 1) := by
        intro m
        induction m with
        | zero => intro n; simp [widthSum]
        | succ m ih =>
          intro n
          rw [widthSum, ih (n + 1), widthSum, show n + 1 + m = n + (m + 1) by omega]
          omega
      simpa using this k 0
    rw [hw k]
    have := hfit k c hk
    omega

theorem colOffset_succ (cw : List Int) (k : Nat) : colOffset cw (k + 1) = colOffset cw k + (cw.getD k 0 + 1) := by
  unfold colOffset
  have : ∀ (m n : Nat), widthSum cw n (m + 1) = widthSum cw n m + (cw.getD (n + m) 0 + 1) := by
    intro m
    induction m with
    | zero => intro n; simp [widthSum]
    | succ m ih =>
      intro n
      rw [widthSum, ih (n + 1), widthSum, show n + 1 + m = n + (m + 1) by omega]
      omega
  simpa using this k 0

/-! ### the invariant gives alignment -/

theorem table_cell_position (env : Env) (t : TableWriter) (vt : VirtualTerm) (h : TableInv env t vt)
    (i : Nat) (r : List Bytes) (hr : t.rows[i]? = some r) (k : Nat) (c : Bytes) (hc : (r.take t.maxCols.toNat)[k]? = some c)
    (hterm : ∀ j c', j < k → r[j]? = some c' → Terminated env c') :
    ∃ pre post, vt.lines[i]? = some (pre ++ c ++ post) ∧ strLen env pre = colOffset t.colWidth k ∧
      colOffset t.colWidth k + strLen env c < colOffset t.colWidth (k + 1) ∧
      (k : Int) < t.maxCols ∧ (i : Int) < t.maxRows := by
  have hne : r ≠ [] := by intro h0; subst h0; simp at hc
  have hd := h.drawn i r hr hne
  have hk : k < t.maxCols.toNat ∧ r[k]? = some c := by
    rw [List.getElem?_take] at hc
    split at hc
    · rename_i hlt; exact ⟨hlt, hc⟩
    · cases hc
  obtain ⟨pre, post, heq, hpre, hend⟩ := cell_position env t.colWidth (r.take t.maxCols.toNat) k c hc
    (by
      intro j c' hj hjc
      rw [List.getElem?_take] at hjc
      split at hjc
      · exact hterm j c' hj hjc
      · cases hjc)
    (fun j c' hj => h.fit i r j c' hr hj)
  refine ⟨pre, post, by rw [hd, heq], hpre, hend, ?_, ?_⟩
  · have := h.mc_nonneg; omega
  · have hi : i < t.rows.length := by
      rcases Nat.lt_or_ge i t.rows.length with hh | hh
      · exact hh
      · rw [List.getElem?_eq_none hh] at hr; cases hr
    rw [h.rows_len] at hi
    have := h.mr_nonneg; omega

theorem colOffset_zero (cw : List Int) : colOffset cw 0 = 0 := rfl

theorem table_spec_aligned (env : Env) (t : TableWriter) (vt : VirtualTerm) (h : TableInv env t vt)
    (rs : List (List Bytes × Bytes))
    (hrs : ∀ p ∈ rs, ∃ (i : Nat) (r : List Bytes), t.rows[i]? = some r ∧ vt.lines[i]? = some p.2 ∧ p.1 = r.take t.maxCols.toNat ∧
      ∀ c ∈ p.1, Terminated env c) :
    Spec.Aligned (strLen env) rs := by
  refine ⟨colOffset t.colWidth, colOffset_zero _, ?_, ?_⟩
  · intro k
    rw [colOffset_succ]
    have := h.cw_nonneg k
    omega
  · intro p hp k cell hcell
    obtain ⟨i, r, hr, hline, hp1, hterm⟩ := hrs p hp
    rw [hp1] at hcell
    obtain ⟨pre, post, hl, hpre, hend, _, _⟩ := table_cell_position env t vt h i r hr k cell hcell
      (by
        intro j c' hj hjc
        apply hterm c'
        rw [hp1]
        have hk : k < t.maxCols.toNat := by
          rw [List.getElem?_take] at hcell
          split at hcell
          · assumption
          · cases hcell
        apply List.mem_of_getElem? (i := j)
        rw [List.getElem?_take, if_pos (by omega)]
        exact hjc)
    refine ⟨pre, post, ?_, hpre, hend⟩
    rw [hline] at hl
    exact Option.some.inj hl

/-! ### `StrLen` is the visible width -/

theorem strLenGo_visible : ∀ (l : List Nat) (n : Nat),
    strLenGo false l n = n + (visibleRunes l).length ∧ strLenGo true l n = n + (visibleRunes.skipSgr l).length := by
  intro l
  induction l with
  | nil => intro n; simp [strLenGo, visibleRunes, visibleRunes.skipSgr]
  | cons r rest ih =>
    intro n
    constructor
    · simp only [strLenGo, visibleRunes, ESC]
      by_cases h : r = 27
      · simp only [h, if_true]; exact (ih n).2
      · simp only [h, if_false, Bool.false_and, Bool.false_eq_true, Bool.not_false, if_true, List.length_cons]
        rw [(ih (n + 1)).1]; omega
    · simp only [strLenGo, visibleRunes.skipSgr]
      by_cases h : r = 27
      · simp only [h, if_true]
        have : ¬ ((27 : Nat) = 109) := by decide
        simp only [this, if_false]
        exact (ih n).2
      · simp only [h, if_false, Bool.true_and, decide_eq_true_eq]
        by_cases h2 : r = 109
        · simp only [h2, if_true]; exact (ih n).1
        · simp only [h2, if_false, Bool.not_true, Bool.false_eq_true]; exact (ih n).2

theorem strLen_colour (env : Env) (s : Bytes) (hc : env.color = true) : strLen env s = (Spec.visLen s : Nat) := by
  unfold strLen Spec.visLen
  simp only [hc, Bool.not_true, Bool.false_eq_true, if_false]
  rw [(strLenGo_visible _ 0).1]; simp

theorem strLen_plain (env : Env) (s : Bytes) (hc : env.color = false) : strLen env s = ((decodeUtf8 s).length : Nat) := by
  unfold strLen
  simp [hc]

end Rare.C14
