import Rare.Model.C09
/-! C09: the decimal spelling of a group number reads back as that number (`strconv.Atoi` model). -/
namespace Rare.C09
open Rare Rare.Expr

def decimalBytes (n : Nat) : Bytes :=
  if _h : n < 10 then [UInt8.ofNat (48 + n)] else decimalBytes (n / 10) ++ [UInt8.ofNat (48 + n % 10)]
decreasing_by omega

theorem utf8_digit : ∀ d, d < 10 → utf8 [digitChar d] = [UInt8.ofNat (48 + d)] := by decide

theorem utf8_append (a b : List Char) : utf8 (a ++ b) = utf8 a ++ utf8 b := by simp [utf8]

theorem utf8_decimal (n : Nat) : utf8 (decimal n) = decimalBytes n := by
  induction n using Nat.strongRecOn with
  | _ n ih =>
    rw [decimal, decimalBytes]
    by_cases h : n < 10
    · simp only [h, dif_pos]; exact utf8_digit n h
    · simp only [h, dif_neg, not_false_eq_true]
      rw [utf8_append, ih (n / 10) (by omega), utf8_digit (n % 10) (by omega)]

theorem digitsVal_snoc (l : Bytes) (b : UInt8) (acc : Nat) :
    digitsVal (l ++ [b]) acc = digitsVal l acc * 10 + (b.toNat - 48) := by
  induction l generalizing acc with
  | nil => simp [digitsVal]
  | cons c l ih => simp [digitsVal, ih]

theorem ofNat_digit_toNat (d : Nat) (h : d < 10) : (UInt8.ofNat (48 + d)).toNat - 48 = d := by
  revert d; decide

theorem digitsVal_decimal (n : Nat) : digitsVal (decimalBytes n) 0 = n := by
  induction n using Nat.strongRecOn with
  | _ n ih =>
    rw [decimalBytes]
    by_cases h : n < 10
    · simp only [h, dif_pos]; simp [digitsVal]; omega
    · simp only [h, dif_neg, not_false_eq_true]
      rw [digitsVal_snoc, ih (n / 10) (by omega), ofNat_digit_toNat _ (by omega)]
      omega

theorem isDigit_ofNat (d : Nat) (h : d < 10) : isDigitB (UInt8.ofNat (48 + d)) = true := by
  revert d; decide

theorem all_digit_decimal (n : Nat) : (decimalBytes n).all isDigitB = true := by
  induction n using Nat.strongRecOn with
  | _ n ih =>
    rw [decimalBytes]
    by_cases h : n < 10
    · simp only [h, dif_pos, List.all_cons, List.all_nil, isDigit_ofNat n h, Bool.and_true]
    · simp only [h, dif_neg, not_false_eq_true]
      rw [List.all_append, ih (n / 10) (by omega)]
      simp only [List.all_cons, List.all_nil, isDigit_ofNat _ (show n % 10 < 10 by omega), Bool.and_true]

theorem decimalBytes_ne_nil (n : Nat) : decimalBytes n ≠ [] := by
  rw [decimalBytes]; by_cases h : n < 10 <;> simp [h]

theorem atoi_digits (l : Bytes) (hne : l ≠ []) (hall : l.all isDigitB = true)
    (hr : Int.ofNat (digitsVal l 0) ≤ maxInt64) : atoi l = some (Int.ofNat (digitsVal l 0)) := by
  cases l with
  | nil => exact absurd rfl hne
  | cons b r =>
    have hb : isDigitB b = true := by simp at hall; exact hall.1
    have h43 : b ≠ 43 := by intro h; subst h; revert hb; decide
    have h45 : b ≠ 45 := by intro h; subst h; revert hb; decide
    unfold atoi
    split
    next neg ds heq =>
      split at heq
      · next r' h => cases h; exact absurd rfl h43
      · next r' h => cases h; exact absurd rfl h45
      · cases heq
        have hin : inInt64 (Int.ofNat (digitsVal (b :: r) 0)) = true := by
          simp only [inInt64, Bool.and_eq_true, decide_eq_true_eq]
          refine ⟨?_, hr⟩
          have : (0 : Int) ≤ Int.ofNat (digitsVal (b :: r) 0) := Int.natCast_nonneg _
          simp only [minInt64]; omega
        simp only [hall, List.isEmpty_cons, Bool.false_eq_true, Bool.not_true, Bool.or_false, if_false]
        simp only [Int.ofNat_eq_natCast] at hin ⊢
        simp [hin]

theorem atoi_decimal (n : Nat) (h : (n : Int) ≤ maxInt64) : atoi (utf8 (decimal n)) = some (n : Int) := by
  rw [utf8_decimal]
  have := atoi_digits (decimalBytes n) (decimalBytes_ne_nil n) (all_digit_decimal n) (by rw [digitsVal_decimal]; exact h)
  rw [this, digitsVal_decimal]; rfl

end Rare.C09
