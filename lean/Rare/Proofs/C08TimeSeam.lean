import Rare.Model.Expr.Funcs.TimeW
import Rare.Model.C18Zone
/-!
C08 / C18 seam: the tail of `time.parse` as the expression model has it (`Funcs/TimeW.lean` `timeOfParsed`,
written against the oracles of a time world) and as the zone-table model of C18 has it
(`Rare/Model/C18Zone.lean` `instantInN`, written against a transition table) are two hand mirrors of the same Go
code.  Here a table is made a time world (`tabWorld`) and the two are proved to name the SAME instant for every
table, every zone list and every parsed text – the numeric offset, the abbreviation the location knows (both loops
of `Location.lookupName`), the fabricated zone of an abbreviation it does not know (`GMT+3` included: the instant
is NOT shifted), and no zone at all (`time.Date`'s two look-ups).
-/
namespace Rare.Expr.Funcs.TimeW
open Rare Rare.Expr

/-- A `Seg` of the table as what `Location.lookup` returns (`alpha` / `omega` for the open ends). -/
def segInfo (s : C18.Seg) : ZoneInfo := ⟨s.abbr, s.off, s.start.getD alpha, s.stop.getD omega⟩

/-- A transition table and a zone list as a time world: every location except `time.UTC` answers from the table;
    nothing else is known (no dateparse, no wall clock). -/
def tabWorld (z : C18.ZoneTab) (zones : List (Bytes × Int)) : TimeWorld :=
  { loadOk := fun _ => some true,
    zones := fun _ => zones,
    lookup := fun _ u => .ret (segInfo (z.lookup u)),
    detect := fun _ => .ret none,
    parseAny := fun _ _ => .ret none,
    nowBuild := .ret [], nowLive := .ret [], nowDelta := .ret [],
    lib := fun _ => .ret [] }

variable (z : C18.ZoneTab) (zones : List (Bytes × Int))

theorem lookupL_tab {loc : C18.Loc} (hl : loc ≠ .utc) (u : Int) :
    lookupL (tabWorld z zones) loc u = .ret (segInfo (z.lookup u)) := by
  cases loc with
  | utc => exact absurd rfl hl
  | «local» => rfl
  | named n => rfl

theorem zonesL_tab {loc : C18.Loc} (hl : loc ≠ .utc) : zonesL (tabWorld z zones) loc = zones := by
  cases loc with
  | utc => exact absurd rfl hl
  | «local» => rfl
  | named n => rfl

theorem lookupNameFirst_tab {loc : C18.Loc} (hl : loc ≠ .utc) (name : Bytes) (unix : Int) (zs : List (Bytes × Int)) :
    lookupNameFirst (tabWorld z zones) loc name unix zs = .ret (C18.lookupNameFirst z name unix zs) := by
  induction zs with
  | nil => rfl
  | cons e rest ih =>
    obtain ⟨zn, zoff⟩ := e
    simp only [lookupNameFirst, C18.lookupNameFirst]
    by_cases hn : zn = name
    · simp only [hn, if_true, lookupL_tab z zones hl]
      show (if (segInfo (z.lookup (unix - zoff))).name = name then _ else _) = _
      by_cases ha : (z.lookup (unix - zoff)).abbr = name
      · have : (segInfo (z.lookup (unix - zoff))).name = name := ha
        simp only [this, ha, if_true]; rfl
      · have : ¬ (segInfo (z.lookup (unix - zoff))).name = name := ha
        simp only [this, ha, if_false]
        rw [← hn] at ih ⊢
        simpa [hn] using ih
    · simp only [hn, if_false]; exact ih

theorem lookupName_tab {loc : C18.Loc} (hl : loc ≠ .utc) (name : Bytes) (unix : Int) :
    lookupName (tabWorld z zones) loc name unix = .ret (C18.lookupNameIn z zones name unix) := by
  unfold lookupName C18.lookupNameIn
  rw [zonesL_tab z zones hl, lookupNameFirst_tab z zones hl]
  show (match C18.lookupNameFirst z name unix zones with
    | some off => (pure (some off) : Comp (Option Int))
    | none => _) = _
  cases C18.lookupNameFirst z name unix zones with
  | some o => rfl
  | none =>
    simp only []
    cases zones.find? (fun e => e.1 == name) <;> rfl

/-- The wall clock minus the offset found for it is an `int64` below `MaxInt64` – what makes Go's `alpha` / `omega`
    stand for "no bound" (`utc < alpha`, `utc ≥ omega` never hold).  True for every text `time.Parse` accepts (years
    0…9999) in every zone whose offsets are below 2^61 seconds (`wallInRange_of_bounds`). -/
def WallInRange (w : Int) : Prop := alpha ≤ w - (z.lookup w).off ∧ w - (z.lookup w).off < omega

theorem dateResolve_tab {loc : C18.Loc} (hl : loc ≠ .utc) (w : Int) (hr : WallInRange z w) :
    dateResolve (tabWorld z zones) loc w = .ret (C18.dateIn z w) := by
  unfold dateResolve C18.dateIn
  rw [lookupL_tab z zones hl]
  show (if (segInfo (z.lookup w)).off ≠ 0 then _ else _) = _
  have hoff : (segInfo (z.lookup w)).off = (z.lookup w).off := rfl
  by_cases h0 : (z.lookup w).off = 0
  · simp [hoff, h0]; rfl
  · have hcond : ((w - (z.lookup w).off < (segInfo (z.lookup w)).start ∨ w - (z.lookup w).off ≥ (segInfo (z.lookup w)).stop))
        ↔ (!C18.inSeg (z.lookup w) (w - (z.lookup w).off)) = true := by
      obtain ⟨ha, ho⟩ := hr
      simp only [segInfo, C18.inSeg, C18.geStart, C18.ltStop]
      cases hs : (z.lookup w).start <;> cases he : (z.lookup w).stop <;>
        simp [Option.getD] <;> omega
    simp only [hoff, ne_eq, h0, not_false_eq_true, if_true]
    by_cases hc : (!C18.inSeg (z.lookup w) (w - (z.lookup w).off)) = true
    · have := hcond.mpr hc
      simp only [hc, if_true]
      rw [if_pos this, lookupL_tab z zones hl]; rfl
    · have := mt hcond.mp hc
      simp only [hc]
      rw [if_neg this]; rfl

/-- **The seam.**  In the world of a table, the tail of `time.parse` of the expression model lands on the instant the
    zone-table model of C18 computes, for every parsed text. -/
theorem timeOfParsed_tab {loc : C18.Loc} (hl : loc ≠ .utc) (p : C18.Parsed)
    (hr : p.zone = .default → WallInRange z (C18.wallSeconds p.dt)) :
    ∃ t, timeOfParsed (tabWorld z zones) loc p = .ret t ∧ t.unix = C18.instantInN z zones p ∧ t.nsec = p.dt.ns := by
  unfold timeOfParsed C18.instantInN
  cases hz : p.zone with
  | utc => exact ⟨_, rfl, rfl, rfl⟩
  | offset o => exact ⟨_, rfl, rfl, rfl⟩
  | name n =>
    simp only []
    rw [lookupName_tab z zones hl]
    show ∃ t, (match C18.lookupNameIn z zones n (C18.wallSeconds p.dt) with
      | some off => _
      | none => _) = Comp.ret t ∧ _
    cases C18.lookupNameIn z zones n (C18.wallSeconds p.dt) with
    | some off =>
      simp only []
      rw [lookupL_tab z zones hl]
      exact ⟨_, rfl, rfl, rfl⟩
    | none => exact ⟨_, rfl, rfl, rfl⟩
  | default =>
    simp only []
    rw [dateResolve_tab z zones hl _ (hr hz)]
    show ∃ t, (do let zz ← lookupL (tabWorld z zones) loc (C18.dateIn z (C18.wallSeconds p.dt)); pure _) = Comp.ret t ∧ _
    rw [lookupL_tab z zones hl]
    exact ⟨_, rfl, rfl, rfl⟩

/-- `WallInRange` from plain bounds: a wall clock and offsets up to 2^61 in size. -/
theorem wallInRange_of_bounds (w : Int) (hw : -2305843009213693952 ≤ w ∧ w ≤ 2305843009213693952)
    (ho : -2305843009213693952 ≤ (z.lookup w).off ∧ (z.lookup w).off ≤ 2305843009213693952) : WallInRange z w := by
  unfold WallInRange alpha omega
  simp only [minInt64, maxInt64]
  omega

/-- `time.UTC` as a table: one segment, no zone list (`utcLoc` has no zones; `lookup` answers `"UTC", 0`). -/
def utcTab : C18.ZoneTab := ⟨(0, C18.asc "UTC"), []⟩

/-- The seam for `time.UTC`, in EVERY time world (the world is not consulted). -/
theorem timeOfParsed_utc (w : TimeWorld) (p : C18.Parsed) :
    ∃ t, timeOfParsed w .utc p = .ret t ∧ t.unix = C18.instantInN utcTab [] p ∧ t.nsec = p.dt.ns := by
  unfold timeOfParsed C18.instantInN
  cases hz : p.zone with
  | utc => exact ⟨_, rfl, rfl, rfl⟩
  | offset o => exact ⟨_, rfl, rfl, rfl⟩
  | name n => exact ⟨_, rfl, rfl, rfl⟩
  | default => exact ⟨_, rfl, rfl, rfl⟩

/-- An abbreviation the location does not know – `GMT+3` included – leaves the instant where the wall clock read as
    UTC puts it, in every world: Go only does `t.setLoc(FixedZone(name, offset))`. -/
theorem timeOfParsed_unknown_abbr (w : TimeWorld) (loc : C18.Loc) (p : C18.Parsed) (n : Bytes) (hz : p.zone = .name n)
    (hn : lookupName w loc n (C18.wallSeconds p.dt) = .ret none) :
    ∃ t, timeOfParsed w loc p = .ret t ∧ t.unix = C18.wallSeconds p.dt ∧ t.abbr = n := by
  unfold timeOfParsed
  simp only [hz, hn]
  exact ⟨_, rfl, rfl, rfl⟩

/-- The witness of the slip this file was written after: `time.ParseInLocation(RFC1123, "Thu, 14 Apr 2016 17:12:25 GMT+3", UTC)`
    is 17:12:25 UTC (1460653945), shown in a zone of +3 h. -/
theorem gmt_plus3_witness :
    ∃ p, C18.parseLayout (C18.asc "Mon, 02 Jan 2006 15:04:05 MST") (C18.asc "Thu, 14 Apr 2016 17:12:25 GMT+3") = .ok p ∧
      p.zone = .name (C18.asc "GMT+3") ∧ C18.wallSeconds p.dt = 1460653945 ∧
      ∀ w, timeOfParsed w .utc p = .ret ⟨1460653945, 0, 10800, C18.asc "GMT+3"⟩ := by
  refine ⟨⟨⟨2016, 4, 14, 17, 12, 25, 0⟩, .name (C18.asc "GMT+3")⟩, by rfl, rfl, by decide +kernel, fun w => by rfl⟩

end Rare.Expr.Funcs.TimeW
