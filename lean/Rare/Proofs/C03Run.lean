import Rare.Proofs.C03Comp
import Rare.Proofs.C03Reduce
/-! Terminal states of the whole program together with the extractor counters the final render reads. -/
namespace Rare.C03
open Rare.Pipeline Rare.C01 Rare.C07

/-- `Terminal` plus the extractor's atomic counters (`MatchedLines`, `ReadLines`, `IgnoredLines`) in that
terminal state: what the summary line of the final render and `DetermineErrorState` read. -/
def TerminalC (cls : Line → Cls) (key : Line → Bytes) (cfg : Config) (datas : List Bytes) (sampled : List Bytes)
    (cnt : Counters) : Prop :=
  ∃ (s : St Line) (stream : List (List Bytes)) (a : AggLoop.St Bytes),
    Reach cls cfg.R cfg.B cfg.K (pipelineInit cfg datas) s ∧ s.consDone = true ∧
    stream.flatten = s.consumed.map key ∧
    AggLoop.Reach (AggLoop.init stream) a ∧ a.main = .finished ∧ sampled = a.sampled ∧
    cnt = ⟨s.nMatched, s.nRead, s.nIgnored⟩

/-- The counters of the sequential reference. -/
def refCounters (cls : Line → Cls) (datas : List Bytes) : Counters :=
  ⟨(seqTotals cls (allLines datas)).matched, (seqTotals cls (allLines datas)).read, (seqTotals cls (allLines datas)).ignored⟩

theorem TerminalC.terminal {cls : Line → Cls} {key : Line → Bytes} {cfg : Config} {datas : List Bytes}
    {sampled : List Bytes} {cnt : Counters} (h : TerminalC cls key cfg datas sampled cnt) :
    Terminal cls key cfg datas sampled := by
  obtain ⟨s, stream, a, h1, h2, h3, h4, h5, h6, _⟩ := h
  exact ⟨s, stream, a, h1, h2, h3, h4, h5, h6⟩

/-- The counters are the same in every terminal state (C01 `pipeline_final_bytes`). -/
theorem terminalC_counters {cls : Line → Cls} {key : Line → Bytes} {cfg : Config} (hW : 1 ≤ cfg.W) {datas : List Bytes}
    {sampled : List Bytes} {cnt : Counters} (h : TerminalC cls key cfg datas sampled cnt) :
    cnt = refCounters cls datas := by
  obtain ⟨s, stream, a, hr, hd, _, _, _, _, rfl⟩ := h
  have := (C01.pipeline_final_bytes cls cfg.R cfg.B cfg.K cfg.W cfg.batchSize hW datas cfg.timer hr hd).2
  have e1 : s.nRead = (seqTotals cls (allLines datas)).read := congrArg Totals.read this
  have e2 : s.nMatched = (seqTotals cls (allLines datas)).matched := congrArg Totals.matched this
  have e3 : s.nIgnored = (seqTotals cls (allLines datas)).ignored := congrArg Totals.ignored this
  simp [refCounters, e1, e2, e3]

/-- The matched-lines counter is the number of samples. -/
theorem refCounters_matched (cls : Line → Cls) (key : Line → Bytes) (datas : List Bytes) :
    (refCounters cls datas).matched = (refSamples cls key datas).length := by
  simp [refCounters, seqTotals, refSamples, seqMatches]

/-! ### the whole `reduce` run, for two histories that leave aggregators answering alike -/

theorem reduceOut_sameOutcome (a : ReduceArgs) (mk : Nat) (less : Bytes → Bytes → Bool)
    (hlt : StrictTotal less) {s₁ s₂ : AccGroup} (ho : ObsEq s₁ s₂) (r₁ : AccReach s₁) (r₂ : AccReach s₂)
    {o₁ o₂ : List Bytes} (hp : o₁.Perm o₂) (hnd : o₁.Nodup) (c : Counters) :
    SameOutcome (reduceOut a mk s₁ less o₁ c) (reduceOut a mk s₂ less o₂ c) := by
  unfold reduceOut
  rw [ho.groupColCount]
  by_cases hb : (s₁.groupColCount > 0 || a.table) = true
  · rw [if_pos hb, if_pos hb]
    apply SameOutcome.map
    · unfold reduceTable
      rw [ho.groupsWith, groupsWith_reduceSorter a s₂ less hlt o₁ hnd,
        groupsWith_reduceSorter a s₂ less hlt o₂ (hp.nodup_iff.mp hnd)]
      apply SameOutcome.map _ _ (groupsWith_outcome_perm s₂ _ (effLess_strictTotal a hlt) o₁ o₂ hp)
      intro gs _
      have hrow : C03.reduceTableRow s₁ = C03.reduceTableRow s₂ := funext ho.reduceTableRow
      simp [ho.groupCols, ho.dataCols, hrow, ho.dataCount r₁ r₂, ho.colCount, AccGroup.parseErrors]
    · intro _ _; rfl
  · rw [if_neg hb, if_neg hb]
    have : reduceSimple s₁ mk c = reduceSimple s₂ mk c := by
      simp [reduceSimple, ho.dataOf, ho.dataCols, AccGroup.parseErrors]
    rw [this]
    exact SameOutcome.rfl' _

theorem reduceCsv_sameOutcome {s₁ s₂ : AccGroup} (ho : ObsEq s₁ s₂) {o₁ o₂ : List Bytes} (hp : o₁.Perm o₂) :
    SameOutcome (reduceCsv s₁ o₁) (reduceCsv s₂ o₂) := by
  rw [ho.reduceCsv]
  unfold reduceCsv
  exact SameOutcome.map _ _ (groupsWith_outcome_perm s₂ bLt bLt_strictTotal o₁ o₂ hp) (fun _ _ => rfl)

/-- Two histories that are both refused (an expression panics), or both accepted with aggregators that answer
every accessor alike: the whole run – final render (with or without `--sort-reverse`), CSV text, exit status – ends
the same way, whatever order the two maps are ranged over in.  `less` is the pure comparison the render callback's
sorter denotes. -/
theorem reduceRun_sameOutcome (a : ReduceArgs) (mk : Nat) (s0 : AccGroup) (less : Bytes → Bytes → Bool)
    (hlt : StrictTotal less) (h₁ h₂ : List Bytes)
    (hrun : (∃ m₁ m₂, s0.run h₁ = .error m₁ ∧ s0.run h₂ = .error m₂) ∨
      ∃ s₁ s₂, s0.run h₁ = .ok s₁ ∧ s0.run h₂ = .ok s₂ ∧ ObsEq s₁ s₂ ∧ AccReach s₁ ∧ AccReach s₂)
    (ord₁ ord₂ : AccGroup → List Bytes) (hord₁ : ∀ s, AccReach s → IsRangeOf (ord₁ s) s.data) (hord₂ : ∀ s, AccReach s → IsRangeOf (ord₂ s) s.data)
    (c : Counters) (readErrors : Int) :
    SameOutcome (reduceRun a mk s0 less h₁ ord₁ c readErrors) (reduceRun a mk s0 less h₂ ord₂ c readErrors) := by
  unfold reduceRun
  rcases hrun with ⟨m₁, m₂, e1, e2⟩ | ⟨s₁, s₂, e1, e2, ho, r₁, r₂⟩
  · rw [e1, e2]; exact Or.inr ⟨m₁, m₂, rfl, rfl⟩
  · rw [e1, e2]
    simp only
    have hp : (ord₁ s₁).Perm (ord₂ s₂) := isRange_perm_obs ho.2 (hord₁ s₁ r₁) (hord₂ s₂ r₂)
    rcases reduceOut_sameOutcome a mk less hlt ho r₁ r₂ hp (hord₁ s₁ r₁).1 c with ⟨out, o1, o2⟩ | ⟨m₁, m₂, o1, o2⟩
    · rw [o1, o2]
      simp only
      rcases reduceCsv_sameOutcome ho hp with ⟨csv, c1, c2⟩ | ⟨m₁, m₂, c1, c2⟩
      · rw [c1, c2]
        exact Or.inl ⟨_, rfl, by simp [reduceExit, AccGroup.parseErrors]⟩
      · rw [c1, c2]; exact Or.inr ⟨m₁, m₂, rfl, rfl⟩
    · rw [o1, o2]; exact Or.inr ⟨m₁, m₂, rfl, rfl⟩

end Rare.C03
